"""The check pipeline (DESIGN.md section 6).

  1. regenerate the extracted fact tables for properties that have an extractor,
  2. lake build: the model, the property's theorems, the driver,
  3. audit: `#print axioms` of every property theorem, forbidden-token scan
     (thorough: leanchecker on the property's module),
  4. go build the harness against /repo's working tree (-tags verif) and run the
     correspondence (model vs implementation) and the direct oracles,
  5. classify against known_findings.json,
  6. write evidence/<id>.json, print KNOWN-FINDING / VIOLATION lines.
"""
import fcntl, json, os, re, shutil, subprocess, sys, time

ALLOWED_AXIOMS = {"propext", "Classical.choice", "Quot.sound"}
FORBIDDEN = ["sorry", "admit", "native_decide", "bv_decide", "implemented_by", "unsafe ", "maxHeartbeats 0"]

REPO = os.environ.get("VERIF_REPO", "/repo")

def goenv():
    e = dict(os.environ)
    e.update(GOFLAGS="-mod=mod", GOPROXY="off", GOSUMDB="off", GOTOOLCHAIN="local")
    return e

def sh(cmd, cwd=None, env=None, timeout=None):
    try:
        p = subprocess.run(cmd, cwd=cwd, env=env, stdout=subprocess.PIPE, stderr=subprocess.STDOUT, text=True, timeout=timeout)
        return p.returncode, p.stdout
    except subprocess.TimeoutExpired as ex:
        return 124, (ex.stdout or "") + "\nTIMEOUT"

def load_props(root):
    props = {}
    for line in open(os.path.join(root, "properties.jsonl")):
        line = line.strip()
        if line:
            p = json.loads(line)
            props[p["id"]] = p
    return props

def theorem_names(root, pid):
    path = os.path.join(root, "lean", "ErrModel", "Props", pid + ".lean")
    names = []
    ns = []
    if os.path.exists(path):
        for line in open(path):
            m = re.match(r"\s*namespace\s+([A-Za-z0-9_.']+)", line)
            if m:
                ns.append(m.group(1)); continue
            m = re.match(r"\s*end\s+([A-Za-z0-9_.']+)\s*$", line)
            if m and ns and ns[-1] == m.group(1):
                ns.pop(); continue
            m = re.match(r"\s*theorem\s+([A-Za-z0-9_.']+)", line)
            if m:
                full = ".".join(ns + [m.group(1)])
                names.append(full[len("ErrModel."):] if full.startswith("ErrModel.") else full)
    return names

def strip_comments(src):
    out, i, depth = [], 0, 0
    while i < len(src):
        if src.startswith("/-", i):
            depth += 1; i += 2; continue
        if src.startswith("-/", i) and depth > 0:
            depth -= 1; i += 2; continue
        if depth == 0:
            if src.startswith("--", i):
                j = src.find("\n", i)
                i = len(src) if j < 0 else j
                continue
            out.append(src[i])
        i += 1
    return "".join(out)

def scan_forbidden(root):
    hits = []
    lean = os.path.join(root, "lean")
    for dp, _, fs in os.walk(lean):
        if ".lake" in dp:
            continue
        for fn in fs:
            if fn.endswith(".lean"):
                p = os.path.join(dp, fn)
                code = strip_comments(open(p).read())
                for tok in FORBIDDEN:
                    if re.search(r"(?<![A-Za-z0-9_])" + re.escape(tok.strip()) + r"(?![A-Za-z0-9_])", code):
                        hits.append("%s: %s" % (os.path.relpath(p, root), tok.strip()))
                if re.search(r"^\s*axiom\s", code, re.M):
                    hits.append("%s: axiom" % os.path.relpath(p, root))
    return hits

def lean_stage(root, pid, tier, work):
    """returns (ok, obligations, discharged, detail dict)"""
    lean = os.path.join(root, "lean")
    detail = {}
    names = theorem_names(root, pid)
    target = "ErrModel.Props." + pid
    rc, out = sh(["lake", "build", target, "driver"], cwd=lean, timeout=3000)
    detail["lake_build_rc"] = rc
    if rc != 0:
        errs = [l for l in out.splitlines() if "error" in l][:20]
        detail["lake_errors"] = errs
        return False, len(names), 0, detail
    audit = os.path.join(work, "audit_%s.lean" % pid)
    with open(audit, "w") as f:
        f.write("import %s\n" % target)
        for n in names:
            f.write("#print axioms ErrModel.%s\n" % n)
    rc, out = sh(["lake", "env", "lean", audit], cwd=lean, timeout=1200)
    detail["audit_rc"] = rc
    axioms = {}
    cur = None
    text = out.replace("\n  ", " ")
    for m in re.finditer(r"'ErrModel\.([^']+)' (depends on axioms: \[([^\]]*)\]|does not depend on any axioms)", text):
        axs = [a.strip() for a in (m.group(3) or "").split(",") if a.strip()]
        axioms[m.group(1)] = axs
    bad = {n: a for n, a in axioms.items() if not set(a) <= ALLOWED_AXIOMS}
    missing = [n for n in names if n not in axioms]
    detail["axioms"] = {n: axioms.get(n) for n in names}
    discharged = len([n for n in names if n in axioms and n not in bad])
    forb = scan_forbidden(root)
    detail["forbidden_tokens"] = forb
    ok = rc == 0 and not bad and not missing and not forb and len(names) > 0
    if bad: detail["bad_axioms"] = bad
    if missing: detail["unaudited"] = missing
    if ok and tier == "thorough":
        rc, out = sh(["lake", "env", "leanchecker", target], cwd=lean, timeout=3000)
        detail["leanchecker_rc"] = rc
        if rc != 0:
            detail["leanchecker_out"] = out[-2000:]
            ok = False
    return ok, len(names), discharged, detail

def go_stage(root, pid, tier, seed, replay, work):
    gdir = os.path.join(root, "go")
    # go.sum must match /repo's
    try:
        import shutil
        shutil.copyfile(os.path.join(REPO, "go.sum"), os.path.join(gdir, "go.sum"))
    except Exception:
        pass
    binp = os.path.join(work, "harness-%d" % os.getpid())
    modflag = []
    if REPO != "/repo":
        # the registered commands check /repo; VERIF_REPO points the same machinery at another
        # source tree (a scratch worktree with a seeded change) through an alternate go.mod
        alt = os.path.join(work, "go.alt-%d.mod" % os.getpid())
        open(alt, "w").write(open(os.path.join(gdir, "go.mod")).read().replace("=> /repo", "=> " + REPO))
        shutil.copyfile(os.path.join(REPO, "go.sum"), alt[:-4] + ".sum")
        modflag = ["-modfile=" + alt]
    build = ["go", "build"] + modflag + ["-tags", "verif", "-o", binp, "./harness"]
    env = goenv()
    racelog = None
    if pid == "C18":
        # the concurrency property runs under the race detector; its reports go to a log file
        build = ["go", "build"] + modflag + ["-race", "-tags", "verif", "-o", binp, "./harness"]
        racelog = os.path.join(work, "race-%d" % os.getpid())
        env = dict(env, GORACE="log_path=%s exitcode=0 halt_on_error=0" % racelog)
    rc, out = sh(build, cwd=gdir, env=env, timeout=1200)
    if rc != 0:
        return None, {"go_build_rc": rc, "go_build_out": out[-3000:]}
    resp = os.path.join(work, "result-%s-%d.json" % (pid, os.getpid()))
    cmd = [binp, "-prop", pid, "-tier", tier, "-seed", str(seed),
           "-driver", os.path.join(root, "lean", ".lake", "build", "bin", "driver"), "-out", resp, "-root", root]
    if replay:
        cmd += ["-replay", replay]
    rc, out = sh(cmd, cwd=gdir, env=env, timeout=6 * 3600)
    res = None
    if os.path.exists(resp):
        try:
            res = json.load(open(resp))
        except Exception:
            res = None
        os.remove(resp)
    try:
        os.remove(binp)
    except OSError:
        pass
    if racelog and res is not None:
        import glob
        reports = []
        for f in sorted(glob.glob(racelog + ".*")):
            try:
                reports.append(open(f, errors="replace").read())
            except OSError:
                pass
            os.remove(f)
        n = sum(r.count("WARNING: DATA RACE") for r in reports)
        res.setdefault("oracle_evaluations", {})["C18.race_reports"] = n
        if n:
            text = "\n".join(reports)
            # one failure per distinct pair of top frames
            import re as _re
            res["oracle_failures"] = (res.get("oracle_failures") or []) + [{
                "case": "race", "oracle": "C18", "input": "see detail", "signature": "C18:data-race",
                "detail": "the race detector reported %d data race(s) while observers ran concurrently on a shared error value:\n%s" % (n, text[:6000])}]
            res["n_oracle_failures"] = (res.get("n_oracle_failures") or 0) + n
            fs = res.setdefault("failure_signatures", {}) or {}
            fs["C18:data-race"] = n
            res["failure_signatures"] = fs
    return res, {"harness_rc": rc, "harness_out": out[-3000:]}

def load_known(root):
    p = os.path.join(root, "known_findings.json")
    if os.path.exists(p):
        return json.load(open(p))
    return {"known": [], "fixed": []}

def main(root, args):
    if not args:
        print(__doc__); return 2
    pid = args[0]
    tier = os.environ.get("VERIF_TIER", "quick")
    replay = None
    i = 1
    while i < len(args):
        if args[i] == "--tier": tier = args[i + 1]; i += 2
        elif args[i] == "--replay": replay = args[i + 1]; i += 2
        else: i += 1
    if tier not in ("quick", "thorough"):
        tier = "quick"
    try:
        seed = int(os.environ.get("VERIF_SEED", "1"))
    except ValueError:
        seed = 1
    if replay:
        # a replay re-runs the recorded failing cases: same tier and seed (the generators are
        # deterministic in them), restricted by the harness to the recorded case ids
        try:
            rj = json.load(open(replay))
            if rj.get("tier") in ("quick", "thorough"):
                tier = rj["tier"]
            if isinstance(rj.get("seed"), int):
                seed = rj["seed"]
        except Exception as e:
            print("cannot read replay file %s: %s" % (replay, e)); return 2
        replay = os.path.abspath(replay)
    props = load_props(root)
    if pid not in props:
        print("unknown property", pid); return 2
    work = os.path.join(root, ".work")
    os.makedirs(work, exist_ok=True)
    os.makedirs(os.path.join(root, "evidence"), exist_ok=True)
    os.makedirs(os.path.join(root, "replays"), exist_ok=True)
    lock = open(os.path.join(work, "lock"), "w")
    fcntl.flock(lock, fcntl.LOCK_EX)
    t0 = time.time()

    notes = []
    # 1. extractors (properties that have one)
    ext_detail = None
    try:
        import extractors
        ext_detail = extractors.run(root, pid, work, goenv())
    except ImportError:
        pass

    # 2/3. Lean
    lean_ok, obligations, discharged, ldetail = lean_stage(root, pid, tier, work)

    # 4. Go
    res, gdetail = go_stage(root, pid, tier, seed, replay, work)

    # the golden-corpus leg (C09; its redactable sections speak for C06, its report sections for C15)
    if pid in ("C09", "C06", "C15") and res is not None:
        try:
            p = subprocess.run([sys.executable, os.path.join(root, "tools", "golden.py"), pid], stdout=subprocess.PIPE,
                               stderr=subprocess.PIPE, text=True, timeout=3000)
            g = json.loads(p.stdout)
        except Exception as ex:
            g = {"failures": [{"file": "-", "case": "-", "section": "-", "detail": "golden leg did not run: %r" % (ex,)}], "sections_compared": 0, "cases": 0}
        ev = res.setdefault("oracle_evaluations", {})
        ev[pid + ".golden_sections"] = g.get("sections_compared", 0)
        ev[pid + ".golden_cases"] = g.get("cases", 0)
        for f in g.get("failures", []):
            sig = "%s:golden:%s" % (pid, f["file"])
            res["oracle_failures"] = (res.get("oracle_failures") or []) + [{
                "case": "golden " + f["file"] + " / " + f["case"], "oracle": pid + ".golden", "input": f["case"], "signature": sig,
                "detail": "the repository's reference rendering differs in section %r: %s" % (f["section"], f["detail"])}]
            res["n_oracle_failures"] = (res.get("n_oracle_failures") or 0) + 1
            fs = res.get("failure_signatures") or {}
            fs[sig] = fs.get(sig, 0) + 1
            res["failure_signatures"] = fs

    known = load_known(root)
    known_sigs = {k["signature"]: k for k in known.get("known", []) if k.get("property") == pid}

    violations = []   # (kind, replay dict)
    known_hits = {}
    nfail = nmis = 0
    if res is None:
        violations.append(("harness", {"what": "the harness did not build or did not produce a result", "detail": gdetail}))
    else:
        nfail = res.get("n_oracle_failures", 0)
        nmis = res.get("n_mismatches", 0)
        unknown_fail = []
        for f in res.get("oracle_failures") or []:
            if f["signature"] in known_sigs:
                known_hits.setdefault(f["signature"], f)
            else:
                unknown_fail.append(f)
        # failures beyond the recorded sample share signatures; count by signature table
        for sig, cnt in (res.get("failure_signatures") or {}).items():
            if sig not in known_sigs and not any(f["signature"] == sig for f in unknown_fail):
                unknown_fail.append({"signature": sig, "oracle": "?", "case": "?", "input": "", "detail": "see harness result"})
        if unknown_fail:
            by_sig = {}
            for f in unknown_fail:
                by_sig.setdefault(f["signature"], f)
            violations.append(("failing-input", {"failures": list(by_sig.values())[:25],
                                                 "signature_counts": {k: v for k, v in (res.get("failure_signatures") or {}).items() if k not in known_sigs}}))
        mism = [m for m in (res.get("mismatches") or []) if m.get("signature") not in known_sigs]
        for m in (res.get("mismatches") or []):
            if m.get("signature") in known_sigs:
                known_hits.setdefault(m["signature"], m)
        if mism and not unknown_fail:
            violations.append(("correspondence", {"what": "model and implementation disagree", "first": mism[:3]}))
        for n in res.get("notes") or []:
            notes.append(n)
            if n.startswith("driver error"):
                violations.append(("driver", {"what": n}))
    if not lean_ok:
        has_input = any(v[0] == "failing-input" for v in violations)
        if not has_input:
            violations.append(("obligation", {"what": "a Lean proof obligation or the audit no longer checks", "detail": ldetail}))
    # C16: the harness's call table must cover exactly the extracted exported functions
    if pid == "C16" and ext_detail and res is not None:
        want = set((ext_detail.get("summary") or {}).get("depth", {}).get("exported_names") or [])
        have = set((res.get("extra") or {}).get("c16_table_names") or [])
        if want != have:
            violations.append(("extracted-fact", {"what": "the harness call table and the extracted exported functions differ",
                                                  "only_in_source": sorted(want - have), "only_in_harness": sorted(have - want)}))
    # C10: the harness's nil table must cover exactly the extracted exported functions that the
    # theorem C10_ctor_table speaks about (all but the hand-written exemptions of Props/C10.lean)
    if pid == "C10" and ext_detail and res is not None:
        want = set((ext_detail.get("summary") or {}).get("ctors", {}).get("exported_names") or [])
        try:
            src = open(os.path.join(root, "lean", "ErrModel", "Props", "C10.lean")).read()
            blk = src[src.index("def nilExempt"):]
            blk = blk[:blk.index("]")]
            exempt = set(re.findall(r'b!"([^"]*)"', blk))
        except Exception:
            exempt = set()
        want -= exempt
        have = set((res.get("extra") or {}).get("c10_table_names") or [])
        if want and not want <= have:
            violations.append(("extracted-fact", {"what": "exported constructors of the source that the harness's nil table does not call",
                                                  "only_in_source": sorted(want - have)}))
    if ext_detail and ext_detail.get("violations"):
        for v in ext_detail["violations"]:
            violations.append(("extracted-fact", v))

    # 6. report
    for sig, f in known_hits.items():
        print("KNOWN-FINDING: property=%s %s" % (pid, known_sigs[sig].get("what", sig)))
    rc = 0
    replay_paths = []
    stale = os.path.join(root, "replays", "%s-%d-%s.json" % (pid, seed, tier))
    if not violations and os.path.exists(stale):
        os.remove(stale)
    if violations:
        rc = 1
        has_input = any(v[0] in ("failing-input",) for v in violations) or \
            any(v[0] == "extracted-fact" and v[1].get("failing_input") for v in violations)
        rp = os.path.join(root, "replays", "%s-%d-%s.json" % (pid, seed, tier))
        with open(rp, "w") as f:
            json.dump({"property": pid, "seed": seed, "tier": tier,
                       "violations": [{"kind": k, **v} for k, v in violations]}, f, indent=1, default=str)
        line = "VIOLATION property=%s replay=%s" % (pid, rp)
        if not has_input:
            line += " no-failing-input-found"
        print(line)
        replay_paths.append(rp)

    # 7. evidence
    wall = time.time() - t0
    cov = {
        "obligations": max(obligations, 1),
        "discharged": discharged,
        "checker_cmd": "cd lean && lake build ErrModel.Props.%s driver && lake env lean .work/audit_%s.lean  (#print axioms of every theorem in Props/%s.lean%s)" % (pid, pid, pid, "; lake env leanchecker" if tier == "thorough" else ""),
        "trusted_base": [
            "Lean 4.33.0 kernel; axioms allowed: propext, Classical.choice, Quot.sound (audited per theorem below)",
            "hand-written model lean/ErrModel/*.lean tied to /repo by the correspondence run of this check (streams below); strength = generator reach",
            "Go harness /verif/go/harness (recipes, canonicalisation, comparator, oracles)",
            "modelled by contract, not verified: github.com/cockroachdb/redact, fmt, gogo protobuf marshalling, logtags",
        ],
        "theorems": ldetail.get("axioms"),
        "lean": {k: v for k, v in ldetail.items() if k != "axioms"},
    }
    if res is not None:
        cov.update({
            "evaluations": res.get("cases", 0),
            "distinct_nontrivial": res.get("distinct_nontrivial", 0),
            "rule": res.get("rule", "seeded recipe generator (SplitMix64) + exhaustive kind pairs; distinct = distinct recipe text; non-trivial = built a non-nil error and every stream was compared"),
            "samples": res.get("samples") or ["<none>"],
            "traces_validated_against_impl": res.get("cases", 0),
            "stream_comparisons": res.get("stream_comparisons"),
            "oracle_evaluations": res.get("oracle_evaluations"),
            "op_counts": res.get("op_counts"),
            "depth_histogram": res.get("depth_histogram"),
            "kind_pairs_hit": res.get("kind_pairs_hit"),
            "n_mismatches": nmis,
            "n_oracle_failures": nfail,
            "known_findings_hit": sorted(known_hits.keys()),
            "extra": res.get("extra"),
        })
    else:
        cov.update({"evaluations": 0, "distinct_nontrivial": 0, "rule": "harness failed", "samples": ["<none>"]})
    if ext_detail:
        cov["extracted_facts"] = ext_detail.get("summary")
    ev = {
        "property_id": pid, "tier": tier, "seed": seed, "level": "proof",
        "coverage": cov,
        "assumptions": [
            "the theorems are about the Lean model; the model is tied to the code by differential testing on generated recipes",
            "stack frames, redact/fmt results for non-error arguments are inputs of the model (read off the real objects)",
        ] + notes,
        "wall_s": round(wall, 2),
        "violations": len(violations),
    }
    with open(os.path.join(root, "evidence", pid + ".json"), "w") as f:
        json.dump(ev, f, indent=1, default=str)
    return rc
