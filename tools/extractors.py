"""Regenerated facts (DESIGN.md section 5): run the go/ast extractors on /repo's
current source and rewrite lean/ErrModel/Generated/*.lean (old file removed first;
the content is only rewritten when it changed so that lake stays incremental)."""
import json, os, subprocess

GEN = {"C16": ["depth"], "C10": ["ctors"], "C05": ["decoders"], "C18": ["effects"], "C07": ["unwrap"], "C14": ["unwrap"]}

def _write_if_changed(path, content):
    old = None
    if os.path.exists(path):
        old = open(path).read()
    if old != content:
        if os.path.exists(path):
            os.remove(path)
        with open(path, "w") as f:
            f.write(content)

def _build(root, work, env):
    binp = os.path.join(work, "extract-%d" % os.getpid())
    p = subprocess.run(["go", "build", "-o", binp, "./extract"], cwd=os.path.join(root, "go"), env=env,
                       stdout=subprocess.PIPE, stderr=subprocess.STDOUT, text=True)
    if p.returncode != 0:
        return None, p.stdout
    return binp, ""

def _run(binp, what, env):
    p = subprocess.run([binp, what, os.environ.get("VERIF_REPO", "/repo")], env=env, stdout=subprocess.PIPE, stderr=subprocess.PIPE, text=True)
    if p.returncode != 0:
        return None, p.stderr
    return json.loads(p.stdout), p.stderr

def lean_str(s):
    return 'b!"%s"' % s.replace("\\", "\\\\").replace('"', '\\"')

def gen_depth(root, facts):
    fns = facts["functions"]
    idx = {f["name"]: i for i, f in enumerate(fns)}
    prim = {"runtime.Callers": 1000, "runtime.Caller": 1001}
    lines = ["import ErrModel.Depth",
             "/- GENERATED on every run by tools/extractors.py from /repo's source (go/extract depth). Do not edit. -/",
             "namespace ErrModel.Depth", "", "def depthFacts : List Fn := ["]
    rows = []
    for f in fns:
        es = []
        for e in f["edges"] or []:
            c = prim.get(e["callee"], idx.get(e["callee"], 9999))
            no_depth = e["src"] == "-"
            es.append("⟨%d, %d, %d, %s, %s⟩" % (c, e["a"], e["b"], "true" if e["known"] else "false",
                                                "true" if no_depth else "false"))
        rows.append("  ⟨%s, %s, %s, [%s]⟩" % (lean_str(f["name"]), "true" if f["has_depth"] else "false",
                                             "true" if f["exported"] else "false", ", ".join(es)))
    lines.append(",\n".join(rows))
    lines += ["]", "", "end ErrModel.Depth", ""]
    _write_if_changed(os.path.join(root, "lean", "ErrModel", "Generated", "DepthFacts.lean"), "\n".join(lines))
    return {"functions": len(fns), "exported": sum(1 for f in fns if f["exported"]),
            "exported_names": sorted(f["name"] for f in fns if f["exported"]),
            "unknown_edges": [(f["name"], e["src"], e["pos"]) for f in fns for e in (f["edges"] or []) if not e["known"]]}

def _site(s):
    return "(%s, %s, %s)" % tuple(lean_plain(x) for x in (s["pkg"], s["func"], s["what"]))

def lean_plain(s):
    return '"%s"' % s.replace("\\", "\\\\").replace('"', '\\"')

def gen_effects(root, facts):
    rm = facts.get("recv_mutations") or []
    gw = facts.get("global_writes") or []
    sf = facts.get("sync_fields") or []
    et = facts.get("error_types") or []
    lines = ["/- GENERATED on every run by tools/extractors.py from /repo's source (go/extract effects). Do not edit. -/",
             "namespace ErrModel.Effects", "",
             "/-- the types of the repository that have an Error() method -/",
             "def errorTypes : List String := [" + ", ".join(lean_plain(t) for t in et) + "]", "",
             "/-- (package, method, lvalue): writes through the receiver in a method of an error type -/",
             "def recvMutations : List (String × String × String) := [" + ", ".join(_site(s) for s in rm) + "]", "",
             "/-- (package, function, lvalue): writes to package-level variables outside init -/",
             "def globalWrites : List (String × String × String) := [" + ",\n  ".join(_site(s) for s in gw) + "]", "",
             "/-- (package, type, field type): fields of error types that mention sync. or atomic. -/",
             "def syncFields : List (String × String × String) := [" + ", ".join(_site(s) for s in sf) + "]", "",
             "def functionsScanned : Nat := %d" % facts.get("functions", 0), "",
             "end ErrModel.Effects", ""]
    _write_if_changed(os.path.join(root, "lean", "ErrModel", "Generated", "EffectsFacts.lean"), "\n".join(lines))
    return {"error_types": len(et), "functions": facts.get("functions", 0), "recv_mutations": rm, "global_writes": len(gw), "sync_fields": sf}

def gen_unwrap(root, facts):
    ms = facts.get("methods") or []
    hf = facts.get("hidden_fields") or []
    lines = ["import ErrModel.Basic.Bytes",
             "/- GENERATED on every run by tools/extractors.py from /repo's source (go/extract unwrap). Do not edit. -/",
             "namespace ErrModel.Unwrap", "",
             "structure M where",
             "  pkg : Str",
             "  type : Str",
             "  method : Str",
             "  field : Str        -- the receiver field returned; begins with '?' when the body is not `return recv.field`",
             "  hidden : Bool      -- that field is one the package ships as an EncodeError payload (not a cause)",
             "  deriving Repr, DecidableEq", "",
             "/-- (package, field): fields passed to EncodeError by some function of the package -/",
             "def hiddenFields : List (Str × Str) := [" + ", ".join("(%s, %s)" % (lean_str(a), lean_str(b)) for a, b in hf) + "]", "",
             "/-- every Cause / Unwrap method of a struct type that has an error-typed field -/",
             "def methods : List M := ["]
    lines.append(",\n".join("  ⟨%s, %s, %s, %s, %s⟩" % (lean_str(m["pkg"]), lean_str(m["type"]), lean_str(m["method"]), lean_str(m["field"]),
                                                       "true" if m["hidden"] else "false") for m in ms))
    lines += ["]", "", "def typesWithErrorFields : Nat := %d" % facts.get("types", 0), "", "end ErrModel.Unwrap", ""]
    _write_if_changed(os.path.join(root, "lean", "ErrModel", "Generated", "UnwrapFacts.lean"), "\n".join(lines))
    return {"methods": len(ms), "hidden_fields": hf, "types": facts.get("types", 0),
            "exposed": [m for m in ms if m["hidden"]], "unrecognised": [m for m in ms if m["field"].startswith("?")]}

def run(root, pid, work, env):
    if pid not in GEN:
        return None
    binp, err = _build(root, work, env)
    if binp is None:
        return {"summary": {"error": err[-2000:]}, "violations": [{"what": "extractor does not build", "detail": err[-2000:]}]}
    summary = {}
    try:
        for what in GEN[pid]:
            facts, err = _run(binp, what, env)
            if facts is None:
                summary[what] = {"error": (err or "")[-2000:]}
                continue
            if what == "depth":
                summary[what] = gen_depth(root, facts)
            elif what == "effects":
                summary[what] = gen_effects(root, facts)
            elif what == "unwrap":
                summary[what] = gen_unwrap(root, facts)
            elif what == "ctors":
                import extract_ctors
                summary[what] = extract_ctors.gen(root, facts, _write_if_changed)
            elif what == "decoders":
                import extract_decoders
                summary[what] = extract_decoders.gen(root, facts, _write_if_changed)
    finally:
        try:
            os.remove(binp)
        except OSError:
            pass
    return {"summary": summary, "violations": []}
