#!/usr/bin/env python3
"""Regenerates the Lean fact tables (lean/ErrModel/Generated/*.lean) from /repo's current source
(or VERIF_REPO).  Run by setup.sh before the Lean build, and by every check of the properties
that use them, so that a stale table can never be what the theorems are checked against."""
import os, sys
root = os.path.dirname(os.path.dirname(os.path.abspath(__file__)))
sys.path.insert(0, os.path.join(root, "tools"))
import extractors, checklib
work = os.path.join(root, ".work")
os.makedirs(work, exist_ok=True)
bad = 0
for pid in sorted(extractors.GEN):
    r = extractors.run(root, pid, work, checklib.goenv())
    if r and (r.get("violations") or any(isinstance(v, dict) and v.get("error") for v in (r.get("summary") or {}).values())):
        print("regen_facts:", pid, r)
        bad = 1
print("facts regenerated for", ", ".join(sorted(extractors.GEN)))
sys.exit(bad)
