"""Generated/DecoderFacts.lean from `go/extract decoders` (C05): every registered decoder as a
straight-line DecProg program.  Slice names become per-decoder numbers (names kept in comments)."""
import os

def _s(x):
    return '"%s"' % x.replace("\\", "\\\\").replace('"', '\\"')

def gen(root, facts, write_if_changed):
    decs = facts.get("decoders") or []
    lines = ["import ErrModel.DecProg",
             "/- GENERATED on every run by tools/extract_decoders.py from /repo's source (go/extract decoders). Do not edit. -/",
             "namespace ErrModel.DecProg", "", "def decoders : List Decoder := ["]
    rows, unsafe, unknown = [], [], []
    alt_rows = []
    for d in decs:
        ids = {}
        ops = []
        for o in d.get("ops") or []:
            if o["op"] == "assert":
                ops.append(".assert %s" % ("true" if o["ok"] else "false"))
                if not o["ok"]:
                    unsafe.append("%s.%s: unchecked payload assertion at %s %s" % (d["pkg"], d["func"], o["pos"], o.get("what", "")))
            elif o["op"] == "require":
                i = ids.setdefault(o["slice"], len(ids))
                ops.append(".require %d %d" % (i, o["n"]))
            elif o["op"] == "index":
                i = ids.setdefault(o["slice"], len(ids))
                ops.append(".index %d %d %d" % (i, o["n"], o["under"]))
            else:
                ops.append(".unknown")
                unknown.append("%s.%s: %s at %s" % (d["pkg"], d["func"], o.get("what", "?"), o["pos"]))
        names = ", ".join("%d=%s" % (v, k) for k, v in sorted(ids.items(), key=lambda kv: kv[1]))
        (alt_rows if d.get("alt") else rows).append("  ⟨%s, %s, %s, %s, [%s]⟩%s" % (_s(d["pkg"]), _s(d["func"]), _s(d["key"]), _s(d["kind"]), ", ".join(ops),
                                                  ("   -- " + names) if names else ""))
    # commas must precede the trailing comments
    body = []
    for i, r in enumerate(rows):
        if i < len(rows) - 1:
            if "   -- " in r:
                a, b = r.split("   -- ", 1)
                r = a + ",   -- " + b
            else:
                r = r + ","
        body.append(r)
    lines += body
    lines += ["]", "", "/-- additional paths of the decoders above (`if x, ok := payload.(*T); ok { … return … }`: the body is one",
              "    path, what follows the statement another) -/", "def decoderPaths : List Decoder := ["]
    abody = []
    for i, r in enumerate(alt_rows):
        if i < len(alt_rows) - 1:
            if "   -- " in r:
                a, b = r.split("   -- ", 1)
                r = a + ",   -- " + b
            else:
                r = r + ","
        abody.append(r)
    lines += abody
    lines += ["]", "", "end ErrModel.DecProg", ""]
    write_if_changed(os.path.join(root, "lean", "ErrModel", "Generated", "DecoderFacts.lean"), "\n".join(lines))
    # alternative paths are rows of the table (each must pass the checker) but not decoders of their own
    lines_alt = [d for d in decs if d.get("alt")]
    return {"decoders": len(decs) - len(lines_alt), "alternative_paths": len(lines_alt), "by_kind": {k: sum(1 for d in decs if d["kind"] == k) for k in ("leaf", "wrapper", "multi")},
            "ops": sum(len(d.get("ops") or []) for d in decs), "unchecked_assertions": unsafe, "unknown_constructs": unknown,
            "names": sorted("%s.%s" % (d["pkg"], d["func"]) for d in decs)}
