"""Generated/CtorFacts.lean from `go/extract ctors` (C10): the nil-guard / forwarding structure of
every function `(… err error …) error` of the repository."""
import os

def _b(x):
    return 'b!"%s"' % x.replace("\\", "\\\\").replace('"', '\\"')

def gen(root, facts, write_if_changed):
    cs = facts.get("ctors") or []
    idx = {c["name"]: i for i, c in enumerate(cs)}
    lines = ["import ErrModel.CtorProg",
             "/- GENERATED on every run by tools/extract_ctors.py from /repo's source (go/extract ctors). Do not edit. -/",
             "namespace ErrModel.CtorProg", "", "def ctors : List Ctor := ["]
    rows = []
    for c in cs:
        if c["kind"] == "guard":
            k = ".guard"
        elif c["kind"] == "forward":
            k = ".forward [%s]" % ", ".join("(%d, %d)" % (idx.get(s["callee"], 9999), s["argpos"]) for s in c.get("chain") or [])
        else:
            k = ".none"
        rows.append("  ⟨%s, %s, %d, %s⟩" % (_b(c["name"]), "true" if c["exported"] else "false", c["param"], k))
    lines.append(",\n".join(rows))
    lines += ["]", "", "end ErrModel.CtorProg", ""]
    write_if_changed(os.path.join(root, "lean", "ErrModel", "Generated", "CtorFacts.lean"), "\n".join(lines))
    exp = [c for c in cs if c["exported"]]
    return {"functions": len(cs), "exported": len(exp),
            "by_kind": {k: sum(1 for c in exp if c["kind"] == k) for k in ("guard", "forward", "none")},
            "exported_unclassified": sorted(c["name"] for c in exp if c["kind"] == "none"),
            "exported_names": sorted(c["name"] for c in exp)}
