#!/usr/bin/env python3
"""Writes MANIFEST.json from the table below (claimed properties) — everything
else in properties.jsonl is listed under not_applicable with its reason."""
import json, os
ROOT = os.path.dirname(os.path.dirname(os.path.abspath(__file__)))
props = [json.loads(l) for l in open(os.path.join(ROOT, "properties.jsonl")) if l.strip()]
CLAIMED = json.load(open(os.path.join(ROOT, "tools", "claims.json")))
checks, na = [], []
for p in props:
    pid = p["id"]
    if pid in CLAIMED:
        c = CLAIMED[pid]
        checks.append({
            "property_id": pid,
            "quick_cmd": "./check %s --tier quick" % pid,
            "thorough_cmd": "./check %s --tier thorough" % pid,
            "evidence_file": "evidence/%s.json" % pid,
            "replay_cmd_template": "./check %s --replay {path}" % pid,
            "engine": "lean-model+correspondence",
            "level_claimed": {"category": "proof", "text": c["text"], "design_ref": "DESIGN.md section 8 (%s)" % pid},
            "level_note": c["note"],
            "technique": c["technique"],
        })
    else:
        na.append({"property_id": pid, "reason": "not yet built in this revision of the framework (planned: DESIGN.md section 8 / 12); no check is claimed for it"})
m = {
    "version": 1,
    "setup_cmd": "./setup.sh",
    "hooks": {
        "guard": "verif",
        "enable": "go build -tags verif (the harness module replaces github.com/cockroachdb/errors => /repo)",
        "baseline_off_cmd": "cd /repo && go test -vet=off -count=1 ./...",
        "source_commits": json.load(open(os.path.join(ROOT, "tools", "hook_commits.json"))) if os.path.exists(os.path.join(ROOT, "tools", "hook_commits.json")) else [],
        "add_only": True,
    },
    "engines": [
        {"name": "lean-model+correspondence", "path": "lean/ (model, theorems, driver), go/harness (correspondence + oracles), tools/ (pipeline, extractors)",
         "serves_properties": sorted(CLAIMED.keys()),
         "kind_free_text": "Lean 4 proofs over a hand-written executable model; model tied to /repo on every run by differential correspondence and regenerated fact tables"}],
    "checks": checks,
    "not_applicable": na,
    "notes": "Every check rebuilds the Lean model/driver (lake) and the Go harness against /repo's working tree. See DESIGN.md.",
}
json.dump(m, open(os.path.join(ROOT, "MANIFEST.json"), "w"), indent=1)
print("claimed", sorted(CLAIMED.keys()), "n/a", [x["property_id"] for x in na])
