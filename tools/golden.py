#!/usr/bin/env python3
"""golden.py — the C09 "golden corpus" leg.

The repository's curated leaf x wrapper corpus (fmttests/testdata/format/*, ~480 cases, each with
Error(), %v/%s/%q/%x/%X, %+v, Formattable variants, redactable renderings, refused verbs and the
Sentry report) is re-rendered from /repo's CURRENT source in a scratch copy (the datadriven tests
run with -rewrite, outside /repo) and compared with the vetted reference renderings committed in
/repo, section by section, modulo what differs between toolchains: the naming of closures in stack
traces.  Go-syntax dumps (%#v and the header dump of each case) print unexported struct fields and
are not compared.  Prints a JSON object {files, cases, sections_compared, failures:[...]}."""
import json, os, re, shutil, subprocess, sys, tempfile

ENV = dict(os.environ, GOFLAGS="-mod=mod", GOPROXY="off", GOSUMDB="off", GOTOOLCHAIN="local")

def norm(s):
    s = re.sub(r'fmttests\.(glob\.+|init\.)func\w+(\.\.\.)?', 'fmttests.FUNC', s)
    s = re.sub(r'fmttests\.(glob\.|init)\)\.\.\.funcNN\.\.\.', 'fmttests.FUNC)', s)
    s = re.sub(r'\(\d+\) fmttests\.(glob\.|init)', '(N) fmttests.X', s)
    return s

def cases(text):
    """split a datadriven file into cases: (command lines, {section header: body})"""
    out = []
    blocks = re.split(r'(?m)^(?=run\n)', text)
    for b in blocks:
        if not b.startswith('run\n'):
            continue
        head, _, rest = b.partition('\n----\n')
        secs = {}
        cur = None
        for line in rest.split('\n'):
            if line.startswith('== ') or line.startswith('====='):
                cur = line
                secs.setdefault(cur, [])
            elif cur is not None:
                secs[cur].append(line)
        out.append((head, secs))
    return out

def owner(sec):
    """which property a section of the corpus speaks about"""
    if sec.startswith('== Message payload') or sec.startswith('== Exception') or sec.startswith('== Extra'):
        return 'C15'
    if 'via redact' in sec:
        return 'C06'
    return 'C09'

def main():
    repo = os.environ.get('VERIF_REPO', '/repo')
    only = sys.argv[1] if len(sys.argv) > 1 else None
    tmp = tempfile.mkdtemp(prefix='verif-golden-')
    res = {"files": 0, "cases": 0, "sections_compared": 0, "failures": []}
    try:
        dst = os.path.join(tmp, 'repo')
        shutil.copytree(repo, dst, ignore=shutil.ignore_patterns('.git'))
        p = subprocess.run(['go', 'test', '-vet=off', '-count=1', './fmttests', '-run', 'TestDatadriven', '-rewrite'],
                           cwd=dst, env=ENV, stdout=subprocess.PIPE, stderr=subprocess.STDOUT, text=True, timeout=1800)
        res["rewrite_rc"] = p.returncode
        if p.returncode != 0:
            res["failures"].append({"file": "-", "case": "-", "section": "-", "detail": "re-rendering the corpus failed: " + p.stdout[-1500:]})
            return res
        d0 = os.path.join(repo, 'fmttests', 'testdata', 'format')
        d1 = os.path.join(dst, 'fmttests', 'testdata', 'format')
        for f in sorted(os.listdir(d0)):
            a = cases(norm(open(os.path.join(d0, f), errors='replace').read()))
            b = cases(norm(open(os.path.join(d1, f), errors='replace').read()))
            res["files"] += 1
            if len(a) != len(b):
                res["failures"].append({"file": f, "case": "-", "section": "-", "detail": "%d cases now, %d in the reference" % (len(b), len(a))})
                continue
            for (ha, sa), (hb, sb) in zip(a, b):
                res["cases"] += 1
                name = ' '.join(ha.split('\n')[1:2])
                for sec, body in sa.items():
                    if sec.startswith('== %#v') or sec.startswith('====='):
                        continue
                    if only and owner(sec) != only:
                        continue
                    res["sections_compared"] += 1
                    nb = sb.get(sec)
                    if nb is None:
                        # the header text encodes a verdict ("= Error(), good" / "IRREGULAR"): a changed verdict is a difference
                        res["failures"].append({"file": f, "case": name, "section": sec, "detail": "section missing in the re-rendering; now: " + '; '.join(k for k in sb if k[:6] == sec[:6])[:300]})
                    elif nb != body:
                        i = next((k for k in range(min(len(nb), len(body))) if nb[k] != body[k]), min(len(nb), len(body)))
                        res["failures"].append({"file": f, "case": name, "section": sec,
                                                "detail": "line %d: reference %r, now %r" % (i, (body[i] if i < len(body) else '<end>')[:160], (nb[i] if i < len(nb) else '<end>')[:160])})
    finally:
        shutil.rmtree(tmp, ignore_errors=True)
    return res

if __name__ == '__main__':
    r = main()
    json.dump(r, sys.stdout, indent=1)
    sys.exit(0)
