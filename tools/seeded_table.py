#!/usr/bin/env python3
"""Regenerates the table of section 14.5 of DESIGN.md from seeded/*/meta.json (between the table header
and the paragraph that starts with 'Checks strengthened after a miss')."""
import json, glob, os, re
rows = []
for d in sorted(glob.glob("/verif/seeded/*/")):
    m = json.load(open(d + "meta.json"))
    name = os.path.basename(d.rstrip("/"))
    files = ", ".join("`%s`" % f for f in (m.get("files") or []))
    what = (m.get("what") or "").replace("|", "/").replace("\n", " ")[:170]
    caught = ", ".join(m.get("caught_by") or []) or "—"
    rows.append("| `%s` | %s | %s | %s |" % (name, files, what, caught))
p = "/verif/DESIGN.md"
s = open(p).read()
a = s.index("| change | file | what | caught by |")
b = s.index("Checks strengthened after a miss")
s = s[:a] + "| change | file | what | caught by |\n|---|---|---|---|\n" + "\n".join(rows) + "\n\n" + s[b:]
open(p, "w").write(s)
print(len(rows), "rows")
