#!/usr/bin/env python3
"""reseed.py [name-prefix...]: re-run, against every stored seeded change (seeded/<name>/patch.diff), the
checks that caught it (meta.json caught_by, else its own property); /repo must be clean; each patch is
applied with git apply and undone with git checkout.  Prints which are still caught and updates
meta.json["recheck"]."""
import json, os, subprocess, sys, glob, time
ENV = dict(os.environ, GOFLAGS="-mod=mod", GOPROXY="off", GOSUMDB="off", GOTOOLCHAIN="local")
def sh(cmd, cwd=None):
    p = subprocess.run(cmd, cwd=cwd, env=ENV, stdout=subprocess.PIPE, stderr=subprocess.STDOUT, text=True)
    return p.returncode, p.stdout
def main():
    pref = sys.argv[1:]
    rc, out = sh(["git", "-C", "/repo", "status", "--porcelain"])
    if out.strip():
        print("/repo not clean"); return 2
    lost = []
    for d in sorted(glob.glob("/verif/seeded/*/")):
        name = os.path.basename(d.rstrip("/"))
        if pref and not any(name.startswith(p) for p in pref):
            continue
        meta = json.load(open(d + "meta.json"))
        checks = meta.get("caught_by") or [meta["property"]]
        rc, out = sh(["git", "-C", "/repo", "apply", d + "patch.diff"])
        if rc != 0:
            print(name, "PATCH DOES NOT APPLY"); continue
        caught = []
        try:
            for c in checks:
                rc, out = sh(["/verif/check", c, "--tier", "quick"], cwd="/verif")
                if rc != 0 and "VIOLATION" in out:
                    caught.append(c)
                    break
        finally:
            sh(["git", "-C", "/repo", "checkout", "--", "."])
        meta["recheck"] = {"when": time.strftime("%Y-%m-%d %H:%M"), "still_caught_by": caught}
        json.dump(meta, open(d + "meta.json", "w"), indent=1)
        print(name, "caught by", caught if caught else "NOTHING")
        if not caught:
            lost.append(name)
    print("LOST:", lost)
    return 1 if lost else 0
sys.exit(main())
