#!/usr/bin/env python3
"""reseed.py [name-prefix...]: re-run, against every stored seeded change (seeded/<name>/patch.diff), the
checks that caught it (meta.json caught_by, else its own property).  Each patch is applied in ONE scratch
worktree of /repo's HEAD (outside /repo and /verif) that the checks are pointed at through VERIF_REPO;
/repo itself is not touched.  Paths are relative to this checkout (works in a `vp run` snapshot).
Prints which changes are still caught; exit 1 if one is lost.  (meta.json is updated only with --write.)"""
import json, os, subprocess, sys, glob, time
ROOT = os.path.dirname(os.path.dirname(os.path.abspath(__file__)))
ENV = dict(os.environ, GOFLAGS="-mod=mod", GOPROXY="off", GOSUMDB="off", GOTOOLCHAIN="local")
def sh(cmd, cwd=None, env=None):
    p = subprocess.run(cmd, cwd=cwd, env=env or ENV, stdout=subprocess.PIPE, stderr=subprocess.STDOUT, text=True)
    return p.returncode, p.stdout
def main():
    args = [a for a in sys.argv[1:] if not a.startswith("--")]
    write = "--write" in sys.argv
    wt = "/tmp/wt/reseed_%d" % os.getpid()
    sh(["git", "-C", "/repo", "worktree", "add", "-q", "--detach", wt, "HEAD"])
    env = dict(ENV, VERIF_REPO=wt)
    lost = []
    try:
        for d in sorted(glob.glob(os.path.join(ROOT, "seeded", "*", ""))):
            name = os.path.basename(d.rstrip("/"))
            if args and not any(name.startswith(p) for p in args):
                continue
            meta = json.load(open(d + "meta.json"))
            checks = meta.get("caught_by") or [meta["property"]]
            sh(["git", "checkout", "--", "."], cwd=wt)
            rc, out = sh(["git", "apply", d + "patch.diff"], cwd=wt)
            if rc != 0:
                print(name, "PATCH DOES NOT APPLY", flush=True); lost.append(name); continue
            caught = []
            for c in checks:
                rc, out = sh([os.path.join(ROOT, "check"), c, "--tier", "quick"], cwd=ROOT, env=env)
                if rc != 0 and "VIOLATION" in out:
                    caught.append(c)
                    break
            if write:
                meta["recheck"] = {"when": time.strftime("%Y-%m-%d %H:%M"), "still_caught_by": caught}
                json.dump(meta, open(d + "meta.json", "w"), indent=1)
            print(name, "caught by", caught if caught else "NOTHING", flush=True)
            if not caught:
                lost.append(name)
    finally:
        sh(["git", "-C", "/repo", "worktree", "remove", "--force", wt])
    print("LOST:", lost, flush=True)
    return 1 if lost else 0
sys.exit(main())
