#!/usr/bin/env python3
"""seeded.py [--confirm-only | --use-confirmed] [--no-restore] <srcdir> <name> [checks...]
--confirm-only: only the scratch-worktree confirmation, result in /tmp/wt/confirm_<name>.json (can run in parallel)
--use-confirmed: skip the confirmation, read that file
--no-restore: do not re-run the checks on the unchanged tree afterwards (the caller does it once)
Confirms a seeded change (srcdir has patch.diff, demo_test.go, meta.json) in a scratch
worktree of /repo's HEAD, then applies it to /repo, runs the given checks (default: the
property's own), undoes it, and stores everything under /verif/seeded/<name>/."""
import json, os, shutil, subprocess, sys, time
ENV = dict(os.environ, GOFLAGS="-mod=mod", GOPROXY="off", GOSUMDB="off", GOTOOLCHAIN="local")
def sh(cmd, cwd=None, timeout=3000):
    p = subprocess.run(cmd, cwd=cwd, env=ENV, shell=isinstance(cmd, str), stdout=subprocess.PIPE, stderr=subprocess.STDOUT, text=True, timeout=timeout)
    return p.returncode, p.stdout
def passing(cwd):
    rc, out = sh(["go", "test", "-json", "-vet=off", "-count=1", "./..."], cwd=cwd)
    ok = set()
    for line in out.splitlines():
        try:
            ev = json.loads(line)
        except Exception:
            continue
        if ev.get("Action") == "pass" and ev.get("Test"):
            ok.add(ev["Package"] + "::" + ev["Test"])
    return ok
def main():
    flags = [a for a in sys.argv[1:] if a.startswith("--")]
    sys.argv = [sys.argv[0]] + [a for a in sys.argv[1:] if not a.startswith("--")]
    src, name = sys.argv[1], sys.argv[2]
    meta = json.load(open(os.path.join(src, "meta.json")))
    pid = meta["property"]
    checks = sys.argv[3:] or [pid]
    wt = "/tmp/wt/confirm_" + name
    cfile = "/tmp/wt/confirm_%s.json" % name
    if "--use-confirmed" in flags:
        report = json.load(open(cfile))
        return apply_and_check(report, src, name, checks, flags)
    sh(["git", "-C", "/repo", "worktree", "remove", "--force", wt])
    rc, out = sh(["git", "-C", "/repo", "worktree", "add", "-q", "--detach", wt, "HEAD"])
    report = {"property": pid, "name": name, "what": meta.get("what"), "needs": meta.get("needs"), "files": meta.get("files"), "ran": []}
    try:
        base = set(json.load(open("/root/.vp/BASELINE.json"))["stable_pass"])
        rc, out = sh(["git", "apply", "--check", os.path.join(src, "patch.diff")], cwd=wt)
        if rc != 0:
            print("PATCH DOES NOT APPLY to current HEAD:", out); report["applies"] = False
            return report
        report["applies"] = True
        shutil.copy(os.path.join(src, "demo_test.go"), os.path.join(wt, "demo_test.go"))
        rc0, out0 = sh(["go", "test", "-vet=off", "-count=1", "-run", "TestSeeded", "."], cwd=wt)
        report["demo_without_patch"] = "pass" if rc0 == 0 else "FAIL"
        sh(["git", "apply", os.path.join(src, "patch.diff")], cwd=wt)
        rcb, outb = sh(["go", "build", "./..."], cwd=wt)
        rc1, out1 = sh(["go", "test", "-vet=off", "-count=1", "-run", "TestSeeded", "."], cwd=wt)
        report["builds_with_patch"] = rcb == 0
        report["demo_with_patch"] = "pass" if rc1 == 0 else "FAIL"
        os.remove(os.path.join(wt, "demo_test.go"))
        ok = passing(wt)
        report["baseline_tests_still_passing"] = len(base & ok)
        report["baseline_tests_broken"] = sorted(base - ok)[:10]
        report["ran"].append("scratch worktree %s: demo without patch=%s, with patch=%s, go build=%s, baseline %d/%d" % (
            wt, report["demo_without_patch"], report["demo_with_patch"], rcb == 0, len(base & ok), len(base)))
    finally:
        sh(["git", "-C", "/repo", "worktree", "remove", "--force", wt])
    confirmed = report.get("demo_without_patch") == "pass" and report.get("demo_with_patch") == "FAIL" and not report.get("baseline_tests_broken") and report.get("builds_with_patch")
    report["confirmed"] = confirmed
    if "--confirm-only" in flags:
        json.dump(report, open(cfile, "w"), indent=1)
        print(json.dumps({k: report.get(k) for k in ["name", "confirmed", "demo_without_patch", "demo_with_patch", "baseline_tests_broken"]}))
        return report
    return apply_and_check(report, src, name, checks, flags)

def apply_and_check(report, src, name, checks, flags):
    confirmed = report.get("confirmed")
    if not confirmed:
        print("NOT CONFIRMED", json.dumps(report, indent=1)); return report
    # run the checks against the source tree with the change applied: /repo itself, or (--alt) a
    # scratch worktree that the checks are pointed at through VERIF_REPO (leaves /repo alone, so a
    # background sweep over /repo is not disturbed)
    alt = None
    if "--alt" in flags:
        alt = "/tmp/wt/alt_" + name
        sh(["git", "-C", "/repo", "worktree", "remove", "--force", alt])
        sh(["git", "-C", "/repo", "worktree", "add", "-q", "--detach", alt, "HEAD"])
        rc, out = sh(["git", "apply", os.path.join(src, "patch.diff")], cwd=alt)
        if rc != 0:
            print("patch does not apply in", alt, out); return report
        ENV["VERIF_REPO"] = alt
    else:
        rc, out = sh(["git", "-C", "/repo", "status", "--porcelain"])
        if out.strip():
            print("/repo not clean:", out); return report
        sh(["git", "-C", "/repo", "apply", os.path.join(src, "patch.diff")])
    results = {}
    try:
        for c in checks:
            t0 = time.time()
            rc, out = sh(["/verif/check", c, "--tier", "quick"], cwd="/verif")
            lines = [l for l in out.splitlines() if l.startswith("VIOLATION") or l.startswith("KNOWN-FINDING")]
            results[c] = {"exit": rc, "violation_lines": [l for l in lines if l.startswith("VIOLATION")], "wall_s": round(time.time() - t0, 1)}
            rp = "/verif/replays/%s-1-quick.json" % c
            if rc != 0 and os.path.exists(rp):
                os.makedirs("/verif/seeded/%s" % name, exist_ok=True)
                shutil.copy(rp, "/verif/seeded/%s/replay_%s.json" % (name, c))
    finally:
        if alt:
            ENV.pop("VERIF_REPO", None)
            sh(["git", "-C", "/repo", "worktree", "remove", "--force", alt])
        else:
            sh(["git", "-C", "/repo", "checkout", "--", "."])
    # restore evidence / replays for the unchanged tree
    if "--no-restore" not in flags:
        for c in checks:
            sh(["/verif/check", c, "--tier", "quick"], cwd="/verif")
    report["checks"] = results
    report["caught_by"] = sorted(c for c, r in results.items() if r["exit"] != 0)
    report["ran"].append(("scratch worktree with the patch, VERIF_REPO=<worktree> ./check <id> --tier quick for %s" if alt else "git -C /repo apply patch.diff; ./check <id> --tier quick for %s; git -C /repo checkout -- .") % ", ".join(checks))
    d = "/verif/seeded/%s" % name
    os.makedirs(d, exist_ok=True)
    shutil.copy(os.path.join(src, "patch.diff"), d)
    shutil.copy(os.path.join(src, "demo_test.go"), d)
    json.dump(report, open(os.path.join(d, "meta.json"), "w"), indent=1)
    print(json.dumps({k: report[k] for k in ["name", "property", "confirmed", "caught_by"]}), {c: r["violation_lines"] for c, r in results.items()})
    return report
main()
