#!/usr/bin/env python3
"""Runs /repo's test suite (guard OFF) and compares with /root/.vp/BASELINE.json stable_pass."""
import json, subprocess, os, sys
env = dict(os.environ, GOFLAGS="-mod=mod", GOPROXY="off", GOSUMDB="off", GOTOOLCHAIN="local")
p = subprocess.run(["go", "test", "-json", "-vet=off", "-count=1", "-timeout", "25m", "./..."], cwd="/repo", env=env,
                   stdout=subprocess.PIPE, stderr=subprocess.DEVNULL, text=True)
passed = set()
for line in p.stdout.splitlines():
    try:
        ev = json.loads(line)
    except Exception:
        continue
    if ev.get("Action") == "pass" and ev.get("Test"):
        passed.add("%s::%s" % (ev["Package"], ev["Test"]))
base = set(json.load(open("/root/.vp/BASELINE.json"))["stable_pass"])
missing = sorted(base - passed)
print("baseline stable_pass:", len(base), "passing now:", len(passed & base), "missing:", len(missing))
for m in missing[:20]:
    print("  MISSING", m)
sys.exit(1 if missing else 0)
