#!/bin/sh
# Builds the framework offline: the Lean model + theorems + driver, and a warm Go build cache.
set -e
cd "$(dirname "$0")"
mkdir -p .work evidence replays
export GOFLAGS=-mod=mod GOPROXY=off GOSUMDB=off GOTOOLCHAIN=local
cp /repo/go.sum go/go.sum
# the fact tables the C16 / C18 theorems are about are regenerated from /repo's current source
python3 tools/regen_facts.py
(cd lean && lake build && lake build $(ls ErrModel/Props/*.lean | sed "s#/#.#g; s#\.lean\$##"))
export GOFLAGS=-mod=mod GOPROXY=off GOSUMDB=off GOTOOLCHAIN=local
cp /repo/go.sum go/go.sum
(cd go && go build -tags verif -o ../.work/harness-setup ./harness && rm -f ../.work/harness-setup)
echo setup done
