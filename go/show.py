import json,sys
r=json.load(open(sys.argv[1]))
print({k:r[k] for k in ['cases','distinct_nontrivial','n_mismatches','n_oracle_failures','notes','wall_s']})
print(r['stream_comparisons'])
from collections import Counter
print(Counter(m['stream'] for m in (r['mismatches'] or [])))
def dehex(s):
    import re
    def f(m):
        try: return 's"'+bytes.fromhex(m.group(1)).decode('utf8','backslashreplace').replace('\n','\\n')+'"'
        except Exception: return m.group(0)
    return re.sub(r'\bs((?:[0-9a-f]{2})*)\b',f,s)
n=int(sys.argv[2]) if len(sys.argv)>2 else 3
seen=set()
for m in (r['mismatches'] or []):
    if m['case'] in seen: continue
    seen.add(m['case'])
    if len(seen)>n: break
    print(m['case'],m['stream']); print(' IN ',dehex(m['input'])[:1500]); 
    a=dehex(m['model']); b=dehex(m['impl'])
    i=0
    while i<min(len(a),len(b)) and a[i]==b[i]: i+=1
    print(' M ...',a[max(0,i-150):i+300]); print(' I ...',b[max(0,i-150):i+300])
print(r.get('failure_signatures'))
seen2=set()
for f in r.get('oracle_failures') or []:
    if f['signature'] in seen2: continue
    seen2.add(f['signature'])
    if len(seen2)>n: break
    print('FAIL',f['oracle'],f['signature'],dehex(f['detail'])[:300]); print('   IN',dehex(f['input'])[:500])
