#!/usr/bin/env python3
# compact mismatch viewer: for each mismatch show stream and the first differing region
import json, sys, re
def dehex(s):
    def f(m):
        try: return 's"' + bytes.fromhex(m.group(1)).decode('utf-8','backslashreplace').replace('\n','\\n') + '"'
        except Exception: return m.group(0)
    return re.sub(r'\bs((?:[0-9a-f]{2})*)\b', f, s)
r = json.load(open(sys.argv[1]))
lim = int(sys.argv[2]) if len(sys.argv) > 2 else 20
only = sys.argv[3] if len(sys.argv) > 3 else None
n = 0
for m in r['mismatches'] or []:
    if only and m['stream'] != only: continue
    a, b = dehex(m['model']), dehex(m['impl'])
    i = 0
    while i < min(len(a), len(b)) and a[i] == b[i]: i += 1
    print('==', m['case'], m['stream'])
    print('  M:', a[max(0,i-100):i+160])
    print('  R:', b[max(0,i-100):i+160])
    n += 1
    if n >= lim: break
