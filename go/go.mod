module verif

go 1.23

require (
	github.com/cockroachdb/errors v0.0.0
	github.com/cockroachdb/logtags v0.0.0-20230118201751-21c54148d20b
	github.com/cockroachdb/redact v1.1.5
	github.com/getsentry/sentry-go v0.27.0
	github.com/gogo/googleapis v1.4.1
	github.com/gogo/protobuf v1.3.2
	github.com/gogo/status v1.1.0
	github.com/hydrogen18/memlistener v1.0.0
	github.com/pkg/errors v0.9.1
	google.golang.org/grpc v1.56.3
)

require (
	github.com/golang/protobuf v1.5.3 // indirect
	github.com/kr/pretty v0.3.1 // indirect
	github.com/kr/text v0.2.0 // indirect
	github.com/rogpeppe/go-internal v1.9.0 // indirect
	golang.org/x/net v0.23.0 // indirect
	golang.org/x/sys v0.18.0 // indirect
	golang.org/x/text v0.14.0 // indirect
	google.golang.org/genproto v0.0.0-20230410155749-daa745c078e1 // indirect
	google.golang.org/protobuf v1.33.0 // indirect
)

replace github.com/cockroachdb/errors => /repo
