module verif

go 1.23

require github.com/cockroachdb/errors v0.0.0

replace github.com/cockroachdb/errors => /repo
