import json,re,sys
r=json.load(open(sys.argv[1]))
N=int(sys.argv[2]) if len(sys.argv)>2 else 4
def dehex(s):
    def f(m):
        try: return 's"'+bytes.fromhex(m.group(1)).decode('utf8','backslashreplace')+'"'
        except Exception: return m.group(0)
    return re.sub(r'\bs((?:[0-9a-f]{2})*)\b',f,s)
def fields(x):
    # x like (fmt0 (fmt (error sX) (v sX) ...))
    return dict(re.findall(r'\((\w+) (s[0-9a-f]*)\)', x))
from collections import Counter
cnt=Counter(); shown=0
for m in r['mismatches'] or []:
    if not m['stream'].startswith('fmt'): continue
    a=fields(m['model']); b=fields(m['impl'])
    for k in b:
        if a.get(k)!=b[k]:
            cnt[k]+=1
            if shown<N:
                shown+=1
                inp=dehex(m['input']); inp=re.sub(r'\(\(n\d+ s"[^"]*"\)( \(n\d+ s"[^"]*"\))*\)','(STK)',inp,flags=re.S)
                print(m['case'],m['stream'],k); print(' IN',inp[:400].replace('\n','\\n'))
                print(' M:',dehex(a.get(k,''))[:700]); print(' I:',dehex(b[k])[:700])
            break
print(cnt)
