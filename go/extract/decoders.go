package main

import (
	"fmt"
	"go/ast"
	"go/token"
	"sort"
	"strconv"
	"strings"
)

// decoders: the facts behind C05 ("each registered decoder must comma-ok its payload
// assertion and bound-check details").  For every function value registered with
// Register{Leaf,Wrapper,MultiCause}Decoder the body is translated, statement by statement,
// into a tiny straight-line program over three operations:
//
//   assert  checked|unchecked   payload.(*T): comma-ok followed by `if !ok ... { return nil }`,
//                                or a type switch  = checked; a single-value assertion = unchecked
//   require slice n             `if ... len(slice) < n ... { return nil }`  (also == 0, <= n, != n)
//   index   slice i under       slice[i] with a constant i, evaluated inside `if len(slice) > under-1`
//                                (under = 0 when there is no such enclosing test)
//   unknown what                anything the extractor does not recognise (fails the obligation)
//
// Slices that are tracked: the decoder's []string / []error parameters and the fields of the
// variable bound by the payload assertion.  Calls to other functions of the same package that
// are passed the payload are inlined (depth 3).

type decOp struct {
	Op    string `json:"op"` // assert | require | index | unknown
	Slice string `json:"slice,omitempty"`
	N     int    `json:"n"`
	Under int    `json:"under"`
	Ok    bool   `json:"ok"`
	What  string `json:"what,omitempty"`
	Pos   string `json:"pos"`
}

type decFacts struct {
	Key  string  `json:"key"`  // source text of the key expression
	Kind string  `json:"kind"` // leaf | wrapper | multi
	Pkg  string  `json:"pkg"`
	Func string  `json:"func"` // function name, or "func literal"
	Ops  []decOp `json:"ops"`
	Pos  string  `json:"pos"`
	Alt  bool    `json:"alt"` // an additional path of the decoder above (not a registration of its own)
}

type decOut struct {
	Decoders []decFacts `json:"decoders"`
}

type decCtx struct {
	pk       *pkgInfo
	funcs    map[string]*ast.FuncDecl
	payload  string          // name of the payload parameter ("" if blank)
	slices   map[string]bool // tracked slice expressions (source text)
	asserted map[string]bool // variables bound by a payload assertion
	ops      []decOp
	branches [][]decOp // completed alternative paths (an `if x, ok := …; ok { … return }` body)
	depth    int
}

func (c *decCtx) pos(n ast.Node) string {
	p := c.pk.fset.Position(n.Pos())
	rel := strings.TrimPrefix(p.Filename, repoRoot+"/")
	return fmt.Sprintf("%s:%d", rel, p.Line)
}

func (c *decCtx) unknown(n ast.Node, what string) {
	c.ops = append(c.ops, decOp{Op: "unknown", What: what, Pos: c.pos(n)})
}

func endsWithReturn(b *ast.BlockStmt) bool {
	if b == nil || len(b.List) == 0 {
		return false
	}
	_, ok := b.List[len(b.List)-1].(*ast.ReturnStmt)
	return ok
}

func isNilReturn(b *ast.BlockStmt) bool {
	if b == nil || len(b.List) != 1 {
		return false
	}
	r, ok := b.List[0].(*ast.ReturnStmt)
	if !ok || len(r.Results) != 1 {
		return false
	}
	id, ok := r.Results[0].(*ast.Ident)
	return ok && id.Name == "nil"
}

func intLit(e ast.Expr) (int, bool) {
	if b, ok := e.(*ast.BasicLit); ok && b.Kind == token.INT {
		n, err := strconv.Atoi(b.Value)
		return n, err == nil
	}
	return 0, false
}

// lenOf: `len(E)` -> source text of E
func (c *decCtx) lenOf(e ast.Expr) (string, bool) {
	call, ok := e.(*ast.CallExpr)
	if !ok || len(call.Args) != 1 {
		return "", false
	}
	if id, ok := call.Fun.(*ast.Ident); !ok || id.Name != "len" {
		return "", false
	}
	return exprString(c.pk.fset, call.Args[0]), true
}

// disjuncts of a || b || c
func disjuncts(e ast.Expr) []ast.Expr {
	if p, ok := e.(*ast.ParenExpr); ok {
		return disjuncts(p.X)
	}
	if b, ok := e.(*ast.BinaryExpr); ok && b.Op == token.LOR {
		return append(disjuncts(b.X), disjuncts(b.Y)...)
	}
	return []ast.Expr{e}
}

// a guard `if COND { return nil }`: every disjunct of COND that holds makes the function give up,
// so after the statement every disjunct is false.
func (c *decCtx) guard(s *ast.IfStmt, okVars map[string]bool) {
	for _, d := range disjuncts(s.Cond) {
		switch v := d.(type) {
		case *ast.UnaryExpr:
			if id, ok := v.X.(*ast.Ident); ok && v.Op == token.NOT && okVars[id.Name] {
				delete(okVars, id.Name)
				c.ops = append(c.ops, decOp{Op: "assert", Ok: true, Pos: c.pos(s)})
				continue
			}
		case *ast.BinaryExpr:
			if sl, ok := c.lenOf(v.X); ok {
				if n, ok := intLit(v.Y); ok {
					switch v.Op {
					case token.LSS: // len < n  is false afterwards: len >= n
						c.ops = append(c.ops, decOp{Op: "require", Slice: sl, N: n, Pos: c.pos(s)})
						continue
					case token.LEQ:
						c.ops = append(c.ops, decOp{Op: "require", Slice: sl, N: n + 1, Pos: c.pos(s)})
						continue
					case token.EQL:
						if n == 0 {
							c.ops = append(c.ops, decOp{Op: "require", Slice: sl, N: 1, Pos: c.pos(s)})
							continue
						}
					case token.NEQ:
						c.ops = append(c.ops, decOp{Op: "require", Slice: sl, N: n, Pos: c.pos(s)})
						continue
					}
				}
			}
		}
		// any other disjunct establishes nothing (conservative), but index expressions in it count
		c.scanExpr(d, 0, "")
	}
}

// scanExpr records the index expressions and payload assertions inside an expression.
// (underSlice, under): an enclosing `if len(underSlice) > under-1`.
func (c *decCtx) scanExpr(e ast.Node, under int, underSlice string) {
	if e == nil {
		return
	}
	ast.Inspect(e, func(n ast.Node) bool {
		switch v := n.(type) {
		case *ast.FuncLit:
			c.unknown(v, "function literal inside a decoder")
			return false
		case *ast.TypeAssertExpr:
			if id, ok := v.X.(*ast.Ident); ok && c.payload != "" && id.Name == c.payload && v.Type != nil {
				// reached only for assertions that are not the comma-ok statement form
				c.ops = append(c.ops, decOp{Op: "assert", Ok: false, Pos: c.pos(v)})
			}
		case *ast.IndexExpr:
			sl := exprString(c.pk.fset, v.X)
			if c.tracked(v.X) {
				if i, ok := intLit(v.Index); ok {
					u := 0
					if sl == underSlice {
						u = under
					}
					c.ops = append(c.ops, decOp{Op: "index", Slice: sl, N: i, Under: u, Pos: c.pos(v)})
				} else {
					c.unknown(v, "non-constant index into "+sl)
				}
			}
		case *ast.SliceExpr:
			if c.tracked(v.X) && (v.Low != nil || v.High != nil) {
				c.unknown(v, "slice expression on "+exprString(c.pk.fset, v.X))
			}
		case *ast.CallExpr:
			c.maybeInline(v)
		}
		return true
	})
}

func (c *decCtx) tracked(x ast.Expr) bool {
	s := exprString(c.pk.fset, x)
	if c.slices[s] {
		return true
	}
	if sel, ok := x.(*ast.SelectorExpr); ok {
		if id, ok := sel.X.(*ast.Ident); ok && c.asserted[id.Name] {
			return true
		}
	}
	return false
}

// a call f(..., payload, ...) to a function of the same package: inline its body
func (c *decCtx) maybeInline(call *ast.CallExpr) {
	id, ok := call.Fun.(*ast.Ident)
	if !ok {
		return
	}
	fd := c.funcs[id.Name]
	if fd == nil || fd.Body == nil {
		return
	}
	passes := false
	for _, a := range call.Args {
		if aid, ok := a.(*ast.Ident); ok && (aid.Name == c.payload && c.payload != "" || c.slices[aid.Name]) {
			passes = true
		}
	}
	if !passes {
		return
	}
	if c.depth >= 3 {
		c.unknown(call, "call chain too deep: "+id.Name)
		return
	}
	sub := &decCtx{pk: c.pk, funcs: c.funcs, slices: map[string]bool{}, asserted: map[string]bool{}, depth: c.depth + 1}
	// bind the callee's parameters positionally
	var params []*ast.Ident
	var ptypes []ast.Expr
	for _, f := range fd.Type.Params.List {
		for _, n := range f.Names {
			params = append(params, n)
			ptypes = append(ptypes, f.Type)
		}
	}
	for i, a := range call.Args {
		if i >= len(params) {
			break
		}
		aid, ok := a.(*ast.Ident)
		if !ok {
			continue
		}
		if aid.Name == c.payload && c.payload != "" && params[i].Name != "_" {
			sub.payload = params[i].Name
		}
		if c.slices[aid.Name] && params[i].Name != "_" {
			sub.slices[params[i].Name] = true
		}
	}
	sub.block(fd.Body, 0, "")
	for _, op := range sub.ops {
		if op.Slice != "" {
			op.Slice = id.Name + ":" + op.Slice
		}
		c.ops = append(c.ops, op)
	}
}

func (c *decCtx) block(b *ast.BlockStmt, under int, underSlice string) {
	okVars := map[string]bool{}
	for _, st := range b.List {
		switch s := st.(type) {
		case *ast.AssignStmt:
			// x, ok := payload.(*T)
			if len(s.Lhs) == 2 && len(s.Rhs) == 1 {
				if ta, ok := s.Rhs[0].(*ast.TypeAssertExpr); ok {
					if id, ok := ta.X.(*ast.Ident); ok && c.payload != "" && id.Name == c.payload {
						x, _ := s.Lhs[0].(*ast.Ident)
						okv, _ := s.Lhs[1].(*ast.Ident)
						if x != nil && okv != nil && okv.Name != "_" {
							okVars[okv.Name] = true
							if x.Name != "_" {
								c.asserted[x.Name] = true
							}
							continue
						}
						c.ops = append(c.ops, decOp{Op: "assert", Ok: false, What: "result of the comma-ok assertion discarded", Pos: c.pos(s)})
						continue
					}
				}
			}
			for _, r := range s.Rhs {
				c.scanExpr(r, under, underSlice)
			}
			for _, l := range s.Lhs {
				c.scanExpr(l, under, underSlice)
			}
		case *ast.IfStmt:
			if s.Init != nil {
				// `if x, ok := payload.(*T); !ok { return nil }`  — the assertion with its give-up guard in
				// one statement (x is not in scope afterwards);
				// `if x, ok := payload.(*T); ok { … return … }`     — the decoder proper runs only on a payload of
				// the right type; what follows the statement runs on every other payload and is analysed
				// as a path of its own (it cannot mention x).
				if as, ok := s.Init.(*ast.AssignStmt); ok && len(as.Lhs) == 2 && len(as.Rhs) == 1 && s.Else == nil {
					if ta, ok := as.Rhs[0].(*ast.TypeAssertExpr); ok {
						if id, ok := ta.X.(*ast.Ident); ok && c.payload != "" && id.Name == c.payload {
							x, _ := as.Lhs[0].(*ast.Ident)
							okv, _ := as.Lhs[1].(*ast.Ident)
							if x != nil && okv != nil && okv.Name != "_" {
								if u, isNot := s.Cond.(*ast.UnaryExpr); isNot && u.Op == token.NOT {
									if cid, ok := u.X.(*ast.Ident); ok && cid.Name == okv.Name && isNilReturn(s.Body) {
										c.ops = append(c.ops, decOp{Op: "assert", Ok: true, Pos: c.pos(s)})
										continue
									}
								}
								if cid, ok := s.Cond.(*ast.Ident); ok && cid.Name == okv.Name && endsWithReturn(s.Body) {
									// path "payload has the type": the body, with x bound
									sub := &decCtx{pk: c.pk, funcs: c.funcs, payload: c.payload, slices: c.slices, asserted: map[string]bool{}, depth: c.depth}
									for k := range c.asserted {
										sub.asserted[k] = true
									}
									if x.Name != "_" {
										sub.asserted[x.Name] = true
									}
									sub.block(s.Body, under, underSlice)
									// it is a path of its own: the statements after the `if` are not reached on it.
									// Its operations are appended behind a marker so that the checker sees both
									// paths: first the body (guarded by a checked assertion), then the rest.
									c.branches = append(c.branches, append(append([]decOp{}, c.ops...), append([]decOp{{Op: "assert", Ok: true, Pos: c.pos(s)}}, sub.ops...)...))
									continue
								}
							}
						}
					}
				}
				c.unknown(s, "if with an init statement")
				continue
			}
			if isNilReturn(s.Body) && s.Else == nil {
				c.guard(s, okVars)
				continue
			}
			// if len(E) > K { body }
			if be, ok := s.Cond.(*ast.BinaryExpr); ok && s.Else == nil {
				if sl, ok := c.lenOf(be.X); ok {
					if k, ok := intLit(be.Y); ok && (be.Op == token.GTR || be.Op == token.GEQ) {
						u := k + 1
						if be.Op == token.GEQ {
							u = k
						}
						c.block(s.Body, u, sl)
						continue
					}
				}
			}
			// any other if: a use of an unchecked ok variable is not a check
			c.scanExpr(s.Cond, under, underSlice)
			c.block(s.Body, under, underSlice)
			switch e := s.Else.(type) {
			case *ast.BlockStmt:
				c.block(e, under, underSlice)
			case nil:
			default:
				c.unknown(s, "else-if chain")
			}
		case *ast.TypeSwitchStmt:
			// switch x := payload.(type): checked by construction
			c.ops = append(c.ops, decOp{Op: "assert", Ok: true, What: "type switch", Pos: c.pos(s)})
			c.block(s.Body, under, underSlice)
		case *ast.CaseClause:
			for _, b := range s.Body {
				c.block(&ast.BlockStmt{List: []ast.Stmt{b}}, under, underSlice)
			}
		case *ast.RangeStmt:
			c.scanExpr(s.X, under, underSlice)
			c.block(s.Body, under, underSlice)
		case *ast.ForStmt:
			c.unknown(s, "for loop")
		case *ast.BlockStmt:
			c.block(s, under, underSlice)
		default:
			c.scanExpr(st, under, underSlice)
		}
	}
	// an ok variable that no guard tested: the assertion's result is used unchecked
	var left []string
	for k := range okVars {
		left = append(left, k)
	}
	sort.Strings(left)
	for _, k := range left {
		c.ops = append(c.ops, decOp{Op: "assert", Ok: false, What: "comma-ok result " + k + " is never tested by a give-up guard", Pos: c.pos(b)})
	}
}

func extractDecoders(pkgs map[string]*pkgInfo) interface{} {
	out := decOut{}
	var paths []string
	for p := range pkgs {
		paths = append(paths, p)
	}
	sort.Strings(paths)
	kinds := map[string]string{"RegisterLeafDecoder": "leaf", "RegisterWrapperDecoder": "wrapper", "RegisterMultiCauseDecoder": "multi"}
	for _, p := range paths {
		pk := pkgs[p]
		funcs := map[string]*ast.FuncDecl{}
		for _, f := range pk.files {
			for _, d := range f.Decls {
				if fd, ok := d.(*ast.FuncDecl); ok && fd.Recv == nil {
					funcs[fd.Name.Name] = fd
				}
			}
		}
		for _, f := range pk.files {
			for _, d := range f.Decls {
				fd, ok := d.(*ast.FuncDecl)
				if !ok || fd.Body == nil {
					continue
				}
				// the registration API itself (errbase.Register*, and the root package's forwarding aliases)
				if _, isAPI := kinds[fd.Name.Name]; isAPI {
					continue
				}
				ast.Inspect(fd.Body, func(n ast.Node) bool {
					call, ok := n.(*ast.CallExpr)
					if !ok || len(call.Args) != 2 {
						return true
					}
					name := ""
					switch fn := call.Fun.(type) {
					case *ast.Ident:
						name = fn.Name
					case *ast.SelectorExpr:
						name = fn.Sel.Name
					}
					kind, ok := kinds[name]
					if !ok {
						return true
					}
					df := decFacts{Key: exprString(pk.fset, call.Args[0]), Kind: kind, Pkg: strings.TrimPrefix(strings.TrimPrefix(p, modPath), "/")}
					c := &decCtx{pk: pk, funcs: funcs, slices: map[string]bool{}, asserted: map[string]bool{}}
					df.Pos = c.pos(call)
					var ftype *ast.FuncType
					var body *ast.BlockStmt
					switch a := call.Args[1].(type) {
					case *ast.Ident:
						if g := funcs[a.Name]; g != nil {
							ftype, body, df.Func = g.Type, g.Body, a.Name
						}
					case *ast.FuncLit:
						ftype, body, df.Func = a.Type, a.Body, "func literal"
					}
					if body == nil {
						df.Func = exprString(pk.fset, call.Args[1])
						c.unknown(call, "decoder is not a function of this package nor a literal")
						df.Ops = c.ops
						out.Decoders = append(out.Decoders, df)
						return true
					}
					for _, fl := range ftype.Params.List {
						ts := exprString(pk.fset, fl.Type)
						for _, nm := range fl.Names {
							if nm.Name == "_" {
								continue
							}
							if ts == "proto.Message" {
								c.payload = nm.Name
							}
							if strings.HasPrefix(ts, "[]") {
								c.slices[nm.Name] = true
							}
						}
					}
					c.block(body, 0, "")
					df.Ops = c.ops
					if df.Ops == nil {
						df.Ops = []decOp{}
					}
					out.Decoders = append(out.Decoders, df)
					for bi, br := range c.branches {
						alt := df
						alt.Func = fmt.Sprintf("%s#path%d", df.Func, bi+1)
						alt.Ops = br
						alt.Alt = true
						out.Decoders = append(out.Decoders, alt)
					}
					return true
				})
			}
		}
	}
	return out
}
