package main

func extractCtors(pkgs map[string]*pkgInfo) interface{}    { return nil }
func extractDecoders(pkgs map[string]*pkgInfo) interface{} { return nil }
