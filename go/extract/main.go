// extract: tiny go/ast fact extractors over /repo's current source (DESIGN.md section 5).
// Each subcommand prints JSON facts on stdout; tools/extractors.py turns them into
// lean/ErrModel/Generated/*.lean.  A construct that is not recognised is emitted as
// "unknown", which makes the corresponding Lean obligation fail (never silently pass).
package main

import (
	"encoding/json"
	"fmt"
	"go/ast"
	"go/parser"
	"go/printer"
	"go/token"
	"os"
	"path/filepath"
	"sort"
	"strconv"
	"strings"
)

const modPath = "github.com/cockroachdb/errors"

type pkgInfo struct {
	path  string // import path
	dir   string
	files []*ast.File
	fset  *token.FileSet
}

// repoRoot: the source tree the facts are extracted from (positions are made relative to it)
var repoRoot = "/repo"

func loadRepo(root string) map[string]*pkgInfo {
	pkgs := map[string]*pkgInfo{}
	fset := token.NewFileSet()
	filepath.Walk(root, func(p string, info os.FileInfo, err error) error {
		if err != nil {
			return nil
		}
		if info.IsDir() {
			b := filepath.Base(p)
			if b == "testdata" || b == ".git" || b == "fmttests" || b == "testutils" {
				return filepath.SkipDir
			}
			return nil
		}
		if !strings.HasSuffix(p, ".go") || strings.HasSuffix(p, "_test.go") || strings.HasSuffix(p, ".pb.go") {
			return nil
		}
		if strings.Contains(filepath.Base(p), "verif_") {
			return nil // our own guarded hooks
		}
		f, err := parser.ParseFile(fset, p, nil, parser.ParseComments)
		if err != nil {
			fmt.Fprintln(os.Stderr, "parse error:", err)
			return nil
		}
		// honour the go1.16 build tags of the two oserror files: keep the go1.16 variant
		for _, cg := range f.Comments {
			for _, c := range cg.List {
				if strings.Contains(c.Text, "+build !go1.16") {
					return nil
				}
			}
		}
		dir := filepath.Dir(p)
		rel, _ := filepath.Rel(root, dir)
		ip := modPath
		if rel != "." {
			ip = modPath + "/" + filepath.ToSlash(rel)
		}
		pk := pkgs[ip]
		if pk == nil {
			pk = &pkgInfo{path: ip, dir: dir, fset: fset}
			pkgs[ip] = pk
		}
		pk.files = append(pk.files, f)
		return nil
	})
	return pkgs
}

// imports of a file: local name -> import path
func fileImports(f *ast.File) map[string]string {
	m := map[string]string{}
	for _, im := range f.Imports {
		p, _ := strconv.Unquote(im.Path.Value)
		name := p[strings.LastIndex(p, "/")+1:]
		if im.Name != nil {
			name = im.Name.Name
		}
		m[name] = p
	}
	return m
}

// calleeOf resolves a call's function to "importpath.Name" (package-level functions only).
func calleeOf(call *ast.CallExpr, pkg string, imports map[string]string) string {
	switch fn := call.Fun.(type) {
	case *ast.Ident:
		return pkg + "." + fn.Name
	case *ast.SelectorExpr:
		if x, ok := fn.X.(*ast.Ident); ok {
			if ip, ok := imports[x.Name]; ok {
				return ip + "." + fn.Sel.Name
			}
		}
	}
	return ""
}

func exprString(fset *token.FileSet, e ast.Expr) string {
	var sb strings.Builder
	printer.Fprint(&sb, fset, e)
	return sb.String()
}

func main() {
	if len(os.Args) < 3 {
		fmt.Fprintln(os.Stderr, "usage: extract <depth|ctors|decoders> <repo>")
		os.Exit(2)
	}
	repoRoot = os.Args[2]
	pkgs := loadRepo(os.Args[2])
	var out interface{}
	switch os.Args[1] {
	case "depth":
		out = extractDepth(pkgs)
	case "ctors":
		out = extractCtors(pkgs)
	case "decoders":
		out = extractDecoders(pkgs)
	case "effects":
		out = extractEffects(pkgs)
	case "unwrap":
		out = extractUnwrap(pkgs)
	default:
		fmt.Fprintln(os.Stderr, "unknown extractor")
		os.Exit(2)
	}
	enc := json.NewEncoder(os.Stdout)
	enc.SetIndent("", " ")
	enc.Encode(out)
}

func sortedKeys(m map[string]bool) []string {
	var ks []string
	for k := range m {
		ks = append(ks, k)
	}
	sort.Strings(ks)
	return ks
}
