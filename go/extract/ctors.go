package main

import (
	"go/ast"
	"go/token"
	"sort"
	"strings"
)

// ctors: the facts behind C10's "every wrapper constructor returns nil when given a nil error".
// Candidates: every exported package-level function with at least one (non-variadic) parameter of
// type `error` and exactly one result of type `error`.  For its FIRST error parameter p:
//
//   guard    the first statement is `if p == nil [|| …] { return nil }` (or `return p`)
//   forward  p flows through a pipeline of calls to functions of this repository and the result is
//            returned: `return g(h(p, …), …)`, or `e := h(p); e = g(e, …); return e` (statements
//            that do not mention the flowing value may be interleaved): nil stays nil if every
//            call of the pipeline maps nil to nil at that argument position
//   none     anything else (the Lean obligation then needs an explicit exemption)

type ctorFact struct {
	Name     string `json:"name"` // importpath-relative: "errutil.Wrap", ".Wrap" for the root package
	Pkg      string `json:"pkg"`
	Exported bool   `json:"exported"`
	Param    int    `json:"param"`  // index of the first error parameter
	Kind     string `json:"kind"`  // guard | forward | none
	Chain    []step `json:"chain"` // for forward: the calls p flows through, innermost first
	Pos      string `json:"pos"`
}

type step struct {
	Callee string `json:"callee"` // same naming scheme as Name
	ArgPos int    `json:"argpos"` // position of the flowing value among the callee's arguments
}

type ctorOut struct {
	Ctors []ctorFact `json:"ctors"`
}

func mentions(n ast.Node, name string) bool {
	found := false
	ast.Inspect(n, func(x ast.Node) bool {
		if id, ok := x.(*ast.Ident); ok && id.Name == name {
			found = true
		}
		return !found
	})
	return found
}

func isNilGuard(st ast.Stmt, p string) bool {
	s, ok := st.(*ast.IfStmt)
	if !ok || s.Init != nil || s.Else != nil || len(s.Body.List) != 1 {
		return false
	}
	has := false
	for _, d := range disjuncts(s.Cond) {
		if b, ok := d.(*ast.BinaryExpr); ok && b.Op == token.EQL {
			x, xok := b.X.(*ast.Ident)
			y, yok := b.Y.(*ast.Ident)
			if xok && yok && x.Name == p && y.Name == "nil" {
				has = true
			}
		}
	}
	if !has {
		return false
	}
	r, ok := s.Body.List[0].(*ast.ReturnStmt)
	if !ok || len(r.Results) != 1 {
		return false
	}
	id, ok := r.Results[0].(*ast.Ident)
	return ok && (id.Name == "nil" || id.Name == p)
}

func shortPkg(ip string) string {
	return strings.TrimPrefix(strings.TrimPrefix(ip, modPath), "/")
}

func extractCtors(pkgs map[string]*pkgInfo) interface{} {
	out := ctorOut{}
	var paths []string
	for p := range pkgs {
		paths = append(paths, p)
	}
	sort.Strings(paths)
	for _, ip := range paths {
		pk := pkgs[ip]
		for _, f := range pk.files {
			imports := fileImports(f)
			for _, d := range f.Decls {
				fd, ok := d.(*ast.FuncDecl)
				if !ok || fd.Recv != nil || fd.Body == nil || fd.Type.Results == nil {
					continue
				}
				if len(fd.Type.Results.List) != 1 || exprString(pk.fset, fd.Type.Results.List[0].Type) != "error" || len(fd.Type.Results.List[0].Names) > 1 {
					continue
				}
				// first error parameter
				idx, pname, i := -1, "", 0
				for _, fl := range fd.Type.Params.List {
					ts := exprString(pk.fset, fl.Type)
					names := fl.Names
					if len(names) == 0 {
						i++
						continue
					}
					for _, nm := range names {
						if ts == "error" && idx < 0 {
							idx, pname = i, nm.Name
						}
						i++
					}
				}
				if idx < 0 || pname == "_" {
					continue
				}
				cf := ctorFact{Name: shortPkg(ip) + "." + fd.Name.Name, Pkg: shortPkg(ip), Exported: fd.Name.IsExported(), Param: idx, Kind: "none"}
				p := pk.fset.Position(fd.Pos())
				cf.Pos = strings.TrimPrefix(p.Filename, repoRoot+"/") + ":" + itoa(p.Line)
				body := fd.Body.List
				if len(body) > 0 && isNilGuard(body[0], pname) {
					cf.Kind = "guard"
				} else if chain, ok := flowBody(body, pname, ip, imports); ok {
					cf.Kind, cf.Chain = "forward", chain
				}
				out.Ctors = append(out.Ctors, cf)
			}
		}
	}
	return out
}

// flowExpr: the calls the flowing value (one of cur) passes through in e, innermost first.
func flowExpr(e ast.Expr, cur map[string]bool, ip string, imports map[string]string) ([]step, bool) {
	switch v := e.(type) {
	case *ast.ParenExpr:
		return flowExpr(v.X, cur, ip, imports)
	case *ast.Ident:
		if cur[v.Name] {
			return []step{}, true
		}
	case *ast.CallExpr:
		callee := calleeOf(v, ip, imports)
		if !strings.HasPrefix(callee, modPath) {
			return nil, false
		}
		name := shortPkg(callee[:strings.LastIndex(callee, ".")]) + callee[strings.LastIndex(callee, "."):]
		var res []step
		found := false
		for j, a := range v.Args {
			if st, ok := flowExpr(a, cur, ip, imports); ok {
				if found {
					return nil, false // flows in twice
				}
				found = true
				res = append(st, step{Callee: name, ArgPos: j})
			} else {
				for c := range cur {
					if mentions(a, c) {
						return nil, false
					}
				}
			}
		}
		if found {
			return res, true
		}
	}
	return nil, false
}

func flowBody(body []ast.Stmt, p string, ip string, imports map[string]string) ([]step, bool) {
	cur := map[string]bool{p: true}
	var chain []step
	for i, st := range body {
		last := i == len(body)-1
		if r, ok := st.(*ast.ReturnStmt); ok && last && len(r.Results) == 1 {
			steps, ok := flowExpr(r.Results[0], cur, ip, imports)
			if !ok {
				return nil, false
			}
			return append(chain, steps...), len(chain)+len(steps) > 0
		}
		if as, ok := st.(*ast.AssignStmt); ok && len(as.Lhs) == 1 && len(as.Rhs) == 1 {
			if lhs, ok := as.Lhs[0].(*ast.Ident); ok {
				if steps, ok := flowExpr(as.Rhs[0], cur, ip, imports); ok {
					chain = append(chain, steps...)
					cur = map[string]bool{lhs.Name: true}
					continue
				}
			}
		}
		for c := range cur {
			if mentions(st, c) {
				return nil, false
			}
		}
	}
	return nil, false
}

func max0(n int) int {
	if n < 0 {
		return 0
	}
	return n
}

func itoa(n int) string {
	if n == 0 {
		return "0"
	}
	s := ""
	for n > 0 {
		s = string(rune('0'+n%10)) + s
		n /= 10
	}
	return s
}
