package main

import (
	"go/ast"
	"sort"
	"strings"
)

// unwrap: the facts behind C07 ("barriers, secondary errors … are hidden: Unwrap/Cause never
// reveal them") and C14 ("a layer with both Cause and Unwrap returns the same error from both").
//
//   hidden_fields : (pkg, field) such that some function of the package passes `x.field` to
//                   EncodeError — the error a layer ships as a payload instead of as its cause
//                   (barrierErr.maskedErr, withSecondaryError.secondaryError);
//   methods       : for every struct type with an error-typed field, each method named Cause or
//                   Unwrap (single error result): the receiver field it returns, or "?" followed by
//                   the source text when the body is not `return recv.field`.

type unwrapMethod struct {
	Pkg    string `json:"pkg"`
	Type   string `json:"type"`
	Method string `json:"method"`
	Field  string `json:"field"`
	Hidden bool   `json:"hidden"` // the returned field is a hidden field of the package
	Pos    string `json:"pos"`
}

type unwrapFacts struct {
	HiddenFields [][2]string    `json:"hidden_fields"` // (pkg, field)
	Methods      []unwrapMethod `json:"methods"`
	Types        int            `json:"types"` // struct types with an error-typed field
}

func extractUnwrap(pkgs map[string]*pkgInfo) interface{} {
	out := unwrapFacts{}
	var paths []string
	for p := range pkgs {
		paths = append(paths, p)
	}
	sort.Strings(paths)
	for _, ip := range paths {
		pk := pkgs[ip]
		short := shortPkg(ip)
		// struct types with error-typed fields
		errFields := map[string]map[string]bool{}
		for _, f := range pk.files {
			for _, d := range f.Decls {
				gd, ok := d.(*ast.GenDecl)
				if !ok {
					continue
				}
				for _, sp := range gd.Specs {
					ts, ok := sp.(*ast.TypeSpec)
					if !ok {
						continue
					}
					st, ok := ts.Type.(*ast.StructType)
					if !ok {
						continue
					}
					for _, fl := range st.Fields.List {
						t := exprString(pk.fset, fl.Type)
						if t == "error" || t == "[]error" {
							for _, nm := range fl.Names {
								if errFields[ts.Name.Name] == nil {
									errFields[ts.Name.Name] = map[string]bool{}
								}
								errFields[ts.Name.Name][nm.Name] = true
							}
						}
					}
				}
			}
		}
		out.Types += len(errFields)
		// hidden fields: x.f passed to EncodeError anywhere in the package
		hidden := map[string]bool{}
		for _, f := range pk.files {
			ast.Inspect(f, func(n ast.Node) bool {
				call, ok := n.(*ast.CallExpr)
				if !ok {
					return true
				}
				name := ""
				switch fn := call.Fun.(type) {
				case *ast.Ident:
					name = fn.Name
				case *ast.SelectorExpr:
					name = fn.Sel.Name
				}
				if name != "EncodeError" {
					return true
				}
				for _, a := range call.Args {
					if sel, ok := a.(*ast.SelectorExpr); ok {
						if _, ok := sel.X.(*ast.Ident); ok {
							hidden[sel.Sel.Name] = true
						}
					}
				}
				return true
			})
		}
		var hs []string
		for h := range hidden {
			hs = append(hs, h)
		}
		sort.Strings(hs)
		for _, h := range hs {
			out.HiddenFields = append(out.HiddenFields, [2]string{short, h})
		}
		// Cause / Unwrap methods
		for _, f := range pk.files {
			for _, d := range f.Decls {
				fd, ok := d.(*ast.FuncDecl)
				if !ok || fd.Recv == nil || fd.Body == nil {
					continue
				}
				if fd.Name.Name != "Cause" && fd.Name.Name != "Unwrap" {
					continue
				}
				tn, recv := recvTypeName(fd)
				if errFields[tn] == nil {
					continue
				}
				m := unwrapMethod{Pkg: short, Type: tn, Method: fd.Name.Name}
				p := pk.fset.Position(fd.Pos())
				m.Pos = strings.TrimPrefix(p.Filename, repoRoot+"/") + ":" + itoa(p.Line)
				m.Field = "?"
				if len(fd.Body.List) == 1 {
					if r, ok := fd.Body.List[0].(*ast.ReturnStmt); ok && len(r.Results) == 1 {
						if sel, ok := r.Results[0].(*ast.SelectorExpr); ok {
							if x, ok := sel.X.(*ast.Ident); ok && x.Name == recv {
								m.Field = sel.Sel.Name
							}
						}
						if m.Field == "?" {
							m.Field = "?" + exprString(pk.fset, r.Results[0])
						}
					}
				}
				m.Hidden = hidden[m.Field]
				if strings.HasPrefix(m.Field, "?") {
					// an unrecognised body that mentions a hidden field exposes it for all we know
					for h := range hidden {
						if mentions(fd.Body, h) {
							m.Hidden = true
						}
					}
				}
				out.Methods = append(out.Methods, m)
			}
		}
	}
	return out
}
