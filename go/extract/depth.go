package main

import (
	"go/ast"
	"go/token"
	"strconv"
	"strings"
)

// ---- C16: the stack-depth forwarding graph --------------------------------

type Affine struct {
	A, B int  // value = A*depth + B
	OK   bool // false = not recognised
	Src  string
}

type DepthEdge struct {
	Callee string `json:"callee"`
	A      int    `json:"a"`
	B      int    `json:"b"`
	Known  bool   `json:"known"`
	Src    string `json:"src"`
	Pos    string `json:"pos"`
}

type DepthFn struct {
	Name     string      `json:"name"`
	HasDepth bool        `json:"has_depth"`
	Exported bool        `json:"exported"` // exported, in an API package, returns error or Domain
	Prim     bool        `json:"prim"`
	Edges    []DepthEdge `json:"edges"`
}

// parseAffine recognises: depth | n | depth+n | n+depth
func parseAffine(e ast.Expr, depthName string) Affine {
	switch x := e.(type) {
	case *ast.ParenExpr:
		return parseAffine(x.X, depthName)
	case *ast.Ident:
		if depthName != "" && x.Name == depthName {
			return Affine{A: 1, B: 0, OK: true}
		}
	case *ast.BasicLit:
		if x.Kind == token.INT {
			if n, err := strconv.Atoi(x.Value); err == nil {
				return Affine{A: 0, B: n, OK: true}
			}
		}
	case *ast.BinaryExpr:
		l, r := parseAffine(x.X, depthName), parseAffine(x.Y, depthName)
		if l.OK && r.OK {
			switch x.Op {
			case token.ADD:
				return Affine{A: l.A + r.A, B: l.B + r.B, OK: true}
			case token.SUB:
				return Affine{A: l.A - r.A, B: l.B - r.B, OK: true}
			}
		}
	}
	return Affine{}
}

type fnDecl struct {
	pkg      string
	decl     *ast.FuncDecl
	imports  map[string]string
	depthIdx int // index of the `depth int` parameter, -1 if none
	retErr   bool
	pi       *pkgInfo
}

func paramIndex(fd *ast.FuncDecl, name string) int {
	i := 0
	for _, f := range fd.Type.Params.List {
		if len(f.Names) == 0 {
			i++
			continue
		}
		for _, n := range f.Names {
			if n.Name == name {
				if id, ok := f.Type.(*ast.Ident); ok && id.Name == "int" {
					return i
				}
			}
			i++
		}
	}
	return -1
}

func returnsErrorOrDomain(fd *ast.FuncDecl) bool {
	if fd.Type.Results == nil {
		return false
	}
	for _, r := range fd.Type.Results.List {
		switch t := r.Type.(type) {
		case *ast.Ident:
			if t.Name == "error" || t.Name == "Domain" {
				return true
			}
		case *ast.SelectorExpr:
			if t.Sel.Name == "Domain" {
				return true
			}
		}
	}
	return false
}

var apiPkgs = map[string]bool{
	modPath:                 true,
	modPath + "/errutil":   true,
	modPath + "/withstack": true,
	modPath + "/domains":   true,
}

func extractDepth(pkgs map[string]*pkgInfo) interface{} {
	fns := map[string]*fnDecl{}
	for _, pk := range pkgs {
		for _, f := range pk.files {
			im := fileImports(f)
			for _, d := range f.Decls {
				fd, ok := d.(*ast.FuncDecl)
				if !ok || fd.Recv != nil || fd.Body == nil {
					continue
				}
				fns[pk.path+"."+fd.Name.Name] = &fnDecl{pkg: pk.path, decl: fd, imports: im,
					depthIdx: paramIndex(fd, "depth"), retErr: returnsErrorOrDomain(fd), pi: pk}
			}
		}
	}
	type rawEdge struct {
		callee string
		call   *ast.CallExpr
	}
	edges := map[string][]rawEdge{}
	for name, fn := range fns {
		ast.Inspect(fn.decl.Body, func(n ast.Node) bool {
			if _, ok := n.(*ast.FuncLit); ok {
				return false // closures are their own frames; not used by the stack-capturing API
			}
			if call, ok := n.(*ast.CallExpr); ok {
				if c := calleeOf(call, fn.pkg, fn.imports); c != "" {
					edges[name] = append(edges[name], rawEdge{c, call})
				}
			}
			return true
		})
	}
	prims := map[string]bool{"runtime.Callers": true, "runtime.Caller": true}
	// S = functions that reach a primitive
	inS := map[string]bool{}
	changed := true
	for changed {
		changed = false
		for name := range fns {
			if inS[name] {
				continue
			}
			for _, e := range edges[name] {
				if prims[e.callee] || inS[e.callee] {
					inS[name] = true
					changed = true
					break
				}
			}
		}
	}
	var out []DepthFn
	for _, name := range sortedKeys(inS) {
		fn := fns[name]
		depthName := ""
		if fn.depthIdx >= 0 {
			depthName = "depth"
		}
		df := DepthFn{Name: name, HasDepth: fn.depthIdx >= 0,
			Exported: ast.IsExported(fn.decl.Name.Name) && apiPkgs[fn.pkg] && fn.retErr}
		for _, e := range edges[name] {
			var arg ast.Expr
			switch {
			case prims[e.callee]:
				if len(e.call.Args) > 0 {
					arg = e.call.Args[0]
				}
			case inS[e.callee]:
				cf := fns[e.callee]
				if cf.depthIdx >= 0 {
					if cf.depthIdx < len(e.call.Args) {
						arg = e.call.Args[cf.depthIdx]
					}
				} else {
					// callee without depth parameter: it attributes to its caller (level 1)
					df.Edges = append(df.Edges, DepthEdge{Callee: e.callee, A: 0, B: 0, Known: true, Src: "-",
						Pos: fn.pi.fset.Position(e.call.Pos()).String()})
					continue
				}
			default:
				continue
			}
			de := DepthEdge{Callee: e.callee, Pos: fn.pi.fset.Position(e.call.Pos()).String()}
			if arg != nil {
				af := parseAffine(arg, depthName)
				de.A, de.B, de.Known = af.A, af.B, af.OK
				de.Src = strings.TrimSpace(exprString(fn.pi.fset, arg))
			}
			df.Edges = append(df.Edges, de)
		}
		out = append(out, df)
	}
	return map[string]interface{}{"functions": out, "prims": []string{"runtime.Callers", "runtime.Caller"}}
}
