package main

import (
	"go/ast"
	"go/token"
	"sort"
	"strings"
)

// effects: the facts behind C18 ("error structs are never mutated after construction;
// all per-call formatting state lives in a fresh state value").
//
//   recv_mutations : assignments / inc-dec / map or slice element writes / append-to-field
//                    through the receiver, in any method of a type that has an Error() method
//                    (the error types), outside constructors (functions returning the type);
//   global_writes  : writes to package-level variables (assignment, element write, inc/dec)
//                    in any function other than init;
//   sync_fields    : fields of error types whose type mentions sync. or atomic.
//   error_types    : the error types seen (so that an empty list cannot be vacuous).

type effSite struct {
	Pkg  string `json:"pkg"`
	Func string `json:"func"`
	What string `json:"what"`
	Pos  string `json:"pos"`
}

type effFacts struct {
	ErrorTypes    []string  `json:"error_types"`
	RecvMutations []effSite `json:"recv_mutations"`
	GlobalWrites  []effSite `json:"global_writes"`
	SyncFields    []effSite `json:"sync_fields"`
	Functions     int       `json:"functions"`
}

func recvTypeName(fd *ast.FuncDecl) (name string, recv string) {
	if fd.Recv == nil || len(fd.Recv.List) == 0 {
		return "", ""
	}
	t := fd.Recv.List[0].Type
	if s, ok := t.(*ast.StarExpr); ok {
		t = s.X
	}
	if id, ok := t.(*ast.Ident); ok {
		name = id.Name
	}
	if len(fd.Recv.List[0].Names) > 0 {
		recv = fd.Recv.List[0].Names[0].Name
	}
	return
}

// baseIdent returns the identifier at the root of an lvalue (x in x.f[i].g, *x, x[i]).
func baseIdent(e ast.Expr) *ast.Ident {
	for {
		switch v := e.(type) {
		case *ast.Ident:
			return v
		case *ast.SelectorExpr:
			e = v.X
		case *ast.IndexExpr:
			e = v.X
		case *ast.StarExpr:
			e = v.X
		case *ast.ParenExpr:
			e = v.X
		case *ast.SliceExpr:
			e = v.X
		default:
			return nil
		}
	}
}

func extractEffects(pkgs map[string]*pkgInfo) interface{} {
	out := effFacts{}
	var paths []string
	for p := range pkgs {
		paths = append(paths, p)
	}
	sort.Strings(paths)
	for _, ip := range paths {
		pk := pkgs[ip]
		short := strings.TrimPrefix(strings.TrimPrefix(ip, modPath), "/")
		if short == "" {
			short = "errors"
		}
		// error types and package-level variables of this package
		errTypes := map[string]bool{}
		globals := map[string]bool{}
		for _, f := range pk.files {
			for _, d := range f.Decls {
				switch v := d.(type) {
				case *ast.FuncDecl:
					if v.Name.Name == "Error" && v.Type.Params.NumFields() == 0 {
						if n, _ := recvTypeName(v); n != "" {
							errTypes[n] = true
						}
					}
				case *ast.GenDecl:
					if v.Tok == token.VAR {
						for _, s := range v.Specs {
							for _, n := range s.(*ast.ValueSpec).Names {
								if n.Name != "_" {
									globals[n.Name] = true
								}
							}
						}
					}
				}
			}
		}
		for n := range errTypes {
			out.ErrorTypes = append(out.ErrorTypes, short+"."+n)
		}
		for _, f := range pk.files {
			for _, d := range f.Decls {
				switch v := d.(type) {
				case *ast.GenDecl:
					if v.Tok != token.TYPE {
						continue
					}
					for _, s := range v.Specs {
						ts := s.(*ast.TypeSpec)
						st, ok := ts.Type.(*ast.StructType)
						if !ok || !errTypes[ts.Name.Name] {
							continue
						}
						for _, fl := range st.Fields.List {
							tstr := exprString(pk.fset, fl.Type)
							if strings.Contains(tstr, "sync.") || strings.Contains(tstr, "atomic.") {
								out.SyncFields = append(out.SyncFields, effSite{short, ts.Name.Name, tstr, pk.fset.Position(fl.Pos()).String()})
							}
						}
					}
				case *ast.FuncDecl:
					if v.Body == nil {
						continue
					}
					out.Functions++
					tn, recv := recvTypeName(v)
					fname := v.Name.Name
					if tn != "" {
						fname = tn + "." + fname
					}
					isErrMethod := tn != "" && errTypes[tn] && recv != "" && recv != "_"
					// names declared locally (parameters, :=, var) shadow globals
					local := map[string]bool{}
					if v.Type.Params != nil {
						for _, p := range v.Type.Params.List {
							for _, n := range p.Names {
								local[n.Name] = true
							}
						}
					}
					if v.Type.Results != nil {
						for _, p := range v.Type.Results.List {
							for _, n := range p.Names {
								local[n.Name] = true
							}
						}
					}
					ast.Inspect(v.Body, func(n ast.Node) bool {
						switch s := n.(type) {
						case *ast.AssignStmt:
							if s.Tok == token.DEFINE {
								for _, l := range s.Lhs {
									if id, ok := l.(*ast.Ident); ok {
										local[id.Name] = true
									}
								}
							}
						case *ast.ValueSpec:
							for _, id := range s.Names {
								local[id.Name] = true
							}
						case *ast.RangeStmt:
							if s.Tok == token.DEFINE {
								for _, l := range []ast.Expr{s.Key, s.Value} {
									if id, ok := l.(*ast.Ident); ok {
										local[id.Name] = true
									}
								}
							}
						}
						return true
					})
					check := func(lhs ast.Expr, pos token.Pos) {
						b := baseIdent(lhs)
						if b == nil {
							return
						}
						_, direct := lhs.(*ast.Ident)
						if isErrMethod && b.Name == recv && !direct {
							out.RecvMutations = append(out.RecvMutations, effSite{short, fname, exprString(pk.fset, lhs), pk.fset.Position(pos).String()})
						}
						if globals[b.Name] && !local[b.Name] && v.Name.Name != "init" && !(isErrMethod && b.Name == recv) {
							out.GlobalWrites = append(out.GlobalWrites, effSite{short, fname, exprString(pk.fset, lhs), pk.fset.Position(pos).String()})
						}
					}
					ast.Inspect(v.Body, func(n ast.Node) bool {
						switch s := n.(type) {
						case *ast.AssignStmt:
							if s.Tok != token.DEFINE {
								for _, l := range s.Lhs {
									check(l, s.Pos())
								}
							}
						case *ast.IncDecStmt:
							check(s.X, s.Pos())
						case *ast.CallExpr:
							// functions that modify their (first) argument in place
							name := ""
							switch f := s.Fun.(type) {
							case *ast.Ident:
								name = f.Name
							case *ast.SelectorExpr:
								if x, ok := f.X.(*ast.Ident); ok {
									name = x.Name + "." + f.Sel.Name
								}
							}
							inPlace := name == "copy" || name == "delete" || name == "clear" ||
								strings.HasPrefix(name, "sort.") || strings.HasPrefix(name, "slices.Sort") || name == "slices.Reverse" ||
								name == "rand.Shuffle"
							if inPlace && len(s.Args) > 0 {
								arg := s.Args[0]
								if u, ok := arg.(*ast.UnaryExpr); ok {
									arg = u.X
								}
								if _, isIdent := arg.(*ast.Ident); !isIdent {
									check(arg, s.Pos())
								} else if b := baseIdent(arg); b != nil && globals[b.Name] && !local[b.Name] && v.Name.Name != "init" {
									out.GlobalWrites = append(out.GlobalWrites, effSite{short, fname, name + "(" + exprString(pk.fset, arg) + ")", pk.fset.Position(s.Pos()).String()})
								}
							}
						}
						return true
					})
				}
			}
		}
	}
	sort.Strings(out.ErrorTypes)
	for i := range out.RecvMutations {
		out.RecvMutations[i].Pos = relPos(out.RecvMutations[i].Pos)
	}
	for i := range out.GlobalWrites {
		out.GlobalWrites[i].Pos = relPos(out.GlobalWrites[i].Pos)
	}
	for i := range out.SyncFields {
		out.SyncFields[i].Pos = relPos(out.SyncFields[i].Pos)
	}
	return out
}

func relPos(p string) string {
	p = strings.TrimPrefix(p, strings.TrimSuffix(repoRoot, "/")+"/")
	// drop the column and line: facts are keyed by (package, function, lvalue)
	if i := strings.Index(p, ":"); i >= 0 {
		p = p[:i]
	}
	return p
}
