package main

import (
	"fmt"
	"strings"

	"github.com/cockroachdb/errors"
	"github.com/cockroachdb/errors/errbase"
)

// C07: hidden errors (barrier payloads, secondary errors, Mark references) contribute
// nothing to cause analysis, yet remain visible in %+v and in the safe details.

// accNoIdentity = accessors that must not see hidden content (safe details, root type
// and text-dependent fields are handled separately).
func accHidden(e error) string { return accHiddenX(e, false) }

// dropOS: the OS predicates go through Is, which Mark is meant to influence
func accHiddenX(e error, dropOS bool) string {
	a := accSX(e)
	var keep []SX
	for _, f := range a.L[1:] {
		switch f.L[0].Sym {
		case "safedet", "root", "stacks":
			continue
		case "os":
			if dropOS {
				continue
			}
		case "flags":
			// IsIssueLink / IsUnimplementedError / IsAssertionFailure look at the outermost layer only
			f = L(f.L[0], f.L[1], f.L[3], f.L[5])
		}
		keep = append(keep, f)
	}
	return L(keep...).String()
}

var emptyAcc string

func hiddenNodes(e error, acc []error) []error {
	for _, n := range nodesOfErr(e, nil) {
		acc = append(acc, n)
	}
	return acc
}

func oracleC07(res *Result, c *Case) {
	if emptyAcc == "" {
		emptyAcc = accHidden(errors.UnwrapAll(errors.New("plain")))
	}
	for _, n := range nodesOf(c.Rec, nil) {
		if n.built == nil || len(n.K) == 0 {
			continue
		}
		e := n.built
		k0 := n.K[0]
		switch n.Op {
		case "secondary", "mark":
			if k0 == nil || k0.built == nil || len(n.K) < 2 || n.K[1] == nil || n.K[1].built == nil {
				continue
			}
			hidden := n.K[1].built
			res.OracleEvals["C07.contributes_nothing"]++
			if a, b := accHiddenX(e, n.Op == "mark"), accHiddenX(k0.built, n.Op == "mark"); a != b {
				i := 0
				for i < len(a) && i < len(b) && a[i] == b[i] {
					i++
				}
				lo := i - 60
				if lo < 0 {
					lo = 0
				}
				res.fail(c, "C07.contributes_nothing", fmt.Sprintf("%s: accessors of the result differ from those of the wrapped error near %q vs %q", n.Op, a[lo:min(len(a), i+40)], b[lo:min(len(b), i+40)]), "C07:acc:"+n.Op)
			}
			if !safeEq(errors.UnwrapAll(e), errors.UnwrapAll(k0.built)) || !safeEq(errors.UnwrapOnce(e), k0.built) {
				res.fail(c, "C07.unreachable", n.Op+": Unwrap does not lead to the wrapped error", "C07:unwrap:"+n.Op)
			}
			// every layer of the hidden error that the wrapped error does not match on its own must stay unmatched
			// (for Mark: unless it is equivalent to the reference itself)
			for _, h := range hiddenNodes(hidden, nil) {
				res.OracleEvals["C07.is_blind"]++
				before := isRes(k0.built, h)
				after := isRes(e, h)
				if n.Op == "mark" && markEquivRef(markOf(hidden), markOf(h)) {
					continue
				}
				if before == "false" && after == "true" && markEquivRef(markOf(e), markOf(h)) {
					// the new outer layer itself (its visible text and type chain) is equivalent to
					// that hidden layer: the match does not come from the hidden payload
					continue
				}
				if before != after {
					res.fail(c, "C07.is_blind", fmt.Sprintf("%s: Is(result, hidden layer %T)=%s but Is(wrapped, it)=%s", n.Op, h, after, before), "C07:is:"+n.Op)
				}
			}
			if n.Op == "secondary" {
				checkVisible(res, c, n.Op, e, hidden)
			}
		case "handled", "handledindomain", "handleasassertion", "newassertionwrapped":
			if k0 == nil || k0.built == nil {
				continue
			}
			hidden := k0.built
			// locate the barrier layer
			var barrier error
			for x := e; x != nil; x = errbase.UnwrapOnce(x) {
				if fmt.Sprintf("%T", x) == "*barriers.barrierErr" {
					barrier = x
				}
			}
			res.OracleEvals["C07.unreachable"]++
			if barrier == nil {
				res.fail(c, "C07.unreachable", n.Op+": no barrier layer", "C07:nobarrier:"+n.Op)
				continue
			}
			if errbase.UnwrapOnce(barrier) != nil || len(errbase.UnwrapMulti(barrier)) != 0 || !safeEq(errors.UnwrapAll(e), barrier) {
				res.fail(c, "C07.unreachable", n.Op+": the barrier exposes a cause", "C07:unwrap:"+n.Op)
			}
			res.OracleEvals["C07.contributes_nothing"]++
			if got := accHidden(barrier); got != emptyAcc {
				res.fail(c, "C07.contributes_nothing", n.Op+": the barrier layer has annotations of its own", "C07:acc:"+n.Op)
			}
			for _, h := range hiddenNodes(hidden, nil) {
				res.OracleEvals["C07.is_blind"]++
				if isRes(barrier, h) == "true" && !markEquivRef(markOf(barrier), markOf(h)) {
					res.fail(c, "C07.is_blind", fmt.Sprintf("%s: Is(barrier, hidden layer %T) holds", n.Op, h), "C07:is:"+n.Op)
				}
			}
			// message: Handled keeps the hidden text exactly, the WithMessage variants replace it
			res.OracleEvals["C07.barrier_text"]++
			want := hidden.Error()
			if n.Op == "handledindomain" && nin(n, 0) == 1 {
				want = in(n, 1)
			}
			if n.Op == "handled" {
				switch nin(n, 0) {
				case 1:
					want = in(n, 0)
				case 2:
					want = fmtOf(n)
				}
			}
			if barrier.Error() != want {
				res.fail(c, "C07.barrier_text", fmt.Sprintf("barrier text %q want %q", barrier.Error(), want), "C07:text:"+n.Op)
			}
			checkVisible(res, c, n.Op, barrier, hidden)
		}
	}
	// and after transfer
	if h2, ok := hopsReal(c.Err, 2); ok {
		res.OracleEvals["C07.after_transfer"]++
		if accHidden(h2) != accHidden(c.Err) {
			res.fail(c, "C07.after_transfer", "accessors changed after 2 hops", "C07:transfer")
		}
	}
}

// checkVisible: the hidden error remains fully visible in %+v and contributes its
// safe details to the carrier layer.
func checkVisible(res *Result, c *Case, op string, carrier, hidden error) {
	res.OracleEvals["C07.visible_verbose"]++
	verbose := fmt.Sprintf("%+v", carrier)
	for _, line := range strings.Split(fmt.Sprintf("%+v", errors.Formattable(hidden)), "\n") {
		t := strings.TrimSpace(line)
		if t == "" {
			continue
		}
		if !strings.Contains(verbose, t) {
			res.fail(c, "C07.visible_verbose", fmt.Sprintf("%s: line %q of the hidden error's %%+v is missing", op, t), "C07:visible:"+op)
			break
		}
	}
	res.OracleEvals["C07.safe_details_contributed"]++
	own := strings.Join(errors.GetSafeDetails(carrier).SafeDetails, "\n")
	for h := hidden; h != nil; h = errbase.UnwrapOnce(h) {
		for _, d := range errors.GetSafeDetails(h).SafeDetails {
			if d != "" && !strings.Contains(own, d) {
				res.fail(c, "C07.safe_details_contributed", fmt.Sprintf("%s: safe detail %q of a hidden layer is not in the carrier's safe details", op, d), "C07:safedetails:"+op)
				return
			}
		}
	}
}
