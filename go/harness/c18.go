package main

import (
	"fmt"
	"strings"
	"sync"
	"sync/atomic"

	"github.com/cockroachdb/errors"
	"github.com/cockroachdb/redact"
)

// C18: read-only use of a shared error value from many goroutines.  The binary is built
// with -race; every observer operation of the other properties runs concurrently on the
// SAME error value (local, decoded, decoded at an unknowing process) and each result is
// compared with the result of the same operation executed alone beforehand.

type observer struct {
	Name string
	F    func(e error, refs []error) string
}

var observers = []observer{
	{"format", func(e error, _ []error) string { return fmtSX(e).String() }},
	{"verbs", func(e error, _ []error) string {
		// every directive except %#v (a Go-syntax dump prints addresses, which differ between
		// the shared value and its twin)
		var sb strings.Builder
		for _, f := range verbSpecs {
			if f == "%#v" {
				continue
			}
			sb.WriteString(fmt.Sprintf(f, errors.Formattable(e)))
			sb.WriteByte(0)
			sb.WriteString(string(redact.Sprintf(f, e)))
			sb.WriteByte(0)
		}
		return sb.String()
	}},
	{"encode", func(e error, _ []error) string { return encSX(e).String() }},
	{"wire-bytes", func(e error, _ []error) string {
		enc := errors.EncodeError(bgCtx, e)
		bs, err := enc.Marshal()
		return fmt.Sprintf("%x %v", bs, err)
	}},
	{"is", func(e error, refs []error) string { return isSX(e, refs).String() }},
	{"compat-as-unwrap", func(e error, refs []error) string { return compatSX(e, refs).String() }},
	{"accessors-safe-details", func(e error, _ []error) string { return accSX(e).String() }},
	{"report", func(e error, _ []error) string { return reportSX(e).String() }},
	{"tree", func(e error, _ []error) string { return treeSX(e).String() }},
	{"decode-again", func(e error, _ []error) string {
		h, ok := hopsReal(e, 1)
		if !ok {
			return "panic"
		}
		return treeSX(h).String()
	}},
}

func runC18(res *Result, tier string, seed uint64) {
	g := NewGen(seed)
	n, goroutines, rounds := 28, 16, 3
	if tier == "thorough" {
		n, goroutines, rounds = 400, 32, 4
		g.maxDepth = 8
	}
	var recs []*R
	for i := 0; i < n; i++ {
		switch i % 4 {
		case 0, 1:
			recs = append(recs, g.Tree(1+g.rng.Intn(g.maxDepth)))
		case 2:
			recs = append(recs, annotRecipe(g))
		default:
			recs = append(recs, multiRecipe(g))
		}
	}
	// half of the trees get a layer of every annotation kind with several entries in a
	// non-canonical order (keys, tags, hints, details, links, safe details): state that an
	// observer might be tempted to normalise or cache in place
	for i := range recs {
		if i%2 == 1 {
			continue
		}
		r := recs[i]
		r = g.node("telemetry", []string{"zeta.key", "alpha.key", "mid.key", "alpha.key", "trunc.key\xc3"}, nil, r) // one key is not valid UTF-8
		r = g.node("tags", []string{"zz", "v1", "aa", "v2", "mm", "v3"}, []int{0, 1, 2}, r)
		r = g.node("hint", []string{"hint b"}, nil, g.node("hint", []string{"hint a"}, nil, g.node("hint", []string{"hint b"}, nil, r)))
		r = g.node("detail", []string{"detail z"}, nil, g.node("detail", []string{"detail a"}, nil, r))
		r = g.node("issuelink", []string{"https://z", "zz\x80"}, nil, g.node("issuelink", []string{"https://a", "aa"}, nil, r))
		r = g.node("safedetails", []string{"z %s"}, nil, r)
		a := "arg"
		r.Arg = &a
		r = g.node("domain", []string{"dom z"}, nil, g.node("domain", []string{"dom a"}, nil, r))
		recs[i] = g.node("withstack", nil, nil, r)
	}
	res.Cases = 0
	for i, rec := range recs {
		// three equal values built through the same call site (same stack traces): `eShared`
		// is never observed before the goroutines start, `eSolo` gives the results of each
		// call executed alone, `eSrc` is the source of the decoded stages
		var tw [3]error
		var bp *buildPanic
		for k := range tw {
			tw[k], bp = Build(rec)
			if bp != nil {
				break
			}
		}
		eShared, eSolo, e0 := tw[0], tw[1], tw[2]
		if bp != nil || e0 == nil || eShared == nil || eSolo == nil {
			continue
		}
		type sharedVal struct {
			stage   string
			e, solo error
		}
		shared := []sharedVal{{"local", eShared, eSolo}}
		for _, st := range stages(e0, true) {
			if st.Name == "hop1" || st.Name == "unknowing" {
				// a decoded value is a fresh object graph: decode twice for an untouched shared copy
				var twin error
				if ok, _ := catch(func() {
					if st.Name == "hop1" {
						twin = hopReal(e0, nil)
					} else {
						twin = hopReal(e0, allFamilies)
					}
				}); ok && twin != nil {
					shared = append(shared, sharedVal{st.Name, twin, st.E})
				}
			}
		}
		refs := []error{}
		for _, r := range sentinelRefs(g) {
			if re, p := Build(r); p == nil && re != nil {
				refs = append(refs, re)
			}
		}
		refs = append(refs, e0)
		_ = errors.UnwrapOnce
		for _, sh := range shared {
			res.Cases++
			res.DepthHist[fmt.Sprint(rec.Depth())]++
			c := &Case{ID: fmt.Sprintf("r%d.%s", i, sh.stage), Rec: rec, Cmd: rec.ToSX()}
			// solo results
			solo := make([]string, len(observers))
			for k, ob := range observers {
				func() {
					defer func() {
						if v := recover(); v != nil {
							solo[k] = fmt.Sprint("panic: ", v)
						}
					}()
					solo[k] = ob.F(sh.solo, refs)
				}()
			}
			var wg sync.WaitGroup
			var bad int32
			var mu sync.Mutex
			for gi := 0; gi < goroutines; gi++ {
				wg.Add(1)
				go func(gi int) {
					defer wg.Done()
					for r := 0; r < rounds; r++ {
						for k0 := range observers {
							k := (k0*7 + gi*3 + r) % len(observers) // a different order in every goroutine
							var got string
							func() {
								defer func() {
									if v := recover(); v != nil {
										got = fmt.Sprint("panic: ", v)
									}
								}()
								got = observers[k].F(sh.e, refs)
							}()
							if got != solo[k] {
								if atomic.AddInt32(&bad, 1) <= 3 {
									mu.Lock()
									res.fail(c, "C18", fmt.Sprintf("%s: %s run concurrently differs from the same call executed alone (first difference at byte %d)",
										sh.stage, observers[k].Name, firstDiff(got, solo[k])), "C18:nondeterministic:"+observers[k].Name)
									mu.Unlock()
								}
							}
						}
					}
				}(gi)
			}
			wg.Wait()
			res.OracleEvals["C18.concurrent_calls"] += goroutines * rounds * len(observers)
			res.OracleEvals["C18.shared_values"]++
		}
	}
	res.Distinct = res.Cases
	res.OpCounts = g.opCount
	res.Rule = fmt.Sprintf("generated trees (local, decoded after a hop, decoded at an unknowing process) each shared by %d goroutines running %d observer operations %d times in different orders under the race detector; every result compared with the same call executed alone", goroutines, len(observers), rounds)
	res.Extra = map[string]interface{}{"goroutines": goroutines, "observers": len(observers), "race_detector": raceEnabled}
}
