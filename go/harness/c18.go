package main

import (
	"fmt"
	"sync"
	"sync/atomic"

	"github.com/cockroachdb/errors"
)

// C18: read-only use of a shared error value from many goroutines.  The binary is built
// with -race; every observer operation of the other properties runs concurrently on the
// SAME error value (local, decoded, decoded at an unknowing process) and each result is
// compared with the result of the same operation executed alone beforehand.

type observer struct {
	Name string
	F    func(e error, refs []error) string
}

var observers = []observer{
	{"format", func(e error, _ []error) string { return fmtSX(e).String() }},
	{"verbs", func(e error, _ []error) string { return verbsSX(e).String() }},
	{"encode", func(e error, _ []error) string { return encSX(e).String() }},
	{"wire-bytes", func(e error, _ []error) string {
		enc := errors.EncodeError(bgCtx, e)
		bs, err := enc.Marshal()
		return fmt.Sprintf("%x %v", bs, err)
	}},
	{"is", func(e error, refs []error) string { return isSX(e, refs).String() }},
	{"compat-as-unwrap", func(e error, refs []error) string { return compatSX(e, refs).String() }},
	{"accessors-safe-details", func(e error, _ []error) string { return accSX(e).String() }},
	{"report", func(e error, _ []error) string { return reportSX(e).String() }},
	{"tree", func(e error, _ []error) string { return treeSX(e).String() }},
	{"decode-again", func(e error, _ []error) string {
		h, ok := hopsReal(e, 1)
		if !ok {
			return "panic"
		}
		return treeSX(h).String()
	}},
}

func runC18(res *Result, tier string, seed uint64) {
	g := NewGen(seed)
	n, goroutines, rounds := 28, 16, 3
	if tier == "thorough" {
		n, goroutines, rounds = 400, 32, 4
		g.maxDepth = 8
	}
	var recs []*R
	for i := 0; i < n; i++ {
		switch i % 4 {
		case 0, 1:
			recs = append(recs, g.Tree(1+g.rng.Intn(g.maxDepth)))
		case 2:
			recs = append(recs, annotRecipe(g))
		default:
			recs = append(recs, multiRecipe(g))
		}
	}
	res.Cases = 0
	for i, rec := range recs {
		e0, bp := Build(rec)
		if bp != nil || e0 == nil {
			continue
		}
		var shared []struct {
			stage string
			e     error
		}
		for _, st := range stages(e0, true) {
			if st.Name == "hop3" || st.Name == "unknowing+1" {
				continue
			}
			shared = append(shared, struct {
				stage string
				e     error
			}{st.Name, st.E})
		}
		refs := []error{}
		for _, r := range sentinelRefs(g) {
			if re, p := Build(r); p == nil && re != nil {
				refs = append(refs, re)
			}
		}
		refs = append(refs, e0)
		for _, sh := range shared {
			res.Cases++
			res.DepthHist[fmt.Sprint(rec.Depth())]++
			c := &Case{ID: fmt.Sprintf("r%d.%s", i, sh.stage), Rec: rec, Cmd: rec.ToSX()}
			// solo results
			solo := make([]string, len(observers))
			for k, ob := range observers {
				func() {
					defer func() {
						if v := recover(); v != nil {
							solo[k] = fmt.Sprint("panic: ", v)
						}
					}()
					solo[k] = ob.F(sh.e, refs)
				}()
			}
			var wg sync.WaitGroup
			var bad int32
			var mu sync.Mutex
			for gi := 0; gi < goroutines; gi++ {
				wg.Add(1)
				go func(gi int) {
					defer wg.Done()
					for r := 0; r < rounds; r++ {
						for k0 := range observers {
							k := (k0*7 + gi*3 + r) % len(observers) // a different order in every goroutine
							var got string
							func() {
								defer func() {
									if v := recover(); v != nil {
										got = fmt.Sprint("panic: ", v)
									}
								}()
								got = observers[k].F(sh.e, refs)
							}()
							if got != solo[k] {
								if atomic.AddInt32(&bad, 1) <= 3 {
									mu.Lock()
									res.fail(c, "C18", fmt.Sprintf("%s: %s run concurrently differs from the same call executed alone (first difference at byte %d)",
										sh.stage, observers[k].Name, firstDiff(got, solo[k])), "C18:nondeterministic:"+observers[k].Name)
									mu.Unlock()
								}
							}
						}
					}
				}(gi)
			}
			wg.Wait()
			res.OracleEvals["C18.concurrent_calls"] += goroutines * rounds * len(observers)
			res.OracleEvals["C18.shared_values"]++
		}
	}
	res.Distinct = res.Cases
	res.OpCounts = g.opCount
	res.Rule = fmt.Sprintf("generated trees (local, decoded after a hop, decoded at an unknowing process) each shared by %d goroutines running %d observer operations %d times in different orders under the race detector; every result compared with the same call executed alone", goroutines, len(observers), rounds)
	res.Extra = map[string]interface{}{"goroutines": goroutines, "observers": len(observers), "race_detector": raceEnabled}
}
