package main

import (
	goErr "errors"
	"fmt"

	"github.com/cockroachdb/errors"
	pkgErr "github.com/pkg/errors"
)

// Typed-nil causes (C14): a wrapper whose Unwrap()/Cause() returns an error interface holding
// a nil pointer.  The standard library and pkg/errors treat that as a cause like any other (the
// interface value is not nil); drop-in compatibility means this library reaches it too.
// Purely differential, table-driven.

type tnErr struct{ msg string }

func (e *tnErr) Error() string {
	if e == nil {
		return "typed-nil"
	}
	return e.msg
}

type tnCauser struct{ cause error }

func (e *tnCauser) Error() string { return "causer: " + e.cause.Error() }
func (e *tnCauser) Cause() error  { return e.cause }
func (e *tnCauser) Unwrap() error { return e.cause }

func oracleC14TypedNil(res *Result) {
	c := &Case{ID: "typed-nil", Cmd: L(Sym("typed-nil"))}
	var tn error = (*tnErr)(nil)
	shapes := []namedErr{
		{"fmt %w", fmt.Errorf("w: %w", tn)},
		{"pkg WithMessage", pkgErr.WithMessage(tn, "m")},
		{"pkg WithStack", pkgErr.WithStack(tn)},
		{"Wrap", errors.Wrap(tn, "w")},
		{"WithStack", errors.WithStack(tn)},
		{"WithHint(Wrap)", errors.WithHint(errors.Wrap(tn, "w"), "h")},
		{"causer", &tnCauser{tn}},
		{"Wrap(causer)", errors.Wrap(&tnCauser{tn}, "o")},
		{"Join(x, fmt %w)", errors.Join(goErr.New("x"), fmt.Errorf("w: %w", tn))},
	}
	for _, sh := range shapes {
		res.OracleEvals["C14.typed_nil"]++
		var lis, sis, las, sas bool
		var lt, st *tnErr
		var lroot, sroot error
		if ok, pv := catch(func() {
			lis, sis = errors.Is(sh.e, tn), goErr.Is(sh.e, tn)
			las, sas = errors.As(sh.e, &lt), goErr.As(sh.e, &st)
			lroot, sroot = errors.UnwrapAll(sh.e), pkgErr.Cause(sh.e)
		}); !ok {
			res.fail(c, "C14.typed_nil", fmt.Sprintf("%s: panics: %v", sh.name, pv), "C14:typed-nil:panic")
			continue
		}
		if sis && !lis {
			res.fail(c, "C14.typed_nil", sh.name+": std errors.Is finds the typed-nil cause, Is does not", "C14:typed-nil:is")
		}
		if sas != las {
			res.fail(c, "C14.typed_nil", fmt.Sprintf("%s: As=%v std As=%v for the typed-nil cause", sh.name, las, sas), "C14:typed-nil:as")
		}
		// pkg/errors.Cause follows Cause() methods only: comparable along chains made of causers
		causers := true
		for n := sh.e; n != nil && n != tn; {
			cz, ok := n.(interface{ Cause() error })
			if !ok {
				causers = false
				break
			}
			n = cz.Cause()
		}
		if causers && !safeEq(lroot, sroot) {
			res.fail(c, "C14.typed_nil", fmt.Sprintf("%s: UnwrapAll gives %T, pkg/errors.Cause gives %T", sh.name, lroot, sroot), "C14:typed-nil:cause")
		}
		// one Unwrap step on every node that the standard library can step through
		for n := sh.e; n != nil; {
			if _, ok := n.(interface{ Unwrap() error }); !ok {
				break
			}
			lu, su := errors.Unwrap(n), goErr.Unwrap(n)
			if !safeEq(lu, su) {
				res.fail(c, "C14.typed_nil", fmt.Sprintf("%s: Unwrap of %T gives %T, std gives %T", sh.name, n, lu, su), "C14:typed-nil:unwrap")
				break
			}
			if su == nil || su == tn {
				break
			}
			n = su
		}
	}
}

// legacyMulti: a multi-error of the pre-go1.20 style that also exposes its first element through
// Cause() (as github.com/hashicorp/go-multierror-like types do) besides Unwrap() []error.
type legacyMulti struct{ errs []error }

func (m *legacyMulti) Error() string   { return fmt.Sprintf("%d errors, first: %v", len(m.errs), m.errs[0]) }
func (m *legacyMulti) Cause() error    { return m.errs[0] }
func (m *legacyMulti) Unwrap() []error { return m.errs }

// oracleC14CauserMulti: a type with both Cause() error and Unwrap() []error: whatever the standard
// library finds through any branch, the library finds too.
func oracleC14CauserMulti(res *Result) {
	c := &Case{ID: "causer-multi", Cmd: L(Sym("causer-multi"))}
	target := goErr.New("needle")
	pc := &pickyCode{3}
	mk := func() error {
		return &legacyMulti{[]error{goErr.New("first"), fmt.Errorf("second: %w", target), errors.Wrap(pc, "third")}}
	}
	shapes := []namedErr{
		{"bare", mk()},
		{"Wrap", errors.Wrap(mk(), "w")},
		{"fmt %w", fmt.Errorf("f: %w", mk())},
		{"in Join", errors.Join(goErr.New("x"), mk())},
		{"nested", &legacyMulti{[]error{goErr.New("outer first"), mk()}}},
		{"WithStack(WithHint)", errors.WithStack(errors.WithHint(mk(), "h"))},
	}
	for _, sh := range shapes {
		res.OracleEvals["C14.causer_multi"]++
		var lis, sis, las, sas bool
		var lt, st *pickyCode
		if ok, pv := catch(func() {
			lis, sis = errors.Is(sh.e, target), goErr.Is(sh.e, target)
			las, sas = errors.As(sh.e, &lt), goErr.As(sh.e, &st)
		}); !ok {
			res.fail(c, "C14.causer_multi", fmt.Sprintf("%s: panics: %v", sh.name, pv), "C14:causer-multi:panic")
			continue
		}
		if sis && !lis {
			res.fail(c, "C14.causer_multi", sh.name+": std errors.Is finds the reference in a later branch, Is does not", "C14:causer-multi:is")
		}
		if sas && (!las || lt != st) {
			res.fail(c, "C14.causer_multi", fmt.Sprintf("%s: std errors.As finds %v in a later branch, As gives (%v, %v)", sh.name, st, las, lt), "C14:causer-multi:as")
		}
	}
}
