package main

import "strings"

// SplitMix64: every random choice derives from one state seeded by VERIF_SEED.
type RNG struct{ s uint64 }

func (r *RNG) Next() uint64 {
	r.s += 0x9E3779B97F4A7C15
	z := r.s
	z = (z ^ (z >> 30)) * 0xBF58476D1CE4E5B9
	z = (z ^ (z >> 27)) * 0x94D049BB133111EB
	return z ^ (z >> 31)
}
func (r *RNG) Intn(n int) int { return int(r.Next() % uint64(n)) }
func (r *RNG) Bool() bool     { return r.Next()&1 == 1 }
func (r *RNG) Pick(ss []string) string {
	return ss[r.Intn(len(ss))]
}

// regular text: non-empty valid UTF-8 without marker runes; newlines interior and isolated
var regularWords = []string{
	"a", "b", "foo", "bar", "x: y", "p", "file not found", "100%", `q"uote`, "únï cødé", "two\nlines",
	"a: b: c", "k=v", "%s", "%d items", "tab\there", "x\ny\nz", "colon:", ": lead", "sp ace", "Z",
	"context canceled", "file does not exist", "0", "-", "日本語", "back\\slash", "'single'", "{brace}",
}

var hostileWords = []string{
	"", "\n", "a\n", "\nb", "a\n\nb", "‹", "›", "‹x›", "a‹b", "a›b", "\x00", "a\x00b", "\xff", "a\xe2\x80", "\xe2", "\x80\xb9",
	"‹\n›", "%!s(x)", "%v", ": ", "x\n", "\n\n", "›‹", "‹×›", " ", "\t", "a\xffb\n‹c",
}

var formats = []string{"%s", "f %s", "%s tail", "a %v b", "q=%q", "p: %s", "x\n%s"}

var domainsPool = []string{"error domain: \"d1\"", "error domain: pkg foo/bar", "d2"}
var keysPool = []string{"k1", "some.key", "k2", "telemetry-key"}
var urlsPool = []string{"https://issues/1", "http://x/y?z=1", ""}

type Gen struct {
	rng     *RNG
	nextID  int
	nextTok int
	hostile bool
	// longUnsafe: unsafe inputs are sometimes several KiB long (direct-oracle cases only)
	longUnsafe bool
	// knobs
	allowHops    bool
	allowUnknown bool
	allowErrArgs bool
	maxDepth     int
	// statistics
	opCount map[string]int
}

func NewGen(seed uint64) *Gen {
	// random trees also contain constructors taking error arguments (Newf/Wrapf with %v / %w) and
	// sub-errors that went through a network hop before being wrapped further
	return &Gen{rng: &RNG{s: seed}, nextID: 100, maxDepth: 6, opCount: map[string]int{}, allowErrArgs: true, allowHops: true}
}

func (g *Gen) id() int {
	g.nextID += 10
	return g.nextID
}

func (g *Gen) word() string {
	if g.hostile && g.rng.Intn(3) == 0 {
		return g.rng.Pick(hostileWords)
	}
	return g.rng.Pick(regularWords)
}

func (g *Gen) node(op string, in []string, nin []int, kids ...*R) *R {
	g.opCount[op]++
	return &R{Op: op, ID: g.id(), In: in, NIn: nin, K: kids}
}

func (g *Gen) maybeArg(r *R) *R {
	switch r.Op {
	case "new", "wrap", "withmessage", "hint", "detail":
		if g.rng.Intn(8) == 0 {
			// the format-style constructor without arguments: the string is a format all the same
			r.F = true
			return r
		}
	}
	if g.rng.Intn(3) == 0 {
		a := g.word()
		r.Arg = &a
		r.In[0] = g.rng.Pick(formats)
	}
	return r
}

var leafOps = []string{"new", "new", "new", "goerr", "goerr", "sentinel", "deadline", "errno", "pkgnew", "unimpl",
	"testerr", "uleaf", "assertionfailedf", "grpcstatus", "gogostatus"}

var wrapOps = []string{"wrap", "wrap", "wrap", "withmessage", "withstack", "hint", "detail", "issuelink", "telemetry",
	"domain", "tags", "assertion", "safedetails", "http", "grpc", "pkgwithmessage", "pkgwithstack", "patherr",
	"linkerr", "syscallerr", "fmterrorf", "uwrap", "mark", "secondary", "combine", "handled", "handled", "handledindomain",
	"handleasassertion", "newassertionwrapped"}

var multiOps = []string{"join", "joinraw", "stdjoin", "fmterrorfs", "umulti"}

var errnos = []int{1, 2, 13, 17, 4, 11, 110, 32}

func (g *Gen) Leaf() *R { return g.LeafOp(g.rng.Pick(leafOps)) }

func (g *Gen) LeafOp(op string) *R {
	switch op {
	case "new", "assertionfailedf":
		return g.maybeArg(g.node(op, []string{g.word()}, nil))
	case "goerr", "pkgnew":
		return g.node(op, []string{g.word()}, nil)
	case "sentinel":
		return g.node(op, nil, []int{1 + g.rng.Intn(7)})
	case "deadline", "testerr":
		return g.node(op, nil, nil)
	case "errno":
		return g.node(op, nil, []int{errnos[g.rng.Intn(len(errnos))]})
	case "grpcstatus", "gogostatus":
		return g.node(op, []string{g.word()}, []int{1 + g.rng.Intn(16)})
	case "unimpl":
		return g.node(op, []string{g.word(), g.rng.Pick(urlsPool), g.word()}, nil)
	case "uleaf":
		switch g.rng.Intn(3) {
		case 0:
			return g.node(op, []string{g.word()}, []int{0})
		case 1:
			return g.node(op, []string{g.word()}, []int{2})
		}
		return g.node(op, []string{g.word(), "safe1", "safe two"}, []int{1})
	}
	panic("leaf op " + op)
}

func (g *Gen) WrapOp(op string, kid *R, depth int) *R {
	switch op {
	case "wrap":
		r := g.node(op, []string{g.word()}, nil, kid)
		if !g.hostile && g.rng.Intn(12) == 0 {
			r.In[0] = ""
		}
		return g.maybeArg(r)
	case "withmessage":
		r := g.node(op, []string{g.word()}, nil, kid)
		if !g.hostile && g.rng.Intn(10) == 0 {
			r.In[0] = "" // WithMessage(err, ""): a prefix wrapper with an empty prefix is still a layer
			return r
		}
		return g.maybeArg(r)
	case "hint", "detail":
		return g.maybeArg(g.node(op, []string{g.word()}, nil, kid))
	case "withstack", "assertion", "pkgwithstack":
		return g.node(op, nil, nil, kid)
	case "issuelink":
		if g.hostile && g.rng.Bool() {
			return g.node(op, []string{g.word(), g.word()}, nil, kid)
		}
		return g.node(op, []string{g.rng.Pick(urlsPool), g.word()}, nil, kid)
	case "telemetry":
		n := g.rng.Intn(3)
		var ks []string
		for i := 0; i < n; i++ {
			if g.hostile && g.rng.Bool() {
				ks = append(ks, g.word())
			} else {
				ks = append(ks, g.rng.Pick(keysPool))
			}
		}
		return g.node(op, ks, nil, kid)
	case "domain":
		if g.hostile && g.rng.Bool() {
			return g.node(op, []string{g.word()}, nil, kid)
		}
		return g.node(op, []string{g.rng.Pick(domainsPool)}, nil, kid)
	case "tags":
		n := g.rng.Intn(3)
		var kv []string
		keys := []string{"k", "tag", "n", "user"}
		off := g.rng.Intn(4)
		var kinds []int
		for i := 0; i < n; i++ { // distinct keys: logtags overwrites an earlier tag with the same key
			key := keys[(off+i)%4]
			if g.hostile && g.rng.Bool() {
				// a hostile key (markers, newlines, invalid UTF-8), kept distinct by its position
				key = g.rng.Pick(hostileWords) + []string{"", "1", "22"}[i]
			}
			kv = append(kv, key, g.word())
			kinds = append(kinds, []int{0, 0, 1, 2}[g.rng.Intn(4)])
		}
		return g.node(op, kv, kinds, kid)
	case "safedetails":
		r := g.node(op, []string{g.rng.Pick([]string{"safe %s", "detail", "", "x=%v"})}, nil, kid)
		if r.In[0] == "safe %s" || r.In[0] == "x=%v" {
			a := g.word()
			r.Arg = &a
		}
		return r
	case "http":
		return g.node(op, nil, []int{[]int{200, 404, 500, 0}[g.rng.Intn(4)]}, kid)
	case "grpc":
		// codes.OK (0) included: its payload message is all defaults and marshals to zero bytes
		return g.node(op, nil, []int{g.rng.Intn(17)}, kid)
	case "pkgwithmessage", "syscallerr":
		return g.node(op, []string{g.word()}, nil, kid)
	case "patherr":
		return g.node(op, []string{g.rng.Pick([]string{"open", "stat", "read"}), g.word()}, nil, kid)
	case "linkerr":
		return g.node(op, []string{"link", g.word(), g.word()}, nil, kid)
	case "fmterrorf":
		return g.node(op, []string{g.word()}, []int{g.rng.Intn(3)}, kid)
	case "uwrap":
		st := g.rng.Intn(3)
		if st == 2 {
			return g.node(op, []string{"", "wsafe"}, []int{2}, kid)
		}
		return g.node(op, []string{g.word()}, []int{st}, kid)
	case "mark":
		return g.node(op, nil, nil, kid, g.Tree(depth-1))
	case "secondary", "combine":
		return g.node(op, nil, nil, kid, g.Tree(depth-1))
	case "handled":
		m := g.rng.Intn(3)
		r := g.node(op, []string{g.word()}, []int{m}, kid)
		if m == 2 {
			r.In[0] = g.rng.Pick(formats)
			a := g.word()
			r.Arg = &a
		}
		return r
	case "handledindomain":
		// In[0] = domain (the same small pool as WithDomain, so that the hidden error is often
		// already in the requested domain; NoDomain included), NIn[0]: 0 = HandledInDomain,
		// 1 = HandledInDomainWithMessage(In[1])
		dom := g.rng.Pick(append([]string{"error domain: <none>"}, domainsPool...))
		if g.rng.Bool() {
			return g.node(op, []string{dom, g.word()}, []int{1}, kid)
		}
		return g.node(op, []string{dom}, []int{0}, kid)
	case "handleasassertion":
		return g.node(op, nil, nil, kid)
	case "newassertionwrapped":
		return g.maybeArg(g.node(op, []string{g.word()}, nil, kid))
	case "hop":
		return g.node(op, nil, nil, kid)
	}
	panic("wrap op " + op)
}

func (g *Gen) MultiOp(op string, kids []*R) *R {
	switch op {
	case "join", "joinraw", "stdjoin":
		return g.node(op, nil, nil, kids...)
	case "fmterrorfs":
		if len(kids) < 2 { // fmt.Errorf with a single %w builds a *fmt.wrapError, not a multi-cause error
			kids = append(kids, g.Leaf())
		}
		return g.node(op, []string{g.word()}, nil, kids...)
	case "umulti":
		return g.node(op, []string{g.word()}, nil, kids...)
	}
	panic("multi op " + op)
}

// Tree generates a random recipe of at most the given depth.
func (g *Gen) Tree(depth int) *R {
	if depth <= 1 || g.rng.Intn(5) == 0 {
		return g.Leaf()
	}
	c := g.rng.Intn(20)
	switch {
	case c < 2:
		n := 2 + g.rng.Intn(2)
		kids := make([]*R, n)
		for i := range kids {
			kids[i] = g.Tree(depth - 1 - g.rng.Intn(2))
		}
		return g.MultiOp(g.rng.Pick(multiOps), kids)
	case c == 2 && g.allowHops:
		r := g.WrapOp("hop", g.Tree(depth-1), depth)
		if g.allowUnknown && g.rng.Bool() {
			r.In = g.pickUnknown()
		}
		return r
	case c == 3 && g.allowErrArgs:
		return g.errArgOp(depth)
	default:
		return g.WrapOp(g.rng.Pick(wrapOps), g.Tree(depth-1), depth)
	}
}

func (g *Gen) errArgOp(depth int) *R {
	// the word must not contain a '%': it is part of a format whose verbs are matched with the
	// error arguments by position
	w := g.word()
	for strings.Contains(w, "%") {
		w = g.rng.Pick(regularWords)
	}
	switch g.rng.Intn(5) {
	case 0:
		return g.node("newfe", []string{w + " %v"}, nil, g.Tree(depth-1))
	case 1:
		return g.node("newfw", []string{w + ": %w"}, nil, g.Tree(depth-1))
	case 2:
		// a %w error and a further error argument: both are kept (as secondary errors)
		return g.node("newfw", []string{w + ": %w (also %v)"}, nil, g.Tree(depth-1), g.Tree(depth-2))
	case 3:
		return g.node("newfe", []string{w + " %v and %v"}, nil, g.Tree(depth-1), g.Tree(depth-2))
	default:
		return g.node("wrapfe", []string{w + " %v"}, nil, g.Tree(depth-1), g.Tree(depth-2))
	}
}

// family keys a receiving process may lack (every registered family of the library)
var allFamilies []string

func (g *Gen) pickUnknown() []string {
	if len(allFamilies) == 0 {
		return nil
	}
	n := 1 + g.rng.Intn(4)
	if g.rng.Intn(4) == 0 {
		return append([]string{}, allFamilies...)
	}
	var out []string
	for i := 0; i < n; i++ {
		out = append(out, allFamilies[g.rng.Intn(len(allFamilies))])
	}
	return out
}

// Clone copies a recipe with fresh identities.
func (g *Gen) Clone(r *R) *R {
	if r == nil {
		return nil
	}
	c := &R{Op: r.Op, ID: g.id(), In: append([]string{}, r.In...), NIn: append([]int{}, r.NIn...)}
	if r.Op == "sentinel" {
		c.ID = r.ID
	}
	c.F = r.F
	if r.Arg != nil {
		a := *r.Arg
		c.Arg = &a
	}
	for _, k := range r.K {
		c.K = append(c.K, g.Clone(k))
	}
	return c
}

// nodesOf lists recipe nodes in pre-order.
func nodesOf(r *R, acc []*R) []*R {
	if r == nil {
		return acc
	}
	acc = append(acc, r)
	for _, k := range r.K {
		acc = nodesOf(k, acc)
	}
	return acc
}

// Perturb returns a fresh copy differing in one message, one type or one domain,
// or with one extra / missing layer.
func (g *Gen) Perturb(r *R) *R {
	c := g.Clone(r)
	ns := nodesOf(c, nil)
	for try := 0; try < 8; try++ {
		n := ns[g.rng.Intn(len(ns))]
		switch g.rng.Intn(5) {
		case 4: // a sometimes-leaf type: drop or add everything below a full-message foreign wrapper
			if n.Op == "uwrap" && len(n.NIn) > 0 && n.NIn[0] == 1 {
				n.Op, n.NIn, n.K = "uleaf", []int{2}, nil
				return c
			}
			if n.Op == "uleaf" && len(n.NIn) > 0 && n.NIn[0] == 2 {
				n.Op, n.NIn, n.K = "uwrap", []int{1}, []*R{g.LeafOp("goerr")}
				return c
			}
		case 0: // one message
			if len(n.In) > 0 && n.Op != "telemetry" && n.Op != "tags" {
				n.In[0] = n.In[0] + "'"
				return c
			}
		case 1: // one domain
			if n.Op == "domain" {
				n.In[0] = n.In[0] + "2"
				return c
			}
		case 2: // extra layer on top
			return g.node("hint", []string{"extra"}, nil, c)
		case 3: // one type: swap an annotation kind
			if n.Op == "hint" {
				n.Op = "detail"
				return c
			}
			if n.Op == "goerr" {
				n.Op = "uleaf"
				n.NIn = []int{0}
				return c
			}
		}
	}
	// missing outer layer
	if len(c.K) == 1 && c.K[0] != nil && c.K[0].Op != "nil" {
		return c.K[0]
	}
	return c
}
