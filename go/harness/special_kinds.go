package main

import (
	goErr "errors"
	"fmt"
	"net"
	"strings"

	"github.com/cockroachdb/errors"
)

// Error kinds that errutil's special-case formatter knows and the model does not have as kinds:
// runtime.Error, *net.OpError, redact.SafeMessager.  They are built directly (no recipe), carry
// taint tokens in the positions the formatter treats as safe / unsafe, are placed in a few
// contexts, and are judged by the direct oracles only (C03, C06, C09, C12).

type strAddr struct{ net, s string }

func (a strAddr) Network() string { return a.net }
func (a strAddr) String() string  { return a.s }

// safeMsgErr implements redact.SafeMessager: its SafeMessage() is declared safe, its Error() is not.
type safeMsgErr struct {
	safe, msg string
	cause     error
}

func (e *safeMsgErr) Error() string       { return e.msg }
func (e *safeMsgErr) SafeMessage() string { return e.safe }
func (e *safeMsgErr) Unwrap() error       { return e.cause }

// emptyStackCases: layers whose stack capture found no frame at all (a depth beyond the top of the
// goroutine): they have no stack trace to report.
func emptyStackCases() []*Case {
	mk := []func() error{
		func() error { return errors.NewWithDepth(1000, "no frames") },
		func() error { return errors.WithStackDepth(fmt.Errorf("plain"), 1000) },
		func() error { return errors.WithHint(errors.WrapWithDepth(1000, fmt.Errorf("plain"), "ctx"), "h") },
		func() error { return errors.Wrap(errors.WithStackDepth(fmt.Errorf("plain"), 1000), "outer with a real stack") },
		func() error { return errors.Handled(errors.NewWithDepth(1000, "hidden without frames")) },
	}
	var cases []*Case
	for i, f := range mk {
		var e error
		if ok, _ := catch(func() { e = f() }); !ok || e == nil {
			continue
		}
		c := &Case{ID: fmt.Sprintf("nostack%d", i), Err: e, NoModel: true, Rec: &R{Op: "special:emptystack"}}
		c.Cmd = L(Sym("special"), Str("emptystack"), Nat(i))
		c.Real = L(Sym("res"), L(Sym("special")))
		cases = append(cases, c)
	}
	return cases
}

func runtimeError(kind int) (err error) {
	defer func() {
		if r := recover(); r != nil {
			err, _ = r.(error)
		}
	}()
	switch kind % 3 {
	case 0:
		var a []int
		_ = a[kind+3]
	case 1:
		var m map[string]int
		m["x"] = 1
	default:
		z := kind - kind
		_ = 1 / z
	}
	return nil
}

// withSafeMessager: a SafeMessager's SafeMessage() replaces its Error() text in every rendering, by
// design (redact itself prints such values through that method): the formatting properties (C06, C09)
// do not apply to it, the PII properties (C03, C12) do.
func specialKindCases(g *Gen, hostile, withSafeMessager bool) []*Case {
	var cases []*Case
	n := 0
	tok := func(class byte, op string, toks *[]Token) string {
		g.nextTok++
		t := fmt.Sprintf("T%dq", g.nextTok)
		*toks = append(*toks, Token{Tok: t, Class: class, Op: op, LocalOnly: class == 'S'})
		return t
	}
	word := func() string {
		if hostile {
			return g.rng.Pick(hostileWords)
		}
		w := g.rng.Pick(regularWords)
		for len(w) == 0 {
			w = g.rng.Pick(regularWords)
		}
		return w
	}
	contexts := []struct {
		name string
		f    func(error) error
	}{
		{"bare", func(e error) error { return e }},
		{"wrap", func(e error) error { return errors.Wrap(e, "ctx") }},
		{"withstack+hint", func(e error) error { return errors.WithHint(errors.WithStack(e), "h") }},
		{"handled", func(e error) error { return errors.Handled(e) }},
		{"join", func(e error) error { return errors.Join(errors.New("first"), e) }},
		{"fmt %w", func(e error) error { return fmt.Errorf("outer: %w", e) }},
		{"secondary", func(e error) error { return errors.WithSecondaryError(errors.New("primary"), e) }},
	}
	add := func(kind string, mk func(toks *[]Token, strs *[]string) error) {
		for _, cx := range contexts {
			var toks []Token
			var strs []string
			inner := mk(&toks, &strs)
			if inner == nil {
				continue
			}
			var e error
			if ok, _ := catch(func() { e = cx.f(inner) }); !ok || e == nil {
				continue
			}
			c := &Case{ID: fmt.Sprintf("special%d", n), Err: e, Toks: toks, NoModel: true,
				Rec: &R{Op: "special:" + kind + ":" + cx.name, In: strs}}
			c.Cmd = L(Sym("special"), Str(kind), Str(cx.name), Nat(n))
			c.Real = L(Sym("res"), L(Sym("special")))
			n++
			cases = append(cases, c)
		}
	}
	for i := 0; i < 3; i++ {
		k := i
		add("runtime.Error", func(toks *[]Token, strs *[]string) error { return runtimeError(k) })
	}
	add("net.OpError(src,dst)", func(toks *[]Token, strs *[]string) error {
		// both addresses: "op net src->dst: err"
		src := word() + tok('U', "net.OpError.Source", toks)
		dst := word() + tok('U', "net.OpError.Addr", toks)
		*strs = append(*strs, src, dst)
		return &net.OpError{Op: "dial" + tok('S', "net.OpError.Op", toks), Net: "tcp", Source: strAddr{"tcp", src}, Addr: strAddr{"tcp", dst}, Err: errors.New("refused")}
	})
	for i := 0; i < 4; i++ {
		variant := i
		add("net.OpError", func(toks *[]Token, strs *[]string) error {
			op := "dial" + tok('S', "net.OpError.Op", toks)
			netw := "tcp" + tok('S', "net.OpError.Net", toks)
			src := word() + tok('U', "net.OpError.Source", toks)
			dst := word() + tok('U', "net.OpError.Addr", toks)
			*strs = append(*strs, src, dst)
			o := &net.OpError{Op: op, Net: netw, Err: errors.New("refused")}
			if variant&1 != 0 {
				o.Source = strAddr{"tcp", src}
			}
			if variant&2 != 0 || variant == 0 {
				o.Addr = strAddr{"tcp", dst}
			}
			if variant == 3 {
				o.Net = ""
				*toks = (*toks)[:0]
				op = "read" + tok('S', "net.OpError.Op", toks)
				o.Op = op
				src = word() + tok('U', "net.OpError.Source", toks)
				o.Source, o.Addr = strAddr{"tcp", src}, nil
				*strs = []string{src}
			}
			return o
		})
	}
	for i := 0; i < 3 && withSafeMessager; i++ {
		withCause := i == 2
		add("SafeMessager", func(toks *[]Token, strs *[]string) error {
			safe := "safe message " + tok('S', "SafeMessager.SafeMessage", toks)
			msg := word() + tok('U', "SafeMessager.Error", toks)
			*strs = append(*strs, msg)
			e := &safeMsgErr{safe: safe, msg: msg}
			if withCause {
				inner := word() + tok('U', "SafeMessager.cause", toks)
				*strs = append(*strs, inner)
				e.cause = fmt.Errorf("%s", inner)
				e.msg = msg + ": " + inner
			}
			return e
		})
	}
	return cases
}

var emptyRef = goErr.New("")
var emptyRef2 = errors.New("")

// emptyTextCases: layers whose own text, or whose cause's text, is empty (a leaf New(""), a foreign
// wrapper that replaces a non-empty cause's message by ""): outside the "regular text" the
// transport model is about, so judged by the direct oracles only (C02: identity, C04: unknowing
// processes).
func emptyTextCases(prop string, g *Gen) []*Case {
	type shape struct {
		name string
		mk   func() error
		near func() error // a near-equal error that must not start matching
	}
	shapes := []shape{
		{"silent-wrapper", func() error { return &UWrapC{"", errors.New("boom")} }, func() error { return &UWrapC{"boom", errors.New("boom")} }},
		{"wrap(silent-wrapper)", func() error { return errors.Wrap(&UWrapC{"", errors.New("boom")}, "ctx") },
			func() error { return errors.Wrap(&UWrapC{"boom", errors.New("boom")}, "ctx") }},
		{"withmessage(empty leaf)", func() error { return errors.WithMessage(errors.New(""), "only") }, func() error { return errors.WithMessage(errors.New("only"), "") }},
		{"wrap(withmessage(empty leaf))", func() error { return errors.Wrap(errors.WithMessage(errors.New(""), "inner"), "outer") },
			func() error { return errors.Wrap(errors.WithMessage(errors.New("inner"), ""), "outer") }},
		// a mark whose reference has an EMPTY message: the forced identity must survive transfer
		{"mark(ref with empty text)", func() error { return errors.Mark(errors.New("boom"), emptyRef) }, func() error { return emptyRef }},
		{"wrap(mark(ref with empty text))", func() error { return errors.Wrap(errors.Mark(goErr.New("boom"), emptyRef2), "ctx") }, func() error { return emptyRef2 }},
		// (not included: a foreign "prefix: cause" wrapper over an empty-text cause, and a Join with an
		// empty branch: there the text at an unknowing process differs on the unchanged tree, an
		// observation outside the properties' "regular text = non-empty"; see DESIGN 14.3)
	}
	if prop == "C04" {
		defer registerUMultiPay()()
		// a multi-cause type with a payload (the payload's message is unknown wherever the type is)
		shapes = append(shapes,
			shape{"umultipay(new a, wrap(goerr b))", func() error {
				return &UMultiPay{"two failed", []error{errors.New("a"), errors.Wrap(goErr.New("b"), "w")}}
			}, nil},
			shape{"wrap(umultipay(single))", func() error {
				return errors.Wrap(&UMultiPay{"one failed", []error{errors.WithHint(errors.New("a"), "h")}}, "ctx")
			}, nil})
		// library types whose encoder sends the text for processes that do not know them, over
		// branch / cause texts that are empty or begin or end with a newline
		for _, t := range []string{"", "\nx", "x\n", "a\n\nb", "out:\n"} {
			t := t
			q := fmt.Sprintf("%q", t)
			shapes = append(shapes,
				shape{"join(new " + q + ", new b)", func() error { return errors.Join(errors.New(t), errors.New("b")) }, nil},
				shape{"join(goerr " + q + ", goerr b, goerr c)", func() error { return errors.Join(goErr.New(t), goErr.New("b"), goErr.New("c")) }, nil},
				shape{"wrap(join(goerr " + q + ", new b))", func() error { return errors.Wrap(errors.Join(goErr.New(t), errors.New("b")), "ctx") }, nil},
			)
			if t != "" && t[0] != '\n' {
				shapes = append(shapes,
					shape{"join(new a, wrap(new " + q + "))", func() error { return errors.Join(errors.New("a"), errors.Wrap(errors.New(t), "w")) }, nil},
					shape{"newf %w(new " + q + ")", func() error { return errors.Newf("x: %w", errors.New(t)) }, nil},
				)
			}
		}
	}
	var cases []*Case
	n := 0
	for _, sh := range shapes {
		var e error
		if ok, _ := catch(func() { e = sh.mk() }); !ok || e == nil {
			continue
		}
		rec := &R{Op: "special:emptytext:" + sh.name}
		switch prop {
		case "C04":
			fams := familiesOf(e)
			for _, u := range subsets(fams, g.rng, len(fams) <= 6, 8) {
				if strings.Contains(sh.name, `new ""`) || strings.Contains(sh.name, `goerr ""`) || strings.Contains(sh.name, `"\nx"`) {
					// an empty or newline-led branch that is itself carried opaquely renders differently
					// inside a join the intermediary knows (the observation of DESIGN 14.3, outside
					// regular text): only the subsets that leave the leaf types known
					leafUnknown := false
					for _, k := range u {
						if strings.HasSuffix(k, "errorString") || strings.HasSuffix(k, "leafError") {
							leafUnknown = true
						}
					}
					if leafUnknown {
						continue
					}
				}
				c := &Case{ID: fmt.Sprintf("emptytext%d", n), Err: e, NoModel: true, Rec: rec, Tags: u}
				c.Cmd = L(Sym("special"), Str("emptytext"), Str(sh.name), Strs(u))
				c.Real = obsCase4(e, u)
				n++
				cases = append(cases, c)
			}
		default:
			var refs []error
			refs = append(refs, nodesOfErr(e, nil)...)
			if ok, _ := catch(func() { refs = append(refs, sh.mk(), sh.near()) }); !ok {
				continue
			}
			c := &Case{ID: fmt.Sprintf("emptytext%d", n), Err: e, Refs: refs, RefRecs: make([]*R, len(refs)), NoModel: true, Rec: rec}
			c.Cmd = L(Sym("special"), Str("emptytext"), Str(sh.name))
			c.Real = L(Sym("res"), L(Sym("special")))
			n++
			cases = append(cases, c)
		}
	}
	return cases
}

// deepStackCases: the same ten-deep helper chain reached through two different callers, so that
// two errors have stacks of equal depth whose innermost frames coincide and whose outer frames
// differ (anything keyed on a prefix of the stack confuses them).  Judged by the C15 oracles.
func deepStackCases() []*Case {
	var cases []*Case
	for i, mk := range []func() error{deepViaAlpha, deepViaBeta, deepViaAlpha, deepViaBeta} {
		e := mk()
		if i >= 2 {
			e = errors.Join(errors.WithStack(e), mk())
		}
		c := &Case{ID: fmt.Sprintf("deepstack%d", i), Err: e, NoModel: true, Rec: &R{Op: "special:deepstack"}}
		c.Cmd = L(Sym("special"), Str("deepstack"), Nat(i))
		c.Real = L(Sym("res"), L(Sym("special")))
		cases = append(cases, c)
	}
	return cases
}

//go:noinline
func deepViaAlpha() error { return deepChain(9) }

//go:noinline
func deepViaBeta() error { return deepChain(9) }

//go:noinline
func deepChain(n int) error {
	if n == 0 {
		return errors.New("deep")
	}
	return deepChain(n - 1)
}

// sharedWrapperCases: the same WRAPPER object (not just a shared leaf) reachable through several
// branches of a multi-cause node.  The recipe language builds a fresh object per node, so these are
// built directly and judged by the direct oracles only (shape and text after hops, identity).
func sharedWrapperCases() []*Case {
	w := errors.Wrap(goErr.New("shared leaf"), "shared wrapper")
	f := fmt.Errorf("fmt shared: %w", goErr.New("inner"))
	j := errors.Join(errors.New("j1"), errors.New("j2"))
	shapes := []namedErr{
		{"join(w, w)", errors.Join(w, w)},
		{"join(hint(w), w)", errors.Join(errors.WithHint(w, "h"), w)},
		{"join(wrap(w), wrap(w))", errors.Join(errors.Wrap(w, "n1"), errors.Wrap(w, "n2"))},
		{"stdjoin(f, wrap(f))", goErr.Join(f, errors.Wrap(f, "again"))},
		{"wrap(join(j, withstack(j)))", errors.Wrap(errors.Join(j, errors.WithStack(j)), "top")},
		{"fmt %w %w (w, w)", fmt.Errorf("two: %w and %w", w, w)},
	}
	var cases []*Case
	for i, sh := range shapes {
		refs := append(nodesOfErr(sh.e, nil), goErr.New("shared leaf"), errors.New("j2"))
		c := &Case{ID: fmt.Sprintf("sharedwrap%d", i), Err: sh.e, Refs: refs, RefRecs: make([]*R, len(refs)), NoModel: true,
			Rec: &R{Op: "special:sharedwrapper:" + sh.name}}
		c.Cmd = L(Sym("special"), Str("sharedwrapper"), Str(sh.name))
		// the real observations (trees, encodings, Is vectors before and after hops) for the direct
		// oracles; the model is not asked
		c.Real = obsCase(sh.e, refs)
		cases = append(cases, c)
	}
	return cases
}
