package main

import (
	goErr "errors"
	"fmt"

	"github.com/cockroachdb/errors"
)

// Non-comparable error values (C08: "total — never panics — including non-comparable error
// values").  Model-free leg: a value type with a slice field, as a leaf and as a wrapper, placed at
// every depth of a set of contexts; Is / IsAny against equal-looking and different references of
// the same and of other types.  Expected: no panic; equal-looking (same type, same text) matches
// by mark; monotone under wrapping; IsAny agrees with Is.

type ncLeaf struct {
	msg  string
	tags []string
}

func (e ncLeaf) Error() string { return e.msg }

type ncWrap struct {
	msg   string
	cause error
	xs    []int
}

func (e ncWrap) Error() string { return e.msg + ": " + e.cause.Error() }
func (e ncWrap) Unwrap() error { return e.cause }

func oracleC08NonComparable(res *Result) {
	c := &Case{ID: "noncomparable", Cmd: L(Sym("noncomparable"))}
	leaf := func() error { return ncLeaf{"nc-boom", []string{"a"}} }
	ctxs := []struct {
		name string
		f    func(error) error
	}{
		{"id", func(e error) error { return e }},
		{"Wrap", func(e error) error { return errors.Wrap(e, "ctx") }},
		{"WithStack", func(e error) error { return errors.WithStack(e) }},
		{"WithDomain", func(e error) error { return errors.WithDomain(e, errors.Domain("d")) }},
		{"Mark", func(e error) error { return errors.Mark(e, goErr.New("ref")) }},
		{"fmt %w", func(e error) error { return fmt.Errorf("f: %w", e) }},
		{"ncWrap", func(e error) error { return ncWrap{"nw", e, []int{1}} }},
		{"Wrap(ncWrap)", func(e error) error { return errors.Wrap(ncWrap{"nw", e, []int{1}}, "out") }},
		{"deep", func(e error) error {
			return errors.WithHint(errors.WithStack(errors.Wrap(errors.WithDetail(e, "d"), "mid")), "h")
		}},
		{"Join", func(e error) error { return errors.Join(errors.New("other"), e) }},
		{"Wrap(Join)", func(e error) error { return errors.Wrap(errors.Join(e, errors.New("other")), "w") }},
		{"Handled-inside", func(e error) error { return errors.WithSecondaryError(e, errors.New("sec")) }},
	}
	type ref struct {
		name string
		e    error
		want int // 1 = must match wherever the leaf is visible, 0 = must not, -1 = unconstrained
	}
	check := func(what string, e error, r ref, visible bool) {
		var got, gotAny, gotAny2 bool
		res.OracleEvals["C08.noncomparable"]++
		if ok, pv := catch(func() { got = errors.Is(e, r.e) }); !ok {
			res.fail(c, "C08.noncomparable", fmt.Sprintf("Is(%s, %s) panics: %v", what, r.name, pv), "C08:noncomparable:panic")
			return
		}
		if ok, pv := catch(func() {
			gotAny = errors.IsAny(e, r.e)
			gotAny2 = errors.IsAny(e, goErr.New("unrelated"), r.e)
		}); !ok {
			res.fail(c, "C08.noncomparable", fmt.Sprintf("IsAny(%s, %s) panics: %v", what, r.name, pv), "C08:noncomparable:panic")
			return
		}
		if gotAny != got || gotAny2 != got {
			res.fail(c, "C08.noncomparable", fmt.Sprintf("Is(%s, %s)=%v but IsAny=%v / %v", what, r.name, got, gotAny, gotAny2), "C08:noncomparable:isany")
		}
		if visible && r.want == 1 && !got {
			res.fail(c, "C08.noncomparable", fmt.Sprintf("Is(%s, %s)=false: an equal-looking value of the same type below must match", what, r.name), "C08:noncomparable:monotone")
		}
		if r.want == 0 && got {
			res.fail(c, "C08.noncomparable", fmt.Sprintf("Is(%s, %s)=true", what, r.name), "C08:noncomparable:false-positive")
		}
	}
	for _, cx := range ctxs {
		var e error
		if ok, pv := catch(func() { e = cx.f(leaf()) }); !ok || e == nil {
			res.fail(c, "C08.noncomparable", fmt.Sprintf("building %s panics: %v", cx.name, pv), "C08:noncomparable:panic")
			continue
		}
		refs := []ref{
			{"equal ncLeaf", ncLeaf{"nc-boom", []string{"zz"}}, 1},
			{"other ncLeaf", ncLeaf{"nc-other", []string{"a"}}, 0},
			{"ncWrap(other)", ncWrap{"q", goErr.New("x"), nil}, 0},
			{"comparable stranger", goErr.New("nc-boom"), 0},
			{"the error itself", e, -1},
		}
		for _, r := range refs {
			check(cx.name+"(ncLeaf)", e, r, true)
		}
		// a non-comparable reference against errors that contain no such value
		plain := cx.f(errors.New("nc-boom"))
		for _, r := range refs[:3] {
			r.want = 0
			check(cx.name+"(New)", plain, r, false)
		}
		// after a network hop (the value becomes an opaque stand-in; identity is by mark)
		if d, ok2 := hopsReal(e, 1); ok2 && d != nil {
			check("hop("+cx.name+"(ncLeaf))", d, refs[0], true)
			check("hop("+cx.name+"(ncLeaf))", d, refs[1], true)
		}
	}
}
