package main

import (
	"context"
	"fmt"
	"github.com/cockroachdb/errors/errorspb"
	"github.com/gogo/protobuf/proto"

	"github.com/cockroachdb/errors/errbase"
)

// Foreign error types no process has registered.  They stand for "user types";
// the model sees them through the UserTy record (name, %T, message style, safe details).

type ULeafA struct{ msg string }

func (e *ULeafA) Error() string { return e.msg }

type ULeafSafe struct {
	msg  string
	safe []string
}

func (e *ULeafSafe) Error() string         { return e.msg }
func (e *ULeafSafe) SafeDetails() []string { return e.safe }

// UWrapP: "msg: cause" style, exposes its cause through Unwrap only.
type UWrapP struct {
	msg   string
	cause error
}

func (e *UWrapP) Error() string { return e.msg + ": " + e.cause.Error() }
func (e *UWrapP) Unwrap() error { return e.cause }

// UWrapC: full-message style, exposes its cause through Cause only.
type UWrapC struct {
	msg   string
	cause error
}

func (e *UWrapC) Error() string { return e.msg }
func (e *UWrapC) Cause() error  { return e.cause }

// UWrapN: no message of its own, both Cause and Unwrap, with safe details.
type UWrapN struct {
	safe  []string
	cause error
}

func (e *UWrapN) Error() string         { return e.cause.Error() }
func (e *UWrapN) Cause() error          { return e.cause }
func (e *UWrapN) Unwrap() error         { return e.cause }
func (e *UWrapN) SafeDetails() []string { return e.safe }

type UMulti struct {
	msg    string
	causes []error
}

func (e *UMulti) Error() string   { return e.msg }
func (e *UMulti) Unwrap() []error { return e.causes }

func userDesc(e error) (name, tstr string) {
	return string(errbase.GetTypeKey(e)), fmt.Sprintf("%T", e)
}

func mkUserLeaf(r *R) error {
	var e error
	var safe []string
	switch nin(r, 0) {
	case 0:
		e = &ULeafA{in(r, 0)}
	case 2:
		// a wrapper type used as a leaf (its cause is nil): "sometimes a leaf, sometimes a wrapper"
		e = &UWrapC{in(r, 0), nil}
	default:
		safe = r.In[1:]
		e = &ULeafSafe{in(r, 0), safe}
	}
	name, tstr := userDesc(e)
	r.S = append([]string{name, tstr, in(r, 0)}, safe...)
	r.N = []int{0}
	if nin(r, 0) == 2 {
		r.N = []int{1} // the type has a Cause() method (returning nil here)
	}
	return e
}

func mkUserWrap(r *R, cause error) error {
	var e error
	var safe []string
	style := nin(r, 0)
	switch style {
	case 0:
		e = &UWrapP{in(r, 0), cause}
	case 1:
		e = &UWrapC{in(r, 0), cause}
	default:
		safe = r.In[1:]
		e = &UWrapN{safe, cause}
	}
	name, tstr := userDesc(e)
	r.S = append([]string{name, tstr, in(r, 0)}, safe...)
	r.N = []int{style}
	return e
}

func mkUserMulti(r *R, causes []error) error {
	var cs []error
	for _, c := range causes {
		if c != nil {
			cs = append(cs, c)
		}
	}
	e := &UMulti{in(r, 0), cs}
	name, tstr := userDesc(e)
	r.S = []string{name, tstr, in(r, 0)}
	r.N = []int{0}
	return e
}

// UMultiPay: a multi-cause type whose registered encoder attaches a payload (the library's own
// multi-cause type, join, has none): at a process that knows neither the type nor the payload's
// message, the causes must still be carried.
type UMultiPay struct {
	msg    string
	causes []error
}

func (e *UMultiPay) Error() string   { return e.msg }
func (e *UMultiPay) Unwrap() []error { return e.causes }

// registerUMultiPay registers the encoder / decoder pair for the duration of the cases that use the
// type (the live registries are otherwise exactly the library's: C05 enumerates them).
func registerUMultiPay() (cleanup func()) {
	k := errbase.GetTypeKey(&UMultiPay{})
	errbase.RegisterMultiCauseEncoder(k, func(_ context.Context, err error) (string, []string, proto.Message) {
		return err.Error(), []string{"safe detail of UMultiPay"}, &errorspb.StringPayload{Msg: "payload of " + err.Error()}
	})
	errbase.RegisterMultiCauseDecoder(k, func(_ context.Context, causes []error, msg string, _ []string, payload proto.Message) error {
		if sp, ok := payload.(*errorspb.StringPayload); !ok || sp.Msg != "payload of "+msg {
			return nil
		}
		return &UMultiPay{msg, causes}
	})
	return func() {
		errbase.RegisterMultiCauseEncoder(k, nil)
		errbase.RegisterMultiCauseDecoder(k, nil)
	}
}
