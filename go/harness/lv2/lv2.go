package lv2

import "verif/harness/lv1"

//go:noinline
func Call(f func() interface{}) interface{} {
	r := lv1.Call(f)
	return r
}
