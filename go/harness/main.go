package main

import (
	"bufio"
	"context"
	"encoding/json"
	"flag"
	"fmt"
	"io"
	"os"
	"os/exec"
	"sort"
	"strings"
	"time"

	"github.com/cockroachdb/errors"
	"github.com/cockroachdb/errors/errbase"
)

// Case is one correspondence case: a recipe, its references and the real observations.
type Case struct {
	ID   string
	Cmd  SX // what is sent to the driver
	Real SX // observations of the real code
	Rec  *R
	Tags []string // generator tags for the distribution report
	// real objects, for the direct oracles
	Err     error
	Refs    []error
	RefRecs []*R // nil for (node j) references
	Toks    []Token
	// NoModel: the case is judged by the direct oracles only (not sent to the model driver)
	NoModel bool
}

type Mismatch struct {
	Case   string `json:"case"`
	Stream string `json:"stream"`
	Input  string `json:"input"`
	Model  string `json:"model"`
	Impl   string `json:"impl"`
	Sig    string `json:"signature"`
	Recipe *R     `json:"recipe,omitempty"`
}

type Failure struct {
	Case   string `json:"case"`
	Oracle string `json:"oracle"`
	Input  string `json:"input"`
	Detail string `json:"detail"`
	Sig    string `json:"signature"`
	Recipe *R     `json:"recipe,omitempty"`
}

type Result struct {
	Property    string         `json:"property"`
	Tier        string         `json:"tier"`
	Seed        uint64         `json:"seed"`
	Cases       int            `json:"cases"`
	Distinct    int            `json:"distinct_nontrivial"`
	Compared    map[string]int `json:"stream_comparisons"`
	OpCounts    map[string]int `json:"op_counts"`
	DepthHist   map[string]int `json:"depth_histogram"`
	KindPairs   int            `json:"kind_pairs_hit"`
	Mismatches  []Mismatch     `json:"mismatches"`
	NMismatch   int            `json:"n_mismatches"`
	MisByStream map[string]int `json:"mismatches_by_stream"`
	Failures    []Failure      `json:"oracle_failures"`
	NFailures   int            `json:"n_oracle_failures"`
	OracleEvals map[string]int `json:"oracle_evaluations"`
	Samples     []string       `json:"samples"`
	FailSigs    map[string]int `json:"failure_signatures"`
	Rule        string         `json:"rule"`
	Extra       map[string]interface{} `json:"extra,omitempty"`
	WallS       float64        `json:"wall_s"`
	Notes       []string       `json:"notes"`
}

func nodesOfErr(e error, acc []error) []error {
	if e == nil {
		return acc
	}
	acc = append(acc, e)
	if c := errbase.UnwrapOnce(e); c != nil {
		return nodesOfErr(c, acc)
	}
	for _, c := range errbase.UnwrapMulti(e) {
		acc = nodesOfErr(c, acc)
	}
	return acc
}

// runDriver pipes the command lines to the Lean driver and returns id -> output.
func runDriver(driver string, cases []*Case) (map[string]SX, error) {
	cmd := exec.Command(driver)
	stdin, err := cmd.StdinPipe()
	if err != nil {
		return nil, err
	}
	stdout, err := cmd.StdoutPipe()
	if err != nil {
		return nil, err
	}
	cmd.Stderr = os.Stderr
	if err := cmd.Start(); err != nil {
		return nil, err
	}
	go func() {
		w := bufio.NewWriterSize(stdin, 1<<20)
		for _, c := range cases {
			fmt.Fprintf(w, "%s %s\n", c.ID, c.Cmd.Spaced())
		}
		w.Flush()
		stdin.Close()
	}()
	out := map[string]SX{}
	rd := bufio.NewReaderSize(stdout, 1<<20)
	for {
		line, err := rd.ReadString('\n')
		line = strings.TrimRight(line, "\n")
		if line != "" {
			sp := strings.IndexByte(line, ' ')
			if sp > 0 {
				if x, ok := ParseSX(line[sp+1:]); ok {
					out[line[:sp]] = x
				} else {
					out[line[:sp]] = L(Sym("unparsable"), Str(line[sp+1:]))
				}
			}
		}
		if err == io.EOF {
			break
		}
		if err != nil {
			return nil, err
		}
	}
	if err := cmd.Wait(); err != nil {
		return out, fmt.Errorf("driver: %v", err)
	}
	return out, nil
}

// compare diffs model and implementation observations stream by stream.
func compare(res *Result, c *Case, model SX) {
	if model.Kind != 'l' || len(model.L) == 0 || model.L[0].Sym != "res" {
		res.mismatch(c, "driver", model.String(), c.Real.String())
		return
	}
	seen := map[string]bool{}
	for _, f := range c.Real.L[1:] {
		name := "?"
		if f.Kind == 'l' && len(f.L) > 0 {
			name = f.L[0].Sym
		}
		seen[name] = true
		if strings.HasPrefix(name, "real-") {
			continue // an observation of the real code for a direct oracle; the model does not print it
		}
		if strings.HasSuffix(name, "-skipped") {
			res.Compared[name]++
			continue
		}
		mf, ok := model.Field(name)
		if ok && len(mf.L) == 2 && strings.HasSuffix(name, "acc") || (name == "acc0" || name == "acc1" || name == "acc2") {
			mf = L(mf.L[0], canonAcc(mf.L[1]))
		}
		res.Compared[name]++
		if (name == "verbs0" || name == "verbs1") && ok && len(mf.L) == 2 && len(f.L) == 2 {
			mf = L(mf.L[0], resolveVerbs(mf.L[1], f.L[1]))
		}
		if name == "uacc" && ok {
			// Is against local sentinels is not meaningful under the renaming simulation of an
			// unknowing process (the local mark carries the unmangled family name)
			mf, f = dropAccField(mf, "os"), dropAccField(f, "os")
		}
		if !ok || mf.String() != f.String() {
			ms := "<absent>"
			if ok {
				ms = mf.String()
			}
			res.mismatch(c, name, ms, f.String())
		}
	}
	// streams the model prints and this property does not observe are ignored
}

// resolveVerbs turns the model's symbolic verb outcomes into strings, using the standard
// library for what the model treats as a parameter: (fmt s) = fmt.Sprintf(directive, s);
// (gosyntax) is accepted as whatever the real code printed.  The redactable outcome is
// printed by redact as an argument: a refusal arrives enclosed in markers.
func resolveVerbs(model, real SX) SX {
	if model.Kind != 'l' || real.Kind != 'l' || len(model.L) != len(real.L) {
		return model
	}
	out := make([]SX, len(model.L))
	for i, m := range model.L {
		r := real.L[i]
		if m.Kind != 'l' || len(m.L) != 3 || r.Kind != 'l' || len(r.L) != 3 {
			out[i] = m
			continue
		}
		directive := m.L[0].Str
		res := func(v SX, realStr string, redactable bool) SX {
			if v.Kind != 'l' || len(v.L) == 0 {
				return v
			}
			switch v.L[0].Sym {
			case "direct":
				return Str(v.L[1].Str)
			case "fmt":
				return Str(fmt.Sprintf(directive, v.L[1].Str))
			case "gosyntax":
				return Str(realStr)
			case "bad":
				if redactable {
					return Str("‹" + v.L[1].Str + "›")
				}
				return Str(v.L[1].Str)
			}
			return v
		}
		out[i] = L(m.L[0], res(m.L[1], r.L[1].Str, false), res(m.L[2], r.L[2].Str, true))
	}
	return L(out...)
}

func (res *Result) mismatch(c *Case, stream, model, impl string) {
	res.NMismatch++
	if res.MisByStream == nil {
		res.MisByStream = map[string]int{}
	}
	res.MisByStream[stream]++
	if res.MisByStream[stream] <= 6 && len(res.Mismatches) < 90 {
		res.Mismatches = append(res.Mismatches, Mismatch{c.ID, stream, c.Cmd.String(), model, impl, "tie:" + stream, c.Rec})
	}
}

func (res *Result) fail(c *Case, oracle, detail, sig string) {
	if c != nil && c.Rec != nil && strings.HasPrefix(c.Rec.Op, "special:net.OpError(src,dst)") && strings.HasPrefix(sig, "C09:") {
		// the input of known finding D16 (a *net.OpError with both addresses): one signature for
		// what the verb-consistency oracle reports on it
		sig = "C09:net.OpError-src-dst-arrow"
	}
	res.NFailures++
	res.FailSigs[sig]++
	if res.FailSigs[sig] <= 3 && len(res.Failures) < 60 {
		in := ""
		if c != nil {
			in = c.Cmd.String()
		}
		id := ""
		if c != nil {
			id = c.ID
		}
		var rec *R
		if c != nil {
			rec = c.Rec
		}
		res.Failures = append(res.Failures, Failure{id, oracle, in, detail, sig, rec})
	}
}

func initFamilies() {
	// every family with a registered decoder/encoder in the library, as seen from
	// one instance of each library type
	seen := map[string]bool{}
	g := NewGen(1)
	add := func(r *R) {
		e, _ := Build(r)
		for _, n := range nodesOfErr(e, nil) {
			seen[string(errbase.GetTypeKey(n))] = true
		}
	}
	for _, op := range leafOps {
		add(g.LeafOp(op))
	}
	for _, op := range wrapOps {
		add(g.WrapOp(op, g.LeafOp("goerr"), 2))
	}
	for _, op := range multiOps {
		add(g.MultiOp(op, []*R{g.LeafOp("goerr"), g.LeafOp("goerr")}))
	}
	for k := range seen {
		allFamilies = append(allFamilies, k)
	}
	sort.Strings(allFamilies)
}

func main() {
	prop := flag.String("prop", "C01", "property id")
	tier := flag.String("tier", "quick", "quick|thorough")
	seed := flag.Uint64("seed", 1, "seed")
	driver := flag.String("driver", "", "path of the Lean driver executable")
	out := flag.String("out", "", "result JSON path")
	replay := flag.String("replay", "", "replay file")
	root := flag.String("root", "/verif", "verif root")
	_ = root
	flag.Parse()

	errors.SetWarningFn(func(context.Context, string, ...interface{}) {})
	initFamilies()

	start := time.Now()
	res := &Result{Property: *prop, Tier: *tier, Seed: *seed, Compared: map[string]int{}, OpCounts: map[string]int{},
		DepthHist: map[string]int{}, OracleEvals: map[string]int{}, FailSigs: map[string]int{}}

	runProperty(res, *prop, *tier, *seed, *driver, *replay)

	res.WallS = time.Since(start).Seconds()
	bs, _ := json.MarshalIndent(res, "", " ")
	if *out != "" {
		if err := os.WriteFile(*out, bs, 0o644); err != nil {
			fmt.Fprintln(os.Stderr, err)
			os.Exit(2)
		}
	} else {
		os.Stdout.Write(bs)
	}
}

func dropAccField(x SX, name string) SX {
	if x.Kind != 'l' || len(x.L) != 2 || x.L[1].Kind != 'l' {
		return x
	}
	var keep []SX
	for _, f := range x.L[1].L {
		if f.Kind == 'l' && len(f.L) > 0 && f.L[0].Sym == name {
			continue
		}
		keep = append(keep, f)
	}
	return L(x.L[0], L(keep...))
}
