package main

import (
	"fmt"
	gobuild "go/build"
	"path/filepath"

	"github.com/cockroachdb/errors"
	"github.com/cockroachdb/redact"
)

// fmtSX: the formatting streams of one error, in the shape of ErrModel.pFmt.
func fmtSX(e error) SX {
	rv := redact.Sprintf("%v", e)
	rpv := redact.Sprintf("%+v", e)
	return L(Sym("fmt"),
		L(Sym("error"), Str(e.Error())),
		L(Sym("v"), Str(fmt.Sprintf("%v", errors.Formattable(e)))),
		L(Sym("pv"), Str(fmt.Sprintf("%+v", errors.Formattable(e)))),
		L(Sym("rv"), Str(string(rv))),
		L(Sym("rpv"), Str(string(rpv))),
		L(Sym("rvred"), Str(string(rv.Redact()))),
		L(Sym("rpvred"), Str(string(rpv.Redact()))),
	)
}

// trimPathsList replicates withstack's (unexported) trimPaths: the source directories of
// the Go build context, with a trailing separator.
func trimPathsList() []string {
	var out []string
	for _, prefix := range gobuild.Default.SrcDirs() {
		if prefix[len(prefix)-1] != filepath.Separator {
			prefix += string(filepath.Separator)
		}
		out = append(out, prefix)
	}
	return out
}

// reportSX: BuildSentryReport in the shape of ErrModel.pReport.
func reportSX(e error) SX {
	ev, extras := errors.BuildSentryReport(e)
	if ev == nil {
		return L(Sym("noreport"))
	}
	var excs []SX
	for _, x := range ev.Exception {
		frames := L(Sym("nostack"))
		if x.Stacktrace != nil {
			var fs []SX
			for _, f := range x.Stacktrace.Frames {
				fs = append(fs, L(Str(f.Function), Str(f.Module), Str(f.Filename), Str(f.AbsPath), Str(fmt.Sprint(f.Lineno))))
			}
			frames = L(fs...)
		}
		excs = append(excs, L(Str(x.Module), Str(x.Type), Str(x.Value), frames))
	}
	types, _ := extras["error types"].(string)
	return L(Sym("report"),
		L(Sym("message"), Str(ev.Message)),
		L(Sym("exceptions"), L(excs...)),
		L(Sym("types"), Str(types)))
}

// the directives of the verbs stream
var verbSpecs = []string{"%v", "%s", "%+v", "%q", "%x", "%X", "%#v", "%d", "%10s", "%-12v", "%.3s", "%.0v", "%8.2q", "% x", "%#x",
	"%#q", "%012s", "%40.30v", "%t", "%-5d", "%+10v", "%3v", "%0v", "% v", "%#s"}

// verbsSX: for every directive the real plain rendering (through Formattable) and the real
// redactable rendering.
func verbsSX(e error) SX {
	out := make([]SX, len(verbSpecs))
	for i, f := range verbSpecs {
		out[i] = L(Str(f), Str(fmt.Sprintf(f, errors.Formattable(e))), Str(string(redact.Sprintf(f, e))))
	}
	return L(out...)
}
