package main

import (
	"fmt"

	"github.com/cockroachdb/errors"
	"github.com/cockroachdb/redact"
)

// fmtSX: the formatting streams of one error, in the shape of ErrModel.pFmt.
func fmtSX(e error) SX {
	rv := redact.Sprintf("%v", e)
	rpv := redact.Sprintf("%+v", e)
	return L(Sym("fmt"),
		L(Sym("error"), Str(e.Error())),
		L(Sym("v"), Str(fmt.Sprintf("%v", errors.Formattable(e)))),
		L(Sym("pv"), Str(fmt.Sprintf("%+v", errors.Formattable(e)))),
		L(Sym("rv"), Str(string(rv))),
		L(Sym("rpv"), Str(string(rpv))),
		L(Sym("rvred"), Str(string(rv.Redact()))),
		L(Sym("rpvred"), Str(string(rpv.Redact()))),
	)
}
