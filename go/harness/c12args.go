package main

import (
	"fmt"

	"github.com/cockroachdb/errors"
	"github.com/cockroachdb/errors/barriers"
	"github.com/cockroachdb/redact"
)

// safeArgCases: arguments wrapped with Safe() passed to every format-style constructor, under
// format strings that consume them, consume only some of them, or consume none (an empty format:
// fmt then reports them as EXTRA — still information the caller declared safe).  Model-free leg
// (UnimplementedErrorf is not in the list: it formats with plain fmt, its message is not declared
// safe by the library.)  Judged by the C12 retention oracle (and by the C03 oracle: nothing unsafe may appear).
func safeArgCases(g *Gen) []*Case {
	var cases []*Case
	n := 0
	tok := func(op string, toks *[]Token) string {
		g.nextTok++
		t := fmt.Sprintf("T%dq", g.nextTok)
		*toks = append(*toks, Token{Tok: t, Class: 'S', Op: op})
		return t
	}
	formats := []struct {
		f     string
		nargs int
	}{{"", 1}, {"", 2}, {"%s", 1}, {"%v", 1}, {"got %s here", 1}, {"%s and %s", 2}, {"%s", 2}, {"plain", 1},
		{"first line %s\nsecond line %s", 2}, {"a\nb\nc %s", 1}}
	ctors := []struct {
		name string
		f    func(format string, args []interface{}) error
	}{
		{"Newf", func(f string, a []interface{}) error { return errors.Newf(f, a...) }},
		{"Errorf", func(f string, a []interface{}) error { return errors.Errorf(f, a...) }},
		{"Wrapf", func(f string, a []interface{}) error { return errors.Wrapf(errors.New("base"), f, a...) }},
		{"WithMessagef", func(f string, a []interface{}) error { return errors.WithMessagef(errors.New("base"), f, a...) }},
		{"WithSafeDetails", func(f string, a []interface{}) error { return errors.WithSafeDetails(errors.New("base"), f, a...) }},
		{"AssertionFailedf", func(f string, a []interface{}) error { return errors.AssertionFailedf(f, a...) }},
		{"NewAssertionErrorWithWrappedErrf", func(f string, a []interface{}) error {
			return errors.NewAssertionErrorWithWrappedErrf(errors.New("base"), f, a...)
		}},
		{"HandledWithMessagef", func(f string, a []interface{}) error {
			return barriers.HandledWithMessagef(errors.New("base"), f, a...)
		}},
	}
	contexts := []struct {
		name string
		f    func(error) error
	}{
		{"bare", func(e error) error { return e }},
		{"wrap", func(e error) error { return errors.Wrap(e, "ctx") }},
		{"handled", func(e error) error { return errors.Handled(e) }},
		{"secondary", func(e error) error { return errors.WithSecondaryError(errors.New("primary"), e) }},
		{"handled-in-secondary", func(e error) error {
			return errors.WithSecondaryError(errors.New("primary"), errors.Handled(e))
		}},
	}
	for _, ct := range ctors {
		for _, fm := range formats {
			for ci, cx := range contexts {
				if ci > 1 && (n%3 != 0) && fm.f != "" {
					n++
					continue // the hidden contexts for a third of the non-empty formats, all for the empty one
				}
				var toks []Token
				var args []interface{}
				for i := 0; i < fm.nargs; i++ {
					args = append(args, redact.Safe(tok(ct.name, &toks)))
				}
				var e error
				if ok, _ := catch(func() { e = cx.f(ct.f(fm.f, args)) }); !ok || e == nil {
					n++
					continue
				}
				c := &Case{ID: fmt.Sprintf("safearg%d", n), Err: e, Toks: toks, NoModel: true,
					Rec: &R{Op: "special:safearg:" + ct.name + ":" + cx.name, In: []string{fm.f}}}
				c.Cmd = L(Sym("special"), Str("safearg"), Str(ct.name), Str(fm.f), Str(cx.name), Nat(n))
				c.Real = L(Sym("res"), L(Sym("special")))
				n++
				cases = append(cases, c)
			}
		}
	}
	return cases
}

// lookalikeCases: two errors with the same text and the same chain of types (so each "is" the
// other) that carry DIFFERENT safe annotations, combined: what each declared safe must be retained.
func lookalikeCases(g *Gen) []*Case {
	var cases []*Case
	n := 0
	tok := func(op string, toks *[]Token) string {
		g.nextTok++
		t := fmt.Sprintf("T%dq", g.nextTok)
		*toks = append(*toks, Token{Tok: t, Class: 'S', Op: op})
		return t
	}
	mk := []struct {
		name string
		f    func(t string) error
	}{
		{"telemetry", func(t string) error { return errors.WithTelemetry(errors.New("boom"), t) }},
		{"safe details", func(t string) error { return errors.WithSafeDetails(errors.New("boom"), "v=%s", errors.Safe(t)) }},
		{"issue link", func(t string) error { return errors.WithIssueLink(errors.New("boom"), errors.IssueLink{IssueURL: "http://x/" + t}) }},
		{"domain", func(t string) error { return errors.WithDomain(errors.New("boom"), errors.Domain("same")) }},
	}
	comb := []struct {
		name string
		f    func(a, b error) error
	}{
		{"CombineErrors", func(a, b error) error { return errors.CombineErrors(a, b) }},
		{"WithSecondaryError", func(a, b error) error { return errors.WithSecondaryError(a, b) }},
		{"Handled(CombineErrors)", func(a, b error) error { return errors.Handled(errors.CombineErrors(a, b)) }},
		{"Join", func(a, b error) error { return errors.Wrap(errors.CombineErrors(errors.Wrap(a, "w"), errors.Wrap(b, "w")), "top") }},
	}
	for _, m := range mk[:3] {
		for _, cb := range comb {
			var toks []Token
			a := m.f(tok("lookalike:"+m.name, &toks))
			b := m.f(tok("lookalike:"+m.name, &toks))
			var e error
			if ok, _ := catch(func() { e = cb.f(a, b) }); !ok || e == nil {
				continue
			}
			c := &Case{ID: fmt.Sprintf("lookalike%d", n), Err: e, Toks: toks, NoModel: true,
				Rec: &R{Op: "special:lookalike:" + m.name + ":" + cb.name}}
			c.Cmd = L(Sym("special"), Str("lookalike"), Str(m.name), Str(cb.name), Nat(n))
			c.Real = L(Sym("res"), L(Sym("special")))
			n++
			cases = append(cases, c)
		}
	}
	return cases
}
