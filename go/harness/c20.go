package main

import (
	"context"
	"fmt"
	"net"
	"strings"
	"time"

	"github.com/cockroachdb/errors"
	"github.com/cockroachdb/errors/extgrpc"
	egrpc "github.com/cockroachdb/errors/grpc"
	"github.com/cockroachdb/errors/grpc/middleware"
	"github.com/hydrogen18/memlistener"
	"google.golang.org/grpc"
	"google.golang.org/grpc/codes"
	grpcstatus "google.golang.org/grpc/status"
)

// C20: an in-memory gRPC service whose handler returns the generated error, behind the
// library's server interceptor; one client with the library's client interceptor, one raw.

type echoSrv struct{ next error }

func (s *echoSrv) Echo(_ context.Context, req *egrpc.EchoRequest) (*egrpc.EchoReply, error) {
	return &egrpc.EchoReply{Reply: req.Text}, s.next
}

type grpcRig struct {
	srv    *echoSrv
	server *grpc.Server
	conn   *grpc.ClientConn
	raw    *grpc.ClientConn
	client egrpc.EchoerClient
	rawCl  egrpc.EchoerClient
}

func newGrpcRig() (*grpcRig, error) {
	r := &grpcRig{srv: &echoSrv{}}
	lis := memlistener.NewMemoryListener()
	// the outer interceptor only turns a panic of the library's interceptor (which would
	// kill the server process) into an observable status
	recoverPanics := func(ctx context.Context, req interface{}, info *grpc.UnaryServerInfo, h grpc.UnaryHandler) (resp interface{}, err error) {
		defer func() {
			if v := recover(); v != nil {
				resp, err = nil, grpcstatus.Error(codes.Internal, fmt.Sprintf("SERVER-PANIC: %v", v))
			}
		}()
		return h(ctx, req)
	}
	r.server = grpc.NewServer(grpc.ChainUnaryInterceptor(recoverPanics, middleware.UnaryServerInterceptor))
	egrpc.RegisterEchoerServer(r.server, r.srv)
	go r.server.Serve(lis)
	dial := func(opts ...grpc.DialOption) (*grpc.ClientConn, error) {
		base := []grpc.DialOption{
			grpc.WithDialer(func(string, time.Duration) (net.Conn, error) { return lis.Dial("", "") }),
			grpc.WithInsecure(),
		}
		return grpc.Dial("", append(base, opts...)...)
	}
	var err error
	if r.conn, err = dial(grpc.WithUnaryInterceptor(middleware.UnaryClientInterceptor)); err != nil {
		return nil, err
	}
	if r.raw, err = dial(); err != nil {
		return nil, err
	}
	r.client = egrpc.NewEchoerClient(r.conn)
	r.rawCl = egrpc.NewEchoerClient(r.raw)
	return r, nil
}

func (r *grpcRig) close() {
	r.conn.Close()
	r.raw.Close()
	r.server.Stop()
}

// roundTrip returns what the intercepting client receives and the status code a plain
// client sees; panicked = the server handler chain panicked (the call then fails).
func (r *grpcRig) roundTrip(e error) (got error, code codes.Code, callErr bool) {
	r.srv.next = e
	ctx, cancel := context.WithTimeout(context.Background(), 5*time.Second)
	defer cancel()
	_, got = r.client.Echo(ctx, &egrpc.EchoRequest{Text: "x"})
	_, rawErr := r.rawCl.Echo(ctx, &egrpc.EchoRequest{Text: "x"})
	code = grpcstatus.Code(rawErr)
	return got, code, false
}

func isStatusErr(e error) bool {
	_, ok := e.(interface{ GRPCStatus() *grpcstatus.Status })
	return ok
}

func runC20(res *Result, tier string, seed uint64, driver string) {
	rig, err := newGrpcRig()
	if err != nil {
		res.Notes = append(res.Notes, "driver error: grpc rig: "+err.Error())
		return
	}
	defer rig.close()
	g := NewGen(seed)
	n := 600
	if tier == "thorough" {
		n = 6000
		g.maxDepth = 8
	}
	var recs []*R
	for _, op := range leafOps {
		recs = append(recs, g.LeafOp(op), g.WrapOp("grpc", g.LeafOp(op), 2))
	}
	for _, op := range wrapOps {
		recs = append(recs, g.WrapOp(op, g.LeafOp("new"), 2), g.WrapOp(op, g.WrapOp("grpc", g.LeafOp("goerr"), 2), 2))
	}
	for _, op := range multiOps {
		recs = append(recs, g.MultiOp(op, []*R{g.WrapOp("grpc", g.LeafOp("new"), 2), g.LeafOp("goerr")}))
	}
	for i := 0; i < n; i++ {
		r := g.Tree(1 + g.rng.Intn(g.maxDepth))
		if g.rng.Intn(3) == 0 {
			r = g.WrapOp("grpc", r, 2)
		}
		recs = append(recs, r)
	}
	// a non-nil error carrying code OK (recorded finding) and the nil error
	okCode := g.node("grpc", nil, []int{0}, g.LeafOp("new"))
	recs = append(recs, okCode, g.WrapOp("hint", g.node("grpc", nil, []int{0}, g.LeafOp("goerr")), 2))

	var cases []*Case
	for i, rec := range recs {
		e, bp := Build(rec)
		if bp != nil || e == nil {
			continue
		}
		c := &Case{ID: fmt.Sprintf("r%d", i), Rec: rec, Err: e}
		refs := append(sentinelRefs(g), g.Clone(rec))
		var refErrs []error
		var refSX []SX
		for _, r := range refs {
			if re, rbp := Build(r); rbp == nil && re != nil {
				refErrs = append(refErrs, re)
				refSX = append(refSX, r.ToSX())
			}
		}
		c.Refs = refErrs
		c.Cmd = L(Sym("grpc"), rec.ToSX(), L(refSX...))
		got, code, _ := rig.roundTrip(e)
		res.OracleEvals["C20.roundtrip"]++
		// real observations of what the caller got
		if got == nil {
			c.Real = L(Sym("res"), L(Sym("nil")))
		} else {
			c.Real = L(Sym("res"),
				L(Sym("code"), Nat(int(code))),
				L(Sym("tree"), optSX(func() SX { return treeSX(got) })),
				L(Sym("enc"), optSX(func() SX { return encSX(got) })),
				L(Sym("acc"), optSX(func() SX { return accSX(got) })),
				L(Sym("is"), isSX(got, refErrs)))
		}
		cases = append(cases, c)

		// direct oracle: equal to the same error transferred directly
		wantCode := extgrpc.GetGrpcCode(e)
		if isStatusErr(e) {
			// status errors pass through unchanged
			if got == nil || grpcstatus.Code(got) != grpcstatus.Code(e) || grpcstatus.Convert(got).Message() != grpcstatus.Convert(e).Message() {
				res.fail(c, "C20.status_passthrough", fmt.Sprintf("status error changed: %v -> %v", e, got), "C20:passthrough")
			}
			continue
		}
		if got == nil {
			res.fail(c, "C20.delivered", "the caller received no error", "C20:lost")
			continue
		}
		if strings.Contains(got.Error(), "SERVER-PANIC") {
			res.fail(c, "C20.no_panic", fmt.Sprintf("the server interceptor panicked: %v", got), "C20:server-panic")
			continue
		}
		if wantCode == codes.OK {
			// a non-nil error cannot be reported as OK: callers must see a failure (Unknown)
			wantCode = codes.Unknown
		}
		if code != wantCode {
			res.fail(c, "C20.visible_code", fmt.Sprintf("caller sees code %v, attached code is %v", code, wantCode), "C20:code")
		}
		direct, okd := hopsReal(e, 1)
		if !okd {
			res.fail(c, "C20.harness", "direct hop panicked", "C20:harness")
			continue
		}
		same := func(name string, f func(error) string) {
			if a, b := f(got), f(direct); a != b {
				res.fail(c, "C20.equals_direct_transfer", fmt.Sprintf("%s differs: via gRPC %.200q direct %.200q", name, a, b), "C20:"+name)
			}
		}
		same("tree", func(x error) string { return treeSX(x).String() })
		same("enc", func(x error) string { return encSX(x).String() })
		same("acc", func(x error) string { return accSX(x).String() })
		same("is", func(x error) string { return isSX(x, refErrs).String() })
		same("verbose", func(x error) string { return fmt.Sprintf("%+v", x) })
	}
	c20LongTexts(res, rig)
	// nil passes through
	res.OracleEvals["C20.nil"]++
	if got, code, _ := rig.roundTrip(nil); got != nil || code != codes.OK {
		res.fail(nil, "C20.nil", "a nil handler error is not delivered as nil", "C20:nil")
	}
	res.Cases = len(cases)
	distinct := map[string]bool{}
	for _, c := range cases {
		distinct[c.Cmd.String()] = true
	}
	res.Distinct = len(distinct)
	model, derr := runDriver(driver, cases)
	if derr != nil {
		res.Notes = append(res.Notes, "driver error: "+derr.Error())
	}
	for _, c := range cases {
		m, ok := model[c.ID]
		if !ok {
			m = L(Sym("missing"))
		}
		compare(res, c, m)
	}
	res.OpCounts = g.opCount
	res.Rule = "generated trees (every kind once with and without a gRPC code layer + random trees) returned by the handler of an in-memory gRPC service (memlistener) behind UnaryServerInterceptor, received through UnaryClientInterceptor and through a plain client; compared with the model's interceptors and, on the real code, with the direct EncodeError/DecodeError hop"
	for i := 0; i < 3 && i < len(cases); i++ {
		s := cases[len(cases)-1-i].Cmd.String()
		if len(s) > 500 {
			s = s[:500] + "…"
		}
		res.Samples = append(res.Samples, s)
	}
	_ = errors.New
}

// c20LongTexts: Error() texts of several KiB made of multi-byte runes at every byte alignment
// (anything that caps, cuts or windows the status message or a detail lands inside a rune):
// the caller must still receive the error a direct transfer gives.  Direct oracle only.
func c20LongTexts(res *Result, rig *grpcRig) {
	n := 0
	for _, unit := range []string{"é", "日", "a", "𝛑"} {
		for _, lead := range []string{"", "x", "xy", "xyz"} {
			for _, k := range []int{300, 520, 1100, 4100, 17000} {
				text := lead + strings.Repeat(unit, k)
				for _, mk := range []func(string) error{
					func(t string) error { return errors.New(t) },
					func(t string) error { return errors.Wrap(fmt.Errorf("%s", t), "ctx") },
					func(t string) error { return extgrpc.WrapWithGrpcCode(errors.Newf("%s", t), codes.NotFound) },
				} {
					e := mk(text)
					n++
					c := &Case{ID: fmt.Sprintf("long%d", n), Err: e, NoModel: true, Rec: &R{Op: "special:longtext", In: []string{fmt.Sprintf("%q x %d after %q", unit, k, lead)}}}
					c.Cmd = L(Sym("special"), Str("longtext"), Str(unit), Str(lead), Nat(k), Nat(n))
					got, _, _ := rig.roundTrip(e)
					res.OracleEvals["C20.longtext"]++
					if got == nil {
						res.fail(c, "C20.delivered", "the caller received no error", "C20:lost")
						continue
					}
					direct, okd := hopsReal(e, 1)
					if !okd {
						continue
					}
					for _, f := range []struct {
						name string
						f    func(error) string
					}{
						{"tree", func(x error) string { return treeSX(x).String() }},
						{"enc", func(x error) string { return encSX(x).String() }},
						{"verbose", func(x error) string { return fmt.Sprintf("%+v", x) }},
					} {
						if a, b := f.f(got), f.f(direct); a != b {
							res.fail(c, "C20.equals_direct_transfer", fmt.Sprintf("%s differs for a %d-byte text: via gRPC %.120q direct %.120q", f.name, len(text), a, b), "C20:"+f.name)
							break
						}
					}
				}
			}
		}
	}
}
