package main

import (
	"fmt"
	"regexp"
	"strings"

	"github.com/cockroachdb/errors"
	"github.com/cockroachdb/errors/errorspb"
	"github.com/cockroachdb/redact"
	"github.com/gogo/protobuf/types"
)

// Taint tokens: every string input of a recipe receives a unique searchable token
// "T<n>q"; the (op, position) table below says through which channel the string enters
// the error: 'S' = a channel the library declares PII-free (constant messages and format
// strings, Safe() values, telemetry keys, domains, issue links, tag keys, OS operation
// names, SafeDetails() of foreign types), 'U' = an unsafe channel.

type Token struct {
	Tok   string
	Class byte
	Op    string
	Pos   int
	// InMulti: the input belongs to a layer inside a branch of a multi-cause node
	InMulti bool
	// LocalOnly: declared safe by the local formatter of a foreign type only (no encoder carries
	// it): expected to be retained at the process where the error was created
	LocalOnly bool
}

var tokRe = regexp.MustCompile(`T[0-9]+q`)

// inputClass classifies input i of recipe node r (i = -1: the format argument).
func inputClass(r *R, i int) byte {
	if i == -1 {
		return 'U'
	}
	switch r.Op {
	case "goerr", "pkgnew", "grpcstatus", "gogostatus", "pkgwithmessage", "fmterrorf", "fmterrorfs", "umulti":
		return 'U'
	case "unimpl":
		if i == 0 {
			return 'U'
		}
		return 'S'
	case "uleaf":
		if i == 0 {
			return 'U'
		}
		return 'S'
	case "uwrap":
		if nin(r, 0) == 2 {
			if i == 0 {
				return 0
			}
			return 'S'
		}
		return 'U'
	case "new", "assertionfailedf", "wrap", "withmessage", "newassertionwrapped", "safedetails", "newfe", "newfw", "wrapfe":
		return 'S'
	case "hint", "detail":
		return 'U'
	case "issuelink", "telemetry", "domain", "syscallerr":
		return 'S'
	case "tags":
		if i%2 == 0 {
			return 'S'
		}
		switch nin(r, i/2) {
		case 0:
			return 'U'
		case 1:
			return 'S'
		}
		return 0
	case "patherr", "linkerr":
		if i == 0 {
			return 'S'
		}
		return 'U'
	case "handledindomain":
		if i == 0 {
			return 'S' // the domain
		}
		return 'U' // HandledInDomainWithMessage(err, domain, msg): a plain string
	case "handled":
		switch nin(r, 0) {
		case 1:
			return 'U' // HandledWithMessage(err, msg): the overriding message is a plain string
		case 2:
			return 'S' // HandledWithMessagef: the format
		}
		return 0
	}
	return 0
}

// Taint rewrites the string inputs of a recipe in place, adding one fresh token to each
// non-empty classified input, and returns the tokens.
func (g *Gen) Taint(r *R, acc []Token) []Token { return g.taint(r, acc, false) }

func isMultiOp(op string) bool {
	for _, m := range multiOps {
		if m == op {
			return true
		}
	}
	return false
}

func (g *Gen) taint(r *R, acc []Token, inMulti bool) []Token {
	if r == nil {
		return acc
	}
	add := func(s string, class byte, pos int) string {
		if s == "" || class == 0 {
			return s
		}
		g.nextTok++
		t := fmt.Sprintf("T%dq", g.nextTok)
		acc = append(acc, Token{Tok: t, Class: class, Op: r.Op, Pos: pos, InMulti: inMulti})
		if g.longUnsafe && class == 'U' && !strings.Contains(s, "%") && g.rng.Intn(3) == 0 {
			// a long unsafe text (several KiB of the token): whatever cuts, caps or windows a
			// rendering is likely to cut inside it
			s = s + strings.Repeat(" "+t, 400+g.rng.Intn(500))
		}
		switch g.rng.Intn(3) {
		case 0:
			return t + s
		case 1:
			if !insidePrintfDirective(s, len(s)) {
				return s + t
			}
			return t + s
		}
		// in the middle, at a rune boundary that is not inside a printf directive
		for k := len(s) / 2; k < len(s); k++ {
			if k > 0 && !insidePrintfDirective(s, k) && (s[k]&0xC0) != 0x80 {
				return s[:k] + t + s[k:]
			}
		}
		if !insidePrintfDirective(s, len(s)) {
			return s + t
		}
		return t + s
	}
	for i := range r.In {
		if r.Op == "hop" {
			continue
		}
		if r.Op == "handled" && nin(r, 0) == 0 {
			continue
		}
		r.In[i] = add(r.In[i], inputClass(r, i), i)
	}
	if r.Arg != nil {
		a := add(*r.Arg, inputClass(r, -1), -1)
		r.Arg = &a
	}
	for i, k := range r.K {
		n := len(acc)
		acc = g.taint(k, acc, inMulti || isMultiOp(r.Op))
		if r.Op == "mark" && i == 1 {
			// the reference of a Mark contributes only its (unsafe) message and its types:
			// its safe inputs are not expected to be retained
			for j := n; j < len(acc); j++ {
				if acc[j].Class == 'S' {
					acc[j].Class = 'R'
				}
			}
		}
	}
	return acc
}

// ---------------------------------------------------------------------
// the outputs the library declares PII-free

type namedOut struct {
	Name string
	Text string
}

// reportables lists the reportable strings of an encoded error, recursing into hidden
// chains carried as payloads.
func reportables(e *errorspb.EncodedError, acc []string) []string {
	det := func(d *errorspb.EncodedErrorDetails) {
		acc = append(acc, d.OriginalTypeName, d.ErrorTypeMark.FamilyName, d.ErrorTypeMark.Extension)
		acc = append(acc, d.ReportablePayload...)
		if d.FullDetails != nil {
			var da types.DynamicAny
			if err := types.UnmarshalAny(d.FullDetails, &da); err == nil {
				if m, ok := da.Message.(*errorspb.EncodedError); ok {
					acc = reportables(m, acc)
				}
			}
		}
	}
	if w := e.GetWrapper(); w != nil {
		det(&w.Details)
		return reportables(&w.Cause, acc)
	}
	if l := e.GetLeaf(); l != nil {
		det(&l.Details)
		for _, c := range l.MultierrorCauses {
			acc = reportables(c, acc)
		}
	}
	return acc
}

func reportStrings(e error) []namedOut {
	ev, extras := errors.BuildSentryReport(e)
	var out []namedOut
	if ev == nil {
		return nil
	}
	out = append(out, namedOut{"report.message", ev.Message})
	for i, x := range ev.Exception {
		out = append(out, namedOut{fmt.Sprintf("report.exception[%d]", i), x.Type + "\x00" + x.Value + "\x00" + x.Module})
		if x.Stacktrace != nil {
			for _, f := range x.Stacktrace.Frames {
				out = append(out, namedOut{fmt.Sprintf("report.exception[%d].frame", i),
					f.Function + "\x00" + f.Module + "\x00" + f.Filename + "\x00" + f.AbsPath})
			}
		}
	}
	for k, v := range extras {
		out = append(out, namedOut{"report.extra." + k, fmt.Sprint(v)})
	}
	for k, v := range ev.Extra {
		out = append(out, namedOut{"report.event.extra." + k, fmt.Sprint(v)})
	}
	for k, v := range ev.Tags {
		out = append(out, namedOut{"report.tag." + k, v})
	}
	return out
}

// piiFree computes every output declared PII-free for e.
func piiFree(e error) []namedOut {
	var out []namedOut
	out = append(out, namedOut{"redact(%v)", string(redact.Sprintf("%v", e).Redact())})
	out = append(out, namedOut{"redact(%+v)", string(redact.Sprintf("%+v", e).Redact())})
	out = append(out, namedOut{"errors.Redact", redactAPI(e)})
	for _, p := range errors.GetAllSafeDetails(e) {
		out = append(out, namedOut{"GetAllSafeDetails", p.OriginalTypeName + "\x00" + strings.Join(p.SafeDetails, "\x00")})
	}
	sd := errors.GetSafeDetails(e)
	out = append(out, namedOut{"GetSafeDetails", strings.Join(sd.SafeDetails, "\x00")})
	enc := errors.EncodeError(bgCtx, e)
	out = append(out, namedOut{"wire.reportable", strings.Join(reportables(&enc, nil), "\x00")})
	out = append(out, reportStrings(e)...)
	return out
}

// stages returns the error locally, after 1 and 3 hops, and after a hop through a
// process that knows none of the library's types.
func stages(e error, unknowing bool) []struct {
	Name string
	E    error
} {
	var out []struct {
		Name string
		E    error
	}
	add := func(n string, f func() error) {
		var x error
		if ok, _ := catch(func() { x = f() }); ok && x != nil {
			out = append(out, struct {
				Name string
				E    error
			}{n, x})
		}
	}
	add("local", func() error { return e })
	add("hop1", func() error { return hopReal(e, nil) })
	add("hop3", func() error { r, _ := hopsReal(e, 3); return r })
	if unknowing {
		add("unknowing", func() error { return hopReal(e, allFamilies) })
		add("unknowing+1", func() error { return hopReal(hopReal(e, allFamilies), nil) })
	}
	return out
}

// oracleC03: no unsafe token in any PII-free output, at any stage.
func oracleC03(res *Result, c *Case) {
	if c.Err == nil {
		return
	}
	var unsafeToks []Token
	for _, t := range c.Toks {
		if t.Class == 'U' {
			unsafeToks = append(unsafeToks, t)
		}
	}
	res.OracleEvals["C03.redact_api"]++
	if ok, _ := catch(func() {
		if a, b := redactAPI(c.Err), redactAPIReference(c.Err); a != b {
			res.fail(c, "C03.redact_api", fmt.Sprintf("errors.Redact(e) = %q, redact.Sprint(e).Redact().StripMarkers() = %q", a, b), "C03:redact-api")
		}
	}); !ok {
		res.fail(c, "C03.redact_api", "errors.Redact panicked", "C03:redact-api-panic")
	}
	for _, st := range stages(c.Err, true) {
		var outs []namedOut
		if ok, _ := catch(func() { outs = piiFree(st.E) }); !ok {
			res.fail(c, "C03", st.Name+": a PII-free observer panicked", "C03:panic:"+st.Name)
			continue
		}
		res.OracleEvals["C03."+st.Name]++
		for _, o := range outs {
			for _, t := range unsafeToks {
				res.OracleEvals["C03.token_checks"]++
				if strings.Contains(o.Text, t.Tok) {
					res.fail(c, "C03", fmt.Sprintf("%s: unsafe input %s (op %s, input %d) appears in %s: %q",
						st.Name, t.Tok, t.Op, t.Pos, o.Name, clip(o.Text, t.Tok)),
						fmt.Sprintf("C03:leak:%s:%d:%s", t.Op, t.Pos, outKind(o.Name)))
				}
			}
		}
	}
}

func outKind(n string) string {
	if i := strings.IndexAny(n, "[."); i > 0 && strings.HasPrefix(n, "report") {
		return "report"
	}
	return n
}

func clip(s, tok string) string {
	i := strings.Index(s, tok)
	lo, hi := i-60, i+len(tok)+40
	if lo < 0 {
		lo = 0
	}
	if hi > len(s) {
		hi = len(s)
	}
	return s[lo:hi]
}

// oracleC12: every safe token is present in the Sentry report or in GetAllSafeDetails,
// locally and after hops between knowing processes.
func oracleC12(res *Result, c *Case) {
	if c.Err == nil {
		return
	}
	sts := stages(c.Err, false)
	if len(sts) > 0 {
		// the error observed a second time, after every report and hop above has been computed on it:
		// building a report must not consume what it reports (an observer that edits a shared slice
		// in place loses the information for every later observation and every later hop)
		again := sts[0]
		again.Name = sts[0].Name + "-again"
		sts = append(sts, again)
		if h, ok := hopsReal(c.Err, 1); ok && h != nil {
			sts = append(sts, struct {
				Name string
				E    error
			}{"hop1-after-reporting", h})
		}
	}
	for _, st := range sts {
		var all strings.Builder
		ok, _ := catch(func() {
			for _, o := range reportStrings(st.E) {
				all.WriteString(o.Text)
				all.WriteByte(0)
			}
			for _, p := range errors.GetAllSafeDetails(st.E) {
				all.WriteString(p.OriginalTypeName)
				all.WriteByte(0)
				all.WriteString(strings.Join(p.SafeDetails, "\x00"))
				all.WriteByte(0)
			}
		})
		if !ok {
			res.fail(c, "C12", st.Name+": report building panicked", "C12:panic:"+st.Name)
			continue
		}
		res.OracleEvals["C12."+st.Name]++
		text := all.String()
		for _, t := range c.Toks {
			if t.Class != 'S' || (t.LocalOnly && st.Name != "local" && st.Name != "local-again") {
				continue
			}
			res.OracleEvals["C12.token_checks"]++
			if !strings.Contains(text, t.Tok) {
				sig := fmt.Sprintf("C12:lost:%s:%d", t.Op, t.Pos)
				where := ""
				if t.InMulti && (t.Op == "uleaf" || t.Op == "uwrap" || t.Op == "tags") {
					// the safe details of a layer inside a multi-cause branch (known finding D14)
					sig = "C12:lost-in-multi-branch:" + t.Op
					where = " (a safe detail of a layer inside a multi-cause branch)"
				}
				res.fail(c, "C12", fmt.Sprintf("%s: safe input %s (op %s, input %d) is in neither the report nor the safe details%s",
					st.Name, t.Tok, t.Op, t.Pos, where), sig)
			}
		}
	}
}

// insidePrintfDirective: would text inserted at position k of a format string become part of a
// printf directive (an unescaped '%' followed only by flags, width, precision, argument index)?
func insidePrintfDirective(s string, k int) bool {
	j := k - 1
	for j >= 0 && strings.IndexByte("+-# 0123456789.*[]", s[j]) >= 0 {
		j--
	}
	if j < 0 || s[j] != '%' {
		return false
	}
	n := 0
	for j >= 0 && s[j] == '%' {
		n++
		j--
	}
	return n%2 == 1
}
