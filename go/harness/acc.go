package main

import (
	"fmt"
	"sort"

	"strings"

	"github.com/cockroachdb/errors"
	"github.com/cockroachdb/errors/errbase"
	"github.com/cockroachdb/errors/extgrpc"
	"github.com/cockroachdb/errors/exthttp"
	"github.com/cockroachdb/errors/oserror"
)

func pairSX(a, b string) SX { return L(Str(a), Str(b)) }

// accSX observes every public accessor of e, in the shape of ErrModel.pAcc.
// Telemetry keys are a set in the API: both sides are compared sorted and de-duplicated
// (the canonicalisation is applied to the model's output too, in compareAcc).
func accSX(e error) SX {
	var links []SX
	for _, l := range errors.GetAllIssueLinks(e) {
		links = append(links, pairSX(l.IssueURL, l.Detail))
	}
	keys := errors.GetTelemetryKeys(e)
	sort.Strings(keys)
	var tags []SX
	for _, b := range errors.GetContextTags(e) {
		var ts []SX
		for _, t := range b.Get() {
			ts = append(ts, pairSX(t.Key(), t.ValueStr()))
		}
		tags = append(tags, L(ts...))
	}
	var sd []SX
	for _, p := range errors.GetAllSafeDetails(e) {
		det := make([]string, len(p.SafeDetails))
		for i, s := range p.SafeDetails {
			det[i] = strings.ReplaceAll(s, unkSuffix, "")
		}
		sd = append(sd, L(Str(p.OriginalTypeName), L(Str(strings.TrimSuffix(p.ErrorTypeMark.FamilyName, unkSuffix)), Str(p.ErrorTypeMark.Extension)), Strs(det)))
	}
	root := errors.UnwrapAll(e)
	var stacks []SX
	for c := e; c != nil; c = errors.UnwrapOnce(c) {
		if ps, ok := printedStackOf(c); ok {
			stacks = append(stacks, L(Sym("some"), Str(ps)))
		} else {
			stacks = append(stacks, L(Sym("none")))
		}
	}
	return L(Sym("acc"),
		L(Sym("hints"), Strs(errors.GetAllHints(e))),
		L(Sym("details"), Strs(errors.GetAllDetails(e))),
		L(Sym("fhints"), Str(errors.FlattenHints(e))),
		L(Sym("fdetails"), Str(errors.FlattenDetails(e))),
		L(Sym("links"), L(links...)),
		L(Sym("flags"), Bool(errors.HasIssueLink(e)), Bool(errors.IsIssueLink(e)), Bool(errors.HasUnimplementedError(e)),
			Bool(errors.IsUnimplementedError(e)), Bool(errors.HasAssertionFailure(e)), Bool(errors.IsAssertionFailure(e))),
		L(Sym("keys"), Strs(dedupSorted(keys))),
		L(Sym("domain"), Str(string(errors.GetDomain(e)))),
		L(Sym("tags"), L(tags...)),
		L(Sym("http"), Nat(exthttp.GetHTTPCode(e, 599))),
		L(Sym("grpc"), Nat(int(extgrpc.GetGrpcCode(e)))),
		L(Sym("os"), Bool(oserror.IsPermission(e)), Bool(oserror.IsExist(e)), Bool(oserror.IsNotExist(e)), Bool(oserror.IsTimeout(e))),
		L(Sym("root"), Str(root.Error()), Str(fmt.Sprintf("%T", root))),
		L(Sym("stacks"), L(stacks...)),
		L(Sym("safedet"), L(sd...)),
	)
}

var stackKeys = map[string]bool{
	"github.com/cockroachdb/errors/withstack/*withstack.withStack": true,
	"github.com/pkg/errors/*errors.withStack":                      true,
	"github.com/pkg/errors/*errors.fundamental":                    true,
}

// printedStackOf returns the printed stack that a reportable layer carries: the %+v of
// its StackTrace(), or the first safe detail of a layer received under a stack key.
func printedStackOf(c error) (string, bool) {
	if sp, ok := c.(errbase.StackTraceProvider); ok {
		st := sp.StackTrace()
		if len(st) == 0 {
			return "", false
		}
		return fmt.Sprintf("%+v", st), true
	}
	if sd, ok := c.(errbase.SafeDetailer); ok && stackKeys[strings.TrimSuffix(string(errbase.GetTypeKey(c)), unkSuffix)] {
		if d := sd.SafeDetails(); len(d) > 0 {
			return d[0], true
		}
	}
	return "", false
}

func dedupSorted(ss []string) []string {
	var out []string
	for i, s := range ss {
		if i == 0 || s != ss[i-1] {
			out = append(out, s)
		}
	}
	return out
}

// canonAcc sorts and de-duplicates the telemetry keys of a model acc observation.
func canonAcc(x SX) SX {
	if x.Kind != 'l' || len(x.L) == 0 || x.L[0].Sym != "acc" {
		return x
	}
	out := SX{Kind: 'l', L: append([]SX{}, x.L...)}
	for i, f := range out.L {
		if f.Kind == 'l' && len(f.L) == 2 && f.L[0].Sym == "keys" {
			var ks []string
			for _, k := range f.L[1].L {
				ks = append(ks, k.Str)
			}
			sort.Strings(ks)
			out.L[i] = L(Sym("keys"), Strs(dedupSorted(ks)))
		}
	}
	return out
}
