package main

import (
	"context"
	"fmt"
	"github.com/cockroachdb/errors/errorspb"

	"github.com/cockroachdb/errors"
	"github.com/cockroachdb/errors/errbase"
	"github.com/gogo/protobuf/proto"
)

// C17: type migrations.  MigOld is "the original name"; MigNew / MigOther are what
// two different later versions of the code renamed it to; MigC1..3 form a chain.

type MigOld struct{ msg string }
type MigNew struct{ msg string }
type MigOther struct{ msg string }

func (e *MigOld) Error() string   { return e.msg }
func (e *MigNew) Error() string   { return e.msg }
func (e *MigOther) Error() string { return e.msg }

type MigWOld struct {
	msg   string
	cause error
}
type MigWNew struct {
	msg   string
	cause error
}
type MigWOther struct {
	msg   string
	cause error
}

func (e *MigWOld) Error() string   { return e.msg + ": " + e.cause.Error() }
func (e *MigWOld) Unwrap() error   { return e.cause }
func (e *MigWNew) Error() string   { return e.msg + ": " + e.cause.Error() }
func (e *MigWNew) Unwrap() error   { return e.cause }
func (e *MigWOther) Error() string { return e.msg + ": " + e.cause.Error() }
func (e *MigWOther) Unwrap() error { return e.cause }

type MigC1 struct{ msg string }
type MigC2 struct{ msg string }
type MigC3 struct{ msg string }
type MigC4 struct{ msg string }

func (e *MigC1) Error() string { return e.msg }
func (e *MigC2) Error() string { return e.msg }
func (e *MigC3) Error() string { return e.msg }
func (e *MigC4) Error() string { return e.msg }

// fullName is getFullTypeName (the name a type has before any migration).
func fullName(e error) (pkg, typ string) {
	restore := errbase.TestingWithEmptyMigrationRegistry()
	defer restore()
	k := string(errbase.GetTypeKey(e))
	// pkg path "/" type string; the type string contains no "/"
	i := len(k) - 1
	for i >= 0 && k[i] != '/' {
		i--
	}
	return k[:i], k[i+1:]
}

func permutations(n int) [][]int {
	if n == 0 {
		return [][]int{{}}
	}
	var out [][]int
	for _, p := range permutations(n - 1) {
		for i := 0; i <= len(p); i++ {
			q := append([]int{}, p[:i]...)
			q = append(q, n-1)
			q = append(q, p[i:]...)
			out = append(out, q)
		}
	}
	return out
}

type version int

const (
	vOld version = iota
	vNew
	vOther
	vUnk
	// vNoMig: a process that has the NEW type linked in, with its encoder and decoder registered under
	// the new name, but never registered the migration (a third party): to it the renamed error is
	// an unknown type, which it must carry opaquely under the original name
	vNoMig
)

var versionNames = []string{"old", "new", "other-rename", "unknowing", "new-type-without-migration"}

func runC17(res *Result, tier string, driver string) {
	var cases []*Case
	id := 0
	// ---- 1. registration orders of rename chains --------------------------------
	chainTypes := []error{&MigC1{}, &MigC2{}, &MigC3{}, &MigC4{}}
	// the Go names of the chain types, read once up front: fullName swaps the migration registry,
	// which must not happen between a registration and the observation that follows it
	var chainP, chainT []string
	for _, ct := range chainTypes {
		p, t := fullName(ct)
		chainP, chainT = append(chainP, p), append(chainT, t)
	}
	nameOf := func(e error) (string, string) {
		for i, ct := range chainTypes {
			if ct == e {
				return chainP[i], chainT[i]
			}
		}
		return fullName(e)
	}
	origPkg, origTyp := "old/pkg", "*pkg.Orig"
	maxLen := 3
	if tier == "thorough" {
		maxLen = 4
	}
	for n := 1; n <= maxLen; n++ {
		type decl struct {
			prevPkg, prevTyp string
			newT             error
		}
		decls := make([]decl, n)
		for i := 0; i < n; i++ {
			if i == 0 {
				decls[i] = decl{origPkg, origTyp, chainTypes[0]}
			} else {
				p, t := chainP[i-1], chainT[i-1]
				decls[i] = decl{p, t, chainTypes[i]}
			}
		}
		for _, perm := range permutations(n) {
			for _, useBetween := range []bool{false, true} {
				restore := errbase.TestingWithEmptyMigrationRegistry()
				var regSX []SX
				panicked := false
				for _, j := range perm {
					d := decls[j]
					np, nt := nameOf(d.newT)
					regSX = append(regSX, L(Str(d.prevPkg+"/"+d.prevTyp), Str(np+"/"+nt)))
					if ok, _ := catch(func() { errbase.RegisterTypeMigration(d.prevPkg, d.prevTyp, d.newT) }); !ok {
						panicked = true
					}
					if useBetween {
						// the program uses its error types between two registrations (registering a
						// decoder under GetTypeKey, encoding a value): anything memoized about a type
						// must follow the registrations that come later
						for i := 0; i < n; i++ {
							catch(func() {
								_ = errbase.GetTypeKey(chainTypes[i])
								_ = errbase.EncodeError(context.Background(), chainTypes[i])
							})
						}
					}
				}
				var keys, got []SX
				allRoot := true
				for i := 0; i < n; i++ {
					np, nt := chainP[i], chainT[i]
					keys = append(keys, Str(np+"/"+nt))
					k := string(errbase.GetTypeKey(chainTypes[i]))
					got = append(got, Str(k))
					if k != origPkg+"/"+origTyp {
						allRoot = false
					}
				}
				restore()
				c := &Case{ID: fmt.Sprintf("g%d", id), Cmd: L(Sym("mig"), L(regSX...), L(keys...))}
				id++
				if panicked {
					c.Real = L(Sym("res"), L(Sym("panic")))
				} else {
					c.Real = L(Sym("res"), L(Sym("resolve"), L(got...)))
				}
				cases = append(cases, c)
				res.OracleEvals["C17.order_independent"]++
				if panicked || !allRoot {
					res.fail(c, "C17.order_independent", fmt.Sprintf("chain of %d, registration order %v (types used between registrations: %v): keys %v (panic=%v), want all %s/%s",
						n, perm, useBetween, got, panicked, origPkg, origTyp), "C17:order")
				}
			}
		}
		// the same target twice is rejected
		restore := errbase.TestingWithEmptyMigrationRegistry()
		errbase.RegisterTypeMigration(origPkg, origTyp, chainTypes[0])
		ok, _ := catch(func() { errbase.RegisterTypeMigration("other/pkg", "*pkg.X", chainTypes[0]) })
		restore()
		res.OracleEvals["C17.duplicate_rejected"]++
		np, nt := fullName(chainTypes[0])
		c := &Case{ID: fmt.Sprintf("g%d", id), Cmd: L(Sym("mig"), L(L(Str(origPkg+"/"+origTyp), Str(np+"/"+nt)), L(Str("other/pkg/*pkg.X"), Str(np+"/"+nt))), L())}
		id++
		if ok {
			c.Real = L(Sym("res"), L(Sym("resolve"), L()))
			res.fail(c, "C17.duplicate_rejected", "registering the same target twice did not panic", "C17:duplicate")
		} else {
			c.Real = L(Sym("res"), L(Sym("panic")))
		}
		cases = append(cases, c)
	}

	// ---- 2. the five scenarios, generalised: every assignment of code versions ----
	for _, wrapper := range []bool{false, true} {
		for s := vOld; s <= vOther; s++ {
			for m := vOld; m <= vNoMig; m++ {
				for r := vOld; r <= vNoMig; r++ {
					runScenario(res, wrapper, s, m, r)
				}
			}
		}
	}

	res.Cases = len(cases) + res.OracleEvals["C17.scenario"]
	res.Distinct = res.Cases
	model, err := runDriver(driver, cases)
	if err != nil {
		res.Notes = append(res.Notes, "driver error: "+err.Error())
	}
	for _, c := range cases {
		m, ok := model[c.ID]
		if !ok {
			m = L(Sym("missing"))
		}
		compare(res, c, m)
	}
	res.Rule = "all registration orders of rename chains of length 1..3 (thorough: 4) on the real RegisterTypeMigration under TestingWithEmptyMigrationRegistry, compared with the model registry; duplicate registration; every assignment of {old,new,other-rename,unknowing} to sender/intermediary/receiver for a leaf and a wrapper type (versions simulated with the exported register/unregister API)"
	res.Samples = []string{cases[0].Cmd.String(), cases[len(cases)-1].Cmd.String()}
}

// setVersion installs the migration table and decoders of one code version and returns
// the local instance constructor and a cleanup.
func setVersion(v version, wrapper bool) (mk func(msg string, cause error) error, cleanup func()) {
	restore := errbase.TestingWithEmptyMigrationRegistry()
	var local func(msg string, cause error) error
	oldLeafP, oldLeafT := fullName(&MigOld{})
	oldWrapP, oldWrapT := fullName(&MigWOld{})
	switch v {
	case vOld:
		local = func(msg string, cause error) error {
			if wrapper {
				return &MigWOld{msg, cause}
			}
			return &MigOld{msg}
		}
	case vNew:
		errbase.RegisterTypeMigration(oldLeafP, oldLeafT, &MigNew{})
		errbase.RegisterTypeMigration(oldWrapP, oldWrapT, &MigWNew{})
		local = func(msg string, cause error) error {
			if wrapper {
				return &MigWNew{msg, cause}
			}
			return &MigNew{msg}
		}
	case vOther:
		errbase.RegisterTypeMigration(oldLeafP, oldLeafT, &MigOther{})
		errbase.RegisterTypeMigration(oldWrapP, oldWrapT, &MigWOther{})
		local = func(msg string, cause error) error {
			if wrapper {
				return &MigWOther{msg, cause}
			}
			return &MigOther{msg}
		}
	case vUnk:
		return nil, restore
	case vNoMig:
		local = func(msg string, cause error) error {
			if wrapper {
				return &MigWNew{msg, cause}
			}
			return &MigNew{msg}
		}
	}
	// Every version registers its own encoder / decoder pair under the type key of its local type
	// (which the migration resolves to the original name).  The encoder attaches a payload and the
	// decoder insists on it: an encoding that bypassed the registered encoder is not decoded to the
	// local type.
	leafKey := errbase.GetTypeKey(local("", errors.New("x")))
	if wrapper {
		errbase.RegisterWrapperEncoder(leafKey, func(_ context.Context, err error) (string, []string, proto.Message) {
			var msg string
			switch w := err.(type) {
			case *MigWOld:
				msg = w.msg
			case *MigWNew:
				msg = w.msg
			case *MigWOther:
				msg = w.msg
			}
			return msg, nil, &errorspb.StringPayload{Msg: "payload of " + msg}
		})
		errbase.RegisterWrapperDecoder(leafKey, func(_ context.Context, cause error, msg string, _ []string, payload proto.Message) error {
			if sp, ok := payload.(*errorspb.StringPayload); !ok || sp.Msg != "payload of "+msg {
				return nil
			}
			return local(msg, cause)
		})
		return local, func() {
			errbase.RegisterWrapperDecoder(leafKey, nil)
			errbase.RegisterWrapperEncoder(leafKey, nil)
			restore()
		}
	}
	errbase.RegisterLeafEncoder(leafKey, func(_ context.Context, err error) (string, []string, proto.Message) {
		return err.Error(), nil, &errorspb.StringPayload{Msg: "payload of " + err.Error()}
	})
	errbase.RegisterLeafDecoder(leafKey, func(_ context.Context, msg string, _ []string, payload proto.Message) error {
		if sp, ok := payload.(*errorspb.StringPayload); !ok || sp.Msg != "payload of "+msg {
			return nil
		}
		return local(msg, nil)
	})
	return local, func() {
		errbase.RegisterLeafDecoder(leafKey, nil)
		errbase.RegisterLeafEncoder(leafKey, nil)
		restore()
	}
}

func runScenario(res *Result, wrapper bool, s, m, r version) {
	res.OracleEvals["C17.scenario"]++
	name := fmt.Sprintf("wrapper=%v sender=%s mid=%s receiver=%s", wrapper, versionNames[s], versionNames[m], versionNames[r])
	cse := &Case{ID: name, Cmd: L(Sym("scenario"), Str(name))}
	origP, origT := fullName(&MigOld{})
	if wrapper {
		origP, origT = fullName(&MigWOld{})
	}
	orig := origP + "/" + origT
	fail := func(what string) {
		res.fail(cse, "C17.scenario", name+": "+what, "C17:scenario:"+what[:min(len(what), 24)])
	}

	defer func() {
		if v := recover(); v != nil {
			fail(fmt.Sprintf("panic %v", v))
		}
	}()
	// sender
	mk, cleanup := setVersion(s, wrapper)
	e0 := mk("the msg", errors.New("cause"))
	w0 := errors.EncodeError(bgCtx, e0)
	cleanup()
	key0 := wireKey(&w0)
	if key0 != orig {
		fail("sender encodes under " + key0)
	}
	// intermediary
	_, cleanup = setVersion(m, wrapper)
	e1 := errors.DecodeError(bgCtx, w0)
	w1 := errors.EncodeError(bgCtx, e1)
	cleanup()
	if k := wireKey(&w1); k != orig {
		fail("intermediary re-encodes under " + k)
	}
	if e1.Error() != e0.Error() {
		fail("text at intermediary")
	}
	// receiver
	mkR, cleanup := setVersion(r, wrapper)
	e2 := errors.DecodeError(bgCtx, w1)
	if e2.Error() != e0.Error() {
		fail("text at receiver")
	}
	if mkR != nil && r != vNoMig {
		want := mkR("the msg", errors.New("cause"))
		if fmt.Sprintf("%T", e2) != fmt.Sprintf("%T", want) {
			fail(fmt.Sprintf("receiver decoded %T want %T", e2, want))
		}
		if !errors.Is(e2, want) {
			fail("Is(received, local equal error) false")
		}
		// a locally built error of the receiver's version, never transferred, vs one that came the long way
		other := mkR("another msg", errors.New("cause"))
		if errors.Is(e2, other) {
			fail("Is matches a different message")
		}
	} else {
		// unknowing receiver: still compares equal to what another unknowing process got directly
		direct := errors.DecodeError(bgCtx, w0)
		if !errors.Is(e2, direct) {
			fail("Is(received via intermediary, received directly) false at unknowing receiver")
		}
	}
	cleanup()
}

func wireKey(e *errbase.EncodedError) string {
	if w := e.GetWrapper(); w != nil {
		return w.Details.ErrorTypeMark.FamilyName
	}
	return e.GetLeaf().Details.ErrorTypeMark.FamilyName
}
