package main

import (
	"github.com/cockroachdb/errors"
	pkgErrors "github.com/pkg/errors"
)

// Origins whose source file name, as the Go runtime reports it, contains a colon (a Windows drive
// letter, a //line directive of a code generator): everything that prints a frame as file:line and
// reads it back must split at the LAST colon.

//go:noinline
func c16ColonOrigin() error {
//line C:/gen/rules.opt:700
	return errors.New("colon origin")
}

//go:noinline
func c16ColonPkgOrigin() error {
//line gen:rules.opt:41
	return pkgErrors.New("colon pkg origin")
}
