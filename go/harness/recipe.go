package main

import (
	"context"
	goErr "errors"
	"fmt"
	"io/fs"
	"os"
	"strings"
	"syscall"

	"github.com/cockroachdb/errors"
	"github.com/cockroachdb/errors/barriers"
	"github.com/cockroachdb/errors/errbase"
	"github.com/cockroachdb/errors/errorspb"
	"github.com/cockroachdb/errors/extgrpc"
	"github.com/cockroachdb/errors/exthttp"
	"github.com/cockroachdb/errors/join"
	"github.com/cockroachdb/logtags"
	"github.com/cockroachdb/redact"
	"github.com/gogo/protobuf/proto"
	pkgErr "github.com/pkg/errors"
	gogostatus "github.com/gogo/status"
	"google.golang.org/grpc/codes"
	grpcstatus "google.golang.org/grpc/status"
)

// FrameRec is one captured stack frame: its PC and its `%+v` text.
type FrameRec struct {
	PC  uintptr
	Txt string
}

// R is a recipe node.  The generator fills Op/In/NIn/K; the builder fills the
// derived fields S/N/St that the model consumes (redact/fmt results, frames).
type R struct {
	Op  string
	ID  int
	In  []string // raw string inputs (messages, formats' results are derived)
	NIn []int
	K   []*R
	// derived (sent to the model)
	S  []string
	N  []int
	St []FrameRec
	// unsafe argument of format-style constructors (nil = none)
	Arg *string
	// F: use the format-style constructor even without an argument (Newf(f), Wrapf(err, f),
	// WithHintf(err, f) ...): the text is then the formatted one ("%%" collapses, a stray verb
	// prints %!v(MISSING))
	F bool
	// the real error built for this node (not serialised)
	built error
}

func (r *R) ToSX() SX {
	if r == nil || r.Op == "nil" {
		return L(Sym("nil"))
	}
	ns := make([]SX, len(r.N))
	for i, n := range r.N {
		ns[i] = Nat(n)
	}
	st := make([]SX, len(r.St))
	for i, f := range r.St {
		st[i] = L(Nat(int(f.PC)), Str(f.Txt))
	}
	ks := make([]SX, len(r.K))
	for i, k := range r.K {
		ks[i] = k.ToSX()
	}
	return L(Sym(r.Op), Nat(r.ID), Strs(r.S), L(ns...), L(st...), L(ks...))
}

// Size is the number of recipe nodes.
func (r *R) Size() int {
	if r == nil {
		return 0
	}
	n := 1
	for _, k := range r.K {
		n += k.Size()
	}
	return n
}

func (r *R) Depth() int {
	if r == nil {
		return 0
	}
	d := 0
	for _, k := range r.K {
		if x := k.Depth(); x > d {
			d = x
		}
	}
	return d + 1
}

// ---------------------------------------------------------------------
// stdlib sentinels with reserved model identities

type sentinel struct {
	id  int
	err error
}

var sentinels = []sentinel{
	{1, context.Canceled},
	{2, os.ErrInvalid},
	{3, os.ErrPermission},
	{4, os.ErrExist},
	{5, os.ErrNotExist},
	{6, os.ErrClosed},
	{7, os.ErrNoDeadline},
	{8, fs.ErrInvalid}, // same object as os.ErrInvalid: kept out of the pool, listed for documentation
	{9, goErr.ErrUnsupported},
}

func sentinelByID(id int) error {
	for _, s := range sentinels {
		if s.id == id {
			return s.err
		}
	}
	panic("no sentinel")
}

// ---------------------------------------------------------------------
// building

func safeEq(a, b error) (eq bool) {
	defer func() {
		if recover() != nil {
			eq = false
		}
	}()
	return a == b
}

func framesOf(st errbase.StackTrace) []FrameRec {
	out := make([]FrameRec, len(st))
	for i, f := range st {
		out[i] = FrameRec{PC: uintptr(f), Txt: fmt.Sprintf("%+v", f)}
	}
	return out
}

// newStack finds the stack captured by the layers of res above stopAt.
func newStack(res, stopAt error) []FrameRec {
	for c := res; c != nil && !safeEq(c, stopAt); c = errbase.UnwrapOnce(c) {
		if sp, ok := c.(errbase.StackTraceProvider); ok {
			return framesOf(sp.StackTrace())
		}
		if len(errbase.UnwrapMulti(c)) > 0 {
			break
		}
	}
	return nil
}

type buildPanic struct{ v interface{} }

// Build constructs the real error for a recipe, filling the derived fields.
// A panic inside a constructor is reported as (nil, &buildPanic).
func Build(r *R) (err error, bp *buildPanic) {
	defer func() {
		if v := recover(); v != nil {
			err, bp = nil, &buildPanic{v}
		}
	}()
	return build(r), nil
}

func fmtArgs(r *R) []interface{} {
	if r.Arg == nil {
		return nil
	}
	return []interface{}{*r.Arg}
}

func in(r *R, i int) string {
	if i < len(r.In) {
		return r.In[i]
	}
	return ""
}
func nin(r *R, i int) int {
	if i < len(r.NIn) {
		return r.NIn[i]
	}
	return 0
}

func b2i(b bool) int {
	if b {
		return 1
	}
	return 0
}

func build(r *R) error {
	if r == nil || r.Op == "nil" {
		return nil
	}
	ks := make([]error, len(r.K))
	for i, k := range r.K {
		ks[i] = build(k)
	}
	var k0 error
	if len(ks) > 0 {
		k0 = ks[0]
	}
	r.S, r.N, r.St = nil, nil, nil
	var res error
	switch r.Op {
	// ---- leaves
	case "goerr":
		res = goErr.New(in(r, 0))
		r.S = []string{in(r, 0)}
	case "sentinel":
		res = sentinelByID(nin(r, 0))
		r.S = []string{res.Error()}
		r.N = []int{nin(r, 0)}
	case "deadline":
		res = context.DeadlineExceeded
	case "errno":
		e := syscall.Errno(nin(r, 0))
		res = e
		r.S = []string{e.Error()}
		r.N = []int{nin(r, 0), b2i(e.Is(os.ErrPermission)), b2i(e.Is(os.ErrExist)), b2i(e.Is(os.ErrNotExist)),
			b2i(e.Timeout()), b2i(e.Temporary())}
	case "pkgnew":
		res = pkgErr.New(in(r, 0))
		r.S = []string{in(r, 0)}
		r.St = newStack(res, nil)
	case "unimpl":
		res = errors.UnimplementedError(errors.IssueLink{IssueURL: in(r, 1), Detail: in(r, 2)}, in(r, 0))
		r.S = []string{in(r, 0), in(r, 1), in(r, 2)}
	case "testerr":
		res = &errorspb.TestError{}
	case "grpcstatus":
		res = grpcstatus.Error(codes.Code(nin(r, 0)), in(r, 0))
		r.S = []string{in(r, 0)}
		r.N = []int{nin(r, 0)}
	case "gogostatus":
		res = gogostatus.Error(codes.Code(nin(r, 0)), in(r, 0))
		r.S = []string{in(r, 0)}
		r.N = []int{nin(r, 0)}
	case "uleaf":
		res = mkUserLeaf(r)
	case "new":
		// In[0] = message or format; Arg = optional unsafe argument
		if r.Arg == nil && !r.F {
			res = errors.New(in(r, 0))
			r.S = []string{string(redact.Sprint(redact.Safe(in(r, 0))))}
		} else {
			res = errors.Newf(in(r, 0), fmtArgs(r)...)
			r.S = []string{string(redact.Sprintf(in(r, 0), fmtArgs(r)...))}
		}
		r.St = newStack(res, nil)
	case "assertionfailedf":
		res = errors.AssertionFailedf(in(r, 0), fmtArgs(r)...)
		r.S = []string{string(redact.Sprintf(in(r, 0), fmtArgs(r)...))}
		r.St = newStack(res, nil)
	// ---- wrappers
	case "wrap":
		if r.Arg == nil && !r.F {
			res = errors.Wrap(k0, in(r, 0))
			r.S = []string{string(redact.Sprint(redact.Safe(in(r, 0))))}
			r.N = []int{b2i(in(r, 0) != "")}
		} else {
			res = errors.Wrapf(k0, in(r, 0), fmtArgs(r)...)
			r.S = []string{string(redact.Sprintf(in(r, 0), fmtArgs(r)...))}
			r.N = []int{b2i(in(r, 0) != "" || r.Arg != nil)}
		}
		r.St = newStack(res, k0)
	case "withmessage":
		if r.Arg == nil && !r.F {
			res = errors.WithMessage(k0, in(r, 0))
			r.S = []string{string(redact.Sprint(redact.Safe(in(r, 0))))}
		} else {
			res = errors.WithMessagef(k0, in(r, 0), fmtArgs(r)...)
			r.S = []string{string(redact.Sprintf(in(r, 0), fmtArgs(r)...))}
		}
	case "withstack":
		res = errors.WithStack(k0)
		r.St = newStack(res, k0)
	case "hint":
		if r.Arg == nil && !r.F {
			res = errors.WithHint(k0, in(r, 0))
			r.S = []string{in(r, 0)}
		} else {
			res = errors.WithHintf(k0, in(r, 0), fmtArgs(r)...)
			r.S = []string{fmt.Sprintf(in(r, 0), fmtArgs(r)...)}
		}
	case "detail":
		if r.Arg == nil && !r.F {
			res = errors.WithDetail(k0, in(r, 0))
			r.S = []string{in(r, 0)}
		} else {
			res = errors.WithDetailf(k0, in(r, 0), fmtArgs(r)...)
			r.S = []string{fmt.Sprintf(in(r, 0), fmtArgs(r)...)}
		}
	case "issuelink":
		res = errors.WithIssueLink(k0, errors.IssueLink{IssueURL: in(r, 0), Detail: in(r, 1)})
		r.S = []string{in(r, 0), in(r, 1)}
	case "telemetry":
		res = errors.WithTelemetry(k0, append([]string{}, r.In...)...) // a private copy: the library keeps the variadic slice
		r.S = append([]string{}, r.In...)
	case "domain":
		res = errors.WithDomain(k0, errors.Domain(in(r, 0)))
		r.S = []string{in(r, 0)}
	case "tags":
		// In = k1,v1,k2,v2,...; NIn[i] = kind of value i: 0 plain string, 1 Safe(value), 2 nil
		ctx := context.Background()
		var kv []string
		for i := 0; i+1 < len(r.In); i += 2 {
			var val interface{} = r.In[i+1]
			switch nin(r, i/2) {
			case 1:
				val = errors.Safe(r.In[i+1])
			case 2:
				val = nil
			}
			ctx = logtags.AddTag(ctx, r.In[i], val)
		}
		res = errors.WithContextTags(k0, ctx)
		var kinds []int
		if b := logtags.FromContext(ctx); b != nil {
			for _, t := range b.Get() {
				kv = append(kv, t.Key(), t.ValueStr())
				switch t.Value().(type) {
				case nil:
					kinds = append(kinds, 2)
				case redact.SafeValue:
					kinds = append(kinds, 1)
				default:
					kinds = append(kinds, 0)
				}
			}
		}
		r.S, r.N = kv, kinds
	case "assertion":
		res = errors.WithAssertionFailure(k0)
	case "safedetails":
		res = errors.WithSafeDetails(k0, in(r, 0), fmtArgs(r)...)
		if in(r, 0) == "" && r.Arg == nil {
			r.N = []int{0}
		} else {
			r.N = []int{1}
			r.S = []string{redact.Sprintf(in(r, 0), fmtArgs(r)...).Redact().StripMarkers()}
		}
	case "http":
		res = exthttp.WrapWithHTTPCode(k0, nin(r, 0))
		r.N = []int{nin(r, 0)}
	case "grpc":
		res = extgrpc.WrapWithGrpcCode(k0, codes.Code(nin(r, 0)))
		r.N = []int{nin(r, 0)}
	case "pkgwithmessage":
		res = pkgErr.WithMessage(k0, in(r, 0))
		r.S = []string{in(r, 0)}
	case "pkgwithstack":
		res = pkgErr.WithStack(k0)
		r.St = newStack(res, k0)
	case "patherr":
		res = &os.PathError{Op: in(r, 0), Path: in(r, 1), Err: k0}
		r.S = []string{in(r, 0), in(r, 1)}
	case "linkerr":
		res = &os.LinkError{Op: in(r, 0), Old: in(r, 1), New: in(r, 2), Err: k0}
		r.S = []string{in(r, 0), in(r, 1), in(r, 2)}
	case "syscallerr":
		res = os.NewSyscallError(in(r, 0), k0)
		r.S = []string{in(r, 0)}
	case "fmterrorf":
		// In[0] is a prefix; the format is prefix + ": %w" or a full-message style
		lit := strings.ReplaceAll(in(r, 0), "%", "%%")
		switch nin(r, 0) {
		case 0:
			res = fmt.Errorf(lit+": %w", k0)
		case 1:
			res = fmt.Errorf("%w - "+lit, k0)
		default:
			res = fmt.Errorf("%w", k0)
		}
		r.S = []string{res.Error()}
	case "uwrap":
		res = mkUserWrap(r, k0)
	case "mark":
		res = errors.Mark(k0, ks[1])
		if hopStreamsOff && ks[1] != nil {
			// a reference that is itself a Mark contributes its stored mark: follow it
			node := r.K[1]
			for node.Op == "mark" && len(node.K) == 2 && node.K[1].built != nil {
				node = node.K[1]
			}
			if node.built != nil {
				r.S = []string{node.built.Error()}
			}
		}
	case "secondary":
		res = errors.WithSecondaryError(k0, ks[1])
	case "combine":
		res = errors.CombineErrors(k0, ks[1])
	case "handled":
		// NIn[0]: 0 = Handled, 1 = HandledWithMessage(In[0]), 2 = HandledWithMessagef(In[0], Arg)
		switch nin(r, 0) {
		case 0:
			res = errors.Handled(k0)
			if k0 != nil {
				r.S = []string{string(redact.Sprint(k0))}
			}
		case 1:
			res = errors.HandledWithMessage(k0, in(r, 0))
			r.S = []string{string(redact.Sprint(in(r, 0)))}
		default:
			res = barriers.HandledWithMessagef(k0, in(r, 0), fmtArgs(r)...)
			r.S = []string{string(redact.Sprintf(in(r, 0), fmtArgs(r)...))}
		}
	case "handledindomain":
		if nin(r, 0) == 0 {
			res = errors.HandledInDomain(k0, errors.Domain(in(r, 0)))
			r.S = []string{in(r, 0), ""}
			if k0 != nil {
				r.S[1] = string(redact.Sprint(k0))
			}
		} else {
			res = errors.HandledInDomainWithMessage(k0, errors.Domain(in(r, 0)), in(r, 1))
			r.S = []string{in(r, 0), string(redact.Sprint(in(r, 1)))}
		}
	case "handleasassertion":
		res = errors.HandleAsAssertionFailure(k0)
		if k0 != nil {
			r.S = []string{string(redact.Sprint(k0))}
		}
		r.St = newStack(res, nil)
	case "newassertionwrapped":
		res = errors.NewAssertionErrorWithWrappedErrf(k0, in(r, 0), fmtArgs(r)...)
		if k0 != nil {
			r.S = []string{string(redact.Sprint(k0)), string(redact.Sprintf(in(r, 0), fmtArgs(r)...))}
		}
		r.N = []int{b2i(in(r, 0) != "" || r.Arg != nil)}
		r.St = newStack(res, nil)
	case "newfe":
		// Newf(In[0] + " %v"*, errs...) : error arguments, no %w
		args := make([]interface{}, len(ks))
		for i, e := range ks {
			args[i] = e
		}
		res = errors.Newf(in(r, 0), args...)
		rs, _ := redact.HelperForErrorf(in(r, 0), args...)
		r.S = []string{string(rs)}
		r.St = newStack(res, nil)
	case "newfw":
		args := make([]interface{}, len(ks))
		for i, e := range ks {
			args[i] = e
		}
		res = errors.Newf(in(r, 0), args...)
		rs, _ := redact.HelperForErrorf(in(r, 0), args...)
		r.S = []string{string(rs)}
		r.St = newStack(res, nil)
	case "wrapfe":
		args := make([]interface{}, len(ks)-1)
		for i, e := range ks[1:] {
			args[i] = e
		}
		res = errors.Wrapf(k0, in(r, 0), args...)
		r.S = []string{string(redact.Sprintf(in(r, 0), args...))}
		r.St = newStack(res, k0)
	// ---- multi
	case "join":
		res = errors.Join(ks...)
		r.St = newStack(res, nil)
	case "joinraw":
		res = join.Join(ks...)
	case "stdjoin":
		res = goErr.Join(ks...)
	case "fmterrorfs":
		format := strings.ReplaceAll(in(r, 0), "%", "%%")
		args := make([]interface{}, 0, len(ks))
		for _, e := range ks {
			format += " %w"
			args = append(args, e)
		}
		res = fmt.Errorf(format, args...)
		r.S = []string{res.Error()}
	case "umulti":
		res = mkUserMulti(r, ks)
	// ---- environment
	case "hop":
		res = hopReal(k0, r.In)
		r.S = append([]string{}, r.In...)
	default:
		panic("unknown op " + r.Op)
	}
	r.built = res
	return res
}

var bgCtx = context.Background()

// wireRoundTrip = EncodeError -> proto bytes -> EncodedError.
func wireRoundTrip(e error) *errorspb.EncodedError {
	enc := errors.EncodeError(bgCtx, e)
	bs, err := proto.Marshal(&enc)
	if err != nil {
		panic(fmt.Sprintf("marshal: %v", err))
	}
	var back errorspb.EncodedError
	if err := proto.Unmarshal(bs, &back); err != nil {
		panic(fmt.Sprintf("unmarshal: %v", err))
	}
	return &back
}

// hopReal moves an error to a process that lacks the given families.
func hopReal(e error, unknown []string) error {
	back := wireRoundTrip(e)
	renameUnknown(back, nil, true)
	if len(unknown) > 0 {
		u := map[string]bool{}
		for _, k := range unknown {
			u[k] = true
		}
		renameUnknown(back, u, false)
	}
	return errors.DecodeError(bgCtx, *back)
}
