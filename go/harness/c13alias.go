package main

import (
	goErr "errors"
	"fmt"

	"github.com/cockroachdb/errors"
	"github.com/cockroachdb/errors/join"
)

// Join called in spread form on a caller-owned slice: the joined error must not follow what the
// caller does to that slice afterwards (the standard library's Join copies; C10: Error() is the
// branch messages joined by newlines; C13: branch count, order, content; C14: same answers as the
// standard library).  Table-driven, model-free.
func oracleJoinAliasing(res *Result, prop string) {
	c := &Case{ID: "join-aliasing", Cmd: L(Sym("join-aliasing"))}
	a, b, x := goErr.New("a"), errors.New("b"), goErr.New("c")
	for _, ctor := range []struct {
		name string
		f    func(errs []error) error
	}{
		{"errors.Join", func(errs []error) error { return errors.Join(errs...) }},
		{"join.Join", func(errs []error) error { return join.Join(errs...) }},
		{"errors.JoinWithDepth", func(errs []error) error { return errors.JoinWithDepth(0, errs...) }},
		{"Wrap(errors.Join)", func(errs []error) error { return errors.Wrap(errors.Join(errs...), "w") }},
	} {
		for _, edit := range []struct {
			name string
			f    func(errs []error) []error
		}{
			{"errs[0] = c", func(errs []error) []error { errs[0] = x; return errs }},
			{"errs[1] = nil", func(errs []error) []error { errs[1] = nil; return errs }},
			{"append(errs[:0], c)", func(errs []error) []error { return append(errs[:0], x) }},
			{"append(errs, c) within capacity", func(errs []error) []error { return append(errs, x) }},
		} {
			errs := make([]error, 2, 4)
			errs[0], errs[1] = a, b
			std := goErr.Join(errs...)
			j := ctor.f(errs)
			if j == nil {
				continue
			}
			text0 := j.Error()
			tree0 := treeSX(j).String()
			_ = edit.f(errs)
			res.OracleEvals[prop+".join_aliasing"]++
			var text1, tree1 string
			var isA, isX, stdA, stdX bool
			if ok, pv := catch(func() {
				text1, tree1 = j.Error(), treeSX(j).String()
				isA, isX = errors.Is(j, a), errors.Is(j, x)
				stdA, stdX = goErr.Is(std, a), goErr.Is(std, x)
			}); !ok {
				res.fail(c, prop+".join_aliasing", fmt.Sprintf("%s, then %s: panics: %v", ctor.name, edit.name, pv), prop+":join-aliasing:panic")
				continue
			}
			if text1 != text0 || tree1 != tree0 {
				res.fail(c, prop+".join_aliasing", fmt.Sprintf("%s(errs...), then %s: the joined error changed from %q to %q", ctor.name, edit.name, text0, text1), prop+":join-aliasing:text")
				continue
			}
			if isA != stdA || isX != stdX {
				res.fail(c, prop+".join_aliasing", fmt.Sprintf("%s(errs...), then %s: Is(j,a)=%v Is(j,c)=%v, the standard library's Join answers %v %v", ctor.name, edit.name, isA, isX, stdA, stdX), prop+":join-aliasing:is")
			}
		}
	}
}
