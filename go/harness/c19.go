package main

import (
	"fmt"
	"sort"
	"strings"

	"github.com/cockroachdb/errors"
	"github.com/cockroachdb/errors/issuelink"
	"github.com/cockroachdb/errors/stdstrings"
)

// C19: independent model of hint/detail/link/key/tag aggregation, computed from the
// recipe alone (outermost first list of the visible single-cause spine).

type layerInfo struct {
	hint   *string
	detail *string
	link   *[2]string
	keys   []string
	tags   [][2]string
	isTags bool
}

// spine returns the annotation layers of the visible single-cause chain, outermost first.
func spine(r *R) []layerInfo {
	if r == nil || r.built == nil {
		return nil
	}
	str := func(s string) *string { return &s }
	refHint := func(pre, url string) *string {
		if url != "" {
			if pre != "" {
				pre += "\n"
			}
			return str(pre + "See: " + url)
		}
		return str(pre + stdstrings.IssueReferral)
	}
	assertion := layerInfo{hint: str("You have encountered an unexpected error." + stdstrings.IssueReferral)}
	kid := func() []layerInfo {
		if len(r.K) == 0 {
			return nil
		}
		return spine(r.K[0])
	}
	switch r.Op {
	case "hint":
		return append([]layerInfo{{hint: str(fmtOf(r))}}, kid()...)
	case "detail":
		return append([]layerInfo{{detail: str(fmtOf(r))}}, kid()...)
	case "issuelink":
		l := [2]string{in(r, 0), in(r, 1)}
		return append([]layerInfo{{hint: refHint("", in(r, 0)), link: &l}}, kid()...)
	case "unimpl":
		l := [2]string{in(r, 1), in(r, 2)}
		return []layerInfo{{hint: refHint(issuelink.UnimplementedErrorHint, in(r, 1)), link: &l}}
	case "telemetry":
		return append([]layerInfo{{keys: r.In}}, kid()...)
	case "tags":
		if len(r.In) == 0 {
			return kid()
		}
		var ts [][2]string
		for i := 0; i+1 < len(r.In); i += 2 {
			v := r.In[i+1]
			if nin(r, i/2) == 2 {
				v = "" // a nil tag value has the empty string form
			}
			ts = append(ts, [2]string{r.In[i], v})
		}
		return append([]layerInfo{{tags: ts, isTags: true}}, kid()...)
	case "assertion":
		return append([]layerInfo{assertion}, kid()...)
	case "assertionfailedf":
		return []layerInfo{assertion}
	case "handleasassertion", "newassertionwrapped":
		return []layerInfo{assertion} // the wrapped error is behind a barrier
	case "combine":
		if r.K[0] == nil || r.K[0].built == nil {
			return spine(r.K[1])
		}
		return kid()
	case "handled", "handledindomain", "join", "joinraw", "stdjoin", "fmterrorfs", "umulti", "newfe":
		return nil // barrier / multi-cause / leaf: the chain ends here
	case "hop", "wrap", "withmessage", "withstack", "domain", "safedetails", "http", "grpc", "pkgwithmessage",
		"pkgwithstack", "patherr", "linkerr", "syscallerr", "fmterrorf", "uwrap", "mark", "secondary", "newfw", "wrapfe":
		return kid()
	}
	return nil // leaves
}

func oracleC19(res *Result, c *Case) {
	for _, n := range nodesOf(c.Rec, nil) {
		if n.built == nil {
			continue
		}
		sp := spine(n)
		e := n.built
		// hints: innermost first, empty skipped, first occurrence wins
		var hints []string
		seen := map[string]bool{}
		var details []string
		for i := len(sp) - 1; i >= 0; i-- {
			if h := sp[i].hint; h != nil && *h != "" && !seen[*h] {
				seen[*h] = true
				hints = append(hints, *h)
			}
			if d := sp[i].detail; d != nil && *d != "" {
				details = append(details, *d)
			}
		}
		res.OracleEvals["C19.hints"]++
		if got := errors.GetAllHints(e); strings.Join(got, "\x00") != strings.Join(hints, "\x00") {
			res.fail(c, "C19.hints", fmt.Sprintf("op %s: got %q want %q", n.Op, got, hints), "C19:hints")
		}
		if got := errors.FlattenHints(e); got != strings.Join(hints, "\n--\n") {
			res.fail(c, "C19.flatten", fmt.Sprintf("FlattenHints %q", got), "C19:flatten-hints")
		}
		res.OracleEvals["C19.details"]++
		if got := errors.GetAllDetails(e); strings.Join(got, "\x00") != strings.Join(details, "\x00") {
			res.fail(c, "C19.details", fmt.Sprintf("op %s: got %q want %q", n.Op, got, details), "C19:details")
		}
		if got := errors.FlattenDetails(e); got != strings.Join(details, "\n--\n") {
			res.fail(c, "C19.flatten", fmt.Sprintf("FlattenDetails %q", got), "C19:flatten-details")
		}
		// links and tags: outermost first; keys: set union
		var links []string
		var tags []string
		keys := map[string]bool{}
		for _, l := range sp {
			if l.link != nil {
				links = append(links, l.link[0]+"\x01"+l.link[1])
			}
			if l.isTags {
				var ts []string
				for _, t := range l.tags {
					ts = append(ts, t[0]+"="+t[1])
				}
				tags = append(tags, strings.Join(ts, ","))
			}
			for _, k := range l.keys {
				keys[k] = true
			}
		}
		res.OracleEvals["C19.links"]++
		var gotLinks []string
		for _, l := range errors.GetAllIssueLinks(e) {
			gotLinks = append(gotLinks, l.IssueURL+"\x01"+l.Detail)
		}
		if strings.Join(gotLinks, "\x00") != strings.Join(links, "\x00") {
			res.fail(c, "C19.links", fmt.Sprintf("got %q want %q", gotLinks, links), "C19:links")
		}
		res.OracleEvals["C19.tags"]++
		var gotTags []string
		for _, b := range errors.GetContextTags(e) {
			var ts []string
			for _, t := range b.Get() {
				ts = append(ts, t.Key()+"="+t.ValueStr())
			}
			gotTags = append(gotTags, strings.Join(ts, ","))
		}
		if strings.Join(gotTags, "\x00") != strings.Join(tags, "\x00") {
			res.fail(c, "C19.tags", fmt.Sprintf("got %q want %q", gotTags, tags), "C19:tags")
		}
		res.OracleEvals["C19.keys"]++
		gotKeys := errors.GetTelemetryKeys(e)
		sort.Strings(gotKeys)
		var wantKeys []string
		for k := range keys {
			wantKeys = append(wantKeys, k)
		}
		sort.Strings(wantKeys)
		if strings.Join(gotKeys, "\x00") != strings.Join(wantKeys, "\x00") {
			res.fail(c, "C19.keys", fmt.Sprintf("got %q want %q", gotKeys, wantKeys), "C19:keys")
		}
	}
}
