//go:build verif

package main

import "github.com/cockroachdb/errors/errbase"

// registeredKeys reads the live registries through the verif hook.
func registeredKeys() map[string][]string { return errbase.VerifRegisteredKeys() }
