package main

import (
	"fmt"
	"reflect"
	"strings"

	"github.com/cockroachdb/errors"
	"github.com/cockroachdb/errors/errbase"
	"github.com/cockroachdb/errors/errorspb"
	"github.com/gogo/protobuf/types"
)

// Direct oracles: the property predicate evaluated on the REAL observations
// only (no model involved).  A failure here is a concrete failing input.

func field(x SX, name string) SX {
	f, ok := x.Field(name)
	if !ok || len(f.L) < 2 {
		return SX{}
	}
	return f.L[1]
}

// stripTypes removes the %T component of a tree: (N text tstr kids) -> (N text kids)
func stripTypes(t SX) SX {
	if t.Kind != 'l' || len(t.L) != 4 {
		return t
	}
	kids := make([]SX, len(t.L[3].L))
	for i, k := range t.L[3].L {
		kids[i] = stripTypes(k)
	}
	return L(Sym("N"), t.L[1], L(kids...))
}

func isPanic(x SX) bool {
	return x.Kind == 'l' && len(x.L) == 1 && x.L[0].Kind == 'y' && x.L[0].Sym == "panic"
}

func outerOp(c *Case) string {
	if c.Rec == nil {
		return "nil"
	}
	return c.Rec.Op
}

func runOracles(res *Result, prop string, c *Case) {
	if c.Real.Kind != 'l' || len(c.Real.L) < 2 {
		return
	}
	if f := c.Real.L[1]; f.Kind == 'l' && len(f.L) == 1 && (f.L[0].Sym == "nil" || f.L[0].Sym == "panic") {
		return
	}
	switch prop {
	case "C01":
		oracleC01(res, c)
	case "C08":
		oracleC08(res, c)
	case "C02":
		oracleC02(res, c)
	case "C10":
		oracleC10(res, c)
		oracleAliases(res, c, "C10")
	case "C13":
		oracleC13(res, c)
		if c.Err != nil {
			h1, ok1 := hopsReal(c.Err, 1)
			h3, ok3 := hopsReal(c.Err, 3)
			if ok1 && ok3 {
				oracleLayerRefs(res, c, "C13", c.Err, h1, h3)
			}
		}
	case "C19":
		oracleC19(res, c)
	case "C11":
		oracleC11(res, c)
		oracleDomainAPI(res, c, "C11")
	case "C07":
		oracleC07(res, c)
		oracleAliases(res, c, "C07")
	case "C04":
		oracleC04(res, c)
	case "C14":
		oracleC14(res, c)
		oracleC14Methods(res, c)
		oracleHasInterface(res, c, "C14")
	case "C03":
		oracleC03(res, c)
	case "C12":
		oracleC12(res, c)
	case "C06":
		oracleC06(res, c)
	case "C09":
		oracleC09(res, c, len(c.ID))
	case "C15":
		oracleC15(res, c)
		oracleReportError(res, c, "C15")
	}
}

// C01: tree and text at every node identical after 1 and 3 hops; no drift from hop 1 on.
func oracleC01(res *Result, c *Case) {
	res.OracleEvals["C01.shape_text_1hop"]++
	t0 := stripTypes(field(c.Real, "tree"))
	t1 := field(c.Real, "h1tree")
	t3 := field(c.Real, "h3tree")
	if isPanic(t1) || isPanic(t3) {
		res.fail(c, "C01.no_panic", "a hop panicked", "C01:panic:"+outerOp(c))
		return
	}
	if stripTypes(t1).String() != t0.String() {
		res.fail(c, "C01.shape_text_1hop", fmt.Sprintf("before %s after %s", t0, stripTypes(t1)), "C01:shape1:"+outerOp(c))
	}
	res.OracleEvals["C01.shape_text_3hops"]++
	if stripTypes(t3).String() != t0.String() {
		res.fail(c, "C01.shape_text_3hops", fmt.Sprintf("before %s after %s", t0, stripTypes(t3)), "C01:shape3:"+outerOp(c))
	}
	res.OracleEvals["C01.no_drift"]++
	e1, e2 := field(c.Real, "h1enc"), field(c.Real, "h2enc")
	if e1.String() != e2.String() {
		res.fail(c, "C01.no_drift", fmt.Sprintf("hop1 %s hop2 %s", e1, e2), "C01:drift:"+outerOp(c))
	}
}

// ---------------------------------------------------------------------
// C08: independent reference implementation of the documented equivalence.

type refMark struct {
	msg string
	tys []errorspb.ErrorTypeMark
}

// markOf computes the mark of a node through the public API only.
func markOf(e error) refMark {
	if fmt.Sprintf("%T", e) == "*markers.withMark" {
		enc := errors.EncodeError(bgCtx, e)
		if w := enc.GetWrapper(); w != nil && w.Details.FullDetails != nil {
			var mp errorspb.MarkPayload
			if err := types.UnmarshalAny(w.Details.FullDetails, &mp); err == nil {
				return refMark{mp.Msg, mp.Types}
			}
		}
	}
	m := refMark{msg: e.Error()}
	for c := e; c != nil; c = errbase.UnwrapOnce(c) {
		m.tys = append(m.tys, errbase.GetTypeMark(c))
	}
	return m
}

func markEquivRef(a, b refMark) bool {
	if a.msg != b.msg || len(a.tys) != len(b.tys) {
		return false
	}
	for i := range a.tys {
		if a.tys[i].FamilyName != b.tys[i].FamilyName || a.tys[i].Extension != b.tys[i].Extension {
			return false
		}
	}
	return true
}

// refIs: some layer reachable from e (single-cause chain; branches of multi-cause
// nodes, recursively) is identical to r, says so through its own Is method, or has
// an equivalent mark.
func refIs(e, r error) bool {
	if r == nil {
		return e == nil
	}
	if e == nil {
		return false
	}
	rm := markOf(r)
	cmp := reflect.TypeOf(r).Comparable()
	var walk func(e error) bool
	walk = func(e error) bool {
		for c := e; c != nil; c = errbase.UnwrapOnce(c) {
			if cmp && safeEq(c, r) {
				return true
			}
			if x, ok := c.(interface{ Is(error) bool }); ok && x.Is(r) {
				return true
			}
			if markEquivRef(markOf(c), rm) {
				return true
			}
			for _, b := range errbase.UnwrapMulti(c) {
				if walk(b) {
					return true
				}
			}
		}
		return false
	}
	return walk(e)
}

func refClass(c *Case, i int) string {
	if i < len(c.RefRecs) && c.RefRecs[i] != nil {
		return "tree"
	}
	return "node"
}

func oracleC08(res *Result, c *Case) {
	e := c.Err
	// totality + agreement with the reference equivalence
	for i, r := range c.Refs {
		res.OracleEvals["C08.is_vs_reference"]++
		var got bool
		ok, pv := catch(func() { got = errors.Is(e, r) })
		want := refIs(e, r)
		if !ok {
			res.fail(c, "C08.total", fmt.Sprintf("Is(e, ref %d) panicked: %v (reference says %v)", i, pv, want), "C08:is-panic")
			continue
		}
		if got != want {
			sig := "C08:is-false-positive"
			if want {
				sig = "C08:is-false-negative"
			}
			res.fail(c, "C08.is_vs_reference", fmt.Sprintf("Is(e, ref %d)=%v reference=%v", i, got, want), sig)
		}
		// symmetric use: the reference as subject
		res.OracleEvals["C08.is_vs_reference_swapped"]++
		var got2 bool
		ok2, pv2 := catch(func() { got2 = errors.Is(r, e) })
		want2 := refIs(r, e)
		if !ok2 {
			res.fail(c, "C08.total", fmt.Sprintf("Is(ref %d, e) panicked: %v (reference says %v)", i, pv2, want2), "C08:is-panic")
		} else if got2 != want2 {
			sig := "C08:is-false-positive"
			if want2 {
				sig = "C08:is-false-negative"
			}
			res.fail(c, "C08.is_vs_reference", fmt.Sprintf("Is(ref %d, e)=%v reference=%v", i, got2, want2), sig)
		}
	}
	// reflexive
	res.OracleEvals["C08.reflexive"]++
	var rf bool
	if ok, pv := catch(func() { rf = errors.Is(e, e) }); !ok || !rf {
		res.fail(c, "C08.reflexive", fmt.Sprintf("Is(e,e)=%v panic=%v", rf, pv), "C08:reflexive")
	}
	// IsAny = disjunction
	res.OracleEvals["C08.isany"]++
	anyWant, anyPanic := false, false
	for _, r := range c.Refs {
		ok, _ := catch(func() {
			if errors.Is(e, r) {
				anyWant = true
			}
		})
		if !ok {
			anyPanic = true
		}
	}
	var anyGot bool
	ok, pv := catch(func() { anyGot = errors.IsAny(e, c.Refs...) })
	if !ok {
		if !anyPanic {
			res.fail(c, "C08.isany", fmt.Sprintf("IsAny panicked: %v", pv), "C08:isany-panic")
		}
	} else if !anyPanic && anyGot != anyWant {
		res.fail(c, "C08.isany", fmt.Sprintf("IsAny=%v disjunction=%v", anyGot, anyWant), "C08:isany")
	}
	// ... for reference lists without identity matches, in both orders
	for k, sl := range refSublists(c.Refs) {
		res.OracleEvals["C08.isany_sublists"]++
		want, pan := false, false
		for _, r := range sl {
			if ok, _ := catch(func() {
				if errors.Is(e, r) {
					want = true
				}
			}); !ok {
				pan = true
			}
		}
		var got bool
		if ok, _ := catch(func() { got = errors.IsAny(e, sl...) }); ok && !pan && got != want {
			res.fail(c, "C08.isany", fmt.Sprintf("IsAny over reference sublist %d (%d references) = %v, the disjunction of Is is %v", k, len(sl), got, want), "C08:isany-sublist")
		}
	}
	// nil
	res.OracleEvals["C08.nil"]++
	if errors.Is(nil, e) || !errors.Is(nil, nil) || errors.Is(e, nil) {
		res.fail(c, "C08.nil", "Is with nil", "C08:nil")
	}
	// monotone: every single-cause wrapper on top keeps the matches of its cause
	if k := errbase.UnwrapOnce(e); k != nil {
		for i, r := range c.Refs {
			res.OracleEvals["C08.monotone"]++
			var a, b bool
			ok1, _ := catch(func() { a = errors.Is(k, r) })
			ok2, _ := catch(func() { b = errors.Is(e, r) })
			if ok1 && a && (!ok2 || !b) {
				res.fail(c, "C08.monotone", fmt.Sprintf("Is(cause, ref %d) holds but Is(wrapper, ref) = %v (ok=%v)", i, b, ok2), "C08:monotone")
			}
		}
	}
	// Mark(e, r) matches every reference equivalent to r in addition to what e matched; marks
	// accumulate: a second Mark on top keeps the first
	var marks []error
	for _, r := range c.Refs {
		if r != nil && len(marks) < 2 {
			marks = append(marks, r)
		}
	}
	if len(marks) == 2 {
		var m1, m2 error
		if ok, pv := catch(func() { m1 = errors.Mark(e, marks[0]); m2 = errors.Mark(m1, marks[1]) }); !ok || m1 == nil || m2 == nil {
			res.fail(c, "C08.mark", fmt.Sprintf("Mark panicked or returned nil: %v", pv), "C08:mark-panic")
			return
		}
		chk := func(name string, subj, ref error) {
			res.OracleEvals["C08.mark"]++
			if isRes(subj, ref) != "true" {
				res.fail(c, "C08.mark", name+" does not hold", "C08:mark:"+name)
			}
		}
		chk("Is(Mark(e,r1),r1)", m1, marks[0])
		chk("Is(Mark(Mark(e,r1),r2),r2)", m2, marks[1])
		chk("Is(Mark(Mark(e,r1),r2),r1)", m2, marks[0])
		chk("Is(Mark(Mark(e,r1),r2),Mark(e,r1))", m2, m1)
		chk("Is(Mark(Mark(e,r1),r2),e)", m2, e)
		for i, r := range c.Refs {
			if isRes(e, r) == "true" {
				chk(fmt.Sprintf("Is(e,ref %d) => Is(Mark(Mark(e,r1),r2),ref)", i), m2, r)
			}
		}
		if h, ok := hopsReal(m2, 1); ok {
			chk("after a hop: Is(Mark(Mark(e,r1),r2),r1)", h, marks[0])
			chk("after a hop: Is(Mark(Mark(e,r1),r2),r2)", h, marks[1])
		}
	}
}

// ---------------------------------------------------------------------
// C02: identity is invariant under transfer.

func hasOp(r *R, op string) bool {
	if r == nil {
		return false
	}
	if r.Op == op {
		return true
	}
	for _, k := range r.K {
		if hasOp(k, op) {
			return true
		}
	}
	return false
}

func isRes(e, r error) string {
	var b bool
	ok, _ := catch(func() { b = errors.Is(e, r) })
	if !ok {
		return "panic"
	}
	if b {
		return "true"
	}
	return "false"
}

func oracleC02(res *Result, c *Case) {
	e := c.Err
	h1, ok1 := hopsReal(e, 1)
	h3, ok3 := hopsReal(e, 3)
	if !ok1 || !ok3 {
		res.fail(c, "C02.no_panic", "a hop panicked", "C02:hop-panic")
		return
	}
	errnoInE := hasOp(c.Rec, "errno")
	for i, r := range c.Refs {
		a0 := isRes(e, r)
		res.OracleEvals["C02.e_transferred"]++
		if a1 := isRes(h1, r); a1 != a0 {
			res.fail(c, "C02.e_transferred", fmt.Sprintf("ref %d: Is(e,r)=%s Is(hop e,r)=%s", i, a0, a1), "C02:e-1hop:"+a0+"->"+a1)
		}
		if a3 := isRes(h3, r); a3 != a0 {
			res.fail(c, "C02.e_transferred", fmt.Sprintf("ref %d: Is(e,r)=%s Is(hop^3 e,r)=%s", i, a0, a3), "C02:e-3hops:"+a0+"->"+a3)
		}
		rh, okr := hopsReal(r, 1)
		if !okr {
			res.fail(c, "C02.no_panic", "hop of the reference panicked", "C02:hop-panic")
			continue
		}
		// the stated exception: the local match depended on an Is method comparing object identity
		exception := errnoInE && i < len(c.RefRecs) && c.RefRecs[i] != nil && c.RefRecs[i].Op == "sentinel"
		res.OracleEvals["C02.both_transferred"]++
		if b := isRes(h1, rh); b != a0 && !exception {
			res.fail(c, "C02.both_transferred", fmt.Sprintf("ref %d: Is(e,r)=%s Is(hop e,hop r)=%s", i, a0, b), "C02:both:"+a0+"->"+b)
		}
		res.OracleEvals["C02.ref_transferred"]++
		if b := isRes(e, rh); b != a0 && !exception {
			res.fail(c, "C02.ref_transferred", fmt.Sprintf("ref %d: Is(e,r)=%s Is(e,hop r)=%s", i, a0, b), "C02:ref:"+a0+"->"+b)
		}
	}
	oracleLayerRefs(res, c, "C02", e, h1, h3)
}

// ---------------------------------------------------------------------
// C10: independent compositional model of the expected Error() text.

// formatOnly: constructors whose first string is always a format (no plain-message variant)
var formatOnly = map[string]bool{"assertionfailedf": true, "newassertionwrapped": true}

func fmtOf(r *R) string {
	if r.Arg == nil {
		if formatOnly[r.Op] || r.F || (r.Op == "handled" && nin(r, 0) == 2) {
			return fmt.Sprintf(in(r, 0))
		}
		return in(r, 0)
	}
	return fmt.Sprintf(in(r, 0), *r.Arg)
}

// expText computes the text the property promises from the recipe alone.
// ok=false: this node is outside the compositional model (its kids are still checked).
func expText(r *R) (string, bool) {
	kid := func(i int) string {
		if i >= len(r.K) || r.K[i] == nil || r.K[i].built == nil {
			return ""
		}
		t, ok := expText(r.K[i])
		if !ok {
			return r.K[i].built.Error()
		}
		return t
	}
	pref := func(p string) string { return p + ": " + kid(0) }
	switch r.Op {
	case "goerr", "pkgnew", "unimpl", "uleaf", "umulti":
		return in(r, 0), true
	case "testerr":
		return "test error", true
	case "deadline":
		return "context deadline exceeded", true
	case "sentinel", "errno":
		return "", false
	case "new", "assertionfailedf":
		return fmtOf(r), true
	case "wrap", "withmessage", "newassertionwrapped":
		if in(r, 0) == "" && r.Arg == nil {
			return kid(0), true
		}
		return pref(fmtOf(r)), true
	case "withstack", "hint", "detail", "issuelink", "telemetry", "domain", "tags", "assertion", "safedetails",
		"http", "grpc", "pkgwithstack", "mark", "secondary", "handleasassertion", "hop":
		return kid(0), true
	case "combine":
		if r.K[0] == nil || r.K[0].built == nil {
			return kid(1), true
		}
		return kid(0), true
	case "pkgwithmessage", "syscallerr":
		return pref(in(r, 0)), true
	case "patherr":
		return pref(in(r, 0) + " " + in(r, 1)), true
	case "linkerr":
		return pref(in(r, 0) + " " + in(r, 1) + " " + in(r, 2)), true
	case "fmterrorf":
		switch nin(r, 0) {
		case 0:
			return pref(in(r, 0)), true
		case 1:
			return kid(0) + " - " + in(r, 0), true
		}
		return kid(0), true
	case "uwrap":
		switch nin(r, 0) {
		case 0:
			return pref(in(r, 0)), true
		case 1:
			return in(r, 0), true
		}
		return kid(0), true
	case "handled":
		switch nin(r, 0) {
		case 0:
			return kid(0), true
		case 1:
			return in(r, 0), true
		}
		return fmtOf(r), true
	case "handledindomain":
		if nin(r, 0) == 0 {
			return kid(0), true
		}
		return in(r, 1), true
	case "newfe", "newfw":
		args := make([]interface{}, len(r.K))
		for i := range r.K {
			args[i] = kid(i)
		}
		f := strings.ReplaceAll(in(r, 0), "%w", "%v")
		return fmt.Sprintf(f, args...), true
	case "wrapfe":
		args := make([]interface{}, len(r.K)-1)
		for i := range args {
			args[i] = kid(i + 1)
		}
		return fmt.Sprintf(in(r, 0), args...) + ": " + kid(0), true
	case "join", "joinraw", "stdjoin":
		var parts []string
		for i, k := range r.K {
			if k != nil && k.built != nil {
				parts = append(parts, kid(i))
			}
		}
		return strings.Join(parts, "\n"), true
	case "fmterrorfs":
		t := in(r, 0)
		for i := range r.K {
			t += " " + kid(i)
		}
		return t, true
	}
	return "", false
}

var annotationOps = map[string]bool{"withstack": true, "hint": true, "detail": true, "issuelink": true, "telemetry": true,
	"domain": true, "tags": true, "assertion": true, "safedetails": true, "http": true, "grpc": true, "mark": true, "secondary": true}

func oracleC10(res *Result, c *Case) {
	for _, n := range nodesOf(c.Rec, nil) {
		if n.built == nil {
			continue
		}
		if want, ok := expText(n); ok {
			res.OracleEvals["C10.text_composition"]++
			if got := n.built.Error(); got != want {
				res.fail(c, "C10.text_composition", fmt.Sprintf("op %s: Error()=%q expected %q", n.Op, got, want), "C10:text:"+n.Op)
			}
		}
		if annotationOps[n.Op] && len(n.K) > 0 && n.K[0] != nil && n.K[0].built != nil {
			kid := n.K[0].built
			res.OracleEvals["C10.annotation_transparent"]++
			if n.built.Error() != kid.Error() {
				res.fail(c, "C10.annotation_transparent", fmt.Sprintf("op %s changes Error()", n.Op), "C10:annot-text:"+n.Op)
			}
			if !safeEq(errors.UnwrapAll(n.built), errors.UnwrapAll(kid)) {
				res.fail(c, "C10.annotation_transparent", fmt.Sprintf("op %s changes the root cause", n.Op), "C10:annot-root:"+n.Op)
			}
			for i, r := range c.Refs {
				if isRes(kid, r) == "true" && isRes(n.built, r) != "true" {
					res.fail(c, "C10.annotation_transparent", fmt.Sprintf("op %s loses the match with ref %d", n.Op, i), "C10:annot-is:"+n.Op)
				}
			}
		}
	}
}

// ---------------------------------------------------------------------
// C13: multi-cause errors behave as a tree.

func oracleC13(res *Result, c *Case) {
	for _, n := range nodesOfErr(c.Err, nil) {
		bs := errbase.UnwrapMulti(n)
		if len(bs) == 0 {
			continue
		}
		res.OracleEvals["C13.unwrap_leaf"]++
		if errors.UnwrapOnce(n) != nil || errors.Unwrap(n) != nil {
			res.fail(c, "C13.unwrap_leaf", "Unwrap of a multi-cause error is not nil", "C13:unwrap")
		}
		nm := markOf(n)
		for i, r := range c.Refs {
			res.OracleEvals["C13.is_tree"]++
			want := false
			if reflect.TypeOf(r).Comparable() && safeEq(n, r) {
				want = true
			}
			if x, ok := n.(interface{ Is(error) bool }); ok && x.Is(r) {
				want = true
			}
			if markEquivRef(nm, markOf(r)) {
				want = true
			}
			first := -1
			for j, b := range bs {
				if isRes(b, r) == "true" {
					want = true
					if first < 0 {
						first = j
					}
				}
			}
			if got := isRes(n, r); got != map[bool]string{true: "true", false: "false"}[want] {
				res.fail(c, "C13.is_tree", fmt.Sprintf("ref %d: Is(multi)=%s, itself-or-branches=%v", i, got, want), "C13:is")
			}
		}
		// Join text
		if t := fmt.Sprintf("%T", n); t == "*join.joinError" || t == "*errors.joinError" {
			res.OracleEvals["C13.join_text"]++
			var parts []string
			for _, b := range bs {
				parts = append(parts, b.Error())
			}
			if n.Error() != strings.Join(parts, "\n") {
				res.fail(c, "C13.join_text", fmt.Sprintf("%q", n.Error()), "C13:join-text")
			}
		}
	}
	// %+v shows every branch (one numbered entry and one type per visible layer), locally and after transfer
	for _, st := range stages(c.Err, false) {
		res.OracleEvals["C13.verbose_shows_every_branch"]++
		nodes := nodesOfErr(st.E, nil)
		targets := []interface{}{errors.Formattable(st.E)}
		if libraryOutermost(st.E) {
			targets = append(targets, st.E) // the type's own Format method
		}
		for _, tg := range targets {
			var v string
			if ok, _ := catch(func() { v = fmt.Sprintf("%+v", tg) }); !ok {
				res.fail(c, "C13.verbose_shows_every_branch", st.Name+": %+v panicked", "C13:verbose-panic")
				continue
			}
			i := strings.LastIndex(v, "\nError types:")
			if i < 0 {
				res.fail(c, "C13.verbose_shows_every_branch", st.Name+": no Error types line", "C13:verbose-types")
				continue
			}
			typesLine := v[i:]
			for k, n := range nodes {
				if !strings.Contains(typesLine, fmt.Sprintf("(%d) ", k+1)) || !strings.Contains(typesLine, fmt.Sprintf("%T", n)) {
					res.fail(c, "C13.verbose_shows_every_branch", fmt.Sprintf("%s: the Error types line lacks layer %d of %d (%T): %q", st.Name, k+1, len(nodes), n, clipLen(typesLine, 300)), "C13:verbose-branches")
					break
				}
			}
			if strings.Contains(typesLine, fmt.Sprintf("(%d) ", len(nodes)+1)) {
				res.fail(c, "C13.verbose_shows_every_branch", fmt.Sprintf("%s: more types than the %d visible layers", st.Name, len(nodes)), "C13:verbose-branches")
			}
		}
	}
	// branch count, order and per-branch text survive transfer
	if h2, ok := hopsReal(c.Err, 2); ok {
		res.OracleEvals["C13.transfer"]++
		if stripTypes(treeSX(h2)).String() != stripTypes(treeSX(c.Err)).String() {
			res.fail(c, "C13.transfer", "tree changed after 2 hops", "C13:transfer")
		}
	} else {
		res.fail(c, "C13.transfer", "hop panicked", "C13:hop-panic")
	}
}

// ---------------------------------------------------------------------
// C11: every accessor of the public API before the first hop and after hops 1..3.

// accForC11 is accSX with the safe details of barrier and secondary layers blanked
// (they embed a rendering of the hidden error) plus the parsed reportable stacks and the
// one-line source.
func accForC11(e error) SX {
	a := accSX(e)
	for i, f := range a.L {
		if f.Kind == 'l' && len(f.L) == 2 && f.L[0].Sym == "safedet" {
			var out []SX
			for _, p := range f.L[1].L {
				tn := p.L[0].Str
				if tn == "github.com/cockroachdb/errors/barriers/*barriers.barrierErr" ||
					tn == "github.com/cockroachdb/errors/secondary/*secondary.withSecondaryError" {
					out = append(out, L(p.L[0], p.L[1], L()))
				} else {
					out = append(out, p)
				}
			}
			a.L[i] = L(Sym("safedet"), L(out...))
		}
		if f.Kind == 'l' && len(f.L) == 3 && f.L[0].Sym == "root" {
			a.L[i] = L(Sym("root"), f.L[1]) // the Go type of the root may become opaque; its text may not change
		}
	}
	var frames []SX
	for c := e; c != nil; c = errors.UnwrapOnce(c) {
		st := errors.GetReportableStackTrace(c)
		if st == nil {
			frames = append(frames, L(Sym("none")))
			continue
		}
		var fs []SX
		for _, f := range st.Frames {
			fs = append(fs, L(Str(f.Function), Str(f.Module), Str(f.Filename), Str(f.AbsPath), Nat(f.Lineno)))
		}
		frames = append(frames, L(fs...))
	}
	file, line, fn, ok := errors.GetOneLineSource(e)
	return L(a, L(Sym("frames"), L(frames...)), L(Sym("source"), Str(file), Nat(line), Str(fn), Bool(ok)))
}

func oracleC11(res *Result, c *Case) {
	a0 := accForC11(c.Err).String()
	for k := 1; k <= 3; k++ {
		h, ok := hopsReal(c.Err, k)
		res.OracleEvals["C11.accessors_after_hops"]++
		if !ok {
			res.fail(c, "C11.no_panic", "hop panicked", "C11:hop-panic")
			return
		}
		ak := accForC11(h)
		if ak.String() != a0 {
			// find the first differing field
			f0 := accForC11(c.Err)
			which := "?"
			for i := range f0.L[0].L {
				if i < len(ak.L[0].L) && f0.L[0].L[i].String() != ak.L[0].L[i].String() {
					which = f0.L[0].L[i].L[0].Sym
					break
				}
			}
			if which == "?" {
				if f0.L[1].String() != ak.L[1].String() {
					which = "frames"
				} else if f0.L[2].String() != ak.L[2].String() {
					which = "source"
				}
			}
			res.fail(c, "C11.accessors_after_hops", fmt.Sprintf("after %d hop(s) accessor %q differs", k, which), "C11:"+which)
			return
		}
	}
}

// oracleLayerRefs: identity of every layer survives transfer (C02), inside multi-cause branches
// too (C13).
func oracleLayerRefs(res *Result, c *Case, pid string, e, h1, h3 error) {
	// every layer of e as a reference (at any position: the branches of multi-cause nodes
	// included), through Is and through IsAny with the reference first and last: after a hop
	// no layer is identical to it any more, every match is by mark equivalence
	other := errors.New("unrelated reference")
	isAny := func(x error, refs ...error) string {
		out := "false"
		if ok, _ := catch(func() {
			if errors.IsAny(x, refs...) {
				out = "true"
			}
		}); !ok {
			return "panic"
		}
		return out
	}
	for j, n := range nodesOfErr(e, nil) {
		if j >= 16 {
			break
		}
		a0 := isRes(e, n)
		for _, st := range []struct {
			name string
			h    error
		}{{"1hop", h1}, {"3hops", h3}} {
			res.OracleEvals[pid+".layer_as_reference"]++
			if a := isRes(st.h, n); a != a0 {
				res.fail(c, pid+".layer_as_reference", fmt.Sprintf("layer %d (%T): Is(e,layer)=%s after %s %s", j, n, a0, st.name, a), pid+":layer-is:"+st.name)
			}
			if a := isAny(st.h, other, n); a != a0 {
				res.fail(c, pid+".layer_as_reference", fmt.Sprintf("layer %d (%T): Is(e,layer)=%s, IsAny(hop e, other, layer) after %s = %s", j, n, a0, st.name, a), pid+":layer-isany:"+st.name)
			}
			if a := isAny(st.h, n, other); a != a0 {
				res.fail(c, pid+".layer_as_reference", fmt.Sprintf("layer %d (%T): Is(e,layer)=%s, IsAny(hop e, layer, other) after %s = %s", j, n, a0, st.name, a), pid+":layer-isany:"+st.name)
			}
		}
	}
}
