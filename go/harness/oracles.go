package main

import "fmt"

// Direct oracles: the property predicate evaluated on the REAL observations
// only (no model involved).  A failure here is a concrete failing input.

func field(x SX, name string) SX {
	f, ok := x.Field(name)
	if !ok || len(f.L) < 2 {
		return SX{}
	}
	return f.L[1]
}

// stripTypes removes the %T component of a tree: (N text tstr kids) -> (N text kids)
func stripTypes(t SX) SX {
	if t.Kind != 'l' || len(t.L) != 4 {
		return t
	}
	kids := make([]SX, len(t.L[3].L))
	for i, k := range t.L[3].L {
		kids[i] = stripTypes(k)
	}
	return L(Sym("N"), t.L[1], L(kids...))
}

func isPanic(x SX) bool {
	return x.Kind == 'l' && len(x.L) == 1 && x.L[0].Kind == 'y' && x.L[0].Sym == "panic"
}

func outerOp(c *Case) string {
	if c.Rec == nil {
		return "nil"
	}
	return c.Rec.Op
}

func runOracles(res *Result, prop string, c *Case) {
	if c.Real.Kind != 'l' || len(c.Real.L) < 2 {
		return
	}
	if f := c.Real.L[1]; f.Kind == 'l' && len(f.L) == 1 && (f.L[0].Sym == "nil" || f.L[0].Sym == "panic") {
		return
	}
	switch prop {
	case "C01":
		oracleC01(res, c)
	}
}

// C01: tree and text at every node identical after 1 and 3 hops; no drift from hop 1 on.
func oracleC01(res *Result, c *Case) {
	res.OracleEvals["C01.shape_text_1hop"]++
	t0 := stripTypes(field(c.Real, "tree"))
	t1 := field(c.Real, "h1tree")
	t3 := field(c.Real, "h3tree")
	if isPanic(t1) || isPanic(t3) {
		res.fail(c, "C01.no_panic", "a hop panicked", "C01:panic:"+outerOp(c))
		return
	}
	if stripTypes(t1).String() != t0.String() {
		res.fail(c, "C01.shape_text_1hop", fmt.Sprintf("before %s after %s", t0, stripTypes(t1)), "C01:shape1:"+outerOp(c))
	}
	res.OracleEvals["C01.shape_text_3hops"]++
	if stripTypes(t3).String() != t0.String() {
		res.fail(c, "C01.shape_text_3hops", fmt.Sprintf("before %s after %s", t0, stripTypes(t3)), "C01:shape3:"+outerOp(c))
	}
	res.OracleEvals["C01.no_drift"]++
	e1, e2 := field(c.Real, "h1enc"), field(c.Real, "h2enc")
	if e1.String() != e2.String() {
		res.fail(c, "C01.no_drift", fmt.Sprintf("hop1 %s hop2 %s", e1, e2), "C01:drift:"+outerOp(c))
	}
}
