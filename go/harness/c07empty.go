package main

import (
	"fmt"

	"github.com/cockroachdb/errors"
	"github.com/cockroachdb/errors/barriers"
	"github.com/cockroachdb/redact"
)

// Barriers whose replacement message is EMPTY (C07: "the WithMessage variants replace it").  An
// empty Error() text is outside the transport model's regular text, so this leg is table-driven
// and model-free: the barrier shows the replacement (nothing), not the hidden error's text,
// locally and after hops, and is not identified with a plain Handled() of the same hidden error.
func oracleC07EmptyOverride(res *Result) {
	c := &Case{ID: "empty-override", Cmd: L(Sym("empty-override"))}
	hidden := func() error { return errors.Newf("lookup failed: %s", "secret-payload") }
	ctors := []namedErr{
		{"HandledWithMessage", errors.HandledWithMessage(hidden(), "")},
		{"barriers.HandledWithMessagef", barriers.HandledWithMessagef(hidden(), "")},
		{"barriers.HandledWithSafeMessage", barriers.HandledWithSafeMessage(hidden(), redact.RedactableString(""))},
		{"HandledInDomainWithMessage", errors.HandledInDomainWithMessage(hidden(), errors.Domain("d"), "")},
		{"Wrap(HandledWithMessage)", errors.Wrap(errors.HandledWithMessage(hidden(), ""), "ctx")},
	}
	want := []string{"", "", "", "", "ctx: "}
	plain := errors.Handled(hidden())
	for i, ct := range ctors {
		for k := 0; k <= 3; k++ {
			res.OracleEvals["C07.empty_override"]++
			e, ok := hopsReal(ct.e, k)
			if !ok || e == nil {
				res.fail(c, "C07.empty_override", fmt.Sprintf("%s: hop %d panics", ct.name, k), "C07:empty-override:panic")
				break
			}
			var got string
			var same bool
			if ok, pv := catch(func() { got = e.Error(); same = errors.Is(e, plain) || errors.Is(plain, e) }); !ok {
				res.fail(c, "C07.empty_override", fmt.Sprintf("%s: Error()/Is panics: %v", ct.name, pv), "C07:empty-override:panic")
				break
			}
			if got != want[i] && !(i == 4 && got == "ctx") {
				res.fail(c, "C07.empty_override", fmt.Sprintf("%s after %d hop(s): Error() = %q, the (empty) replacement message gives %q", ct.name, k, got, want[i]), "C07:empty-override:text")
				break
			}
			if same {
				res.fail(c, "C07.empty_override", fmt.Sprintf("%s after %d hop(s): identified with Handled() of the same hidden error (the hidden text shows through the mark)", ct.name, k), "C07:empty-override:is")
				break
			}
		}
	}
}
