package main

import (
	"fmt"
	"strings"

	"github.com/cockroachdb/errors"
	"github.com/cockroachdb/errors/barriers"
	"github.com/cockroachdb/redact"
)

// Barriers whose replacement message is EMPTY (C07: "the WithMessage variants replace it").  An
// empty Error() text is outside the transport model's regular text, so this leg is table-driven
// and model-free: the barrier shows the replacement (nothing), not the hidden error's text,
// locally and after hops, and is not identified with a plain Handled() of the same hidden error.
func oracleC07EmptyOverride(res *Result) {
	c := &Case{ID: "empty-override", Cmd: L(Sym("empty-override"))}
	hidden := func() error { return errors.Newf("lookup failed: %s", "secret-payload") }
	ctors := []namedErr{
		{"HandledWithMessage", errors.HandledWithMessage(hidden(), "")},
		{"barriers.HandledWithMessagef", barriers.HandledWithMessagef(hidden(), "")},
		{"barriers.HandledWithSafeMessage", barriers.HandledWithSafeMessage(hidden(), redact.RedactableString(""))},
		{"HandledInDomainWithMessage", errors.HandledInDomainWithMessage(hidden(), errors.Domain("d"), "")},
		{"Wrap(HandledWithMessage)", errors.Wrap(errors.HandledWithMessage(hidden(), ""), "ctx")},
	}
	want := []string{"", "", "", "", "ctx: "}
	plain := errors.Handled(hidden())
	for i, ct := range ctors {
		for k := 0; k <= 3; k++ {
			res.OracleEvals["C07.empty_override"]++
			e, ok := hopsReal(ct.e, k)
			if !ok || e == nil {
				res.fail(c, "C07.empty_override", fmt.Sprintf("%s: hop %d panics", ct.name, k), "C07:empty-override:panic")
				break
			}
			var got string
			var same bool
			if ok, pv := catch(func() { got = e.Error(); same = errors.Is(e, plain) || errors.Is(plain, e) }); !ok {
				res.fail(c, "C07.empty_override", fmt.Sprintf("%s: Error()/Is panics: %v", ct.name, pv), "C07:empty-override:panic")
				break
			}
			if got != want[i] && !(i == 4 && got == "ctx") {
				res.fail(c, "C07.empty_override", fmt.Sprintf("%s after %d hop(s): Error() = %q, the (empty) replacement message gives %q", ct.name, k, got, want[i]), "C07:empty-override:text")
				break
			}
			if same {
				res.fail(c, "C07.empty_override", fmt.Sprintf("%s after %d hop(s): identified with Handled() of the same hidden error (the hidden text shows through the mark)", ct.name, k), "C07:empty-override:is")
				break
			}
		}
	}
}

// oracleC07ErrorArgs: errors passed as arguments to Newf / Wrapf / AssertionFailedf are captured as
// secondary errors — each of them, whatever their relation to one another (one wrapping the other,
// two look-alikes with different details): every one stays fully visible in %+v and contributes
// its safe details, locally and after hops.
func oracleC07ErrorArgs(res *Result) {
	c := &Case{ID: "error-args", Cmd: L(Sym("error-args"))}
	inner := errors.WithTelemetry(errors.New("inner cause"), "argkey.inner")
	outer := errors.WithHint(errors.Wrap(inner, "outer ctx"), "outer-hint-7f")
	twinA := errors.WithSafeDetails(errors.New("twin"), "safe-%s", errors.Safe("alpha"))
	twinB := errors.WithSafeDetails(errors.New("twin"), "safe-%s", errors.Safe("beta"))
	type probe struct {
		name  string
		e     error
		marks []string // strings that must occur in %+v (details of each argument)
		safe  []string // strings that must occur in the safe details
	}
	probes := []probe{
		{"Newf(inner, outer)", errors.Newf("a %v b %v", inner, outer), []string{"argkey.inner", "outer-hint-7f"}, []string{"argkey.inner"}},
		{"Newf(outer, inner)", errors.Newf("a %v b %v", outer, inner), []string{"argkey.inner", "outer-hint-7f"}, []string{"argkey.inner"}},
		{"Wrapf(base; inner, outer)", errors.Wrapf(errors.New("base"), "a %v b %v", inner, outer), []string{"argkey.inner", "outer-hint-7f"}, []string{"argkey.inner"}},
		{"AssertionFailedf(inner, outer)", errors.AssertionFailedf("a %v b %v", inner, outer), []string{"argkey.inner", "outer-hint-7f"}, []string{"argkey.inner"}},
		{"Newf(twinA, twinB)", errors.Newf("x %v y %v", twinA, twinB), []string{"safe-alpha", "safe-beta"}, []string{"safe-alpha", "safe-beta"}},
		{"Newf(twinB, twinA)", errors.Newf("x %v y %v", twinB, twinA), []string{"safe-alpha", "safe-beta"}, []string{"safe-alpha", "safe-beta"}},
	}
	for _, p := range probes {
		for k := 0; k <= 2; k++ {
			res.OracleEvals["C07.error_args"]++
			e, ok := hopsReal(p.e, k)
			if !ok || e == nil {
				res.fail(c, "C07.error_args", fmt.Sprintf("%s: hop %d panics", p.name, k), "C07:error-args:panic")
				break
			}
			var pv, sd string
			if ok, v := catch(func() {
				pv = fmt.Sprintf("%+v", e)
				sd = fmt.Sprintf("%q", errors.GetAllSafeDetails(e))
			}); !ok {
				res.fail(c, "C07.error_args", fmt.Sprintf("%s: panics: %v", p.name, v), "C07:error-args:panic")
				break
			}
			bad := ""
			for _, m := range p.marks {
				if !strings.Contains(pv, m) {
					bad = "%+v lacks " + m
				}
			}
			for _, m := range p.safe {
				if !strings.Contains(sd, m) {
					bad = "the safe details lack " + m
				}
			}
			if n := strings.Count(pv, "secondary error attachment"); n < 2 {
				bad = fmt.Sprintf("%d secondary error attachment(s) for two error arguments", n)
			}
			if bad != "" {
				res.fail(c, "C07.error_args", fmt.Sprintf("%s after %d hop(s): %s", p.name, k, bad), "C07:error-args")
				break
			}
		}
	}
}

// oracleDeepMulti: a multi-cause error one of whose branches is a chain of many wrappers, local and
// received: %+v (plain and redactable), the report and the other observers neither panic nor print
// a PANIC= marker, and %+v still names the innermost leaf of every branch.
func oracleDeepMulti(res *Result, prop string) {
	c := &Case{ID: "deep-multi", Cmd: L(Sym("deep-multi"))}
	for _, n := range []int{5, 12, 17, 18, 19, 24, 40, 70} {
		var chain error = errors.New("deepest-leaf-x")
		for i := 0; i < n; i++ {
			switch i % 3 {
			case 0:
				chain = errors.WithMessage(chain, fmt.Sprintf("l%d", i))
			case 1:
				chain = errors.WithHint(chain, "h")
			default:
				chain = errors.WithStack(chain)
			}
		}
		for _, mk := range []namedErr{
			{"Join(chain, leaf)", errors.Join(chain, errors.New("other-leaf-y"))},
			{"fmt %w %w", fmt.Errorf("both: %w and %w", chain, errors.New("other-leaf-y"))},
			{"Wrap(Join(leaf, chain))", errors.Wrap(errors.Join(errors.New("other-leaf-y"), chain), "top")},
		} {
			for k := 0; k <= 2; k++ {
				res.OracleEvals[prop+".deep_multi"]++
				e, ok := hopsReal(mk.e, k)
				if !ok || e == nil {
					res.fail(c, prop+".deep_multi", fmt.Sprintf("%s with %d layers: hop %d panics", mk.name, n, k), prop+":deep-multi:panic")
					break
				}
				var outs []string
				if ok, v := catch(func() {
					outs = append(outs, fmt.Sprintf("%+v", e), string(redact.Sprintf("%+v", e)), fmt.Sprintf("%v", e))
					ev, _ := errors.BuildSentryReport(e)
					if ev != nil {
						outs = append(outs, ev.Message)
					}
					_ = errors.GetAllSafeDetails(e)
					_ = errors.EncodeError(bgCtx, e)
				}); !ok {
					res.fail(c, prop+".deep_multi", fmt.Sprintf("%s with %d layers after %d hop(s): panics: %v", mk.name, n, k, v), prop+":deep-multi:panic")
					break
				}
				bad := ""
				for _, o := range outs {
					if strings.Contains(o, "PANIC=") {
						bad = "a rendering contains PANIC="
					}
				}
				if !strings.Contains(outs[0], "deepest-leaf-x") || !strings.Contains(outs[0], "other-leaf-y") {
					bad = "%+v does not show the leaf of every branch"
				}
				if bad != "" {
					res.fail(c, prop+".deep_multi", fmt.Sprintf("%s with %d layers after %d hop(s): %s", mk.name, n, k, bad), prop+":deep-multi")
					break
				}
			}
		}
	}
}
