package main

import (
	"runtime"
	"reflect"
	"fmt"
	"strings"

	"github.com/cockroachdb/errors"
	"github.com/cockroachdb/errors/errbase"
	"github.com/cockroachdb/errors/withstack"
	"github.com/cockroachdb/redact"
)

const (
	mOpenS  = "‹"
	mCloseS = "›"
)

// lineWellFormed: markers balanced, never nested, and balanced within every line.
func lineWellFormed(s string) (bool, string) {
	open := false
	for i := 0; i < len(s); {
		switch {
		case strings.HasPrefix(s[i:], mOpenS):
			if open {
				return false, fmt.Sprintf("nested open marker at byte %d", i)
			}
			open = true
			i += len(mOpenS)
		case strings.HasPrefix(s[i:], mCloseS):
			if !open {
				return false, fmt.Sprintf("close marker without open at byte %d", i)
			}
			open = false
			i += len(mCloseS)
		case s[i] == '\n':
			if open {
				return false, fmt.Sprintf("newline inside markers at byte %d", i)
			}
			i++
		default:
			i++
		}
	}
	if open {
		return false, "unclosed marker at end"
	}
	return true, ""
}

func near(s string, at int) string {
	lo, hi := at-40, at+40
	if lo < 0 {
		lo = 0
	}
	if hi > len(s) {
		hi = len(s)
	}
	return s[lo:hi]
}

// isRegularRecipe: every string input is regular text (non-empty handled by callers):
// valid UTF-8 without marker runes, NUL, leading / trailing / doubled newlines.
func regularString(s string) bool {
	if strings.Contains(s, mOpenS) || strings.Contains(s, mCloseS) || strings.Contains(s, "\x00") {
		return false
	}
	if strings.HasPrefix(s, "\n") || strings.HasSuffix(s, "\n") || strings.Contains(s, "\n\n") {
		return false
	}
	return strings.ToValidUTF8(s, "\uFFFD") == s
}

func regularRecipe(r *R) bool {
	if r == nil {
		return true
	}
	for _, s := range r.In {
		if !regularString(s) {
			return false
		}
	}
	if r.Arg != nil && !regularString(*r.Arg) {
		return false
	}
	for _, k := range r.K {
		if !regularRecipe(k) {
			return false
		}
	}
	return true
}

var redVerbs = []string{"%v", "%s", "%+v"}
var refusedVerbs = []string{"%q", "%x", "%X", "%#v", "%d", "%+q", "%t"}

// oracleC06: well-formedness for any content; congruence with the plain rendering for
// regular content; unsupported verbs refused.
func oracleC06(res *Result, c *Case) {
	if c.Err == nil {
		return
	}
	regular := regularRecipe(c.Rec)
	for _, st := range stages(c.Err, true) {
		for _, verb := range redVerbs {
			var rs redact.RedactableString
			if ok, _ := catch(func() { rs = redact.Sprintf(verb, st.E) }); !ok {
				res.fail(c, "C06", st.Name+" "+verb+": panic", "C06:panic")
				continue
			}
			res.OracleEvals["C06.wellformed"]++
			if ok, why := lineWellFormed(string(rs)); !ok {
				res.fail(c, "C06", fmt.Sprintf("%s redact.Sprintf(%q): %s in %q", st.Name, verb, why, clipLen(string(rs), 300)),
					"C06:malformed:"+st.Name+":"+verb)
			}
			// redacting must keep it well formed too
			if ok, why := lineWellFormed(string(rs.Redact())); !ok {
				res.fail(c, "C06", fmt.Sprintf("%s redact.Sprintf(%q).Redact(): %s", st.Name, verb, why), "C06:malformed-redacted:"+verb)
			}
			if regular {
				res.OracleEvals["C06.congruence"]++
				plain := fmt.Sprintf(verb, errors.Formattable(st.E))
				if got := rs.StripMarkers(); got != plain {
					res.fail(c, "C06", fmt.Sprintf("%s %s: stripped redactable rendering differs from the plain one at byte %d: %q vs %q",
						st.Name, verb, firstDiff(got, plain), near(got, firstDiff(got, plain)), near(plain, firstDiff(got, plain))),
						"C06:incongruent:"+st.Name+":"+verb)
				}
			}
		}
		for _, verb := range refusedVerbs {
			var rs redact.RedactableString
			if ok, _ := catch(func() { rs = redact.Sprintf(verb, st.E) }); !ok {
				res.fail(c, "C06", st.Name+" "+verb+": panic", "C06:panic")
				continue
			}
			res.OracleEvals["C06.refused"]++
			v := verb[len(verb)-1:]
			want := "%!" + v + "(" + fmt.Sprintf("%T", st.E) + ")"
			if s := string(rs); s != want && s != mOpenS+want+mCloseS {
				res.fail(c, "C06", fmt.Sprintf("%s redact.Sprintf(%q) = %q, want the refusal %q", st.Name, verb, clipLen(s, 200), want),
					"C06:not-refused:"+verb)
			}
		}
	}
}

func clipLen(s string, n int) string {
	if len(s) > n {
		return s[:n] + "…"
	}
	return s
}

func firstDiff(a, b string) int {
	i := 0
	for i < len(a) && i < len(b) && a[i] == b[i] {
		i++
	}
	return i
}

// ---------------------------------------------------------------------
// C09

type verbSpec struct{ format string }

var plainVerbs = []string{"v", "s", "q", "x", "X"}
// the flags the property lists: '-', '#', ' ', '0' ('+' selects the verbose form and is passed on to foreign Format methods)
var flagSets = []string{"", "-", "#", " ", "0", "-0", "# ", "-#", "0 "}
var widths = []string{"", "3", "12", "40"}
var precs = []string{"", ".0", ".2", ".30"}

func libraryOutermost(e error) bool {
	_, ok := e.(errbase.SafeFormatter)
	if ok {
		return true
	}
	_, ok = e.(errbase.Formatter)
	return ok && strings.Contains(fmt.Sprintf("%T", e), ".")
}

// layersOf lists the visible layers in the order %+v numbers them: the outermost first,
// then for single-cause wrappers the cause, for multi-cause nodes... (see countEntries)
func visibleLayers(e error) []error {
	var out []error
	var walk func(e error)
	walk = func(e error) {
		out = append(out, e)
		if c := errbase.UnwrapOnce(e); c != nil {
			walk(c)
			return
		}
		ks := errbase.UnwrapMulti(e)
		for i := len(ks) - 1; i >= 0; i-- {
			walk(ks[i])
		}
	}
	walk(e)
	return out
}

func oracleC09(res *Result, c *Case, seedPick int) {
	if c.Err == nil || !regularRecipe(c.Rec) {
		return
	}
	for _, st := range stages(c.Err, false) {
		e := st.E
		text := e.Error()
		targets := []struct {
			name string
			v    interface{}
		}{{"Formattable", errors.Formattable(e)}}
		if libraryOutermost(e) {
			targets = append(targets, struct {
				name string
				v    interface{}
			}{"direct", e})
		}
		for _, tg := range targets {
			// %v and %s print exactly Error()
			for _, vb := range []string{"%v", "%s"} {
				res.OracleEvals["C09.v_is_error"]++
				if got := fmt.Sprintf(vb, tg.v); got != text {
					res.fail(c, "C09", fmt.Sprintf("%s %s %s = %q, Error() = %q", st.Name, tg.name, vb, clipLen(got, 200), clipLen(text, 200)),
						"C09:v-not-error:"+tg.name)
				}
			}
			// every verb x flag x width x precision variant prints what fmt prints for the Error() string
			k := 0
			for _, vb := range plainVerbs {
				for _, fl := range flagSets {
					for _, w := range widths {
						for _, p := range precs {
							k++
							if (k+seedPick)%3 != 0 && !(w == "" && p == "") {
								continue // a third of the width/precision matrix per case
							}
							if vb == "v" && (strings.Contains(fl, "+") || strings.Contains(fl, "#")) {
								continue // %+v and %#v are the verbose and Go-syntax forms
							}
							f := "%" + fl + w + p + vb
							res.OracleEvals["C09.verb_matrix"]++
							want := fmt.Sprintf(f, text)
							var got string
							if ok, _ := catch(func() { got = fmt.Sprintf(f, tg.v) }); !ok {
								res.fail(c, "C09", fmt.Sprintf("%s %s %s: panic", st.Name, tg.name, f), "C09:panic")
								continue
							}
							if got != want {
								res.fail(c, "C09", fmt.Sprintf("%s %s Sprintf(%q) = %q, fmt prints %q for the Error() string", st.Name, tg.name, f,
									clipLen(got, 120), clipLen(want, 120)), "C09:verb:"+vb+":"+tg.name)
							}
						}
					}
				}
			}
			// other verbs: fmt's %!verb(type) notation
			for _, vb := range []string{"d", "t", "e", "c", "U", "b", "o", "f"} { // %p and %T never reach a Format method
				res.OracleEvals["C09.bad_verb"]++
				want := "%!" + vb + "(" + fmt.Sprintf("%T", e) + ")"
				if got := fmt.Sprintf("%"+vb, tg.v); got != want {
					res.fail(c, "C09", fmt.Sprintf("%s %s %%%s = %q, want %q", st.Name, tg.name, vb, clipLen(got, 120), want), "C09:badverb:"+vb)
				}
			}
			// %#v: a Go-syntax dump (mentions the type, is not the plain message)
			res.OracleEvals["C09.gosyntax"]++
			var gs string
			if ok, _ := catch(func() { gs = fmt.Sprintf("%#v", tg.v) }); !ok {
				res.fail(c, "C09", st.Name+" %#v: panic", "C09:panic")
			} else if reflect.TypeOf(e).Kind() == reflect.String {
				// a named string type (runtime.plainError): Go syntax is the quoted string
			} else if !strings.Contains(gs, strings.TrimPrefix(fmt.Sprintf("%T", e), "*")) {
				res.fail(c, "C09", fmt.Sprintf("%s %s %%#v does not name the type %T: %q", st.Name, tg.name, e, clipLen(gs, 120)), "C09:gosyntax")
			}
			// %+v: starts with the first line of Error(), one numbered entry per visible layer,
			// then the types line naming every layer's type in the same order
			res.OracleEvals["C09.verbose_structure"]++
			pv := fmt.Sprintf("%+v", tg.v)
			layers := visibleLayers(e)
			firstLine := text
			if i := strings.IndexByte(firstLine, '\n'); i >= 0 {
				firstLine = firstLine[:i]
			}
			if !strings.HasPrefix(pv, firstLine) {
				res.fail(c, "C09", fmt.Sprintf("%s %s %%+v does not start with the Error() text: %q vs %q", st.Name, tg.name, clipLen(pv, 80), clipLen(firstLine, 80)),
					"C09:verbose-prefix")
			}
			if !strings.Contains(text, "\n") && !strings.HasPrefix(pv, text+"\n(1)") {
				res.fail(c, "C09", fmt.Sprintf("%s %s %%+v does not start with Error()+\"\\n(1)\": %q", st.Name, tg.name, clipLen(pv, 120)), "C09:verbose-prefix1")
			}
			var types strings.Builder
			types.WriteString("\nError types:")
			for i, l := range layers {
				fmt.Fprintf(&types, " (%d) %T", i+1, l)
			}
			if !strings.HasSuffix(pv, types.String()) {
				j := strings.LastIndex(pv, "\nError types:")
				got := ""
				if j >= 0 {
					got = pv[j:]
				}
				res.fail(c, "C09", fmt.Sprintf("%s %s %%+v types line: %q, want %q", st.Name, tg.name, clipLen(got, 300), clipLen(types.String(), 300)),
					"C09:types-line")
			}
			for i := range layers {
				marker := fmt.Sprintf("\nWraps: (%d)", i+1)
				if i == 0 {
					marker = "\n(1)"
				}
				if n := countEntryMarkers(pv, marker, i+1); n != 1 {
					res.fail(c, "C09", fmt.Sprintf("%s %s %%+v has %d entries numbered (%d), want 1", st.Name, tg.name, n, i+1), "C09:entry-count")
				}
			}
			if n := countEntryMarkers(pv, fmt.Sprintf("Wraps: (%d)", len(layers)+1), 0); n != 0 {
				res.fail(c, "C09", fmt.Sprintf("%s %s %%+v has more entries than layers (%d)", st.Name, tg.name, len(layers)), "C09:entry-count")
			}
		}
		oracleOwnDetails(res, c, st.Name, e)
	}
}

// countEntryMarkers counts entry headers "(n)" at line starts (after optional indentation).
func countEntryMarkers(pv, marker string, n int) int {
	cnt := 0
	for _, line := range strings.Split(pv, "\n") {
		t := strings.TrimLeft(line, " ")
		t = strings.TrimPrefix(t, "└─ ")
		m := strings.TrimPrefix(marker, "\n")
		if strings.HasPrefix(t, m) {
			cnt++
		}
	}
	return cnt
}

// oracleOwnDetails: each library wrapper's own detail appears in the verbose rendering.
func oracleOwnDetails(res *Result, c *Case, stage string, e error) {
	pv := fmt.Sprintf("%+v", errors.Formattable(e))
	flat := strings.ReplaceAll(pv, "\n  | ", "\n")
	for _, l := range visibleLayers(e) {
		var want []string
		switch fmt.Sprintf("%T", l) {
		case "*hintdetail.withHint":
			if h, ok := l.(interface{ ErrorHint() string }); ok && h.ErrorHint() != "" {
				want = append(want, h.ErrorHint())
			}
		case "*hintdetail.withDetail":
			if h, ok := l.(interface{ ErrorDetail() string }); ok && h.ErrorDetail() != "" {
				want = append(want, h.ErrorDetail())
			}
		case "*issuelink.withIssueLink":
			if ls := errors.GetAllIssueLinks(l); len(ls) > 0 {
				if ls[0].IssueURL != "" {
					want = append(want, "issue: "+ls[0].IssueURL)
				}
				if ls[0].Detail != "" {
					want = append(want, "detail: "+ls[0].Detail)
				}
			}
		case "*telemetrykeys.withTelemetry":
			want = append(want, "keys: [")
		case "*domains.withDomain":
			want = append(want, string(errors.GetDomain(l)))
		case "*contexttags.withContext":
			want = append(want, "tags: [")
		case "*assert.withAssertionFailure":
			want = append(want, "assertion failure")
		case "*withstack.withStack":
			want = append(want, "attached stack trace", "-- stack trace:")
		case "*exthttp.withHTTPCode":
			want = append(want, "http code: ")
		case "*extgrpc.withGrpcCode":
			want = append(want, "gRPC code: ")
		case "*secondary.withSecondaryError":
			want = append(want, "secondary error attachment")
		case "*barriers.barrierErr":
			want = append(want, "-- cause hidden behind barrier")
		case "*markers.withMark":
			want = append(want, "forced error mark")
		}
		for _, w := range want {
			res.OracleEvals["C09.own_detail"]++
			if !strings.Contains(flat, w) {
				res.fail(c, "C09", fmt.Sprintf("%s: the detail %q of a %T layer is missing from %%+v", stage, clipLen(w, 80), l),
					fmt.Sprintf("C09:own-detail:%T", l))
			}
		}
	}
}

// ---------------------------------------------------------------------
// C15

func allLayersReport(e error) []error {
	var out []error
	var walk func(e error)
	walk = func(e error) {
		out = append(out, e)
		if c := errbase.UnwrapOnce(e); c != nil {
			walk(c)
		}
		for _, k := range errbase.UnwrapMulti(e) {
			walk(k)
		}
	}
	walk(e)
	return out
}

func oracleC15(res *Result, c *Case) {
	if c.Err == nil {
		return
	}
	for _, st := range stages(c.Err, true) {
		e := st.E
		ev, extras := errors.BuildSentryReport(e)
		res.OracleEvals["C15.reports"]++
		if ev == nil {
			res.fail(c, "C15", st.Name+": no event for a non-nil error", "C15:nil-event")
			continue
		}
		layers := allLayersReport(e)
		// message: [file:line: ] redacted verbose rendering, then the composition
		verbose := redact.Sprintf("%+v", e).Redact().StripMarkers()
		prefix := ""
		if f, l, _, ok := withstack.GetOneLineSource(e); ok {
			prefix = fmt.Sprintf("%s:%d: ", f, l)
		}
		head := prefix + verbose + "\n-- report composition:\n"
		if !strings.HasPrefix(ev.Message, head) {
			res.fail(c, "C15", fmt.Sprintf("%s: message does not begin with the source line and the redacted verbose rendering (differs at byte %d)",
				st.Name, firstDiff(ev.Message, head)), "C15:message-head")
			continue
		}
		comp := strings.TrimSuffix(ev.Message[len(head):], "\n(check the extra data payloads)")
		lines := strings.Split(comp, "\n")
		// a composition line may not contain newlines: one line per layer
		if !regularRecipe(c.Rec) {
			// a safe detail or type name with newlines spreads over several lines: the
			// per-line relation is checked on regular strings, the exact message by the tie
		} else if len(lines) != len(layers) {
			res.fail(c, "C15", fmt.Sprintf("%s: %d composition lines for %d layers", st.Name, len(lines), len(layers)), "C15:composition-count")
		} else {
			for i, l := range layers {
				// innermost (last visited) first
				line := lines[len(layers)-1-i]
				tn := errbase.GetSafeDetails(l).OriginalTypeName
				if j := strings.LastIndexByte(tn, '/'); j >= 0 {
					tn = tn[j+1:]
				}
				if !strings.Contains(line, tn) {
					res.fail(c, "C15", fmt.Sprintf("%s: composition line %q does not name the layer type %q", st.Name, clipLen(line, 100), tn), "C15:composition-type")
				}
			}
		}
		// exceptions: one per layer with a stack, outermost first
		var withStacks []error
		for _, l := range layers {
			// a local layer has a stack iff it captured at least one frame (a depth beyond the
			// top of the goroutine captures none); a received one iff its printed stack parses
			if sp, ok := l.(errbase.StackTraceProvider); ok {
				if len(sp.StackTrace()) > 0 {
					withStacks = append(withStacks, l)
				}
			} else if withstack.GetReportableStackTrace(l) != nil {
				withStacks = append(withStacks, l)
			}
		}
		for i, x := range ev.Exception {
			if x.Stacktrace == nil {
				continue
			}
			for j, f := range x.Stacktrace.Frames {
				if f.Function == "" && f.Filename == "" && f.AbsPath == "" && f.Lineno == 0 {
					res.fail(c, "C15", fmt.Sprintf("%s: exception %d frame %d is blank (no function, file or line)", st.Name, i, j), "C15:blank-frame")
				}
			}
		}
		dom := string(errors.GetDomain(e))
		if len(withStacks) == 0 {
			if len(ev.Exception) != 1 || ev.Exception[0].Stacktrace != nil {
				res.fail(c, "C15", fmt.Sprintf("%s: %d exceptions for an error without stack traces, want one synthetic", st.Name, len(ev.Exception)), "C15:synthetic")
			}
		} else if len(ev.Exception) != len(withStacks) {
			res.fail(c, "C15", fmt.Sprintf("%s: %d exceptions for %d layers with stack traces", st.Name, len(ev.Exception), len(withStacks)), "C15:exception-count")
		} else {
			for i, l := range withStacks {
				want := withstack.GetReportableStackTrace(l)
				got := ev.Exception[i].Stacktrace
				if got == nil || len(got.Frames) != len(want.Frames) {
					res.fail(c, "C15", fmt.Sprintf("%s: exception %d does not carry the frames of layer %T", st.Name, i, l), "C15:exception-frames")
					continue
				}
				// independently of the library's own stack conversion: a local layer's frames are
				// the program counters it captured, as the Go runtime resolves them
				if sp, ok := l.(errbase.StackTraceProvider); ok && st.Name == "local" {
					pcs := sp.StackTrace()
					if len(pcs) == len(got.Frames) {
						res.OracleEvals["C15.frames_vs_runtime"]++
						for j, fr := range pcs {
							pc := uintptr(fr) - 1
							fn := runtime.FuncForPC(pc)
							if fn == nil {
								continue
							}
							_, line := fn.FileLine(pc)
							g := got.Frames[len(pcs)-1-j]
							if g.Lineno != line || !strings.HasSuffix(fn.Name(), g.Function) {
								res.fail(c, "C15", fmt.Sprintf("%s: exception %d frame %d is %s:%d, the layer captured %s:%d", st.Name, i, j, g.Function, g.Lineno, fn.Name(), line), "C15:exception-frames-runtime")
								break
							}
						}
					}
				}
				for j := range want.Frames {
					if got.Frames[j].Function != want.Frames[j].Function || got.Frames[j].Lineno != want.Frames[j].Lineno ||
						got.Frames[j].Filename != want.Frames[j].Filename {
						res.fail(c, "C15", fmt.Sprintf("%s: exception %d frame %d differs from the layer's stack", st.Name, i, j), "C15:exception-frames")
						break
					}
				}
			}
		}
		for i, x := range ev.Exception {
			if x.Module != dom {
				res.fail(c, "C15", fmt.Sprintf("%s: exception %d module %q, domain %q", st.Name, i, x.Module, dom), "C15:module")
			}
		}
		// error types extra: one line per layer, innermost first, "type (family::ext)"
		// (compared as a whole: a mark extension may itself contain newlines, e.g. a domain)
		types, _ := extras["error types"].(string)
		var wantTypes strings.Builder
		for i := len(layers) - 1; i >= 0; i-- {
			sd := errbase.GetSafeDetails(layers[i])
			fm := "*"
			if sd.OriginalTypeName != sd.ErrorTypeMark.FamilyName {
				fm = sd.ErrorTypeMark.FamilyName
			}
			fmt.Fprintf(&wantTypes, "%s (%s::%s)\n", sd.OriginalTypeName, fm, sd.ErrorTypeMark.Extension)
		}
		if types != wantTypes.String() {
			d := firstDiff(types, wantTypes.String())
			res.fail(c, "C15", fmt.Sprintf("%s: the error types extra is not one 'type (family::ext)' line per layer, innermost first (differs at byte %d: %q vs %q)",
				st.Name, d, near(types, d), near(wantTypes.String(), d)), "C15:types-lines")
		}
	}
	// nil error: nothing
	if ev, ex := errors.BuildSentryReport(nil); ev != nil || ex != nil {
		res.fail(c, "C15", "BuildSentryReport(nil) returned something", "C15:nil")
	}
}
