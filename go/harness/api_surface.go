package main

import (
	"fmt"
	"reflect"
	"strings"
	"sync"
	"time"

	"github.com/cockroachdb/errors"
	"github.com/cockroachdb/errors/errbase"
	"github.com/cockroachdb/redact"
	"github.com/getsentry/sentry-go"
)

// The API surface around the modelled core: small exported functions that are defined in terms
// of the core (domain predicates, HasInterface, Opaque, UnimplementedErrorf, Redact,
// ReportError).  Each is compared, on the real objects of every generated case, with its
// documented definition over functions the model does cover.  Purely differential; the model
// does not print these.

// ---------------------------------------------------------------------
// domains: NotInDomain, EnsureNotInDomain, NamedDomain (C11: the domain annotation)

func oracleDomainAPI(res *Result, c *Case, pid string) {
	e := c.Err
	if e == nil {
		return
	}
	d := errors.GetDomain(e)
	other := errors.NamedDomain("some other domain")
	sets := [][]errors.Domain{{d}, {other}, {other, d}, {}, {errors.NoDomain}}
	for i, ds := range sets {
		want := true
		for _, x := range ds {
			if x == d {
				want = false
			}
		}
		res.OracleEvals[pid+".domain_api"]++
		var got bool
		if ok, pv := catch(func() { got = errors.NotInDomain(e, ds...) }); !ok || got != want {
			res.fail(c, pid+".domain_api", fmt.Sprintf("NotInDomain(e, set %d) = %v (panic %v), the error's domain is %q", i, got, pv, d), pid+":notindomain")
		}
		calls := 0
		var seenDom errors.Domain
		var seenErr error
		repl := errors.New("replacement")
		var out error
		if ok, pv := catch(func() {
			out = errors.EnsureNotInDomain(e, func(od errors.Domain, oe error) error {
				calls++
				seenDom, seenErr = od, oe
				return repl
			}, ds...)
		}); !ok {
			res.fail(c, pid+".domain_api", fmt.Sprintf("EnsureNotInDomain panicked: %v", pv), pid+":ensurenotindomain")
			continue
		}
		if want {
			if calls != 0 || !safeEq(out, e) {
				res.fail(c, pid+".domain_api", fmt.Sprintf("EnsureNotInDomain(e, set %d): e is not in the set but the result is not e itself (constructor calls %d)", i, calls), pid+":ensurenotindomain")
			}
		} else if calls != 1 || seenDom != d || !safeEq(seenErr, e) || out != repl {
			res.fail(c, pid+".domain_api", fmt.Sprintf("EnsureNotInDomain(e, set %d): e is in the set; constructor calls %d with domain %q", i, calls, seenDom), pid+":ensurenotindomain")
		}
	}
	res.OracleEvals[pid+".domain_api"]++
	if errors.EnsureNotInDomain(nil, func(errors.Domain, error) error { return errors.New("x") }, d) != nil {
		res.fail(c, pid+".domain_api", "EnsureNotInDomain(nil) is not nil", pid+":ensurenotindomain-nil")
	}
	if errors.NamedDomain("a b") != errors.Domain(`error domain: "a b"`) {
		res.fail(c, pid+".domain_api", "NamedDomain", pid+":nameddomain")
	}
}

// ---------------------------------------------------------------------
// markers: HasInterface, HasType, If walk the single-cause chain (C14 / C08)

type hasUnwrapMulti interface{ Unwrap() []error }

func oracleHasInterface(res *Result, c *Case, pid string) {
	e := c.Err
	if e == nil {
		return
	}
	type probe struct {
		name string
		ref  interface{}
		typ  reflect.Type
	}
	probes := []probe{
		{"SafeDetailer", (*errbase.SafeDetailer)(nil), reflect.TypeOf((*errbase.SafeDetailer)(nil)).Elem()},
		{"Unwrap() []error", (*hasUnwrapMulti)(nil), reflect.TypeOf((*hasUnwrapMulti)(nil)).Elem()},
		{"fmt.Formatter", (*fmt.Formatter)(nil), reflect.TypeOf((*fmt.Formatter)(nil)).Elem()},
		{"SafeFormatter", (*errbase.SafeFormatter)(nil), reflect.TypeOf((*errbase.SafeFormatter)(nil)).Elem()},
	}
	for _, p := range probes {
		want := false
		for x := e; x != nil; x = errbase.UnwrapOnce(x) {
			if reflect.TypeOf(x).Implements(p.typ) {
				want = true
			}
		}
		res.OracleEvals[pid+".has_interface"]++
		var got bool
		if ok, pv := catch(func() { got = errors.HasInterface(e, p.ref) }); !ok || got != want {
			res.fail(c, pid+".has_interface", fmt.Sprintf("HasInterface(e, %s) = %v (panic %v), a chain walk says %v", p.name, got, pv, want), pid+":hasinterface")
		}
	}
	// HasType with every layer of the chain and one absent type
	for x := e; x != nil; x = errbase.UnwrapOnce(x) {
		res.OracleEvals[pid+".has_type"]++
		var got bool
		if ok, _ := catch(func() { got = errors.HasType(e, x) }); !ok || !got {
			res.fail(c, pid+".has_type", fmt.Sprintf("HasType(e, layer %T) = %v", x, got), pid+":hastype")
		}
	}
	absent := true
	for x := e; x != nil; x = errbase.UnwrapOnce(x) {
		if reflect.TypeOf(x) == reflect.TypeOf(&pickyCode{}) {
			absent = false
		}
	}
	if absent && errors.HasType(e, &pickyCode{}) {
		res.fail(c, pid+".has_type", "HasType(e, a type that is not in the chain) holds", pid+":hastype")
	}
	// If returns the first layer (outermost first) for which the predicate holds
	var first error
	for x := e; x != nil; x = errbase.UnwrapOnce(x) {
		if _, ok := x.(errbase.SafeDetailer); ok {
			first = x
			break
		}
	}
	res.OracleEvals[pid+".if"]++
	v, ok := errors.If(e, func(x error) (interface{}, bool) {
		if _, ok := x.(errbase.SafeDetailer); ok {
			return x, true
		}
		return nil, false
	})
	if ok != (first != nil) || (ok && !safeEq(v.(error), first)) {
		res.fail(c, pid+".if", "If does not return the outermost matching layer", pid+":if")
	}
}

// ---------------------------------------------------------------------
// Opaque = barriers.Handled; UnimplementedErrorf = UnimplementedError of the formatted text (C07 / C10)

func oracleAliases(res *Result, c *Case, pid string) {
	e := c.Err
	if e == nil {
		return
	}
	res.OracleEvals[pid+".opaque_alias"]++
	var a, b error
	if ok, pv := catch(func() { a, b = errors.Opaque(e), errors.Handled(e) }); !ok || a == nil || b == nil {
		res.fail(c, pid+".opaque_alias", fmt.Sprintf("Opaque panicked or returned nil: %v", pv), pid+":opaque")
		return
	}
	if fmt.Sprintf("%T|%s|%+v", a, a, a) != fmt.Sprintf("%T|%s|%+v", b, b, b) || errbase.UnwrapOnce(a) != nil || accSX(a).String() != accSX(b).String() {
		res.fail(c, pid+".opaque_alias", "Opaque(e) differs from Handled(e)", pid+":opaque")
	}
	res.OracleEvals[pid+".unimplementedf"]++
	link := errors.IssueLink{IssueURL: "https://issues/7", Detail: "d"}
	u1 := errors.UnimplementedErrorf(link, "feature %s: %d%%", "x y", 5)
	u2 := errors.UnimplementedError(link, "feature x y: 5%")
	if fmt.Sprintf("%T|%s|%+v", u1, u1, u1) != fmt.Sprintf("%T|%s|%+v", u2, u2, u2) || accSX(u1).String() != accSX(u2).String() || encSX(u1).String() != encSX(u2).String() {
		res.fail(c, pid+".unimplementedf", "UnimplementedErrorf differs from UnimplementedError of the formatted text", pid+":unimplementedf")
	}
}

// ---------------------------------------------------------------------
// ReportError = BuildSentryReport + extras merged + hostname redacted + tag (C15)

var (
	sentryOnce   sync.Once
	sentryMu     sync.Mutex
	sentryEvents []*sentry.Event
)

type captureTransport struct{}

func (captureTransport) Flush(time.Duration) bool         { return true }
func (captureTransport) Configure(sentry.ClientOptions) {}
func (captureTransport) SendEvent(ev *sentry.Event) {
	sentryMu.Lock()
	sentryEvents = append(sentryEvents, ev)
	sentryMu.Unlock()
}

func oracleReportError(res *Result, c *Case, pid string) {
	e := c.Err
	if e == nil {
		return
	}
	ready := true
	sentryOnce.Do(func() {
		client, err := sentry.NewClient(sentry.ClientOptions{
			Transport: captureTransport{},
			// no event processors: the event is compared as ReportError hands it over
			Integrations: func([]sentry.Integration) []sentry.Integration { return nil },
		})
		if err != nil {
			ready = false
			return
		}
		sentry.CurrentHub().BindClient(client)
	})
	if !ready || sentry.CurrentHub().Client() == nil {
		return
	}
	sentryMu.Lock()
	sentryEvents = nil
	sentryMu.Unlock()
	var id string
	var want *sentry.Event
	var extras map[string]interface{}
	if ok, pv := catch(func() {
		want, extras = errors.BuildSentryReport(e)
		id = errors.ReportError(e)
	}); !ok {
		res.fail(c, pid+".report_error", fmt.Sprintf("ReportError panicked: %v", pv), pid+":reporterror-panic")
		return
	}
	res.OracleEvals[pid+".report_error"]++
	sentryMu.Lock()
	evs := sentryEvents
	sentryEvents = nil
	sentryMu.Unlock()
	if id == "" || len(evs) != 1 {
		res.fail(c, pid+".report_error", fmt.Sprintf("ReportError sent %d events, id %q", len(evs), id), pid+":reporterror-count")
		return
	}
	got := evs[0]
	var diffs []string
	if got.Message != want.Message {
		diffs = append(diffs, "message")
	}
	if len(got.Exception) != len(want.Exception) {
		diffs = append(diffs, "exception count")
	} else {
		for i := range got.Exception {
			a, b := got.Exception[i], want.Exception[i]
			if a.Type != b.Type || a.Value != b.Value || a.Module != b.Module || (a.Stacktrace == nil) != (b.Stacktrace == nil) ||
				(a.Stacktrace != nil && !sameFrames(a.Stacktrace.Frames, b.Stacktrace.Frames)) {
				diffs = append(diffs, fmt.Sprintf("exception %d", i))
			}
		}
	}
	for k, v := range extras {
		if fmt.Sprint(got.Extra[k]) != fmt.Sprint(v) {
			diffs = append(diffs, "extra "+k)
		}
	}
	for k, v := range want.Extra {
		if fmt.Sprint(got.Extra[k]) != fmt.Sprint(v) {
			diffs = append(diffs, "event extra "+k)
		}
	}
	if got.ServerName != "<redacted>" {
		diffs = append(diffs, "server name not redacted")
	}
	if got.Tags["report_type"] != "error" {
		diffs = append(diffs, "report_type tag")
	}
	if len(diffs) > 0 {
		res.fail(c, pid+".report_error", "the event sent by ReportError differs from BuildSentryReport: "+strings.Join(diffs, ", "), pid+":reporterror")
	}
}

// redactAPI: errors.Redact(x) = redact.Sprint(x).Redact().StripMarkers() (declared PII-free)
func redactAPI(e error) string {
	return errors.Redact(e)
}

func redactAPIReference(e error) string {
	return redact.Sprint(e).Redact().StripMarkers()
}

func sameFrames(a, b []sentry.Frame) bool {
	if len(a) != len(b) {
		return false
	}
	for i := range a {
		if a[i].Function != b[i].Function || a[i].Module != b[i].Module || a[i].Filename != b[i].Filename ||
			a[i].AbsPath != b[i].AbsPath || a[i].Lineno != b[i].Lineno {
			return false
		}
	}
	return true
}
