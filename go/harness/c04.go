package main

import (
	"os"
	"fmt"
	"sort"
	"strings"

	"github.com/cockroachdb/errors/errbase"
)

// C04: unknown error types pass through a process losslessly.

func familiesOf(e error) []string {
	seen := map[string]bool{}
	var walk func(e error)
	walk = func(e error) {
		for _, n := range nodesOfErr(e, nil) {
			seen[string(errbase.GetTypeKey(n))] = true
		}
	}
	walk(e)
	// hidden sub-errors: look at the wire
	var wk func(x SX)
	wk = func(x SX) {
		if x.Kind != 'l' || len(x.L) == 0 {
			return
		}
		switch x.L[0].Sym {
		case "L":
			seen[x.L[2].L[2].Str] = true
			for _, h := range x.L[3].L {
				wk(h)
			}
			for _, c := range x.L[4].L {
				wk(c)
			}
		case "W":
			seen[x.L[2].L[2].Str] = true
			for _, h := range x.L[4].L {
				wk(h)
			}
			wk(x.L[5])
		}
	}
	wk(encSX(e))
	var out []string
	for k := range seen {
		out = append(out, k)
	}
	sort.Strings(out)
	return out
}

func obsCase4(e error, unknown []string) SX {
	hopU := func(x error) (error, bool) {
		var r error
		ok, _ := catch(func() { r = hopReal(x, unknown) })
		return r, ok
	}
	hopK := func(x error) (error, bool) {
		var r error
		ok, _ := catch(func() { r = hopReal(x, nil) })
		return r, ok
	}
	on := func(x error, ok bool, f func(error) SX) SX {
		if !ok {
			return L(Sym("panic"))
		}
		return optSX(func() SX { return f(x) })
	}
	u1, ok1 := hopU(e)
	var u2, k1 error
	ok2, ok3 := false, false
	if ok1 {
		u2, ok2 = hopU(u1)
	}
	if ok2 {
		k1, ok3 = hopK(u2)
	}
	d1, okd := hopK(e)
	return L(Sym("res"),
		L(Sym("tree"), optSX(func() SX { return treeSX(e) })),
		L(Sym("enc0"), optSX(func() SX { return encSX(e) })),
		L(Sym("utree"), on(u1, ok1, treeSX)),
		L(Sym("uenc"), on(u1, ok1, encSX)),
		L(Sym("u2enc"), on(u2, ok2, encSX)),
		L(Sym("uacc"), on(u1, ok1, accSX)),
		L(Sym("ktree"), on(k1, ok3, treeSX)),
		L(Sym("kenc"), on(k1, ok3, encSX)),
		L(Sym("kacc"), on(k1, ok3, accSX)),
		L(Sym("dtree"), on(d1, okd, treeSX)),
		L(Sym("denc"), on(d1, okd, encSX)),
		L(Sym("dacc"), on(d1, okd, accSX)),
		// real-only observations for the direct oracle: the extension of the type mark of every layer
		L(Sym("real-exts0"), optSX(func() SX { return extsSX(e) })),
		L(Sym("real-uexts"), on(u1, ok1, extsSX)),
	)
}

// extsSX: the extension part of the type mark of every visible layer (what a WithDomain layer or a
// type with an ErrorKeyMarker adds to its family name).
func extsSX(e error) SX {
	var out []SX
	for _, n := range nodesOfErr(e, nil) {
		out = append(out, Str(errbase.GetTypeMark(n).Extension))
	}
	return L(out...)
}

func subsets(fams []string, rng *RNG, all bool, max int) [][]string {
	n := len(fams)
	var out [][]string
	if all && n <= 10 {
		for m := 1; m < (1 << n); m++ {
			var s []string
			for i := 0; i < n; i++ {
				if m&(1<<i) != 0 {
					s = append(s, fams[i])
				}
			}
			out = append(out, s)
		}
		return out
	}
	out = append(out, append([]string{}, fams...)) // knows nothing
	for i := range fams {                          // each single family
		if len(out) >= max {
			break
		}
		out = append(out, []string{fams[i]})
	}
	for len(out) < max {
		var s []string
		for i := 0; i < n; i++ {
			if rng.Bool() {
				s = append(s, fams[i])
			}
		}
		if len(s) > 0 {
			out = append(out, s)
		}
	}
	return out
}

func c04Cases(g *Gen, n int, thorough bool) []*Case {
	var cases []*Case
	id := 0
	mk := func(rec *R, perTree int) {
		e, bp := Build(rec)
		if bp != nil || e == nil {
			return
		}
		fams := familiesOf(e)
		for _, u := range subsets(fams, g.rng, thorough, perTree) {
			c := &Case{ID: fmt.Sprintf("q%d", id), Rec: rec, Err: e}
			id++
			c.Cmd = L(Sym("case4"), rec.ToSX(), Strs(u))
			c.Real = obsCase4(e, u)
			c.Tags = u
			cases = append(cases, c)
		}
	}
	// every kind once, over canonical leaves
	for _, op := range leafOps {
		mk(g.WrapOp("hint", g.LeafOp(op), 2), 2)
	}
	for _, op := range wrapOps {
		mk(g.WrapOp(op, g.LeafOp("new"), 2), 3)
	}
	// multi-cause nodes with a single branch (Join(nil, x), a foreign type with one cause)
	mk(g.MultiOp("joinraw", []*R{g.LeafOp("new")}), 3)
	mk(g.MultiOp("umulti", []*R{g.WrapOp("hint", g.LeafOp("goerr"), 2)}), 3)
	mk(g.WrapOp("wrap", g.MultiOp("stdjoin", []*R{g.LeafOp("sentinel")}), 2), 3)
	mk(g.node("newfw", []string{"ctx: %w"}, nil, g.LeafOp("new")), 4)
	mk(g.node("newfe", []string{"failed %v"}, nil, g.LeafOp("goerr")), 4)
	for _, op := range multiOps {
		mk(g.MultiOp(op, []*R{g.LeafOp("new"), g.WrapOp("wrap", g.LeafOp("goerr"), 2)}), 3)
	}
	for i := 0; i < n; i++ {
		per := 3
		if thorough {
			per = 64
		}
		mk(g.Tree(1+g.rng.Intn(g.maxDepth)), per)
	}
	return cases
}

func sigKinds(unknown []string) string {
	if len(unknown) == 1 {
		return keyClass(unknown[0])
	}
	return "several"
}

func oracleC04(res *Result, c *Case) {
	r := c.Real
	t0 := stripTypes(field(r, "tree")).String()
	// (1) the unknowing process shows the same text at every node
	res.OracleEvals["C04.text_at_unknowing"]++
	textCulprit := ""
	if ut := field(r, "utree"); isPanic(ut) {
		res.fail(c, "C04.no_panic", "decode at the unknowing process panicked", "C04:panic")
		return
	} else if stripTypes(ut).String() != t0 {
		textCulprit = "C04:text:" + firstDiffKind(field(r, "tree"), ut)
		if os.Getenv("VERIF_DEBUG") != "" && c.NoModel {
			fmt.Fprintf(os.Stderr, "DEBUG C04 text: %s unknown=%v\n", c.Rec.Op, c.Tags)
		}
		res.fail(c, "C04.text_at_unknowing", fmt.Sprintf("origin %s unknowing %s", t0, stripTypes(ut)), textCulprit)
	}
	// A wrapper that the intermediary does know re-computes its wire message from the
	// text of its children there: when a child already shows a different text, a
	// difference confined to such a message field is the same failure, not a new one.
	consequence := func(sig string) string {
		if textCulprit != "" && strings.HasSuffix(sig, "/message") {
			return textCulprit + ":reencode"
		}
		return sig
	}
	// (2) type names, marks, safe details kept and the message re-encoded exactly
	res.OracleEvals["C04.reencode_exact"]++
	// The same consequence inside a hidden chain (the payload of a barrier or of a secondary-error
	// wrapper the intermediary knows): the visible tree does not show it, so the culprit is looked
	// for in the received message: an unknown barrier / gRPC status layer below the node whose
	// recomputed message differs.
	hiddenConsequence := func(prefix string, a, b SX) string {
		sig, node, hidden := firstDiffWireDeep(a, b, false)
		if hidden && strings.HasSuffix(sig, "/message") {
			if cul := unknownTextCulprit(node, c.Tags); cul != "" {
				return "C04:text:" + cul + ":reencode"
			}
		}
		return consequence(prefix + sig)
	}
	if field(r, "uenc").String() != field(r, "enc0").String() {
		res.fail(c, "C04.reencode_exact", "re-encoding at the unknowing process differs from the received message", hiddenConsequence("C04:reencode:", field(r, "enc0"), field(r, "uenc")))
	}
	res.OracleEvals["C04.reencode_exact_2nd"]++
	if field(r, "u2enc").String() != field(r, "uenc").String() {
		res.fail(c, "C04.reencode_exact_2nd", "second unknowing intermediary changes the message", hiddenConsequence("C04:reencode2:", field(r, "uenc"), field(r, "u2enc")))
	}
	// (2b) the unknowing process sees the same mark extension on every layer (an unknown layer keeps
	// the extension it was encoded with)
	res.OracleEvals["C04.extension_at_unknowing"]++
	if a, b := field(r, "real-exts0").String(), field(r, "real-uexts").String(); a != b {
		res.fail(c, "C04.extension_at_unknowing", fmt.Sprintf("mark extensions per layer: origin %s unknowing %s", a, b), "C04:extension")
	}
	// (3) a later knowing process reconstructs the same error as if it had received it directly
	res.OracleEvals["C04.later_knowing"]++
	for _, pr := range [][2]string{{"ktree", "dtree"}, {"kenc", "denc"}, {"kacc", "dacc"}} {
		if field(r, pr[0]).String() != field(r, pr[1]).String() {
			res.fail(c, "C04.later_knowing", pr[0]+" differs from "+pr[1], "C04:later:"+pr[0])
			break
		}
	}
}

// firstDiffKind names the %T of the innermost node whose text differs while the texts
// of all its children agree (the layer that mis-renders).
func firstDiffKind(a, b SX) string {
	if a.Kind != 'l' || b.Kind != 'l' || len(a.L) != 4 || len(b.L) != 4 {
		return "?"
	}
	for i := range a.L[3].L {
		if i < len(b.L[3].L) {
			if k := firstDiffKind(a.L[3].L[i], b.L[3].L[i]); k != "" {
				return k
			}
		}
	}
	if len(a.L[3].L) != len(b.L[3].L) {
		return a.L[2].Str + "/shape"
	}
	if a.L[1].Str != b.L[1].Str {
		return a.L[2].Str
	}
	return ""
}

// firstDiffWire names the family of the outermost wire node that differs.
func firstDiffWire(a, b SX) string {
	if a.Kind != 'l' || b.Kind != 'l' || len(a.L) == 0 || len(b.L) == 0 || a.L[0].Sym != b.L[0].Sym {
		return "shape"
	}
	fam := func(x SX) string { return keyClass(x.L[2].L[2].Str) }
	switch a.L[0].Sym {
	case "L":
		if a.L[1].String() != b.L[1].String() {
			return fam(a) + "/message"
		}
		if a.L[2].String() != b.L[2].String() {
			return fam(a) + "/details"
		}
		if a.L[3].String() != b.L[3].String() {
			return fam(a) + "/payload"
		}
		for i := range a.L[4].L {
			if i < len(b.L[4].L) && a.L[4].L[i].String() != b.L[4].L[i].String() {
				return firstDiffWire(a.L[4].L[i], b.L[4].L[i])
			}
		}
		return fam(a) + "/causes"
	case "W":
		if a.L[1].String() != b.L[1].String() {
			return fam(a) + "/message"
		}
		if a.L[2].String() != b.L[2].String() {
			return fam(a) + "/details"
		}
		if a.L[3].String() != b.L[3].String() {
			return fam(a) + "/messagetype"
		}
		if a.L[4].String() != b.L[4].String() {
			return fam(a) + "/payload"
		}
		return firstDiffWire(a.L[5], b.L[5])
	}
	return "?"
}

// wireChildren lists the wire nodes directly below a wire node: its cause(s) and, when its payload
// is a hidden chain, the nodes of that payload.
func wirePayload(x SX) []SX {
	i := 3
	if x.L[0].Sym == "W" {
		i = 4
	}
	if i < len(x.L) && x.L[i].Kind == 'l' {
		var out []SX
		for _, p := range x.L[i].L {
			if p.Kind == 'l' && len(p.L) > 0 && (p.L[0].Sym == "L" || p.L[0].Sym == "W") {
				out = append(out, p)
			}
		}
		return out
	}
	return nil
}

func wireCauses(x SX) []SX {
	if x.L[0].Sym == "W" {
		return []SX{x.L[5]}
	}
	return x.L[4].L
}

// firstDiffWireDeep is firstDiffWire descending into hidden chains carried as payloads: it names
// the family and field of the innermost differing node, returns that node (in a) and whether it
// lies inside a payload.
func firstDiffWireDeep(a, b SX, hidden bool) (string, SX, bool) {
	if a.Kind != 'l' || b.Kind != 'l' || len(a.L) == 0 || len(b.L) == 0 || a.L[0].Sym != b.L[0].Sym || (a.L[0].Sym != "L" && a.L[0].Sym != "W") {
		return "shape", a, hidden
	}
	sig := firstDiffWireShallow(a, b)
	switch {
	case strings.HasSuffix(sig, "/payload"):
		pa, pb := wirePayload(a), wirePayload(b)
		if len(pa) == len(pb) && len(pa) > 0 {
			for i := range pa {
				if pa[i].String() != pb[i].String() {
					return firstDiffWireDeep(pa[i], pb[i], true)
				}
			}
		}
		return sig, a, hidden
	case sig == "":
		ca, cb := wireCauses(a), wireCauses(b)
		for i := range ca {
			if i < len(cb) && ca[i].String() != cb[i].String() {
				return firstDiffWireDeep(ca[i], cb[i], hidden)
			}
		}
		return keyClass(a.L[2].L[2].Str) + "/causes", a, hidden
	}
	return sig, a, hidden
}

// firstDiffWireShallow: the first differing own field of two wire nodes of the same kind ("" = none).
func firstDiffWireShallow(a, b SX) string {
	fam := keyClass(a.L[2].L[2].Str)
	names := []string{"", "/message", "/details", "/payload"}
	if a.L[0].Sym == "W" {
		names = []string{"", "/message", "/details", "/messagetype", "/payload"}
	}
	for i := 1; i < len(names); i++ {
		if a.L[i].String() != b.L[i].String() {
			return fam + names[i]
		}
	}
	return ""
}

// unknownTextCulprit: a layer below x (causes and hidden chains included) of a type whose text is
// known to differ at a process that does not know it (findings D7, D13) and that is unknown here.
func unknownTextCulprit(x SX, unknown []string) string {
	if x.Kind != 'l' || len(x.L) < 3 || (x.L[0].Sym != "L" && x.L[0].Sym != "W") {
		return ""
	}
	var below []SX
	below = append(below, wireCauses(x)...)
	below = append(below, wirePayload(x)...)
	for _, y := range below {
		if y.Kind != 'l' || len(y.L) < 3 {
			continue
		}
		tn, fam := y.L[2].L[1].Str, y.L[2].L[2].Str
		if i := strings.LastIndex(tn, "/"); i >= 0 {
			tn = tn[i+1:]
		}
		if tn == "*status.Error" || tn == "*status.statusError" || tn == "*barriers.barrierErr" {
			for _, u := range unknown {
				if u == fam {
					return tn
				}
			}
		}
		if c := unknownTextCulprit(y, unknown); c != "" {
			return c
		}
	}
	return ""
}
