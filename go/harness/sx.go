package main

import (
	"encoding/hex"
	"strconv"
	"strings"
)

// SX is the S-expression value shared with the Lean driver.
// Atoms: s<hex> byte strings, n<dec> naturals, bare symbols.
type SX struct {
	Kind byte // 'y' sym, 's' str, 'n' nat, 'l' list
	Sym  string
	Str  string
	Nat  int
	L    []SX
}

func Sym(s string) SX  { return SX{Kind: 'y', Sym: s} }
func Str(s string) SX  { return SX{Kind: 's', Str: s} }
func Nat(n int) SX     { return SX{Kind: 'n', Nat: n} }
func L(xs ...SX) SX    { return SX{Kind: 'l', L: xs} }
func Bool(b bool) SX {
	if b {
		return Nat(1)
	}
	return Nat(0)
}
func Strs(ss []string) SX {
	l := make([]SX, len(ss))
	for i, s := range ss {
		l[i] = Str(s)
	}
	return SX{Kind: 'l', L: l}
}

func (x SX) write(b *strings.Builder, spaced bool) {
	switch x.Kind {
	case 'y':
		b.WriteString(x.Sym)
	case 's':
		b.WriteByte('s')
		b.WriteString(hex.EncodeToString([]byte(x.Str)))
	case 'n':
		b.WriteByte('n')
		b.WriteString(strconv.Itoa(x.Nat))
	case 'l':
		b.WriteByte('(')
		for i, e := range x.L {
			if i > 0 || spaced {
				b.WriteByte(' ')
			}
			e.write(b, spaced)
		}
		if spaced {
			b.WriteByte(' ')
		}
		b.WriteByte(')')
	}
}

// String prints compactly, exactly as the Lean side prints: "(a b (c))".
func (x SX) String() string {
	var b strings.Builder
	x.write(&b, false)
	return b.String()
}

// Spaced prints with every token separated by a space (what the Lean parser reads).
func (x SX) Spaced() string {
	var b strings.Builder
	x.write(&b, true)
	return b.String()
}

// ParseSX parses the compact or spaced form.
func ParseSX(s string) (SX, bool) {
	toks := tokenize(s)
	xs, rest, ok := parseToks(toks)
	if !ok || len(rest) != 0 || len(xs) != 1 {
		return SX{}, false
	}
	return xs[0], true
}

func tokenize(s string) []string {
	var toks []string
	cur := strings.Builder{}
	flush := func() {
		if cur.Len() > 0 {
			toks = append(toks, cur.String())
			cur.Reset()
		}
	}
	for i := 0; i < len(s); i++ {
		c := s[i]
		switch c {
		case '(', ')':
			flush()
			toks = append(toks, string(c))
		case ' ', '\n', '\t', '\r':
			flush()
		default:
			cur.WriteByte(c)
		}
	}
	flush()
	return toks
}

func parseToks(toks []string) ([]SX, []string, bool) {
	var out []SX
	for len(toks) > 0 {
		t := toks[0]
		switch {
		case t == ")":
			return out, toks, true
		case t == "(":
			inner, rest, ok := parseToks(toks[1:])
			if !ok || len(rest) == 0 || rest[0] != ")" {
				return nil, nil, false
			}
			out = append(out, SX{Kind: 'l', L: inner})
			toks = rest[1:]
		default:
			if t[0] == 's' {
				if b, err := hex.DecodeString(t[1:]); err == nil {
					out = append(out, Str(string(b)))
					toks = toks[1:]
					continue
				}
			}
			if t[0] == 'n' {
				if n, err := strconv.Atoi(t[1:]); err == nil {
					out = append(out, Nat(n))
					toks = toks[1:]
					continue
				}
			}
			out = append(out, Sym(t))
			toks = toks[1:]
		}
	}
	return out, nil, true
}

// Field returns the list element (name ...) of a (head f1 f2 ...) list.
func (x SX) Field(name string) (SX, bool) {
	for _, e := range x.L {
		if e.Kind == 'l' && len(e.L) > 0 && e.L[0].Kind == 'y' && e.L[0].Sym == name {
			return e, true
		}
	}
	return SX{}, false
}
