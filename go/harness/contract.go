package main

import (
	"fmt"
	"strings"

	"github.com/cockroachdb/redact"
)

// The redact contract stream: random sequences of safe / unsafe / pre-redactable
// segments over the hostile alphabet, assembled by the real redact package and by the
// model (Basic/Redact.lean); plus StripMarkers, Redact and EscapeBytes.

func contractCases(g *Gen, n int) []*Case {
	alphabet := append(append([]string{}, hostileWords...), "a", "b c", "x\ny", "tail\n", "‹open", "close›", "é", "\xe2\x80", "\xb9", "日本", "a\xc3", "\n\n\nz")
	var cases []*Case
	var pool []string // well-formed redactable strings produced so far
	for i := 0; i < n; i++ {
		k := 1 + g.rng.Intn(5)
		var segs []SX
		var args []interface{}
		for j := 0; j < k; j++ {
			s := alphabet[g.rng.Intn(len(alphabet))]
			switch g.rng.Intn(4) {
			case 0:
				segs = append(segs, L(Sym("lit"), Str(s)))
				args = append(args, redact.Safe(s))
			case 1, 2:
				segs = append(segs, L(Sym("arg"), Str(s)))
				args = append(args, s)
			default:
				if len(pool) > 0 && g.rng.Intn(3) > 0 {
					s = pool[g.rng.Intn(len(pool))]
				}
				segs = append(segs, L(Sym("pre"), Str(s)))
				args = append(args, redact.RedactableString(s))
			}
		}
		r := redact.Sprintf(strings.Repeat("%s", k), args...)
		if len(pool) < 200 {
			pool = append(pool, string(r))
		}
		all := ""
		for _, sg := range segs {
			all += sg.L[1].Str
		}
		c := &Case{ID: fmt.Sprintf("rc%d", i), Cmd: L(Sym("redact"), L(segs...))}
		c.Real = L(Sym("res"), L(Sym("r"), Str(string(r))), L(Sym("strip"), Str(r.StripMarkers())),
			L(Sym("redacted"), Str(string(r.Redact()))), L(Sym("escbytes"), Str(string(redact.EscapeBytes([]byte(all))))))
		cases = append(cases, c)
	}
	return cases
}
