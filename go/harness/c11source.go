package main

import (
	"fmt"

	"github.com/cockroachdb/errors"
	pkgErr "github.com/pkg/errors"
)

// One-line source of errors whose innermost stack was captured in a method, a closure or a
// generic function (C11: the one-line source location is identical before and after hops).
// Table-driven, model-free.

type srcT struct{}

//go:noinline
func (*srcT) ptrFail() error { return errors.New("ptr method") }

//go:noinline
func (srcT) valFail() error { return pkgErr.New("val method") }

//go:noinline
func genericFail[T any](x T) error { return errors.Newf("generic %v", x) }

func oracleC11Source(res *Result) {
	c := &Case{ID: "one-line-source", Cmd: L(Sym("one-line-source"))}
	closure := func() error { return errors.New("closure") }
	shapes := []namedErr{
		{"pointer method", (&srcT{}).ptrFail()},
		{"value method (pkg/errors leaf)", srcT{}.valFail()},
		{"closure", closure()},
		{"nested closure", func() error { return func() error { return errors.WithStack(fmt.Errorf("x")) }() }()},
		{"generic", genericFail(3)},
		{"method under annotations", errors.WithHint(errors.WithDetail((&srcT{}).ptrFail(), "d"), "h")},
		{"method under wrap", errors.Wrap((&srcT{}).ptrFail(), "ctx")},
		{"method in join", errors.Join((&srcT{}).ptrFail(), errors.New("other"))},
	}
	src := func(e error) string {
		file, line, fn, ok := errors.GetOneLineSource(e)
		return fmt.Sprintf("%s:%d %s %v", file, line, fn, ok)
	}
	for _, sh := range shapes {
		want := ""
		if ok, _ := catch(func() { want = src(sh.e) }); !ok {
			res.fail(c, "C11.one_line_source", sh.name+": GetOneLineSource panics", "C11:source:panic")
			continue
		}
		for k := 1; k <= 3; k++ {
			res.OracleEvals["C11.one_line_source"]++
			d, ok := hopsReal(sh.e, k)
			if !ok || d == nil {
				res.fail(c, "C11.one_line_source", sh.name+": hop panics", "C11:source:panic")
				break
			}
			if got := src(d); got != want {
				res.fail(c, "C11.one_line_source", fmt.Sprintf("%s: one-line source %q before, %q after %d hop(s)", sh.name, want, got, k), "C11:source")
				break
			}
		}
	}
}

//go:noinline
func deepNew(n int) error {
	if n == 0 {
		return errors.New("deep origin")
	}
	return deepNew(n - 1)
}

//go:noinline
func deepPkgNew(n int) error {
	if n == 0 {
		return pkgErr.WithStack(fmt.Errorf("deep pkg origin"))
	}
	return deepPkgNew(n - 1)
}

// oracleC11DeepStacks: stacks captured under 10 … 70 frames (the library records at most 32): every
// frame of every reportable stack trace is the same before and after hops.
func oracleC11DeepStacks(res *Result) {
	c := &Case{ID: "deep-stacks", Cmd: L(Sym("deep-stacks"))}
	frames := func(e error) string {
		var sb []byte
		for l := e; l != nil; l = errors.UnwrapOnce(l) {
			st := errors.GetReportableStackTrace(l)
			if st == nil {
				continue
			}
			sb = append(sb, fmt.Sprintf("[%d frames]", len(st.Frames))...)
			for _, f := range st.Frames {
				sb = append(sb, fmt.Sprintf("%s|%s|%d;", f.Function, f.Filename, f.Lineno)...)
			}
		}
		return string(sb)
	}
	for _, depth := range []int{10, 25, 31, 32, 33, 40, 70} {
		for _, sh := range []namedErr{
			{"New", deepNew(depth)},
			{"pkg WithStack", deepPkgNew(depth)},
			{"Wrap(New)", errors.Wrap(deepNew(depth), "ctx")},
		} {
			want := frames(sh.e)
			for k := 1; k <= 2; k++ {
				res.OracleEvals["C11.deep_stack_frames"]++
				d, ok := hopsReal(sh.e, k)
				if !ok || d == nil {
					res.fail(c, "C11.deep_stack_frames", sh.name+": hop panics", "C11:deep-stack:panic")
					break
				}
				if got := frames(d); got != want {
					i := firstDiff(got, want)
					res.fail(c, "C11.deep_stack_frames", fmt.Sprintf("%s under %d frames: the reportable stack frames differ after %d hop(s) at byte %d: %q vs %q", sh.name, depth, k, i, near(got, i), near(want, i)), "C11:deep-stack")
					break
				}
			}
		}
	}
}
