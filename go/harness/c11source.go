package main

import (
	"fmt"
	"runtime"
	"strings"

	"github.com/cockroachdb/errors"
	pkgErr "github.com/pkg/errors"
)

// One-line source of errors whose innermost stack was captured in a method, a closure or a
// generic function (C11: the one-line source location is identical before and after hops).
// Table-driven, model-free.

type srcT struct{}

//go:noinline
func (*srcT) ptrFail() error { return errors.New("ptr method") }

//go:noinline
func (srcT) valFail() error { return pkgErr.New("val method") }

//go:noinline
func genericFail[T any](x T) error { return errors.Newf("generic %v", x) }

func oracleC11Source(res *Result) {
	c := &Case{ID: "one-line-source", Cmd: L(Sym("one-line-source"))}
	closure := func() error { return errors.New("closure") }
	shapes := []namedErr{
		{"pointer method", (&srcT{}).ptrFail()},
		{"value method (pkg/errors leaf)", srcT{}.valFail()},
		{"closure", closure()},
		{"nested closure", func() error { return func() error { return errors.WithStack(fmt.Errorf("x")) }() }()},
		{"generic", genericFail(3)},
		{"method under annotations", errors.WithHint(errors.WithDetail((&srcT{}).ptrFail(), "d"), "h")},
		{"method under wrap", errors.Wrap((&srcT{}).ptrFail(), "ctx")},
		{"method in join", errors.Join((&srcT{}).ptrFail(), errors.New("other"))},
	}
	src := func(e error) string {
		file, line, fn, ok := errors.GetOneLineSource(e)
		return fmt.Sprintf("%s:%d %s %v", file, line, fn, ok)
	}
	for _, sh := range shapes {
		want := ""
		if ok, _ := catch(func() { want = src(sh.e) }); !ok {
			res.fail(c, "C11.one_line_source", sh.name+": GetOneLineSource panics", "C11:source:panic")
			continue
		}
		for k := 1; k <= 3; k++ {
			res.OracleEvals["C11.one_line_source"]++
			d, ok := hopsReal(sh.e, k)
			if !ok || d == nil {
				res.fail(c, "C11.one_line_source", sh.name+": hop panics", "C11:source:panic")
				break
			}
			if got := src(d); got != want {
				res.fail(c, "C11.one_line_source", fmt.Sprintf("%s: one-line source %q before, %q after %d hop(s)", sh.name, want, got, k), "C11:source")
				break
			}
		}
	}
}

//go:noinline
func deepNew(n int) error {
	if n == 0 {
		return errors.New("deep origin")
	}
	return deepNew(n - 1)
}

//go:noinline
func deepPkgNew(n int) error {
	if n == 0 {
		return pkgErr.WithStack(fmt.Errorf("deep pkg origin"))
	}
	return deepPkgNew(n - 1)
}

// oracleC11DeepStacks: stacks captured under 10 … 70 frames (the library records at most 32): every
// frame of every reportable stack trace is the same before and after hops.
func oracleC11DeepStacks(res *Result) {
	c := &Case{ID: "deep-stacks", Cmd: L(Sym("deep-stacks"))}
	frames := func(e error) string {
		var sb []byte
		for l := e; l != nil; l = errors.UnwrapOnce(l) {
			st := errors.GetReportableStackTrace(l)
			if st == nil {
				continue
			}
			sb = append(sb, fmt.Sprintf("[%d frames]", len(st.Frames))...)
			for _, f := range st.Frames {
				sb = append(sb, fmt.Sprintf("%s|%s|%d;", f.Function, f.Filename, f.Lineno)...)
			}
		}
		return string(sb)
	}
	for _, depth := range []int{10, 25, 31, 32, 33, 40, 70} {
		for _, sh := range []namedErr{
			{"New", deepNew(depth)},
			{"pkg WithStack", deepPkgNew(depth)},
			{"Wrap(New)", errors.Wrap(deepNew(depth), "ctx")},
		} {
			want := frames(sh.e)
			for k := 1; k <= 2; k++ {
				res.OracleEvals["C11.deep_stack_frames"]++
				d, ok := hopsReal(sh.e, k)
				if !ok || d == nil {
					res.fail(c, "C11.deep_stack_frames", sh.name+": hop panics", "C11:deep-stack:panic")
					break
				}
				if got := frames(d); got != want {
					i := firstDiff(got, want)
					res.fail(c, "C11.deep_stack_frames", fmt.Sprintf("%s under %d frames: the reportable stack frames differ after %d hop(s) at byte %d: %q vs %q", sh.name, depth, k, i, near(got, i), near(want, i)), "C11:deep-stack")
					break
				}
			}
		}
	}
}

type gStore[T any] struct{ v T }

//go:noinline
func (*gStore[T]) lookup() error { return errors.New("generic receiver") }

//go:noinline
func (s gStore[T]) valLookup() error { return errors.WithStack(fmt.Errorf("generic value receiver %v", s.v)) }

//go:noinline
func genericClosure[T any](x T) error {
	f := func() error { return errors.Newf("closure in generic %v", x) }
	return f()
}

// oracleC11GenericReceivers: the innermost frame lies in a method of a generic type or in a closure
// inside a generic function: the function name the one-line source reports is the one the Go
// runtime gives for the captured PC, before and after hops.
func oracleC11GenericReceivers(res *Result) {
	c := &Case{ID: "generic-receivers", Cmd: L(Sym("generic-receivers"))}
	for _, sh := range []namedErr{
		{"(*gStore[int]).lookup", (&gStore[int]{}).lookup()},
		{"gStore[string].valLookup", gStore[string]{"s"}.valLookup()},
		{"closure in generic function", genericClosure(1)},
		{"Wrap((*gStore[int]).lookup)", errors.Wrap((&gStore[int]{}).lookup(), "ctx")},
	} {
		res.OracleEvals["C11.generic_receivers"]++
		// the runtime's name of the innermost captured frame
		want := ""
		for l := sh.e; l != nil; l = errors.UnwrapOnce(l) {
			if sp, ok := l.(interface{ StackTrace() pkgErr.StackTrace }); ok && len(sp.StackTrace()) > 0 {
				pc := uintptr(sp.StackTrace()[0]) - 1
				if fn := runtime.FuncForPC(pc); fn != nil {
					want = fn.Name()
				}
			}
		}
		_, _, fn, ok := errors.GetOneLineSource(sh.e)
		// the reported name is the runtime's name after its last '.', with a trailing "[...]" kept or not
		// by the library consistently; what must hold: it is a suffix-segment of the runtime's name that
		// contains the method / closure name itself
		last := want
		if i := strings.LastIndex(strings.TrimSuffix(want, "[...]"), "."); i >= 0 {
			last = want[i+1:]
		}
		if !ok || fn == "" || !strings.Contains(want, fn) || !strings.Contains(fn, strings.TrimSuffix(last, "[...]")) {
			res.fail(c, "C11.generic_receivers", fmt.Sprintf("%s: one-line source names %q, the runtime names the frame %q", sh.name, fn, want), "C11:source-generic")
			continue
		}
		for k := 1; k <= 2; k++ {
			d, okh := hopsReal(sh.e, k)
			if !okh || d == nil {
				break
			}
			if _, _, fn2, ok2 := errors.GetOneLineSource(d); !ok2 || fn2 != fn {
				res.fail(c, "C11.generic_receivers", fmt.Sprintf("%s: one-line source function %q before, %q after %d hop(s)", sh.name, fn, fn2, k), "C11:source-generic-hop")
				break
			}
		}
	}
}

// oracleC11RawBytes: safe annotations whose strings are not valid UTF-8 (a telemetry key, a domain,
// an issue link, a safe detail): every accessor gives the same bytes before and after hops.
func oracleC11RawBytes(res *Result) {
	c := &Case{ID: "raw-bytes", Cmd: L(Sym("raw-bytes"))}
	base := func() error { return errors.New("base") }
	for _, sh := range []namedErr{
		{"telemetry key", errors.WithTelemetry(base(), "k\x80", "ok")},
		{"domain", errors.WithDomain(base(), errors.Domain("d\xff"))},
		{"issue link", errors.WithIssueLink(base(), errors.IssueLink{IssueURL: "http://x/\xc3", Detail: "det\xfe"})},
		{"safe details", errors.WithSafeDetails(base(), "v=%s", errors.Safe("\xe2\x82"))},
		{"hint and detail", errors.WithDetail(errors.WithHint(base(), "h\x80"), "d\x81")},
		{"U+FFFD itself", errors.WithTelemetry(base(), "k�")},
	} {
		want := accSX(sh.e).String()
		wantSD := fmt.Sprintf("%q", errors.GetAllSafeDetails(sh.e))
		for k := 1; k <= 3; k++ {
			res.OracleEvals["C11.raw_bytes"]++
			d, ok := hopsReal(sh.e, k)
			if !ok || d == nil {
				res.fail(c, "C11.raw_bytes", sh.name+": hop panics", "C11:raw-bytes:panic")
				break
			}
			if got := accSX(d).String(); got != want {
				i := firstDiff(got, want)
				res.fail(c, "C11.raw_bytes", fmt.Sprintf("%s: accessors differ after %d hop(s) at byte %d: %q vs %q", sh.name, k, i, near(got, i), near(want, i)), "C11:raw-bytes")
				break
			}
			if got := fmt.Sprintf("%q", errors.GetAllSafeDetails(d)); stripOpaqueNames(got) != stripOpaqueNames(wantSD) {
				res.fail(c, "C11.raw_bytes", fmt.Sprintf("%s: safe details differ after %d hop(s): %s vs %s", sh.name, k, got, wantSD), "C11:raw-bytes-details")
				break
			}
		}
	}
}

// stripOpaqueNames: nothing to strip (the original type name of every layer is kept by transfer);
// kept as a hook for the comparison above.
func stripOpaqueNames(s string) string { return s }
