package main

import (
	"fmt"

	"github.com/cockroachdb/errors"
	pkgErr "github.com/pkg/errors"
)

// One-line source of errors whose innermost stack was captured in a method, a closure or a
// generic function (C11: the one-line source location is identical before and after hops).
// Table-driven, model-free.

type srcT struct{}

//go:noinline
func (*srcT) ptrFail() error { return errors.New("ptr method") }

//go:noinline
func (srcT) valFail() error { return pkgErr.New("val method") }

//go:noinline
func genericFail[T any](x T) error { return errors.Newf("generic %v", x) }

func oracleC11Source(res *Result) {
	c := &Case{ID: "one-line-source", Cmd: L(Sym("one-line-source"))}
	closure := func() error { return errors.New("closure") }
	shapes := []namedErr{
		{"pointer method", (&srcT{}).ptrFail()},
		{"value method (pkg/errors leaf)", srcT{}.valFail()},
		{"closure", closure()},
		{"nested closure", func() error { return func() error { return errors.WithStack(fmt.Errorf("x")) }() }()},
		{"generic", genericFail(3)},
		{"method under annotations", errors.WithHint(errors.WithDetail((&srcT{}).ptrFail(), "d"), "h")},
		{"method under wrap", errors.Wrap((&srcT{}).ptrFail(), "ctx")},
		{"method in join", errors.Join((&srcT{}).ptrFail(), errors.New("other"))},
	}
	src := func(e error) string {
		file, line, fn, ok := errors.GetOneLineSource(e)
		return fmt.Sprintf("%s:%d %s %v", file, line, fn, ok)
	}
	for _, sh := range shapes {
		want := ""
		if ok, _ := catch(func() { want = src(sh.e) }); !ok {
			res.fail(c, "C11.one_line_source", sh.name+": GetOneLineSource panics", "C11:source:panic")
			continue
		}
		for k := 1; k <= 3; k++ {
			res.OracleEvals["C11.one_line_source"]++
			d, ok := hopsReal(sh.e, k)
			if !ok || d == nil {
				res.fail(c, "C11.one_line_source", sh.name+": hop panics", "C11:source:panic")
				break
			}
			if got := src(d); got != want {
				res.fail(c, "C11.one_line_source", fmt.Sprintf("%s: one-line source %q before, %q after %d hop(s)", sh.name, want, got, k), "C11:source")
				break
			}
		}
	}
}
