package main

import (
	"fmt"
	"os"
	"sort"
	"strings"
	"syscall"

	"github.com/cockroachdb/errors"
	"github.com/cockroachdb/errors/errorspb"
	"github.com/cockroachdb/errors/exthttp"
	"github.com/cockroachdb/errors/extgrpc"
	"github.com/cockroachdb/redact"
	"github.com/gogo/protobuf/proto"
)

// C05: the fault matrix applied to every key registered with a decoder.

type payFault struct {
	name string
	pay  SX
	hid  []SX
}

func simpleLeafSX(msg string) SX {
	return L(Sym("L"), Str(msg), L(Sym("D"), Str("errors/*errors.errorString"), Str("errors/*errors.errorString"), Str(""), L(), L(Sym("none"))), L(), L())
}

func payFaults() []payFault {
	pf := func(name string, p SX) payFault { return payFault{name: name, pay: p} }
	return []payFault{
		pf("absent", L(Sym("none"))),
		pf("str", L(Sym("str"), Str("x ‹y›"))),
		pf("str-empty", L(Sym("str"), Str(""))),
		pf("strs-0", L(Sym("strs"), L())),
		pf("strs-1", L(Sym("strs"), Strs([]string{"a"}))),
		pf("strs-2", L(Sym("strs"), Strs([]string{"a", "b"}))),
		pf("strs-3", L(Sym("strs"), Strs([]string{"a", "b", "c"}))),
		pf("strs-4", L(Sym("strs"), Strs([]string{"a", "b", "c", "d"}))),
		pf("mark-2", L(Sym("mark"), Str("m"), L(L(Str("f"), Str("e")), L(Str("g"), Str(""))))),
		pf("tags-2", L(Sym("tags"), L(L(Str("k"), Str("v")), L(Str("k"), Str("w"))))),
		pf("errno", L(Sym("errno"), Nat(2), Str("linux:amd64"), Nat(0), Nat(0), Nat(1), Nat(0), Nat(0))),
		pf("errno-otherarch", L(Sym("errno"), Nat(2), Str("plan9:mips"), Nat(0), Nat(0), Nat(1), Nat(0), Nat(0))),
		pf("mark-empty", L(Sym("mark"), Str(""), L())),
		pf("mark", L(Sym("mark"), Str("m"), L(L(Str("f"), Str("e"))))),
		pf("tags-0", L(Sym("tags"), L())),
		pf("tags-1", L(Sym("tags"), L(L(Str("k"), Str("v"))))),
		pf("http", L(Sym("http"), Nat(404))),
		pf("grpc", L(Sym("grpc"), Nat(3))),
		pf("status", L(Sym("status"), Nat(3), Str("m"), Nat(0))),
		pf("status-ok", L(Sym("status"), Nat(0), Str(""), Nat(0))),
		pf("testerr", L(Sym("testerr"))),
		{name: "encoded-error", pay: L(Sym("none")), hid: []SX{simpleLeafSX("hidden")}},
		pf("any-unregistered", L(Sym("raw"), Str("type.googleapis.com/does.not.Exist"), Str("\x01\x02"))),
		pf("any-garbage", L(Sym("raw"), Str("type.googleapis.com/cockroach.errorspb.StringPayload"), Str("\xff\xff\xff"))),
	}
}

var repFaults = [][]string{nil, {"r1"}, {"r1", "r2"}, {"r1", "r2", "r3"}}
var mtFaults = []int{0, 1, 7}

type c05Shape int

const (
	shapeLeaf c05Shape = iota
	shapeWrap
	shapeMulti
)

func faultWire(key string, shape c05Shape, pf payFault, rep []string, mt int) SX {
	det := L(Sym("D"), Str(key), Str(key), Str(""), Strs(rep), pf.pay)
	msg := syscall.Errno(2).Error()
	switch shape {
	case shapeWrap:
		return L(Sym("W"), Str(msg), det, Nat(mt), L(pf.hid...), simpleLeafSX("c"))
	case shapeMulti:
		return L(Sym("L"), Str(msg), det, L(pf.hid...), L(simpleLeafSX("c1"), simpleLeafSX("c2")))
	}
	return L(Sym("L"), Str(msg), det, L(pf.hid...), L())
}

// position embeds the faulty node somewhere in a carrier chain
func position(pos int, w SX) SX {
	hintDet := L(Sym("D"), Str("github.com/cockroachdb/errors/hintdetail/*hintdetail.withHint"),
		Str("github.com/cockroachdb/errors/hintdetail/*hintdetail.withHint"), Str(""), L(), L(Sym("str"), Str("h")))
	joinKey := "github.com/cockroachdb/errors/join/*join.joinError"
	barrierKeyS := "github.com/cockroachdb/errors/barriers/*barriers.barrierErr"
	unkDet := L(Sym("D"), Str("x/*x.Unk"), Str("x/*x.Unk"), Str(""), L(), L(Sym("none")))
	switch pos {
	case 1: // under a known wrapper
		return L(Sym("W"), Str(""), hintDet, Nat(0), L(), w)
	case 2: // branch of a multi-cause error of a type nobody knows
		return L(Sym("L"), Str("multi"), L(Sym("D"), Str("x/*x.UnkMulti"), Str("x/*x.UnkMulti"), Str(""), L(), L(Sym("none"))), L(), L(simpleLeafSX("first"), w))
	case 5: // branch of a Join
		return L(Sym("L"), Str(""), L(Sym("D"), Str(joinKey), Str(joinKey), Str(""), L(), L(Sym("none"))), L(), L(simpleLeafSX("first"), w))
	case 3: // hidden behind a barrier
		return L(Sym("L"), Str("masked"), L(Sym("D"), Str(barrierKeyS), Str(barrierKeyS), Str(""), L(), L(Sym("none"))), L(w), L())
	case 4: // cause of an unknown wrapper
		return L(Sym("W"), Str("unk"), unkDet, Nat(0), L(), w)
	}
	return w
}

var c05Verbs = []string{"%v", "%+v", "%s", "%q", "%x", "%X", "%#v", "%d", "%-20v", "%10.3s"}

// observe runs every observer on a decoded error; returns the first panicking one.
func observe(e error) (string, interface{}) {
	type obs struct {
		name string
		f    func()
	}
	var list []obs
	add := func(n string, f func()) { list = append(list, obs{n, f}) }
	add("Error", func() { _ = e.Error() })
	// fmt and redact recover panics raised inside Format methods and print them as
	// %!v(PANIC=...): that is still a panic of the formatting code.
	noPanicText := func(s string) {
		if strings.Contains(s, "(PANIC=") {
			i := strings.Index(s, "(PANIC=")
			j := i + 120
			if j > len(s) {
				j = len(s)
			}
			panic("recovered by fmt: " + s[i:j])
		}
	}
	for _, v := range c05Verbs {
		v := v
		add("fmt"+v, func() { noPanicText(fmt.Sprintf(v, e)) })
		add("fmtFormattable"+v, func() { noPanicText(fmt.Sprintf(v, errors.Formattable(e))) })
	}
	add("redact.Sprint", func() { noPanicText(string(redact.Sprint(e).Redact())) })
	add("redact%+v", func() { noPanicText(string(redact.Sprintf("%+v", e))) })
	add("redact%q", func() { noPanicText(string(redact.Sprintf("%q", e))) })
	add("UnwrapAll", func() { _ = errors.UnwrapAll(e) })
	add("Is", func() { _ = errors.Is(e, e); _ = errors.Is(e, os.ErrNotExist); _ = errors.IsAny(e, os.ErrExist, e) })
	add("As", func() { var t *os.PathError; _ = errors.As(e, &t) })
	add("HasType", func() { _ = errors.HasType(e, &os.PathError{}) })
	add("GetAllHints", func() { _ = errors.GetAllHints(e); _ = errors.FlattenHints(e) })
	add("GetAllDetails", func() { _ = errors.GetAllDetails(e); _ = errors.FlattenDetails(e) })
	add("GetTelemetryKeys", func() { _ = errors.GetTelemetryKeys(e) })
	add("GetDomain", func() { _ = errors.GetDomain(e) })
	add("GetContextTags", func() {
		for _, b := range errors.GetContextTags(e) {
			_ = b.String()
		}
	})
	add("GetAllSafeDetails", func() { _ = errors.GetAllSafeDetails(e); _ = errors.GetSafeDetails(e) })
	add("flags", func() {
		_ = errors.HasAssertionFailure(e)
		_ = errors.HasUnimplementedError(e)
		_ = errors.HasIssueLink(e)
		_ = errors.GetAllIssueLinks(e)
	})
	add("codes", func() { _ = exthttp.GetHTTPCode(e, 0); _ = extgrpc.GetGrpcCode(e) })
	add("GetOneLineSource", func() { _, _, _, _ = errors.GetOneLineSource(e); _ = errors.GetReportableStackTrace(e) })
	add("BuildSentryReport", func() { _, _ = errors.BuildSentryReport(e) })
	add("EncodeError", func() {
		enc := errors.EncodeError(bgCtx, e)
		bs, err := proto.Marshal(&enc)
		if err != nil {
			panic(err)
		}
		var back errorspb.EncodedError
		if err := proto.Unmarshal(bs, &back); err != nil {
			panic(err)
		}
		_ = errors.DecodeError(bgCtx, back)
	})
	for _, o := range list {
		if ok, pv := catch(o.f); !ok {
			return o.name, pv
		}
	}
	return "", nil
}

func keyClass(key string) string {
	if i := strings.LastIndex(key, "."); i >= 0 {
		return key[i+1:]
	}
	return key
}

func runC05(res *Result, tier string, seed uint64, driver string) {
	regs := registeredKeys()
	if regs == nil {
		res.Notes = append(res.Notes, "driver error: built without the verif tag: registries cannot be enumerated")
		return
	}
	type keyShape struct {
		key   string
		shape c05Shape
	}
	var ks []keyShape
	seenKey := map[string]bool{}
	all := []string{}
	for _, reg := range []string{"leafDecoders", "wrapperDecoders", "multiCauseDecoders"} {
		for _, k := range regs[reg] {
			if !seenKey[k] {
				seenKey[k] = true
				all = append(all, k)
			}
		}
	}
	all = append(all, "x/*x.NoSuchType") // a key nobody registered
	sort.Strings(all)
	for _, k := range all {
		for _, sh := range []c05Shape{shapeLeaf, shapeWrap, shapeMulti} {
			ks = append(ks, keyShape{k, sh})
		}
	}
	positions := []int{0}
	if tier == "thorough" {
		positions = []int{0, 1, 2, 3, 4, 5}
	}
	var cases []*Case
	id := 0
	rng := &RNG{s: seed}
	for _, k := range ks {
		for _, pf := range payFaults() {
			for ri, rep := range repFaults {
				for _, mt := range mtFaults {
					if k.shape != shapeWrap && mt != 0 {
						continue
					}
					for _, pos := range positions {
						// quick tier: also sample the non-root positions
						p := pos
						if tier != "thorough" && rng.Intn(4) == 0 {
							p = 1 + rng.Intn(5)
						}
						if p == 5 && pf.name == "str-empty" {
							// Join prints its branches through the formatting engine: an empty branch text is
							// outside the domain of the model's text function (engine model: C09)
							p = 2
						}
						w := position(p, faultWire(k.key, k.shape, pf, rep, mt))
						c := &Case{ID: fmt.Sprintf("f%d", id), Cmd: L(Sym("decode"), w),
							Tags: []string{k.key, pf.name, fmt.Sprint(ri), fmt.Sprint(mt), fmt.Sprint(p)}}
						id++
						cases = append(cases, c)
					}
				}
			}
		}
	}
	distinct := map[string]bool{}
	for _, c := range cases {
		distinct[c.Cmd.String()] = true
		w := c.Cmd.L[1]
		res.OracleEvals["C05.decode_total"]++
		// through real protobuf bytes
		enc := sxToEnc(w)
		bs, err := proto.Marshal(enc)
		if err != nil {
			res.fail(c, "C05.harness", "marshal: "+err.Error(), "C05:harness")
			continue
		}
		var back errorspb.EncodedError
		if err := proto.Unmarshal(bs, &back); err != nil {
			res.fail(c, "C05.harness", "unmarshal: "+err.Error(), "C05:harness")
			continue
		}
		var e error
		ok, pv := catch(func() { e = errors.DecodeError(bgCtx, back) })
		sigTail := keyClass(c.Tags[0]) + ":" + c.Tags[1]
		if !ok {
			c.Real = L(Sym("res"), L(Sym("panic")))
			res.fail(c, "C05.decode_total", fmt.Sprintf("DecodeError panicked: %v", pv), "C05:decode-panic:"+keyClass(c.Tags[0]))
			_ = sigTail
			continue
		}
		if e == nil {
			c.Real = L(Sym("res"), L(Sym("nil")))
			res.fail(c, "C05.decode_total", "DecodeError returned nil", "C05:decode-nil:"+keyClass(c.Tags[0]))
			continue
		}
		c.Real = L(Sym("res"), L(Sym("tree"), optSX(func() SX { return treeSX(e) })), L(Sym("enc"), optSX(func() SX { return encSX(e) })))
		res.OracleEvals["C05.observers_total"]++
		if name, pv := observe(e); name != "" {
			res.fail(c, "C05.observers_total", fmt.Sprintf("%s panicked: %v", name, pv), "C05:observer-panic:"+name+":"+keyClass(c.Tags[0]))
		}
	}
	res.Cases = len(cases)
	res.Distinct = len(distinct)
	model, err := runDriver(driver, cases)
	if err != nil {
		res.Notes = append(res.Notes, "driver error: "+err.Error())
	}
	for _, c := range cases {
		if c.Real.Kind == 0 {
			continue
		}
		m, ok := model[c.ID]
		if !ok {
			m = L(Sym("missing"))
		}
		compare(res, c, m)
	}
	res.Extra = map[string]interface{}{"registered_keys": regs, "keys_faulted": all,
		"payload_faults": len(payFaults()), "detail_faults": len(repFaults), "message_types": mtFaults, "positions": positions}
	res.Rule = "fault matrix: every type key registered with a leaf/wrapper/multi-cause decoder (read from the live registries through the verif hook) + one unregistered key, each as leaf / wrapper / multi-cause node × 25 payload faults × 4 detail faults × message types {0,1,7} × carrier positions; every wire goes through proto.Marshal/Unmarshal; distinct = distinct wire"
	for i := 0; i < 3 && i < len(cases); i++ {
		s := cases[(i*7919)%len(cases)].Cmd.String()
		if len(s) > 500 {
			s = s[:500] + "…"
		}
		res.Samples = append(res.Samples, s)
	}
}
