package main

import (
	"fmt"

	"github.com/cockroachdb/errors"
)

// Types with an ErrorKeyMarker (an extension of their type mark, like a domain's name) and no
// decoder: after transfer the opaque stand-in keeps the extension it was sent with, so identity
// neither appears between values that differ in the extension nor disappears between a value and
// its received copy (C08: same message, same full sequence of type marks; C02: invariant under
// transfer).  Table-driven, model-free.

type kmLeaf struct{ msg, kind string }

func (e *kmLeaf) Error() string          { return e.msg }
func (e *kmLeaf) ErrorKeyMarker() string { return e.kind }

type kmWrap struct {
	cause error
	kind  string
}

func (e *kmWrap) Error() string          { return e.cause.Error() }
func (e *kmWrap) Unwrap() error          { return e.cause }
func (e *kmWrap) ErrorKeyMarker() string { return e.kind }

func oracleKeyMarker(res *Result, prop string) {
	c := &Case{ID: "key-marker", Cmd: L(Sym("key-marker"))}
	mk := func(shape int, kind string) error {
		switch shape {
		case 0:
			return &kmLeaf{"boom", kind}
		case 1:
			return &kmWrap{errors.New("boom"), kind}
		case 2:
			return errors.Wrap(&kmLeaf{"boom", kind}, "ctx")
		case 3:
			return errors.WithStack(&kmWrap{&kmLeaf{"boom", "inner"}, kind})
		default:
			return errors.Join(errors.New("x"), &kmWrap{errors.New("boom"), kind})
		}
	}
	for shape := 0; shape <= 4; shape++ {
		e, twin, other := mk(shape, "k1"), mk(shape, "k1"), mk(shape, "k2")
		for k := 1; k <= 3; k++ {
			res.OracleEvals[prop+".key_marker"]++
			d, ok := hopsReal(e, k)
			do, ok2 := hopsReal(other, k)
			if !ok || !ok2 || d == nil || do == nil {
				res.fail(c, prop+".key_marker", fmt.Sprintf("shape %d: hop %d panics", shape, k), prop+":key-marker:panic")
				break
			}
			var a, b, x, y, z bool
			if ok, pv := catch(func() {
				a, b = errors.Is(d, e), errors.Is(e, d)
				x = errors.Is(d, twin)
				y, z = errors.Is(d, other), errors.Is(d, do)
			}); !ok {
				res.fail(c, prop+".key_marker", fmt.Sprintf("shape %d: Is panics: %v", shape, pv), prop+":key-marker:panic")
				break
			}
			if !a || !b || !x {
				res.fail(c, prop+".key_marker", fmt.Sprintf("shape %d, %d hop(s): Is(received, original)=%v Is(original, received)=%v Is(received, equal copy)=%v (a type with a key marker and no decoder)", shape, k, a, b, x), prop+":key-marker:lost")
				break
			}
			if shape != 4 && (y || z) && errors.Is(e, other) == false {
				res.fail(c, prop+".key_marker", fmt.Sprintf("shape %d, %d hop(s): values that differ only in the key marker are identified after transfer (Is(received k1, local k2)=%v, Is(received k1, received k2)=%v)", shape, k, y, z), prop+":key-marker:false-positive")
				break
			}
		}
	}
}
