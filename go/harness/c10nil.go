package main

import (
	"context"
	"fmt"

	"github.com/cockroachdb/errors"
	"github.com/cockroachdb/errors/barriers"
	"github.com/cockroachdb/errors/extgrpc"
	"github.com/cockroachdb/errors/exthttp"
	"github.com/cockroachdb/logtags"
	"github.com/cockroachdb/redact"
	"google.golang.org/grpc/codes"
)

// nilTable: every exported constructor that takes an error to wrap, applied to nil.
// "nil stays nil" (C10): each must return nil.
var nilTable = []struct {
	Name string
	F    func() error
}{
	{"errors.Wrap", func() error { return errors.Wrap(nil, "m") }},
	{"errors.Wrapf", func() error { return errors.Wrapf(nil, "m %d", 1) }},
	{"errors.WrapWithDepth", func() error { return errors.WrapWithDepth(1, nil, "m") }},
	{"errors.WrapWithDepthf", func() error { return errors.WrapWithDepthf(1, nil, "m %d", 1) }},
	{"errors.WithStack", func() error { return errors.WithStack(nil) }},
	{"errors.WithStackDepth", func() error { return errors.WithStackDepth(nil, 1) }},
	{"errors.WithMessage", func() error { return errors.WithMessage(nil, "m") }},
	{"errors.WithMessagef", func() error { return errors.WithMessagef(nil, "m %d", 1) }},
	{"errors.WithHint", func() error { return errors.WithHint(nil, "h") }},
	{"errors.WithHintf", func() error { return errors.WithHintf(nil, "h %d", 1) }},
	{"errors.WithDetail", func() error { return errors.WithDetail(nil, "d") }},
	{"errors.WithDetailf", func() error { return errors.WithDetailf(nil, "d %d", 1) }},
	{"errors.WithIssueLink", func() error { return errors.WithIssueLink(nil, errors.IssueLink{IssueURL: "u"}) }},
	{"errors.WithTelemetry", func() error { return errors.WithTelemetry(nil, "k") }},
	{"errors.WithDomain", func() error { return errors.WithDomain(nil, errors.Domain("d")) }},
	{"errors.WithContextTags", func() error {
		return errors.WithContextTags(nil, logtags.AddTag(context.Background(), "k", "v"))
	}},
	{"errors.WithAssertionFailure", func() error { return errors.WithAssertionFailure(nil) }},
	{"errors.WithSafeDetails", func() error { return errors.WithSafeDetails(nil, "s %d", 1) }},
	{"errors.WithSecondaryError", func() error { return errors.WithSecondaryError(nil, errors.New("s")) }},
	{"errors.CombineErrors(nil,nil)", func() error { return errors.CombineErrors(nil, nil) }},
	{"errors.Mark", func() error { return errors.Mark(nil, errors.New("r")) }},
	{"errors.Handled", func() error { return errors.Handled(nil) }},
	{"errors.HandledWithMessage", func() error { return errors.HandledWithMessage(nil, "m") }},
	{"errors.HandledInDomain", func() error { return errors.HandledInDomain(nil, errors.Domain("d")) }},
	{"errors.HandledInDomainWithMessage", func() error { return errors.HandledInDomainWithMessage(nil, errors.Domain("d"), "m") }},
	{"errors.HandleAsAssertionFailure", func() error { return errors.HandleAsAssertionFailure(nil) }},
	{"errors.HandleAsAssertionFailureDepth", func() error { return errors.HandleAsAssertionFailureDepth(1, nil) }},
	{"errors.NewAssertionErrorWithWrappedErrf", func() error { return errors.NewAssertionErrorWithWrappedErrf(nil, "m") }},
	{"errors.Join()", func() error { return errors.Join() }},
	{"errors.Join(nil,nil)", func() error { return errors.Join(nil, nil) }},
	{"barriers.Handled", func() error { return barriers.Handled(nil) }},
	{"barriers.HandledWithMessage", func() error { return barriers.HandledWithMessage(nil, "m") }},
	{"barriers.HandledWithMessagef", func() error { return barriers.HandledWithMessagef(nil, "m %d", 1) }},
	{"barriers.HandledWithSafeMessage", func() error { return barriers.HandledWithSafeMessage(nil, redact.Sprint("m")) }},
	{"exthttp.WrapWithHTTPCode", func() error { return exthttp.WrapWithHTTPCode(nil, 404) }},
	{"extgrpc.WrapWithGrpcCode", func() error { return extgrpc.WrapWithGrpcCode(nil, codes.NotFound) }},
}

func oracleC10Nil(res *Result) {
	c := &Case{ID: "nil-table", Cmd: L(Sym("nil-table"))}
	for _, row := range nilTable {
		var got error
		ok, pv := catch(func() { got = row.F() })
		res.OracleEvals["C10.nil_stays_nil"]++
		if !ok {
			res.fail(c, "C10.nil_stays_nil", fmt.Sprintf("%s(nil, ...) panics: %v", row.Name, pv), "C10:nil-panic:"+row.Name)
			continue
		}
		if got != nil {
			res.fail(c, "C10.nil_stays_nil", fmt.Sprintf("%s(nil, ...) returns a non-nil %T (Error() on it %s)", row.Name, got, safeErrorText(got)),
				"C10:nil-not-nil:"+row.Name)
		}
	}
}

func safeErrorText(e error) (s string) {
	defer func() {
		if v := recover(); v != nil {
			s = fmt.Sprint("panics: ", v)
		}
	}()
	return fmt.Sprintf("= %q", e.Error())
}
