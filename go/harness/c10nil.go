package main

import (
	"context"
	"fmt"
	"sort"
	"strings"

	"github.com/cockroachdb/errors"
	"github.com/cockroachdb/errors/assert"
	"github.com/cockroachdb/errors/barriers"
	"github.com/cockroachdb/errors/contexttags"
	"github.com/cockroachdb/errors/domains"
	"github.com/cockroachdb/errors/errutil"
	"github.com/cockroachdb/errors/extgrpc"
	"github.com/cockroachdb/errors/exthttp"
	grpcstatus2 "github.com/cockroachdb/errors/grpc/status"
	"github.com/cockroachdb/errors/hintdetail"
	"github.com/cockroachdb/errors/issuelink"
	"github.com/cockroachdb/errors/markers"
	"github.com/cockroachdb/errors/safedetails"
	"github.com/cockroachdb/errors/secondary"
	"github.com/cockroachdb/errors/telemetrykeys"
	"github.com/cockroachdb/errors/withstack"
	"github.com/cockroachdb/logtags"
	"github.com/cockroachdb/redact"
	"google.golang.org/grpc/codes"
)

// nilTable: every exported constructor that takes an error to wrap, applied to nil.
// "nil stays nil" (C10): each must return nil.
var nilTable = []struct {
	Name string
	F    func() error
}{
	// the sub-package functions behind the root package's aliases, and the remaining exported
	// functions of the extracted constructor table (tools/extract_ctors.py)
	{"errors.EnsureNotInDomain", func() error { return errors.EnsureNotInDomain(nil, nil, errors.Domain("d")) }},
	{"errors.Opaque", func() error { return errors.Opaque(nil) }},
	{"assert.WithAssertionFailure", func() error { return assert.WithAssertionFailure(nil) }},
	{"contexttags.WithContextTags", func() error {
		return contexttags.WithContextTags(nil, logtags.AddTag(context.Background(), "k", "v"))
	}},
	{"domains.EnsureNotInDomain", func() error { return domains.EnsureNotInDomain(nil, nil, domains.Domain("d")) }},
	{"domains.Handled", func() error { return domains.Handled(nil) }},
	{"domains.HandledInDomain", func() error { return domains.HandledInDomain(nil, domains.Domain("d")) }},
	{"domains.HandledInDomainWithMessage", func() error { return domains.HandledInDomainWithMessage(nil, domains.Domain("d"), "m") }},
	{"domains.WithDomain", func() error { return domains.WithDomain(nil, domains.Domain("d")) }},
	{"errutil.HandleAsAssertionFailure", func() error { return errutil.HandleAsAssertionFailure(nil) }},
	{"errutil.HandleAsAssertionFailureDepth", func() error { return errutil.HandleAsAssertionFailureDepth(1, nil) }},
	{"errutil.NewAssertionErrorWithWrappedErrDepthf", func() error { return errutil.NewAssertionErrorWithWrappedErrDepthf(1, nil, "m") }},
	{"errutil.NewAssertionErrorWithWrappedErrf", func() error { return errutil.NewAssertionErrorWithWrappedErrf(nil, "m") }},
	{"errutil.WithMessage", func() error { return errutil.WithMessage(nil, "m") }},
	{"errutil.WithMessagef", func() error { return errutil.WithMessagef(nil, "m %d", 1) }},
	{"errutil.Wrap", func() error { return errutil.Wrap(nil, "m") }},
	{"errutil.WrapWithDepth", func() error { return errutil.WrapWithDepth(1, nil, "m") }},
	{"errutil.WrapWithDepthf", func() error { return errutil.WrapWithDepthf(1, nil, "m %d", 1) }},
	{"errutil.Wrapf", func() error { return errutil.Wrapf(nil, "m %d", 1) }},
	{"grpc/status.WrapErr", func() error { return grpcstatus2.WrapErr(codes.NotFound, "m", nil) }},
	{"grpc/status.WrapErrf", func() error { return grpcstatus2.WrapErrf(codes.NotFound, nil, "m %d", 1) }},
	{"hintdetail.WithDetail", func() error { return hintdetail.WithDetail(nil, "d") }},
	{"hintdetail.WithDetailf", func() error { return hintdetail.WithDetailf(nil, "d %d", 1) }},
	{"hintdetail.WithHint", func() error { return hintdetail.WithHint(nil, "h") }},
	{"hintdetail.WithHintf", func() error { return hintdetail.WithHintf(nil, "h %d", 1) }},
	{"issuelink.WithIssueLink", func() error { return issuelink.WithIssueLink(nil, issuelink.IssueLink{IssueURL: "u"}) }},
	{"markers.Mark", func() error { return markers.Mark(nil, errors.New("r")) }},
	{"safedetails.WithSafeDetails", func() error { return safedetails.WithSafeDetails(nil, "s %d", 1) }},
	{"secondary.WithSecondaryError", func() error { return secondary.WithSecondaryError(nil, errors.New("s")) }},
	{"telemetrykeys.WithTelemetry", func() error { return telemetrykeys.WithTelemetry(nil, "k") }},
	{"withstack.WithStack", func() error { return withstack.WithStack(nil) }},
	{"withstack.WithStackDepth", func() error { return withstack.WithStackDepth(nil, 1) }},
	{"errors.Wrap", func() error { return errors.Wrap(nil, "m") }},
	{"errors.Wrapf", func() error { return errors.Wrapf(nil, "m %d", 1) }},
	{"errors.WrapWithDepth", func() error { return errors.WrapWithDepth(1, nil, "m") }},
	{"errors.WrapWithDepthf", func() error { return errors.WrapWithDepthf(1, nil, "m %d", 1) }},
	{"errors.WithStack", func() error { return errors.WithStack(nil) }},
	{"errors.WithStackDepth", func() error { return errors.WithStackDepth(nil, 1) }},
	{"errors.WithMessage", func() error { return errors.WithMessage(nil, "m") }},
	{"errors.WithMessagef", func() error { return errors.WithMessagef(nil, "m %d", 1) }},
	{"errors.WithHint", func() error { return errors.WithHint(nil, "h") }},
	{"errors.WithHintf", func() error { return errors.WithHintf(nil, "h %d", 1) }},
	{"errors.WithDetail", func() error { return errors.WithDetail(nil, "d") }},
	{"errors.WithDetailf", func() error { return errors.WithDetailf(nil, "d %d", 1) }},
	{"errors.WithIssueLink", func() error { return errors.WithIssueLink(nil, errors.IssueLink{IssueURL: "u"}) }},
	{"errors.WithTelemetry", func() error { return errors.WithTelemetry(nil, "k") }},
	{"errors.WithDomain", func() error { return errors.WithDomain(nil, errors.Domain("d")) }},
	{"errors.WithContextTags", func() error {
		return errors.WithContextTags(nil, logtags.AddTag(context.Background(), "k", "v"))
	}},
	{"errors.WithAssertionFailure", func() error { return errors.WithAssertionFailure(nil) }},
	{"errors.WithSafeDetails", func() error { return errors.WithSafeDetails(nil, "s %d", 1) }},
	{"errors.WithSecondaryError", func() error { return errors.WithSecondaryError(nil, errors.New("s")) }},
	{"errors.CombineErrors(nil,nil)", func() error { return errors.CombineErrors(nil, nil) }},
	{"errors.Mark", func() error { return errors.Mark(nil, errors.New("r")) }},
	{"errors.Handled", func() error { return errors.Handled(nil) }},
	{"errors.HandledWithMessage", func() error { return errors.HandledWithMessage(nil, "m") }},
	{"errors.HandledInDomain", func() error { return errors.HandledInDomain(nil, errors.Domain("d")) }},
	{"errors.HandledInDomainWithMessage", func() error { return errors.HandledInDomainWithMessage(nil, errors.Domain("d"), "m") }},
	{"errors.HandleAsAssertionFailure", func() error { return errors.HandleAsAssertionFailure(nil) }},
	{"errors.HandleAsAssertionFailureDepth", func() error { return errors.HandleAsAssertionFailureDepth(1, nil) }},
	{"errors.NewAssertionErrorWithWrappedErrf", func() error { return errors.NewAssertionErrorWithWrappedErrf(nil, "m") }},
	{"errors.Join()", func() error { return errors.Join() }},
	{"errors.Join(nil,nil)", func() error { return errors.Join(nil, nil) }},
	{"barriers.Handled", func() error { return barriers.Handled(nil) }},
	{"barriers.HandledWithMessage", func() error { return barriers.HandledWithMessage(nil, "m") }},
	{"barriers.HandledWithMessagef", func() error { return barriers.HandledWithMessagef(nil, "m %d", 1) }},
	{"barriers.HandledWithSafeMessage", func() error { return barriers.HandledWithSafeMessage(nil, redact.Sprint("m")) }},
	{"exthttp.WrapWithHTTPCode", func() error { return exthttp.WrapWithHTTPCode(nil, 404) }},
	{"extgrpc.WrapWithGrpcCode", func() error { return extgrpc.WrapWithGrpcCode(nil, codes.NotFound) }},
}

// nilTableKeys: the table's entries under the extractor's naming scheme (".Wrap" for the root
// package, "errutil.Wrap" for sub-packages), variants such as "errors.Join(nil,nil)" dropped.
func nilTableKeys() []string {
	seen := map[string]bool{}
	var out []string
	for _, row := range nilTable {
		k := row.Name
		if i := strings.IndexByte(k, '('); i >= 0 {
			continue
		}
		if strings.HasPrefix(k, "errors.") {
			k = k[len("errors"):]
		}
		if !seen[k] {
			seen[k] = true
			out = append(out, k)
		}
	}
	sort.Strings(out)
	return out
}

func oracleC10Nil(res *Result) {
	c := &Case{ID: "nil-table", Cmd: L(Sym("nil-table"))}
	if res.Extra == nil {
		res.Extra = map[string]interface{}{}
	}
	res.Extra["c10_table_names"] = nilTableKeys()
	for _, row := range nilTable {
		var got error
		ok, pv := catch(func() { got = row.F() })
		res.OracleEvals["C10.nil_stays_nil"]++
		if !ok {
			res.fail(c, "C10.nil_stays_nil", fmt.Sprintf("%s(nil, ...) panics: %v", row.Name, pv), "C10:nil-panic:"+row.Name)
			continue
		}
		if got != nil {
			res.fail(c, "C10.nil_stays_nil", fmt.Sprintf("%s(nil, ...) returns a non-nil %T (Error() on it %s)", row.Name, got, safeErrorText(got)),
				"C10:nil-not-nil:"+row.Name)
		}
	}
}

func safeErrorText(e error) (s string) {
	defer func() {
		if v := recover(); v != nil {
			s = fmt.Sprint("panics: ", v)
		}
	}()
	return fmt.Sprintf("= %q", e.Error())
}
