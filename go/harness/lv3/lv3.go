package lv3

import "verif/harness/lv2"

//go:noinline
func Call(f func() interface{}) interface{} {
	r := lv2.Call(f)
	return r
}
