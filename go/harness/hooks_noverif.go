//go:build !verif

package main

// without the verif build tag the registries cannot be enumerated
func registeredKeys() map[string][]string { return nil }
