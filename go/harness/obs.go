package main

import (
	"fmt"
	"github.com/cockroachdb/errors/errorspb"
	"github.com/gogo/googleapis/google/rpc"
	"github.com/gogo/protobuf/types"
	"strings"

	"github.com/cockroachdb/errors"
	"github.com/cockroachdb/errors/errbase"
)

// catch runs f and maps a panic to ok=false.
func catch(f func()) (ok bool, pv interface{}) {
	defer func() {
		if v := recover(); v != nil {
			ok, pv = false, v
		}
	}()
	f()
	return true, nil
}

func treeSX(e error) SX {
	var kids []SX
	if c := errbase.UnwrapOnce(e); c != nil {
		kids = []SX{treeSX(c)}
	} else {
		for _, c := range errbase.UnwrapMulti(e) {
			kids = append(kids, treeSX(c))
		}
	}
	return L(Sym("N"), Str(e.Error()), Str(fmt.Sprintf("%T", e)), L(kids...))
}

func encSX(e error) SX {
	enc := errors.EncodeError(bgCtx, e)
	return encToSX(&enc)
}

// detBytesSX: the protobuf bytes, as the generated code of errorspb marshals them, of the string
// fields of every visible layer's EncodedErrorDetails (full_details left out), in wire order.
func detBytesSX(e error) SX {
	enc := errors.EncodeError(bgCtx, e)
	var out []SX
	add := func(d errorspb.EncodedErrorDetails) {
		d.FullDetails = nil
		b, err := d.Marshal()
		if err != nil {
			out = append(out, Sym("marshal-error"))
			return
		}
		out = append(out, Str(string(b)))
	}
	var walk func(x *errorspb.EncodedError)
	walk = func(x *errorspb.EncodedError) {
		if l := x.GetLeaf(); l != nil {
			add(l.Details)
			for i := range l.MultierrorCauses {
				walk(l.MultierrorCauses[i])
			}
		} else if w := x.GetWrapper(); w != nil {
			add(w.Details)
			walk(&w.Cause)
		}
	}
	walk(&enc)
	return L(out...)
}

// wireBytesSX: the protobuf bytes of the whole EncodedError with every full_details payload cleared.
func wireBytesSX(e error) SX {
	enc := errors.EncodeError(bgCtx, e)
	var strip func(x *errorspb.EncodedError)
	strip = func(x *errorspb.EncodedError) {
		if l := x.GetLeaf(); l != nil {
			l.Details.FullDetails = nil
			for i := range l.MultierrorCauses {
				strip(l.MultierrorCauses[i])
			}
		} else if w := x.GetWrapper(); w != nil {
			w.Details.FullDetails = nil
			strip(&w.Cause)
		}
	}
	strip(&enc)
	b, err := enc.Marshal()
	if err != nil {
		return Sym("marshal-error")
	}
	return Str(string(b))
}

// statusWithoutDetails: a google.rpc.Status payload whose details list is empty (the byte-level
// model covers those; a status with details is skipped)
func statusWithoutDetails(a *types.Any) bool {
	if a == nil || a.TypeUrl != "type.googleapis.com/google.rpc.Status" {
		return false
	}
	var st rpc.Status
	if err := st.Unmarshal(a.Value); err != nil {
		return false
	}
	return len(st.Details) == 0
}

// payBytesSX: the protobuf bytes of full_details (the Any) of every visible layer, in wire order;
// (none) when absent, (skip) for the payloads the byte-level model does not cover (a nested
// EncodedError, a gRPC status).
func payBytesSX(e error) SX {
	enc := errors.EncodeError(bgCtx, e)
	var out []SX
	add := func(d *errorspb.EncodedErrorDetails) {
		a := d.FullDetails
		switch {
		case a == nil:
			out = append(out, L(Sym("none")))
		case strings.HasSuffix(a.TypeUrl, "cockroach.errorspb.EncodedError") || (strings.HasSuffix(a.TypeUrl, "google.rpc.Status") && !statusWithoutDetails(a)):
			out = append(out, L(Sym("skip")))
		default:
			b, err := a.Marshal()
			if err != nil {
				out = append(out, Sym("marshal-error"))
				return
			}
			out = append(out, Str(string(b)))
		}
	}
	var walk func(x *errorspb.EncodedError)
	walk = func(x *errorspb.EncodedError) {
		if l := x.GetLeaf(); l != nil {
			add(&l.Details)
			for i := range l.MultierrorCauses {
				walk(l.MultierrorCauses[i])
			}
		} else if w := x.GetWrapper(); w != nil {
			add(&w.Details)
			walk(&w.Cause)
		}
	}
	walk(&enc)
	return L(out...)
}

// fullBytesSX: the protobuf bytes of the whole EncodedError, payloads included, when every visible
// layer's payload is absent or one of the library's flat payload messages; (skip) otherwise (a
// nested EncodedError, a gRPC status, a foreign message).
func fullBytesSX(e error) SX {
	enc := errors.EncodeError(bgCtx, e)
	known := []string{"cockroach.errorspb.StringPayload", "cockroach.errorspb.StringsPayload", "cockroach.errorspb.ErrnoPayload",
		"cockroach.errorspb.MarkPayload", "cockroach.errorspb.TagsPayload", "cockroach.errorspb.TestError",
		"cockroach.errors.exthttp.EncodedHTTPCode", "cockroach.errors.extgrpc.EncodedGrpcCode"}
	flat := true
	chk := func(d *errorspb.EncodedErrorDetails) {
		if d.FullDetails == nil {
			return
		}
		ok := statusWithoutDetails(d.FullDetails)
		for _, k := range known {
			if d.FullDetails.TypeUrl == "type.googleapis.com/"+k {
				ok = true
			}
		}
		if !ok {
			flat = false
		}
	}
	var walk func(x *errorspb.EncodedError)
	walk = func(x *errorspb.EncodedError) {
		if l := x.GetLeaf(); l != nil {
			chk(&l.Details)
			for i := range l.MultierrorCauses {
				walk(l.MultierrorCauses[i])
			}
		} else if w := x.GetWrapper(); w != nil {
			chk(&w.Details)
			walk(&w.Cause)
		}
	}
	walk(&enc)
	if !flat {
		return L(Sym("skip"))
	}
	b, err := enc.Marshal()
	if err != nil {
		return Sym("marshal-error")
	}
	return Str(string(b))
}

// allBytesSX: the protobuf bytes of the whole EncodedError, nested EncodedError payloads included;
// (skip) when some payload, at any nesting level, is neither a flat payload message of the library
// nor a nested EncodedError (a gRPC status, a foreign message).
func allBytesSX(e error) SX {
	enc := errors.EncodeError(bgCtx, e)
	known := map[string]bool{}
	for _, k := range []string{"cockroach.errorspb.StringPayload", "cockroach.errorspb.StringsPayload", "cockroach.errorspb.ErrnoPayload",
		"cockroach.errorspb.MarkPayload", "cockroach.errorspb.TagsPayload", "cockroach.errorspb.TestError",
		"cockroach.errors.exthttp.EncodedHTTPCode", "cockroach.errors.extgrpc.EncodedGrpcCode"} {
		known["type.googleapis.com/"+k] = true
	}
	ok := true
	var walk func(x *errorspb.EncodedError)
	chk := func(d *errorspb.EncodedErrorDetails) {
		a := d.FullDetails
		if a == nil || known[a.TypeUrl] || statusWithoutDetails(a) {
			return
		}
		if a.TypeUrl == "type.googleapis.com/cockroach.errorspb.EncodedError" {
			var inner errorspb.EncodedError
			if err := inner.Unmarshal(a.Value); err != nil {
				ok = false
				return
			}
			walk(&inner)
			return
		}
		ok = false
	}
	walk = func(x *errorspb.EncodedError) {
		if l := x.GetLeaf(); l != nil {
			chk(&l.Details)
			for i := range l.MultierrorCauses {
				walk(l.MultierrorCauses[i])
			}
		} else if w := x.GetWrapper(); w != nil {
			chk(&w.Details)
			walk(&w.Cause)
		}
	}
	walk(&enc)
	if !ok {
		return L(Sym("skip"))
	}
	b, err := enc.Marshal()
	if err != nil {
		return Sym("marshal-error")
	}
	return Str(string(b))
}

func isSX(e error, refs []error) SX {
	out := make([]SX, len(refs))
	for i, r := range refs {
		var b bool
		ok, _ := catch(func() { b = errors.Is(e, r) })
		if !ok {
			out[i] = Sym("panic")
		} else {
			out[i] = Bool(b)
		}
	}
	return L(out...)
}

// optSX evaluates f, printing (panic) if it panics.
func optSX(f func() SX) SX {
	var x SX
	ok, _ := catch(func() { x = f() })
	if !ok {
		return L(Sym("panic"))
	}
	return x
}

// hopsReal performs k hops between knowing processes; nil, false on panic.
func hopsReal(e error, k int) (res error, ok bool) {
	ok, _ = catch(func() {
		res = e
		for i := 0; i < k; i++ {
			res = hopReal(res, nil)
		}
	})
	return res, ok
}

// skipFmt is set while building a case whose recipe uses context tags with Safe or nil
// values: the model renders tag values as plain strings (DESIGN: trusted base), so the
// formatting streams of such cases are not compared.
var skipFmt bool

func fmtField(name string, f func() SX) SX {
	if skipFmt {
		return L(Sym(name + "-skipped"))
	}
	return L(Sym(name), f())
}

func obsEngine(e error) SX {
	if e == nil {
		return L(Sym("res"), L(Sym("nil")))
	}
	out := []SX{Sym("res"),
		L(Sym("fmt0"), optSX(func() SX { return fmtSX(e) })),
		L(Sym("rep0"), optSX(func() SX { return reportSX(e) })),
		L(Sym("verbs0"), optSX(func() SX { return verbsSX(e) })),
	}
	if hopStreams {
		h1, ok1 := hopsReal(e, 1)
		on := func(f func(error) SX) SX {
			if !ok1 {
				return L(Sym("panic"))
			}
			return optSX(func() SX { return f(h1) })
		}
		out = append(out, L(Sym("fmt1"), on(fmtSX)), L(Sym("rep1"), on(reportSX)), L(Sym("verbs1"), on(verbsSX)))
	}
	return L(out...)
}

// refSublists: reference lists without the identity-matching nodes of the error itself at their
// head (second half, last four) in both orders: IsAny must not depend on the order or on
// references that share a message.
func refSublists(refs []error) [][]error {
	rev := func(l []error) []error {
		o := make([]error, len(l))
		for i, x := range l {
			o[len(l)-1-i] = x
		}
		return o
	}
	a := refs[len(refs)/2:]
	c := refs
	if len(refs) > 4 {
		c = refs[len(refs)-4:]
	}
	return [][]error{a, rev(a), c, rev(c)}
}

// obsCase computes the real-code observations of a case, in the same shape as
// ErrModel.obsCase.
// engineStreams: emit the formatting / report streams only (the engine properties), with
// the after-hop streams when hopStreams is set.
var engineStreams, hopStreams bool

// hopStreamsOff is set while building an engine case over hostile strings: the message of a
// Mark reference is then sent to the model as an input (see Recipe.lean, "mark")
var hopStreamsOff bool

func obsCase(e error, refs []error) SX {
	if engineStreams {
		return obsEngine(e)
	}
	if e == nil {
		return L(Sym("res"), L(Sym("nil")), L(Sym("is"), isSX(nil, refs)))
	}
	h1, ok1 := hopsReal(e, 1)
	h2, ok2 := hopsReal(e, 2)
	h3, ok3 := hopsReal(e, 3)
	onHop := func(h error, ok bool, f func(error) SX) SX {
		if !ok {
			return L(Sym("panic"))
		}
		return optSX(func() SX { return f(h) })
	}
	isOn := func(h error, ok bool) SX {
		if !ok {
			l := make([]SX, len(refs))
			for i := range l {
				l[i] = Sym("panic")
			}
			return L(l...)
		}
		return isSX(h, refs)
	}
	return L(Sym("res"),
		L(Sym("tree"), optSX(func() SX { return treeSX(e) })),
		L(Sym("enc"), optSX(func() SX { return encSX(e) })),
		L(Sym("detbytes"), optSX(func() SX { return detBytesSX(e) })),
		L(Sym("wirebytes"), optSX(func() SX { return wireBytesSX(e) })),
		L(Sym("paybytes"), optSX(func() SX { return payBytesSX(e) })),
		L(Sym("allbytes"), optSX(func() SX { return allBytesSX(e) })),
		L(Sym("fullbytes"), optSX(func() SX { return fullBytesSX(e) })),
		L(Sym("h1tree"), onHop(h1, ok1, treeSX)),
		L(Sym("h1enc"), onHop(h1, ok1, encSX)),
		L(Sym("h2enc"), onHop(h2, ok2, encSX)),
		L(Sym("h3tree"), onHop(h3, ok3, treeSX)),
		L(Sym("is"), isSX(e, refs)),
		L(Sym("h1is"), isOn(h1, ok1)),
		L(Sym("h2is"), isOn(h2, ok2)),
		L(Sym("acc0"), optSX(func() SX { return accSX(e) })),
		L(Sym("acc1"), onHop(h1, ok1, accSX)),
		L(Sym("acc2"), onHop(h2, ok2, accSX)),
		fmtField("fmt0", func() SX { return optSX(func() SX { return fmtSX(e) }) }),
		fmtField("fmt1", func() SX { return onHop(h1, ok1, fmtSX) }),
		L(Sym("compat"), optSX(func() SX { return compatSX(e, refs) })),
		L(Sym("isany"), optSX(func() SX { return Bool(errors.IsAny(e, refs...)) })),
		L(Sym("isanyhalf"), optSX(func() SX { return Bool(errors.IsAny(e, refs[:len(refs)/2]...)) })),
		L(Sym("isanyx"), optSX(func() SX {
			var out []SX
			for _, sl := range refSublists(refs) {
				out = append(out, Bool(errors.IsAny(e, sl...)))
			}
			return L(out...)
		})),
		L(Sym("h1isanyx"), onHop(h1, ok1, func(h error) SX {
			var out []SX
			for i := 0; i < 4 && i < len(refs); i++ {
				out = append(out, Bool(errors.IsAny(h, refs[i])))
			}
			out = append(out, Bool(errors.IsAny(h, refs[:len(refs)/2]...)))
			return L(out...)
		})),
	)
}
