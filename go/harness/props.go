package main

import (
	"encoding/json"
	"fmt"
	"os"
	"strings"
)

// buildCase builds the real error and references of a recipe and records the
// real observations.
func buildCase(id string, rec *R, refs []*R, nodeRefs []int) *Case {
	c := &Case{ID: id, Rec: rec}
	e, bp := Build(rec)
	if bp != nil {
		c.Cmd = L(Sym("case"), rec.ToSX(), L())
		c.Real = L(Sym("res"), L(Sym("panic")))
		return c
	}
	var refErrs []error
	var refSX []SX
	var refRecs []*R
	nodes := nodesOfErr(e, nil)
	for _, j := range nodeRefs {
		if j < len(nodes) {
			refErrs = append(refErrs, nodes[j])
			refSX = append(refSX, L(Sym("node"), Nat(j)))
			refRecs = append(refRecs, nil)
		}
	}
	for _, r := range refs {
		re, rbp := Build(r)
		if rbp != nil || re == nil {
			continue
		}
		refErrs = append(refErrs, re)
		refSX = append(refSX, r.ToSX())
		refRecs = append(refRecs, r)
	}
	c.Cmd = L(Sym("case"), rec.ToSX(), L(refSX...))
	if engineStreams {
		c.Cmd = L(Sym("case"), rec.ToSX(), L(refSX...), L(append([]SX{Sym("trim")}, strSXs(trimPathsList())...)...),
			L(append([]SX{Sym("verbs")}, strSXs(verbSpecs)...)...))
	}
	c.Real = obsCase(e, refErrs)
	c.Err, c.Refs, c.RefRecs = e, refErrs, refRecs
	return c
}

// engineCases: the stream of the formatting / redaction / report properties.  Every
// generator family; when taint is set every string input carries a unique token; when
// hostile is set half of the cases draw their strings from the hostile alphabet.
func engineCases(g *Gen, n int, taint, hostile bool) []*Case {
	var recs []*R
	mk := func(k int) {
		for i := 0; i < k; i++ {
			switch i % 4 {
			case 0, 1:
				recs = append(recs, g.Tree(1+g.rng.Intn(g.maxDepth)))
			case 2:
				recs = append(recs, annotRecipe(g))
			default:
				recs = append(recs, multiRecipe(g))
			}
		}
	}
	// every value of the enumerated payloads once (each gRPC code incl. OK, a few HTTP codes incl. 0),
	// outermost and in the middle of a chain: a layer printed differently for one value only
	for code := 0; code <= 16; code++ {
		recs = append(recs, g.node("grpc", nil, []int{code}, g.LeafOp("new")),
			g.WrapOp("wrap", g.node("grpc", nil, []int{code}, g.LeafOp("goerr")), 2))
	}
	// the SAME error object reachable through two branches of a multi-cause node (a sentinel shared
	// by both branches, an error joined with an annotated copy of itself)
	recs = append(recs, sharedObjectRecipes(g)...)
	// messages that end with, consist of, or contain the ": " the engine itself puts between layers
	for _, m := range []string{"ctx: ", ": ", "a: b: ", "x:", " "} {
		recs = append(recs,
			g.node("wrap", []string{m}, nil, g.LeafOp("new")),
			g.node("withmessage", []string{m}, nil, g.node("wrap", []string{"mid"}, nil, g.LeafOp("goerr"))),
			g.node("wrap", []string{"outer"}, nil, g.node("withmessage", []string{m}, nil, g.LeafOp("new"))))
	}
	for _, code := range []int{0, 200, 404, 500} {
		recs = append(recs, g.node("http", nil, []int{code}, g.LeafOp("new")),
			g.WrapOp("hint", g.node("http", nil, []int{code}, g.LeafOp("goerr")), 2))
	}
	if hostile {
		mk(n / 2)
		g.hostile = true
		mk(n - n/2)
		g.hostile = false
	} else {
		mk(n)
	}
	var cases []*Case
	for i, rec := range recs {
		var toks []Token
		if taint {
			toks = g.Taint(rec, nil)
		}
		engineStreams, hopStreams = true, regularRecipe(rec)
		hopStreamsOff = !hopStreams
		c := buildCase(fmt.Sprintf("e%d", i), rec, nil, nil)
		engineStreams, hopStreams, hopStreamsOff = false, false, false
		c.Toks = toks
		cases = append(cases, c)
	}
	return cases
}

func strSXs(ss []string) []SX {
	out := make([]SX, len(ss))
	for i, s := range ss {
		out[i] = Str(s)
	}
	return out
}

func hasNonStringTags(r *R) bool {
	if r == nil {
		return false
	}
	if r.Op == "tags" {
		for _, k := range r.NIn {
			if k != 0 {
				return true
			}
		}
	}
	for _, k := range r.K {
		if hasNonStringTags(k) {
			return true
		}
	}
	return false
}

func sentinelRefs(g *Gen) []*R {
	var out []*R
	for i := 1; i <= 7; i++ {
		out = append(out, &R{Op: "sentinel", ID: i, NIn: []int{i}})
	}
	out = append(out, g.LeafOp("deadline"))
	return out
}

// genCases produces the structured stream for the transport/identity properties.
func genCases(g *Gen, n int) []*Case {
	var cases []*Case
	for i := 0; i < n; i++ {
		depth := 1 + g.rng.Intn(g.maxDepth)
		rec := g.Tree(depth)
		refs := sentinelRefs(g)
		refs = append(refs, g.Clone(rec), g.Perturb(rec), g.Perturb(rec), g.Tree(2))
		nodeRefs := []int{0, 1, 2, 3, 5, 8}
		cases = append(cases, buildCase(fmt.Sprintf("c%d", i), rec, refs, nodeRefs))
	}
	return cases
}

// multiCases: trees whose root region is multi-cause heavy (nested multi-cause nodes,
// branches that are wrapped chains, multi-cause nodes under wrappers).
func multiRecipe(g *Gen) *R {
	rec, _ := multiRecipe2(g)
	return rec
}

func multiRecipe2(g *Gen) (*R, *R) {
	{
		depth := 2 + g.rng.Intn(g.maxDepth-1)
		nk := 1 + g.rng.Intn(3)
		kids := make([]*R, nk)
		for j := range kids {
			if g.rng.Intn(3) == 0 {
				kids[j] = g.MultiOp(g.rng.Pick(multiOps), []*R{g.Tree(depth - 2), g.Tree(depth - 2)})
			} else {
				kids[j] = g.Tree(depth - 1)
			}
		}
		rec := g.MultiOp(g.rng.Pick(multiOps), kids)
		for w := g.rng.Intn(3); w > 0; w-- {
			rec = g.WrapOp(g.rng.Pick(wrapOps), rec, depth)
		}
		return rec, kids[0]
	}
}

// sharedObjectRecipes: multi-cause trees in which one error object occurs in several branches.
func sharedObjectRecipes(g *Gen) []*R {
	sent := func(id int) *R { return g.node("sentinel", nil, []int{id}) }
	dl := func() *R { return g.node("deadline", nil, nil) }
	var out []*R
	for _, m := range []string{"joinraw", "stdjoin"} {
		out = append(out,
			g.MultiOp(m, []*R{g.WrapOp("wrap", sent(1), 2), g.WrapOp("wrap", sent(1), 2)}),
			g.MultiOp(m, []*R{sent(2), g.WrapOp("telemetry", sent(2), 2)}),
			g.MultiOp(m, []*R{sent(3), sent(3)}),
			g.WrapOp("wrap", g.MultiOp(m, []*R{dl(), g.WrapOp("hint", dl(), 2), g.LeafOp("new")}), 2),
			g.MultiOp(m, []*R{g.MultiOp(m, []*R{sent(4), g.LeafOp("goerr")}), g.WrapOp("withstack", sent(4), 2)}))
	}
	return out
}

func multiCases(g *Gen, n int) []*Case {
	var cases []*Case
	for i, rec := range sharedObjectRecipes(g) {
		refs := sentinelRefs(g)
		refs = append(refs, g.Clone(rec))
		cases = append(cases, buildCase(fmt.Sprintf("shared%d", i), rec, refs, []int{0, 1, 2, 3, 4, 6, 9}))
	}
	for i := 0; i < n; i++ {
		rec, kid0 := multiRecipe2(g)
		refs := sentinelRefs(g)
		refs = append(refs, g.Clone(rec), g.Perturb(rec), g.Clone(kid0), g.Tree(2))
		cases = append(cases, buildCase(fmt.Sprintf("u%d", i), rec, refs, []int{0, 1, 2, 3, 4, 6, 9}))
	}
	return cases
}

// annotCases: annotation-heavy chains with repeated, empty and interleaved hints,
// details, links, keys and tags at any depth.
func annotCases(g *Gen, n int) []*Case {
	var cases []*Case
	for i := 0; i < n; i++ {
		cases = append(cases, buildCase(fmt.Sprintf("a%d", i), annotRecipe(g), nil, nil))
	}
	return cases
}

func annotRecipe(g *Gen) *R {
	ops := []string{"hint", "hint", "detail", "detail", "issuelink", "telemetry", "tags", "assertion", "wrap", "withstack",
		"domain", "secondary", "mark", "hop", "uwrap", "fmterrorf", "pkgwithmessage"}
	hintPool := []string{"h1", "h2", "", "h1", "multi\nline hint", "See: dup", "disk is 100% full",
		"ends with a newline\n", "\n", "--", "  ", "a\n--\nb"}
	{
		var rec *R
		switch g.rng.Intn(4) {
		case 0:
			rec = g.LeafOp("unimpl")
		case 1:
			rec = g.LeafOp("assertionfailedf")
		default:
			rec = g.Leaf()
		}
		depth := 1 + g.rng.Intn(10)
		for d := 0; d < depth; d++ {
			op := ops[g.rng.Intn(len(ops))]
			if op == "hop" && !g.allowHops {
				op = "hint"
			}
			rec = g.WrapOp(op, rec, 2)
			if (op == "hint" || op == "detail") && rec.Arg == nil {
				rec.In[0] = hintPool[g.rng.Intn(len(hintPool))]
				rec.F = false
				if g.rng.Intn(5) == 0 {
					// WithHintf / WithDetailf without arguments: "%%" is one percent sign, and the result
					// de-duplicates against the literal twin in the pool
					rec.In[0], rec.F = "disk is 100%% full", true
				}
			}
		}
		return rec
	}
}

// hiddenCases: barrier / secondary / mark nodes at any depth whose hidden sub-trees carry
// hints, domains, assertion flags, codes, keys and sentinels.
func hiddenCases(g *Gen, n int) []*Case {
	carriers := []string{"handled", "handled", "handledindomain", "secondary", "combine", "mark", "handleasassertion", "newassertionwrapped"}
	rich := []string{"hint", "detail", "domain", "assertion", "http", "grpc", "telemetry", "issuelink", "tags", "wrap", "mark", "secondary", "handled"}
	var cases []*Case
	for i := 0; i < n; i++ {
		// a hidden tree full of annotations over a sentinel or an errno
		var hidden *R
		switch g.rng.Intn(3) {
		case 0:
			hidden = g.LeafOp("sentinel")
		case 1:
			hidden = g.LeafOp("errno")
		default:
			hidden = g.Leaf()
		}
		for d := g.rng.Intn(5); d > 0; d-- {
			hidden = g.WrapOp(rich[g.rng.Intn(len(rich))], hidden, 2)
		}
		visible := g.Tree(1 + g.rng.Intn(3))
		var rec *R
		op := carriers[g.rng.Intn(len(carriers))]
		switch op {
		case "secondary", "combine", "mark":
			rec = g.node(op, nil, nil, visible, hidden)
		default:
			rec = g.WrapOp(op, hidden, 2)
		}
		for d := g.rng.Intn(4); d > 0; d-- {
			rec = g.WrapOp(g.rng.Pick(wrapOps), rec, 2)
		}
		refs := sentinelRefs(g)
		refs = append(refs, g.Clone(hidden))
		cases = append(cases, buildCase(fmt.Sprintf("h%d", i), rec, refs, []int{0, 1, 2, 3}))
	}
	if g.allowErrArgs || true {
		for i := 0; i < n/10; i++ {
			hidden := g.WrapOp("hint", g.WrapOp("domain", g.LeafOp("sentinel"), 2), 2)
			var rec *R
			switch g.rng.Intn(3) {
			case 0:
				rec = g.node("newfe", []string{"failed %v"}, nil, hidden)
			case 1:
				rec = g.node("wrapfe", []string{"while %v"}, nil, g.Tree(2), hidden)
			default:
				rec = g.node("newfw", []string{"ctx: %w"}, nil, hidden)
			}
			cases = append(cases, buildCase(fmt.Sprintf("he%d", i), rec, sentinelRefs(g), []int{0, 1, 2}))
		}
	}
	return cases
}

// pairCases: every ordered pair (outer wrapper kind, inner kind) over canonical leaves.
func pairCases(g *Gen) []*Case {
	var cases []*Case
	i := 0
	for _, outer := range wrapOps {
		for _, inner := range append(append([]string{}, wrapOps...), leafOps...) {
			var kid *R
			isLeaf := false
			for _, l := range leafOps {
				if l == inner {
					isLeaf = true
				}
			}
			if isLeaf {
				kid = g.LeafOp(inner)
			} else {
				kid = g.WrapOp(inner, g.LeafOp("goerr"), 2)
			}
			rec := g.WrapOp(outer, kid, 2)
			refs := sentinelRefs(g)
			refs = append(refs, g.Clone(rec), g.Perturb(rec))
			cases = append(cases, buildCase(fmt.Sprintf("p%d", i), rec, refs, []int{0, 1, 2}))
			i++
		}
	}
	// every value of the enumerated leaf payloads once: each gRPC status code (1..16; 0 = OK is no
	// error), bare and under a wrapper
	for code := 1; code <= 16; code++ {
		for _, op := range []string{"grpcstatus", "gogostatus"} {
			leaf := g.node(op, []string{g.word()}, []int{code})
			rec := leaf
			if code%2 == 0 {
				rec = g.WrapOp("hint", g.WrapOp("wrap", leaf, 2), 2)
			}
			refs := sentinelRefs(g)
			refs = append(refs, g.Clone(rec))
			cases = append(cases, buildCase(fmt.Sprintf("st%d", i), rec, refs, []int{0, 1}))
			i++
		}
	}
	for _, m := range multiOps {
		for _, inner := range wrapOps {
			rec := g.MultiOp(m, []*R{g.WrapOp(inner, g.LeafOp("new"), 2), g.LeafOp("goerr")})
			refs := sentinelRefs(g)
			refs = append(refs, g.Clone(rec), g.Perturb(rec))
			cases = append(cases, buildCase(fmt.Sprintf("m%d", i), rec, refs, []int{0, 1, 2, 3}))
			i++
			rec2 := g.WrapOp(inner, g.MultiOp(m, []*R{g.LeafOp("new"), g.LeafOp("sentinel")}), 2)
			cases = append(cases, buildCase(fmt.Sprintf("m%d", i), rec2, sentinelRefs(g), []int{0, 1, 2, 3}))
			i++
		}
		// a multi-cause node that kept a single branch (Join(x, nil)) is still a node of the tree
		for _, rec := range []*R{
			g.MultiOp(m, []*R{g.LeafOp("new")}),
			g.WrapOp("wrap", g.MultiOp(m, []*R{g.WrapOp("hint", g.LeafOp("goerr"), 2)}), 2),
			g.MultiOp(m, []*R{g.MultiOp(m, []*R{g.LeafOp("goerr")}), g.LeafOp("new")}),
		} {
			refs := sentinelRefs(g)
			refs = append(refs, g.Clone(rec), g.Perturb(rec))
			cases = append(cases, buildCase(fmt.Sprintf("m%d", i), rec, refs, []int{0, 1, 2, 3}))
			i++
		}
	}
	return cases
}

func runProperty(res *Result, prop, tier string, seed uint64, driver, replay string) {
	if prop == "C16" {
		runC16(res)
		return
	}
	if prop == "C18" {
		runC18(res, tier, seed)
		return
	}
	if prop == "C20" {
		runC20(res, tier, seed, driver)
		return
	}
	if prop == "C17" {
		runC17(res, tier, driver)
		return
	}
	if prop == "C05" {
		runC05(res, tier, seed, driver)
		return
	}
	// The thorough tier runs many independent batches (fresh generator state derived from the
	// seed and the batch number) so that memory stays bounded: every batch is generated, sent to
	// the driver, compared and judged, then dropped.
	batches, n, depth := 1, 1500, 6
	if tier == "thorough" {
		batches, n, depth = 14, 1500, 9
		if prop == "C04" {
			batches = 2 // the thorough C04 batch enumerates every subset of unknown families: ~37k cases each
		}
	}
	distinct := map[string]bool{}
	total := 0
	opCounts := map[string]int{}
	// replay: the generator is deterministic in (seed, tier, batch), so the cases of a replay file
	// are regenerated by running the same batches and keeping only the recorded case ids
	only, onlyBatches := replayCases(replay)
	for b := 0; b < batches; b++ {
		if only != nil && !onlyBatches[b] {
			continue
		}
		g := NewGen(seed + uint64(b)*1000003)
		g.maxDepth = depth
		cases := propCases(res, prop, tier, g, n, b)
		if cases == nil {
			fmt.Fprintln(os.Stderr, "unknown property", prop)
			os.Exit(2)
		}
		for _, c := range cases {
			c.ID = fmt.Sprintf("b%d.%s", b, c.ID)
		}
		if only != nil {
			var keep []*Case
			for _, c := range cases {
				if only[c.ID] {
					keep = append(keep, c)
				}
			}
			cases = keep
		}
		total += len(cases)
		processBatch(res, prop, driver, cases, distinct)
		for k, v := range g.opCount {
			opCounts[k] += v
		}
	}
	res.Cases = total
	res.Distinct = len(distinct)
	res.OpCounts = opCounts
	res.Rule = "seeded recipe generator (SplitMix64, VERIF_SEED) over the constructor API, stdlib/pkg-errors/OS/user types, plus every ordered (outer, inner) kind pair; a case is distinct by recipe text and non-trivial when it built a non-nil error whose streams were all compared"
}

// propCases builds one batch of cases for a property.
func propCases(res *Result, prop, tier string, g *Gen, n int, batch int) []*Case {
	var cases []*Case
	if prop == "C10" && batch == 0 {
		oracleC10Nil(res)
	}
	if prop == "C08" && batch == 0 {
		oracleC08NonComparable(res)
	}
	if (prop == "C08" || prop == "C02") && batch == 0 {
		oracleKeyMarker(res, prop)
	}
	if (prop == "C10" || prop == "C13" || prop == "C14") && batch == 0 {
		oracleJoinAliasing(res, prop)
	}
	if prop == "C07" && batch == 0 {
		oracleC07EmptyOverride(res)
		oracleC07ErrorArgs(res)
	}
	if (prop == "C05" || prop == "C13") && batch == 0 {
		oracleDeepMulti(res, prop)
	}
	if prop == "C14" && batch == 0 {
		oracleC14TypedNil(res)
		oracleC14CauserMulti(res)
	}
	if prop == "C11" && batch == 0 {
		oracleC11Source(res)
		oracleC11DeepStacks(res)
		oracleC11GenericReceivers(res)
		oracleC11RawBytes(res)
	}
	switch prop {
	case "C19":
		cases = append(cases, annotCases(g, n)...)
	case "RC":
		cases = append(cases, contractCases(g, n*4)...)
	case "C03", "C06", "C12", "C15":
		cases = append(cases, engineCases(g, n/3, true, prop != "C12")...)
		if prop == "C15" && batch == 0 {
			cases = append(cases, emptyStackCases()...)
			cases = append(cases, deepStackCases()...)
		}
		if prop == "C12" && batch == 0 {
			cases = append(cases, safeArgCases(g)...)
			cases = append(cases, lookalikeCases(g)...)
		}
		if prop == "C06" && batch == 0 {
			cases = append(cases, decodedHostileCases()...)
		}
		if prop == "C03" && batch == 0 {
			cases = append(cases, decodedTaintCases(g)...)
		}
		if prop != "C15" && batch == 0 {
			// runtime.Error, *net.OpError, redact.SafeMessager (kinds the special-case formatter knows
			// and the model does not): direct oracles only
			cases = append(cases, specialKindCases(g, false, prop != "C06")...)
			if prop != "C12" {
				cases = append(cases, specialKindCases(g, true, prop != "C06")...)
			}
		}
		if prop == "C03" || prop == "C12" {
			// unsafe inputs of several KiB (caps, cuts and windows over a rendering land inside
			// them): judged by the taint oracles only
			g.longUnsafe = true
			long := engineCases(g, n/25, true, false)
			g.longUnsafe = false
			for _, c := range long {
				c.ID = "long" + c.ID
				c.NoModel = true
			}
			cases = append(cases, long...)
		}
	case "C09":
		cases = append(cases, engineCases(g, n/3, false, false)...)
		if batch == 0 {
			cases = append(cases, specialKindCases(g, false, false)...)
		}
	case "FMT":
		// formatting-engine tie only: every generator family, half of the cases over the
		// hostile alphabet (markers, newlines, NUL, invalid UTF-8, empty strings)
		cases = append(cases, engineCases(g, n*2, false, true)...)
	case "C07":
		cases = append(cases, hiddenCases(g, n)...)
	case "C04":
		cases = append(cases, c04Cases(g, n/3, tier == "thorough")...)
		if batch == 0 {
			cases = append(cases, emptyTextCases("C04", g)...)
		}
	case "C11":
		cases = append(cases, pairCases(g)...)
		cases = append(cases, annotCases(g, n/2)...)
		cases = append(cases, genCases(g, n/2)...)
	case "C01", "C02", "C08", "C10", "C14":
		cases = append(cases, pairCases(g)...)
		cases = append(cases, genCases(g, n)...)
		if prop == "C02" && batch == 0 {
			cases = append(cases, emptyTextCases("C02", g)...)
		}
		if (prop == "C01" || prop == "C02") && batch == 0 {
			cases = append(cases, sharedWrapperCases()...)
		}
	case "C13":
		if batch == 0 {
			cases = append(cases, sharedWrapperCases()...)
		}
		cases = append(cases, pairCases(g)...)
		cases = append(cases, multiCases(g, n)...)
	default:
		return nil
	}
	if cases == nil {
		cases = []*Case{}
	}
	return cases
}

// processBatch sends a batch to the driver, compares every stream, runs the direct oracles.
func processBatch(res *Result, prop, driver string, cases []*Case, distinct map[string]bool) {
	for _, c := range cases {
		distinct[c.Cmd.String()] = true
		if c.Rec != nil {
			res.DepthHist[fmt.Sprint(c.Rec.Depth())]++
		}
	}
	var forModel []*Case
	for _, c := range cases {
		if !c.NoModel {
			forModel = append(forModel, c)
		}
	}
	model, err := runDriver(driver, forModel)
	if err != nil {
		res.Notes = append(res.Notes, "driver error: "+err.Error())
	}
	for _, c := range cases {
		m, ok := model[c.ID]
		if !ok {
			m = L(Sym("missing"))
		}
		if c.NoModel {
			res.OracleEvals[prop+".direct_only_cases"]++
			runOracles(res, prop, c)
			c.Real, c.Err, c.Refs = SX{}, nil, nil
			continue
		}
		if dbg := os.Getenv("VERIF_DEBUG_CASE"); dbg != "" && dbg == c.ID {
			fmt.Fprintln(os.Stderr, "DEBUG REAL", c.Real.String())
			fmt.Fprintln(os.Stderr, "DEBUG MODEL", m.String())
		}
		if prop == "C04" && (strings.Contains(field(c.Real, "utree").String(), "e280b9") || field(m, "udom").String() == "n0") {
			// marker runes in an Error() text at the unknowing process (the known barrier finding D7),
			// visible or in a hidden part: outside the domain of the transport model's compositional
			// text function (the model says so itself: udom); counted, not compared
			res.OracleEvals["C04.tie_skipped_marker_text"]++
		} else {
			compare(res, c, m)
		}
		runOracles(res, prop, c)
		c.Real, c.Err, c.Refs = SX{}, nil, nil
	}
	if len(res.Samples) < 3 {
		for i := 0; i < 3 && i < len(cases); i++ {
			s := cases[len(cases)-1-i].Cmd.String()
			if len(s) > 600 {
				s = s[:600] + "…"
			}
			res.Samples = append(res.Samples, s)
		}
	}
}

// replayCases reads the case ids recorded in a replay file written by the check (nil = no
// restriction: the file names no generated case, the whole tier is run again).
func replayCases(path string) (map[string]bool, map[int]bool) {
	if path == "" {
		return nil, nil
	}
	bs, err := os.ReadFile(path)
	if err != nil {
		fmt.Fprintln(os.Stderr, "replay:", err)
		os.Exit(2)
	}
	var f struct {
		Violations []struct {
			Failures []struct {
				Case string `json:"case"`
			} `json:"failures"`
			Mismatches []struct {
				Case string `json:"case"`
			} `json:"first"`
		} `json:"violations"`
	}
	if err := json.Unmarshal(bs, &f); err != nil {
		fmt.Fprintln(os.Stderr, "replay:", err)
		os.Exit(2)
	}
	only, bset := map[string]bool{}, map[int]bool{}
	add := func(id string) {
		var b int
		if _, err := fmt.Sscanf(id, "b%d.", &b); err == nil {
			only[id] = true
			bset[b] = true
		}
	}
	for _, v := range f.Violations {
		for _, x := range v.Failures {
			add(x.Case)
		}
		for _, x := range v.Mismatches {
			add(x.Case)
		}
	}
	if len(only) == 0 {
		return nil, nil
	}
	return only, bset
}
