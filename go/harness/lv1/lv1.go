// Package lv1 is one non-inlinable frame of the C16 call chain (each level lives in
// its own package so that package domains distinguish the levels).
package lv1

//go:noinline
func Call(f func() interface{}) interface{} {
	r := f()
	return r
}
