package main

import (
	goErr "errors"
	"fmt"
	"io/fs"
	"os"
	"syscall"

	"github.com/cockroachdb/errors"
	"github.com/cockroachdb/errors/errbase"
	"github.com/cockroachdb/errors/errorspb"
	pkgErr "github.com/pkg/errors"
)

// C14: compatibility with the standard library and pkg/errors.

func foundSX(ok bool, v error) SX {
	if !ok || v == nil {
		return L(Sym("none"))
	}
	return L(Sym("some"), Str(fmt.Sprintf("%T", v)), Str(v.Error()))
}

type asTarget struct {
	name string
	lib  func(e error) (bool, error)
	std  func(e error) (bool, error)
}

func asTargetsGo() []asTarget {
	mk := func(name string, lib, std func(e error) (bool, error)) asTarget { return asTarget{name, lib, std} }
	return []asTarget{
		mk("PathError", func(e error) (bool, error) { var t *fs.PathError; ok := errors.As(e, &t); return ok, errOrNil(ok, t) },
			func(e error) (bool, error) { var t *fs.PathError; ok := goErr.As(e, &t); return ok, errOrNil(ok, t) }),
		mk("LinkError", func(e error) (bool, error) { var t *os.LinkError; ok := errors.As(e, &t); return ok, errOrNil(ok, t) },
			func(e error) (bool, error) { var t *os.LinkError; ok := goErr.As(e, &t); return ok, errOrNil(ok, t) }),
		mk("SyscallError", func(e error) (bool, error) { var t *os.SyscallError; ok := errors.As(e, &t); return ok, errOrNil(ok, t) },
			func(e error) (bool, error) { var t *os.SyscallError; ok := goErr.As(e, &t); return ok, errOrNil(ok, t) }),
		mk("Errno", func(e error) (bool, error) { var t syscall.Errno; ok := errors.As(e, &t); return ok, errOrNil(ok, t) },
			func(e error) (bool, error) { var t syscall.Errno; ok := goErr.As(e, &t); return ok, errOrNil(ok, t) }),
		mk("TestError", func(e error) (bool, error) { var t *errorspb.TestError; ok := errors.As(e, &t); return ok, errOrNil(ok, t) },
			func(e error) (bool, error) { var t *errorspb.TestError; ok := goErr.As(e, &t); return ok, errOrNil(ok, t) }),
		mk("ULeafA", func(e error) (bool, error) { var t *ULeafA; ok := errors.As(e, &t); return ok, errOrNil(ok, t) },
			func(e error) (bool, error) { var t *ULeafA; ok := goErr.As(e, &t); return ok, errOrNil(ok, t) }),
		mk("UWrapP", func(e error) (bool, error) { var t *UWrapP; ok := errors.As(e, &t); return ok, errOrNil(ok, t) },
			func(e error) (bool, error) { var t *UWrapP; ok := goErr.As(e, &t); return ok, errOrNil(ok, t) }),
		mk("UWrapC", func(e error) (bool, error) { var t *UWrapC; ok := errors.As(e, &t); return ok, errOrNil(ok, t) },
			func(e error) (bool, error) { var t *UWrapC; ok := goErr.As(e, &t); return ok, errOrNil(ok, t) }),
		mk("UMulti", func(e error) (bool, error) { var t *UMulti; ok := errors.As(e, &t); return ok, errOrNil(ok, t) },
			func(e error) (bool, error) { var t *UMulti; ok := goErr.As(e, &t); return ok, errOrNil(ok, t) }),
		mk("SafeDetailer", func(e error) (bool, error) {
			var t errbase.SafeDetailer
			ok := errors.As(e, &t)
			if !ok {
				return false, nil
			}
			return ok, t.(error)
		}, func(e error) (bool, error) {
			var t errbase.SafeDetailer
			ok := goErr.As(e, &t)
			if !ok {
				return false, nil
			}
			return ok, t.(error)
		}),
	}
}

func errOrNil(ok bool, v error) error {
	if !ok {
		return nil
	}
	return v
}

func compatSX(e error, refs []error) SX {
	var stdis []SX
	for _, r := range refs {
		stdis = append(stdis, Bool(goErr.Is(e, r)))
	}
	root := errors.UnwrapAll(e)
	proot := pkgErr.Cause(e)
	var unw []SX
	for _, n := range nodesOfErr(e, nil) {
		lu := errors.Unwrap(n)
		su := goErr.Unwrap(n)
		unw = append(unw, L(foundSX(lu != nil, lu), foundSX(su != nil, su)))
	}
	var as []SX
	for _, t := range asTargetsGo() {
		lok, lv := t.lib(e)
		sok, sv := t.std(e)
		as = append(as, L(Sym(t.name), foundSX(lok, lv), foundSX(sok, sv)))
	}
	return L(Sym("compat"),
		L(Sym("stdis"), L(stdis...)),
		L(Sym("cause"), Str(fmt.Sprintf("%T", root)), Str(root.Error())),
		func() SX {
			if proot == nil {
				return L(Sym("pkgcause"), L(Sym("nil")))
			}
			return L(Sym("pkgcause"), Str(fmt.Sprintf("%T", proot)), Str(proot.Error()))
		}(),
		L(Sym("unwrap"), L(unw...)),
		L(Sym("as"), L(as...)),
	)
}

// oracle: the property's clauses evaluated on the real objects
func oracleC14(res *Result, c *Case) {
	e := c.Err
	for i, r := range c.Refs {
		res.OracleEvals["C14.stdis_implies_is"]++
		if goErr.Is(e, r) && isRes(e, r) != "true" {
			res.fail(c, "C14.stdis_implies_is", fmt.Sprintf("std errors.Is(e, ref %d) holds but Is does not", i), "C14:is")
		}
	}
	// is every wrapper layer visible to the standard library / a causer?
	stdVisible, causer := true, true
	var walk func(e error)
	walk = func(e error) {
		for _, n := range nodesOfErr(e, nil) {
			if errbase.UnwrapOnce(n) != nil {
				if _, ok := n.(interface{ Unwrap() error }); !ok {
					stdVisible = false
				}
			}
		}
	}
	walk(e)
	for n := e; n != nil; n = errbase.UnwrapOnce(n) {
		if errbase.UnwrapOnce(n) != nil {
			if _, ok := n.(interface{ Cause() error }); !ok {
				causer = false
			}
		}
	}
	for _, t := range asTargetsGo() {
		lok, lv := t.lib(e)
		sok, sv := t.std(e)
		res.OracleEvals["C14.as"]++
		if stdVisible {
			if lok != sok || (lok && !safeEq(lv, sv)) {
				res.fail(c, "C14.as", fmt.Sprintf("target %s: As found (%v,%T) std found (%v,%T)", t.name, lok, lv, sok, sv), "C14:as:"+t.name)
			}
		} else if sok && !lok {
			res.fail(c, "C14.as", fmt.Sprintf("target %s: std As finds a match, As does not", t.name), "C14:as-missed:"+t.name)
		}
	}
	for _, n := range nodesOfErr(e, nil) {
		res.OracleEvals["C14.unwrap"]++
		_, hasUnwrap := n.(interface{ Unwrap() error })
		_, isMulti := n.(interface{ Unwrap() []error })
		lu, su := errors.Unwrap(n), goErr.Unwrap(n)
		if (hasUnwrap || isMulti || errbase.UnwrapOnce(n) == nil) && !safeEq(lu, su) {
			res.fail(c, "C14.unwrap", fmt.Sprintf("layer %T: Unwrap %T vs std %T", n, lu, su), "C14:unwrap")
		}
		if isMulti && (lu != nil || su != nil) {
			res.fail(c, "C14.unwrap", "Unwrap of a multi-cause error is not nil", "C14:unwrap-multi")
		}
	}
	if r, ok := errors.UnwrapAll(e).(interface{ Cause() error }); ok && r.Cause() == nil {
		causer = false // pkg/errors.Cause returns nil for a root whose Cause() method returns nil
	}
	if causer {
		res.OracleEvals["C14.cause"]++
		if !safeEq(errors.Cause(e), pkgErr.Cause(e)) || !safeEq(errors.UnwrapAll(e), pkgErr.Cause(e)) {
			res.fail(c, "C14.cause", "Cause/UnwrapAll differ from pkg/errors.Cause", "C14:cause")
		}
	}
}

// ---------------------------------------------------------------------
// Types with their own As / Is methods (the stdlib protocol): a method that declines must not
// stop the search, one that answers must be honoured.  Purely differential (library vs the
// standard library on the same real objects); the model does not know these types.

type pickyCode struct{ n int }

func (c *pickyCode) Error() string { return fmt.Sprintf("code %d", c.n) }

// UPicky answers As only for **pickyCode and Is only for errPickyMatch; it declines the rest.
type UPicky struct {
	cause error
	calls *int
}

var errPickyMatch = goErr.New("picky match")

func (e *UPicky) Error() string { return "picky: " + e.cause.Error() }
func (e *UPicky) Unwrap() error { return e.cause }
func (e *UPicky) As(target interface{}) bool {
	if e.calls != nil {
		*e.calls++
	}
	if t, ok := target.(**pickyCode); ok {
		*t = &pickyCode{7}
		return true
	}
	return false
}
func (e *UPicky) Is(target error) bool { return target == errPickyMatch }

func pickyVariants(e error) []namedErr {
	other := goErr.New("other branch")
	return []namedErr{
		{"picky(e)", &UPicky{cause: e}},
		{"Wrap(picky(e))", errors.Wrap(&UPicky{cause: e}, "w")},
		{"WithStack(picky(WithMessage(e)))", errors.WithStack(&UPicky{cause: errors.WithMessage(e, "m")})},
		{"Errorf(%w picky(e))", fmt.Errorf("x: %w", &UPicky{cause: e})},
		{"Join(picky(other), e)", errors.Join(&UPicky{cause: other}, e)},
		{"picky(Join(other, e))", &UPicky{cause: errors.Join(other, e)}},
		{"Join(other, Wrap(picky(e)))", errors.Join(other, errors.Wrap(&UPicky{cause: e}, "w"))},
	}
}

type namedErr struct {
	name string
	e    error
}

func oracleC14Methods(res *Result, c *Case) {
	e := c.Err
	if e == nil {
		return
	}
	targets := asTargetsGo()
	targets = append(targets, asTarget{"pickyCode",
		func(e error) (bool, error) { var t *pickyCode; ok := errors.As(e, &t); return ok, errOrNil(ok, t) },
		func(e error) (bool, error) { var t *pickyCode; ok := goErr.As(e, &t); return ok, errOrNil(ok, t) }})
	refs := append([]error{errPickyMatch, e, errors.UnwrapAll(e)}, c.Refs...)
	for _, v := range pickyVariants(e) {
		stdVisible := true
		for _, n := range nodesOfErr(v.e, nil) {
			if errbase.UnwrapOnce(n) != nil {
				if _, ok := n.(interface{ Unwrap() error }); !ok {
					stdVisible = false
				}
			}
		}
		for _, t := range targets {
			var lok, sok bool
			var lv, sv error
			if ok, _ := catch(func() { lok, lv = t.lib(v.e); sok, sv = t.std(v.e) }); !ok {
				res.fail(c, "C14.as_method", v.name+": As panicked", "C14:as-method:panic")
				continue
			}
			res.OracleEvals["C14.as_method"]++
			if stdVisible {
				if lok != sok || (lok && !(safeEq(lv, sv) || (t.name == "pickyCode" && lv != nil && sv != nil && lv.Error() == sv.Error()))) {
					res.fail(c, "C14.as_method", fmt.Sprintf("%s, target %s: As found (%v,%T) std found (%v,%T)", v.name, t.name, lok, lv, sok, sv), "C14:as-method:"+t.name)
				}
			} else if sok && !lok {
				res.fail(c, "C14.as_method", fmt.Sprintf("%s, target %s: std As finds a match, As does not", v.name, t.name), "C14:as-method-missed:"+t.name)
			}
		}
		for i, r := range refs {
			if r == nil {
				continue
			}
			res.OracleEvals["C14.is_method"]++
			if goErr.Is(v.e, r) && isRes(v.e, r) != "true" {
				res.fail(c, "C14.is_method", fmt.Sprintf("%s: std errors.Is(e, ref %d) holds but Is does not", v.name, i), "C14:is-method")
			}
		}
	}
}
