package main

import (
	"strings"

	"github.com/cockroachdb/errors/errorspb"
	"github.com/cockroachdb/errors/extgrpc"
	"github.com/cockroachdb/errors/exthttp"
	gogorpc "github.com/gogo/googleapis/google/rpc"
	"github.com/gogo/protobuf/proto"
	"github.com/gogo/protobuf/types"
)

const unkSuffix = "~unk"

var barrierKey = "github.com/cockroachdb/errors/barriers/*barriers.barrierErr"

const vfPlaceholder = "<VF>"

// maskVF replaces the verbose rendering embedded in a barrier's details by the
// placeholder the model prints until the engine model supplies it.
func maskVF(s string) string {
	t := strings.TrimLeft(s, " ")
	if strings.HasPrefix(t, "masked error: ") {
		return s[:len(s)-len(t)] + vfPlaceholder
	}
	return s
}

var maskBarrierDetails = false

// payToSX converts details.full_details into the model's (Pay, hid) pair.
func payToSX(a *types.Any) (pay SX, hid []SX) {
	if a == nil {
		return L(Sym("none")), nil
	}
	b := *a
	b.TypeUrl = strings.TrimSuffix(b.TypeUrl, unkSuffix)
	var d types.DynamicAny
	if err := types.UnmarshalAny(&b, &d); err != nil {
		return L(Sym("raw"), Str(b.TypeUrl), Str(string(b.Value))), nil
	}
	switch m := d.Message.(type) {
	case *errorspb.EncodedError:
		return L(Sym("none")), []SX{encToSX(m)}
	case *errorspb.StringPayload:
		return L(Sym("str"), Str(m.Msg)), nil
	case *errorspb.StringsPayload:
		return L(Sym("strs"), Strs(m.Details)), nil
	case *errorspb.ErrnoPayload:
		return L(Sym("errno"), Nat(int(m.OrigErrno)), Str(m.Arch), Bool(m.IsPermission), Bool(m.IsExist),
			Bool(m.IsNotExist), Bool(m.IsTimeout), Bool(m.IsTemporary)), nil
	case *errorspb.MarkPayload:
		tys := make([]SX, len(m.Types))
		for i, t := range m.Types {
			tys[i] = L(Str(strings.TrimSuffix(t.FamilyName, unkSuffix)), Str(t.Extension))
		}
		return L(Sym("mark"), Str(m.Msg), L(tys...)), nil
	case *errorspb.TagsPayload:
		tags := make([]SX, len(m.Tags))
		for i, t := range m.Tags {
			tags[i] = L(Str(t.Tag), Str(t.Value))
		}
		return L(Sym("tags"), L(tags...)), nil
	case *exthttp.EncodedHTTPCode:
		return L(Sym("http"), Nat(int(m.Code))), nil
	case *extgrpc.EncodedGrpcCode:
		return L(Sym("grpc"), Nat(int(m.Code))), nil
	case *gogorpc.Status:
		return L(Sym("status"), Nat(int(m.Code)), Str(m.Message), Nat(len(m.Details))), nil
	case *errorspb.TestError:
		return L(Sym("testerr")), nil
	}
	return L(Sym("raw"), Str(b.TypeUrl), Str(string(b.Value))), nil
}

func detToSX(d *errorspb.EncodedErrorDetails) (SX, []SX) {
	pay, hid := payToSX(d.FullDetails)
	fam := strings.TrimSuffix(d.ErrorTypeMark.FamilyName, unkSuffix)
	rep := d.ReportablePayload
	rep = make([]string, len(d.ReportablePayload))
	for i, s := range d.ReportablePayload {
		if maskBarrierDetails {
			s = maskVF(s)
		}
		rep[i] = strings.ReplaceAll(s, unkSuffix, "")
	}
	return L(Sym("D"), Str(d.OriginalTypeName), Str(fam), Str(d.ErrorTypeMark.Extension), Strs(rep), pay), hid
}

// encToSX prints an EncodedError canonically.  An EncodedError with neither
// leaf nor wrapper is printed as (X) (structurally incomplete).
func encToSX(e *errorspb.EncodedError) SX {
	if w := e.GetWrapper(); w != nil {
		d, hid := detToSX(&w.Details)
		return L(Sym("W"), Str(w.Message), d, Nat(int(w.MessageType)), L(hid...), encToSX(&w.Cause))
	}
	if l := e.GetLeaf(); l != nil {
		d, hid := detToSX(&l.Details)
		cs := make([]SX, len(l.MultierrorCauses))
		for i, c := range l.MultierrorCauses {
			cs[i] = encToSX(c)
		}
		return L(Sym("L"), Str(l.Message), d, L(hid...), L(cs...))
	}
	return L(Sym("X"))
}

// sxToAny builds details.full_details from (Pay, hid).
func sxToAny(pay SX, hid []SX) *types.Any {
	var m proto.Message
	if len(hid) > 0 {
		e := sxToEnc(hid[0])
		m = e
	} else {
		switch pay.L[0].Sym {
		case "none":
			return nil
		case "str":
			m = &errorspb.StringPayload{Msg: pay.L[1].Str}
		case "strs":
			var ss []string
			for _, s := range pay.L[1].L {
				ss = append(ss, s.Str)
			}
			m = &errorspb.StringsPayload{Details: ss}
		case "errno":
			m = &errorspb.ErrnoPayload{OrigErrno: int64(pay.L[1].Nat), Arch: pay.L[2].Str,
				IsPermission: pay.L[3].Nat != 0, IsExist: pay.L[4].Nat != 0, IsNotExist: pay.L[5].Nat != 0,
				IsTimeout: pay.L[6].Nat != 0, IsTemporary: pay.L[7].Nat != 0}
		case "mark":
			mp := &errorspb.MarkPayload{Msg: pay.L[1].Str}
			for _, t := range pay.L[2].L {
				mp.Types = append(mp.Types, errorspb.ErrorTypeMark{FamilyName: t.L[0].Str, Extension: t.L[1].Str})
			}
			m = mp
		case "tags":
			tp := &errorspb.TagsPayload{}
			for _, t := range pay.L[1].L {
				tp.Tags = append(tp.Tags, errorspb.TagPayload{Tag: t.L[0].Str, Value: t.L[1].Str})
			}
			m = tp
		case "http":
			m = &exthttp.EncodedHTTPCode{Code: uint32(pay.L[1].Nat)}
		case "grpc":
			m = &extgrpc.EncodedGrpcCode{Code: uint32(pay.L[1].Nat)}
		case "status":
			m = &gogorpc.Status{Code: int32(pay.L[1].Nat), Message: pay.L[2].Str}
		case "testerr":
			m = &errorspb.TestError{}
		case "raw":
			return &types.Any{TypeUrl: pay.L[1].Str, Value: []byte(pay.L[2].Str)}
		}
	}
	a, err := types.MarshalAny(m)
	if err != nil {
		panic(err)
	}
	return a
}

func sxToDet(d SX, hid []SX) errorspb.EncodedErrorDetails {
	var rep []string
	for _, s := range d.L[4].L {
		rep = append(rep, s.Str)
	}
	return errorspb.EncodedErrorDetails{
		OriginalTypeName:  d.L[1].Str,
		ErrorTypeMark:     errorspb.ErrorTypeMark{FamilyName: d.L[2].Str, Extension: d.L[3].Str},
		ReportablePayload: rep,
		FullDetails:       sxToAny(d.L[5], hid),
	}
}

func sxToEnc(x SX) *errorspb.EncodedError {
	switch x.L[0].Sym {
	case "L":
		var cs []*errorspb.EncodedError
		for _, c := range x.L[4].L {
			cs = append(cs, sxToEnc(c))
		}
		return &errorspb.EncodedError{Error: &errorspb.EncodedError_Leaf{Leaf: &errorspb.EncodedErrorLeaf{
			Message: x.L[1].Str, Details: sxToDet(x.L[2], x.L[3].L), MultierrorCauses: cs}}}
	case "W":
		return &errorspb.EncodedError{Error: &errorspb.EncodedError_Wrapper{Wrapper: &errorspb.EncodedWrapper{
			Message: x.L[1].Str, Details: sxToDet(x.L[2], x.L[4].L), MessageType: errorspb.MessageType(x.L[3].Nat),
			Cause: *sxToEnc(x.L[5])}}}
	}
	return &errorspb.EncodedError{}
}

// renameUnknown simulates a receiving process that does not have the families in
// `unknown` registered: family names and payload type URLs of those nodes are
// mangled so that no decoder and no proto type is found; restore() undoes it.
func renameUnknown(e *errorspb.EncodedError, unknown map[string]bool, restore bool) {
	fix := func(d *errorspb.EncodedErrorDetails) {
		if restore {
			if strings.HasSuffix(d.ErrorTypeMark.FamilyName, unkSuffix) {
				d.ErrorTypeMark.FamilyName = strings.TrimSuffix(d.ErrorTypeMark.FamilyName, unkSuffix)
				if d.FullDetails != nil {
					d.FullDetails.TypeUrl = strings.TrimSuffix(d.FullDetails.TypeUrl, unkSuffix)
				}
			}
		} else if unknown[d.ErrorTypeMark.FamilyName] {
			d.ErrorTypeMark.FamilyName += unkSuffix
			if d.FullDetails != nil {
				d.FullDetails.TypeUrl += unkSuffix
			}
		}
		// descend into nested EncodedError payloads
		if d.FullDetails != nil && strings.HasSuffix(d.FullDetails.TypeUrl, "cockroach.errorspb.EncodedError") {
			var inner errorspb.EncodedError
			if err := types.UnmarshalAny(d.FullDetails, &inner); err == nil {
				renameUnknown(&inner, unknown, restore)
				if a, err := types.MarshalAny(&inner); err == nil {
					d.FullDetails = a
				}
			}
		}
	}
	if w := e.GetWrapper(); w != nil {
		fix(&w.Details)
		renameUnknown(&w.Cause, unknown, restore)
	} else if l := e.GetLeaf(); l != nil {
		fix(&l.Details)
		for _, c := range l.MultierrorCauses {
			renameUnknown(c, unknown, restore)
		}
	}
}
