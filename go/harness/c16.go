package main

import (
	goErr "errors"
	"fmt"
	"path/filepath"
	"runtime"
	"strings"

	"github.com/cockroachdb/errors"
	"github.com/cockroachdb/errors/domains"
	"github.com/cockroachdb/errors/errbase"
	"github.com/cockroachdb/errors/errutil"
	"github.com/cockroachdb/errors/withstack"

	pkgErrors "github.com/pkg/errors"

	"verif/harness/lv3"
)

// C16: every exported stack-capturing / domain-computing function, called with
// depth d through a chain of non-inlinable frames living in different packages.

type c16Entry struct {
	name     string // as in the extracted table
	hasDepth bool
	call     func(d int) interface{} // returns error or errors.Domain
}

var c16Base = goErr.New("base")

func c16Table() []c16Entry {
	E := "github.com/cockroachdb/errors"
	return []c16Entry{
		{E + ".New", false, func(d int) interface{} { c16Mark(); return errors.New("x") }},
		{E + ".NewWithDepth", true, func(d int) interface{} { c16Mark(); return errors.NewWithDepth(d, "x") }},
		{E + ".Newf", false, func(d int) interface{} { c16Mark(); return errors.Newf("x %d", 1) }},
		{E + ".NewWithDepthf", true, func(d int) interface{} { c16Mark(); return errors.NewWithDepthf(d, "x %d", 1) }},
		{E + ".Errorf", false, func(d int) interface{} { c16Mark(); return errors.Errorf("x %d", 1) }},
		{E + ".Wrap", false, func(d int) interface{} { c16Mark(); return errors.Wrap(c16Base, "x") }},
		{E + ".WrapWithDepth", true, func(d int) interface{} { c16Mark(); return errors.WrapWithDepth(d, c16Base, "x") }},
		{E + ".Wrapf", false, func(d int) interface{} { c16Mark(); return errors.Wrapf(c16Base, "x %d", 1) }},
		{E + ".WrapWithDepthf", true, func(d int) interface{} { c16Mark(); return errors.WrapWithDepthf(d, c16Base, "x %d", 1) }},
		{E + ".WithStack", false, func(d int) interface{} { c16Mark(); return errors.WithStack(c16Base) }},
		{E + ".WithStackDepth", true, func(d int) interface{} { c16Mark(); return errors.WithStackDepth(c16Base, d) }},
		{E + ".AssertionFailedf", false, func(d int) interface{} { c16Mark(); return errors.AssertionFailedf("x %d", 1) }},
		{E + ".AssertionFailedWithDepthf", true, func(d int) interface{} { c16Mark(); return errors.AssertionFailedWithDepthf(d, "x %d", 1) }},
		{E + ".HandleAsAssertionFailure", false, func(d int) interface{} { c16Mark(); return errors.HandleAsAssertionFailure(c16Base) }},
		{E + ".HandleAsAssertionFailureDepth", true, func(d int) interface{} { c16Mark(); return errors.HandleAsAssertionFailureDepth(d, c16Base) }},
		{E + ".NewAssertionErrorWithWrappedErrf", false, func(d int) interface{} {
			c16Mark()
			return errors.NewAssertionErrorWithWrappedErrf(c16Base, "x %d", 1)
		}},
		{E + ".Join", false, func(d int) interface{} { c16Mark(); return errors.Join(c16Base, c16Base) }},
		{E + ".JoinWithDepth", true, func(d int) interface{} { c16Mark(); return errors.JoinWithDepth(d, c16Base, c16Base) }},
		{E + ".PackageDomain", false, func(d int) interface{} { c16Mark(); return errors.PackageDomain() }},
		{E + ".PackageDomainAtDepth", true, func(d int) interface{} { c16Mark(); return errors.PackageDomainAtDepth(d) }},
		{E + "/errutil.New", false, func(d int) interface{} { c16Mark(); return errutil.New("x") }},
		{E + "/errutil.NewWithDepth", true, func(d int) interface{} { c16Mark(); return errutil.NewWithDepth(d, "x") }},
		{E + "/errutil.Newf", false, func(d int) interface{} { c16Mark(); return errutil.Newf("x %d", 1) }},
		{E + "/errutil.NewWithDepthf", true, func(d int) interface{} { c16Mark(); return errutil.NewWithDepthf(d, "x %d", 1) }},
		{E + "/errutil.Wrap", false, func(d int) interface{} { c16Mark(); return errutil.Wrap(c16Base, "x") }},
		{E + "/errutil.WrapWithDepth", true, func(d int) interface{} { c16Mark(); return errutil.WrapWithDepth(d, c16Base, "x") }},
		{E + "/errutil.Wrapf", false, func(d int) interface{} { c16Mark(); return errutil.Wrapf(c16Base, "x %d", 1) }},
		{E + "/errutil.WrapWithDepthf", true, func(d int) interface{} { c16Mark(); return errutil.WrapWithDepthf(d, c16Base, "x %d", 1) }},
		{E + "/errutil.AssertionFailedf", false, func(d int) interface{} { c16Mark(); return errutil.AssertionFailedf("x %d", 1) }},
		{E + "/errutil.AssertionFailedWithDepthf", true, func(d int) interface{} { c16Mark(); return errutil.AssertionFailedWithDepthf(d, "x %d", 1) }},
		{E + "/errutil.HandleAsAssertionFailure", false, func(d int) interface{} { c16Mark(); return errutil.HandleAsAssertionFailure(c16Base) }},
		{E + "/errutil.HandleAsAssertionFailureDepth", true, func(d int) interface{} { c16Mark(); return errutil.HandleAsAssertionFailureDepth(d, c16Base) }},
		{E + "/errutil.NewAssertionErrorWithWrappedErrf", false, func(d int) interface{} {
			c16Mark()
			return errutil.NewAssertionErrorWithWrappedErrf(c16Base, "x %d", 1)
		}},
		{E + "/errutil.NewAssertionErrorWithWrappedErrDepthf", true, func(d int) interface{} {
			c16Mark()
			return errutil.NewAssertionErrorWithWrappedErrDepthf(d, c16Base, "x %d", 1)
		}},
		{E + "/errutil.JoinWithDepth", true, func(d int) interface{} { c16Mark(); return errutil.JoinWithDepth(d, c16Base, c16Base) }},
		{E + "/withstack.WithStack", false, func(d int) interface{} { c16Mark(); return withstack.WithStack(c16Base) }},
		{E + "/withstack.WithStackDepth", true, func(d int) interface{} { c16Mark(); return withstack.WithStackDepth(c16Base, d) }},
		{E + "/domains.PackageDomain", false, func(d int) interface{} { c16Mark(); return domains.PackageDomain() }},
		{E + "/domains.PackageDomainAtDepth", true, func(d int) interface{} { c16Mark(); return domains.PackageDomainAtDepth(d) }},
		{E + "/domains.New", false, func(d int) interface{} { c16Mark(); return domains.New("x") }},
		{E + "/domains.Handled", false, func(d int) interface{} { c16Mark(); return domains.Handled(c16Base) }},
		// the same constructors on their other code paths: %w in the format, error arguments, empty message
		{E + ".Newf#w", false, func(d int) interface{} { c16Mark(); return errors.Newf("x: %w", c16Base) }},
		{E + ".Errorf#w", false, func(d int) interface{} { c16Mark(); return errors.Errorf("x: %w", c16Base) }},
		{E + ".NewWithDepthf#w", true, func(d int) interface{} { c16Mark(); return errors.NewWithDepthf(d, "x: %w", c16Base) }},
		{E + ".NewWithDepthf#v", true, func(d int) interface{} { c16Mark(); return errors.NewWithDepthf(d, "x: %v", c16Base) }},
		{E + ".AssertionFailedf#w", false, func(d int) interface{} { c16Mark(); return errors.AssertionFailedf("x: %w", c16Base) }},
		{E + ".AssertionFailedWithDepthf#w", true, func(d int) interface{} {
			c16Mark()
			return errors.AssertionFailedWithDepthf(d, "x: %w", c16Base)
		}},
		{E + "/errutil.Newf#w", false, func(d int) interface{} { c16Mark(); return errutil.Newf("x: %w", c16Base) }},
		{E + "/errutil.NewWithDepthf#w", true, func(d int) interface{} { c16Mark(); return errutil.NewWithDepthf(d, "x: %w", c16Base) }},
		{E + ".Wrap#empty", false, func(d int) interface{} { c16Mark(); return errors.Wrap(c16Base, "") }},
		{E + ".Wrapf#empty", false, func(d int) interface{} { c16Mark(); return errors.Wrapf(c16Base, "") }},
		{E + ".Wrapf#v", false, func(d int) interface{} { c16Mark(); return errors.Wrapf(c16Base, "x %v", c16Base) }},
		{E + ".WrapWithDepthf#v", true, func(d int) interface{} { c16Mark(); return errors.WrapWithDepthf(d, c16Base, "x %v", c16Base) }},
		{E + ".WrapWithDepth#empty", true, func(d int) interface{} { c16Mark(); return errors.WrapWithDepth(d, c16Base, "") }},
		{E + ".NewAssertionErrorWithWrappedErrf#empty", false, func(d int) interface{} {
			c16Mark()
			return errors.NewAssertionErrorWithWrappedErrf(c16Base, "")
		}},
		{E + ".Join#nil", false, func(d int) interface{} { c16Mark(); return errors.Join(nil, c16Base, nil) }},
	}
}

type c16Frame struct {
	fn   string
	file string
}

var c16Ref []c16Frame

// c16Mark records, from inside a table closure, the frames starting at that closure.
//
//go:noinline
func c16Mark() {
	pcs := make([]uintptr, 16)
	n := runtime.Callers(2, pcs) // skip Callers and c16Mark: first = the closure calling us
	fr := runtime.CallersFrames(pcs[:n])
	var out []c16Frame
	for {
		f, more := fr.Next()
		out = append(out, c16Frame{f.Function, f.File})
		if !more {
			break
		}
	}
	c16Ref = out
}

// firstFrameFn returns the function name of the first frame of the outermost stack layer.
func firstFrameFn(e error) (string, bool) {
	for c := e; c != nil; c = errbase.UnwrapOnce(c) {
		if sp, ok := c.(errbase.StackTraceProvider); ok {
			st := sp.StackTrace()
			if len(st) == 0 {
				return "", false
			}
			txt := fmt.Sprintf("%+v", st[0])
			return strings.SplitN(txt, "\n", 2)[0], true
		}
	}
	return "", false
}

func runC16(res *Result) {
	tbl := c16Table()
	names := []string{}
	for _, ent := range tbl {
		ent := ent
		if !strings.Contains(ent.name, "#") {
			names = append(names, ent.name)
		}
		maxd := 0
		if ent.hasDepth {
			maxd = 3
		}
		for dd := 0; dd <= 2*maxd+1; dd++ {
			// every entry is called twice: from the harness's ordinary (shallow) stack and from under
			// 40 more frames, so that the captured stack exceeds any fixed-size first buffer
			d, deep := dd/2, 40*(dd%2)
			var ref []c16Frame
			var got interface{}
			var pv interface{}
			ok := true
			func() {
				defer func() {
					if v := recover(); v != nil {
						ok, pv = false, v
					}
				}()
				c16Ref = nil
				got = c16Deep(deep, func() interface{} { return lv3.Call(func() interface{} { return ent.call(d) }) })
				ref = c16Ref
			}()
			res.Cases++
			cse := &Case{ID: fmt.Sprintf("%s/d=%d/under=%d", ent.name, d, deep), Cmd: L(Sym("c16"), Str(ent.name), Nat(d), Nat(deep))}
			if !ok {
				res.fail(cse, "C16.no_panic", fmt.Sprint(pv), "C16:panic:"+ent.name)
				continue
			}
			if len(ref) <= d {
				res.fail(cse, "C16.harness", "reference stack too short", "C16:harness")
				continue
			}
			want := ref[d]
			switch v := got.(type) {
			case errors.Domain:
				res.OracleEvals["C16.domain_of_caller"]++
				wantDom := "error domain: pkg " + filepath.Dir(want.file)
				if string(v) != wantDom {
					res.fail(cse, "C16.domain_of_caller", fmt.Sprintf("got %q want %q (depth %d)", string(v), wantDom, d), "C16:domain:"+ent.name)
				}
			case error:
				if strings.HasSuffix(ent.name, "/domains.New") || strings.HasSuffix(ent.name, "/domains.Handled") {
					res.OracleEvals["C16.domain_of_caller"]++
					wantDom := "error domain: pkg " + filepath.Dir(want.file)
					if gd := string(errors.GetDomain(v)); gd != wantDom {
						res.fail(cse, "C16.domain_of_caller", fmt.Sprintf("got %q want %q", gd, wantDom), "C16:domain:"+ent.name)
					}
					continue
				}
				res.OracleEvals["C16.first_frame"]++
				fn, has := firstFrameFn(v)
				if !has {
					res.fail(cse, "C16.first_frame", "no stack recorded", "C16:nostack:"+ent.name)
					continue
				}
				if fn != want.fn {
					res.fail(cse, "C16.first_frame", fmt.Sprintf("first frame %q want %q (depth %d)", fn, want.fn, d), "C16:frame:"+strings.SplitN(ent.name, "#", 2)[0])
				}
				// GetOneLineSource reports the innermost recorded frame
				res.OracleEvals["C16.one_line_source"]++
				file, _, sfn, okS := errors.GetOneLineSource(v)
				short := want.fn
				if i := strings.LastIndex(short, "."); i >= 0 {
					short = short[i+1:]
				}
				// the innermost stack layer is the one we just created (the base error has none)
				if !okS || file != filepath.Base(want.file) || !strings.HasSuffix(want.fn, sfn) || sfn == "" {
					_ = short
					res.fail(cse, "C16.one_line_source", fmt.Sprintf("got (%q,%q,%v) want file %q fn suffix of %q", file, sfn, okS, filepath.Base(want.file), want.fn), "C16:source:"+strings.SplitN(ent.name, "#", 2)[0])
				}
			default:
				res.fail(cse, "C16.harness", fmt.Sprintf("unexpected result %T", got), "C16:harness")
			}
		}
	}
	oracleC16Innermost(res)
	oracleC11GenericReceivers(res) // the function name GetOneLineSource reports, for generic receivers
	res.Distinct = res.Cases
	res.Extra = map[string]interface{}{"c16_table_names": names}
	res.Rule = "every exported stack-capturing / domain-computing function of the root package, errutil, withstack, domains × depth 0..3 (depth variants) through a chain of non-inlinable frames in distinct packages; the expected frame is read off runtime.Callers inside the calling closure"
	res.Samples = []string{"errors.NewWithDepth(d, \"x\") for d=0..3 called as lv3.Call→lv2.Call→lv1.Call→closure", "domains.PackageDomainAtDepth(d)"}
}

// c16Deep calls f from under n additional stack frames.
//
//go:noinline
func c16Deep(n int, f func() interface{}) interface{} {
	if n <= 0 {
		return f()
	}
	r := c16Deep(n-1, f)
	runtime.KeepAlive(n)
	return r
}

//go:noinline
func c16Origin() error { return errors.New("origin") }

//go:noinline
func c16PkgOrigin() error { return pkgErrors.New("pkg origin") }

// oracleC16Innermost: GetOneLineSource names the INNERMOST recorded frame, wherever the other
// stacks of the chain come from: captured locally above it, received from the network below a
// local one (a printed stack inside, a native stack outside), or both received.
func oracleC16Innermost(res *Result) {
	src := func(e error) string {
		file, line, fn, ok := errors.GetOneLineSource(e)
		return fmt.Sprintf("%s:%d %s %v", file, line, fn, ok)
	}
	for _, origin := range []struct {
		name string
		mk   func() error
	}{{"errors.New", c16Origin}, {"pkg/errors.New", c16PkgOrigin}, {"errors.New in C:/gen/rules.opt", c16ColonOrigin}, {"pkg/errors.New in gen:rules.opt", c16ColonPkgOrigin}} {
		o := origin.mk()
		want := src(o)
		// independently of the library's printing and parsing of stacks: the innermost captured
		// program counter as the Go runtime resolves it
		if sp, ok := o.(errbase.StackTraceProvider); ok && len(sp.StackTrace()) > 0 {
			pc := uintptr(sp.StackTrace()[0]) - 1
			if fn := runtime.FuncForPC(pc); fn != nil {
				file, line := fn.FileLine(pc)
				gf, gl, _, gok := errors.GetOneLineSource(o)
				res.OracleEvals["C16.one_line_source_vs_runtime"]++
				if !gok || gf != filepath.Base(file) || gl != line {
					res.fail(&Case{ID: "innermost/" + origin.name, Cmd: L(Sym("c16-innermost"), Str(origin.name))}, "C16.one_line_source_vs_runtime",
						fmt.Sprintf("GetOneLineSource gives (%q, %d, %v), the runtime resolves the innermost frame to %s:%d", gf, gl, gok, file, line), "C16:source-vs-runtime")
				}
			}
		}
		hop := func(e error) error { d, _ := hopsReal(e, 1); return d }
		shapes := []namedErr{
			{"WithStack(origin)", errors.WithStack(o)},
			{"Wrap(WithHint(origin))", errors.Wrap(errors.WithHint(o, "h"), "ctx")},
			{"hop(origin)", hop(o)},
			{"hop(Wrap(origin))", hop(errors.Wrap(o, "ctx"))},
			{"Wrap(hop(origin))", errors.Wrap(hop(o), "local")},
			{"WithStack(hop(origin))", errors.WithStack(hop(o))},
			{"WithStackDepth(hop(Wrap(origin)))", errors.WithStackDepth(hop(errors.Wrap(o, "remote")), 0)},
			{"Wrapf(WithDetail(hop(origin)))", errors.Wrapf(errors.WithDetail(hop(o), "d"), "x %d", 1)},
			{"WithAssertionFailure(WithStack(hop(origin)))", errors.WithAssertionFailure(errors.WithStack(hop(o)))},
			{"hop(Wrap(hop(origin)))", hop(errors.Wrap(hop(o), "mid"))},
		}
		for _, sh := range shapes {
			res.Cases++
			res.OracleEvals["C16.one_line_source_innermost"]++
			cse := &Case{ID: "innermost/" + origin.name + "/" + sh.name, Cmd: L(Sym("c16-innermost"), Str(origin.name), Str(sh.name))}
			if sh.e == nil {
				res.fail(cse, "C16.harness", "hop failed", "C16:harness")
				continue
			}
			var got string
			if ok, pv := catch(func() { got = src(sh.e) }); !ok {
				res.fail(cse, "C16.no_panic", fmt.Sprint(pv), "C16:panic:GetOneLineSource")
				continue
			}
			if got != want {
				res.fail(cse, "C16.one_line_source_innermost", fmt.Sprintf("%s: got %q, the innermost recorded frame is %q", sh.name, got, want), "C16:source-innermost")
			}
		}
	}
}
