#!/usr/bin/env python3
# compact oracle-failure viewer
import json, sys
r = json.load(open(sys.argv[1]))
lim = int(sys.argv[2]) if len(sys.argv) > 2 else 30
print('cases', r['cases'], 'mismatches', r['n_mismatches'], r.get('mismatches_by_stream'), 'failures', r['n_oracle_failures'])
print('evals', r['oracle_evaluations'])
for k, v in sorted((r.get('failure_signatures') or {}).items(), key=lambda x: -x[1]): print('  ', v, k)
seen = set()
for f in (r['oracle_failures'] or []):
    sig = f.get('signature')
    if sig in seen: continue
    seen.add(sig)
    print('--', f.get('case'), sig); print('    ', (f.get('detail') or '')[:600])
    if len(seen) >= lim: break
