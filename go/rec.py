#!/usr/bin/env python3
# print the recipe of failing cases compactly: rec.py r.json <sig-substring> [n]
import json, sys
r = json.load(open(sys.argv[1]))
pat = sys.argv[2]; lim = int(sys.argv[3]) if len(sys.argv) > 3 else 3
def show(x, ind=0):
    if x is None: return
    s = '  '*ind + x['Op'] + ' ' + json.dumps(x.get('In'), ensure_ascii=False)[:160] + ' ' + json.dumps(x.get('NIn')) + (' arg=' + json.dumps(x['Arg'], ensure_ascii=False) if x.get('Arg') is not None else '')
    print(s)
    for k in x.get('K') or []: show(k, ind+1)
n = 0
for f in r['oracle_failures'] or []:
    if pat in f['signature']:
        print('==', f['case'], f['signature']); print('  ', f['detail'][:400])
        show(f.get('recipe'))
        n += 1
        if n >= lim: break
