import ErrModel.Transport
import ErrModel.Accessors
/-
  grpc/middleware: UnaryServerInterceptor and UnaryClientInterceptor, transliterated.
  What crosses the boundary is a gRPC status: code, message and (for errors that are not
  already status errors) one EncodedError detail.
-/
namespace ErrModel

structure GStatus where
  code : Nat
  msg : Str
  detail : Option Enc
  deriving Inhabited

/-- `status.FromError(err)` : only the outermost error is inspected -/
def asStatus : Err → Option (Nat × Str)
  | .leaf _ (.grpcStatus c m _) => some (c, m)
  | .leaf _ (.gogoStatus c m _) => some (c, m)
  | _ => none

/-- the code the server interceptor reports: a non-nil error is never reported as OK
    (repaired interceptor, /repo a096348) -/
def reportedCode (e : Err) : Nat := if getGrpcCode e = 0 then 2 else getGrpcCode e

/-- UnaryServerInterceptor on the handler's error.
    `none` = panic (`st.WithDetails` refuses a status with code OK), `some none` = no error. -/
def serverIntercept (vf : Err → Str) : Option Err → Option (Option GStatus)
  | none => some none
  | some e =>
    match asStatus e with
    | some (c, m) => some (some ⟨c, m, none⟩)
    | none =>
      let code := reportedCode e
      if code = 0 then none    -- unreachable after the repair (C20_server_total)
      else some (some ⟨code, text e, some (encode Full vf e)⟩)

/-- UnaryClientInterceptor on what arrives: the EncodedError detail is decoded; a status
    without such a detail is returned as the status error it is. -/
def clientIntercept (tag : Nat) : Option GStatus → Option (Option Err)
  | none => some none
  | some st =>
    match st.detail with
    | some w => (decode Full [tag] w).map some
    | none => some (some (.leaf [tag] (.grpcStatus st.code st.msg 0)))

/-- the whole path: handler error -> server interceptor -> wire -> client interceptor -/
def viaGrpc (vf : Err → Str) (tag : Nat) (e : Option Err) : Option (Option Err) :=
  (serverIntercept vf e).bind (clientIntercept tag)

/-- the status code a caller sees -/
def visibleCode (vf : Err → Str) (e : Option Err) : Option Nat :=
  (serverIntercept vf e).map (fun s => match s with | some st => st.code | none => 0)

end ErrModel
