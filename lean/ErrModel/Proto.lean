import ErrModel.Wire
/-
  The protobuf wire format of `errorspb.ErrorTypeMark` and of the string fields of
  `errorspb.EncodedErrorDetails` (original_type_name, error_type_mark, reportable_payload), as
  the generated gogo code of /repo/errorspb/errors.pb.go writes and reads them: base-128 varints,
  length-delimited fields, proto3 omission of empty strings, the non-nullable embedded mark.
-/
namespace ErrModel.Proto

abbrev Bytes := List UInt8

/-- `encodeVarintErrors` -/
def varint (n : Nat) : Bytes :=
  if n < 128 then [UInt8.ofNat n] else UInt8.ofNat (n % 128 + 128) :: varint (n / 128)
termination_by n
decreasing_by omega

/-- the varint loop of the generated `Unmarshal` (at most `fuel` bytes) -/
def readVarint : Nat → Bytes → Option (Nat × Bytes)
  | 0, _ => none
  | _ + 1, [] => none
  | f + 1, b :: r =>
    if b.toNat < 128 then some (b.toNat, r)
    else match readVarint f r with
      | none => none
      | some (v, r') => some (b.toNat - 128 + 128 * v, r')

theorem readVarint_varint : ∀ (n f : Nat) (rest : Bytes), (varint n).length ≤ f →
    readVarint f (varint n ++ rest) = some (n, rest) := by
  intro n
  induction n using Nat.strongRecOn with
  | _ n ih =>
    intro f rest hf
    unfold varint at hf ⊢
    by_cases h : n < 128
    · simp only [h, if_true] at hf ⊢
      cases f with
      | zero => simp at hf
      | succ f =>
        have hb : (UInt8.ofNat n).toNat = n := by simp [UInt8.toNat_ofNat']; omega
        simp [readVarint, hb, h]
    · simp only [h, if_false] at hf ⊢
      cases f with
      | zero => simp at hf
      | succ f =>
        have hb : (UInt8.ofNat (n % 128 + 128)).toNat = n % 128 + 128 := by simp [UInt8.toNat_ofNat']; omega
        have hlen : (varint (n / 128)).length ≤ f := by simp at hf; omega
        have := ih (n / 128) (by omega) f rest hlen
        simp only [List.cons_append, readVarint, hb]
        have hge : ¬ (n % 128 + 128 < 128) := by omega
        simp only [hge, if_false, this]
        congr 2
        omega


theorem varint_length_le : ∀ (k n : Nat), n < 128 ^ (k + 1) → (varint n).length ≤ k + 1 := by
  intro k
  induction k with
  | zero =>
    intro n h
    unfold varint
    have : n < 128 := by simpa using h
    simp [this]
  | succ k ih =>
    intro n h
    unfold varint
    by_cases h1 : n < 128
    · simp [h1]
    · simp only [h1, if_false, List.length_cons]
      have : n / 128 < 128 ^ (k + 1) := by
        rw [Nat.div_lt_iff_lt_mul (by decide)]
        calc n < 128 ^ (k + 1 + 1) := h
          _ = 128 ^ (k + 1) * 128 := by rw [Nat.pow_succ]
      have := ih (n / 128) this
      omega

/-- a 64-bit length always fits the ten bytes the generated reader accepts -/
theorem varint_length_u64 (n : Nat) (h : n < 2 ^ 64) : (varint n).length ≤ 10 := by
  apply varint_length_le 9 n
  calc n < 2 ^ 64 := h
    _ ≤ 128 ^ 10 := by decide

/-- a length-delimited field (wire type 2) with a field number below 16 -/
def lenField (fno : Nat) (payload : Bytes) : Bytes :=
  UInt8.ofNat (fno * 8 + 2) :: (varint payload.length ++ payload)

/-- the field loop of the generated `Unmarshal`, for messages all of whose fields are length-delimited:
    (field number, payload) in wire order; `none` = the reader returns an error -/
def parseLD : Nat → Bytes → Option (List (Nat × Bytes))
  | _, [] => some []
  | 0, _ :: _ => none
  | f + 1, tag :: r =>
    if tag.toNat % 8 ≠ 2 then none
    else match readVarint 10 r with
      | none => none
      | some (len, r') =>
        if r'.length < len then none
        else match parseLD f (r'.drop len) with
          | none => none
          | some fs => some ((tag.toNat / 8, r'.take len) :: fs)

def serLD : List (Nat × Bytes) → Bytes
  | [] => []
  | (fno, p) :: r => lenField fno p ++ serLD r

/-- field numbers 1..15 and payloads of 64-bit length -/
def FieldsOK (fs : List (Nat × Bytes)) : Prop := ∀ x ∈ fs, 1 ≤ x.1 ∧ x.1 < 16 ∧ x.2.length < 2 ^ 64

theorem parseLD_serLD : ∀ (fs : List (Nat × Bytes)) (f : Nat), FieldsOK fs → fs.length ≤ f →
    parseLD f (serLD fs) = some fs
  | [], f, _, _ => by cases f <;> simp [serLD, parseLD]
  | (fno, p) :: r, 0, _, hf => by simp at hf
  | (fno, p) :: r, f + 1, hok, hf => by
    have h1 := hok (fno, p) (List.mem_cons_self ..)
    have hr : FieldsOK r := fun x hx => hok x (List.mem_cons_of_mem _ hx)
    have htag : (UInt8.ofNat (fno * 8 + 2)).toNat = fno * 8 + 2 := by
      simp [UInt8.toNat_ofNat']; omega
    have hrv := readVarint_varint p.length 10 (p ++ serLD r) (varint_length_u64 _ h1.2.2)
    have ih := parseLD_serLD r f hr (by simp at hf; omega)
    simp only [serLD, lenField, List.cons_append, List.append_assoc, parseLD, htag]
    have hm : (fno * 8 + 2) % 8 = 2 := by omega
    have hd : (fno * 8 + 2) / 8 = fno := by omega
    simp [hm, hd, hrv, ih]


theorem lenField_length (fno : Nat) (p : Bytes) : (lenField fno p).length = 1 + (varint p.length).length + p.length := by
  simp [lenField]; omega

theorem length_le_serLD : ∀ fs : List (Nat × Bytes), fs.length ≤ (serLD fs).length
  | [] => by simp [serLD]
  | (fno, p) :: r => by
    have := length_le_serLD r
    simp only [serLD, List.length_cons, List.length_append, lenField_length]
    omega

/-- the value of a singular field: the last occurrence wins, absent = empty (proto3) -/
def lastField (fs : List (Nat × Bytes)) (n : Nat) : Bytes :=
  match (fs.filter (fun x => x.1 = n)).getLast? with
  | some x => x.2
  | none => []

/-! ### errorspb.ErrorTypeMark -/

def markFields (m : TMark) : List (Nat × Bytes) :=
  (if m.fam = [] then [] else [(1, m.fam)]) ++ (if m.ext = [] then [] else [(2, m.ext)])

/-- `(*ErrorTypeMark).Marshal`: proto3 omits empty strings -/
def serMark (m : TMark) : Bytes := serLD (markFields m)

/-- `(*ErrorTypeMark).Unmarshal` -/
def desMark (b : Bytes) : Option TMark :=
  match parseLD b.length b with
  | none => none
  | some fs => some ⟨lastField fs 1, lastField fs 2⟩

theorem desMark_serMark (m : TMark) (h1 : m.fam.length < 2 ^ 64) (h2 : m.ext.length < 2 ^ 64) :
    desMark (serMark m) = some m := by
  have hok : FieldsOK (markFields m) := by
    intro x hx
    simp only [markFields, List.mem_append] at hx
    rcases hx with hx | hx <;> (split at hx <;> simp at hx; subst hx; simp [h1, h2])
  have hp := parseLD_serLD (markFields m) (serMark m).length hok (length_le_serLD _)
  unfold desMark
  rw [show parseLD (serMark m).length (serMark m) = some (markFields m) from hp]
  cases m with
  | mk fam ext =>
    by_cases hf : fam = [] <;> by_cases he : ext = [] <;> simp [markFields, lastField, hf, he]

/-! ### the string fields of errorspb.EncodedErrorDetails -/

def detFields (d : Det) : List (Nat × Bytes) :=
  (if d.origType = [] then [] else [(1, d.origType)]) ++ [(2, serMark d.mark)] ++ d.rep.map (fun s => (3, s))

/-- `(*EncodedErrorDetails).Marshal` without `full_details`: the mark is embedded (non-nullable, always
    written), every reportable string is written, empty or not -/
def serDet (d : Det) : Bytes := serLD (detFields d)

/-- `(*EncodedErrorDetails).Unmarshal`, string fields: (original_type_name, error_type_mark, reportable_payload) -/
def desDet (b : Bytes) : Option (Str × TMark × List Str) :=
  match parseLD b.length b with
  | none => none
  | some fs =>
    match desMark (lastField fs 2) with
    | none => none
    | some m => some (lastField fs 1, m, (fs.filter (fun x => x.1 = 3)).map (·.2))

theorem serMark_length_le (m : TMark) (h1 : m.fam.length < 2 ^ 62) (h2 : m.ext.length < 2 ^ 62) :
    (serMark m).length < 2 ^ 64 := by
  have a := varint_length_u64 m.fam.length (by omega)
  have b := varint_length_u64 m.ext.length (by omega)
  cases m with
  | mk fam ext =>
    simp only at h1 h2 a b
    by_cases hf : fam = [] <;> by_cases he : ext = [] <;>
      simp [serMark, markFields, serLD, hf, he, lenField_length] <;> omega

theorem filter3_map (l : List Str) : ((l.map (fun s => ((3 : Nat), s))).filter (fun x => x.1 = 3)).map (·.2) = l := by
  induction l with
  | nil => rfl
  | cons a r ih => simp [ih]

theorem filter_ne_map (l : List Str) (n : Nat) (hn : n ≠ 3) :
    (l.map (fun s => ((3 : Nat), s))).filter (fun x => x.1 = n) = [] := by
  induction l with
  | nil => rfl
  | cons a r ih => simp [ih, Ne.symm hn]

/-- what the generated reader makes of what the generated writer wrote -/
theorem desDet_serDet (d : Det) (h1 : d.origType.length < 2 ^ 64) (h2 : d.mark.fam.length < 2 ^ 62)
    (h3 : d.mark.ext.length < 2 ^ 62) (h4 : ∀ s ∈ d.rep, s.length < 2 ^ 64) :
    desDet (serDet d) = some (d.origType, d.mark, d.rep) := by
  have hm := serMark_length_le d.mark h2 h3
  have hok : FieldsOK (detFields d) := by
    intro x hx
    simp only [detFields, List.mem_append, List.mem_map, List.mem_singleton] at hx
    rcases hx with (hx | hx) | ⟨s, hs, hx⟩
    · split at hx <;> simp at hx; subst hx; simp [h1]
    · subst hx; simp [hm]
    · subst hx; simp [h4 s hs]
  have hp := parseLD_serLD (detFields d) (serDet d).length hok (length_le_serLD _)
  unfold desDet
  rw [show parseLD (serDet d).length (serDet d) = some (detFields d) from hp]
  have hl2 : lastField (detFields d) 2 = serMark d.mark := by
    by_cases ho : d.origType = [] <;>
      simp [detFields, lastField, ho, List.filter_append, filter_ne_map d.rep 2 (by decide)]
  have hl1 : lastField (detFields d) 1 = d.origType := by
    by_cases ho : d.origType = [] <;>
      simp [detFields, lastField, ho, List.filter_append, filter_ne_map d.rep 1 (by decide)]
  have hl3 : ((detFields d).filter (fun x => x.1 = 3)).map (·.2) = d.rep := by
    by_cases ho : d.origType = [] <;>
      simp [detFields, ho, List.filter_append, filter3_map]
  simp only [hl2, desMark_serMark d.mark (by omega) (by omega), hl1, hl3]

end ErrModel.Proto
