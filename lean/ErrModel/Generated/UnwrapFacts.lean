import ErrModel.Basic.Bytes
/- GENERATED on every run by tools/extractors.py from /repo's source (go/extract unwrap). Do not edit. -/
namespace ErrModel.Unwrap

structure M where
  pkg : Str
  type : Str
  method : Str
  field : Str        -- the receiver field returned; begins with '?' when the body is not `return recv.field`
  hidden : Bool      -- that field is one the package ships as an EncodeError payload (not a cause)
  deriving Repr, DecidableEq

/-- (package, field): fields passed to EncodeError by some function of the package -/
def hiddenFields : List (Str × Str) := [(b!"barriers", b!"maskedErr"), (b!"secondary", b!"secondaryError")]

/-- every Cause / Unwrap method of a struct type that has an error-typed field -/
def methods : List M := [
  ⟨b!"assert", b!"withAssertionFailure", b!"Cause", b!"cause", false⟩,
  ⟨b!"assert", b!"withAssertionFailure", b!"Unwrap", b!"cause", false⟩,
  ⟨b!"contexttags", b!"withContext", b!"Cause", b!"cause", false⟩,
  ⟨b!"contexttags", b!"withContext", b!"Unwrap", b!"cause", false⟩,
  ⟨b!"domains", b!"withDomain", b!"Cause", b!"cause", false⟩,
  ⟨b!"domains", b!"withDomain", b!"Unwrap", b!"cause", false⟩,
  ⟨b!"errbase", b!"errorFormatter", b!"Unwrap", b!"err", false⟩,
  ⟨b!"errbase", b!"errorFormatter", b!"Cause", b!"err", false⟩,
  ⟨b!"errbase", b!"opaqueWrapper", b!"Cause", b!"cause", false⟩,
  ⟨b!"errbase", b!"opaqueWrapper", b!"Unwrap", b!"cause", false⟩,
  ⟨b!"errbase", b!"opaqueLeafCauses", b!"Unwrap", b!"causes", false⟩,
  ⟨b!"errutil", b!"withPrefix", b!"Cause", b!"cause", false⟩,
  ⟨b!"errutil", b!"withPrefix", b!"Unwrap", b!"cause", false⟩,
  ⟨b!"errutil", b!"withNewMessage", b!"Cause", b!"cause", false⟩,
  ⟨b!"errutil", b!"withNewMessage", b!"Unwrap", b!"cause", false⟩,
  ⟨b!"extgrpc", b!"withGrpcCode", b!"Cause", b!"cause", false⟩,
  ⟨b!"extgrpc", b!"withGrpcCode", b!"Unwrap", b!"cause", false⟩,
  ⟨b!"exthttp", b!"withHTTPCode", b!"Cause", b!"cause", false⟩,
  ⟨b!"exthttp", b!"withHTTPCode", b!"Unwrap", b!"cause", false⟩,
  ⟨b!"hintdetail", b!"withDetail", b!"Cause", b!"cause", false⟩,
  ⟨b!"hintdetail", b!"withDetail", b!"Unwrap", b!"cause", false⟩,
  ⟨b!"hintdetail", b!"withHint", b!"Cause", b!"cause", false⟩,
  ⟨b!"hintdetail", b!"withHint", b!"Unwrap", b!"cause", false⟩,
  ⟨b!"issuelink", b!"withIssueLink", b!"Cause", b!"cause", false⟩,
  ⟨b!"issuelink", b!"withIssueLink", b!"Unwrap", b!"cause", false⟩,
  ⟨b!"join", b!"joinError", b!"Unwrap", b!"errs", false⟩,
  ⟨b!"markers", b!"withMark", b!"Cause", b!"cause", false⟩,
  ⟨b!"markers", b!"withMark", b!"Unwrap", b!"cause", false⟩,
  ⟨b!"safedetails", b!"withSafeDetails", b!"Cause", b!"cause", false⟩,
  ⟨b!"safedetails", b!"withSafeDetails", b!"Unwrap", b!"cause", false⟩,
  ⟨b!"secondary", b!"withSecondaryError", b!"Cause", b!"cause", false⟩,
  ⟨b!"secondary", b!"withSecondaryError", b!"Unwrap", b!"cause", false⟩,
  ⟨b!"telemetrykeys", b!"withTelemetry", b!"Cause", b!"cause", false⟩,
  ⟨b!"telemetrykeys", b!"withTelemetry", b!"Unwrap", b!"cause", false⟩,
  ⟨b!"withstack", b!"withStack", b!"Cause", b!"cause", false⟩,
  ⟨b!"withstack", b!"withStack", b!"Unwrap", b!"cause", false⟩
]

def typesWithErrorFields : Nat := 22

end ErrModel.Unwrap
