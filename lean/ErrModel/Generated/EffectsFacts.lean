/- GENERATED on every run by tools/extractors.py from /repo's source (go/extract effects). Do not edit. -/
namespace ErrModel.Effects

/-- the types of the repository that have an Error() method -/
def errorTypes : List String := ["assert.withAssertionFailure", "barriers.barrierErr", "barriers.barrierError", "contexttags.withContext", "domains.withDomain", "errbase.OpaqueErrno", "errbase.errorFormatter", "errbase.opaqueLeaf", "errbase.opaqueWrapper", "errorspb.TestError", "errutil.leafError", "errutil.withNewMessage", "errutil.withPrefix", "extgrpc.withGrpcCode", "exthttp.withHTTPCode", "hintdetail.withDetail", "hintdetail.withHint", "issuelink.unimplementedError", "issuelink.withIssueLink", "join.joinError", "markers.withMark", "safedetails.withSafeDetails", "secondary.withSecondaryError", "telemetrykeys.withTelemetry", "withstack.withStack"]

/-- (package, method, lvalue): writes through the receiver in a method of an error type -/
def recvMutations : List (String × String × String) := []

/-- (package, function, lvalue): writes to package-level variables outside init -/
def globalWrites : List (String × String × String) := [("errbase", "RegisterLeafDecoder", "delete(leafDecoders)"),
  ("errbase", "RegisterLeafDecoder", "leafDecoders[theType]"),
  ("errbase", "RegisterWrapperDecoder", "delete(decoders)"),
  ("errbase", "RegisterWrapperDecoder", "decoders[theType]"),
  ("errbase", "RegisterMultiCauseDecoder", "delete(multiCauseDecoders)"),
  ("errbase", "RegisterMultiCauseDecoder", "multiCauseDecoders[theType]"),
  ("errbase", "SetWarningFn", "warningFn"),
  ("errbase", "RegisterLeafEncoder", "delete(leafEncoders)"),
  ("errbase", "RegisterLeafEncoder", "leafEncoders[theType]"),
  ("errbase", "RegisterWrapperEncoderWithMessageType", "delete(encoders)"),
  ("errbase", "RegisterWrapperEncoderWithMessageType", "encoders[theType]"),
  ("errbase", "RegisterSpecialCasePrinter", "specialCases"),
  ("errbase", "RegisterTypeMigration", "backwardRegistry[newKey]"),
  ("errbase", "RegisterTypeMigration", "backwardRegistry[new]"),
  ("errbase", "TestingWithEmptyMigrationRegistry", "backwardRegistry"),
  ("errbase", "TestingWithEmptyMigrationRegistry", "backwardRegistry")]

/-- (package, type, field type): fields of error types that mention sync. or atomic. -/
def syncFields : List (String × String × String) := []

def functionsScanned : Nat := 471

end ErrModel.Effects
