import ErrModel.DecProg
/- GENERATED on every run by tools/extract_decoders.py from /repo's source (go/extract decoders). Do not edit. -/
namespace ErrModel.DecProg

def decoders : List Decoder := [
  ⟨"assert", "decodeAssertFailure", "errbase.GetTypeKey((*withAssertionFailure)(nil))", "wrapper", []⟩,
  ⟨"barriers", "decodeBarrierPrev", "errbase.GetTypeKey((*barrierError)(nil))", "leaf", [.assert true]⟩,
  ⟨"barriers", "decodeBarrier", "tn", "leaf", [.assert true]⟩,
  ⟨"contexttags", "decodeWithContext", "errbase.GetTypeKey((*withContext)(nil))", "wrapper", [.assert true]⟩,
  ⟨"domains", "decodeWithDomain", "tn", "wrapper", [.require 0 1, .index 0 0 0]⟩,   -- 0=details
  ⟨"errbase", "decodeErrorString", "GetTypeKey(baseErr)", "leaf", []⟩,
  ⟨"errbase", "decodeDeadlineExceeded", "GetTypeKey(context.DeadlineExceeded)", "leaf", []⟩,
  ⟨"errbase", "decodeWithMessage", "GetTypeKey(pkgErr.WithMessage(baseErr, \"\"))", "wrapper", []⟩,
  ⟨"errbase", "decodePathError", "pKey", "wrapper", [.assert true, .require 0 2, .index 0 0 0, .index 0 1 0]⟩,   -- 0=m.Details
  ⟨"errbase", "decodeLinkError", "pKey", "wrapper", [.assert true, .require 0 3, .index 0 0 0, .index 0 1 0, .index 0 2 0]⟩,   -- 0=m.Details
  ⟨"errbase", "decodeSyscallError", "pKey", "wrapper", []⟩,
  ⟨"errbase", "decodeErrno", "pKey", "leaf", [.assert true]⟩,
  ⟨"errutil", "decodeLeaf", "errbase.GetTypeKey((*leafError)(nil))", "leaf", [.assert true]⟩,
  ⟨"errutil", "decodeWithPrefix", "errbase.GetTypeKey((*withPrefix)(nil))", "wrapper", [.assert true]⟩,
  ⟨"errutil", "decodeWithNewMessage", "errbase.GetTypeKey((*withNewMessage)(nil))", "wrapper", [.assert true]⟩,
  ⟨"extgrpc", "decodeGrpcStatus", "errbase.GetTypeKey(grpcError)", "leaf", [.assert true]⟩,
  ⟨"extgrpc", "decodeGoGoStatus", "errbase.GetTypeKey(gogoError)", "leaf", [.assert true]⟩,
  ⟨"extgrpc", "decodeWithGrpcCode", "errbase.GetTypeKey((*withGrpcCode)(nil))", "wrapper", [.assert true]⟩,
  ⟨"exthttp", "decodeWithHTTPCode", "errbase.GetTypeKey((*withHTTPCode)(nil))", "wrapper", [.assert true]⟩,
  ⟨"hintdetail", "decodeWithDetail", "errbase.GetTypeKey((*withDetail)(nil))", "wrapper", [.assert true]⟩,
  ⟨"hintdetail", "decodeWithHint", "errbase.GetTypeKey((*withHint)(nil))", "wrapper", [.assert true]⟩,
  ⟨"issuelink", "decodeUnimplementedError", "errbase.GetTypeKey((*unimplementedError)(nil))", "leaf", [.index 0 0 1, .index 0 1 2]⟩,   -- 0=details
  ⟨"issuelink", "decodeWithIssueLink", "errbase.GetTypeKey((*withIssueLink)(nil))", "wrapper", [.index 0 0 1, .index 0 1 2]⟩,   -- 0=details
  ⟨"join", "func literal", "errbase.GetTypeKey(&joinError{})", "multi", []⟩,
  ⟨"markers", "decodeMark", "errbase.GetTypeKey((*withMark)(nil))", "wrapper", [.assert true, .require 0 1]⟩,   -- 0=m.Types
  ⟨"safedetails", "decodeWithSafeDetails", "tn", "wrapper", []⟩,
  ⟨"secondary", "decodeWithSecondaryError", "tn", "wrapper", [.assert true]⟩,
  ⟨"telemetrykeys", "decodeWithTelemetry", "errbase.GetTypeKey((*withTelemetry)(nil))", "wrapper", []⟩
]

/-- additional paths of the decoders above (`if x, ok := payload.(*T); ok { … return … }`: the body is one
    path, what follows the statement another) -/
def decoderPaths : List Decoder := [
]

end ErrModel.DecProg
