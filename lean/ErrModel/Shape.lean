import ErrModel.Transport
import ErrModel.Accessors
/-
  The visible cause tree with its Error() text at every node — what C01 compares
  before and after transfer.
-/
namespace ErrModel

/-- keys under which a printed stack is recognised after transfer (withstack/reportable.go) -/
def isStackKey (k : Str) : Bool :=
  k = (WrapKind.withStack []).ty.full || k = (WrapKind.pkgWithStack []).ty.full || k = (LeafKind.pkgFundamental [] []).ty.full

/-- the printed stack `GetReportableStackTrace` parses for one layer -/
def layerStackStr (P : Proc) : Err → Option Str
  | .wrap _ (.withStack st) _ => if st = [] then none else some (printStack st)
  | .wrap _ (.pkgWithStack st) _ => if st = [] then none else some (printStack st)
  | .leaf _ (.pkgFundamental _ st) => if st = [] then none else some (printStack st)
  | e =>
    match e.opaqueDet with
    | some d => if isStackKey (typeMark P e).fam then d.rep.head? else none
    | none => none

/-- the annotations one layer contributes to the public accessors -/
structure Ann where
  hint : Option Str
  detail : Option Str
  link : Option (Str × Str)
  keys : List Str
  domain : Option Str
  tags : Option (List (Str × Str))
  http : Option Nat
  grpc : Option Nat
  isAssert : Bool
  isUnimpl : Bool
  isLink : Bool
  timeout : Bool
  safe : List Str           -- per-layer safe details ([] for barrier and secondary layers, which embed a rendering)
  stack : Option Str        -- printed stack of a reportable layer
  deriving DecidableEq, Repr, Inhabited

def safeOf (vf : Err → Str) : Err → List Str
  | .barrier .. => []
  | .second .. => []
  | e => layerDetails Full vf e

def annOf (vf : Err → Str) (e : Err) : Ann :=
  ⟨layerHint e, layerDetail e, layerIssueLink e, layerKeys e, layerDomain e, layerTags e, layerHTTP e, layerGrpc e,
   isAssertionFailure e, isUnimplementedError e, isWithIssueLink e, timeoutLayer e, safeOf vf e, layerStackStr Full e⟩

/-- What `Is` (and C01/C04) can observe of one visible layer, identity aside. -/
structure Lbl where
  text : Str
  tmark : TMark                       -- (family, extension) of the layer
  otype : Str                         -- original type name
  stored : Option Mark                -- the mark carried by a `withMark` layer
  isSig : Option (Bool × Bool × Bool) -- what an errno-like layer's Is method answers for ErrPermission/ErrExist/ErrNotExist
  multi : Bool                        -- a multi-cause layer (its children are branches, not a cause)
  stSig : Option (Nat × Str × Nat)    -- a gRPC *status.Error layer: what its Is method compares
  ann : Ann                           -- what the layer contributes to the accessors
  deriving DecidableEq, Repr, Inhabited

def storedMark : Err → Option Mark
  | .wrap _ (.withMark m t) _ => some ⟨m, t⟩
  | _ => none

def isSigOf : Err → Option (Bool × Bool × Bool)
  | .leaf _ (.errno _ _ p x n _ _) => some (p, x, n)
  | .leaf _ (.opaqueErrno _ _ _ p x n _ _) => some (p, x, n)
  | _ => none

def isMultiNode : Err → Bool
  | .multi .. => true
  | _ => false

def stSigOf : Err → Option (Nat × Str × Nat)
  | .leaf _ (.grpcStatus c m nd) => some (c, m, nd)
  | _ => none

def label (vf : Err → Str) (e : Err) : Lbl :=
  ⟨text e, typeMark Full e, origTypeName e, storedMark e, isSigOf e, isMultiNode e, stSigOf e, annOf vf e⟩

inductive TTree
  | node (l : Lbl) (kids : List TTree)
  deriving Repr, Inhabited

def TTree.text : TTree → Str
  | .node l _ => l.text

section
variable (vf : Err → Str)
mutual
def shape : Err → TTree
  | .leaf id k => .node (label vf (.leaf id k)) []
  | .barrier id m h => .node (label vf (.barrier id m h)) []
  | .wrap id k c => .node (label vf (.wrap id k c)) [shape c]
  | .second id c s => .node (label vf (.second id c s)) [shape c]
  | .multi id k cs => .node (label vf (.multi id k cs)) (shapeL cs)
def shapeL : List Err → List TTree
  | [] => []
  | e :: r => shape e :: shapeL r
end
end

theorem shape_text (vf : Err → Str) (e : Err) : (shape vf e).text = text e := by
  cases e <;> simp [shape, TTree.text, label]

theorem text_eq_of_shape {vf : Err → Str} {a b : Err} (h : shape vf a = shape vf b) : text a = text b := by
  rw [← shape_text vf a, ← shape_text vf b, h]

theorem textList_eq_of_shapeL {vf : Err → Str} : ∀ {a b : List Err}, shapeL vf a = shapeL vf b → textList a = textList b
  | [], [], _ => rfl
  | [], _ :: _, h => by simp [shapeL] at h
  | _ :: _, [], h => by simp [shapeL] at h
  | x :: a, y :: b, h => by
    simp [shapeL] at h
    simp [textList, text_eq_of_shape h.1, textList_eq_of_shapeL h.2]

/-! ## Stability: the trees on which transfer between knowing processes is the identity on text -/

/-- a foreign type: no decoder registered under its name, and not a migrated name -/
def userOK (u : UserTy) : Bool :=
  classify u.name = .other && Full.family u.name = u.name && !isStackKey u.name

def leafStable : LeafKind → Bool
  | .opaqueLeaf _ d hid => classify d.mark.fam = .other && !(hid.isEmpty && d.pay = .testErr)
  | .user u _ => userOK u
  -- an OpaqueErrno (errno received from another architecture) is re-sent under its own type
  -- name, for which no decoder exists: its `Is` method is lost on the next hop (see DESIGN, D11)
  | .opaqueErrno .. => false
  | .pkgFundamental _ st => st ≠ []
  -- a status with code OK is not an error (Status.Err() returns nil)
  | .grpcStatus c _ _ => c ≠ 0
  | .gogoStatus c _ _ => c ≠ 0
  | _ => true

/-- `ct` is the Error() text of the cause -/
def wrapStable (k : WrapKind) (ct : Str) : Bool :=
  match k with
  | .opaqueWrapper _ d _ _ => classify d.mark.fam = .other
  | .user u msg => userOK u &&
      (if u.style = 0 then msg ≠ [] else if u.style = 1 then msg ≠ colonSp ++ ct else true)
  | .fmtWrapError msg => msg ≠ colonSp ++ ct
  -- WithContextTags never attaches an empty tag set, and a logtags buffer has distinct keys
  | .withContext tags _ red => tags ≠ [] && dedupTags tags = tags && red ≠ some []
  -- a captured stack is never empty (runtime.Callers returns at least the caller)
  | .withStack st => st ≠ []
  | .pkgWithStack st => st ≠ []
  | .withMark _ tys => tys ≠ []          -- a mark carries at least the type of its reference
  | _ => true

/-- multi-cause layers have at least one branch (Join of nothing is nil; a foreign
    multi-cause error with no causes is indistinguishable from a leaf on the wire) -/
def multiStable (k : MultiKind) (n : Nat) : Bool :=
  n ≠ 0 &&
  match k with
  | .opaqueLeafCauses _ d hid => classify d.mark.fam = .other && !(hid.isEmpty && d.pay = .testErr)
  | .user u _ => userOK u
  | _ => true

mutual
def stable : Err → Bool
  | .leaf _ k => leafStable k
  | .barrier _ m h => (m.recv != some []) && stable h   -- received details, when kept, are not empty (a local barrier always has some)
  | .wrap _ k c => wrapStable k (text c) && stable c
  | .second _ c s => stable c && stable s
  | .multi _ k cs => multiStable k cs.length && stableL cs
def stableL : List Err → Bool
  | [] => true
  | e :: r => stable e && stableL r
end

end ErrModel
