import ErrModel.Engine
import ErrModel.Accessors
import ErrModel.Shape
/-
  report.BuildSentryReport (report/report.go), withstack.GetReportableStackTrace and
  GetOneLineSource (withstack/reportable.go, one_line_source.go), transliterated.
  `trim` = the source-directory prefixes of the Go build context (GOROOT/src, GOPATH/src):
  an input, like the captured stack frames.
-/
namespace ErrModel

/-! ### small string helpers (strings.TrimSpace / Split / LastIndexByte / Atoi on ASCII) -/

def isSpaceB (c : UInt8) : Bool := c = 32 || c = 9 || c = 10 || c = 11 || c = 12 || c = 13

def trimSpace (s : Str) : Str := ((s.dropWhile isSpaceB).reverse.dropWhile isSpaceB).reverse

/-- the part after the last `c` (the whole string when there is none) -/
def afterLast (c : UInt8) (s : Str) : Str := (s.reverse.takeWhile (· ≠ c)).reverse

/-- `(s[:i], s[i+1:])` for the last index of `c`, none when absent -/
def splitLast (c : UInt8) (s : Str) : Option (Str × Str) :=
  if s.contains c then
    some (((s.reverse.dropWhile (· ≠ c)).drop 1).reverse, afterLast c s)
  else none

def firstLine (s : Str) : Str := s.takeWhile (· ≠ nl)

/-- strconv.Atoi, 0 on failure (decimal digits with an optional sign) -/
def atoiDigits : Str → Nat → Option Nat
  | [], acc => some acc
  | c :: r, acc => if 48 ≤ c && c ≤ 57 then atoiDigits r (acc * 10 + (c.toNat - 48)) else none

def atoi (s : Str) : Int :=
  match s with
  | [] => 0
  | 45 :: r => if r = [] then 0 else (match atoiDigits r 0 with | some n => - (n : Int) | none => 0)
  | 43 :: r => if r = [] then 0 else (match atoiDigits r 0 with | some n => (n : Int) | none => 0)
  | _ => (match atoiDigits s 0 with | some n => (n : Int) | none => 0)

def intStr (i : Int) : Str := lit (toString i)

/-- report.lastPathComponent -/
def lastPathComponent (s : Str) : Str := afterLast 47 s

/-- filepath.Base on slash-separated paths -/
def fileBase (s : Str) : Str :=
  if s = [] then b!"."
  else
    let t := (s.reverse.dropWhile (· = 47)).reverse
    if t = [] then b!"/" else afterLast 47 t

/-! ### parsePrintedStack -/

structure RFrame where
  function : Str
  module : Str
  filename : Str
  absPath : Str
  lineno : Int
  deriving Repr, DecidableEq, Inhabited

def trimPath (trim : List Str) (f : Str) : Str :=
  match trim.find? (fun p => p.isPrefixOf f && p ≠ []) with
  | some p => f.drop p.length
  | none => f

/-- replace every "·" (C2 B7) by "." -/
def replMiddot : Str → Str
  | 0xC2 :: 0xB7 :: r => 46 :: replMiddot r
  | c :: r => c :: replMiddot r
  | [] => []

/-- withstack.functionName -/
def functionName (fn : Str) : Str × Str :=
  match splitLast 46 fn with
  | some (pack, name) => (pack, replMiddot name)
  | none => ([], replMiddot fn)

/-- one entry: (file, line, fnName) from lines at i, and whether a second line was consumed -/
def parseEntry (fnLine : Str) (next : Option Str) : Str × Int × Bool :=
  match next with
  | some l =>
    if l.head? = some 9 then
      let fl := trimSpace l
      match splitLast 58 fl with
      | some (file, ln) => (file, atoi ln, true)
      | none => (fl, 0, true)
    else ([], 0, false)
  | none => ([], 0, false)

def mkFrame (trim : List Str) (fnName file : Str) (line : Int) : RFrame :=
  if fnName = b!"unknown" then ⟨fnName, b!"unknown", trimPath trim file, file, line⟩
  else ⟨(functionName fnName).2, (functionName fnName).1, trimPath trim file, file, line⟩

def parseLines (trim : List Str) : (fuel : Nat) → List Str → List RFrame
  | 0, _ => []
  | _, [] => []
  | fuel + 1, fnLine :: rest =>
    let r := parseEntry fnLine rest.head?
    mkFrame trim fnLine r.1 r.2.1 :: parseLines trim fuel (if r.2.2 then rest.drop 1 else rest)

/-- withstack.parsePrintedStack (frames already reversed: oldest call first) -/
def parsePrintedStack (trim : List Str) (st : Str) : List RFrame :=
  let lines := splitNl (trimSpace st)
  (parseLines trim lines.length lines).reverse

/-- withstack.GetReportableStackTrace -/
def reportableStack (P : Proc) (trim : List Str) (e : Err) : Option (List RFrame) :=
  -- a printed stack without any frame is no stack trace (fix D15: it used to parse into one blank frame)
  (layerStackStr P e).bind (fun st => if trimSpace st = [] then none else some (parsePrintedStack trim st))

/-- getOneLineSourceFromPrintedStack: (file, line) -/
def oneLineOfPrinted (st : Str) : Str × Int :=
  match splitNl (trimSpace st) with
  | l0 :: rest => let r := parseEntry l0 rest.head?; (fileBase r.1, r.2.1)
  | [] => (b!".", 0)

/-- the printed first frame, for a StackTraceProvider (st[:1]) -/
def firstFramePrinted : Err → Option Str
  | .wrap _ (.withStack st) _ => some (printStack (st.take 1))
  | .wrap _ (.pkgWithStack st) _ => some (printStack (st.take 1))
  | .leaf _ (.pkgFundamental _ st) => some (printStack (st.take 1))
  | _ => none

def isProvider : Err → Bool
  | .wrap _ (.withStack _) _ => true
  | .wrap _ (.pkgWithStack _) _ => true
  | .leaf _ (.pkgFundamental ..) => true
  | _ => false

def providerStack : Err → Stack
  | .wrap _ (.withStack st) _ => st
  | .wrap _ (.pkgWithStack st) _ => st
  | .leaf _ (.pkgFundamental _ st) => st
  | _ => []

/-- the current-level step of GetOneLineSource -/
def oneLineHere (P : Proc) (e : Err) : Option (Str × Int) :=
  if isProvider e then
    (if providerStack e = [] then none else some (oneLineOfPrinted (printStack ((providerStack e).take 1))))
  else (layerStackStr P e).map oneLineOfPrinted

/-- withstack.GetOneLineSource: the innermost layer (along UnwrapOnce) that has a source -/
def oneLineSource (P : Proc) : Err → Option (Str × Int)
  | .wrap id k c =>
    match oneLineSource P c with
    | some r => some r
    | none => oneLineHere P (.wrap id k c)
  | .second id c s =>
    match oneLineSource P c with
    | some r => some r
    | none => oneLineHere P (.second id c s)
  | e => oneLineHere P e

/-! ### the report -/

mutual
/-- report.visitAllMulti: the layer, its single cause, then its multiple causes -/
def visitAll : Err → List Err
  | .leaf id k => [.leaf id k]
  | .barrier id m h => [.barrier id m h]
  | .wrap id k c => .wrap id k c :: visitAll c
  | .second id c s => .second id c s :: visitAll c
  | .multi id k cs => .multi id k cs :: visitAllL cs
def visitAllL : List Err → List Err
  | [] => []
  | e :: r => visitAll e ++ visitAllL r
end

structure Exc where
  module : Str
  type : Str
  value : Str
  frames : Option (List RFrame)
  deriving Repr, DecidableEq, Inhabited

structure Report where
  message : Str
  exceptions : List Exc
  types : Str
  deriving Repr, DecidableEq, Inhabited

structure Layer where
  origType : Str
  mark : TMark
  details : List Str
  stack : Option (List RFrame)
  deriving Repr, Inhabited

def layerOf (P : Proc) (vf : Err → Str) (trim : List Str) (e : Err) : Layer :=
  ⟨origTypeName e, typeMark P e, layerDetails P vf e, reportableStack P trim e⟩

def typesLine (l : Layer) : Str :=
  l.origType ++ b!" (" ++ (if l.origType ≠ l.mark.fam then l.mark.fam else b!"*") ++ b!"::" ++ l.mark.ext ++ b!")" ++ [nl]

structure Acc where
  msg : Str := []
  sep : Str := []
  extraNum : Nat := 1
  excs : List Exc := []
  firstDetail : Str
  deriving Inhabited

def redactedMarkerStr : Str := [0xC3, 0x97]

/-- `file:line` and function of the innermost call of a reportable stack (its last frame) -/
def topFile (frames : List RFrame) : Str := (frames.getLast?.map (fun f => lastPathComponent f.filename)).getD []
def topFn (frames : List RFrame) : Str := (frames.getLast?.map (·.function)).getD []
def topLine (frames : List RFrame) : Int := (frames.getLast?.map (·.lineno)).getD 0

/-- the Type field of a layer's exception -/
def excType (frames : List RFrame) : Str :=
  let ty0 := (if topFile frames ≠ [] then topFile frames ++ b!":" ++ intStr (topLine frames) ++ b!" " else []) ++
    (if topFn frames ≠ [] then b!"(" ++ topFn frames ++ b!")" else [])
  if ty0 = [] then b!"<unknown error>" else ty0

def counterStr (n : Nat) : Str := b!"(" ++ natStr n ++ b!")"

/-- the composition line of one layer -/
def lineOf (a : Acc) (l : Layer) : Str :=
  let short := lastPathComponent l.origType
  match l.stack with
  | some frames =>
    (if frames ≠ [] then topFile frames ++ b!":" ++ intStr (topLine frames) ++ b!": " else []) ++ short ++
      (if a.excs = [] then b!" (top exception)" else b!" " ++ counterStr a.extraNum)
  | none =>
    let d := (l.details.head?.map firstLine).getD []
    if d ≠ [] then short ++ b!": " ++ d else short

/-- the exception a layer contributes: one when it carries a stack trace -/
def excOf (module : Str) (a : Acc) (l : Layer) : List Exc :=
  match l.stack with
  | some frames =>
    [⟨module, (if a.excs = [] then [] else counterStr a.extraNum ++ b!" ") ++ excType frames,
      lastPathComponent l.origType, some frames⟩]
  | none => []

/-- one iteration of the composition loop (innermost layer first) -/
def compStep (module : Str) (a : Acc) (l : Layer) : Acc :=
  { msg := a.msg ++ (a.sep ++ lineOf a l),
    sep := nlS,
    extraNum := if l.stack.isSome && a.excs ≠ [] then a.extraNum + 1 else a.extraNum,
    excs := a.excs ++ excOf module a l,
    firstDetail :=
      if l.stack.isNone && a.firstDetail = [] then (l.details.head?.map firstLine).getD [] else a.firstDetail }

/-- the layers of the report, outermost first -/
def reportLayers (P : Proc) (vf : Err → Str) (trim : List Str) (e : Err) : List Layer :=
  (visitAll e).map (layerOf P vf trim)

/-- the source prefix of the message: `file:line: ` of the innermost recorded stack trace -/
def srcPrefix (P : Proc) (e : Err) : Str :=
  match oneLineSource P e with
  | some (f, l) => f ++ b!":" ++ intStr l ++ b!": "
  | none => []

/-- the redacted verbose rendering: `redact.Sprintf("%+v", err).Redact().StripMarkers()` -/
def verboseRedacted (e : Err) : Str := stripT (redactT (assembleT [.preT (renderT true true e)]))

def compHeader : Str := nl :: b!"-- report composition:" ++ [nl]

def initAcc (P : Proc) (e : Err) : Acc :=
  { msg := srcPrefix P e ++ verboseRedacted e ++ compHeader,
    firstDetail := if verboseRedacted e ≠ redactedMarkerStr then firstLine (verboseRedacted e) else [] }

/-- the composition loop: innermost layer first -/
def compLoop (P : Proc) (vf : Err → Str) (trim : List Str) (e : Err) : Acc :=
  (reportLayers P vf trim e).reverse.foldl (compStep (getDomain e)) (initAcc P e)

def finalMsg (a : Acc) : Str :=
  if a.extraNum > 1 then a.msg ++ nl :: b!"(check the extra data payloads)" else a.msg

/-- the exceptions: Sentry's order (reversed); a synthetic one when no layer has a stack;
    otherwise the first collected one is decorated with the leaf type and the first detail line -/
def finalExcs (module leafType : Str) (a : Acc) : List Exc :=
  match a.excs with
  | [] => [⟨module, leafType, a.firstDetail, none⟩]
  | first :: rest =>
    let wrapped := first.value ≠ leafType
    let v := leafType ++ (if a.firstDetail ≠ [] then b!": " ++ a.firstDetail else []) ++
      (if wrapped then nl :: b!"via " ++ first.value else [])
    ({ first with value := v } :: rest).reverse

def leafTypeOf (ls : List Layer) : Str := (ls.getLast?.map (fun l => lastPathComponent l.origType)).getD []

/-- report.BuildSentryReport for a non-nil error -/
def buildReport (P : Proc) (vf : Err → Str) (trim : List Str) (e : Err) : Report :=
  ⟨finalMsg (compLoop P vf trim e),
   finalExcs (getDomain e) (leafTypeOf (reportLayers P vf trim e)) (compLoop P vf trim e),
   (reportLayers P vf trim e).reverse.flatMap typesLine⟩

end ErrModel
