import ErrModel.Engine
import ErrModel.SX
import ErrModel.Ctor
/-
  Recipes: terms over the constructor API (plus foreign types and environment
  steps) sent by the harness; evaluated here with the model's constructors.
-/
namespace ErrModel

/-- the verbose redacted rendering a barrier embeds in its safe details -/
def vfStub : Err → Str := vfE

inductive Res
  | ok (e : Option Err)
  | panic
  | bad (why : String)
  deriving Inhabited

def sxStack : SX → Option Stack
  | .list l => l.mapM (fun x => match x with
      | .list [.nat pc, .str t] => some ⟨pc, t⟩
      | _ => none)
  | _ => none

/-- separator between the key/value strings and the redacted details of a `tags` recipe -/
def tagsSep : Str := [0, 82, 69, 68]

def pairUp : List Str → List (Str × Str)
  | a :: b :: r => (a, b) :: pairUp r
  | _ => []

def mkUser (ss : List Str) (style : Nat) : Option (UserTy × Str) :=
  match ss with
  | name :: tstr :: msg :: safe => some (⟨name, tstr, style, safe, if style = 0 then 0 else if style = 1 then 1 else 2⟩, msg)
  | _ => none

def procOf (unknown : List Str) : Proc :=
  { Full with knows := fun k => !unknown.contains k }

mutual
def evalR (fuel : Nat) (x : SX) : Res :=
  match fuel with
  | 0 => .bad "fuel"
  | fuel + 1 =>
  match x with
  | .list [.sym "nil"] => .ok none
  | .list [.sym op, .nat n, .list ss0, .list ns0, stx, .list kids] =>
    match ss0.mapM sxStr, ns0.mapM sxNat, sxStack stx with
    | some ss, some ns, some st =>
      match evalKids fuel kids with
      | .inl r => r
      | .inr ks => evalOp op n ss ns st ks
    | _, _, _ => .bad "args"
  | _ => .bad "shape"
def evalKids (fuel : Nat) : List SX → Sum Res (List (Option Err))
  | [] => .inr []
  | k :: r =>
    match fuel with
    | 0 => .inl (.bad "fuel")
    | fuel + 1 =>
    match evalR fuel k with
    | .ok e =>
      match evalKids fuel r with
      | .inr es => .inr (e :: es)
      | .inl r => .inl r
    | r => .inl r
def evalOp (op : String) (n : Nat) (ss : List Str) (ns : List Nat) (st : Stack)
    (ks : List (Option Err)) : Res :=
  let s0 := ss.getD 0 []
  let k0 : Option Err := (ks.getD 0 none)
  let annot (k : WrapKind) : Res := .ok (cAnnot n k k0)
  match op with
  -- leaves
  | "goerr" => .ok (some (.leaf (lid n 0) (.errorString s0)))
  | "sentinel" => .ok (some (.leaf [ns.getD 0 0] (.errorString s0)))
  | "deadline" => .ok (some (.leaf (lid n 0) .deadline))
  | "errno" =>
    let b (i : Nat) : Bool := ns.getD i 0 ≠ 0
    .ok (some (.leaf (lid n 0) (.errno (ns.getD 0 0) s0 (b 1) (b 2) (b 3) (b 4) (b 5))))
  | "pkgnew" => .ok (some (.leaf (lid n 0) (.pkgFundamental s0 st)))
  | "unimpl" => .ok (some (.leaf (lid n 0) (.unimplemented s0 (ss.getD 1 []) (ss.getD 2 []))))
  | "testerr" => .ok (some (.leaf (lid n 0) .testErr))
  | "grpcstatus" => .ok (some (.leaf (lid n 0) (.grpcStatus (ns.getD 0 0) s0 0)))
  | "gogostatus" => .ok (some (.leaf (lid n 0) (.gogoStatus (ns.getD 0 0) s0 0)))
  | "uleaf" =>
    match mkUser ss (ns.getD 0 0) with
    | some (u, msg) => .ok (some (.leaf (lid n 0) (.user u msg)))
    | none => .bad "uleaf"
  | "new" => .ok (cNew n s0 st)
  | "assertionfailedf" => .ok (cAssertionFailedf n s0 st)
  -- wrappers
  | "wrap" => .ok (cWrap n (ns.getD 0 0 ≠ 0) s0 st k0)
  | "withmessage" => .ok (cWithMessage n s0 k0)
  | "withstack" => .ok (cWithStack n st k0)
  | "hint" => annot (.withHint s0)
  | "detail" => annot (.withDetail s0)
  | "issuelink" => annot (.withIssueLink s0 (ss.getD 1 []))
  | "telemetry" => annot (.withTelemetry ss)
  | "domain" => annot (.withDomain s0)
  | "tags" =>
    .ok (cTags n (pairUp ss) ns k0)
  | "assertion" => annot .withAssertionFailure
  | "safedetails" => if ns.getD 0 1 = 0 then .ok k0 else annot (.withSafeDetails ss)
  | "http" => annot (.withHTTPCode (ns.getD 0 0))
  | "grpc" => annot (.withGrpcCode (ns.getD 0 0))
  | "pkgwithmessage" => annot (.pkgWithMessage s0)
  | "pkgwithstack" => annot (.pkgWithStack st)
  | "patherr" => annot (.pathError s0 (ss.getD 1 []))
  | "linkerr" => annot (.linkError s0 (ss.getD 1 []) (ss.getD 2 []))
  | "syscallerr" => annot (.syscallError s0)
  | "fmterrorf" => annot (.fmtWrapError s0)
  | "uwrap" =>
    match mkUser ss (ns.getD 0 0) with
    | some (u, msg) => annot (.user u msg)
    | none => .bad "uwrap"
  | "mark" =>
    -- with hostile strings the harness sends the reference's real Error() text (an input,
    -- like the results of redact.Sprintf): the transport model's `text` is only faithful on
    -- regular strings
    match cMark Full n k0 (ks.getD 1 none) with
    | some (some (.wrap id (.withMark m tys) c)) => .ok (some (.wrap id (.withMark (if ss = [] then m else s0) tys) c))
    | some r => .ok r
    | none => .panic
  | "secondary" => .ok (cWithSecondary n k0 (ks.getD 1 none))
  | "combine" => .ok (cCombine n k0 (ks.getD 1 none))
  | "handled" => .ok (cHandled n s0 k0)
  | "handledindomain" => .ok (cHandledInDomain n s0 (ss.getD 1 []) k0)
  | "handleasassertion" => .ok (cHandleAsAssertionFailure n s0 st k0)
  | "newassertionwrapped" => .ok (cNewAssertionErrorWithWrappedErrf n s0 (ns.getD 0 0 ≠ 0) (ss.getD 1 []) st k0)
  | "newfe" => .ok (cNewfE n s0 st (dropNils ks))
  | "newfw" =>
    match k0 with
    | some w => .ok (cNewfW n s0 st w (dropNils ks))
    | none => .bad "newfw nil"
  | "wrapfe" => .ok (cWrapfE n s0 st (dropNils ks.tail) k0)
  -- multi
  | "join" => .ok (cJoin n st ks)
  | "joinraw" => .ok (cJoinRaw n ks)
  | "stdjoin" => .ok (cStdJoin n ks)
  | "fmterrorfs" => .ok (some (.multi (lid n 0) (.fmtWrapErrors s0) (dropNils ks)))
  | "umulti" =>
    match mkUser ss (ns.getD 0 0) with
    | some (u, msg) => .ok (some (.multi (lid n 0) (.user u msg) (dropNils ks)))
    | none => .bad "umulti"
  -- environment: one hop; ss = family keys the receiving process does not know
  | "hop" =>
    match k0 with
    | none => .bad "hop nil"
    | some e =>
      match decode (procOf ss) [1000 + n] (encode Full vfStub e) with
      | some d => .ok (some d)
      | none => .panic
  | _ => .bad ("unknown op " ++ op)
end

end ErrModel
