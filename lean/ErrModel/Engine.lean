import ErrModel.Transport
import ErrModel.Basic.RedactT
/-
  The formatting engine (errbase/format_error.go), transliterated:
  formatRecursive → entries → formatSingleLineOutput / formatEntries, the `state.Write`
  newline machine, the safe / plain printers on top of the redact contract
  (Basic/RedactT.lean), the SafeFormatError / FormatError methods of every library type and
  the special cases of errutil/format_error_special.go.

  Buffers are token lists (`Toks`: open marker, close marker, plain byte); the byte string
  a caller sees is `unlex` of the final token list.  Plain (non-redactable) buffers hold
  byte tokens only.
-/
namespace ErrModel

def detailSep : Toks := bytesT (b!"\n  | ")
def detailPad : Toks := bytesT (b!"\n  |")          -- detailSep without its last byte
def nlTs : Toks := [nlT]
def colonSpT : Toks := bytesT colonSp

/-! ### strconv.Quote (for `%q` of a mark's message) -/

def hexNib (n : UInt8) : UInt8 := if n < 10 then 48 + n else 87 + n

/-- strconv.Quote: printable runes are kept, `"` and `\` escaped, control characters and
    invalid UTF-8 bytes written as escapes.  (Non-ASCII valid runes are assumed printable.) -/
def quoteBody : (fuel : Nat) → Str → Str
  | 0, _ => []
  | _, [] => []
  | fuel + 1, c :: r =>
    if c = 34 then 92 :: 34 :: quoteBody fuel r
    else if c = 92 then 92 :: 92 :: quoteBody fuel r
    else if c = 7 then 92 :: 97 :: quoteBody fuel r
    else if c = 8 then 92 :: 98 :: quoteBody fuel r
    else if c = 12 then 92 :: 102 :: quoteBody fuel r
    else if c = 10 then 92 :: 110 :: quoteBody fuel r
    else if c = 13 then 92 :: 114 :: quoteBody fuel r
    else if c = 9 then 92 :: 116 :: quoteBody fuel r
    else if c = 11 then 92 :: 118 :: quoteBody fuel r
    else if c < 32 || c = 127 then 92 :: 120 :: hexNib (c / 16) :: hexNib (c % 16) :: quoteBody fuel r
    else if c < 128 then c :: quoteBody fuel r
    else
      let (sz, ok) := decodeRune (c :: r)
      if ok then (c :: r).take sz ++ quoteBody fuel ((c :: r).drop sz)
      else 92 :: 120 :: hexNib (c / 16) :: hexNib (c % 16) :: quoteBody fuel r

def quoteGo (s : Str) : Str := 34 :: quoteBody (s.length + 1) s ++ [34]

/-! ### the per-layer write state (`state.Write`, `detail`, `switchOver`) -/

structure LState where
  buf : Toks := []
  headBuf : Toks := []
  hasDetail : Bool := false
  wantDetail : Bool
  notEmpty : Bool := false
  needSpace : Bool := false
  needNewline : Nat := 0
  multiLine : Bool := false
  deriving Repr, Inhabited

def LState.switchOver (s : LState) : LState :=
  if s.hasDetail then s
  else { s with headBuf := s.buf, buf := [], notEmpty := false, hasDetail := true }

/-- `chunk` = bytes of this call seen since the last flush (not yet in `buf`) -/
def writeLoop : LState → Toks → Toks → LState
  | s, chunk, [] => { s with buf := s.buf ++ chunk }
  | s, chunk, c :: r =>
    if c = nlT then
      let s1 := { s with buf := s.buf ++ chunk, needNewline := s.needNewline + 1, needSpace := false, multiLine := true }
      let s2 := if s1.wantDetail then s1.switchOver else s1
      writeLoop s2 [] r
    else
      let sep := if s.wantDetail then detailSep else nlTs
      let pad := if s.wantDetail then detailPad else []
      let s1 :=
        if s.needNewline > 0 && s.notEmpty then
          { s with buf := s.buf ++ (List.replicate (s.needNewline - 1) pad).flatten ++ sep, needNewline := 0, needSpace := false }
        else if s.needSpace then { s with buf := s.buf ++ [.b 32], needSpace := false }
        else s
      writeLoop { s1 with notEmpty := true } (chunk ++ [c]) r

/-- `(*state).Write` -/
def LState.write (s : LState) (b : Toks) : LState :=
  if b = [] then s else writeLoop s [] b

/-- `(*state).detail()`: only called when details are wanted -/
def LState.detail (s : LState) : LState :=
  let s1 := if s.notEmpty then { s with needNewline := 1 } else s
  s1.switchOver

/-! ### what a layer's formatting method does, as a list of operations -/

inductive POp
  | safe (segs : List SegT)   -- safePrinter.Print/Printf: redact assembles the segments, then Write
  | plain (s : Str)           -- printer.Print / io.WriteString: bytes written as they are
  | detail                    -- p.Detail() returned true
  deriving Repr, Inhabited

def runOp (s : LState) : POp → LState
  | .safe segs => s.write (assembleT segs)
  | .plain b => s.write (bytesU b)   -- a non-SafeFormatter method writes unsafe text
  | .detail => s.detail

structure Entry where
  head : Toks
  details : Toks
  redactable : Bool
  elideShort : Bool
  stack : Option Stack
  elidedStack : Bool
  depth : Nat
  tstr : Str
  deriving Repr, Inhabited

/-- `collectEntry` -/
def collect (s : LState) (bufIsRedactable redOut : Bool) (withDepth : Bool) (depth : Nat) (tstr : Str) : Entry :=
  let hd : Toks × Toks :=
    if s.wantDetail then (if s.hasDetail then (s.headBuf, s.buf) else (s.buf, []))
    else
      let h := s.headBuf
      let h1 := if h ≠ [] && h.getLast? ≠ some nlT && s.buf ≠ [] && s.buf.head? ≠ some nlT then h ++ [nlT] else h
      (h1 ++ s.buf, [])
  let (h, d, r) :=
    if bufIsRedactable then
      (if redOut then (hd.1, hd.2, true) else (bytesT (stripT hd.1), bytesT (stripT hd.2), false))
    else (hd.1, hd.2, false)
  ⟨h, d, r, false, none, false, if withDepth then depth else 0, tstr⟩

/-- `ElideSharedStackTraceSuffix` -/
def elideLoop (new prev : Stack) : Nat → Nat → Nat
  | i + 1, j + 1 =>
    if (new[i + 1]?).map (·.pc) ≠ (prev[j + 1]?).map (·.pc) then i + 1 else elideLoop new prev i j
  | i, _ => i

def elideShared (prev new : Stack) : Stack × Bool :=
  if prev = [] || new = [] then (new, false)
  else
    let i0 := elideLoop new prev (new.length - 1) (prev.length - 1)
    let i := if i0 = 0 then 1 else i0
    (new.take i, i < new.length - 1)

/-! ### the scripts of the library types -/

def lit' (s : String) : SegT := .lit (lit s)

/-- the Any type URL printed for an opaque payload -/
def payUrl (d : Det) (hid : List Enc) : Option Str :=
  match hid with
  | _ :: _ => some (b!"type.googleapis.com/cockroach.errorspb.EncodedError")
  | [] =>
    match d.pay with
    | .none => none
    | .str _ => some (b!"type.googleapis.com/cockroach.errorspb.StringPayload")
    | .strs _ => some (b!"type.googleapis.com/cockroach.errorspb.StringsPayload")
    | .errno .. => some (b!"type.googleapis.com/cockroach.errorspb.ErrnoPayload")
    | .mark .. => some (b!"type.googleapis.com/cockroach.errorspb.MarkPayload")
    | .tags _ => some (b!"type.googleapis.com/cockroach.errorspb.TagsPayload")
    | .http _ => some (b!"type.googleapis.com/cockroach.errors.exthttp.EncodedHTTPCode")
    | .grpc _ => some (b!"type.googleapis.com/cockroach.errors.extgrpc.EncodedGrpcCode")
    | .status .. => some (b!"type.googleapis.com/google.rpc.Status")
    | .testErr => some (b!"type.googleapis.com/cockroach.errorspb.TestError")
    | .raw u _ => some u

/-- the detail block shared by the opaque types -/
def opaqueDetailOps (what : Str) (d : Det) (hid : List Enc) : List POp :=
  [.detail, .safe [.lit (nl :: b!"(opaque error " ++ what ++ b!")")],
   .safe [.lit (nl :: b!"type name: "), .lit d.origType]] ++
  (d.rep.zipIdx.map (fun (x : Str × Nat) =>
    POp.safe [.lit (nl :: b!"reportable "), .lit (natStr x.2), .lit (b!":" ++ [nl]), .lit x.1])) ++
  (match payUrl d hid with
   | some u => [.safe [.lit (nl :: b!"payload type: "), .lit u]]
   | none => [])

/-- SafeFormatError / FormatError of a single-cause wrapper: (operations, elide the inner
    messages (the method returned nil), is the buffer redactable).  `hidV` = the verbose
    redactable rendering of the hidden error, for the types that embed one. -/
def wrapScript (k : WrapKind) (detail : Bool) : List POp × Bool × Bool :=
  let det (ops : List POp) : List POp := if detail then .detail :: ops else []
  match k with
  | .withPrefix p => ([.safe [.pre p]], false, true)
  | .withNewMessage m => ([.safe [.pre m]], true, true)
  | .withStack _ => (det [.safe [lit' "attached stack trace"]], false, true)
  | .withHint h => (det [.plain h], false, false)
  | .withDetail h => (det [.plain h], false, false)
  | .withIssueLink url dt =>
    (det ((if url ≠ [] then [POp.safe [lit' "issue: ", .lit url]] else []) ++
          (if dt ≠ [] then [POp.safe [.lit (if url ≠ [] then nlS else []), lit' "detail: ", .lit dt]] else [])), false, true)
  | .withTelemetry keys => (det [.safe [lit' "keys: [", .lit (joinWith sp keys), lit' "]"]], false, true)
  | .withDomain d => (det [.safe [.lit d]], false, true)
  | .withContext tags kinds _ =>
    (det ([POp.safe [lit' "tags: ["]] ++
      (tags.zipIdx.flatMap (fun (x : (Str × Str) × Nat) =>
        (if x.2 > 0 then [POp.safe [lit' ","]] else []) ++ [POp.safe [.preT (tagToks x.1 (kinds.getD x.2 0))]])) ++
      [POp.safe [lit' "]"]]), false, true)
  | .withAssertionFailure => (det [.safe [lit' "assertion failure"]], false, true)
  | .withSafeDetails l =>
    (det ((if l.length ≠ 1 then
            [POp.safe [.lit (natStr l.length), lit' " safe detail", lit' "s", lit' " enclosed"]] else []) ++
          (l.zipIdx.map (fun (x : Str × Nat) =>
            POp.safe [.lit (if l.length ≠ 1 || x.2 > 0 then nlS else []), .lit x.1]))), false, true)
  | .withMark m tys =>
    (det [.safe [.lit (b!"forced error mark" ++ [nl])],
          .safe [.arg (quoteGo m), .lit nlS, .lit ((tys.head?.map (·.fam)).getD []), lit' "::",
                 .lit ((tys.head?.map (·.ext)).getD [])]], false, true)
  | .withHTTPCode n => (det [.safe [lit' "http code: ", .arg (natStr n)]], false, true)
  | .withGrpcCode n => (det [.safe [lit' "gRPC code: ", .lit (codeName n)]], false, true)
  | .opaqueWrapper p d mt hid =>
    ((if p ≠ [] then [POp.safe [.arg p]] else []) ++ (if detail then opaqueDetailOps (b!"wrapper") d hid else []),
     mt = mtFull, true)
  | _ => ([], false, false)      -- not a Formatter: handled by formatSimple / special cases

/-- barrier: Print(smsg); Detail → "-- cause hidden behind barrier\n%+v" -/
def barrierScript (m : BarrierMsg) (hidV : Toks) (detail : Bool) : List POp :=
  [.safe [.pre m.smsg]] ++
    (if detail then [.detail, .safe [.lit (b!"-- cause hidden behind barrier" ++ [nl]), .preT hidV]] else [])

def secondScript (hidV : Toks) (detail : Bool) : List POp :=
  if detail then [.detail, .safe [.lit (b!"secondary error attachment" ++ [nl]), .preT hidV]] else []

/-- joinError: the branches' one-line renderings separated by Print("\n") -/
def joinScript (branches : List Toks) : List POp :=
  branches.zipIdx.flatMap (fun (x : Toks × Nat) =>
    (if x.2 > 0 then [POp.safe [.arg nlS]] else []) ++ [POp.safe [.preT x.1]])

def leafScript (k : LeafKind) (detail : Bool) : Option (List POp) :=
  match k with
  | .leafError msg => some [.safe [.pre msg]]
  | .unimplemented msg url dt =>
    some ([POp.safe [.arg msg]] ++
      (if detail then
        [.detail, .safe [lit' "unimplemented"]] ++
        (if url ≠ [] then [POp.safe [.lit (nl :: b!"issue: "), .lit url]] else []) ++
        (if dt ≠ [] then [POp.safe [.lit (nl :: b!"detail: "), .lit dt]] else [])
       else []))
  | .opaqueLeaf msg d hid =>
    some ([POp.safe [.arg msg]] ++ (if detail then opaqueDetailOps (b!"leaf") d hid else []))
  | _ => none

/-! ### the special cases of errutil.specialCaseFormat, and formatSimple -/

/-- the sentinels whose texts are known to be safe -/
def safeSentinelTexts : List Str := [
  b!"context deadline exceeded", b!"context canceled", b!"invalid argument", b!"permission denied",
  b!"file already exists", b!"file does not exist", b!"file already closed", b!"file type does not support deadline"]

/-- frames of a pkg/errors stack as the separate writes Frame.Format performs -/
def splitAt2 (s sep : Str) : Option (Str × Str) :=
  go s [] s.length
where go : Str → Str → Nat → Option (Str × Str)
  | _, _, 0 => none
  | [], _, _ => none
  | c :: r, acc, fuel + 1 =>
    if sep.isPrefixOf (c :: r) then some (acc.reverse, (c :: r).drop sep.length)
    else go r (c :: acc) fuel

def frameWrites (f : Frame) : List Str :=
  match splitAt2 f.txt [nl, 9] with
  | some (name, rest) =>
    -- rest = file ":" line ; split at the last ':'
    let rv := rest.reverse
    let lineRev := rv.takeWhile (· ≠ 58)
    let fileRev := (rv.dropWhile (· ≠ 58)).drop 1
    [name, [nl, 9], fileRev.reverse, [58], lineRev.reverse]
  | none => [f.txt]

/-! ### rendering the collected entries -/

/-- a non-redactable buffer (byte tokens only) entering a redactable rendering goes through
    `redact.EscapeBytes` -/
def escIfNeeded (red : Bool) (en : Entry) (s : Toks) : Toks :=
  if !red || en.redactable then s else escapeBytesT (stripT s)

/-- formatSingleLineOutput (entries are stored innermost first) -/
def singleLine (red : Bool) (ents : List Entry) : Toks :=
  ents.reverse.foldl (fun acc en =>
    if en.elideShort then acc
    else
      let acc1 := if acc ≠ [] && en.head ≠ [] then acc ++ colonSpT else acc
      if en.head = [] then acc1 else acc1 ++ escIfNeeded red en en.head) []

/-- `%+v` of a stack with the newlines replaced by the detail separator -/
def stackLines (st : Stack) : Toks :=
  st.flatMap (fun f => detailSep ++ (f.txt.flatMap (fun c => if c = nl then detailSep else [Tok.b c])))

/-- printEntry -/
def printEntry (red : Bool) (en : Entry) : Toks :=
  (if en.head ≠ [] then (if en.head.head? ≠ some nlT then [Tok.b 32] else []) ++ escIfNeeded red en en.head else []) ++
  (if en.details ≠ [] then
    (if en.head = [] && en.details.head? ≠ some nlT then [Tok.b 32] else []) ++ escIfNeeded red en en.details else []) ++
  (match en.stack with
   | some st => bytesT (nl :: b!"  -- stack trace:") ++ stackLines st ++
      (if en.elidedStack then detailSep ++ bytesT (b!"[...repeated from below...]") else [])
   | none => [])

def indentOf (depth : Nat) : Str :=
  (List.range (depth - 1)).flatMap (fun m => if m + 2 = depth then b!"└─ " else [32, 32])

/-- the `Error types:` line -/
def typesLineOf (l : List Str) : Str :=
  nl :: b!"Error types:" ++ (l.zipIdx.flatMap (fun (x : Str × Nat) => b!" (" ++ natStr (x.2 + 1) ++ b!") " ++ x.1))

/-- formatEntries -/
def fullOutput (red : Bool) (ents : List Entry) : Toks :=
  match ents.reverse with
  | [] => []
  | top :: rest =>
    singleLine red ents ++ bytesT (nl :: b!"(1)") ++ printEntry red top ++
    (rest.zipIdx.flatMap (fun (x : Entry × Nat) =>
      bytesT ([nl] ++ indentOf x.1.depth ++ b!"Wraps: (" ++ natStr (x.2 + 2) ++ b!")") ++ printEntry red x.1)) ++
    bytesT (typesLineOf ((top :: rest).map (·.tstr)))

def finish (red detail : Bool) (ents : List Entry) : Toks :=
  if detail then fullOutput red ents else singleLine red ents

/-! ### formatRecursive -/

/-- does `%v` of this error go through this engine (its type's Format method calls FormatError)? -/
def libFormats : Err → Bool
  | .leaf _ k => (match k with
    | .leafError _ | .unimplemented .. | .opaqueLeaf .. => true
    | _ => false)
  | .barrier .. => true
  | .second .. => true
  | .wrap _ k _ => (match k with
    | .pkgWithMessage _ | .pkgWithStack _ | .pathError .. | .linkError .. | .syscallError _ | .fmtWrapError _ | .user .. => false
    | _ => true)
  | .multi _ k _ => (match k with
    | .join | .opaqueLeafCauses .. => true
    | _ => false)

/-- the stdlib sentinels of errutil.specialCaseFormat, as error values -/
def specialSentinels : List Err := [
  .leaf [0] .deadline,
  .leaf [1] (.errorString (b!"context canceled")),
  .leaf [2] (.errorString (b!"invalid argument")),
  .leaf [3] (.errorString (b!"permission denied")),
  .leaf [4] (.errorString (b!"file already exists")),
  .leaf [5] (.errorString (b!"file does not exist")),
  .leaf [6] (.errorString (b!"file already closed")),
  .leaf [7] (.errorString (b!"file type does not support deadline"))]

def runOps (detail : Bool) (ops : List POp) : LState := ops.foldl runOp { wantDetail := detail }

def markElided (l : List Entry) : List Entry := l.map (fun e => { e with elideShort := true })

/-- formatSimple for a wrapper: the prefix extracted from the two Error() texts -/
def simpleWrapOps (eText cText : Str) : List POp × Bool :=
  let pm := extractPrefix eText cText
  ((if pm.1 ≠ [] then [POp.plain pm.1] else []), pm.2 = mtFull)

/-- what a wrapper layer prints: its own SafeFormatError / FormatError method (library
    types), a special case (os.SyscallError, PathError, LinkError), or formatSimple (the
    prefix extracted from the two Error() texts).  (operations, elide the inner messages,
    is the buffer redactable) -/
def wrapOpsOf (k : WrapKind) (detail : Bool) (ct : Str) : List POp × Bool × Bool :=
  match k with
  | .syscallError scn => ([.safe [.lit scn]], false, true)
  | .pathError op path => ([.safe [.lit op, .lit sp, .arg path]], false, true)
  | .linkError op old new => ([.safe [.lit op, .lit sp, .arg old, .lit sp, .arg new]], false, true)
  | .pkgWithMessage _ => ((simpleWrapOps (wrapText k ct) ct).1, (simpleWrapOps (wrapText k ct) ct).2, false)
  | .pkgWithStack _ => ((simpleWrapOps (wrapText k ct) ct).1, (simpleWrapOps (wrapText k ct) ct).2, false)
  | .fmtWrapError _ => ((simpleWrapOps (wrapText k ct) ct).1, (simpleWrapOps (wrapText k ct) ct).2, false)
  | .user .. => ((simpleWrapOps (wrapText k ct) ct).1, (simpleWrapOps (wrapText k ct) ct).2, false)
  | _ => wrapScript k detail

/-- the stack a wrapper layer provides (StackTraceProvider) -/
def wrapStackOf : WrapKind → Option Stack
  | .withStack s => some s
  | .pkgWithStack s => some s
  | _ => none

/-- attach the stack of a StackTraceProvider layer -/
def withStackOf (en : Entry) (ls : Stack) (st : Option Stack) : Entry × Stack :=
  match st with
  | some s =>
    let r := elideShared ls s
    ({ en with stack := some r.1, elidedStack := r.2 }, r.1)
  | none => (en, ls)

mutual
/-- Error(), through the engine where the real method goes through it -/
def errText : Err → Str
  | .leaf _ k => leafText k
  | .barrier _ m _ => stripMarkers m.smsg
  | .wrap _ k c =>
    match k with
    | .withPrefix p =>
      if p = [] then errText c
      else pfx (stripMarkers p) (if libFormats c then stripT (singleLine false (ents false false c true false 0 []).1) else errText c)
    | .opaqueWrapper p _ mt _ =>
      if mt = mtFull then p else if p = [] then errText c
      else pfx p (if libFormats c then stripT (singleLine false (ents false false c true false 0 []).1) else errText c)
    | _ => wrapText k (errText c)
  | .second _ c _ => errText c
  | .multi _ k cs =>
    match k with
    | .join =>   -- redact.Sprint(e).StripMarkers()
      stripT (collect (runOps false (joinScript (rendVL cs))) true true false 0 []).head
    | _ => multiText k (errTextL cs)
def errTextL : List Err → List Str
  | [] => []
  | e :: r => errText e :: errTextL r
/-- the redactable `%v` renderings of the branches of a Join (each a fresh formatting run) -/
def rendVL : List Err → List Toks
  | [] => []
  | e :: r => singleLine true (ents true false e true false 0 []).1 :: rendVL r
/-- formatRecursive: the entries of the sub-tree (innermost first) and the new lastStack -/
def ents (red detail : Bool) : Err → (outer withDepth : Bool) → (depth : Nat) → Stack → List Entry × Stack
  | .leaf id k, outer, wd, depth, ls =>
    let e := Err.leaf id k
    match leafScript k detail with
    | some ops => ([collect (runOps detail ops) true red wd depth e.ty.tstr], ls)
    | none =>
      match k with
      | .pkgFundamental msg st =>
        if !outer then
          -- (*fundamental).Format(s, 'v'): the message, and with %+v its own stack, frame by frame
          let ops := (msg :: (if detail then st.flatMap (fun f => nlS :: frameWrites f) else [])).map POp.plain
          ([collect (runOps detail ops) false red wd depth e.ty.tstr], st)
        else
          let en := collect (runOps detail [.plain msg]) false red wd depth e.ty.tstr
          let r := withStackOf en ls (some st)
          ([r.1], r.2)
      | _ =>
        if isAnyB Full e (specialSentinels.map some) then
          ([collect (runOps detail [.safe [.lit (leafText k)]]) true red wd depth e.ty.tstr], ls)
        else
          match k with
          | .errno _ msg .. => ([collect (runOps detail [.safe [.lit msg]]) true red wd depth e.ty.tstr], ls)
          | _ => ([collect (runOps detail (if leafText k ≠ [] then [.plain (leafText k)] else [])) false red wd depth e.ty.tstr], ls)
  | .barrier id m h, _, wd, depth, ls =>
    let hidV := if detail then fullOutput true (ents true true h true false 0 []).1 else []
    ([collect (runOps detail (barrierScript m hidV detail)) true red wd depth tnBarrier.tstr], ls)
  | .wrap id k c, _, wd, depth, ls =>
    let e := Err.wrap id k c
    let sub := ents red detail c false wd (depth + 1) ls
    let res := wrapOpsOf k detail (errText c)
    let en := collect (runOps detail res.1) res.2.2 red wd depth e.ty.tstr
    let r := withStackOf en sub.2 (wrapStackOf k)
    ((if res.2.1 then markElided sub.1 else sub.1) ++ [r.1], r.2)
  | .second id c s, _, wd, depth, ls =>
    let sub := ents red detail c false wd (depth + 1) ls
    let hidV := if detail then fullOutput true (ents true true s true false 0 []).1 else []
    (sub.1 ++ [collect (runOps detail (secondScript hidV detail)) true red wd depth tnSecondary.tstr], sub.2)
  | .multi id k cs, _, wd, depth, ls =>
    let e := Err.multi id k cs
    let sub := entsL red detail cs (depth + 1) ls
    match k with
    | .join =>
      (markElided sub.1 ++ [collect (runOps detail (joinScript (rendVL cs))) true red wd depth e.ty.tstr], sub.2)
    | .opaqueLeafCauses msg d hid =>
      (markElided sub.1 ++ [collect (runOps detail ((leafScript (.opaqueLeaf msg d hid) detail).getD [])) true red wd depth e.ty.tstr], sub.2)
    | _ =>
      -- the special cases apply to leaves only (cause == nil && len(causes) == 0)
      let t := multiText k (errTextL cs)
      (markElided sub.1 ++ [collect (runOps detail (if t ≠ [] then [.plain t] else [])) false red wd depth e.ty.tstr], sub.2)
/-- the branches of a multi-cause error, left to right, sharing `lastStack` -/
def entsL (red detail : Bool) : List Err → (depth : Nat) → Stack → List Entry × Stack
  | [], _, ls => ([], ls)
  | e :: r, depth, ls =>
    let a := ents red detail e false true depth ls
    let b := entsL red detail r depth a.2
    (a.1 ++ b.1, b.2)
end

/-- FormatError / FormatRedactableError with verb v / s / +v on a whole error, as tokens -/
def renderT (red detail : Bool) (e : Err) : Toks := finish red detail (ents red detail e true false 0 []).1

/-- the bytes the caller sees -/
def render (red detail : Bool) (e : Err) : Str := unlex (renderT red detail e)

/-- `redact.Sprintf("masked error: %+v", e).Redact().StripMarkers()`: what a barrier appends to
    its safe details -/
def vfE (e : Err) : Str :=
  stripT (redactT (assembleT [.lit (b!"masked error: "), .preT (renderT true true e)]))

/-- the `%!verb(type)` notation of an unsupported verb -/
def badVerb (verb : UInt8) (e : Err) : Str := b!"%!" ++ [verb] ++ b!"(" ++ e.ty.tstr ++ b!")"

/-! ### verb dispatch (`formatErrorInternal`, `finishDisplay`) -/

/-- a printf directive: the verb, the flags and whether a width / precision is present -/
structure Spec where
  verb : UInt8
  plus : Bool := false
  minus : Bool := false
  sharp : Bool := false
  space : Bool := false
  zero : Bool := false
  width : Option Nat := none
  prec : Option Nat := none
  deriving Repr, DecidableEq, Inhabited

/-- what ends up in the caller's `fmt.State` -/
inductive VOut
  | direct (s : Str)      -- the buffer copied as is
  | viaFmt (s : Str)      -- `fmt.Fprintf(state, <the same directive>, s)`: fmt applies verb, flags, width, precision to the string
  | goSyntax              -- `%#v`: GoString() / the pretty printer (outside the model)
  | bad (s : Str)         -- the `%!verb(type)` refusal
  deriving Repr, DecidableEq, Inhabited

def vV : UInt8 := 118
def vS : UInt8 := 115
def vQ : UInt8 := 113
def vx : UInt8 := 120
def vX : UInt8 := 88

/-- `finishDisplay` -/
def finishDisplay (red : Bool) (sp : Spec) (buf : Str) : VOut :=
  if red then .direct buf
  else
    let direct := sp.verb = vV || sp.verb = vS
    if !direct || (match sp.width with | some w => w > 0 | none => false) || sp.prec.isSome then .viaFmt buf
    else .direct buf

/-- `formatErrorInternal` -/
def formatVerb (red : Bool) (sp : Spec) (e : Err) : VOut :=
  if sp.verb = vV && sp.plus && !sp.sharp then finishDisplay red sp (render red true e)
  else if !red && sp.verb = vV && sp.sharp then .goSyntax
  else if sp.verb = vS || (sp.verb = vV && !sp.sharp) || (!red && (sp.verb = vx || sp.verb = vX || sp.verb = vQ)) then
    finishDisplay red sp (render red false e)
  else .bad (badVerb sp.verb e)

end ErrModel
