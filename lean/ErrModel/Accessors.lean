import ErrModel.Details
/-
  The public accessors (Get*/Has*/Is*), transliterated.  Every accessor walks the
  single-cause chain (`chain e`, outermost first) — hidden errors (barrier payloads,
  secondary errors) and multi-cause branches are not visited.
-/
namespace ErrModel

/-- stdstrings.IssueReferral -/
def issueReferral : Str := b!"\n\nPlease check the public issue tracker to check whether this problem is\nalready tracked. If you cannot find it there, please report the error\nwith details by creating a new issue.\n\nIf you would rather not post publicly, please contact us directly\nusing the support form.\n\nWe appreciate your feedback.\n"
def assertionErrorHint : Str := b!"You have encountered an unexpected error."
def unimplementedErrorHint : Str := b!"You have attempted to use a feature that is not yet implemented."

/-- maybeAppendReferral on a buffer that already holds `pre` -/
def appendReferral (pre : Str) (url : Str) : Str :=
  if url ≠ [] then (if pre ≠ [] then pre ++ nlS else pre) ++ b!"See: " ++ url
  else pre ++ issueReferral

/-- `ErrorHint()` of one layer (`none`: the layer is not an ErrorHinter) -/
def layerHint : Err → Option Str
  | .wrap _ (.withHint h) _ => some h
  | .wrap _ .withAssertionFailure _ => some (assertionErrorHint ++ issueReferral)
  | .wrap _ (.withIssueLink url _) _ => some (appendReferral [] url)
  | .leaf _ (.unimplemented _ url _) => some (appendReferral unimplementedErrorHint url)
  | _ => none

/-- `ErrorDetail()` of one layer -/
def layerDetail : Err → Option Str
  | .wrap _ (.withDetail d) _ => some d
  | _ => none

/-- the loop of getAllHintsInternal: innermost first, empty hints skipped, first occurrence wins -/
def addHint (acc : List Str) (h : Option Str) : List Str :=
  match h with
  | some s => if s = [] ∨ acc.contains s then acc else acc ++ [s]
  | none => acc

/-- getAllHintsInternal(err, hints, seen): recurse into the cause first, then this layer
    (`seen` is the set of the strings in `hints`) -/
def hintsInternal : Err → List Str → List Str
  | .wrap id k c, hints => addHint (hintsInternal c hints) (layerHint (.wrap id k c))
  | .second id c s, hints => addHint (hintsInternal c hints) (layerHint (.second id c s))
  | e, hints => addHint hints (layerHint e)

def getAllHints (e : Err) : List Str := hintsInternal e []

def addDetail (acc : List Str) (d : Option Str) : List Str :=
  match d with
  | some s => if s = [] then acc else acc ++ [s]
  | none => acc

/-- getAllDetailsInternal(err, details) -/
def detailsInternal : Err → List Str → List Str
  | .wrap id k c, ds => addDetail (detailsInternal c ds) (layerDetail (.wrap id k c))
  | .second id c s, ds => addDetail (detailsInternal c ds) (layerDetail (.second id c s))
  | e, ds => addDetail ds (layerDetail e)

def getAllDetails (e : Err) : List Str := detailsInternal e []

def flattenSep : Str := b!"\n--\n"
def flatten (l : List Str) : Str := joinWith flattenSep l
def flattenHints (e : Err) : Str := flatten (getAllHints e)
def flattenDetails (e : Err) : Str := flatten (getAllDetails e)

/-- GetIssueLink of one layer -/
def layerIssueLink : Err → Option (Str × Str)
  | .wrap _ (.withIssueLink u d) _ => some (u, d)
  | .leaf _ (.unimplemented _ u d) => some (u, d)
  | _ => none

def getAllIssueLinks (e : Err) : List (Str × Str) := (chain e).filterMap layerIssueLink

def isWithIssueLink : Err → Bool
  | .wrap _ (.withIssueLink ..) _ => true
  | _ => false
def hasIssueLink (e : Err) : Bool := (chain e).any isWithIssueLink
def isIssueLink (e : Err) : Bool := isWithIssueLink e

def isUnimplementedError : Err → Bool
  | .leaf _ (.unimplemented ..) => true
  | _ => false
def hasUnimplementedError (e : Err) : Bool := isUnimplementedError (unwrapAll e)

def isAssertionFailure : Err → Bool
  | .wrap _ .withAssertionFailure _ => true
  | _ => false
def hasAssertionFailure (e : Err) : Bool := (chain e).any isAssertionFailure

def layerKeys : Err → List Str
  | .wrap _ (.withTelemetry ks) _ => ks
  | _ => []
/-- GetTelemetryKeys: a set (here: all keys in chain order; compared as sets) -/
def getTelemetryKeys (e : Err) : List Str := (chain e).flatMap layerKeys

def noDomain : Str := b!"error domain: <none>"
def layerDomain : Err → Option Str
  | .wrap _ (.withDomain d) _ => some d
  | _ => none
def getDomain (e : Err) : Str := ((chain e).findSome? layerDomain).getD noDomain

def layerTags : Err → Option (List (Str × Str))
  | .wrap _ (.withContext t _ _) _ => some t
  | _ => none
def getContextTags (e : Err) : List (List (Str × Str)) := (chain e).filterMap layerTags

def layerHTTP : Err → Option Nat
  | .wrap _ (.withHTTPCode n) _ => some n
  | _ => none
def getHTTPCode (e : Err) (dflt : Nat) : Nat := ((chain e).findSome? layerHTTP).getD dflt

def layerGrpc : Err → Option Nat
  | .wrap _ (.withGrpcCode n) _ => some n
  | _ => none
/-- GetGrpcCode of a non-nil error: Unknown (2) without a code layer -/
def getGrpcCode (e : Err) : Nat := ((chain e).findSome? layerGrpc).getD 2

/-! ### oserror predicates -/

/-- os.IsPermission / IsExist / IsNotExist applied to the root cause: the sentinel itself
    or an errno whose Is method says so; `which` = 0 permission, 1 exist, 2 not-exist -/
def sentinelIdOf (which : Nat) : Ident :=
  if which = 0 then idErrPermission else if which = 1 then idErrExist else idErrNotExist

def errnoFlag (which : Nat) (perm exist notExist : Bool) : Bool :=
  if which = 0 then perm else if which = 1 then exist else notExist

def rootOsIs (which : Nat) : Err → Bool
  | .leaf id (.errorString _) => id = sentinelIdOf which
  | .leaf _ (.errno _ _ p x n _ _) => errnoFlag which p x n
  | _ => false

def opaqueErrnoFlag (which : Nat) : Err → Option Bool
  | .leaf _ (.opaqueErrno _ _ _ p x n _ _) => some (errnoFlag which p x n)
  | _ => none

/-- oserror.IsPermission / IsExist / IsNotExist (`sentinel` = the os.Err* object as an Err) -/
def osIs (P : Proc) (which : Nat) (sentinel : Err) (e : Err) : Bool :=
  isB P e sentinel || rootOsIs which (unwrapAll e) ||
    ((chain e).findSome? (opaqueErrnoFlag which)).getD false

def timeoutLayer : Err → Bool
  | .leaf _ (.errno _ _ _ _ _ t _) => t
  | .leaf _ (.opaqueErrno _ _ _ _ _ _ t _) => t
  | .leaf _ .deadline => true
  | _ => false

/-- oserror.IsTimeout -/
def isTimeout (e : Err) : Bool := (chain e).any timeoutLayer

variable (P : Proc) (vf : Err → Str)

/-- GetAllSafeDetails: one payload per layer of the single-cause chain -/
def getAllSafeDetails (e : Err) : List (Str × TMark × List Str) :=
  (chain e).map (fun n => (origTypeName n, typeMark P n, layerDetails P vf n))

end ErrModel
