import ErrModel.Wire
/-
  Error values.  One inductive for the tree; the per-type data lives in the
  kind enumerations so that every observer is "one case per Go type", as in the
  code.  Hidden sub-errors (barrier payload, secondary error) are explicit
  constructors: they are *not* causes.
-/
namespace ErrModel

/-- Redactable strings are byte strings with in-band markers. -/
abbrev RStr := Str

/-- Object identity (Go `==` on interface values holding pointers).
    Original objects get `[n]` from the harness; decoded objects get
    `hop :: path`.  Value kinds ignore it. -/
abbrev Ident := List Nat

structure Frame where
  pc : Nat
  txt : Str            -- `%+v` of the frame: "fn\n\tfile:line"
  deriving DecidableEq, Repr, Inhabited

abbrev Stack := List Frame

/-- `fmt.Sprintf("%+v", stackTrace)`. -/
def printStack : Stack → Str
  | [] => []
  | f :: r => nl :: f.txt ++ printStack r

/-- A foreign (unregistered) error type, described by what the library can
    observe of it. -/
structure UserTy where
  name : Str           -- full type name: pkgpath "/" reflect.Type.String()
  tstr : Str           -- %T
  style : Nat          -- wrappers: 0 = "msg: cause", 1 = full message, 2 = no message
  safe : List Str      -- SafeDetails() (empty when not implemented)
  deriving DecidableEq, Repr, Inhabited

inductive LeafKind
  | leafError (msg : RStr)
  | errorString (msg : Str)
  | deadline
  | errno (n : Nat) (msg : Str) (perm exist notExist timeout temp : Bool)
  | opaqueErrno (msg : Str) (n : Nat) (arch : Str) (perm exist notExist timeout temp : Bool)
  | pkgFundamental (msg : Str) (st : Stack)
  | unimplemented (msg url det : Str)
  | testErr
  | opaqueLeaf (msg : Str) (d : Det) (hid : List Enc)
  | user (u : UserTy) (msg : Str)
  deriving Repr, Inhabited

inductive WrapKind
  | withPrefix (p : RStr)
  | withNewMessage (m : RStr)
  | withStack (st : Stack)
  | withHint (h : Str)
  | withDetail (d : Str)
  | withIssueLink (url det : Str)
  | withTelemetry (keys : List Str)
  | withDomain (dom : Str)
  | withContext (tags : List (Str × Str)) (redacted : Option (List Str))
  | withAssertionFailure
  | withSafeDetails (l : List Str)
  | withMark (msg : Str) (tys : List TMark)
  | withHTTPCode (n : Nat)
  | withGrpcCode (n : Nat)
  | pkgWithMessage (m : Str)
  | pkgWithStack (st : Stack)
  | pathError (op path : Str)
  | linkError (op old new : Str)
  | syscallError (sc : Str)
  | fmtWrapError (msg : Str)
  | opaqueWrapper (pref : Str) (d : Det) (mt : Nat) (hid : List Enc)
  | user (u : UserTy) (msg : Str)
  deriving Repr, Inhabited

inductive MultiKind
  | join
  | stdJoin
  | fmtWrapErrors (msg : Str)
  | opaqueLeafCauses (msg : Str) (d : Det) (hid : List Enc)
  | user (u : UserTy) (msg : Str)
  deriving Repr, Inhabited

inductive Err
  | leaf (id : Ident) (k : LeafKind)
  | barrier (id : Ident) (smsg : RStr) (masked : Err)
  | wrap (id : Ident) (k : WrapKind) (cause : Err)
  | second (id : Ident) (cause : Err) (sec : Err)
  | multi (id : Ident) (k : MultiKind) (causes : List Err)
  deriving Repr, Inhabited

/-! ## Go type names (checked against the running code by the harness header) -/

structure TyName where
  full : Str     -- pkgpath "/" type string  (what `getFullTypeName` returns)
  tstr : Str     -- `%T`
  deriving DecidableEq, Repr, Inhabited

def tn (pkg short : String) : TyName := ⟨lit (pkg ++ "/" ++ short), lit short⟩

def crdb : String := "github.com/cockroachdb/errors/"

def tnBarrier : TyName := tn (crdb ++ "barriers") "*barriers.barrierErr"
def tnBarrierPrev : TyName := tn (crdb ++ "barriers") "*barriers.barrierError"
def tnSecondary : TyName := tn (crdb ++ "secondary") "*secondary.withSecondaryError"
def tnOpaqueLeaf : TyName := tn (crdb ++ "errbase") "*errbase.opaqueLeaf"
def tnOpaqueLeafCauses : TyName := tn (crdb ++ "errbase") "*errbase.opaqueLeafCauses"
def tnOpaqueWrapper : TyName := tn (crdb ++ "errbase") "*errbase.opaqueWrapper"

def LeafKind.ty : LeafKind → TyName
  | .leafError _ => tn (crdb ++ "errutil") "*errutil.leafError"
  | .errorString _ => tn "errors" "*errors.errorString"
  | .deadline => tn "context" "context.deadlineExceededError"
  | .errno .. => tn "syscall" "syscall.Errno"
  | .opaqueErrno .. => tn (crdb ++ "errbase") "*errbase.OpaqueErrno"
  | .pkgFundamental .. => tn "github.com/pkg/errors" "*errors.fundamental"
  | .unimplemented .. => tn (crdb ++ "issuelink") "*issuelink.unimplementedError"
  | .testErr => tn (crdb ++ "errorspb") "*errorspb.TestError"
  | .opaqueLeaf .. => tnOpaqueLeaf
  | .user u _ => ⟨u.name, u.tstr⟩

def WrapKind.ty : WrapKind → TyName
  | .withPrefix _ => tn (crdb ++ "errutil") "*errutil.withPrefix"
  | .withNewMessage _ => tn (crdb ++ "errutil") "*errutil.withNewMessage"
  | .withStack _ => tn (crdb ++ "withstack") "*withstack.withStack"
  | .withHint _ => tn (crdb ++ "hintdetail") "*hintdetail.withHint"
  | .withDetail _ => tn (crdb ++ "hintdetail") "*hintdetail.withDetail"
  | .withIssueLink .. => tn (crdb ++ "issuelink") "*issuelink.withIssueLink"
  | .withTelemetry _ => tn (crdb ++ "telemetrykeys") "*telemetrykeys.withTelemetry"
  | .withDomain _ => tn (crdb ++ "domains") "*domains.withDomain"
  | .withContext .. => tn (crdb ++ "contexttags") "*contexttags.withContext"
  | .withAssertionFailure => tn (crdb ++ "assert") "*assert.withAssertionFailure"
  | .withSafeDetails _ => tn (crdb ++ "safedetails") "*safedetails.withSafeDetails"
  | .withMark .. => tn (crdb ++ "markers") "*markers.withMark"
  | .withHTTPCode _ => tn (crdb ++ "exthttp") "*exthttp.withHTTPCode"
  | .withGrpcCode _ => tn (crdb ++ "extgrpc") "*extgrpc.withGrpcCode"
  | .pkgWithMessage _ => tn "github.com/pkg/errors" "*errors.withMessage"
  | .pkgWithStack _ => tn "github.com/pkg/errors" "*errors.withStack"
  | .pathError .. => tn "io/fs" "*fs.PathError"
  | .linkError .. => tn "os" "*os.LinkError"
  | .syscallError _ => tn "os" "*os.SyscallError"
  | .fmtWrapError _ => tn "fmt" "*fmt.wrapError"
  | .opaqueWrapper .. => tnOpaqueWrapper
  | .user u _ => ⟨u.name, u.tstr⟩

def MultiKind.ty : MultiKind → TyName
  | .join => tn (crdb ++ "join") "*join.joinError"
  | .stdJoin => tn "errors" "*errors.joinError"
  | .fmtWrapErrors _ => tn "fmt" "*fmt.wrapErrors"
  | .opaqueLeafCauses .. => tnOpaqueLeafCauses
  | .user u _ => ⟨u.name, u.tstr⟩

/-- The key under which `os.PathError` used to be known (Go < 1.16). -/
def osPathErrorKey : Str := lit "os/*os.PathError"

end ErrModel
