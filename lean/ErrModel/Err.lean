import ErrModel.Wire
/-
  Error values.  One inductive for the tree; the per-type data lives in the
  kind enumerations so that every observer is "one case per Go type", as in the
  code.  Hidden sub-errors (barrier payload, secondary error) are explicit
  constructors: they are *not* causes.
-/
namespace ErrModel

/-- Redactable strings are byte strings with in-band markers. -/
abbrev RStr := Str

/-- Object identity (Go `==` on interface values holding pointers).
    Original objects get `[n]` from the harness; decoded objects get
    `hop :: path`.  Value kinds ignore it. -/
abbrev Ident := List Nat

structure Frame where
  pc : Nat
  txt : Str            -- `%+v` of the frame: "fn\n\tfile:line"
  deriving DecidableEq, Repr, Inhabited

abbrev Stack := List Frame

/-- `fmt.Sprintf("%+v", stackTrace)`. -/
def printStack : Stack → Str
  | [] => []
  | f :: r => nl :: f.txt ++ printStack r

/-- A foreign (unregistered) error type, described by what the library can
    observe of it. -/
structure UserTy where
  name : Str           -- full type name: pkgpath "/" reflect.Type.String()
  tstr : Str           -- %T
  style : Nat          -- wrappers: 0 = "msg: cause", 1 = full message, 2 = no message
  safe : List Str      -- SafeDetails() (empty when not implemented)
  expose : Nat         -- wrappers: how the cause is exposed: 0 = Unwrap() only, 1 = Cause() only, 2 = both
  deriving DecidableEq, Repr, Inhabited

inductive LeafKind
  | leafError (msg : RStr)
  | errorString (msg : Str)
  | deadline
  | errno (n : Nat) (msg : Str) (perm exist notExist timeout temp : Bool)
  | opaqueErrno (msg : Str) (n : Nat) (arch : Str) (perm exist notExist timeout temp : Bool)
  | pkgFundamental (msg : Str) (st : Stack)
  | unimplemented (msg url det : Str)
  | testErr
  | grpcStatus (code : Nat) (msg : Str) (nd : Nat)    -- *status.Error (google.golang.org/grpc)
  | gogoStatus (code : Nat) (msg : Str) (nd : Nat)    -- *status.statusError (github.com/gogo/status)
  | opaqueLeaf (msg : Str) (d : Det) (hid : List Enc)
  | user (u : UserTy) (msg : Str)
  deriving Repr, Inhabited

inductive WrapKind
  | withPrefix (p : RStr)
  | withNewMessage (m : RStr)
  | withStack (st : Stack)
  | withHint (h : Str)
  | withDetail (d : Str)
  | withIssueLink (url det : Str)
  | withTelemetry (keys : List Str)
  | withDomain (dom : Str)
  /-- `kinds` = what each tag value is at the process that attached the tags: 0 a plain
      (unsafe) value, 1 a `redact.Safe` value, 2 nil; missing = 0.  Decoded tags are strings. -/
  | withContext (tags : List (Str × Str)) (kinds : List Nat) (redacted : Option (List Str))
  | withAssertionFailure
  | withSafeDetails (l : List Str)
  | withMark (msg : Str) (tys : List TMark)
  | withHTTPCode (n : Nat)
  | withGrpcCode (n : Nat)
  | pkgWithMessage (m : Str)
  | pkgWithStack (st : Stack)
  | pathError (op path : Str)
  | linkError (op old new : Str)
  | syscallError (sc : Str)
  | fmtWrapError (msg : Str)
  | opaqueWrapper (pref : Str) (d : Det) (mt : Nat) (hid : List Enc)
  | user (u : UserTy) (msg : Str)
  deriving Repr, Inhabited

inductive MultiKind
  | join
  | stdJoin
  | fmtWrapErrors (msg : Str)
  | opaqueLeafCauses (msg : Str) (d : Det) (hid : List Enc)
  | user (u : UserTy) (msg : Str)
  deriving Repr, Inhabited

/-- a barrier's own data: its redactable message and, for a barrier that was decoded from
    the network, the safe details it was received with (re-emitted as is) -/
structure BarrierMsg where
  smsg : RStr
  recv : Option (List Str)
  deriving DecidableEq, Repr, Inhabited

inductive Err
  | leaf (id : Ident) (k : LeafKind)
  | barrier (id : Ident) (m : BarrierMsg) (masked : Err)
  | wrap (id : Ident) (k : WrapKind) (cause : Err)
  | second (id : Ident) (cause : Err) (sec : Err)
  | multi (id : Ident) (k : MultiKind) (causes : List Err)
  deriving Repr, Inhabited

/-! ## Go type names (checked against the running code by the harness header) -/

structure TyName where
  full : Str     -- pkgpath "/" type string  (what `getFullTypeName` returns)
  tstr : Str     -- `%T`
  deriving DecidableEq, Repr, Inhabited

open Lean in
/-- `tn! "pkg/path" "*pkg.Type"` : explicit byte literals for ⟨"pkg/path/*pkg.Type", "*pkg.Type"⟩ -/
macro "tn!" pkg:str short:str : term => do
  let full := Syntax.mkStrLit (pkg.getString ++ "/" ++ short.getString)
  `((⟨b!$full, b!$short⟩ : TyName))

def tnBarrier : TyName := tn! "github.com/cockroachdb/errors/barriers" "*barriers.barrierErr"
def tnBarrierPrev : TyName := tn! "github.com/cockroachdb/errors/barriers" "*barriers.barrierError"
def tnSecondary : TyName := tn! "github.com/cockroachdb/errors/secondary" "*secondary.withSecondaryError"
def tnOpaqueLeaf : TyName := tn! "github.com/cockroachdb/errors/errbase" "*errbase.opaqueLeaf"
def tnOpaqueLeafCauses : TyName := tn! "github.com/cockroachdb/errors/errbase" "*errbase.opaqueLeafCauses"
def tnOpaqueWrapper : TyName := tn! "github.com/cockroachdb/errors/errbase" "*errbase.opaqueWrapper"

def LeafKind.ty : LeafKind → TyName
  | .leafError _ => tn! "github.com/cockroachdb/errors/errutil" "*errutil.leafError"
  | .errorString _ => tn! "errors" "*errors.errorString"
  | .deadline => tn! "context" "context.deadlineExceededError"
  | .errno .. => tn! "syscall" "syscall.Errno"
  | .opaqueErrno .. => tn! "github.com/cockroachdb/errors/errbase" "*errbase.OpaqueErrno"
  | .pkgFundamental .. => tn! "github.com/pkg/errors" "*errors.fundamental"
  | .unimplemented .. => tn! "github.com/cockroachdb/errors/issuelink" "*issuelink.unimplementedError"
  | .testErr => tn! "github.com/cockroachdb/errors/errorspb" "*errorspb.TestError"
  | .grpcStatus .. => tn! "google.golang.org/grpc/internal/status" "*status.Error"
  | .gogoStatus .. => tn! "github.com/gogo/status" "*status.statusError"
  | .opaqueLeaf .. => tnOpaqueLeaf
  | .user u _ => ⟨u.name, u.tstr⟩

def WrapKind.ty : WrapKind → TyName
  | .withPrefix _ => tn! "github.com/cockroachdb/errors/errutil" "*errutil.withPrefix"
  | .withNewMessage _ => tn! "github.com/cockroachdb/errors/errutil" "*errutil.withNewMessage"
  | .withStack _ => tn! "github.com/cockroachdb/errors/withstack" "*withstack.withStack"
  | .withHint _ => tn! "github.com/cockroachdb/errors/hintdetail" "*hintdetail.withHint"
  | .withDetail _ => tn! "github.com/cockroachdb/errors/hintdetail" "*hintdetail.withDetail"
  | .withIssueLink .. => tn! "github.com/cockroachdb/errors/issuelink" "*issuelink.withIssueLink"
  | .withTelemetry _ => tn! "github.com/cockroachdb/errors/telemetrykeys" "*telemetrykeys.withTelemetry"
  | .withDomain _ => tn! "github.com/cockroachdb/errors/domains" "*domains.withDomain"
  | .withContext .. => tn! "github.com/cockroachdb/errors/contexttags" "*contexttags.withContext"
  | .withAssertionFailure => tn! "github.com/cockroachdb/errors/assert" "*assert.withAssertionFailure"
  | .withSafeDetails _ => tn! "github.com/cockroachdb/errors/safedetails" "*safedetails.withSafeDetails"
  | .withMark .. => tn! "github.com/cockroachdb/errors/markers" "*markers.withMark"
  | .withHTTPCode _ => tn! "github.com/cockroachdb/errors/exthttp" "*exthttp.withHTTPCode"
  | .withGrpcCode _ => tn! "github.com/cockroachdb/errors/extgrpc" "*extgrpc.withGrpcCode"
  | .pkgWithMessage _ => tn! "github.com/pkg/errors" "*errors.withMessage"
  | .pkgWithStack _ => tn! "github.com/pkg/errors" "*errors.withStack"
  | .pathError .. => tn! "io/fs" "*fs.PathError"
  | .linkError .. => tn! "os" "*os.LinkError"
  | .syscallError _ => tn! "os" "*os.SyscallError"
  | .fmtWrapError _ => tn! "fmt" "*fmt.wrapError"
  | .opaqueWrapper .. => tnOpaqueWrapper
  | .user u _ => ⟨u.name, u.tstr⟩

def MultiKind.ty : MultiKind → TyName
  | .join => tn! "github.com/cockroachdb/errors/join" "*join.joinError"
  | .stdJoin => tn! "errors" "*errors.joinError"
  | .fmtWrapErrors _ => tn! "fmt" "*fmt.wrapErrors"
  | .opaqueLeafCauses .. => tnOpaqueLeafCauses
  | .user u _ => ⟨u.name, u.tstr⟩

/-- The key under which `os.PathError` used to be known (Go < 1.16). -/
def osPathErrorKey : Str := b!"os/*os.PathError"

end ErrModel
