import ErrModel.ProtoFull
set_option linter.unusedSimpArgs false
/-
  The complete `EncodedError`: payloads that are flat payload messages, or a nested `EncodedError`
  (the masked error of a barrier, a secondary error) carried in the `Any` of its layer.
-/
namespace ErrModel.Proto

inductive G
  | leaf (msg : Str) (d : Det) (hid : Option G) (cs : List G)
  | wrap (msg : Str) (d : Det) (mt : Nat) (hid : Option G) (c : G)
  deriving Repr, Inhabited

def encName : Str := b!"cockroach.errorspb.EncodedError"

/-- the details of a layer whose payload is a nested message (`nested`, already serialised) or `d.pay` -/
def detItemsG (d : Det) (nested : Option Bytes) : List Item :=
  optLd 1 d.origType ++ [.ld 2 (serMark d.mark)] ++ d.rep.map (fun s => .ld 3 s) ++
    (match nested with
     | some hb => [.ld 4 (serAny (urlPrefix ++ encName) hb)]
     | none => anyItems d.pay)

mutual
def serG : G → Bytes
  | .leaf msg d hid cs =>
    lenField 1 (serItems (optLd 1 msg ++ [.ld 2 (serItems (detItemsG d (serGo hid)))] ++ (serGs cs).map (fun b => .ld 3 b)))
  | .wrap msg d mt hid c =>
    lenField 2 (serItems ([.ld 1 (serG c)] ++ optLd 2 msg ++ [.ld 3 (serItems (detItemsG d (serGo hid)))] ++ optVi 4 mt))
def serGo : Option G → Option Bytes
  | none => none
  | some g => some (serG g)
def serGs : List G → List Bytes
  | [] => []
  | w :: r => serG w :: serGs r
end

/-- the details and, when the payload is a nested message, that message decoded by `rec` -/
def detOfBytesG (rec : Bytes → Option G) (b : Option Bytes) : Option (Det × Option G) :=
  match parseItems (b.getD []).length (b.getD []) with
  | none => none
  | some xs =>
    match desMark ((lastLd xs 2).getD []) with
    | none => none
    | some mk =>
      match lastLd xs 4 with
      | none => some (⟨(lastLd xs 1).getD [], mk, allLd xs 3, .none⟩, none)
      | some a =>
        match desAny a with
        | none => none
        | some (url, val) =>
          match stripPrefix? urlPrefix url with
          | none => none
          | some name =>
            if name = encName then
              match rec val with
              | none => none
              | some g => some (⟨(lastLd xs 1).getD [], mk, allLd xs 3, .none⟩, some g)
            else
              match desPayNamed name val with
              | none => none
              | some p => some (⟨(lastLd xs 1).getD [], mk, allLd xs 3, p⟩, none)

mutual
def desG : Nat → Bytes → Option G
  | 0, _ => none
  | f + 1, b =>
    match parseItems b.length b with
    | none => none
    | some top =>
      match lastOneof top with
      | none => none
      | some (true, body) =>
        match parseItems body.length body with
        | none => none
        | some xs =>
          match detOfBytesG (desG f) (lastLd xs 2), desGs f (allLd xs 3) with
          | some (d, hid), some cs => some (.leaf ((lastLd xs 1).getD []) d hid cs)
          | _, _ => none
      | some (false, body) =>
        match parseItems body.length body with
        | none => none
        | some xs =>
          match detOfBytesG (desG f) (lastLd xs 3), desG f ((lastLd xs 1).getD []) with
          | some (d, hid), some c => some (.wrap ((lastLd xs 2).getD []) d (lastVi xs 4) hid c)
          | _, _ => none
def desGs : Nat → List Bytes → Option (List G)
  | _, [] => some []
  | f, b :: r =>
    match desG f b, desGs f r with
    | some w, some ws => some (w :: ws)
    | _, _ => none
end


mutual
/-- an `EncodedError` value as a byte-level message: the nested payload of a layer is the head of `hid` -/
def fullG : Enc → G
  | .leaf msg d hid cs => .leaf msg d (fullGo hid) (fullGL cs)
  | .wrap msg d mt hid c => .wrap msg d mt (fullGo hid) (fullG c)
def fullGo : List Enc → Option G
  | [] => none
  | e :: _ => some (fullG e)
def fullGL : List Enc → List G
  | [] => []
  | e :: r => fullG e :: fullGL r
end

mutual
/-- every payload, at any nesting level, is absent, a modelled flat message, or a nested message -/
def modelled : Enc → Bool
  | .leaf _ d hid cs => (if hid.isEmpty then (d.pay == .none || (payFields d.pay).isSome) else modelledL hid) && modelledL cs
  | .wrap _ d _ hid c => (if hid.isEmpty then (d.pay == .none || (payFields d.pay).isSome) else modelledL hid) && modelled c
def modelledL : List Enc → Bool
  | [] => true
  | e :: r => modelled e && modelledL r
end


/-! ### reading back -/

def NestOK (d : Det) : Option Bytes → Prop
  | some hb => hb.length < 2 ^ 64 ∧ (serAny (urlPrefix ++ encName) hb).length < 2 ^ 64 ∧ d.pay = .none
  | none => PayOK d.pay

def DetSmallG (d : Det) (nested : Option Bytes) : Prop :=
  d.origType.length < 2 ^ 64 ∧ d.mark.fam.length < 2 ^ 62 ∧ d.mark.ext.length < 2 ^ 62 ∧ (∀ s ∈ d.rep, s.length < 2 ^ 64) ∧
  (serItems (detItemsG d nested)).length < 2 ^ 64 ∧ NestOK d nested

theorem payName_ne_enc (p : Pay) (nf : Str × List Item) (h : payFields p = some nf) : nf.1 ≠ encName := by
  match p, h with
  | .str _, h | .strs _, h | .errno .., h | .mark .., h | .tags _, h | .http _, h | .grpc _, h | .testErr, h | .status _ _ 0, h =>
    simp only [payFields, Option.some.injEq] at h; subst h; simp only []; decide
  | .none, h | .raw .., h | .status _ _ (_ + 1), h => simp [payFields] at h

theorem detItemsG_ok (d : Det) (nested : Option Bytes) (h : DetSmallG d nested) : ∀ x ∈ detItemsG d nested, x.ok := by
  obtain ⟨h1, h2, h3, h4, _, h6⟩ := h
  intro x hx
  simp only [detItemsG, List.mem_append, List.mem_map, List.mem_singleton] at hx
  rcases hx with ((hx | hx) | ⟨s, hs, rfl⟩) | hx
  · exact optLd_ok 1 _ (by decide) (by decide) h1 x hx
  · subst hx; exact ⟨by decide, by decide, serMark_length_le d.mark h2 h3⟩
  · exact ⟨by decide, by decide, h4 s hs⟩
  · cases nested with
    | some hb =>
      simp at hx; subst hx
      exact ⟨by decide, by decide, h6.2.1⟩
    | none =>
      simp only [NestOK] at h6
      rcases h6 with hn | ⟨nf, hnf, _, _, _, hl⟩
      · simp [anyItems, hn, payFields] at hx
      · simp [anyItems, hnf] at hx; subst hx; exact ⟨by decide, by decide, hl⟩

theorem detOfBytesG_flat (rec : Bytes → Option G) (d : Det) (h : DetSmallG d none) :
    detOfBytesG rec (some (serItems (detItemsG d none))) = some (d, none) := by
  have hok := detItemsG_ok d none h
  obtain ⟨h1, h2, h3, h4, _, h6⟩ := h
  obtain ⟨r1, r2, r4, r3⟩ := core_reads d
  unfold detOfBytesG
  simp only [Option.getD_some, parse_own _ hok]
  simp only [NestOK] at h6
  rcases h6 with hn | ⟨nf, hnf, hps, hv, hu, _⟩
  · have : detItemsG d none = optLd 1 d.origType ++ [Item.ld 2 (serMark d.mark)] ++ d.rep.map (fun s => Item.ld 3 s) := by
      simp [detItemsG, anyItems, hn, payFields]
    rw [this, r1, r2, r4, r3, desMark_serMark d.mark (by omega) (by omega)]
    cases d; simp at hn; simp [hn]
  · have : detItemsG d none = (optLd 1 d.origType ++ [Item.ld 2 (serMark d.mark)] ++ d.rep.map (fun s => Item.ld 3 s)) ++
        [Item.ld 4 (serAny (urlPrefix ++ nf.1) (serItems nf.2))] := by
      simp [detItemsG, anyItems, hnf]
    rw [this]
    simp only [lastLd_snoc4, allLd_append, r1, r2, r3]
    simp only [show (1 : Nat) = 4 ↔ False by decide, show (2 : Nat) = 4 ↔ False by decide, if_false, if_true, r1, r2,
      desMark_serMark d.mark (by omega) (by omega), desAny_serAny _ _ hu hv, stripPrefix?_append,
      payName_ne_enc d.pay nf hnf, desPay_serPay d.pay nf.1 nf.2 (by rw [hnf]) hps]
    cases d; simp [allLd]

theorem detOfBytesG_nested (rec : Bytes → Option G) (d : Det) (hb : Bytes) (g : G) (h : DetSmallG d (some hb)) (hrec : rec hb = some g) :
    detOfBytesG rec (some (serItems (detItemsG d (some hb)))) = some (d, some g) := by
  have hok := detItemsG_ok d (some hb) h
  obtain ⟨h1, h2, h3, h4, _, h6⟩ := h
  obtain ⟨r1, r2, r4, r3⟩ := core_reads d
  unfold detOfBytesG
  simp only [Option.getD_some, parse_own _ hok]
  simp only [NestOK] at h6
  obtain ⟨hl, _, hp⟩ := h6
  have : detItemsG d (some hb) = (optLd 1 d.origType ++ [Item.ld 2 (serMark d.mark)] ++ d.rep.map (fun s => Item.ld 3 s)) ++
      [Item.ld 4 (serAny (urlPrefix ++ encName) hb)] := by
    simp [detItemsG]
  rw [this]
  simp only [lastLd_snoc4, allLd_append, r1, r2, r3]
  have hu : (urlPrefix ++ encName).length < 2 ^ 64 := by decide
  simp only [show (1 : Nat) = 4 ↔ False by decide, show (2 : Nat) = 4 ↔ False by decide, if_false, if_true, r1, r2,
    desMark_serMark d.mark (by omega) (by omega), desAny_serAny _ _ hu hl, stripPrefix?_append, hrec]
  cases d; simp at hp; simp [allLd, hp]


def leafItemsB (msg : Str) (db : Bytes) (kids : List Bytes) : List Item :=
  optLd 1 msg ++ [.ld 2 db] ++ kids.map (fun b => .ld 3 b)

def wrapItemsB (msg : Str) (db : Bytes) (mt : Nat) (kid : Bytes) : List Item :=
  [.ld 1 kid] ++ optLd 2 msg ++ [.ld 3 db] ++ optVi 4 mt

theorem leafItemsB_reads (msg : Str) (db : Bytes) (kids : List Bytes) :
    (lastLd (leafItemsB msg db kids) 1).getD [] = msg ∧ lastLd (leafItemsB msg db kids) 2 = some db ∧
    allLd (leafItemsB msg db kids) 3 = kids := by
  have h3 := allLd_mapk 3 (fun b : Bytes => b) kids
  refine ⟨?_, ?_, ?_⟩
  · simp only [leafItemsB]
    rw [lastLd_append_mapk 3 1 (by decide) (fun b : Bytes => b) kids]
    by_cases h : msg = [] <;> simp [lastLd, optLd, h]
  · simp only [leafItemsB]
    rw [lastLd_append_mapk 3 2 (by decide) (fun b : Bytes => b) kids]
    by_cases h : msg = [] <;> simp [lastLd, optLd, h]
  · simp only [leafItemsB]
    rw [allLd_append, h3]
    by_cases h : msg = [] <;> simp [allLd, optLd, h]

theorem wrapItemsB_reads (msg : Str) (db : Bytes) (mt : Nat) (kid : Bytes) :
    (lastLd (wrapItemsB msg db mt kid) 1).getD [] = kid ∧ (lastLd (wrapItemsB msg db mt kid) 2).getD [] = msg ∧
    lastLd (wrapItemsB msg db mt kid) 3 = some db ∧ lastVi (wrapItemsB msg db mt kid) 4 = mt := by
  by_cases h : msg = [] <;> by_cases hm : mt = 0 <;> simp [lastLd, lastVi, wrapItemsB, optLd, optVi, h, hm]

mutual
def heightG : G → Nat
  | .leaf _ _ hid cs => max (heightGo hid) (heightGL cs) + 1
  | .wrap _ _ _ hid c => max (heightGo hid) (heightG c) + 1
def heightGo : Option G → Nat
  | none => 0
  | some g => heightG g
def heightGL : List G → Nat
  | [] => 0
  | w :: r => max (heightG w) (heightGL r)
end

mutual
/-- every length that is written as a prefix fits 64 bits, and every payload is modelled -/
def SmallG : G → Prop
  | .leaf msg d hid cs => msg.length < 2 ^ 64 ∧ DetSmallG d (serGo hid) ∧
      (serItems (leafItemsB msg (serItems (detItemsG d (serGo hid))) (serGs cs))).length < 2 ^ 64 ∧ SmallGo hid ∧ SmallGs cs
  | .wrap msg d mt hid c => msg.length < 2 ^ 64 ∧ DetSmallG d (serGo hid) ∧ mt < 2 ^ 64 ∧
      (serItems (wrapItemsB msg (serItems (detItemsG d (serGo hid))) mt (serG c))).length < 2 ^ 64 ∧
      (serG c).length < 2 ^ 64 ∧ SmallGo hid ∧ SmallG c
def SmallGo : Option G → Prop
  | none => True
  | some g => SmallG g
def SmallGs : List G → Prop
  | [] => True
  | w :: r => (serG w).length < 2 ^ 64 ∧ SmallG w ∧ SmallGs r
end

theorem serG_leaf (msg : Str) (d : Det) (hid : Option G) (cs : List G) :
    serG (.leaf msg d hid cs) = lenField 1 (serItems (leafItemsB msg (serItems (detItemsG d (serGo hid))) (serGs cs))) := by
  simp [serG, leafItemsB]

theorem serG_wrap (msg : Str) (d : Det) (mt : Nat) (hid : Option G) (c : G) :
    serG (.wrap msg d mt hid c) = lenField 2 (serItems (wrapItemsB msg (serItems (detItemsG d (serGo hid))) mt (serG c))) := by
  simp [serG, wrapItemsB]

theorem leafItemsB_ok (msg : Str) (db : Bytes) (cs : List G) (hm : msg.length < 2 ^ 64) (hd : db.length < 2 ^ 64) (hcs : SmallGs cs) :
    ∀ x ∈ leafItemsB msg db (serGs cs), x.ok := by
  intro x hx
  simp only [leafItemsB, List.mem_append, List.mem_map, List.mem_singleton, optLd] at hx
  rcases hx with (hx | hx) | ⟨b, hb, hx⟩
  · split at hx <;> simp at hx; subst hx; exact ⟨by decide, by decide, hm⟩
  · subst hx; exact ⟨by decide, by decide, hd⟩
  · subst hx
    refine ⟨by decide, by decide, ?_⟩
    clear hm hd
    induction cs with
    | nil => simp [serGs] at hb
    | cons w r ih =>
      simp only [serGs, List.mem_cons] at hb
      simp only [SmallGs] at hcs
      rcases hb with rfl | hb
      · exact hcs.1
      · exact ih hcs.2.2 hb

theorem wrapItemsB_ok (msg : Str) (db : Bytes) (mt : Nat) (kid : Bytes) (hm : msg.length < 2 ^ 64) (hd : db.length < 2 ^ 64)
    (hmt : mt < 2 ^ 64) (hk : kid.length < 2 ^ 64) : ∀ x ∈ wrapItemsB msg db mt kid, x.ok := by
  intro x hx
  simp only [wrapItemsB, List.mem_append, List.mem_singleton, optLd, optVi] at hx
  rcases hx with ((hx | hx) | hx) | hx
  · subst hx; exact ⟨by decide, by decide, hk⟩
  · split at hx <;> simp at hx; subst hx; exact ⟨by decide, by decide, hm⟩
  · subst hx; exact ⟨by decide, by decide, hd⟩
  · split at hx <;> simp at hx; subst hx; exact ⟨by decide, by decide, hmt⟩

mutual
/-- the complete message, nested payload messages included: the generated reader gives back the
    message the generated writer was given -/
theorem desG_serG : (w : G) → (f : Nat) → heightG w ≤ f → SmallG w → desG f (serG w) = some w
  | .leaf msg d hid cs, 0, hf, _ => by simp [heightG] at hf
  | .leaf msg d hid cs, f + 1, hf, hs => by
    simp only [SmallG] at hs
    obtain ⟨hm, hd, hbody, hhid, hcs⟩ := hs
    simp only [heightG] at hf
    have hkids := desGs_serGs cs f (by omega) hcs
    have hdet := detG_ser d hid f (by omega) hd hhid
    have hxs := parse_own (leafItemsB msg (serItems (detItemsG d (serGo hid))) (serGs cs))
      (leafItemsB_ok msg _ cs hm hd.2.2.2.2.1 hcs)
    obtain ⟨r1, r2, r3⟩ := leafItemsB_reads msg (serItems (detItemsG d (serGo hid))) (serGs cs)
    rw [serG_leaf]
    simp only [desG, top_parse 1 (by decide) (by decide) _ hbody]
    simp [lastOneof, hxs, r1, r2, r3, hdet, hkids]
  | .wrap msg d mt hid c, 0, hf, _ => by simp [heightG] at hf
  | .wrap msg d mt hid c, f + 1, hf, hs => by
    simp only [SmallG] at hs
    obtain ⟨hm, hd, hmt, hbody, hk, hhid, hc⟩ := hs
    simp only [heightG] at hf
    have hkid := desG_serG c f (by omega) hc
    have hdet := detG_ser d hid f (by omega) hd hhid
    have hxs := parse_own (wrapItemsB msg (serItems (detItemsG d (serGo hid))) mt (serG c))
      (wrapItemsB_ok msg _ mt (serG c) hm hd.2.2.2.2.1 hmt hk)
    obtain ⟨r1, r2, r3, r4⟩ := wrapItemsB_reads msg (serItems (detItemsG d (serGo hid))) mt (serG c)
    rw [serG_wrap]
    simp only [desG, top_parse 2 (by decide) (by decide) _ hbody]
    simp [lastOneof, hxs, r1, r2, r3, r4, hdet, hkid]
theorem detG_ser : (d : Det) → (hid : Option G) → (f : Nat) → heightGo hid ≤ f → DetSmallG d (serGo hid) → SmallGo hid →
    detOfBytesG (desG f) (some (serItems (detItemsG d (serGo hid)))) = some (d, hid)
  | d, none, f, _, hd, _ => detOfBytesG_flat (desG f) d hd
  | d, some g, f, hf, hd, hs => by
    have := desG_serG g f (by simpa [heightGo] using hf) (by simpa [SmallGo] using hs)
    exact detOfBytesG_nested (desG f) d (serG g) g hd this
theorem desGs_serGs : (ws : List G) → (f : Nat) → heightGL ws ≤ f → SmallGs ws → desGs f (serGs ws) = some ws
  | [], f, _, _ => by simp [serGs, desGs]
  | w :: r, f, hf, hs => by
    simp only [SmallGs] at hs
    simp only [heightGL] at hf
    have h1 := desG_serG w f (by omega) hs.2.1
    have h2 := desGs_serGs r f (by omega) hs.2.2
    simp [serGs, desGs, h1, h2]
end

end ErrModel.Proto
