import ErrModel.Proto
set_option linter.unusedSimpArgs false
/-
  The protobuf encoding of a whole `errorspb.EncodedError` without `full_details` payloads:
  the oneof, `EncodedErrorLeaf` (message, details, multierror_causes), `EncodedWrapper` (cause,
  message, details, message_type), recursively.
-/
namespace ErrModel.Proto

/-- one field on the wire: length-delimited (wire type 2) or varint (wire type 0) -/
inductive Item
  | ld (fno : Nat) (p : Bytes)
  | vi (fno : Nat) (v : Nat)
  deriving Repr, DecidableEq

def Item.ser : Item → Bytes
  | .ld fno p => lenField fno p
  | .vi fno v => UInt8.ofNat (fno * 8) :: varint v

def serItems : List Item → Bytes
  | [] => []
  | x :: r => x.ser ++ serItems r

/-- the field loop of the generated `Unmarshal` for wire types 0 and 2 -/
def parseItems : Nat → Bytes → Option (List Item)
  | _, [] => some []
  | 0, _ :: _ => none
  | f + 1, tag :: r =>
    if tag.toNat % 8 = 2 then
      match readVarint 10 r with
      | none => none
      | some (len, r') =>
        if r'.length < len then none
        else match parseItems f (r'.drop len) with
          | none => none
          | some fs => some (.ld (tag.toNat / 8) (r'.take len) :: fs)
    else if tag.toNat % 8 = 0 then
      match readVarint 10 r with
      | none => none
      | some (v, r') =>
        match parseItems f r' with
        | none => none
        | some fs => some (.vi (tag.toNat / 8) v :: fs)
    else none

def Item.ok : Item → Prop
  | .ld fno p => 1 ≤ fno ∧ fno < 16 ∧ p.length < 2 ^ 64
  | .vi fno v => 1 ≤ fno ∧ fno < 16 ∧ v < 2 ^ 64

theorem parseItems_serItems : ∀ (xs : List Item) (f : Nat), (∀ x ∈ xs, x.ok) → xs.length ≤ f →
    parseItems f (serItems xs) = some xs
  | [], f, _, _ => by cases f <;> simp [serItems, parseItems]
  | x :: r, 0, _, hf => by simp at hf
  | .ld fno p :: r, f + 1, hok, hf => by
    have h1 : (Item.ld fno p).ok := hok _ (List.mem_cons_self ..)
    have hr : ∀ x ∈ r, x.ok := fun x hx => hok x (List.mem_cons_of_mem _ hx)
    simp only [Item.ok] at h1
    have htag : (UInt8.ofNat (fno * 8 + 2)).toNat = fno * 8 + 2 := by
      simp [UInt8.toNat_ofNat']; omega
    have hrv := readVarint_varint p.length 10 (p ++ serItems r) (varint_length_u64 _ h1.2.2)
    have ih := parseItems_serItems r f hr (by simp at hf; omega)
    simp only [serItems, Item.ser, lenField, List.cons_append, List.append_assoc, parseItems, htag]
    have hm : (fno * 8 + 2) % 8 = 2 := by omega
    have hd : (fno * 8 + 2) / 8 = fno := by omega
    simp [hm, hd, hrv, ih]
  | .vi fno v :: r, f + 1, hok, hf => by
    have h1 : (Item.vi fno v).ok := hok _ (List.mem_cons_self ..)
    have hr : ∀ x ∈ r, x.ok := fun x hx => hok x (List.mem_cons_of_mem _ hx)
    simp only [Item.ok] at h1
    have htag : (UInt8.ofNat (fno * 8)).toNat = fno * 8 := by
      simp [UInt8.toNat_ofNat']; omega
    have hrv := readVarint_varint v 10 (serItems r) (varint_length_u64 _ h1.2.2)
    have ih := parseItems_serItems r f hr (by simp at hf; omega)
    simp only [serItems, Item.ser, List.cons_append, parseItems, htag]
    have hm : (fno * 8) % 8 = 0 := by omega
    have hd : (fno * 8) / 8 = fno := by omega
    simp [hm, hd, hrv, ih]


/-- an `EncodedError` without `full_details` payloads -/
inductive W
  | leaf (msg : Str) (d : Det) (cs : List W)
  | wrap (msg : Str) (d : Det) (mt : Nat) (c : W)
  deriving Repr, Inhabited

mutual
/-- forget the payloads (and what they hide) -/
def core : Enc → W
  | .leaf msg d _ cs => .leaf msg { d with pay := .none } (coreL cs)
  | .wrap msg d mt _ c => .wrap msg { d with pay := .none } mt (core c)
def coreL : List Enc → List W
  | [] => []
  | e :: r => core e :: coreL r
end

def optLd (fno : Nat) (s : Str) : List Item := if s = [] then [] else [.ld fno s]
def optVi (fno : Nat) (v : Nat) : List Item := if v = 0 then [] else [.vi fno v]

def leafItems (msg : Str) (d : Det) (kids : List Bytes) : List Item :=
  optLd 1 msg ++ [.ld 2 (serDet d)] ++ kids.map (fun b => .ld 3 b)

def wrapItems (msg : Str) (d : Det) (mt : Nat) (kid : Bytes) : List Item :=
  [.ld 1 kid] ++ optLd 2 msg ++ [.ld 3 (serDet d)] ++ optVi 4 mt

mutual
/-- `(*EncodedError).Marshal` (payloads cleared) -/
def serW : W → Bytes
  | .leaf msg d cs => lenField 1 (serItems (leafItems msg d (serWs cs)))
  | .wrap msg d mt c => lenField 2 (serItems (wrapItems msg d mt (serW c)))
def serWs : List W → List Bytes
  | [] => []
  | w :: r => serW w :: serWs r
end

def lastLd (xs : List Item) (n : Nat) : Option Bytes :=
  xs.foldl (fun acc x => match x with | .ld fno p => if fno = n then some p else acc | _ => acc) none

def lastVi (xs : List Item) (n : Nat) : Nat :=
  xs.foldl (fun acc x => match x with | .vi fno v => if fno = n then v else acc | _ => acc) 0

def allLd (xs : List Item) (n : Nat) : List Bytes :=
  xs.filterMap (fun x => match x with | .ld fno p => if fno = n then some p else none | _ => none)

/-- which member of the oneof was written last -/
def lastOneof (xs : List Item) : Option (Bool × Bytes) :=
  xs.foldl (fun acc x => match x with
    | .ld fno p => if fno = 1 then some (true, p) else if fno = 2 then some (false, p) else acc
    | _ => acc) none

def detOfBytes (b : Option Bytes) : Option Det :=
  match desDet (b.getD []) with
  | none => none
  | some (ot, mk, rep) => some ⟨ot, mk, rep, .none⟩

mutual
/-- `(*EncodedError).Unmarshal` (payloads ignored); `none` = the reader returns an error, or no
    member of the oneof is set -/
def desW : Nat → Bytes → Option W
  | 0, _ => none
  | f + 1, b =>
    match parseItems b.length b with
    | none => none
    | some top =>
      match lastOneof top with
      | none => none
      | some (true, body) =>
        match parseItems body.length body with
        | none => none
        | some xs =>
          match detOfBytes (lastLd xs 2), desWs f (allLd xs 3) with
          | some d, some cs => some (.leaf ((lastLd xs 1).getD []) d cs)
          | _, _ => none
      | some (false, body) =>
        match parseItems body.length body with
        | none => none
        | some xs =>
          match detOfBytes (lastLd xs 3), desW f ((lastLd xs 1).getD []) with
          | some d, some c => some (.wrap ((lastLd xs 2).getD []) d (lastVi xs 4) c)
          | _, _ => none
def desWs : Nat → List Bytes → Option (List W)
  | _, [] => some []
  | f, b :: r =>
    match desW f b, desWs f r with
    | some w, some ws => some (w :: ws)
    | _, _ => none
end


/-! ### reading back what was written -/

theorem length_le_serItems : ∀ xs : List Item, xs.length ≤ (serItems xs).length
  | [] => by simp [serItems]
  | x :: r => by
    have := length_le_serItems r
    cases x <;> simp only [serItems, Item.ser, lenField, List.length_cons, List.length_append] <;> omega

theorem lastLd_foldl_map3 (kids : List Bytes) (n : Nat) (hn : n ≠ 3) (acc : Option Bytes) :
    (kids.map (fun b => Item.ld 3 b)).foldl (fun acc x => match x with | .ld fno p => if fno = n then some p else acc | _ => acc) acc = acc := by
  induction kids generalizing acc with
  | nil => rfl
  | cons a r ih => simp [List.foldl, Ne.symm hn, ih]

theorem allLd_map3 (kids : List Bytes) : allLd (kids.map (fun b => Item.ld 3 b)) 3 = kids := by
  induction kids with
  | nil => rfl
  | cons a r ih => simp [allLd] at ih ⊢; exact ih

theorem lastLd_leafItems_1 (msg : Str) (d : Det) (kids : List Bytes) : (lastLd (leafItems msg d kids) 1).getD [] = msg := by
  by_cases h : msg = [] <;> simp [lastLd, leafItems, optLd, h, List.foldl_append, lastLd_foldl_map3 kids 1 (by decide)]

theorem lastLd_leafItems_2 (msg : Str) (d : Det) (kids : List Bytes) : lastLd (leafItems msg d kids) 2 = some (serDet d) := by
  by_cases h : msg = [] <;> simp [lastLd, leafItems, optLd, h, List.foldl_append, lastLd_foldl_map3 kids 2 (by decide)]

theorem allLd_leafItems (msg : Str) (d : Det) (kids : List Bytes) : allLd (leafItems msg d kids) 3 = kids := by
  have := allLd_map3 kids
  by_cases h : msg = [] <;> simp [allLd, leafItems, optLd, h, List.filterMap_append] at this ⊢ <;> exact this

theorem wrapItems_reads (msg : Str) (d : Det) (mt : Nat) (kid : Bytes) :
    (lastLd (wrapItems msg d mt kid) 1).getD [] = kid ∧ (lastLd (wrapItems msg d mt kid) 2).getD [] = msg ∧
    lastLd (wrapItems msg d mt kid) 3 = some (serDet d) ∧ lastVi (wrapItems msg d mt kid) 4 = mt := by
  by_cases h : msg = [] <;> by_cases hm : mt = 0 <;> simp [lastLd, lastVi, wrapItems, optLd, optVi, h, hm]

def DetSmall (d : Det) : Prop :=
  d.origType.length < 2 ^ 64 ∧ d.mark.fam.length < 2 ^ 62 ∧ d.mark.ext.length < 2 ^ 62 ∧ (∀ s ∈ d.rep, s.length < 2 ^ 64) ∧
  (serDet d).length < 2 ^ 64 ∧ d.pay = .none

theorem detOfBytes_serDet (d : Det) (h : DetSmall d) : detOfBytes (some (serDet d)) = some d := by
  obtain ⟨h1, h2, h3, h4, _, h6⟩ := h
  simp only [detOfBytes, Option.getD_some, desDet_serDet d h1 h2 h3 h4]
  cases d; simp at h6; simp [h6]

mutual
/-- every length that is written as a prefix fits 64 bits (and there are no payloads) -/
def SmallW : W → Prop
  | .leaf msg d cs => msg.length < 2 ^ 64 ∧ DetSmall d ∧ (serItems (leafItems msg d (serWs cs))).length < 2 ^ 64 ∧ SmallWs cs
  | .wrap msg d mt c => msg.length < 2 ^ 64 ∧ DetSmall d ∧ mt < 2 ^ 64 ∧ (serItems (wrapItems msg d mt (serW c))).length < 2 ^ 64 ∧
      (serW c).length < 2 ^ 64 ∧ SmallW c
def SmallWs : List W → Prop
  | [] => True
  | w :: r => (serW w).length < 2 ^ 64 ∧ SmallW w ∧ SmallWs r
end

mutual
def height : W → Nat
  | .leaf _ _ cs => heightL cs + 1
  | .wrap _ _ _ c => height c + 1
def heightL : List W → Nat
  | [] => 0
  | w :: r => max (height w) (heightL r)
end

theorem top_parse (fno : Nat) (h1 : 1 ≤ fno) (h2 : fno < 16) (body : Bytes) (hb : body.length < 2 ^ 64) :
    parseItems (lenField fno body).length (lenField fno body) = some [.ld fno body] := by
  have := parseItems_serItems [.ld fno body] (lenField fno body).length
    (by intro x hx; simp at hx; subst hx; exact ⟨h1, h2, hb⟩) (by simp [lenField])
  simpa [serItems, Item.ser] using this


theorem leafItems_ok (msg : Str) (d : Det) (cs : List W) (hm : msg.length < 2 ^ 64) (hd : DetSmall d) (hcs : SmallWs cs) :
    ∀ x ∈ leafItems msg d (serWs cs), x.ok := by
  intro x hx
  simp only [leafItems, List.mem_append, List.mem_map, List.mem_singleton, optLd] at hx
  rcases hx with (hx | hx) | ⟨b, hb, hx⟩
  · split at hx <;> simp at hx; subst hx; exact ⟨by decide, by decide, hm⟩
  · subst hx; exact ⟨by decide, by decide, hd.2.2.2.2.1⟩
  · subst hx
    refine ⟨by decide, by decide, ?_⟩
    clear hm hd
    induction cs with
    | nil => simp [serWs] at hb
    | cons w r ih =>
      simp only [serWs, List.mem_cons] at hb
      simp only [SmallWs] at hcs
      rcases hb with rfl | hb
      · exact hcs.1
      · exact ih hcs.2.2 hb

theorem wrapItems_ok (msg : Str) (d : Det) (mt : Nat) (kid : Bytes) (hm : msg.length < 2 ^ 64) (hd : DetSmall d)
    (hmt : mt < 2 ^ 64) (hk : kid.length < 2 ^ 64) : ∀ x ∈ wrapItems msg d mt kid, x.ok := by
  intro x hx
  simp only [wrapItems, List.mem_append, List.mem_singleton, optLd, optVi] at hx
  rcases hx with ((hx | hx) | hx) | hx
  · subst hx; exact ⟨by decide, by decide, hk⟩
  · split at hx <;> simp at hx; subst hx; exact ⟨by decide, by decide, hm⟩
  · subst hx; exact ⟨by decide, by decide, hd.2.2.2.2.1⟩
  · split at hx <;> simp at hx; subst hx; exact ⟨by decide, by decide, hmt⟩

mutual
/-- what the generated reader makes of what the generated writer wrote: the same message -/
theorem desW_serW : (w : W) → (f : Nat) → height w ≤ f → SmallW w → desW f (serW w) = some w
  | .leaf msg d cs, 0, hf, _ => by simp [height] at hf
  | .leaf msg d cs, f + 1, hf, hs => by
    simp only [SmallW] at hs
    obtain ⟨hm, hd, hbody, hcs⟩ := hs
    have hkids := desWs_serWs cs f (by simp [height] at hf; exact hf) hcs
    have hxs := parseItems_serItems (leafItems msg d (serWs cs)) (serItems (leafItems msg d (serWs cs))).length
      (leafItems_ok msg d cs hm hd hcs) (length_le_serItems _)
    simp only [serW, desW, top_parse 1 (by decide) (by decide) _ hbody]
    simp [lastOneof, hxs, lastLd_leafItems_2, detOfBytes_serDet d hd, allLd_leafItems, hkids, lastLd_leafItems_1]
  | .wrap msg d mt c, 0, hf, _ => by simp [height] at hf
  | .wrap msg d mt c, f + 1, hf, hs => by
    simp only [SmallW] at hs
    obtain ⟨hm, hd, hmt, hbody, hk, hc⟩ := hs
    have hkid := desW_serW c f (by simp [height] at hf; exact hf) hc
    have hxs := parseItems_serItems (wrapItems msg d mt (serW c)) (serItems (wrapItems msg d mt (serW c))).length
      (wrapItems_ok msg d mt (serW c) hm hd hmt hk) (length_le_serItems _)
    obtain ⟨r1, r2, r3, r4⟩ := wrapItems_reads msg d mt (serW c)
    simp only [serW, desW, top_parse 2 (by decide) (by decide) _ hbody]
    simp [lastOneof, hxs, r1, r2, r3, r4, detOfBytes_serDet d hd, hkid]
theorem desWs_serWs : (ws : List W) → (f : Nat) → heightL ws ≤ f → SmallWs ws → desWs f (serWs ws) = some ws
  | [], f, _, _ => by simp [serWs, desWs]
  | w :: r, f, hf, hs => by
    simp only [SmallWs] at hs
    simp only [heightL] at hf
    have h1 := desW_serW w f (by omega) hs.2.1
    have h2 := desWs_serWs r f (by omega) hs.2.2
    simp [serWs, desWs, h1, h2]
end

end ErrModel.Proto
