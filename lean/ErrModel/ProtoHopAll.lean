import ErrModel.ProtoNest
import ErrModel.Transport
set_option linter.unusedSimpArgs false
/-
  A network hop through actual bytes for every `EncodedError` value whose payloads are modelled
  (flat payload messages and nested EncodedError messages): everything but gRPC status payloads.
-/
namespace ErrModel.Proto

mutual
def unfullG : G → Enc
  | .leaf msg d hid cs => .leaf msg d (unfullGo hid) (unfullGL cs)
  | .wrap msg d mt hid c => .wrap msg d mt (unfullGo hid) (unfullG c)
def unfullGo : Option G → List Enc
  | none => []
  | some g => [unfullG g]
def unfullGL : List G → List Enc
  | [] => []
  | w :: r => unfullG w :: unfullGL r
end

mutual
/-- a layer carries at most one nested message (what EncodeError produces) -/
def oneHid : Enc → Bool
  | .leaf _ _ hid cs => oneHidH hid && oneHidL cs
  | .wrap _ _ _ hid c => oneHidH hid && oneHid c
def oneHidH : List Enc → Bool
  | [] => true
  | [e] => oneHid e
  | _ :: _ :: _ => false
def oneHidL : List Enc → Bool
  | [] => true
  | e :: r => oneHid e && oneHidL r
end

mutual
theorem unfullG_fullG : (w : Enc) → oneHid w = true → unfullG (fullG w) = w
  | .leaf msg d hid cs, h => by
    simp only [oneHid, Bool.and_eq_true] at h
    simp [fullG, unfullG, unfullGo_fullGo hid h.1, unfullGL_fullGL cs h.2]
  | .wrap msg d mt hid c, h => by
    simp only [oneHid, Bool.and_eq_true] at h
    simp [fullG, unfullG, unfullGo_fullGo hid h.1, unfullG_fullG c h.2]
theorem unfullGo_fullGo : (hid : List Enc) → oneHidH hid = true → unfullGo (fullGo hid) = hid
  | [], _ => rfl
  | [e], h => by
    simp only [oneHidH] at h
    simp [fullGo, unfullGo, unfullG_fullG e h]
  | _ :: _ :: _, h => by simp [oneHidH] at h
theorem unfullGL_fullGL : (l : List Enc) → oneHidL l = true → unfullGL (fullGL l) = l
  | [], _ => rfl
  | e :: r, h => by
    simp only [oneHidL, Bool.and_eq_true] at h
    simp [fullGL, unfullGL, unfullG_fullG e h.1, unfullGL_fullGL r h.2]
end

/-- Marshal then Unmarshal of an `EncodedError` value, at byte level, nested payload messages included -/
def throughBytesG (w : Enc) : Option Enc := (desG (heightG (fullG w)) (serG (fullG w))).map unfullG

theorem throughBytesG_id (w : Enc) (hn : oneHid w = true) (hs : SmallG (fullG w)) : throughBytesG w = some w := by
  simp [throughBytesG, desG_serG (fullG w) _ (Nat.le_refl _) hs, unfullG_fullG w hn]

/-- a hop through actual bytes is the hop of the transport model -/
theorem hop_through_bytes_all (P Q : Proc) (vf : Err → Str) (tag : Nat) (e : Err)
    (hn : oneHid (encode P vf e) = true) (hs : SmallG (fullG (encode P vf e))) :
    (throughBytesG (encode P vf e)).bind (decode Q [tag]) = hop P Q vf tag e := by
  simp [throughBytesG_id _ hn hs, hop]

end ErrModel.Proto
