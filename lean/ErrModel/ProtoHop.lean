import ErrModel.ProtoFull
import ErrModel.Transport
/-
  A network hop through actual bytes: EncodeError, Marshal, Unmarshal, DecodeError.
-/
namespace ErrModel.Proto

mutual
/-- the `EncodedError` value a byte-level message stands for (no nested payload messages) -/
def unfull : F → Enc
  | .leaf msg d cs => .leaf msg d [] (unfullL cs)
  | .wrap msg d mt c => .wrap msg d mt [] (unfull c)
def unfullL : List F → List Enc
  | [] => []
  | w :: r => unfull w :: unfullL r
end

mutual
/-- no layer carries a nested EncodedError as its payload -/
def noNested : Enc → Bool
  | .leaf _ _ hid cs => hid.isEmpty && noNestedL cs
  | .wrap _ _ _ hid c => hid.isEmpty && noNested c
def noNestedL : List Enc → Bool
  | [] => true
  | e :: r => noNested e && noNestedL r
end

mutual
theorem unfull_full : (w : Enc) → noNested w = true → unfull (full w) = w
  | .leaf msg d hid cs, h => by
    simp only [noNested, Bool.and_eq_true, List.isEmpty_iff] at h
    simp [full, unfull, h.1, unfullL_fullL cs h.2]
  | .wrap msg d mt hid c, h => by
    simp only [noNested, Bool.and_eq_true, List.isEmpty_iff] at h
    simp [full, unfull, h.1, unfull_full c h.2]
theorem unfullL_fullL : (l : List Enc) → noNestedL l = true → unfullL (fullL l) = l
  | [], _ => rfl
  | e :: r, h => by
    simp only [noNestedL, Bool.and_eq_true] at h
    simp [fullL, unfullL, unfull_full e h.1, unfullL_fullL r h.2]
end

/-- Marshal then Unmarshal of an `EncodedError` value, at byte level -/
def throughBytes (w : Enc) : Option Enc := (desF (heightF (full w)) (serF (full w))).map unfull

/-- the bytes carry the message faithfully … -/
theorem throughBytes_id (w : Enc) (hn : noNested w = true) (hs : SmallF (full w)) : throughBytes w = some w := by
  simp [throughBytes, desF_serF (full w) _ (Nat.le_refl _) hs, unfull_full w hn]

/-- … so a hop through actual bytes (EncodeError, Marshal, Unmarshal, DecodeError) is the hop of the
    transport model, to which the theorems of C01, C02, C04, C11 and C13 apply -/
theorem hop_through_bytes (P Q : Proc) (vf : Err → Str) (tag : Nat) (e : Err)
    (hn : noNested (encode P vf e) = true) (hs : SmallF (full (encode P vf e))) :
    (throughBytes (encode P vf e)).bind (decode Q [tag]) = hop P Q vf tag e := by
  simp [throughBytes_id _ hn hs, hop]

end ErrModel.Proto
