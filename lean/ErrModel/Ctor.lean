import ErrModel.Transport
/-
  The public constructor API as model functions.  `none` = Go nil.
  Strings that the real constructors compute through `redact`/`fmt` from a
  format and non-error arguments are inputs here (`rs`), as are captured stacks.
  Identities: an API call with base identity `n` creates layers `[n,0]`, `[n,1]`, ….
-/
namespace ErrModel

def lid (n j : Nat) : Ident := [n, j]

/-- errors.New / Newf without error arguments: withStack(leafError) -/
def cNew (n : Nat) (rs : RStr) (st : Stack) : Option Err :=
  some (.wrap (lid n 0) (.withStack st) (.leaf (lid n 1) (.leafError rs)))

/-- errutil.WithMessage / WithMessagef -/
def cWithMessage (n : Nat) (rs : RStr) : Option Err → Option Err
  | none => none
  | some e => some (.wrap (lid n 0) (.withPrefix rs) e)

/-- withstack.WithStack -/
def cWithStack (n : Nat) (st : Stack) : Option Err → Option Err
  | none => none
  | some e => some (.wrap (lid n 0) (.withStack st) e)

/-- errors.Wrap(err, msg) / Wrapf: `hasMsg` = (msg != "") resp. (format != "" || len(args) > 0) -/
def cWrap (n : Nat) (hasMsg : Bool) (rs : RStr) (st : Stack) : Option Err → Option Err
  | none => none
  | some e =>
    if hasMsg then some (.wrap (lid n 0) (.withStack st) (.wrap (lid n 1) (.withPrefix rs) e))
    else some (.wrap (lid n 0) (.withStack st) e)

def cAnnot (n : Nat) (k : WrapKind) : Option Err → Option Err
  | none => none
  | some e => some (.wrap (lid n 0) k e)

def cWithSecondary (n : Nat) (e s : Option Err) : Option Err :=
  match e, s with
  | some e, some s => some (.second (lid n 0) e s)
  | e, _ => e

def cCombine (n : Nat) (e s : Option Err) : Option Err :=
  match e with
  | none => s
  | some _ => cWithSecondary n e s

/-- markers.Mark(err, reference) evaluated at process `P`.  A nil reference makes `getMark` panic. -/
def cMark (P : Proc) (n : Nat) (e r : Option Err) : Option (Option Err) :=
  match e with
  | none => some none
  | some e =>
    match r with
    | none => none
    | some r => let m := getMark P r; some (some (.wrap (lid n 0) (.withMark m.msg m.tys) e))

/-- barriers.Handled / HandledWithMessage(f): `rs` is the redactable message. -/
def cHandled (n : Nat) (rs : RStr) : Option Err → Option Err
  | none => none
  | some e => some (.barrier (lid n 0) ⟨rs, none⟩ e)

/-- domains.HandledInDomain / HandledInDomainWithMessage: WithDomain(barriers.Handled…(err), domain) -/
def cHandledInDomain (n : Nat) (dom : Str) (rs : RStr) (e : Option Err) : Option Err :=
  cAnnot (n + 1) (.withDomain dom) (cHandled n rs e)

/-- attach `secondary.WithSecondaryError(err, e)` for each error argument, in order -/
def addSecondaries (n : Nat) (j : Nat) (e : Err) : List Err → Err
  | [] => e
  | s :: r => addSecondaries n (j + 1) (.second (lid n j) e s) r

/-- errors.Newf with error arguments but no `%w` -/
def cNewfE (n : Nat) (rs : RStr) (st : Stack) (errArgs : List Err) : Option Err :=
  some (.wrap (lid n 0) (.withStack st) (addSecondaries n 2 (.leaf (lid n 1) (.leafError rs)) errArgs))

/-- errors.Newf with a `%w` argument `w` (all error arguments, including `w`, become secondaries) -/
def cNewfW (n : Nat) (rs : RStr) (st : Stack) (w : Err) (errArgs : List Err) : Option Err :=
  some (.wrap (lid n 0) (.withStack st) (addSecondaries n 2 (.wrap (lid n 1) (.withNewMessage rs) w) errArgs))

/-- errors.Wrapf with error arguments -/
def cWrapfE (n : Nat) (rs : RStr) (st : Stack) (errArgs : List Err) : Option Err → Option Err
  | none => none
  | some e => some (.wrap (lid n 0) (.withStack st) (addSecondaries n 2 (.wrap (lid n 1) (.withPrefix rs) e) errArgs))

def dropNils : List (Option Err) → List Err
  | [] => []
  | none :: r => dropNils r
  | some e :: r => e :: dropNils r

/-- join.Join -/
def cJoinRaw (n : Nat) (es : List (Option Err)) : Option Err :=
  match dropNils es with
  | [] => none
  | l => some (.multi (lid n 1) .join l)

/-- errors.Join = withstack.WithStackDepth(join.Join(errs...)) -/
def cJoin (n : Nat) (st : Stack) (es : List (Option Err)) : Option Err :=
  cWithStack n st (cJoinRaw n es)

/-- the standard library's errors.Join -/
def cStdJoin (n : Nat) (es : List (Option Err)) : Option Err :=
  match dropNils es with
  | [] => none
  | l => some (.multi (lid n 0) .stdJoin l)

/-- contexttags.WithContextTags: no tags in the context = unchanged.  `tags` are the keys
    with the string form of their values; `kinds` says whether a value is a plain string
    (unsafe), a Safe value or nil. -/
def cTags (n : Nat) (tags : List (Str × Str)) (kinds : List Nat) : Option Err → Option Err
  | none => none
  | some e => if tags = [] then some e
    else some (.wrap (lid n 0) (.withContext tags kinds none) e)

/-- errutil.AssertionFailedf (no error args) -/
def cAssertionFailedf (n : Nat) (rs : RStr) (st : Stack) : Option Err :=
  cAnnot (n + 1) .withAssertionFailure (cNew n rs st)

/-- errutil.HandleAsAssertionFailure: rs = redact.Sprint(origErr) -/
def cHandleAsAssertionFailure (n : Nat) (rs : RStr) (st : Stack) (e : Option Err) : Option Err :=
  cAnnot (n + 2) .withAssertionFailure (cWithStack (n + 1) st (cHandled n rs e))

/-- errutil.NewAssertionErrorWithWrappedErrf (no error args in the format) -/
def cNewAssertionErrorWithWrappedErrf (n : Nat) (rsHandled : RStr) (hasMsg : Bool) (rs : RStr) (st : Stack)
    (e : Option Err) : Option Err :=
  cAnnot (n + 2) .withAssertionFailure (cWrap (n + 1) hasMsg rs st (cHandled n rsHandled e))

end ErrModel
