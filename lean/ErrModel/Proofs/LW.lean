import ErrModel.Basic.RedactT
/-
  Line-level well-formedness of redactable token strings, and the redact contract lemmas:
  `EscapeBytes` and `Sprintf` (as modelled in Basic/RedactT.lean) produce well-formed strings.

  `lw st t` scans `t` from the state `st` ("inside a pair of markers?"): an open marker is only
  legal outside, a close marker only inside, a newline only outside, and a byte labelled UNSAFE
  (`Tok.u`) only inside.  `LW t`: starts and ends outside.  This is "markers balanced, never
  nested, balanced within every line" (C06) together with "what was written from an unsafe
  source is enclosed" (C03).
-/
namespace ErrModel

def lw : Bool → Toks → Option Bool
  | st, [] => some st
  | st, .op :: r => if st then none else lw true r
  | st, .cl :: r => if st then lw false r else none
  | st, .b c :: r => if c = nl && st then none else lw st r
  | st, .u c :: r => if st && c ≠ nl then lw st r else none   -- an unsafe byte is only legal inside

def LW (t : Toks) : Prop := lw false t = some false

theorem lw_append (st : Bool) (a b : Toks) : lw st (a ++ b) = (lw st a).bind (fun s => lw s b) := by
  induction a generalizing st with
  | nil => simp [lw]
  | cons x r ih =>
    cases x with
    | op => cases st <;> simp [lw, ih]
    | cl => cases st <;> simp [lw, ih]
    | b c => simp only [List.cons_append, lw]; split <;> simp [ih]
    | u c => simp only [List.cons_append, lw]; split <;> simp [ih]

theorem LW_append {a b : Toks} (ha : LW a) (hb : LW b) : LW (a ++ b) := by
  unfold LW at *; rw [lw_append, ha]; simpa using hb

theorem LW_nil : LW [] := rfl

/-- plain bytes outside markers are always fine -/
theorem lw_bytes_closed (s : Str) : lw false (bytesT s) = some false := by
  induction s with
  | nil => rfl
  | cons c r ih => simp [bytesT, lw] at ih ⊢; exact ih

theorem LW_bytes (s : Str) : LW (bytesT s) := lw_bytes_closed s

/-- plain bytes without a newline keep any state -/
theorem lw_bytes_noNl (st : Bool) (s : Str) (h : ∀ c ∈ s, c ≠ nl) : lw st (bytesT s) = some st := by
  induction s with
  | nil => rfl
  | cons c r ih =>
    have hc : c ≠ nl := h c (by simp)
    simp [bytesT, lw, hc] at ih ⊢
    exact ih (fun x hx => h x (by simp [hx]))

/-- dropping the open marker that ends an open string closes it -/
theorem lw_dropLast_op {t : Toks} (h : lw false t = some true) (hl : t.getLast? = some .op) :
    lw false t.dropLast = some false := by
  obtain ⟨d, rfl⟩ : ∃ d, t = d ++ [.op] := by
    rcases List.eq_nil_or_concat t with h0 | ⟨d, x, rfl⟩
    · subst h0; simp at hl
    · simp at hl; subst hl; exact ⟨d, by simp⟩
  rw [lw_append] at h
  simp only [List.dropLast_concat]
  cases hd : lw false d with
  | none => rw [hd] at h; simp at h
  | some s => cases s <;> simp [hd, lw] at h ⊢

/-- dropping the close marker that ends a closed string reopens it -/
theorem lw_dropLast_cl {t : Toks} (h : lw false t = some false) (hl : t.getLast? = some .cl) :
    lw false t.dropLast = some true := by
  obtain ⟨d, rfl⟩ : ∃ d, t = d ++ [.cl] := by
    rcases List.eq_nil_or_concat t with h0 | ⟨d, x, rfl⟩
    · subst h0; simp at hl
    · simp at hl; subst hl; exact ⟨d, by simp⟩
  rw [lw_append] at h
  simp only [List.dropLast_concat]
  cases hd : lw false d with
  | none => rw [hd] at h; simp at h
  | some s => cases s <;> simp [hd, lw] at h ⊢

theorem lw_open_ne_nil {t : Toks} (h : lw false t = some true) : t ≠ [] := by
  intro h0; subst h0; simp [lw] at h

/-! ### the escape loop -/

/-- with line breaking (unsafe mode): an open string stays open, whatever is escaped into it -/
theorem escLoopT_true_open (acc : Toks) (s : Str) : lw false acc = some true →
    lw false (escLoopT true acc s) = some true := by
  fun_induction escLoopT true acc s with
  | case1 acc => intro h; exact h
  | case2 acc r ih => intro h; apply ih; rw [lw_append, h]; simp [lw, qT, qmark, nl]
  | case3 acc r ih => intro h; apply ih; rw [lw_append, h]; simp [lw, qT, qmark, nl]
  | case4 acc c r h1 h2 hc acc1 run rest _ ih =>
    intro h
    apply ih
    have hc1 : lw false acc1 = some false := by
      show lw false (if acc.getLast? = some .op then acc.dropLast else acc ++ [.cl]) = some false
      split
      · rename_i hl; exact lw_dropLast_op h hl
      · rw [lw_append, h]; simp [lw]
    have hmid : lw false (nlT :: bytesT run) = some false := lw_bytes_closed (nl :: run)
    rw [lw_append, lw_append, hc1]
    simp [hmid, lw]
  | case5 acc c r h1 h2 hc ih =>
    intro h
    apply ih
    rw [lw_append, h]
    have : c ≠ nl := by simpa using hc
    simp [lw, this]

/-- without line breaking (safe mode): a closed string stays closed -/
theorem escLoopT_false_closed (acc : Toks) (s : Str) : lw false acc = some false →
    lw false (escLoopT false acc s) = some false := by
  fun_induction escLoopT false acc s with
  | case1 acc => intro h; exact h
  | case2 acc r ih => intro h; apply ih; rw [lw_append, h]; simp [lw, qT]
  | case3 acc r ih => intro h; apply ih; rw [lw_append, h]; simp [lw, qT]
  | case4 acc c r h1 h2 hc => simp at hc
  | case5 acc c r h1 h2 hc ih => intro h; apply ih; rw [lw_append, h]; simp [lw]

/-- redact.EscapeBytes yields a well-formed redactable string, whatever the bytes -/
theorem LW_escapeBytesT (s : Str) : LW (escapeBytesT s) := by
  unfold LW escapeBytesT
  have h := escLoopT_true_open [.op] s (by simp [lw])
  simp only []
  split
  · rw [lw_append, lw_append, h]; simp [lw, qT, qmark, nl]
  · rw [lw_append, h]; simp [lw]

/-! ### the buffer: between two pieces of a Sprintf it is in safe mode, closed, well-formed -/

structure RBT.Inv (r : RBT) : Prop where
  mode : r.mode = .safeE
  closed : r.opened = false
  lwDone : lw false r.done = some false

theorem RBT.escapeToEnd_closed (r : RBT) (h : lw false r.done = some false) :
    lw false (r.escapeToEnd false).done = some false := by
  unfold RBT.escapeToEnd
  have h1 := escLoopT_false_closed r.done r.pend h
  simp only []
  split
  · rw [lw_append, h1]; simp [lw, qT]
  · exact h1

theorem RBT.escapeToEnd_open (r : RBT) (h : lw false r.done = some true) :
    lw false (r.escapeToEnd true).done = some true := by
  unfold RBT.escapeToEnd
  have h1 := escLoopT_true_open r.done r.pend h
  simp only []
  split
  · rw [lw_append, h1]; simp [lw, qT, qmark, nl]
  · exact h1

theorem RBT.escapeToEnd_fields (r : RBT) (b : Bool) :
    (r.escapeToEnd b).mode = r.mode ∧ (r.escapeToEnd b).opened = r.opened ∧ (r.escapeToEnd b).pend = [] := by
  unfold RBT.escapeToEnd; simp

/-- a safe piece (`lit`) -/
theorem RBT.Inv_lit (r : RBT) (h : r.Inv) (s : Str) : (r.seg (.lit s)).Inv := by
  obtain ⟨hm, hc, hl⟩ := h
  simp only [RBT.seg, RBT.setMode, hm, if_true, RBT.write]
  exact ⟨rfl, hc, hl⟩

/-- an already redactable piece, well-formed -/
theorem RBT.Inv_preT (r : RBT) (h : r.Inv) (t : Toks) (ht : LW t) : (r.seg (.preT t)).Inv := by
  obtain ⟨hm, hc, hl⟩ := h
  have he := RBT.escapeToEnd_closed r hl
  obtain ⟨f1, f2, f3⟩ := RBT.escapeToEnd_fields r false
  refine ⟨?_, ?_, ?_⟩
  · simp [RBT.seg, RBT.setMode, hm, RBT.writeToks]
  · simp [RBT.seg, RBT.setMode, hm, RBT.writeToks, f2, hc]
  · simp only [RBT.seg, RBT.setMode, hm, RBT.writeToks]
    simp [f2, hc]
    rw [lw_append, he]; exact ht

theorem RBT.Inv_pre (r : RBT) (h : r.Inv) (s : Str) (hs : LW (lexL s)) : (r.seg (.pre s)).Inv := by
  obtain ⟨hm, hc, hl⟩ := h
  have he := RBT.escapeToEnd_closed r hl
  obtain ⟨f1, f2, f3⟩ := RBT.escapeToEnd_fields r false
  refine ⟨?_, ?_, ?_⟩
  · simp [RBT.seg, RBT.setMode, hm, RBT.write]
  · simp [RBT.seg, RBT.setMode, hm, RBT.write, f2, hc]
  · simp only [RBT.seg, RBT.setMode, hm, RBT.write]
    simp [f2, hc]
    rw [lw_append, he]; exact hs

theorem RBT.startRedactable_open (r : RBT) (h : lw false r.done = some false) :
    lw false r.startRedactable.done = some true ∧ r.startRedactable.opened = true ∧
    r.startRedactable.mode = r.mode := by
  unfold RBT.startRedactable
  split
  · rename_i hl; exact ⟨lw_dropLast_cl h hl, rfl, rfl⟩
  · refine ⟨?_, rfl, rfl⟩; simp only []; rw [lw_append, h]; simp [lw]

theorem RBT.endRedactable_closed (r : RBT) (h : lw false r.done = some true) :
    lw false r.endRedactable.done = some false ∧ r.endRedactable.opened = false ∧
    r.endRedactable.mode = r.mode := by
  unfold RBT.endRedactable
  have hne := lw_open_ne_nil h
  simp only [hne, if_false]
  split
  · rename_i hl; exact ⟨lw_dropLast_op h hl, rfl, rfl⟩
  · refine ⟨?_, rfl, rfl⟩; simp only []; rw [lw_append, h]; simp [lw]

/-- an unsafe piece (`arg`): enclosed, escaped, the enclosure interrupted at newlines -/
theorem RBT.Inv_arg (r : RBT) (h : r.Inv) (s : Str) : (r.seg (.arg s)).Inv := by
  obtain ⟨hm, hc, hl⟩ := h
  -- after setMode unsafeE
  have he := RBT.escapeToEnd_closed r hl
  obtain ⟨f1, f2, f3⟩ := RBT.escapeToEnd_fields r false
  let A : RBT := { r.escapeToEnd false with mode := .unsafeE }
  have hA : r.setMode .unsafeE = A := by
    simp [RBT.setMode, hm, A, f2, hc]
  have hAd : lw false A.done = some false := he
  have hAo : A.opened = false := by simp [A, f2, hc]
  -- after write
  obtain ⟨g1, g2, g3⟩ := RBT.startRedactable_open A hAd
  let B : RBT := { A.startRedactable with pend := s }
  have hB : A.write s = B := by
    simp [RBT.write, A, B, f2, hc]
  have hBd : lw false B.done = some true := g1
  have hBm : B.mode = .unsafeE := by simp [B, g3, A]
  have hBo : B.opened = true := g2
  -- after setMode safeE
  have hC := RBT.escapeToEnd_open B hBd
  obtain ⟨k1, k2, k3⟩ := RBT.escapeToEnd_fields B true
  obtain ⟨e1, e2, e3⟩ := RBT.endRedactable_closed (B.escapeToEnd true) hC
  have hfin : B.setMode .safeE = { (B.escapeToEnd true).endRedactable with mode := .safeE } := by
    simp [RBT.setMode, hBm, k2, hBo]
  show ((r.setMode .unsafeE).write s |>.setMode .safeE).Inv
  rw [hA, hB, hfin]
  exact ⟨rfl, e2, e1⟩

theorem RBT.Inv_init : (RBT.reset.setMode .safeE).Inv := by
  refine ⟨?_, ?_, ?_⟩ <;> simp [RBT.reset, RBT.setMode, RBT.escapeToEnd, escLoopT, lastRuneInvalid, unlex, lw]

/-- the pieces a Sprintf may be given: an already redactable piece must be well-formed -/
def SegT.ok : SegT → Prop
  | .lit _ => True
  | .arg _ => True
  | .pre s => LW (lexL s)
  | .preT t => LW t

theorem RBT.Inv_seg (r : RBT) (h : r.Inv) (g : SegT) (hg : g.ok) : (r.seg g).Inv := by
  cases g with
  | lit s => exact RBT.Inv_lit r h s
  | arg s => exact RBT.Inv_arg r h s
  | pre s => exact RBT.Inv_pre r h s hg
  | preT t => exact RBT.Inv_preT r h t hg

theorem RBT.Inv_foldl (segs : List SegT) (r : RBT) (h : r.Inv) (hs : ∀ g ∈ segs, g.ok) :
    (segs.foldl RBT.seg r).Inv := by
  induction segs generalizing r with
  | nil => exact h
  | cons g rest ih =>
    exact ih (r.seg g) (RBT.Inv_seg r h g (hs g (by simp))) (fun x hx => hs x (by simp [hx]))

/-- redact.Sprintf yields a well-formed redactable string, whatever the safe and unsafe
    pieces contain, provided the redactable pieces it is given are well-formed -/
theorem LW_assembleT (segs : List SegT) (hs : ∀ g ∈ segs, g.ok) : LW (assembleT segs) := by
  have h := RBT.Inv_foldl segs _ RBT.Inv_init hs
  obtain ⟨hm, hc, hl⟩ := h
  unfold LW assembleT RBT.finalize
  have he := RBT.escapeToEnd_closed _ hl
  obtain ⟨f1, f2, f3⟩ := RBT.escapeToEnd_fields (segs.foldl RBT.seg (RBT.reset.setMode .safeE)) false
  simp [hm, f2, hc]
  exact he

end ErrModel

namespace ErrModel

/-! ### Redact keeps a well-formed string well-formed -/

/-- a list of byte tokens (safe or unsafe-labelled) -/
def IsBytes (t : Toks) : Prop := ∀ x ∈ t, (∃ c, x = Tok.b c) ∨ (∃ c, x = Tok.u c)

/-- the byte-token prefix that `spanBytes` consumes -/
def spanPre : Toks → Toks
  | .b x :: r => .b x :: spanPre r
  | .u x :: r => .u x :: spanPre r
  | _ => []

theorem spanBytes_spec (t : Toks) : t = spanPre t ++ (spanBytes t).2 ∧ IsBytes (spanPre t) ∧
    (∀ x, (spanBytes t).2.head? = some x → (∀ c, x ≠ Tok.b c) ∧ (∀ c, x ≠ Tok.u c)) := by
  induction t with
  | nil => simp [spanBytes, spanPre, IsBytes]
  | cons a r ih =>
    cases a with
    | op => simp [spanBytes, spanPre, IsBytes]
    | cl => simp [spanBytes, spanPre, IsBytes]
    | b x =>
      obtain ⟨h1, h2, h3⟩ := ih
      simp only [spanBytes, spanPre]
      refine ⟨by simp only [List.cons_append]; congr 1, ?_, h3⟩
      intro y hy; rcases List.mem_cons.mp hy with rfl | hy
      · exact Or.inl ⟨x, rfl⟩
      · exact h2 y hy
    | u x =>
      obtain ⟨h1, h2, h3⟩ := ih
      simp only [spanBytes, spanPre]
      refine ⟨by simp only [List.cons_append]; congr 1, ?_, h3⟩
      intro y hy; rcases List.mem_cons.mp hy with rfl | hy
      · exact Or.inr ⟨x, rfl⟩
      · exact h2 y hy

/-- byte tokens never change the state -/
theorem lw_isBytes_state (st st' : Bool) (t : Toks) (ht : IsBytes t) (h : lw st t = some st') : st' = st := by
  induction t with
  | nil => simp [lw] at h; exact h.symm
  | cons x r ih =>
    have hr : IsBytes r := fun y hy => ht y (by simp [hy])
    rcases ht x (by simp) with ⟨c, rfl⟩ | ⟨c, rfl⟩
    · simp only [lw] at h; split at h
      · simp at h
      · exact ih hr h
    · simp only [lw] at h; split at h
      · exact ih hr h
      · simp at h

theorem redactedT_lw : lw false redactedT = some false := by decide

/-- plain bytes never change the state -/
theorem lw_bytes_state (st st' : Bool) (s : Str) (h : lw st (bytesT s) = some st') : st' = st := by
  induction s with
  | nil => simp [bytesT, lw] at h; exact h.symm
  | cons c r ih =>
    simp only [bytesT, List.map_cons, lw] at h
    split at h
    · simp at h
    · exact ih h

/-- `Redact()` of a well-formed string is well-formed (every enclosure becomes `‹×›`) -/
theorem LW_redactT (t : Toks) : LW t → LW (redactT t) := by
  unfold LW
  fun_induction redactT t with
  | case1 => intro h; exact h
  | case2 r bs r' hsp _ ih =>
    intro h
    obtain ⟨hspec, hby, _⟩ := spanBytes_spec r
    rw [hsp] at hspec
    simp only [lw, Bool.false_eq_true, if_false] at h
    rw [hspec, lw_append] at h
    cases hb : lw true (spanPre r) with
    | none => rw [hb] at h; simp at h
    | some s1 =>
      have := lw_isBytes_state true s1 _ hby hb
      subst this
      rw [hb] at h
      simp [lw] at h
      rw [lw_append, redactedT_lw]
      simpa using ih h
  | case3 r hno ih =>
    intro h
    exfalso
    obtain ⟨hspec, hby, hhead⟩ := spanBytes_spec r
    simp only [lw, Bool.false_eq_true, if_false] at h
    rw [hspec, lw_append] at h
    cases hb : lw true (spanPre r) with
    | none => rw [hb] at h; simp at h
    | some s1 =>
      have := lw_isBytes_state true s1 _ hby hb
      subst this
      rw [hb] at h
      simp only [Option.bind_some] at h
      cases hr : (spanBytes r).2 with
      | nil => rw [hr] at h; simp [lw] at h
      | cons x rest =>
        rw [hr] at h
        cases x with
        | op => simp [lw] at h
        | cl => exact hno (spanBytes r).1 rest (by rw [← hr])
        | b c => exact (hhead (.b c) (by rw [hr]; rfl)).1 c rfl
        | u c => exact (hhead (.u c) (by rw [hr]; rfl)).2 c rfl
  | case4 r ih =>
    intro h
    simp [lw] at h
  | case5 x r ih =>
    intro h
    simp only [lw, Bool.and_false, Bool.false_eq_true, if_false] at h ⊢
    exact ih h
  | case6 x r ih =>
    intro h
    simp [lw] at h

end ErrModel
