import ErrModel.Proofs.LW
/-
  The OUTSIDE VIEW of a redactable string: its plain bytes that are not between markers, in
  order (`outs`).  A PII-free output is `Redact()` of a redactable string: the outside view is
  kept and every enclosure becomes `‹×›` (`outs_redactT`, `ins_redactT`).  For the redact
  buffer model the outside view of `Sprintf` is a function of the safe pieces and of the
  NEWLINES of the unsafe ones only (`outs_assembleT`): whatever else an unsafe argument
  contains — marker runes, NUL, invalid UTF-8, any text — is not in it.
-/
namespace ErrModel

/-- bytes outside markers, from the state `st` (inside?) -/
def outs : Bool → Toks → Str
  | _, [] => []
  | _, .op :: r => outs true r
  | _, .cl :: r => outs false r
  | st, .b c :: r => if st then outs st r else c :: outs st r
  | st, .u c :: r => if st then outs st r else c :: outs st r

/-- bytes inside markers -/
def ins : Bool → Toks → Str
  | _, [] => []
  | _, .op :: r => ins true r
  | _, .cl :: r => ins false r
  | st, .b c :: r => if st then c :: ins st r else ins st r
  | st, .u c :: r => if st then c :: ins st r else ins st r

theorem outs_append (st : Bool) (a b : Toks) (st' : Bool) (h : lw st a = some st') :
    outs st (a ++ b) = outs st a ++ outs st' b := by
  induction a generalizing st with
  | nil => simp [lw] at h; subst h; simp [outs]
  | cons x r ih =>
    cases x with
    | op => cases st <;> simp [lw] at h; simp [outs, ih true h]
    | cl => cases st <;> simp [lw] at h; simp [outs, ih false h]
    | b c =>
      simp only [lw] at h
      split at h
      · simp at h
      · cases st <;> simp [outs, ih _ h]
    | u c =>
      simp only [lw] at h
      split at h
      · cases st <;> simp [outs, ih _ h]
      · simp at h

theorem outs_bytes_closed (s : Str) : outs false (bytesT s) = s := by
  induction s with
  | nil => rfl
  | cons c r ih => simp [bytesT, outs] at ih ⊢; exact ih

theorem outs_bytes_open (s : Str) : outs true (bytesT s) = [] := by
  induction s with
  | nil => rfl
  | cons c r ih => simp [bytesT, outs] at ih ⊢; exact ih

/-- the newline bytes of a string -/
def nlsOf (s : Str) : Str := s.filter (· = nl)

theorem outs_dropLast_op {t : Toks} (h : lw false t = some true) (hl : t.getLast? = some .op) :
    outs false t.dropLast = outs false t := by
  obtain ⟨d, rfl⟩ : ∃ d, t = d ++ [.op] := by
    rcases List.eq_nil_or_concat t with h0 | ⟨d, x, rfl⟩
    · subst h0; simp at hl
    · simp at hl; subst hl; exact ⟨d, by simp⟩
  rw [lw_append] at h
  simp only [List.dropLast_concat]
  cases hd : lw false d with
  | none => rw [hd] at h; simp at h
  | some s => rw [outs_append false d [.op] s hd]; cases s <;> simp [outs]

theorem outs_dropLast_cl {t : Toks} (h : lw false t = some false) (hl : t.getLast? = some .cl) :
    outs false t.dropLast = outs false t := by
  obtain ⟨d, rfl⟩ : ∃ d, t = d ++ [.cl] := by
    rcases List.eq_nil_or_concat t with h0 | ⟨d, x, rfl⟩
    · subst h0; simp at hl
    · simp at hl; subst hl; exact ⟨d, by simp⟩
  rw [lw_append] at h
  simp only [List.dropLast_concat]
  cases hd : lw false d with
  | none => rw [hd] at h; simp at h
  | some s => rw [outs_append false d [.cl] s hd]; cases s <;> simp [outs]

/-- unsafe mode: only the newlines of the escaped content come out of the enclosure -/
theorem outs_escLoopT_true (acc : Toks) (s : Str) : lw false acc = some true →
    outs false (escLoopT true acc s) = outs false acc ++ nlsOf s := by
  fun_induction escLoopT true acc s with
  | case1 acc => intro h; simp [nlsOf]
  | case2 acc r ih =>
    intro h
    have h' : lw false (acc ++ [qT]) = some true := by rw [lw_append, h]; simp [lw, qT, qmark, nl]
    rw [ih h', outs_append false acc [qT] true h]
    simp [outs, qT, nlsOf, nl]
  | case3 acc r ih =>
    intro h
    have h' : lw false (acc ++ [qT]) = some true := by rw [lw_append, h]; simp [lw, qT, qmark, nl]
    rw [ih h', outs_append false acc [qT] true h]
    simp [outs, qT, nlsOf, nl]
  | case4 acc c r h1 h2 hc acc1 run rest _ ih =>
    intro h
    have hcn : c = nl := by simpa using hc
    have hc1 : lw false acc1 = some false := by
      show lw false (if acc.getLast? = some .op then acc.dropLast else acc ++ [.cl]) = some false
      split
      · rename_i hl; exact lw_dropLast_op h hl
      · rw [lw_append, h]; simp [lw]
    have ho1 : outs false acc1 = outs false acc := by
      show outs false (if acc.getLast? = some .op then acc.dropLast else acc ++ [.cl]) = outs false acc
      split
      · rename_i hl; exact outs_dropLast_op h hl
      · rw [outs_append false acc [.cl] true h]; simp [outs]
    have hmid : lw false (nlT :: bytesT run) = some false := lw_bytes_closed (nl :: run)
    have h' : lw false (acc1 ++ nlT :: bytesT run ++ [Tok.op]) = some true := by
      rw [lw_append, lw_append, hc1]; simp [hmid, lw]
    have h'' : lw false (acc1 ++ nlT :: bytesT run) = some false := by rw [lw_append, hc1]; simpa using hmid
    rw [ih h', outs_append false _ [Tok.op] false h'', outs_append false acc1 _ false hc1, ho1]
    have : outs false (nlT :: bytesT run) = nl :: run := outs_bytes_closed (nl :: run)
    rw [this]
    -- the run is made of newlines only; the rest has the remaining ones
    have hrun : nlsOf (c :: r) = nl :: run ++ nlsOf rest := by
      subst hcn
      have : ∀ (l : Str), nlsOf l = l.takeWhile (· = nl) ++ nlsOf (l.dropWhile (· = nl)) := by
        intro l
        induction l with
        | nil => simp [nlsOf]
        | cons a t iht =>
          by_cases ha : a = nl
          · simp [nlsOf, ha] at iht ⊢; exact iht
          · simp [nlsOf, ha]
      simp only [nlsOf, List.filter_cons, decide_true, if_true]
      have := this r
      simp only [nlsOf] at this
      rw [this]
      rfl
    rw [hrun]
    simp [outs, List.append_assoc]
  | case5 acc c r h1 h2 hc ih =>
    intro h
    have hcn : c ≠ nl := by simpa using hc
    have h' : lw false (acc ++ [.u c]) = some true := by rw [lw_append, h]; simp [lw, hcn]
    simp only [↓reduceDIte, if_true] at ih ⊢
    rw [ih h', outs_append false acc [.u c] true h]
    simp [outs, nlsOf, hcn]

/-- safe mode: the content comes out with its marker runes replaced by `?` -/
theorem outs_escLoopT_false (acc : Toks) (s : Str) : lw false acc = some false →
    outs false (escLoopT false acc s) = outs false acc ++ escapeMarkers s := by
  fun_induction escLoopT false acc s with
  | case1 acc => intro h; simp [escapeMarkers, lex, escToks]
  | case2 acc r ih =>
    intro h
    have h' : lw false (acc ++ [qT]) = some false := by rw [lw_append, h]; simp [lw, qT]
    rw [ih h', outs_append false acc [qT] false h]
    simp [outs, qT, escapeMarkers, lex, escToks, qmark]
  | case3 acc r ih =>
    intro h
    have h' : lw false (acc ++ [qT]) = some false := by rw [lw_append, h]; simp [lw, qT]
    rw [ih h', outs_append false acc [qT] false h]
    simp [outs, qT, escapeMarkers, lex, escToks, qmark]
  | case4 acc c r h1 h2 hc => simp at hc
  | case5 acc c r h1 h2 hc ih =>
    intro h
    have h' : lw false (acc ++ [.b c]) = some false := by rw [lw_append, h]; simp [lw]
    simp only [↓reduceDIte, Bool.false_eq_true, if_false] at ih ⊢
    rw [ih h', outs_append false acc [.b c] false h]
    have hlex : lex (c :: r) = .b c :: lex r := by
      conv => lhs; unfold lex
      split
      · rename_i r' hx; simp only [List.cons.injEq] at hx; exact absurd hx.2 (h1 r' hx.1)
      · rename_i r' hx; simp only [List.cons.injEq] at hx; exact absurd hx.2 (h2 r' hx.1)
      · rename_i y r' _ _ hx; simp only [List.cons.injEq] at hx; obtain ⟨rfl, rfl⟩ := hx; rfl
      · rename_i hx; simp at hx
    simp [outs, escapeMarkers, hlex, escToks]

/-- redact.EscapeBytes: only the newlines of the bytes are outside the markers -/
theorem outs_escapeBytesT (s : Str) : outs false (escapeBytesT s) = nlsOf s := by
  unfold escapeBytesT
  have ho := outs_escLoopT_true [.op] s (by simp [lw])
  have hl := escLoopT_true_open [.op] s (by simp [lw])
  simp only []
  split
  · have hl2 : lw false (escLoopT true [.op] s ++ [qT]) = some true := by rw [lw_append, hl]; simp [lw, qT, qmark, nl]
    rw [outs_append false _ [.cl] true hl2, outs_append false _ [qT] true hl, ho]
    simp [outs, qT]
  · rw [outs_append false _ [.cl] true hl, ho]; simp [outs]

end ErrModel

namespace ErrModel

/-! ### the outside view of a Sprintf -/

def qOpt (q : Bool) : Str := if q then [qmark] else []

/-- one piece: (outside view so far, safe bytes written since the last escape) -/
inductive OStep : Str × Str → SegT → Str × Str → Prop
  | lit (o p s : Str) : OStep (o, p) (.lit s) (o, p ++ s)
  | arg (o p s : Str) (q : Bool) : OStep (o, p) (.arg s) (o ++ escapeMarkers p ++ qOpt q ++ nlsOf s, [])
  | pre (o p s : Str) (q : Bool) : OStep (o, p) (.pre s) (o ++ escapeMarkers p ++ qOpt q ++ outs false (lexL s), [])
  | preT (o p : Str) (t : Toks) (q : Bool) : OStep (o, p) (.preT t) (o ++ escapeMarkers p ++ qOpt q ++ outs false t, [])

inductive OSteps : Str × Str → List SegT → Str × Str → Prop
  | nil (x : Str × Str) : OSteps x [] x
  | cons (x y z : Str × Str) (g : SegT) (r : List SegT) : OStep x g y → OSteps y r z → OSteps x (g :: r) z

/-- the possible outside views of `Sprintf(segs)`: the safe pieces with their marker runes
    escaped, the outside views of the redactable pieces, the NEWLINES of the unsafe pieces,
    and `?` marks after a piece that ends in invalid UTF-8 -/
def OutSet (segs : List SegT) (v : Str) : Prop :=
  ∃ o p q, OSteps ([], []) segs (o, p) ∧ v = o ++ escapeMarkers p ++ qOpt q

/-- two piece lists that differ only in their unsafe pieces, whose newlines agree -/
inductive SameSafe : List SegT → List SegT → Prop
  | nil : SameSafe [] []
  | same (g : SegT) (a b : List SegT) : SameSafe a b → SameSafe (g :: a) (g :: b)
  | arg (s s' : Str) (a b : List SegT) : nlsOf s = nlsOf s' → SameSafe a b → SameSafe (.arg s :: a) (.arg s' :: b)

theorem OSteps_sameSafe {x z : Str × Str} {a b : List SegT} (h : OSteps x a z) (hs : SameSafe a b) : OSteps x b z := by
  induction hs generalizing x with
  | nil => exact h
  | same g a b _ ih =>
    cases h with
    | cons _ y _ _ _ h1 h2 => exact .cons _ y _ _ _ h1 (ih h2)
  | arg s s' a b hn _ ih =>
    cases h with
    | cons _ y _ _ _ h1 h2 =>
      cases h1 with
      | arg o p _ q =>
        refine .cons _ _ _ _ _ ?_ (ih h2)
        rw [hn]; exact .arg o p s' q

/-- the outside views do not depend on the unsafe pieces beyond their newlines -/
theorem OutSet_sameSafe {a b : List SegT} (hs : SameSafe a b) (v : Str) (h : OutSet a v) : OutSet b v := by
  obtain ⟨o, p, q, h1, h2⟩ := h
  exact ⟨o, p, q, OSteps_sameSafe h1 hs, h2⟩

structure RBT.OInv (r : RBT) (o p : Str) : Prop where
  inv : r.Inv
  outs : outs false r.done = o
  pend : r.pend = p

theorem RBT.escapeToEnd_false_outs (r : RBT) (h : lw false r.done = some false) :
    ∃ q, outs false (r.escapeToEnd false).done = outs false r.done ++ escapeMarkers r.pend ++ qOpt q := by
  unfold RBT.escapeToEnd
  have h1 := escLoopT_false_closed r.done r.pend h
  have h2 := outs_escLoopT_false r.done r.pend h
  simp only []
  split
  · refine ⟨true, ?_⟩
    rw [outs_append false _ [qT] false h1, h2]; simp [outs, qT, qOpt]
  · exact ⟨false, by rw [h2]; simp [qOpt]⟩

theorem RBT.escapeToEnd_true_outs (r : RBT) (h : lw false r.done = some true) :
    outs false (r.escapeToEnd true).done = outs false r.done ++ nlsOf r.pend := by
  unfold RBT.escapeToEnd
  have h1 := escLoopT_true_open r.done r.pend h
  have h2 := outs_escLoopT_true r.done r.pend h
  simp only []
  split
  · rw [outs_append false _ [qT] true h1, h2]; simp [outs, qT]
  · exact h2

theorem RBT.startRedactable_outs (r : RBT) (h : lw false r.done = some false) :
    outs false r.startRedactable.done = outs false r.done := by
  unfold RBT.startRedactable
  split
  · rename_i hl; exact outs_dropLast_cl h hl
  · simp only []; rw [outs_append false r.done [.op] false h]; simp [outs]

theorem RBT.endRedactable_outs (r : RBT) (h : lw false r.done = some true) :
    outs false r.endRedactable.done = outs false r.done := by
  unfold RBT.endRedactable
  have hne := lw_open_ne_nil h
  simp only [hne, if_false]
  split
  · rename_i hl; exact outs_dropLast_op h hl
  · simp only []; rw [outs_append false r.done [.cl] true h]; simp [outs]

theorem RBT.OInv_seg (r : RBT) (o p : Str) (h : r.OInv o p) (g : SegT) (hg : g.ok) :
    ∃ y, OStep (o, p) g y ∧ (r.seg g).OInv y.1 y.2 := by
  obtain ⟨hinv, ho, hp⟩ := h
  obtain ⟨hm, hc, hl⟩ := hinv
  cases g with
  | lit s =>
    refine ⟨(o, p ++ s), .lit o p s, RBT.Inv_lit r ⟨hm, hc, hl⟩ s, ?_, ?_⟩
    · simp only [RBT.seg, RBT.setMode, hm, if_true, RBT.write]; exact ho
    · simp only [RBT.seg, RBT.setMode, hm, if_true, RBT.write]; rw [hp]
  | arg s =>
    -- the same intermediate states as in RBT.Inv_arg
    have he := RBT.escapeToEnd_closed r hl
    obtain ⟨q, hq⟩ := RBT.escapeToEnd_false_outs r hl
    obtain ⟨f1, f2, f3⟩ := RBT.escapeToEnd_fields r false
    let A : RBT := { r.escapeToEnd false with mode := .unsafeE }
    have hA : r.setMode .unsafeE = A := by simp [RBT.setMode, hm, A, f2, hc]
    have hAd : lw false A.done = some false := he
    obtain ⟨g1, g2, g3⟩ := RBT.startRedactable_open A hAd
    have gO := RBT.startRedactable_outs A hAd
    let B : RBT := { A.startRedactable with pend := s }
    have hB : A.write s = B := by simp [RBT.write, A, B, f2, hc]
    have hBd : lw false B.done = some true := g1
    have hBm : B.mode = .unsafeE := by simp [B, g3, A]
    have hBo : B.opened = true := g2
    have hC := RBT.escapeToEnd_open B hBd
    have hCo := RBT.escapeToEnd_true_outs B hBd
    obtain ⟨k1, k2, k3⟩ := RBT.escapeToEnd_fields B true
    obtain ⟨e1, e2, e3⟩ := RBT.endRedactable_closed (B.escapeToEnd true) hC
    have eO := RBT.endRedactable_outs (B.escapeToEnd true) hC
    have hfin : B.setMode .safeE = { (B.escapeToEnd true).endRedactable with mode := .safeE } := by
      simp [RBT.setMode, hBm, k2, hBo]
    refine ⟨(o ++ escapeMarkers p ++ qOpt q ++ nlsOf s, []), .arg o p s q, ?_⟩
    show ((r.setMode .unsafeE).write s |>.setMode .safeE).OInv _ _
    rw [hA, hB, hfin]
    refine ⟨⟨rfl, e2, e1⟩, ?_, ?_⟩
    · show outs false (B.escapeToEnd true).endRedactable.done = _
      rw [eO, hCo]
      show outs false A.startRedactable.done ++ nlsOf s = _
      rw [gO]
      show outs false (r.escapeToEnd false).done ++ nlsOf s = _
      rw [hq, ho, hp]
    · show (B.escapeToEnd true).endRedactable.pend = []
      unfold RBT.endRedactable
      split
      · exact k3
      · split <;> exact k3
  | pre s =>
    have he := RBT.escapeToEnd_closed r hl
    obtain ⟨q, hq⟩ := RBT.escapeToEnd_false_outs r hl
    obtain ⟨f1, f2, f3⟩ := RBT.escapeToEnd_fields r false
    refine ⟨(o ++ escapeMarkers p ++ qOpt q ++ outs false (lexL s), []), .pre o p s q, RBT.Inv_pre r ⟨hm, hc, hl⟩ s hg, ?_, ?_⟩
    · simp only [RBT.seg, RBT.setMode, hm, RBT.write]
      simp [f2, hc]
      rw [outs_append false _ _ false he, hq, ho, hp]
      simp [List.append_assoc]
    · simp only [RBT.seg, RBT.setMode, hm, RBT.write]
      simp [f2, hc, f3]
  | preT t =>
    have he := RBT.escapeToEnd_closed r hl
    obtain ⟨q, hq⟩ := RBT.escapeToEnd_false_outs r hl
    obtain ⟨f1, f2, f3⟩ := RBT.escapeToEnd_fields r false
    refine ⟨(o ++ escapeMarkers p ++ qOpt q ++ outs false t, []), .preT o p t q, RBT.Inv_preT r ⟨hm, hc, hl⟩ t hg, ?_, ?_⟩
    · simp only [RBT.seg, RBT.setMode, hm, RBT.writeToks]
      simp [f2, hc]
      rw [outs_append false _ _ false he, hq, ho, hp]
      simp [List.append_assoc]
    · simp only [RBT.seg, RBT.setMode, hm, RBT.writeToks]
      simp [f2, hc, f3]

theorem RBT.OInv_foldl (segs : List SegT) (r : RBT) (o p : Str) (h : r.OInv o p) (hs : ∀ g ∈ segs, g.ok) :
    ∃ z, OSteps (o, p) segs z ∧ (segs.foldl RBT.seg r).OInv z.1 z.2 := by
  induction segs generalizing r o p with
  | nil => exact ⟨(o, p), .nil _, h⟩
  | cons g rest ih =>
    obtain ⟨y, hy1, hy2⟩ := RBT.OInv_seg r o p h g (hs g (by simp))
    obtain ⟨z, hz1, hz2⟩ := ih (r.seg g) y.1 y.2 hy2 (fun x hx => hs x (by simp [hx]))
    exact ⟨z, .cons _ y _ _ _ hy1 hz1, hz2⟩

/-- the outside view of what `redact.Sprintf` returns is one of `OutSet segs`: it is made of
    the safe pieces, the outside views of the redactable pieces, the newlines of the unsafe
    pieces and `?` marks — of nothing else an unsafe piece contains -/
theorem outs_assembleT (segs : List SegT) (hs : ∀ g ∈ segs, g.ok) : OutSet segs (outs false (assembleT segs)) := by
  have h0 : (RBT.reset.setMode .safeE).OInv [] [] := by
    refine ⟨RBT.Inv_init, ?_, ?_⟩ <;> simp [RBT.reset, RBT.setMode, RBT.escapeToEnd, escLoopT, lastRuneInvalid, unlex, outs]
  obtain ⟨z, hz1, hz2⟩ := RBT.OInv_foldl segs _ [] [] h0 hs
  obtain ⟨hinv, ho, hp⟩ := hz2
  obtain ⟨hm, hc, hl⟩ := hinv
  obtain ⟨q, hq⟩ := RBT.escapeToEnd_false_outs _ hl
  obtain ⟨f1, f2, f3⟩ := RBT.escapeToEnd_fields (segs.foldl RBT.seg (RBT.reset.setMode .safeE)) false
  refine ⟨z.1, z.2, q, hz1, ?_⟩
  unfold assembleT RBT.finalize
  simp [hm, f2, hc]
  rw [hq, ho, hp]
  simp [List.append_assoc]

/-- non-interference for Sprintf: replacing the unsafe pieces by any others with the same
    newlines leaves the outside view within the same set of possible views -/
theorem outs_assembleT_noninterference (a b : List SegT) (ha : ∀ g ∈ a, g.ok) (hb : ∀ g ∈ b, g.ok)
    (hs : SameSafe a b) :
    OutSet b (outs false (assembleT a)) ∧ OutSet b (outs false (assembleT b)) :=
  ⟨OutSet_sameSafe hs _ (outs_assembleT a ha), outs_assembleT b hb⟩

end ErrModel

namespace ErrModel

/-! ### Redact(): the outside view is kept, every enclosure becomes × -/

theorem outs_append_closed (a b : Toks) (h : LW a) : outs false (a ++ b) = outs false a ++ outs false b :=
  outs_append false a b false h

theorem ins_append (st : Bool) (a b : Toks) (st' : Bool) (h : lw st a = some st') :
    ins st (a ++ b) = ins st a ++ ins st' b := by
  induction a generalizing st with
  | nil => simp [lw] at h; subst h; simp [ins]
  | cons x r ih =>
    cases x with
    | op => cases st <;> simp [lw] at h; simp [ins, ih true h]
    | cl => cases st <;> simp [lw] at h; simp [ins, ih false h]
    | b c =>
      simp only [lw] at h
      split at h
      · simp at h
      · cases st <;> simp [ins, ih _ h]
    | u c =>
      simp only [lw] at h
      split at h
      · cases st <;> simp [ins, ih _ h]
      · simp at h

theorem outs_isBytes_open (t : Toks) (h : IsBytes t) : outs true t = [] := by
  induction t with
  | nil => rfl
  | cons x r ih =>
    have hr : IsBytes r := fun y hy => h y (by simp [hy])
    rcases h x (by simp) with ⟨c, rfl⟩ | ⟨c, rfl⟩ <;> simp [outs, ih hr]

def timesB : Str := [0xC3, 0x97]

theorem redact_case3_absurd (r : Toks) (hno : ∀ (fst : List UInt8) (r' : List Tok), spanBytes r = (fst, Tok.cl :: r') → False)
    (h : lw true r = some false) : False := by
  obtain ⟨hspec, hby, hhead⟩ := spanBytes_spec r
  rw [hspec, lw_append] at h
  cases hb : lw true (spanPre r) with
  | none => rw [hb] at h; simp at h
  | some s1 =>
    have := lw_isBytes_state true s1 _ hby hb
    subst this
    rw [hb] at h
    simp only [Option.bind_some] at h
    cases hr : (spanBytes r).2 with
    | nil => rw [hr] at h; simp [lw] at h
    | cons x rest =>
      rw [hr] at h
      cases x with
      | op => simp [lw] at h
      | cl => exact hno (spanBytes r).1 rest (by rw [← hr])
      | b c => exact (hhead (.b c) (by rw [hr]; rfl)).1 c rfl
      | u c => exact (hhead (.u c) (by rw [hr]; rfl)).2 c rfl

theorem redact_case2_split (r : Toks) (bs : List UInt8) (r' : Toks) (hsp : spanBytes r = (bs, Tok.cl :: r'))
    (h : lw true r = some false) :
    r = spanPre r ++ Tok.cl :: r' ∧ IsBytes (spanPre r) ∧ lw true (spanPre r) = some true ∧ lw false r' = some false := by
  obtain ⟨hspec, hby, _⟩ := spanBytes_spec r
  rw [hsp] at hspec
  simp only [] at hspec
  have h0 := h
  rw [hspec, lw_append] at h
  cases hb : lw true (spanPre r) with
  | none => rw [hb] at h; simp at h
  | some s1 =>
    have hs1 := lw_isBytes_state true s1 _ hby hb
    subst hs1
    have hb' := hb
    rw [hb] at h
    simp [lw] at h
    exact ⟨hspec, hby, rfl, h⟩

theorem outs_redactT (t : Toks) : LW t → outs false (redactT t) = outs false t := by
  unfold LW
  fun_induction redactT t with
  | case1 => intro _; rfl
  | case2 r bs r' hsp _ ih =>
    intro h
    simp only [lw, Bool.false_eq_true, if_false] at h
    obtain ⟨hspec, hby, hb, hr'⟩ := redact_case2_split r bs r' hsp h
    rw [outs_append false redactedT _ false redactedT_lw, ih hr']
    have : outs false redactedT = [] := by decide
    rw [this]
    simp only [outs, List.nil_append]
    rw [hspec, outs_append true (spanPre r) _ true hb, outs_isBytes_open _ hby]
    simp [outs]
  | case3 r hno ih =>
    intro h
    simp only [lw, Bool.false_eq_true, if_false] at h
    exact absurd h (fun h => redact_case3_absurd r hno h)
  | case4 r ih => intro h; simp [lw] at h
  | case5 x r ih =>
    intro h
    simp only [lw, Bool.and_false, Bool.false_eq_true, if_false] at h
    simp [outs, ih h]
  | case6 x r ih => intro h; simp [lw] at h

/-- every enclosure of a redacted string contains exactly `×` -/
theorem ins_redactT (t : Toks) : LW t → ∃ n, ins false (redactT t) = (List.replicate n timesB).flatten := by
  unfold LW
  fun_induction redactT t with
  | case1 => intro _; exact ⟨0, rfl⟩
  | case2 r bs r' hsp _ ih =>
    intro h
    simp only [lw, Bool.false_eq_true, if_false] at h
    obtain ⟨hspec, hby, hb, hr'⟩ := redact_case2_split r bs r' hsp h
    obtain ⟨n, hn⟩ := ih hr'
    refine ⟨n + 1, ?_⟩
    rw [ins_append false redactedT _ false redactedT_lw, hn]
    have : ins false redactedT = timesB := by decide
    rw [this, List.replicate_succ]
    simp
  | case3 r hno ih =>
    intro h
    simp only [lw, Bool.false_eq_true, if_false] at h
    exact absurd h (fun h => redact_case3_absurd r hno h)
  | case4 r ih => intro h; simp [lw] at h
  | case5 x r ih =>
    intro h
    simp only [lw, Bool.and_false, Bool.false_eq_true, if_false] at h
    obtain ⟨n, hn⟩ := ih h
    exact ⟨n, by simp [ins, hn]⟩
  | case6 x r ih => intro h; simp [lw] at h

/-- no unsafe-labelled byte survives `Redact()` of a well-formed string -/
theorem noU_redactT (t : Toks) : LW t → ∀ x ∈ redactT t, ∀ c, x ≠ Tok.u c := by
  unfold LW
  fun_induction redactT t with
  | case1 => intro _ x hx; simp at hx
  | case2 r bs r' hsp _ ih =>
    intro h
    simp only [lw, Bool.false_eq_true, if_false] at h
    obtain ⟨hspec, hby, hb, hr'⟩ := redact_case2_split r bs r' hsp h
    intro x hx c
    rcases List.mem_append.mp hx with h1 | h1
    · simp [redactedT] at h1; rcases h1 with rfl | rfl | rfl | rfl <;> simp
    · exact ih hr' x h1 c
  | case3 r hno ih =>
    intro h
    simp only [lw, Bool.false_eq_true, if_false] at h
    exact absurd h (fun h => redact_case3_absurd r hno h)
  | case4 r ih => intro h; simp [lw] at h
  | case5 y r ih =>
    intro h
    simp only [lw, Bool.and_false, Bool.false_eq_true, if_false] at h
    intro x hx c
    rcases List.mem_cons.mp hx with rfl | hx
    · simp
    · exact ih h x hx c
  | case6 y r ih => intro h; simp [lw] at h

end ErrModel
