import ErrModel.Transport
/-
  Closed facts about the type-key tables: which decoder each library key selects
  and what family each library type name has at a `Full` process.  All by kernel
  evaluation on byte literals.
-/
namespace ErrModel

@[simp] theorem classify_errorString : classify k_errorString = .errorString := by decide
@[simp] theorem classify_deadline : classify k_deadline = .deadline := by decide
@[simp] theorem classify_errno : classify k_errno = .errno := by decide
@[simp] theorem classify_leafError : classify k_leafError = .leafError := by decide
@[simp] theorem classify_unimplemented : classify k_unimplemented = .unimplemented := by decide
@[simp] theorem classify_barrier : classify k_barrier = .barrier := by decide
@[simp] theorem classify_barrierPrev : classify k_barrierPrev = .barrierPrev := by decide
@[simp] theorem classify_join : classify k_join = .join := by decide
@[simp] theorem classify_grpcStatus : classify k_grpcStatus = .grpcStatus := by decide
@[simp] theorem classify_gogoStatus : classify k_gogoStatus = .gogoStatus := by decide
@[simp] theorem classify_pkgWithMessage : classify k_pkgWithMessage = .pkgWithMessage := by decide
@[simp] theorem classify_pathError : classify k_pathError = .pathError := by decide
@[simp] theorem classify_linkError : classify k_linkError = .linkError := by decide
@[simp] theorem classify_syscallError : classify k_syscallError = .syscallError := by decide
@[simp] theorem classify_withPrefix : classify k_withPrefix = .withPrefix := by decide
@[simp] theorem classify_withNewMessage : classify k_withNewMessage = .withNewMessage := by decide
@[simp] theorem classify_withHint : classify k_withHint = .withHint := by decide
@[simp] theorem classify_withDetail : classify k_withDetail = .withDetail := by decide
@[simp] theorem classify_withMark : classify k_withMark = .withMark := by decide
@[simp] theorem classify_withSecondary : classify k_withSecondary = .withSecondary := by decide
@[simp] theorem classify_withContext : classify k_withContext = .withContext := by decide
@[simp] theorem classify_withHTTPCode : classify k_withHTTPCode = .withHTTPCode := by decide
@[simp] theorem classify_withGrpcCode : classify k_withGrpcCode = .withGrpcCode := by decide
@[simp] theorem classify_withDomain : classify k_withDomain = .withDomain := by decide
@[simp] theorem classify_withIssueLink : classify k_withIssueLink = .withIssueLink := by decide
@[simp] theorem classify_withTelemetry : classify k_withTelemetry = .withTelemetry := by decide
@[simp] theorem classify_withAssertionFailure : classify k_withAssertionFailure = .withAssertionFailure := by decide
@[simp] theorem classify_withSafeDetails : classify k_withSafeDetails = .withSafeDetails := by decide

/-- keys of library types that have an encoder but no decoder -/
abbrev k_withStack : Str := (WrapKind.withStack []).ty.full
abbrev k_pkgWithStack : Str := (WrapKind.pkgWithStack []).ty.full
abbrev k_pkgFundamental : Str := (LeafKind.pkgFundamental [] []).ty.full
abbrev k_opaqueErrno : Str := (LeafKind.opaqueErrno [] 0 [] false false false false false).ty.full
abbrev k_testErr : Str := LeafKind.testErr.ty.full
abbrev k_fmtWrapError : Str := (WrapKind.fmtWrapError []).ty.full
abbrev k_stdJoin : Str := MultiKind.stdJoin.ty.full
abbrev k_fmtWrapErrors : Str := (MultiKind.fmtWrapErrors []).ty.full

@[simp] theorem classify_withStack : classify k_withStack = .other := by decide
@[simp] theorem classify_pkgWithStack : classify k_pkgWithStack = .other := by decide
@[simp] theorem classify_pkgFundamental : classify k_pkgFundamental = .other := by decide
@[simp] theorem classify_opaqueErrno : classify k_opaqueErrno = .other := by decide
@[simp] theorem classify_testErr : classify k_testErr = .other := by decide
@[simp] theorem classify_fmtWrapError : classify k_fmtWrapError = .other := by decide
@[simp] theorem classify_stdJoin : classify k_stdJoin = .other := by decide
@[simp] theorem classify_fmtWrapErrors : classify k_fmtWrapErrors = .other := by decide

/-! family of every library type name at a process with the base registry -/

theorem family_base_of_ne {P : Proc} (h : P.reg = baseReg) {t : Str} (ht : t ≠ b!"io/fs/*fs.PathError") :
    P.family t = t := by
  have hb : (t == b!"io/fs/*fs.PathError") = false := by simpa using ht
  simp [Proc.family, h, baseReg, hb]

theorem family_base_pathError {P : Proc} (h : P.reg = baseReg) :
    P.family (b!"io/fs/*fs.PathError") = osPathErrorKey := by
  simp [Proc.family, h, baseReg]

end ErrModel
