import ErrModel.Sem
set_option linter.unusedSimpArgs false
/-
  Helper lemmas about `Is` / `IsAny` (C08, C02, C13).
-/
namespace ErrModel

theorem equalTys_eq : ∀ (a b : List TMark), equalTys a b = decide (a = b)
  | [], [] => by simp [equalTys]
  | [], _ :: _ => by simp [equalTys]
  | _ :: _, [] => by simp [equalTys]
  | x :: a, y :: b => by
    simp only [equalTys]
    by_cases h : x = y
    · simp [h, equalTys_eq a b]
    · simp [h]

/-- the repaired `equalMarks` decides exactly the documented equivalence -/
theorem equalMarks_eq_markEquiv (m1 m2 : Mark) : equalMarks m1 m2 = markEquiv m1 m2 := by
  unfold equalMarks markEquiv
  by_cases h : m1.msg = m2.msg
  · by_cases hl : m1.tys.length = m2.tys.length
    · simp [h, hl, equalTys_eq]
    · have : m1.tys ≠ m2.tys := fun h2 => hl (by rw [h2])
      simp [h, hl, this]
  · simp [h]

theorem markEquiv_refl (m : Mark) : markEquiv m m = true := by simp [markEquiv]

theorem goEq_refl (e : Err) : goEq e e = true := by
  cases e with
  | leaf id k => cases k <;> simp [goEq, Err.isValueKind]
  | _ => simp [goEq, Err.isValueKind]

theorem isPhase1_self (P : Proc) (e : Err) : isPhase1 P e e = true := by
  cases e <;> simp [isPhase1, selfMatch, goEq_refl]

/-- what one layer contributes to `Is(e, r)` -/
def layerMatch (P : Proc) (r : Err) (n : Err) : Bool :=
  selfMatch n r || markEquiv (getMark P n) (getMark P r)

theorem isPhase2_eq (P : Proc) (rm : Mark) (l : List Err) :
    isPhase2 P rm l = l.any (fun c => markEquiv (getMark P c) rm) := by
  induction l with
  | nil => simp [isPhase2]
  | cons a r ih => simp [isPhase2, ih, equalMarks_eq_markEquiv]

theorem chain_ne_nil (e : Err) : chain e ≠ [] := by
  cases e <;> simp [chain]

mutual
theorem isB_char (P : Proc) (r : Err) : (e : Err) → isB P e r = (reach e).any (layerMatch P r)
  | .leaf id k => by
    simp [isB, isPhase1, chain, isPhase2, reach, layerMatch, equalMarks_eq_markEquiv]
  | .barrier id m h => by
    simp [isB, isPhase1, chain, isPhase2, reach, layerMatch, equalMarks_eq_markEquiv]
  | .wrap id k c => by
    have ih := isB_char P r c
    simp only [isB] at ih
    simp only [isB, isPhase1, chain, isPhase2, reach, List.any_cons, layerMatch, equalMarks_eq_markEquiv]
    rw [← ih]
    cases selfMatch (.wrap id k c) r <;> cases isPhase1 P r c <;>
      cases markEquiv (getMark P (.wrap id k c)) (getMark P r) <;> simp
  | .second id c s => by
    have ih := isB_char P r c
    simp only [isB] at ih
    simp only [isB, isPhase1, chain, isPhase2, reach, List.any_cons, layerMatch, equalMarks_eq_markEquiv]
    rw [← ih]
    cases selfMatch (.second id c s) r <;> cases isPhase1 P r c <;>
      cases markEquiv (getMark P (.second id c s)) (getMark P r) <;> simp
  | .multi id k cs => by
    have ih := isAnyBranch_char P r cs
    simp only [isB, isPhase1, chain, isPhase2, reach, List.any_cons, layerMatch, equalMarks_eq_markEquiv, ih]
    cases selfMatch (.multi id k cs) r <;> cases (reachL cs).any (layerMatch P r) <;>
      cases markEquiv (getMark P (.multi id k cs)) (getMark P r) <;> simp [layerMatch]
theorem isAnyBranch_char (P : Proc) (r : Err) : (cs : List Err) →
    isAnyBranch P r cs = (reachL cs).any (layerMatch P r)
  | [] => by simp [isAnyBranch, reachL]
  | b :: rest => by
    have h1 := isB_char P r b
    have h2 := isAnyBranch_char P r rest
    simp only [isB] at h1
    simp [isAnyBranch, reachL, h1, h2, List.any_append]
end

theorem reach_head (e : Err) : ∃ t, reach e = e :: t := by
  cases e <;> simp [reach]

theorem layerMatch_self (P : Proc) (e : Err) : layerMatch P e e = true := by
  simp [layerMatch, selfMatch, goEq_refl]

/-! ### IsAny -/

theorem anySelf_eq (c : Err) (rs : List Err) : anySelf c rs = rs.any (fun r => selfMatch c r) := by
  induction rs with
  | nil => simp [anySelf]
  | cons a r ih => simp [anySelf, ih]

theorem anyMark_eq (P : Proc) (m : Mark) (rms : List Mark) :
    anyMark P m rms = rms.any (fun rm => markEquiv m rm) := by
  induction rms with
  | nil => simp [anyMark]
  | cons a r ih => simp [anyMark, ih, equalMarks_eq_markEquiv]

/-- what one layer contributes to `IsAny(e, rs)` -/
def layerMatchAny (P : Proc) (rs : List Err) (n : Err) : Bool := rs.any (fun r => layerMatch P r n)

theorem layerMatchAny_split (P : Proc) (rs : List Err) (n : Err) :
    layerMatchAny P rs n = (anySelf n rs || anyMark P (getMark P n) (rs.map (getMark P))) := by
  induction rs with
  | nil => simp [layerMatchAny, anySelf, anyMark]
  | cons a r ih =>
    simp only [layerMatchAny, layerMatch] at ih ⊢
    simp only [List.any_cons, anySelf, anyMark, List.map, equalMarks_eq_markEquiv, ih]
    cases selfMatch n a <;> cases markEquiv (getMark P n) (getMark P a) <;> cases anySelf n r <;> simp

theorem isAnyPhase2_eq (P : Proc) (rms : List Mark) (l : List Err) :
    isAnyPhase2 P rms l = l.any (fun c => anyMark P (getMark P c) rms) := by
  induction l with
  | nil => simp [isAnyPhase2]
  | cons a r ih => simp [isAnyPhase2, ih]

mutual
theorem isAny_char (P : Proc) (rs : List Err) : (e : Err) →
    (isAnyPhase1 P rs e || isAnyPhase2 P (rs.map (getMark P)) (chain e)) = (reach e).any (layerMatchAny P rs)
  | .leaf id k => by
    simp [isAnyPhase1, chain, isAnyPhase2, reach, layerMatchAny_split]
  | .barrier id m h => by
    simp [isAnyPhase1, chain, isAnyPhase2, reach, layerMatchAny_split]
  | .wrap id k c => by
    have ih := isAny_char P rs c
    simp only [isAnyPhase1, chain, isAnyPhase2, reach, List.any_cons, layerMatchAny_split]
    rw [← ih]
    cases anySelf (.wrap id k c) rs <;> cases isAnyPhase1 P rs c <;>
      cases anyMark P (getMark P (.wrap id k c)) (rs.map (getMark P)) <;> simp
  | .second id c s => by
    have ih := isAny_char P rs c
    simp only [isAnyPhase1, chain, isAnyPhase2, reach, List.any_cons, layerMatchAny_split]
    rw [← ih]
    cases anySelf (.second id c s) rs <;> cases isAnyPhase1 P rs c <;>
      cases anyMark P (getMark P (.second id c s)) (rs.map (getMark P)) <;> simp
  | .multi id k cs => by
    have ih := isAnyBranches_char P rs cs
    simp only [isAnyPhase1, chain, isAnyPhase2, reach, List.any_cons, layerMatchAny_split, ih]
    cases anySelf (.multi id k cs) rs <;> cases (reachL cs).any (layerMatchAny P rs) <;>
      cases anyMark P (getMark P (.multi id k cs)) (rs.map (getMark P)) <;> simp
theorem isAnyBranches_char (P : Proc) (rs : List Err) : (cs : List Err) →
    isAnyBranches P rs cs = (reachL cs).any (layerMatchAny P rs)
  | [] => by simp [isAnyBranches, reachL]
  | b :: rest => by
    have h1 := isAny_char P rs b
    have h2 := isAnyBranches_char P rs rest
    simp [isAnyBranches, reachL, h1, h2, List.any_append]
end

theorem any_any_swap {α β : Type} (l : List α) (m : List β) (f : α → β → Bool) :
    l.any (fun a => m.any (fun b => f a b)) = m.any (fun b => l.any (fun a => f a b)) := by
  rw [Bool.eq_iff_iff]
  simp only [List.any_eq_true]
  constructor
  · rintro ⟨a, ha, b, hb, h⟩; exact ⟨b, hb, a, ha, h⟩
  · rintro ⟨b, hb, a, ha, h⟩; exact ⟨a, ha, b, hb, h⟩

end ErrModel
