import ErrModel.Proofs.Is
import ErrModel.Proofs.RoundTrip
set_option linter.unusedSimpArgs false
/-
  `Is` depends on the candidate only through its labelled shape vf (identity aside):
  so whatever preserves the labelled shape vf — a network hop — preserves `Is`.
-/
namespace ErrModel

variable (vf : Err → Str)

def TTree.lbl : TTree → Lbl
  | .node l _ => l
def TTree.kids : TTree → List TTree
  | .node _ k => k

/-- the type marks along the single-cause chain, read off the labelled shape vf -/
def chainTysT : TTree → List TMark
  | .node l [k] => l.tmark :: (if l.multi then [] else chainTysT k)
  | .node l _ => [l.tmark]

def markT (t : TTree) : Mark :=
  match t.lbl.stored with
  | some m => m
  | none => ⟨t.lbl.text, chainTysT t⟩

/-- the `Is` method of errno-like layers, from the label -/
def isMethodL (l : Lbl) (r : Err) : Bool :=
  match l.isSig with
  | some (perm, exist, notExist) =>
    (!r.isValueKind) && ((r.id = idErrPermission && perm) || (r.id = idErrExist && exist) || (r.id = idErrNotExist && notExist))
  | none =>
    match l.stSig, r with
    | some (c, m, nd), .leaf _ (.grpcStatus c' m' nd') => c = c' && m = m' && nd = nd'
    | _, _ => false

mutual
def reachT : TTree → List TTree
  | .node l kids => .node l kids :: reachTL kids
def reachTL : List TTree → List TTree
  | [] => []
  | t :: r => reachT t ++ reachTL r
end

/-- identity-free `Is` on labelled shapes -/
def isT (rm : Mark) (r : Err) (t : TTree) : Bool :=
  (reachT t).any (fun n => isMethodL n.lbl r || markEquiv (markT n) rm)

theorem chainTys_shape : (e : Err) → chainTysT (shape vf e) = (chain e).map (typeMark Full)
  | .leaf id k => by simp [shape, chainTysT, chain, label, isMultiNode]
  | .barrier id m h => by simp [shape, chainTysT, chain, label, isMultiNode]
  | .wrap id k c => by simp [shape, chainTysT, chain, label, isMultiNode, chainTys_shape c]
  | .second id c s => by simp [shape, chainTysT, chain, label, isMultiNode, chainTys_shape c]
  | .multi id k cs => by
    simp only [shape, chain, label, isMultiNode, List.map]
    cases hcs : shapeL vf cs with
    | nil => simp [chainTysT]
    | cons a r => cases r <;> simp [chainTysT]

theorem shape_lbl (e : Err) : (shape vf e).lbl = label vf e := by
  cases e <;> simp [shape, TTree.lbl]

theorem markT_shape (e : Err) : markT (shape vf e) = getMark Full e := by
  unfold markT
  rw [shape_lbl]
  cases e with
  | wrap id k c =>
    cases k <;> simp [label, storedMark, getMark, chainTys_shape]
  | _ => simp [label, storedMark, getMark, chainTys_shape]

theorem isMethodL_label (e r : Err) : isMethodL (label vf e) r = isMethod e r := by
  cases e with
  | leaf id k =>
    cases k with
    | grpcStatus c m nd =>
      simp only [isMethodL, label, isSigOf, stSigOf, isMethod]
      cases r with
      | leaf id2 k2 => cases k2 <;> simp
      | _ => simp
    | _ => simp [isMethodL, label, isSigOf, stSigOf, isMethod]
  | _ => simp [isMethodL, label, isSigOf, stSigOf, isMethod]

mutual
theorem reachT_shape : (e : Err) → reachT (shape vf e) = (reach e).map (shape vf)
  | .leaf id k => by simp [shape, reachT, reachTL, reach]
  | .barrier id m h => by simp [shape, reachT, reachTL, reach]
  | .wrap id k c => by simp [shape, reachT, reachTL, reach, reachT_shape c]
  | .second id c s => by simp [shape, reachT, reachTL, reach, reachT_shape c]
  | .multi id k cs => by simp [shape, reachT, reach, reachTL_shape cs]
theorem reachTL_shape : (cs : List Err) → reachTL (shapeL vf cs) = (reachL cs).map (shape vf)
  | [] => by simp [shapeL, reachTL, reachL]
  | e :: r => by simp [shapeL, reachTL, reachL, reachT_shape e, reachTL_shape r]
end

/-- the identity-free part of `Is` -/
def isNoId (e r : Err) : Bool :=
  (reach e).any (fun n => isMethod n r || markEquiv (getMark Full n) (getMark Full r))

theorem isNoId_eq_isT (e r : Err) : isNoId e r = isT (getMark Full r) r (shape vf e) := by
  unfold isNoId isT
  rw [reachT_shape, List.any_map]
  congr 1
  funext n
  simp [Function.comp, shape_lbl, isMethodL_label, markT_shape]

/-- Coherence of identities: whenever a layer of `e` is the very object `r`
    (Go `==`), their marks agree — true of real objects (same object, same mark). -/
def NoIdMatch (e r : Err) : Prop :=
  ∀ n ∈ reach e, goEq n r = true → markEquiv (getMark Full n) (getMark Full r) = true

theorem isB_eq_isNoId (e r : Err) (h : NoIdMatch e r) : isB Full e r = isNoId e r := by
  rw [isB_char]
  unfold isNoId
  rw [Bool.eq_iff_iff]
  simp only [List.any_eq_true, layerMatch, selfMatch, Bool.or_eq_true]
  constructor
  · rintro ⟨n, hn, (hg | hm) | hq⟩
    · exact ⟨n, hn, Or.inr (h n hn hg)⟩
    · exact ⟨n, hn, Or.inl hm⟩
    · exact ⟨n, hn, Or.inr hq⟩
  · rintro ⟨n, hn, hm | hq⟩
    · exact ⟨n, hn, Or.inl (Or.inr hm)⟩
    · exact ⟨n, hn, Or.inr hq⟩

/-- errors with the same labelled shape vf are matched by the same references -/
theorem isB_congr_shape (e e' r : Err) (hs : shape vf e' = shape vf e)
    (h : NoIdMatch e r) (h' : NoIdMatch e' r) : isB Full e' r = isB Full e r := by
  rw [isB_eq_isNoId e r h, isB_eq_isNoId e' r h', isNoId_eq_isT, isNoId_eq_isT, hs]

/-- the reference enters `Is` through its mark and, for Is methods, its identity -/
theorem getMark_congr_shape (r r' : Err) (hs : shape vf r' = shape vf r) : getMark Full r' = getMark Full r := by
  rw [← markT_shape, ← markT_shape, hs]

end ErrModel
