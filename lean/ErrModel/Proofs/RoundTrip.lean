import ErrModel.Proofs.Keys
import ErrModel.Proofs.Prefix
import ErrModel.Shape
set_option linter.unusedSimpArgs false
/-
  One hop between knowing processes preserves the visible cause tree and the
  Error() text at every node, and yields a stable tree again (so k hops do too).
  Helper lemmas; the property statements are in Props/C01.lean.
-/
namespace ErrModel

theorem Full_knows (k : Str) : Full.knows k = true := rfl
theorem Full_arch : Full.arch = archHere := rfl

theorem userOK_classify {u : UserTy} (h : userOK u = true) : classify u.name = .other := by
  simp [userOK] at h; exact h.1.1
theorem userOK_family {u : UserTy} (h : userOK u = true) : Full.family u.name = u.name := by
  simp [userOK] at h; exact h.1.2
theorem userOK_notStack {u : UserTy} (h : userOK u = true) : isStackKey u.name = false := by
  simp [userOK] at h; exact h.2

theorem tm_user_leaf (id : Ident) (u : UserTy) (m : Str) (h : userOK u = true) :
    typeMark Full (.leaf id (.user u m)) = ⟨u.name, []⟩ := by
  show (⟨Full.family u.name, []⟩ : TMark) = _
  rw [userOK_family h]
theorem tm_user_wrap (id : Ident) (u : UserTy) (m : Str) (c : Err) (h : userOK u = true) :
    typeMark Full (.wrap id (.user u m) c) = ⟨u.name, []⟩ := by
  show (⟨Full.family u.name, []⟩ : TMark) = _
  rw [userOK_family h]
theorem tm_user_multi (id : Ident) (u : UserTy) (m : Str) (cs : List Err) (h : userOK u = true) :
    typeMark Full (.multi id (.user u m) cs) = ⟨u.name, []⟩ := by
  show (⟨Full.family u.name, []⟩ : TMark) = _
  rw [userOK_family h]

/-- closes the re-encoding goal of a decoded layer -/
macro "enc_tac" : tactic =>
  `(tactic| (simp_all [encode, encodeList, typeKey, Full_knows, Full_arch, detOf, layerDetails, text, wrapText, leafText, multiText, extractPrefix_self, extractPrefix_pfx, mtPrefix, mtFull]))

theorem hop_wrap (vf : Err → Str) (id : Ident) (k : WrapKind) (c : Err) (path : List Nat)
    (h : wrapStable k (text c) = true)
    (hc : ∃ c', decode Full (0 :: path) (encode Full vf c) = some c' ∧ shape vf c' = shape vf c ∧ stable c' = true ∧ encode Full vf c' = encode Full vf c) :
    ∃ e', decode Full path (encode Full vf (.wrap id k c)) = some e' ∧ shape vf e' = shape vf (.wrap id k c) ∧ stable e' = true ∧ encode Full vf e' = encode Full vf (.wrap id k c) := by
  obtain ⟨c', hd, hs, hst, hen⟩ := hc
  have ht : text c' = text c := text_eq_of_shape hs
  cases k with
  | withDomain dom =>
    refine ⟨.wrap path (.withDomain dom) c', ?_, ?_, ?_, ?_⟩
    · simp [encode, decode, hd, typeKey, Full_knows, detOf, buildWrap, decodeHid, layerDetails, extractPrefix_self, text, wrapText]
    · simp [shape, label, storedMark, isSigOf, isMultiNode, stSigOf, annOf, safeOf, layerStackStr, isStackKey, layerHint, layerDetail, layerIssueLink, layerKeys, layerDomain, layerTags, layerHTTP, layerGrpc, isAssertionFailure, isUnimplementedError, isWithIssueLink, timeoutLayer, layerDetails, Err.opaqueDet, detOf, text, wrapText, hs, ht] <;> try rfl
    · simp [stable, wrapStable, hst]
    · enc_tac
  | withContext tags kinds red =>
    simp [wrapStable] at h
    obtain ⟨h1, h2⟩ := h
    refine ⟨.wrap path (.withContext tags [] (if layerDetails Full vf (.wrap id (.withContext tags kinds red) c) = [] then none
        else some (layerDetails Full vf (.wrap id (.withContext tags kinds red) c)))) c', ?_, ?_, ?_, ?_⟩
    · simp [encode, decode, hd, typeKey, Full_knows, detOf, buildWrap, decodeHid, h1, h2]
    · simp [shape, label, storedMark, isSigOf, isMultiNode, stSigOf, annOf, safeOf, layerStackStr, isStackKey, layerHint, layerDetail, layerIssueLink, layerKeys, layerDomain, layerTags, layerHTTP, layerGrpc, isAssertionFailure, isUnimplementedError, isWithIssueLink, timeoutLayer, layerDetails, Err.opaqueDet, detOf, text, wrapText, hs, ht]
      cases red with
      | none =>
        have hne : redactTags tags kinds ≠ [] := by rw [Ne, redactTags_eq_nil]; exact h1.1
        simp [layerDetails, hne]
      | some r => simp at h2; simp [layerDetails, h2]
    · simp [stable, wrapStable, hst, h1, h2]
    · simp [encode, typeKey, Full_knows, detOf, hen]
      cases red with
      | none =>
        have hne : redactTags tags kinds ≠ [] := by rw [Ne, redactTags_eq_nil]; exact h1.1
        simp [layerDetails, hne]
      | some r => simp at h2; simp [layerDetails, h2]
  | withMark m t =>
    simp [wrapStable] at h
    refine ⟨.wrap path (.withMark m t) c', ?_, ?_, ?_, ?_⟩
    · simp [encode, decode, hd, typeKey, Full_knows, detOf, buildWrap, decodeHid, h]
    · simp [shape, label, storedMark, isSigOf, isMultiNode, stSigOf, annOf, safeOf, layerStackStr, isStackKey, layerHint, layerDetail, layerIssueLink, layerKeys, layerDomain, layerTags, layerHTTP, layerGrpc, isAssertionFailure, isUnimplementedError, isWithIssueLink, timeoutLayer, layerDetails, Err.opaqueDet, detOf, text, wrapText, hs, ht] <;> try rfl
    · simp [stable, wrapStable, hst, h]
    · enc_tac
  | fmtWrapError msg =>
    simp [wrapStable] at h
    have hr := extract_reassemble msg (text c) h
    refine ⟨.wrap path (.opaqueWrapper (extractPrefix msg (text c)).1 (detOf Full (.wrap id (.fmtWrapError msg) c) (layerDetails Full vf (.wrap id (.fmtWrapError msg) c)) .none) (extractPrefix msg (text c)).2 []) c', ?_, ?_, ?_, ?_⟩
    · simp [encode, decode, hd, typeKey, Full_knows, detOf, buildWrap, decodeHid, text, wrapText]
    · simp [shape, label, storedMark, isSigOf, isMultiNode, stSigOf, annOf, safeOf, layerStackStr, isStackKey, layerHint, layerDetail, layerIssueLink, layerKeys, layerDomain, layerTags, layerHTTP, layerGrpc, isAssertionFailure, isUnimplementedError, isWithIssueLink, timeoutLayer, layerDetails, Err.opaqueDet, detOf, text, hs, ht, wrapText] <;> (first | exact hr | exact ⟨hr, by simp_all⟩ | simp_all)
    · simp [stable, wrapStable, hst, detOf]
    · enc_tac
  | opaqueWrapper p d mt hid =>
    simp [wrapStable] at h
    refine ⟨.wrap path (.opaqueWrapper p d mt hid) c', ?_, ?_, ?_, ?_⟩
    · simp [encode, decode, hd, Full_knows, buildWrap, h]
    · simp [shape, label, storedMark, isSigOf, isMultiNode, stSigOf, annOf, safeOf, layerStackStr, isStackKey, layerHint, layerDetail, layerIssueLink, layerKeys, layerDomain, layerTags, layerHTTP, layerGrpc, isAssertionFailure, isUnimplementedError, isWithIssueLink, timeoutLayer, layerDetails, Err.opaqueDet, detOf, text, wrapText, hs, ht] <;> try rfl
    · simp [stable, wrapStable, hst, h]
    · enc_tac
  | user u msg =>
    simp [wrapStable] at h
    obtain ⟨hu, hsty⟩ := h
    have hcl : classify u.name = .other := userOK_classify hu
    have hns := userOK_notStack hu
    simp [isStackKey] at hns
    have htm := tm_user_wrap id u msg c hu
    by_cases h0 : u.style = 0
    · simp [h0] at hsty
      refine ⟨.wrap path (.opaqueWrapper msg (detOf Full (.wrap id (.user u msg) c) (layerDetails Full vf (.wrap id (.user u msg) c)) .none) mtPrefix []) c', ?_, ?_, ?_, ?_⟩
      · simp [encode, decode, hd, typeKey, Full_knows, detOf, buildWrap, decodeHid, htm, hcl, text, wrapText, h0, extractPrefix_pfx]
      · simp [shape, label, storedMark, isSigOf, isMultiNode, stSigOf, annOf, safeOf, layerStackStr, isStackKey, layerHint, layerDetail, layerIssueLink, layerKeys, layerDomain, layerTags, layerHTTP, layerGrpc, isAssertionFailure, isUnimplementedError, isWithIssueLink, timeoutLayer, layerDetails, Err.opaqueDet, detOf, text, wrapText, hs, ht, h0, mtPrefix, mtFull, hsty, htm, hns] <;> try rfl
      · simp [stable, wrapStable, hst, htm, hcl, detOf]
      · enc_tac
    · by_cases h1 : u.style = 1
      · simp [h0, h1] at hsty
        have hr := extract_reassemble msg (text c) hsty
        refine ⟨.wrap path (.opaqueWrapper (extractPrefix msg (text c)).1 (detOf Full (.wrap id (.user u msg) c) (layerDetails Full vf (.wrap id (.user u msg) c)) .none) (extractPrefix msg (text c)).2 []) c', ?_, ?_, ?_, ?_⟩
        · simp [encode, decode, hd, typeKey, Full_knows, detOf, buildWrap, decodeHid, htm, hcl, text, wrapText, h0, h1]
        · simp [shape, label, storedMark, isSigOf, isMultiNode, stSigOf, annOf, safeOf, layerStackStr, isStackKey, layerHint, layerDetail, layerIssueLink, layerKeys, layerDomain, layerTags, layerHTTP, layerGrpc, isAssertionFailure, isUnimplementedError, isWithIssueLink, timeoutLayer, layerDetails, Err.opaqueDet, detOf, text, hs, ht, wrapText, h0, h1] <;> (first | exact hr | exact ⟨hr, by simp_all⟩ | simp_all)
        · simp [stable, wrapStable, hst, htm, hcl, detOf]
        · enc_tac
      · refine ⟨.wrap path (.opaqueWrapper [] (detOf Full (.wrap id (.user u msg) c) (layerDetails Full vf (.wrap id (.user u msg) c)) .none) mtPrefix []) c', ?_, ?_, ?_, ?_⟩
        · simp [encode, decode, hd, typeKey, Full_knows, detOf, buildWrap, decodeHid, htm, hcl, text, wrapText, h0, h1, extractPrefix_self]
        · simp [shape, label, storedMark, isSigOf, isMultiNode, stSigOf, annOf, safeOf, layerStackStr, isStackKey, layerHint, layerDetail, layerIssueLink, layerKeys, layerDomain, layerTags, layerHTTP, layerGrpc, isAssertionFailure, isUnimplementedError, isWithIssueLink, timeoutLayer, layerDetails, Err.opaqueDet, detOf, text, wrapText, hs, ht, h0, h1, mtPrefix, mtFull, htm, hns] <;> try rfl
        · simp [stable, wrapStable, hst, htm, hcl, detOf]
        · enc_tac
  | _ =>
    simp [encode, decode, hd, typeKey, Full_knows, Full_arch, detOf, buildWrap, decodeHid, decodeList, shape, label, storedMark, isSigOf, isMultiNode, stSigOf, annOf, safeOf, layerStackStr, isStackKey, layerHint, layerDetail, layerIssueLink, layerKeys, layerDomain, layerTags, layerHTTP, layerGrpc, isAssertionFailure, isUnimplementedError, isWithIssueLink, timeoutLayer, layerDetails, Err.opaqueDet, text, stable,
      wrapStable, wrapText, hs, ht, hst, extractPrefix_self, extractPrefix_pfx, mtPrefix, mtFull] at h ⊢
    all_goals (first | done | exact h | simp_all)

theorem hop_leaf (vf : Err → Str) (id : Ident) (k : LeafKind) (path : List Nat)
    (h : leafStable k = true) :
    ∃ e', decode Full path (encode Full vf (.leaf id k)) = some e' ∧ shape vf e' = shape vf (.leaf id k) ∧ stable e' = true ∧ encode Full vf e' = encode Full vf (.leaf id k) := by
  cases k with
  | opaqueLeaf msg d hid =>
    simp [leafStable] at h
    obtain ⟨h1, h2⟩ := h
    refine ⟨.leaf path (.opaqueLeaf msg d hid), ?_, ?_, ?_, ?_⟩
    · simp [encode, decode, Full_knows, buildLeaf, decodeList, h1]
      cases hid with
      | nil =>
        simp at h2
        cases hp : d.pay <;> simp_all
      | cons a r => simp
    · simp [shape, label, storedMark, isSigOf, isMultiNode, stSigOf, annOf, safeOf, layerStackStr, isStackKey, layerHint, layerDetail, layerIssueLink, layerKeys, layerDomain, layerTags, layerHTTP, layerGrpc, isAssertionFailure, isUnimplementedError, isWithIssueLink, timeoutLayer, layerDetails, Err.opaqueDet, detOf, text, leafText] <;> try rfl
    · simp [stable, leafStable, h1, h2]
    · enc_tac
  | user u msg =>
    simp [leafStable] at h
    have hcl : classify u.name = .other := userOK_classify h
    have hns := userOK_notStack h
    simp [isStackKey] at hns
    have htm := tm_user_leaf id u msg h
    refine ⟨.leaf path (.opaqueLeaf msg (detOf Full (.leaf id (.user u msg)) (layerDetails Full vf (.leaf id (.user u msg))) .none) []), ?_, ?_, ?_, ?_⟩
    · simp [encode, decode, typeKey, Full_knows, detOf, buildLeaf, decodeList, htm, hcl, text, leafText]
    · simp [shape, label, storedMark, isSigOf, isMultiNode, stSigOf, annOf, safeOf, layerStackStr, isStackKey, layerHint, layerDetail, layerIssueLink, layerKeys, layerDomain, layerTags, layerHTTP, layerGrpc, isAssertionFailure, isUnimplementedError, isWithIssueLink, timeoutLayer, layerDetails, Err.opaqueDet, detOf, text, leafText, htm, hns] <;> try rfl
    · simp [stable, leafStable, detOf, htm, hcl]
    · enc_tac
  | grpcStatus c m nd =>
    simp [leafStable] at h
    refine ⟨.leaf path (.grpcStatus c m nd), ?_, ?_, ?_, ?_⟩
    · simp [encode, decode, typeKey, Full_knows, detOf, buildLeaf, decodeList, h]
    · simp [shape, label, storedMark, isSigOf, isMultiNode, stSigOf, annOf, safeOf, layerStackStr, isStackKey, layerHint, layerDetail, layerIssueLink, layerKeys, layerDomain, layerTags, layerHTTP, layerGrpc, isAssertionFailure, isUnimplementedError, isWithIssueLink, timeoutLayer, layerDetails, Err.opaqueDet, text, leafText] <;> try rfl
    · simp [stable, leafStable, h]
    · enc_tac
  | gogoStatus c m nd =>
    simp [leafStable] at h
    refine ⟨.leaf path (.gogoStatus c m nd), ?_, ?_, ?_, ?_⟩
    · simp [encode, decode, typeKey, Full_knows, detOf, buildLeaf, decodeList, h]
    · simp [shape, label, storedMark, isSigOf, isMultiNode, stSigOf, annOf, safeOf, layerStackStr, isStackKey, layerHint, layerDetail, layerIssueLink, layerKeys, layerDomain, layerTags, layerHTTP, layerGrpc, isAssertionFailure, isUnimplementedError, isWithIssueLink, timeoutLayer, layerDetails, Err.opaqueDet, text, leafText] <;> try rfl
    · simp [stable, leafStable, h]
    · enc_tac
  | _ =>
    simp [encode, decode, typeKey, Full_knows, Full_arch, detOf, buildLeaf, decodeHid, decodeList, shape, label, storedMark, isSigOf, isMultiNode, stSigOf, annOf, safeOf, layerStackStr, isStackKey, layerHint, layerDetail, layerIssueLink, layerKeys, layerDomain, layerTags, layerHTTP, layerGrpc, isAssertionFailure, isUnimplementedError, isWithIssueLink, timeoutLayer, layerDetails, Err.opaqueDet, text, stable,
      leafStable, leafText] at h ⊢
    all_goals (first | done | exact h | simp_all)

theorem hop_barrier (vf : Err → Str) (id : Ident) (m : BarrierMsg) (hd : Err) (path : List Nat)
    (hm : m.recv ≠ some [])
    (hc : ∃ c', decode Full (1 :: path) (encode Full vf hd) = some c' ∧ shape vf c' = shape vf hd ∧ stable c' = true ∧ encode Full vf c' = encode Full vf hd) :
    ∃ e', decode Full path (encode Full vf (.barrier id m hd)) = some e' ∧ shape vf e' = shape vf (.barrier id m hd) ∧ stable e' = true ∧ encode Full vf e' = encode Full vf (.barrier id m hd) := by
  obtain ⟨c', hd', hs, hst, hen⟩ := hc
  refine ⟨.barrier path ⟨m.smsg, if layerDetails Full vf (.barrier id m hd) = [] then none else some (layerDetails Full vf (.barrier id m hd))⟩ c', ?_, ?_, ?_, ?_⟩
  · simp [encode, decode, typeKey, Full_knows, detOf, buildLeaf, decodeHid, decodeList, hd']
  · simp [shape, label, storedMark, isSigOf, isMultiNode, stSigOf, annOf, safeOf, layerStackStr, isStackKey, layerHint, layerDetail, layerIssueLink, layerKeys, layerDomain, layerTags, layerHTTP, layerGrpc, isAssertionFailure, isUnimplementedError, isWithIssueLink, timeoutLayer, layerDetails, Err.opaqueDet, text] <;> try rfl
  · simp [stable, hst]
  · simp [encode, typeKey, Full_knows, detOf, hen, layerDetails]
    cases hr : m.recv with
    | none => simp
    | some r =>
      have : r ≠ [] := by intro h0; subst h0; exact hm hr
      simp [this]

theorem hop_second (vf : Err → Str) (id : Ident) (c s : Err) (path : List Nat)
    (hc : ∃ c', decode Full (0 :: path) (encode Full vf c) = some c' ∧ shape vf c' = shape vf c ∧ stable c' = true ∧ encode Full vf c' = encode Full vf c)
    (hsec : ∃ s', decode Full (1 :: path) (encode Full vf s) = some s' ∧ shape vf s' = shape vf s ∧ stable s' = true ∧ encode Full vf s' = encode Full vf s) :
    ∃ e', decode Full path (encode Full vf (.second id c s)) = some e' ∧ shape vf e' = shape vf (.second id c s) ∧ stable e' = true ∧ encode Full vf e' = encode Full vf (.second id c s) := by
  obtain ⟨c', hd, hs, hst, hen⟩ := hc
  obtain ⟨s', hd2, hs2, hst2, hen2⟩ := hsec
  have ht : text c' = text c := text_eq_of_shape hs
  refine ⟨.second path c' s', ?_, ?_, ?_, ?_⟩
  · simp [encode, decode, typeKey, Full_knows, detOf, buildWrap, decodeHid, hd, hd2]
  · simp [shape, label, storedMark, isSigOf, isMultiNode, stSigOf, annOf, safeOf, layerStackStr, isStackKey, layerHint, layerDetail, layerIssueLink, layerKeys, layerDomain, layerTags, layerHTTP, layerGrpc, isAssertionFailure, isUnimplementedError, isWithIssueLink, timeoutLayer, layerDetails, Err.opaqueDet, detOf, text, hs, ht] <;> try rfl
  · simp [stable, hst, hst2]
  · enc_tac

theorem shapeL_length : ∀ {a b : List Err}, shapeL vf a = shapeL vf b → a.length = b.length
  | [], [], _ => rfl
  | [], _ :: _, h => by simp [shapeL] at h
  | _ :: _, [], h => by simp [shapeL] at h
  | _ :: a, _ :: b, h => by
    simp [shapeL] at h
    simp [shapeL_length h.2]

theorem hop_multi (vf : Err → Str) (id : Ident) (k : MultiKind) (cs : List Err) (path : List Nat)
    (h : multiStable k cs.length = true)
    (hc : ∃ cs', decodeList Full path 2 (encodeList Full vf cs) = some cs' ∧ shapeL vf cs' = shapeL vf cs ∧ stableL cs' = true ∧ encodeList Full vf cs' = encodeList Full vf cs) :
    ∃ e', decode Full path (encode Full vf (.multi id k cs)) = some e' ∧ shape vf e' = shape vf (.multi id k cs) ∧ stable e' = true ∧ encode Full vf e' = encode Full vf (.multi id k cs) := by
  obtain ⟨cs', hd, hs, hst, hen⟩ := hc
  have ht : textList cs' = textList cs := textList_eq_of_shapeL hs
  have hl : cs'.length = cs.length := shapeL_length hs
  simp only [multiStable, Bool.and_eq_true, decide_eq_true_eq] at h
  obtain ⟨hn, h⟩ := h
  have hl' : cs'.length ≠ 0 := by rw [hl]; exact hn
  obtain ⟨a, r, hcs⟩ : ∃ a r, cs' = a :: r := by
    cases cs' with
    | nil => simp at hl'
    | cons a r => exact ⟨a, r, rfl⟩
  cases k with
  | join =>
    refine ⟨.multi path .join cs', ?_, ?_, ?_, ?_⟩
    · simp [encode, decode, typeKey, Full_knows, detOf, buildLeaf, decodeHid, hd, hcs]
    · simp [shape, label, storedMark, isSigOf, isMultiNode, stSigOf, annOf, safeOf, layerStackStr, isStackKey, layerHint, layerDetail, layerIssueLink, layerKeys, layerDomain, layerTags, layerHTTP, layerGrpc, isAssertionFailure, isUnimplementedError, isWithIssueLink, timeoutLayer, layerDetails, Err.opaqueDet, text, multiText, hs, ht] <;> try rfl
    · simp [stable, multiStable, hst, hl']
    · enc_tac
  | opaqueLeafCauses msg d hid =>
    simp at h
    obtain ⟨h1, h2⟩ := h
    refine ⟨.multi path (.opaqueLeafCauses msg d hid) cs', ?_, ?_, ?_, ?_⟩
    · simp [encode, decode, Full_knows, buildLeaf, hd, hcs, h1]
      cases hid with
      | nil => simp at h2; cases hp : d.pay <;> simp_all
      | cons a r => simp
    · simp [shape, label, storedMark, isSigOf, isMultiNode, stSigOf, annOf, safeOf, layerStackStr, isStackKey, layerHint, layerDetail, layerIssueLink, layerKeys, layerDomain, layerTags, layerHTTP, layerGrpc, isAssertionFailure, isUnimplementedError, isWithIssueLink, timeoutLayer, layerDetails, Err.opaqueDet, text, multiText, hs] <;> try rfl
    · simp [stable, multiStable, hst, h1, h2, hl']
    · enc_tac
  | stdJoin =>
    refine ⟨.multi path (.opaqueLeafCauses (text (.multi id .stdJoin cs)) (detOf Full (.multi id .stdJoin cs) (layerDetails Full vf (.multi id .stdJoin cs)) .none) []) cs', ?_, ?_, ?_, ?_⟩
    · simp [encode, decode, typeKey, Full_knows, detOf, buildLeaf, hd, hcs]
    · simp [shape, label, storedMark, isSigOf, isMultiNode, stSigOf, annOf, safeOf, layerStackStr, isStackKey, layerHint, layerDetail, layerIssueLink, layerKeys, layerDomain, layerTags, layerHTTP, layerGrpc, isAssertionFailure, isUnimplementedError, isWithIssueLink, timeoutLayer, layerDetails, Err.opaqueDet, detOf, text, multiText, hs] <;> try rfl
    · simp [stable, multiStable, hst, detOf, hl']
    · enc_tac
  | fmtWrapErrors m =>
    refine ⟨.multi path (.opaqueLeafCauses (text (.multi id (.fmtWrapErrors m) cs)) (detOf Full (.multi id (.fmtWrapErrors m) cs) (layerDetails Full vf (.multi id (.fmtWrapErrors m) cs)) .none) []) cs', ?_, ?_, ?_, ?_⟩
    · simp [encode, decode, typeKey, Full_knows, detOf, buildLeaf, hd, hcs]
    · simp [shape, label, storedMark, isSigOf, isMultiNode, stSigOf, annOf, safeOf, layerStackStr, isStackKey, layerHint, layerDetail, layerIssueLink, layerKeys, layerDomain, layerTags, layerHTTP, layerGrpc, isAssertionFailure, isUnimplementedError, isWithIssueLink, timeoutLayer, layerDetails, Err.opaqueDet, detOf, text, multiText, hs] <;> try rfl
    · simp [stable, multiStable, hst, detOf, hl']
    · enc_tac
  | user u m =>
    simp at h
    have hcl : classify u.name = .other := userOK_classify h
    have hns := userOK_notStack h
    simp [isStackKey] at hns
    have htm := tm_user_multi id u m cs h
    refine ⟨.multi path (.opaqueLeafCauses (text (.multi id (.user u m) cs)) (detOf Full (.multi id (.user u m) cs) (layerDetails Full vf (.multi id (.user u m) cs)) .none) []) cs', ?_, ?_, ?_, ?_⟩
    · simp [encode, decode, typeKey, Full_knows, detOf, buildLeaf, hd, hcs, htm, hcl]
    · simp [shape, label, storedMark, isSigOf, isMultiNode, stSigOf, annOf, safeOf, layerStackStr, isStackKey, layerHint, layerDetail, layerIssueLink, layerKeys, layerDomain, layerTags, layerHTTP, layerGrpc, isAssertionFailure, isUnimplementedError, isWithIssueLink, timeoutLayer, layerDetails, Err.opaqueDet, detOf, text, multiText, hs, htm, htm, hns] <;> try rfl
    · simp [stable, multiStable, hst, detOf, htm, hcl, hl']
    · enc_tac

mutual
/-- One hop between knowing processes: decoding succeeds, the visible tree and the
    text at every node are unchanged, the result is stable again, and it re-encodes to the very
    message it was decoded from. -/
theorem hop_ok_enc (vf : Err → Str) : (e : Err) → (path : List Nat) → stable e = true →
    ∃ e', decode Full path (encode Full vf e) = some e' ∧ shape vf e' = shape vf e ∧ stable e' = true ∧
      encode Full vf e' = encode Full vf e
  | .leaf id k, path, h => hop_leaf vf id k path (by simpa [stable] using h)
  | .barrier id m hd, path, h =>
    hop_barrier vf id m hd path (by simp [stable] at h; exact h.1) (hop_ok_enc vf hd (1 :: path) (by simp [stable] at h; exact h.2))
  | .wrap id k c, path, h => by
    simp [stable] at h
    exact hop_wrap vf id k c path h.1 (hop_ok_enc vf c (0 :: path) h.2)
  | .second id c s, path, h => by
    simp [stable] at h
    exact hop_second vf id c s path (hop_ok_enc vf c (0 :: path) h.1) (hop_ok_enc vf s (1 :: path) h.2)
  | .multi id k cs, path, h => by
    simp [stable] at h
    exact hop_multi vf id k cs path h.1 (hop_ok_list_enc vf cs path 2 h.2)
theorem hop_ok_list_enc (vf : Err → Str) : (cs : List Err) → (path : List Nat) → (i : Nat) → stableL cs = true →
    ∃ cs', decodeList Full path i (encodeList Full vf cs) = some cs' ∧ shapeL vf cs' = shapeL vf cs ∧ stableL cs' = true ∧
      encodeList Full vf cs' = encodeList Full vf cs
  | [], _, _, _ => ⟨[], by simp [encodeList, decodeList], rfl, rfl, rfl⟩
  | e :: r, path, i, h => by
    simp [stableL] at h
    obtain ⟨e', he, hs, hst, hen⟩ := hop_ok_enc vf e (i :: path) h.1
    obtain ⟨r', hr, hsr, hstr, henr⟩ := hop_ok_list_enc vf r path (i + 1) h.2
    exact ⟨e' :: r', by simp [encodeList, decodeList, he, hr], by simp [shapeL, hs, hsr], by simp [stableL, hst, hstr],
      by simp [encodeList, hen, henr]⟩
end

/-- One hop between knowing processes: decoding succeeds, the visible tree and the
    text at every node are unchanged, and the result is stable again. -/
theorem hop_ok (vf : Err → Str) (e : Err) (path : List Nat) (h : stable e = true) :
    ∃ e', decode Full path (encode Full vf e) = some e' ∧ shape vf e' = shape vf e ∧ stable e' = true := by
  obtain ⟨e', h1, h2, h3, _⟩ := hop_ok_enc vf e path h
  exact ⟨e', h1, h2, h3⟩

end ErrModel
