import ErrModel.Proofs.RoundTrip
set_option linter.unusedSimpArgs false
set_option linter.unusedVariables false
/-
  A hop to a process that knows an ARBITRARY SUBSET of the type keys (`Sub S`): every
  layer is either rebuilt by its decoder (key in `S`) or carried by an opaque stand-in
  (key outside `S`), layer by layer in any mixture.  Whatever the subset, the received
  error re-encodes to exactly the message that arrived, so every later process decodes
  what it would have decoded had it received the message directly.
  Helper lemmas; the property statements are in Props/C04.lean.
-/
namespace ErrModel

/-- the process that has exactly the type keys in `S` registered (same migration registry and architecture) -/
def Sub (S : Str → Bool) : Proc := ⟨baseReg, S, archHere⟩

@[simp] theorem Sub_knows (S : Str → Bool) (k : Str) : (Sub S).knows k = S k := rfl
@[simp] theorem Sub_arch (S : Str → Bool) : (Sub S).arch = archHere := rfl
theorem Sub_true : Sub (fun _ => true) = Full := rfl

@[simp] theorem typeMark_Sub (S : Str → Bool) (e : Err) : typeMark (Sub S) e = typeMark Full e := rfl
@[simp] theorem typeKey_Sub (S : Str → Bool) (e : Err) : typeKey (Sub S) e = typeKey Full e := rfl

mutual
theorem layerDetails_Sub (S : Str → Bool) (vf : Err → Str) : (e : Err) → layerDetails (Sub S) vf e = layerDetails Full vf e
  | .leaf id k => by cases k <;> simp only [layerDetails]
  | .barrier id m h => by
    cases hr : m.recv with
    | none => simp [layerDetails, hr, chainFill_Sub S vf h]
    | some r => simp [layerDetails, hr]
  | .wrap id k c => by
    cases k <;> first | (simp only [layerDetails]; done) | (rename_i a b r; cases r <;> simp only [layerDetails])
  | .second id c s => by simp [layerDetails, chainFill_Sub S vf s]
  | .multi id k cs => by cases k <;> simp only [layerDetails]
theorem chainFill_Sub (S : Str → Bool) (vf : Err → Str) : (e : Err) → chainFill (Sub S) vf e = chainFill Full vf e
  | .leaf id k => by simp [chainFill, layerDetails_Sub S vf (.leaf id k)]
  | .barrier id m h => by simp [chainFill, layerDetails_Sub S vf (.barrier id m h)]
  | .wrap id k c => by simp [chainFill, layerDetails_Sub S vf (.wrap id k c), chainFill_Sub S vf c]
  | .second id c s => by simp [chainFill, layerDetails_Sub S vf (.second id c s), chainFill_Sub S vf c]
  | .multi id k cs => by simp [chainFill, layerDetails_Sub S vf (.multi id k cs)]
end

@[simp] theorem detOf_Sub (S : Str → Bool) (e : Err) (rep : List Str) (pay : Pay) : detOf (Sub S) e rep pay = detOf Full e rep pay := rfl

/-- every wrapper is sent as a wrapper node around the encoding of its cause, under its own type mark -/
theorem encode_wrap_form (P : Proc) (vf : Err → Str) (id : Ident) (k : WrapKind) (c : Err) :
    ∃ msg d mt hid, encode P vf (.wrap id k c) = .wrap msg d mt hid (encode P vf c) ∧
      d.mark = typeMark P (.wrap id k c) := by
  cases k <;> simp only [encode] <;> (try split) <;> exact ⟨_, _, _, _, rfl, rfl⟩

/-- the Error() text an unknowing process shows for a wire message -/
def wireText : Enc → Str
  | .leaf msg _ _ _ => msg
  | .wrap msg _ mt _ cause => opaqueText msg mt (wireText cause)

/-- wrappers whose wire message lets an unknowing process show the origin's text -/
def wrapFaithful (k : WrapKind) : Bool :=
  match k with
  | .withPrefix p => p = [] || stripMarkers p ≠ []
  | .pkgWithMessage m => m ≠ []
  | .syscallError sc => sc ≠ []
  | _ => true

macro "lbl_simp" : tactic =>
  `(tactic| simp [encode, decode, typeKey, Full_knows, Full_arch, detOf, buildWrap, buildLeaf, decodeHid, decodeList, layerDetails, text, wrapText, leafText, multiText, extractPrefix_self, extractPrefix_pfx, mtPrefix, mtFull, opaqueText] at *)

/-- what an opaque stand-in built from the wire message of a wrapper prints -/
theorem wire_wrap_text (vf : Err → Str) (id : Ident) (k : WrapKind) (c : Err) (ct : Str)
    (h : wrapStable k (text c) = true) (hf : wrapFaithful k = true) (hct : ct = text c)
    (msg : Str) (d : Det) (mt : Nat) (hid : List Enc) (w : Enc)
    (hw : encode Full vf (.wrap id k c) = .wrap msg d mt hid w) :
    opaqueText msg mt ct = text (.wrap id k c) := by
  subst hct
  cases k with
  | fmtWrapError m =>
    simp [wrapStable] at h
    have hr := extract_reassemble m (text c) h
    simp [encode, text, wrapText] at hw
    obtain ⟨h1, _, h3, _⟩ := hw
    simp [text, wrapText, ← h1, ← h3, hr]
  | user u m =>
    simp [wrapStable] at h
    obtain ⟨hu, hsty⟩ := h
    by_cases h0 : u.style = 0
    · simp [h0] at hsty
      simp [encode, text, wrapText, h0, extractPrefix_pfx] at hw
      obtain ⟨h1, _, h3, _⟩ := hw
      simp [text, wrapText, h0, ← h1, ← h3, opaqueText, mtPrefix, mtFull, hsty]
    · by_cases h1 : u.style = 1
      · simp [h0, h1] at hsty
        have hr := extract_reassemble m (text c) hsty
        simp [encode, text, wrapText, h0, h1] at hw
        obtain ⟨h1', _, h3, _⟩ := hw
        simp [text, wrapText, h0, h1, ← h1', ← h3, hr]
      · simp [encode, text, wrapText, h0, h1, extractPrefix_self] at hw
        obtain ⟨h1', _, h3, _⟩ := hw
        simp [text, wrapText, h0, h1, ← h1', ← h3, opaqueText, mtPrefix, mtFull]
  | _ =>
    simp [encode, Full_knows, typeKey, text, wrapText, extractPrefix_self, extractPrefix_pfx, wrapFaithful, wrapStable] at h hf hw ⊢
    all_goals (obtain ⟨h1, _, h3, _⟩ := hw)
    all_goals (subst h1; subst h3)
    all_goals (simp [opaqueText, mtPrefix, mtFull, sp])
    all_goals (first | done | (intro h0; exact absurd h0 hf) | skip)
    all_goals (
      rename_i p _ _
      by_cases hp : p = []
      · subst hp; simp [stripMarkers, stripToks, lex]
      · have := hf.resolve_left hp; simp [this, hp])


theorem hopQ_wrap (S : Str → Bool) (vf : Err → Str) (id : Ident) (k : WrapKind) (c c' : Err) (path : List Nat)
    (h : wrapStable k (text c) = true)
    (hd : decode (Sub S) (0 :: path) (encode Full vf c) = some c')
    (hen : encode (Sub S) vf c' = encode Full vf c) :
    ∃ e', decode (Sub S) path (encode Full vf (.wrap id k c)) = some e' ∧
      encode (Sub S) vf e' = encode Full vf (.wrap id k c) ∧
      (wrapFaithful k = true → text c' = text c → text e' = text (.wrap id k c)) := by
  -- a layer whose key is not registered here, or has no decoder anywhere, is carried by the opaque stand-in
  have hopq : (S (typeKey Full (.wrap id k c)) = false ∨ classify (typeKey Full (.wrap id k c)) = .other) →
      ∃ e', decode (Sub S) path (encode Full vf (.wrap id k c)) = some e' ∧
        encode (Sub S) vf e' = encode Full vf (.wrap id k c) ∧
        (wrapFaithful k = true → text c' = text c → text e' = text (.wrap id k c)) := by
    intro hor
    obtain ⟨msg, d, mt, hid, hform, hmark⟩ := encode_wrap_form Full vf id k c
    have hk' : S d.mark.fam = false ∨ classify d.mark.fam = .other := by
      rw [hmark]; simpa [typeKey] using hor
    refine ⟨.wrap path (.opaqueWrapper msg d mt hid) c', ?_, ?_, ?_⟩
    · rw [hform]; simp [decode, hd, buildWrap]
      rcases hk' with hk' | hk'
      · simp [hk']
      · cases hS : S d.mark.fam <;> simp [hk']
    · rw [hform]; simp [encode, hen]
    · intro hf ht
      rw [show text (.wrap path (.opaqueWrapper msg d mt hid) c') = opaqueText msg mt (text c') from rfl]
      exact wire_wrap_text vf id k c (text c') h hf ht msg d mt hid _ hform
  by_cases hk : S (typeKey Full (.wrap id k c)) = true
  · cases k with
    | fmtWrapError m => exact hopq (Or.inr (by simp [typeKey]))
    | opaqueWrapper p d mt hid =>
      simp [wrapStable] at h
      exact hopq (Or.inr (by simpa [typeKey] using h))
    | user u m =>
      simp [wrapStable] at h
      exact hopq (Or.inr (by simp [typeKey, tm_user_wrap id u m c h.1, userOK_classify h.1]))
    | withMark m t =>
      simp [typeKey, wrapStable] at h hk
      simp [encode, decode, hd, typeKey, Full_knows, Full_arch, detOf, buildWrap, decodeHid, decodeList, layerDetails, text, wrapText, extractPrefix_self, extractPrefix_pfx, mtPrefix, mtFull, hen, hk, h, layerDetails_Sub, wrapFaithful]
    | withContext tags kinds red =>
      simp [typeKey, wrapStable] at h hk
      obtain ⟨h1, h2⟩ := h
      have hld : layerDetails Full vf (.wrap id (.withContext tags kinds red) c) ≠ [] := by
        cases red with
        | none =>
          have hne : redactTags tags kinds ≠ [] := by rw [Ne, redactTags_eq_nil]; exact h1.1
          simp [layerDetails, hne]
        | some r => simp at h2; simp [layerDetails, h2]
      simp [encode, decode, hd, typeKey, Full_knows, Full_arch, detOf, buildWrap, decodeHid, decodeList, text, wrapText, extractPrefix_self, extractPrefix_pfx, mtPrefix, mtFull, hen, hk, h1, h2, hld, layerDetails_Sub, wrapFaithful]
      simp [layerDetails, hld]
    | _ =>
      simp [typeKey, wrapStable] at h hk
      simp [encode, decode, hd, typeKey, Full_knows, Full_arch, detOf, buildWrap, decodeHid, decodeList, layerDetails, text, wrapText, extractPrefix_self, extractPrefix_pfx, mtPrefix, mtFull, hen, hk, layerDetails_Sub, wrapFaithful]
      all_goals (first | done | simp_all | skip)
  · exact hopq (Or.inl (by simpa using hk))


/-- leaves whose wire message is their Error() text (not so for gRPC status errors: recorded finding D13) -/
def leafFaithful (k : LeafKind) : Bool :=
  match k with
  | .grpcStatus .. => false
  | .gogoStatus .. => false
  | _ => true

theorem hopQ_leaf (S : Str → Bool) (vf : Err → Str) (id : Ident) (k : LeafKind) (path : List Nat)
    (h : leafStable k = true) :
    ∃ e', decode (Sub S) path (encode Full vf (.leaf id k)) = some e' ∧
      encode (Sub S) vf e' = encode Full vf (.leaf id k) ∧
      (leafFaithful k = true → text e' = text (.leaf id k)) := by
  cases hk : S (typeKey Full (.leaf id k)) <;> cases k
  case true.opaqueLeaf msg d hid =>
    simp [typeKey, leafStable] at h hk
    refine ⟨.leaf path (.opaqueLeaf msg d hid), ?_, by simp [encode], by simp [text, leafText]⟩
    simp [encode, decode, buildLeaf, decodeList, hk, h.1]
    cases hid with
    | nil => cases hp : d.pay <;> simp_all
    | cons a r => simp
  case true.user u msg =>
    simp [leafStable] at h
    have hcl : classify u.name = .other := userOK_classify h
    have htm := tm_user_leaf id u msg h
    refine ⟨.leaf path (.opaqueLeaf msg (detOf Full (.leaf id (.user u msg)) (layerDetails Full vf (.leaf id (.user u msg))) .none) []), ?_, ?_, ?_⟩
    · simp [encode, decode, typeKey, Full_knows, detOf, buildLeaf, decodeList, htm, hcl, text, leafText]
    · simp [encode, text, leafText]
    · simp [text, leafText]
  all_goals simp [typeKey, leafStable] at h hk
  all_goals simp [encode, decode, typeKey, Full_knows, Full_arch, detOf, buildLeaf, decodeHid, decodeList, layerDetails, text, leafText, hk, h, layerDetails_Sub, leafFaithful]


theorem hopQ_barrier (S : Str → Bool) (vf : Err → Str) (id : Ident) (m : BarrierMsg) (hdE c' : Err) (path : List Nat)
    (hm : m.recv ≠ some [])
    (hd : decode (Sub S) (1 :: path) (encode Full vf hdE) = some c')
    (hen : encode (Sub S) vf c' = encode Full vf hdE) :
    ∃ e', decode (Sub S) path (encode Full vf (.barrier id m hdE)) = some e' ∧
      encode (Sub S) vf e' = encode Full vf (.barrier id m hdE) ∧
      (stripMarkers m.smsg = m.smsg → text e' = text (.barrier id m hdE)) := by
  have hld : layerDetails Full vf (.barrier id m hdE) ≠ [] := by
    cases hr : m.recv with
    | none => simp [layerDetails, hr]
    | some r =>
      have : r ≠ [] := by intro h0; subst h0; exact hm hr
      simp [layerDetails, hr, this]
  cases hk : S (typeKey Full (.barrier id m hdE))
  · simp [typeKey] at hk
    refine ⟨.leaf path (.opaqueLeaf m.smsg (detOf Full (.barrier id m hdE) (layerDetails Full vf (.barrier id m hdE)) .none) [encode Full vf hdE]), ?_, ?_, ?_⟩
    · simp [encode, decode, typeKey, Full_knows, detOf, buildLeaf, decodeHid, decodeList, hk]
    · simp [encode, typeKey, Full_knows, detOf]
    · intro hs; simp [text, leafText, hs]
  · simp [typeKey] at hk
    refine ⟨.barrier path ⟨m.smsg, some (layerDetails Full vf (.barrier id m hdE))⟩ c', ?_, ?_, ?_⟩
    · simp [encode, decode, typeKey, Full_knows, detOf, buildLeaf, decodeHid, decodeList, hd, hk, hld]
    · simp [encode, typeKey, Full_knows, detOf, hen, hk, layerDetails_Sub]
      simp [layerDetails]
    · intro _; simp [text]

theorem hopQ_second (S : Str → Bool) (vf : Err → Str) (id : Ident) (c s c' s' : Err) (path : List Nat)
    (hd : decode (Sub S) (0 :: path) (encode Full vf c) = some c')
    (hen : encode (Sub S) vf c' = encode Full vf c)
    (hd2 : decode (Sub S) (1 :: path) (encode Full vf s) = some s')
    (hen2 : encode (Sub S) vf s' = encode Full vf s) :
    ∃ e', decode (Sub S) path (encode Full vf (.second id c s)) = some e' ∧
      encode (Sub S) vf e' = encode Full vf (.second id c s) ∧
      (text c' = text c → text e' = text (.second id c s)) := by
  cases hk : S (typeKey Full (.second id c s))
  · simp [typeKey] at hk
    refine ⟨.wrap path (.opaqueWrapper [] (detOf Full (.second id c s) [] .none) mtPrefix [encode Full vf s]) c', ?_, ?_, ?_⟩
    · simp [encode, decode, typeKey, Full_knows, detOf, buildWrap, decodeHid, hd, hk]
    · simp [encode, typeKey, Full_knows, detOf, hen]
    · intro ht; simp [text, wrapText, mtPrefix, mtFull, ht]
  · simp [typeKey] at hk
    refine ⟨.second path c' s', ?_, ?_, ?_⟩
    · simp [encode, decode, typeKey, Full_knows, detOf, buildWrap, decodeHid, hd, hd2, hk]
    · simp [encode, typeKey, Full_knows, detOf, hen, hen2, hk]
    · intro ht; simp [text, ht]

theorem encodeList_length (P : Proc) (vf : Err → Str) : ∀ l : List Err, (encodeList P vf l).length = l.length
  | [] => rfl
  | _ :: r => by simp [encodeList, encodeList_length P vf r]

theorem hopQ_multi (S : Str → Bool) (vf : Err → Str) (id : Ident) (k : MultiKind) (cs cs' : List Err) (path : List Nat)
    (h : multiStable k cs.length = true)
    (hd : decodeList (Sub S) path 2 (encodeList Full vf cs) = some cs')
    (hen : encodeList (Sub S) vf cs' = encodeList Full vf cs) :
    ∃ e', decode (Sub S) path (encode Full vf (.multi id k cs)) = some e' ∧
      (textList cs' = textList cs → encode (Sub S) vf e' = encode Full vf (.multi id k cs)) ∧
      (textList cs' = textList cs → text e' = text (.multi id k cs)) := by
  have hl : cs'.length = cs.length := by
    have := congrArg List.length hen
    simpa [encodeList_length] using this
  simp only [multiStable, Bool.and_eq_true, decide_eq_true_eq] at h
  obtain ⟨hn, h⟩ := h
  have hl' : cs'.length ≠ 0 := by rw [hl]; exact hn
  obtain ⟨a, r, hcs⟩ : ∃ a r, cs' = a :: r := by
    cases cs' with
    | nil => simp at hl'
    | cons a r => exact ⟨a, r, rfl⟩
  cases k with
  | join =>
    cases hk : S (typeKey Full (.multi id .join cs))
    · simp [typeKey] at hk
      refine ⟨.multi path (.opaqueLeafCauses (text (.multi id .join cs)) (detOf Full (.multi id .join cs) [] .none) []) cs', ?_, ?_, ?_⟩
      · simp [encode, decode, typeKey, Full_knows, detOf, buildLeaf, decodeHid, hd, hcs, hk]
      · simp [encode, hen]
      · intro _; simp [text, multiText]
    · simp [typeKey] at hk
      refine ⟨.multi path .join cs', ?_, ?_, ?_⟩
      · simp [encode, decode, typeKey, Full_knows, detOf, buildLeaf, decodeHid, hd, hcs, hk]
      · intro ht; simp [encode, typeKey, Full_knows, detOf, hen, text, multiText, ht]
      · intro ht; simp [text, multiText, ht]
  | opaqueLeafCauses msg d hid =>
    simp at h
    obtain ⟨h1, h2⟩ := h
    refine ⟨.multi path (.opaqueLeafCauses msg d hid) cs', ?_, by simp [encode, hen], by intro _; simp [text, multiText]⟩
    simp [encode, decode, buildLeaf, hd, hcs, h1]
    cases hS : S d.mark.fam <;> simp
    cases hid with
    | nil => simp at h2; cases hp : d.pay <;> simp_all
    | cons a r => simp
  | stdJoin =>
    refine ⟨.multi path (.opaqueLeafCauses (text (.multi id .stdJoin cs)) (detOf Full (.multi id .stdJoin cs) (layerDetails Full vf (.multi id .stdJoin cs)) .none) []) cs', ?_, by simp [encode, hen], by intro _; simp [text, multiText]⟩
    simp [encode, decode, typeKey, Full_knows, detOf, buildLeaf, hd, hcs]
  | fmtWrapErrors m =>
    refine ⟨.multi path (.opaqueLeafCauses (text (.multi id (.fmtWrapErrors m) cs)) (detOf Full (.multi id (.fmtWrapErrors m) cs) (layerDetails Full vf (.multi id (.fmtWrapErrors m) cs)) .none) []) cs', ?_, by simp [encode, hen], by intro _; simp [text, multiText]⟩
    simp [encode, decode, typeKey, Full_knows, detOf, buildLeaf, hd, hcs]
  | user u m =>
    simp at h
    have hcl : classify u.name = .other := userOK_classify h
    have htm := tm_user_multi id u m cs h
    refine ⟨.multi path (.opaqueLeafCauses (text (.multi id (.user u m) cs)) (detOf Full (.multi id (.user u m) cs) (layerDetails Full vf (.multi id (.user u m) cs)) .none) []) cs', ?_, by simp [encode, hen], by intro _; simp [text, multiText]⟩
    simp [encode, decode, typeKey, Full_knows, detOf, buildLeaf, hd, hcs, htm, hcl]


mutual
/-- every layer (hidden ones included) puts on the wire a message from which a process that
    does not know its type shows the origin's Error() text.  Excluded: barriers whose message
    has redaction markers (finding D7), gRPC status leaves (finding D13), and prefix wrappers
    with an empty prefix that still print the separator. -/
def faithful : Err → Bool
  | .leaf _ k => leafFaithful k
  | .barrier _ m h => decide (stripMarkers m.smsg = m.smsg) && faithful h
  | .wrap _ k c => wrapFaithful k && faithful c
  | .second _ c s => faithful c && faithful s
  | .multi _ _ cs => faithfulL cs
def faithfulL : List Err → Bool
  | [] => true
  | e :: r => faithful e && faithfulL r
end

mutual
/-- One hop from a knowing process to a process that knows ANY subset `S` of the type keys:
    decoding succeeds, the received error re-encodes to exactly the message that arrived, and
    it shows the origin's Error() text. -/
theorem hopQ_ok (S : Str → Bool) (vf : Err → Str) : (e : Err) → (path : List Nat) → stable e = true → faithful e = true →
    ∃ e', decode (Sub S) path (encode Full vf e) = some e' ∧ encode (Sub S) vf e' = encode Full vf e ∧ text e' = text e
  | .leaf id k, path, h, hf => by
    obtain ⟨e', h1, h2, h3⟩ := hopQ_leaf S vf id k path (by simpa [stable] using h)
    exact ⟨e', h1, h2, h3 (by simpa [faithful] using hf)⟩
  | .barrier id m hd, path, h, hf => by
    simp [stable] at h; simp [faithful] at hf
    obtain ⟨c', hc1, hc2, _⟩ := hopQ_ok S vf hd (1 :: path) h.2 hf.2
    obtain ⟨e', h1, h2, h3⟩ := hopQ_barrier S vf id m hd c' path h.1 hc1 hc2
    exact ⟨e', h1, h2, h3 hf.1⟩
  | .wrap id k c, path, h, hf => by
    simp [stable] at h; simp [faithful] at hf
    obtain ⟨c', hc1, hc2, hc3⟩ := hopQ_ok S vf c (0 :: path) h.2 hf.2
    obtain ⟨e', h1, h2, h3⟩ := hopQ_wrap S vf id k c c' path h.1 hc1 hc2
    exact ⟨e', h1, h2, h3 hf.1 hc3⟩
  | .second id c s, path, h, hf => by
    simp [stable] at h; simp [faithful] at hf
    obtain ⟨c', hc1, hc2, hc3⟩ := hopQ_ok S vf c (0 :: path) h.1 hf.1
    obtain ⟨s', hs1, hs2, _⟩ := hopQ_ok S vf s (1 :: path) h.2 hf.2
    obtain ⟨e', h1, h2, h3⟩ := hopQ_second S vf id c s c' s' path hc1 hc2 hs1 hs2
    exact ⟨e', h1, h2, h3 hc3⟩
  | .multi id k cs, path, h, hf => by
    simp [stable] at h; simp [faithful] at hf
    obtain ⟨cs', hc1, hc2, hc3⟩ := hopQ_ok_list S vf cs path 2 h.2 hf
    obtain ⟨e', h1, h2, h3⟩ := hopQ_multi S vf id k cs cs' path h.1 hc1 hc2
    exact ⟨e', h1, h2 hc3, h3 hc3⟩
theorem hopQ_ok_list (S : Str → Bool) (vf : Err → Str) : (cs : List Err) → (path : List Nat) → (i : Nat) → stableL cs = true → faithfulL cs = true →
    ∃ cs', decodeList (Sub S) path i (encodeList Full vf cs) = some cs' ∧ encodeList (Sub S) vf cs' = encodeList Full vf cs ∧
      textList cs' = textList cs
  | [], _, _, _, _ => ⟨[], by simp [encodeList, decodeList], rfl, rfl⟩
  | e :: r, path, i, h, hf => by
    simp [stableL] at h; simp [faithfulL] at hf
    obtain ⟨e', he, hen, ht⟩ := hopQ_ok S vf e (i :: path) h.1 hf.1
    obtain ⟨r', hr, henr, htr⟩ := hopQ_ok_list S vf r path (i + 1) h.2 hf.2
    exact ⟨e' :: r', by simp [encodeList, decodeList, he, hr], by simp [encodeList, hen, henr], by simp [textList, ht, htr]⟩
end


/-! ## Type names and marks of every layer, read off the wire -/

/-- the visible cause tree with, at every layer, the original type name and the type mark -/
inductive NTree
  | node (otype : Str) (mark : TMark) (multi : Bool) (kids : List NTree)
  deriving Repr, Inhabited

section
variable (P : Proc)
mutual
def names : Err → NTree
  | .leaf id k => .node (origTypeName (.leaf id k)) (typeMark P (.leaf id k)) false []
  | .barrier id m h => .node (origTypeName (.barrier id m h)) (typeMark P (.barrier id m h)) false []
  | .wrap id k c => .node (origTypeName (.wrap id k c)) (typeMark P (.wrap id k c)) false [names c]
  | .second id c s => .node (origTypeName (.second id c s)) (typeMark P (.second id c s)) false [names c]
  | .multi id k cs => .node (origTypeName (.multi id k cs)) (typeMark P (.multi id k cs)) (!cs.isEmpty) (namesL cs)
def namesL : List Err → List NTree
  | [] => []
  | e :: r => names e :: namesL r
end
end

mutual
def wireNames : Enc → NTree
  | .leaf _ d _ causes => .node d.origType d.mark (!causes.isEmpty) (wireNamesL causes)
  | .wrap _ d _ _ cause => .node d.origType d.mark false [wireNames cause]
def wireNamesL : List Enc → List NTree
  | [] => []
  | e :: r => wireNames e :: wireNamesL r
end

theorem encodeList_isEmpty (P : Proc) (vf : Err → Str) (cs : List Err) : (encodeList P vf cs).isEmpty = cs.isEmpty := by
  cases cs <;> simp [encodeList]

mutual
/-- what is on the wire names every visible layer: its original type name and its mark -/
theorem wireNames_encode (P : Proc) (vf : Err → Str) : (e : Err) → wireNames (encode P vf e) = names P e
  | .leaf id k => by
    cases k <;> simp only [encode] <;> (try split) <;> simp [wireNames, names, detOf, wireNamesL] <;> rfl
  | .barrier id m h => by
    simp only [encode]; split <;> simp [wireNames, names, detOf, wireNamesL]
  | .wrap id k c => by
    have ih := wireNames_encode P vf c
    cases k <;> simp only [encode] <;> (try split) <;> simp [wireNames, names, detOf, ih] <;> rfl
  | .second id c s => by
    have ih := wireNames_encode P vf c
    simp only [encode]; split <;> simp [wireNames, names, detOf, ih]
  | .multi id k cs => by
    have ih := wireNamesL_encode P vf cs
    cases k <;> simp [encode, wireNames, names, detOf, ih, encodeList_isEmpty] <;> rfl
theorem wireNamesL_encode (P : Proc) (vf : Err → Str) : (cs : List Err) → wireNamesL (encodeList P vf cs) = namesL P cs
  | [] => by simp [encodeList, wireNamesL, namesL]
  | e :: r => by simp [encodeList, wireNamesL, namesL, wireNames_encode P vf e, wireNamesL_encode P vf r]
end

mutual
theorem names_Sub (S : Str → Bool) : (e : Err) → names (Sub S) e = names Full e
  | .leaf _ _ => by simp [names]
  | .barrier _ _ _ => by simp [names]
  | .wrap _ _ c => by simp [names, names_Sub S c]
  | .second _ c _ => by simp [names, names_Sub S c]
  | .multi _ _ cs => by simp [names, namesL_Sub S cs]
theorem namesL_Sub (S : Str → Bool) : (cs : List Err) → namesL (Sub S) cs = namesL Full cs
  | [] => by simp [namesL]
  | e :: r => by simp [namesL, names_Sub S e, namesL_Sub S r]
end

/-- hence at a process knowing any subset of the types, the received error has the origin's
    cause-tree shape (branch count and order included) and, at every layer, the origin's type name
    and mark -/
theorem hopQ_names (S : Str → Bool) (vf : Err → Str) (e : Err) (path : List Nat) (h : stable e = true) (hf : faithful e = true) :
    ∃ e', decode (Sub S) path (encode Full vf e) = some e' ∧ names Full e' = names Full e := by
  obtain ⟨e', h1, h2, _⟩ := hopQ_ok S vf e path h hf
  refine ⟨e', h1, ?_⟩
  have := wireNames_encode (Sub S) vf e'
  rw [h2, wireNames_encode Full vf e] at this
  rw [names_Sub] at this
  exact this.symm

end ErrModel
