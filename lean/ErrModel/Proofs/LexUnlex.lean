import ErrModel.Basic.RedactT
/-
  Bytes and tokens: `unlex` followed by `lex` gives the tokens back unless three adjacent
  plain-byte tokens spell a marker rune (E2 80 B9 / E2 80 BA) — the one situation in which
  a byte string has a marker that no piece of it wrote as a marker.
-/
namespace ErrModel

/-- does the token list begin with plain bytes spelling a marker? -/
def spellsAt : Toks → Bool
  | .b 0xE2 :: .b 0x80 :: .b 0xB9 :: _ => true
  | .b 0xE2 :: .b 0x80 :: .b 0xBA :: _ => true
  | _ => false

/-- no three adjacent plain bytes spell a marker, anywhere -/
def NoSpell : Toks → Prop
  | [] => True
  | x :: r => spellsAt (x :: r) = false ∧ NoSpell r

theorem unlex_cons_b (x : UInt8) (r : Toks) : unlex (.b x :: r) = x :: unlex r := rfl

theorem lex_mOpen (s : Str) : lex (mOpen ++ s) = .op :: lex s := by
  simp [mOpen, lex]

theorem lex_mClose (s : Str) : lex (mClose ++ s) = .cl :: lex s := by
  simp [mClose, lex]

/-- first two bytes of `unlex` of a token list, by its first tokens -/
theorem lex_b_cons (x : UInt8) (s : Str)
    (h : ¬ (x = 0xE2 ∧ ∃ c r, s = 0x80 :: c :: r ∧ (c = 0xB9 ∨ c = 0xBA))) : lex (x :: s) = .b x :: lex s := by
  conv => lhs; unfold lex
  split
  · rename_i r hx
    simp only [List.cons.injEq] at hx
    exact absurd ⟨hx.1, 0xB9, r, hx.2, Or.inl rfl⟩ h
  · rename_i r hx
    simp only [List.cons.injEq] at hx
    exact absurd ⟨hx.1, 0xBA, r, hx.2, Or.inr rfl⟩ h
  · rename_i y r _ _ hx
    simp only [List.cons.injEq] at hx
    obtain ⟨rfl, rfl⟩ := hx
    rfl
  · rename_i hx; simp at hx

theorem lex_unlex : (t : Toks) → NoSpell t → lex (unlex t) = t
  | [], _ => rfl
  | .op :: r, h => by
    rw [unlex, lex_mOpen, lex_unlex r h.2]
  | .cl :: r, h => by
    rw [unlex, lex_mClose, lex_unlex r h.2]
  | .b x :: r, h => by
    rw [unlex_cons_b, lex_b_cons, lex_unlex r h.2]
    rintro ⟨rfl, c, s, hs, hc⟩
    -- the next two bytes come from two plain-byte tokens: a spelled marker
    have h1 := h.1
    cases r with
    | nil => simp [unlex] at hs
    | cons y r2 =>
      cases y with
      | op => simp [unlex, mOpen] at hs
      | cl => simp [unlex, mClose] at hs
      | b y =>
        simp only [unlex_cons_b, List.cons.injEq] at hs
        obtain ⟨rfl, hs⟩ := hs
        cases r2 with
        | nil => simp [unlex] at hs
        | cons z r3 =>
          cases z with
          | op => simp [unlex, mOpen] at hs; rcases hc with rfl | rfl <;> simp at hs
          | cl => simp [unlex, mClose] at hs; rcases hc with rfl | rfl <;> simp at hs
          | b z =>
            simp only [unlex_cons_b, List.cons.injEq] at hs
            obtain ⟨rfl, _⟩ := hs
            rcases hc with rfl | rfl <;> simp [spellsAt] at h1

end ErrModel
