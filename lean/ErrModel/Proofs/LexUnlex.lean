import ErrModel.Proofs.LW
/-
  Bytes and tokens: `unlex` followed by `lex` gives the tokens back unless three adjacent
  plain-byte tokens spell a marker rune (E2 80 B9 / E2 80 BA) — the one situation in which
  a byte string has a marker that no piece of it wrote as a marker.
-/
namespace ErrModel

/-- forget the ghost labels -/
def eraseLabel : Toks → Toks
  | [] => []
  | .u c :: r => .b c :: eraseLabel r
  | x :: r => x :: eraseLabel r

theorem unlex_eraseLabel : (t : Toks) → unlex (eraseLabel t) = unlex t
  | [] => rfl
  | .op :: r => by simp [eraseLabel, unlex, unlex_eraseLabel r]
  | .cl :: r => by simp [eraseLabel, unlex, unlex_eraseLabel r]
  | .b c :: r => by simp [eraseLabel, unlex, unlex_eraseLabel r]
  | .u c :: r => by simp [eraseLabel, unlex, unlex_eraseLabel r]

/-- forgetting the labels keeps a well-formed string well-formed -/
theorem lw_eraseLabel : (t : Toks) → (st st' : Bool) → lw st t = some st' → lw st (eraseLabel t) = some st'
  | [], st, st', h => by simpa [eraseLabel] using h
  | .op :: r, st, st', h => by
    cases st <;> simp [lw] at h; simp [eraseLabel, lw, lw_eraseLabel r true st' h]
  | .cl :: r, st, st', h => by
    cases st <;> simp [lw] at h; simp [eraseLabel, lw, lw_eraseLabel r false st' h]
  | .b c :: r, st, st', h => by
    simp only [lw] at h
    split at h
    · simp at h
    · rename_i hc; simp only [eraseLabel, lw, hc, if_false]; exact lw_eraseLabel r st st' h
  | .u c :: r, st, st', h => by
    simp only [lw] at h
    split at h
    · rename_i hc
      simp only [Bool.and_eq_true, decide_eq_true_eq] at hc
      obtain ⟨rfl, hcn⟩ := hc
      simp only [eraseLabel, lw]
      have : (c = nl && true) = false := by simp [hcn]
      simp only [this]
      exact lw_eraseLabel r true st' h
    · simp at h

/-- does the token list begin with plain bytes spelling a marker? -/
def spellsAt : Toks → Bool
  | .b 0xE2 :: .b 0x80 :: .b 0xB9 :: _ => true
  | .b 0xE2 :: .b 0x80 :: .b 0xBA :: _ => true
  | _ => false

/-- no three adjacent plain bytes spell a marker, anywhere -/
def NoSpell : Toks → Prop
  | [] => True
  | x :: r => spellsAt (x :: r) = false ∧ NoSpell r

theorem unlex_cons_b (x : UInt8) (r : Toks) : unlex (.b x :: r) = x :: unlex r := rfl

theorem lex_mOpen (s : Str) : lex (mOpen ++ s) = .op :: lex s := by
  simp [mOpen, lex]

theorem lex_mClose (s : Str) : lex (mClose ++ s) = .cl :: lex s := by
  simp [mClose, lex]

/-- first two bytes of `unlex` of a token list, by its first tokens -/
theorem lex_b_cons (x : UInt8) (s : Str)
    (h : ¬ (x = 0xE2 ∧ ∃ c r, s = 0x80 :: c :: r ∧ (c = 0xB9 ∨ c = 0xBA))) : lex (x :: s) = .b x :: lex s := by
  conv => lhs; unfold lex
  split
  · rename_i r hx
    simp only [List.cons.injEq] at hx
    exact absurd ⟨hx.1, 0xB9, r, hx.2, Or.inl rfl⟩ h
  · rename_i r hx
    simp only [List.cons.injEq] at hx
    exact absurd ⟨hx.1, 0xBA, r, hx.2, Or.inr rfl⟩ h
  · rename_i y r _ _ hx
    simp only [List.cons.injEq] at hx
    obtain ⟨rfl, rfl⟩ := hx
    rfl
  · rename_i hx; simp at hx

/-- (for label-free token lists; apply to `eraseLabel t`) -/
theorem lex_unlex : (t : Toks) → (∀ x ∈ t, ∀ c, x ≠ Tok.u c) → NoSpell t → lex (unlex t) = t
  | [], _, _ => rfl
  | .op :: r, hu, h => by
    rw [unlex, lex_mOpen, lex_unlex r (fun x hx => hu x (by simp [hx])) h.2]
  | .cl :: r, hu, h => by
    rw [unlex, lex_mClose, lex_unlex r (fun x hx => hu x (by simp [hx])) h.2]
  | .u x :: r, hu, h => absurd rfl (hu (.u x) (by simp) x)
  | .b x :: r, hu, h => by
    rw [unlex_cons_b, lex_b_cons, lex_unlex r (fun x hx => hu x (by simp [hx])) h.2]
    rintro ⟨rfl, c, s, hs, hc⟩
    -- the next two bytes come from two plain-byte tokens: a spelled marker
    have h1 := h.1
    cases r with
    | nil => simp [unlex] at hs
    | cons y r2 =>
      cases y with
      | op => simp [unlex, mOpen] at hs
      | cl => simp [unlex, mClose] at hs
      | u y => exact hu (.u y) (by simp) y rfl
      | b y =>
        simp only [unlex_cons_b, List.cons.injEq] at hs
        obtain ⟨rfl, hs⟩ := hs
        cases r2 with
        | nil => simp [unlex] at hs
        | cons z r3 =>
          cases z with
          | op => simp [unlex, mOpen] at hs; rcases hc with rfl | rfl <;> simp at hs
          | cl => simp [unlex, mClose] at hs; rcases hc with rfl | rfl <;> simp at hs
          | u z => exact hu (.u z) (by simp) z rfl
          | b z =>
            simp only [unlex_cons_b, List.cons.injEq] at hs
            obtain ⟨rfl, _⟩ := hs
            rcases hc with rfl | rfl <;> simp [spellsAt] at h1

theorem eraseLabel_noU : (t : Toks) → ∀ x ∈ eraseLabel t, ∀ c, x ≠ Tok.u c
  | [], x, hx, c => by simp [eraseLabel] at hx
  | .op :: r, x, hx, c => by
    simp only [eraseLabel, List.mem_cons] at hx
    rcases hx with rfl | hx
    · simp
    · exact eraseLabel_noU r x hx c
  | .cl :: r, x, hx, c => by
    simp only [eraseLabel, List.mem_cons] at hx
    rcases hx with rfl | hx
    · simp
    · exact eraseLabel_noU r x hx c
  | .b y :: r, x, hx, c => by
    simp only [eraseLabel, List.mem_cons] at hx
    rcases hx with rfl | hx
    · simp
    · exact eraseLabel_noU r x hx c
  | .u y :: r, x, hx, c => by
    simp only [eraseLabel, List.mem_cons] at hx
    rcases hx with rfl | hx
    · simp
    · exact eraseLabel_noU r x hx c

/-- the byte string of a token list lexes back to its tokens (labels forgotten) -/
theorem lex_unlex_erase (t : Toks) (h : NoSpell (eraseLabel t)) : lex (unlex t) = eraseLabel t := by
  rw [← unlex_eraseLabel]
  exact lex_unlex _ (eraseLabel_noU t) h

end ErrModel
