import ErrModel.Proofs.Regular
/-
  The two Error() functions of the model agree: `Sem.text` (compositional; what the transport
  theorems C01/C02/C04/C11/C13 speak about) and `Engine.errText` (Error() computed through the
  formatting engine wherever the real method goes through it; what C09/C06/C10 speak about).
  Proved for every tree whose visible wrappers sit over regular causes, library `Join` nodes
  excepted (their Error() is a redactable rendering of all branches, stripped: tied by the
  correspondence streams `tree` / `fmt0.error`, not yet by a theorem).
-/
namespace ErrModel

mutual
/-- every visible wrapper sits over a regular cause (`RegE`), recursively through the branches of
    foreign multi-cause nodes; no library `Join` among the visible layers; hidden parts unconstrained -/
def EngOK : Err → Prop
  | .leaf _ _ => True
  | .barrier _ _ _ => True
  | .wrap _ _ c => RegE c ∧ EngOK c
  | .second _ c _ => EngOK c
  | .multi _ k cs => k ≠ .join ∧ EngOKL cs
def EngOKL : List Err → Prop
  | [] => True
  | e :: r => EngOK e ∧ EngOKL r
end

mutual
theorem errText_eq_text : (e : Err) → EngOK e → errText e = text e
  | .leaf _ _, _ => by simp [errText, text]
  | .barrier _ _ _, _ => by simp [errText, text]
  | .wrap id k c, h => by
    simp only [EngOK] at h
    rw [errText_wrap_reg id k c h.1, errText_eq_text c h.2]
    simp [text]
  | .second _ c _, h => by
    simp only [EngOK] at h
    simp [errText, text, errText_eq_text c h]
  | .multi _ k cs, h => by
    simp only [EngOK] at h
    have hl := errTextL_eq_textList cs h.2
    cases k with
    | join => exact absurd rfl h.1
    | _ => simp [errText, text, hl]
theorem errTextL_eq_textList : (cs : List Err) → EngOKL cs → errTextL cs = textList cs
  | [], _ => by simp [errTextL, textList]
  | e :: r, h => by
    simp only [EngOKL] at h
    simp [errTextL, textList, errText_eq_text e h.1, errTextL_eq_textList r h.2]
end

end ErrModel
