import ErrModel.Transport
/-
  `extractPrefix` : what an unregistered wrapper's message is split into, and
  that the opaque wrapper's Error() reassembles it — for ALL byte strings.
-/
namespace ErrModel

theorem stripSuffix?_self (s : Str) : stripSuffix? s s = some [] := by
  have := stripSuffix?_append [] s
  simpa using this

theorem extractPrefix_self (s : Str) : extractPrefix s s = ([], mtPrefix) := by
  simp [extractPrefix, stripSuffix?_self]

theorem pfx_assoc (m ct : Str) : pfx m ct = (m ++ colonSp) ++ ct := by
  simp [pfx]

theorem extractPrefix_pfx (m ct : Str) : extractPrefix (pfx m ct) ct = (m, mtPrefix) := by
  unfold extractPrefix
  rw [pfx_assoc, stripSuffix?_append]
  have hne : m ++ colonSp ≠ [] := by simp [colonSp]
  simp only [hne, if_false, stripSuffix?_append]

/-- Error() of an opaque wrapper with the given prefix and message type -/
def opaqueText (p : Str) (mt : Nat) (ct : Str) : Str :=
  if mt = mtFull then p else if p = [] then ct else pfx p ct

theorem wrapText_opaque (p : Str) (d : Det) (mt : Nat) (hid : List Enc) (ct : Str) :
    wrapText (.opaqueWrapper p d mt hid) ct = opaqueText p mt ct := rfl

/-- The crux of C01/C04 for unregistered wrappers: whatever the wrapper's text `m`
    and the cause's text `c` are, the opaque wrapper built from `extractPrefix`
    prints `m` again — except when `m` is exactly `": " ++ c` (a wrapper whose own
    message is empty but which still prints the separator). -/
theorem extract_reassemble (m c : Str) (h : m ≠ colonSp ++ c) :
    opaqueText (extractPrefix m c).1 (extractPrefix m c).2 c = m := by
  unfold extractPrefix
  cases h1 : stripSuffix? m c with
  | none => simp [opaqueText, mtFull]
  | some pre =>
    have hm : m = pre ++ c := stripSuffix?_some h1
    by_cases hp : pre = []
    · simp [hp, opaqueText, mtPrefix, mtFull, hm]
    · simp only [hp, if_false]
      cases h2 : stripSuffix? pre colonSp with
      | none => simp [opaqueText, mtFull]
      | some p =>
        have hpre : pre = p ++ colonSp := stripSuffix?_some h2
        have hpne : p ≠ [] := by
          intro hp0
          apply h
          rw [hm, hpre, hp0]; simp
        simp [opaqueText, mtPrefix, mtFull, hpne, pfx, hm, hpre]

end ErrModel
