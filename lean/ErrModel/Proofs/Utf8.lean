import ErrModel.Proofs.LexUnlex
import ErrModel.Basic.RedactT
/-
  Valid UTF-8 without marker runes ("clean" text): the strings the formatting properties call
  regular.  A clean string is a concatenation of complete, valid, non-marker runes.
-/
namespace ErrModel

/-- a complete, valid UTF-8 encoding of one rune -/
def IsRune (r : Str) : Prop := r ≠ [] ∧ decodeRune r = (r.length, true)

theorem isContB_false_of_lt (b : UInt8) (h : b < 0x80) : isContB b = false := by
  simp [inR, isContB, UInt8.le_iff_toNat_le, UInt8.lt_iff_toNat_lt] at *; omega

theorem isContB_false_of_lead2 (b : UInt8) (h : inR b 0xC2 0xDF = true) : isContB b = false := by
  simp [inR, isContB, UInt8.le_iff_toNat_le] at *; omega
theorem isContB_false_of_lead3 (b : UInt8) (h : inR b 0xE0 0xEF = true) : isContB b = false := by
  simp [inR, isContB, UInt8.le_iff_toNat_le] at *; omega
theorem isContB_false_of_lead4 (b : UInt8) (h : inR b 0xF0 0xF4 = true) : isContB b = false := by
  simp [inR, isContB, UInt8.le_iff_toNat_le] at *; omega

theorem isContB_of_inR (b lo hi : UInt8) (hlo : 0x80 ≤ lo) (hhi : hi ≤ 0xBF) (h : inR b lo hi = true) : isContB b = true := by
  simp [inR, isContB, UInt8.le_iff_toNat_le] at *; omega

/-- a rune is one non-continuation byte followed by at most three continuation bytes -/
theorem IsRune.shape {r : Str} (h : IsRune r) :
    ∃ c t, r = c :: t ∧ isContB c = false ∧ (∀ x ∈ t, isContB x = true) ∧ t.length ≤ 3 := by
  obtain ⟨hne, hd⟩ := h
  cases r with
  | nil => exact absurd rfl hne
  | cons b0 rest =>
    refine ⟨b0, rest, rfl, ?_⟩
    by_cases h0 : b0 < 0x80
    · simp [decodeRune, h0] at hd
      subst hd
      exact ⟨isContB_false_of_lt b0 h0, by simp, by simp⟩
    by_cases h1 : inR b0 0xC2 0xDF = true
    · cases rest with
      | nil => simp [decodeRune, h0, h1] at hd
      | cons b1 r' =>
        by_cases hc : isContB b1 = true
        · simp [decodeRune, h0, h1, hc] at hd
          subst hd
          exact ⟨isContB_false_of_lead2 b0 h1, by simp [hc], by simp⟩
        · simp [decodeRune, h0, h1, hc] at hd
    by_cases h2 : inR b0 0xE0 0xEF = true
    · match rest, hd with
      | [], hd => simp [decodeRune, h0, h1, h2] at hd
      | [_], hd => simp [decodeRune, h0, h1, h2] at hd
      | b1 :: b2 :: r', hd =>
        by_cases hc : (inR b1 (if b0 = 0xE0 then 0xA0 else 0x80) (if b0 = 0xED then 0x9F else 0xBF) && isContB b2) = true
        · simp only [decodeRune, h0, h1, h2, hc, if_true, if_false] at hd
          simp at hd
          subst hd
          simp only [Bool.and_eq_true] at hc
          refine ⟨isContB_false_of_lead3 b0 h2, ?_, by simp⟩
          intro x hx
          simp at hx
          rcases hx with rfl | rfl
          · apply isContB_of_inR x _ _ _ _ hc.1 <;> (split <;> decide)
          · exact hc.2
        · simp only [decodeRune, h0, h1, h2, hc, if_true, if_false] at hd
          simp at hd
    by_cases h3 : inR b0 0xF0 0xF4 = true
    · match rest, hd with
      | [], hd => simp [decodeRune, h0, h1, h2, h3] at hd
      | [_], hd => simp [decodeRune, h0, h1, h2, h3] at hd
      | [_, _], hd => simp [decodeRune, h0, h1, h2, h3] at hd
      | b1 :: b2 :: b3 :: r', hd =>
        by_cases hc : (inR b1 (if b0 = 0xF0 then 0x90 else 0x80) (if b0 = 0xF4 then 0x8F else 0xBF) && isContB b2 && isContB b3) = true
        · simp only [decodeRune, h0, h1, h2, h3, hc, if_true, if_false] at hd
          simp at hd
          subst hd
          simp only [Bool.and_eq_true] at hc
          refine ⟨isContB_false_of_lead4 b0 h3, ?_, by simp⟩
          intro x hx
          simp at hx
          rcases hx with rfl | rfl | rfl
          · apply isContB_of_inR x _ _ _ _ hc.1.1 <;> (split <;> decide)
          · exact hc.1.2
          · exact hc.2
        · simp only [decodeRune, h0, h1, h2, h3, hc, if_true, if_false] at hd
          simp at hd
    · simp [decodeRune, h0, h1, h2, h3] at hd

theorem runeStart_of_notCont {c : UInt8} (h : isContB c = false) : runeStart c = true := by simp [runeStart, h]
theorem runeStart_of_cont {c : UInt8} (h : isContB c = true) : runeStart c = false := by simp [runeStart, h]

theorem not_lt_of_cont {c : UInt8} (h : isContB c = true) : ¬ c < 0x80 := by
  simp [inR, isContB, UInt8.le_iff_toNat_le, UInt8.lt_iff_toNat_lt] at *; omega

/-- a buffer ending in a complete rune does not end in invalid UTF-8, whatever precedes -/
theorem lastRuneInvalid_rune (a r : Str) (h : IsRune r) : lastRuneInvalid (a ++ r) = false := by
  obtain ⟨c, t, rfl, hc, ht, hlen⟩ := h.shape
  have hd := h.2
  match t, ht, hlen, hd with
  | [], _, _, hd =>
    have hlt : c < 0x80 := by
      by_cases h0 : c < 0x80
      · exact h0
      · exfalso
        by_cases h1 : inR c 0xC2 0xDF = true <;> by_cases h2 : inR c 0xE0 0xEF = true <;> by_cases h3 : inR c 0xF0 0xF4 = true <;>
          simp [decodeRune, h0, h1, h2, h3] at hd
    unfold lastRuneInvalid
    simp [List.reverse_append, hlt]
  | [t1], ht, _, hd =>
    have c1 := ht t1 (by simp)
    unfold lastRuneInvalid
    have hrev : (a ++ [c, t1]).reverse = t1 :: c :: a.reverse := by simp
    rw [hrev]
    simp only [not_lt_of_cont c1, if_false]
    have hfind : List.findIdx? runeStart ((c :: a.reverse).take 3) = some 0 := by
      simp [List.take, List.findIdx?_cons, runeStart_of_notCont hc]
    simp only [hfind]
    have hdrop : (a ++ [c, t1]).drop ((a ++ [c, t1]).length - (0 + 1 + 1)) = [c, t1] := by
      have : (a ++ [c, t1]).length - (0 + 1 + 1) = a.length := by simp
      rw [this, List.drop_left']; rfl
    rw [hdrop, hd]; simp
  | [t1, t2], ht, _, hd =>
    have c1 := ht t1 (by simp)
    have c2 := ht t2 (by simp)
    unfold lastRuneInvalid
    have hrev : (a ++ [c, t1, t2]).reverse = t2 :: t1 :: c :: a.reverse := by simp
    rw [hrev]
    simp only [not_lt_of_cont c2, if_false]
    have hfind : List.findIdx? runeStart ((t1 :: c :: a.reverse).take 3) = some 1 := by
      simp [List.take, List.findIdx?_cons, runeStart_of_notCont hc, runeStart_of_cont c1]
    simp only [hfind]
    have hdrop : (a ++ [c, t1, t2]).drop ((a ++ [c, t1, t2]).length - (1 + 1 + 1)) = [c, t1, t2] := by
      have : (a ++ [c, t1, t2]).length - (1 + 1 + 1) = a.length := by simp
      rw [this, List.drop_left']; rfl
    rw [hdrop, hd]; simp
  | [t1, t2, t3], ht, _, hd =>
    have c1 := ht t1 (by simp)
    have c2 := ht t2 (by simp)
    have c3 := ht t3 (by simp)
    unfold lastRuneInvalid
    have hrev : (a ++ [c, t1, t2, t3]).reverse = t3 :: t2 :: t1 :: c :: a.reverse := by simp
    rw [hrev]
    simp only [not_lt_of_cont c3, if_false]
    have hfind : List.findIdx? runeStart ((t2 :: t1 :: c :: a.reverse).take 3) = some 2 := by
      simp [List.take, List.findIdx?_cons, runeStart_of_notCont hc, runeStart_of_cont c1, runeStart_of_cont c2]
    simp only [hfind]
    have hdrop : (a ++ [c, t1, t2, t3]).drop ((a ++ [c, t1, t2, t3]).length - (2 + 1 + 1)) = [c, t1, t2, t3] := by
      have : (a ++ [c, t1, t2, t3]).length - (2 + 1 + 1) = a.length := by simp
      rw [this, List.drop_left']; rfl
    rw [hdrop, hd]; simp
  | _ :: _ :: _ :: _ :: _, _, hlen, _ => simp at hlen

/-! ### clean text: valid UTF-8 without marker runes -/

inductive Clean : Str → Prop
  | nil : Clean []
  | cons (r rest : Str) : IsRune r → r ≠ mOpen → r ≠ mClose → Clean rest → Clean (r ++ rest)

theorem Clean_append {a b : Str} (ha : Clean a) (hb : Clean b) : Clean (a ++ b) := by
  induction ha with
  | nil => simpa using hb
  | cons r rest hr h1 h2 _ ih => rw [List.append_assoc]; exact Clean.cons r _ hr h1 h2 ih

theorem IsRune_ascii (c : UInt8) (h : c < 0x80) : IsRune [c] := ⟨by simp, by simp [decodeRune, h]⟩

theorem Clean_of_lt : (s : Str) → (∀ c ∈ s, c < 0x80) → Clean s
  | [], _ => Clean.nil
  | c :: r, h => by
    have hc := h c (by simp)
    have : Clean ([c] ++ r) := Clean.cons [c] r (IsRune_ascii c hc)
      (by intro h0; simp [mOpen] at h0) (by intro h0; simp [mClose] at h0)
      (Clean_of_lt r (fun x hx => h x (by simp [hx])))
    simpa using this

/-- the last rune of a non-empty clean string -/
theorem Clean_snoc {s : Str} (h : Clean s) (hne : s ≠ []) : ∃ a r, s = a ++ r ∧ IsRune r := by
  induction h with
  | nil => exact absurd rfl hne
  | cons r rest hr _ _ hrest ih =>
    by_cases h0 : rest = []
    · subst h0; exact ⟨[], r, by simp, hr⟩
    · obtain ⟨a, r', he, hr'⟩ := ih h0
      exact ⟨r ++ a, r', by rw [he, List.append_assoc], hr'⟩

/-- a buffer ending in clean text does not end in invalid UTF-8 -/
theorem lastRuneInvalid_clean (p s : Str) (h : Clean s) (hne : s ≠ []) : lastRuneInvalid (p ++ s) = false := by
  obtain ⟨a, r, rfl, hr⟩ := Clean_snoc h hne
  rw [← List.append_assoc]
  exact lastRuneInvalid_rune _ r hr

theorem ne_E2_of_cont {x : UInt8} (h : isContB x = true) : x ≠ 0xE2 := by
  intro h0; subst h0; simp [isContB, inR] at h

/-- lexing a run of continuation bytes finds no marker -/
theorem lex_conts : (t rest : Str) → (∀ x ∈ t, isContB x = true) → lex (t ++ rest) = bytesT t ++ lex rest
  | [], rest, _ => rfl
  | x :: t, rest, h => by
    have hx := h x (by simp)
    have : lex (x :: (t ++ rest)) = .b x :: lex (t ++ rest) :=
      lex_b_cons x _ (by intro ⟨h0, _⟩; exact ne_E2_of_cont hx h0)
    simp only [List.cons_append, this, lex_conts t rest (fun y hy => h y (by simp [hy])), bytesT, List.map_cons]

/-- a lead byte E2 starts a three-byte rune -/
theorem IsRune_E2 {t : Str} (h : IsRune (0xE2 :: t)) : ∃ t1 t2, t = [t1, t2] := by
  have hd := h.2
  match t, hd with
  | [], hd => simp [decodeRune, inR] at hd
  | [_], hd => simp [decodeRune, inR] at hd
  | [t1, t2], _ => exact ⟨t1, t2, rfl⟩
  | t1 :: t2 :: t3 :: r, hd =>
    exfalso
    simp only [decodeRune] at hd
    have e1 : ¬ ((0xE2 : UInt8) < 0x80) := by decide
    have e2 : inR (0xE2 : UInt8) 0xC2 0xDF = false := by decide
    have e3 : inR (0xE2 : UInt8) 0xE0 0xEF = true := by decide
    simp only [e1, e2, e3, if_false, if_true, Bool.false_eq_true] at hd
    split at hd <;> (split at hd <;> (split at hd <;> simp at hd))

theorem lex_rune (r rest : Str) (hr : IsRune r) (h1 : r ≠ mOpen) (h2 : r ≠ mClose) :
    lex (r ++ rest) = bytesT r ++ lex rest := by
  obtain ⟨c, t, rfl, hc, ht, _⟩ := hr.shape
  have hfirst : lex (c :: (t ++ rest)) = .b c :: lex (t ++ rest) := by
    apply lex_b_cons
    intro ⟨h0, c', r', hs, hc'⟩
    subst h0
    obtain ⟨t1, t2, rfl⟩ := IsRune_E2 hr
    simp only [List.cons_append, List.nil_append, List.cons.injEq] at hs
    obtain ⟨rfl, rfl, _⟩ := hs
    rcases hc' with rfl | rfl
    · exact h1 rfl
    · exact h2 rfl
  simp only [List.cons_append, hfirst, lex_conts t rest ht, bytesT, List.map_cons]

theorem lex_clean {s : Str} (h : Clean s) : lex s = bytesT s := by
  induction h with
  | nil => rfl
  | cons r rest hr h1 h2 _ ih => rw [lex_rune r rest hr h1 h2, ih]; simp [bytesT]

/-! ### the escape loop on clean text, rune by rune -/

def toksOf (brk : Bool) (r : Str) : Toks := r.map (fun c => if brk then Tok.u c else Tok.b c)

theorem unlex_toksOf (brk : Bool) : (r : Str) → unlex (toksOf brk r) = r
  | [] => rfl
  | c :: r => by
    have ih := unlex_toksOf brk r
    cases brk <;> simp [toksOf, unlex] at ih ⊢ <;> exact ih

theorem unlex_append' (a b : Toks) : unlex (a ++ b) = unlex a ++ unlex b := by
  induction a with
  | nil => rfl
  | cons x r ih => cases x <;> simp [unlex, ih, List.append_assoc]

theorem escLoopT_cons (brk : Bool) (acc : Toks) (c : UInt8) (r : Str)
    (h : ¬ (c = 0xE2 ∧ ∃ c' r', r = 0x80 :: c' :: r' ∧ (c' = 0xB9 ∨ c' = 0xBA))) (hn : ¬ (brk = true ∧ c = nl)) :
    escLoopT brk acc (c :: r) = escLoopT brk (acc ++ [if brk then Tok.u c else Tok.b c]) r := by
  rw [escLoopT]
  · have : (brk && decide (c = nl)) = false := by
      cases brk <;> simp at hn ⊢; exact hn
    simp [this]
  · intro r1 h1 h2; exact h ⟨h1, 0xB9, r1, h2, Or.inl rfl⟩
  · intro r1 h1 h2; exact h ⟨h1, 0xBA, r1, h2, Or.inr rfl⟩

theorem escLoopT_nl (acc : Toks) (r : Str) :
    escLoopT true acc (nl :: r) =
      escLoopT true ((if acc.getLast? = some .op then acc.dropLast else acc ++ [.cl]) ++ nlT :: bytesT (r.takeWhile (· = nl)) ++ [.op])
        (r.dropWhile (· = nl)) := by
  rw [escLoopT]
  · simp
  · intro r1 h1; simp [nl] at h1
  · intro r1 h1; simp [nl] at h1

theorem nl_not_cont {x : UInt8} (h : isContB x = true) : x ≠ nl := by
  intro h0; subst h0; simp [isContB, inR, nl] at h

theorem escLoopT_conts (brk : Bool) : (t rest : Str) → (acc : Toks) → (∀ x ∈ t, isContB x = true) →
    escLoopT brk acc (t ++ rest) = escLoopT brk (acc ++ toksOf brk t) rest
  | [], rest, acc, _ => by simp [toksOf]
  | x :: t, rest, acc, h => by
    have hx := h x (by simp)
    rw [List.cons_append, escLoopT_cons brk acc x (t ++ rest) (by intro ⟨h0, _⟩; exact ne_E2_of_cont hx h0)
      (by intro ⟨_, h0⟩; exact nl_not_cont hx h0)]
    rw [escLoopT_conts brk t rest _ (fun y hy => h y (by simp [hy]))]
    simp [toksOf, List.append_assoc]

/-- one non-marker rune (not a newline in break mode) is copied as it is -/
theorem escLoopT_rune (brk : Bool) (acc : Toks) (r rest : Str) (hr : IsRune r) (h1 : r ≠ mOpen) (h2 : r ≠ mClose)
    (hn : ¬ (brk = true ∧ r = [nl])) :
    escLoopT brk acc (r ++ rest) = escLoopT brk (acc ++ toksOf brk r) rest := by
  obtain ⟨c, t, rfl, hc, ht, _⟩ := hr.shape
  have hfirst : escLoopT brk acc (c :: (t ++ rest)) = escLoopT brk (acc ++ [if brk then Tok.u c else Tok.b c]) (t ++ rest) := by
    apply escLoopT_cons
    · intro ⟨h0, c', r', hs, hc'⟩
      subst h0
      obtain ⟨t1, t2, rfl⟩ := IsRune_E2 hr
      simp only [List.cons_append, List.nil_append, List.cons.injEq] at hs
      obtain ⟨rfl, rfl, _⟩ := hs
      rcases hc' with rfl | rfl
      · exact h1 rfl
      · exact h2 rfl
    · intro ⟨hb, h0⟩
      subst h0
      -- a newline byte is a one-byte rune
      have : t = [] := by
        have hd := hr.2
        have hlt : nl < 0x80 := by decide
        simp [decodeRune, hlt] at hd
        exact hd
      subst this
      exact hn ⟨hb, rfl⟩
  rw [List.cons_append, hfirst, escLoopT_conts brk t rest _ ht]
  simp [toksOf, List.append_assoc]

/-! ### token lists that end validly wherever a marker follows -/

/-- empty, or not ending in invalid UTF-8 whatever precedes -/
def EndB (s : Str) : Prop := s = [] ∨ ∀ p, lastRuneInvalid (p ++ s) = false

def isMarker : Tok → Bool
  | .op | .cl => true
  | _ => false

structure GoodT (t : Toks) : Prop where
  pre : ∀ d x r, t = d ++ x :: r → isMarker x = true → EndB (unlex d)
  fin : EndB (unlex t)

theorem EndB_nil : EndB [] := Or.inl rfl

theorem EndB_append_of_right {a b : Str} (hb : EndB b) (ha : EndB a) : EndB (a ++ b) := by
  rcases hb with rfl | hb
  · simpa using ha
  · exact Or.inr (fun p => by rw [← List.append_assoc]; exact hb _)

theorem EndB_clean {s : Str} (h : Clean s) : EndB s := by
  by_cases h0 : s = []
  · exact Or.inl h0
  · exact Or.inr (fun p => lastRuneInvalid_clean p s h h0)

theorem IsRune_mOpen : IsRune mOpen := ⟨by simp [mOpen], by decide⟩
theorem IsRune_mClose : IsRune mClose := ⟨by simp [mClose], by decide⟩

theorem EndB_marker_end (a : Str) (x : Tok) (hx : isMarker x = true) : EndB (a ++ unlex [x]) := by
  cases x with
  | op => exact Or.inr (fun p => by rw [← List.append_assoc]; simpa [unlex] using lastRuneInvalid_rune (p ++ a) mOpen IsRune_mOpen)
  | cl => exact Or.inr (fun p => by rw [← List.append_assoc]; simpa [unlex] using lastRuneInvalid_rune (p ++ a) mClose IsRune_mClose)
  | b c => simp [isMarker] at hx
  | u c => simp [isMarker] at hx

theorem GoodT_nil : GoodT [] := ⟨fun d x r h _ => by simp at h, EndB_nil⟩

theorem GoodT_append {a b : Toks} (ha : GoodT a) (hb : GoodT b) : GoodT (a ++ b) := by
  refine ⟨?_, ?_⟩
  · intro d x r h hx
    rcases List.append_eq_append_iff.mp h with ⟨a', rfl, hb'⟩ | ⟨c', rfl, hc'⟩
    · -- the marker lies in b: d = a ++ a'
      rw [unlex_append']
      exact EndB_append_of_right (hb.pre a' x r hb' hx) ha.fin
    · -- the marker lies in a
      cases c' with
      | nil =>
        simp at hc'
        simpa using ha.fin
      | cons y c'' =>
        simp only [List.cons_append, List.cons.injEq] at hc'
        obtain ⟨rfl, rfl⟩ := hc'
        exact ha.pre d x (c'' ) (by simp) hx
  · rw [unlex_append']; exact EndB_append_of_right hb.fin ha.fin

theorem GoodT_marker (x : Tok) (hx : isMarker x = true) : GoodT [x] :=
  ⟨fun d y r h _ => by
      cases d with
      | nil => exact EndB_nil
      | cons z d' => simp at h,
   by simpa using EndB_marker_end [] x hx⟩

/-- dropping a trailing marker -/
theorem GoodT_dropLast_marker {t : Toks} {x : Tok} (h : GoodT t) (hl : t.getLast? = some x) (hx : isMarker x = true) :
    GoodT t.dropLast := by
  obtain ⟨d, rfl⟩ : ∃ d, t = d ++ [x] := by
    rcases List.eq_nil_or_concat t with h0 | ⟨d, y, rfl⟩
    · subst h0; simp at hl
    · simp at hl; subst hl; exact ⟨d, by simp⟩
  rw [List.dropLast_concat]
  refine ⟨?_, h.pre d x [] rfl hx⟩
  intro d' y r hd hy
  exact h.pre d' y (r ++ [x]) (by rw [hd]; simp) hy

/-- byte tokens of clean text -/
theorem GoodT_bytes (t : Toks) (s : Str) (hnm : ∀ x ∈ t, isMarker x = false) (hu : unlex t = s) (hs : Clean s) : GoodT t :=
  ⟨fun d x r h hx => by
      have := hnm x (by rw [h]; simp)
      rw [this] at hx; exact absurd hx (by simp),
   by rw [hu]; exact EndB_clean hs⟩

theorem GoodT_toksOf (brk : Bool) (s : Str) (hs : Clean s) : GoodT (toksOf brk s) :=
  GoodT_bytes _ s (by intro x hx; simp [toksOf] at hx; obtain ⟨c, _, rfl⟩ := hx; cases brk <;> rfl) (unlex_toksOf brk s) hs

theorem unlex_bytesT : (s : Str) → unlex (bytesT s) = s
  | [] => rfl
  | c :: r => by simp [bytesT, unlex]; exact unlex_bytesT r

theorem GoodT_bytesT (s : Str) (hs : Clean s) : GoodT (bytesT s) :=
  GoodT_bytes _ s (by intro x hx; simp [bytesT] at hx; obtain ⟨c, _, rfl⟩ := hx; rfl) (unlex_bytesT s) hs

theorem Clean_cases {s : Str} (h : Clean s) :
    s = [] ∨ ∃ r rest, s = r ++ rest ∧ IsRune r ∧ r ≠ mOpen ∧ r ≠ mClose ∧ Clean rest := by
  cases h with
  | nil => exact Or.inl rfl
  | cons r rest hr h1 h2 hc => exact Or.inr ⟨r, rest, rfl, hr, h1, h2, hc⟩

/-- a newline byte is a one-byte rune -/
theorem nl_rune_single {t : Str} (h : IsRune (nl :: t)) : t = [] := by
  have hd := h.2
  have hlt : nl < 0x80 := by decide
  simp [decodeRune, hlt] at hd
  exact hd

theorem Clean_dropWhile_nl {s : Str} (h : Clean s) : Clean (s.dropWhile (· = nl)) := by
  induction h with
  | nil => exact Clean.nil
  | cons r rest hr h1 h2 hc ih =>
    obtain ⟨c, t, rfl, _, _, _⟩ := hr.shape
    by_cases hcn : c = nl
    · subst hcn
      have := nl_rune_single hr
      subst this
      simpa [List.dropWhile] using ih
    · have : (c :: t ++ rest).dropWhile (· = nl) = c :: t ++ rest := by simp [List.dropWhile, hcn]
      rw [this]
      exact Clean.cons _ _ hr h1 h2 hc

theorem Clean_nls (s : Str) (h : ∀ c ∈ s, c = nl) : Clean s :=
  Clean_of_lt s (fun c hc => by rw [h c hc]; decide)

theorem GoodT_escLoopT (brk : Bool) : (n : Nat) → (s : Str) → (acc : Toks) → s.length ≤ n → GoodT acc → Clean s →
    GoodT (escLoopT brk acc s)
  | 0, s, acc, hn, ha, _ => by
    have : s = [] := List.length_eq_zero_iff.mp (Nat.le_zero.mp hn)
    subst this; rw [escLoopT]; exact ha
  | n + 1, s, acc, hn, ha, hs => by
    rcases Clean_cases hs with rfl | ⟨r, rest, rfl, hr, h1, h2, hrest⟩
    · rw [escLoopT]; exact ha
    · have hrl : 0 < r.length := List.length_pos_iff.mpr hr.1
      by_cases hnl : brk = true ∧ r = [nl]
      · obtain ⟨rfl, rfl⟩ := hnl
        rw [List.singleton_append, escLoopT_nl]
        apply GoodT_escLoopT true n
        · have h1 := dropWhile_length_le (· = nl) rest
          simp at hn; omega
        · have hacc1 : GoodT (if acc.getLast? = some .op then acc.dropLast else acc ++ [.cl]) := by
            split
            · rename_i hl; exact GoodT_dropLast_marker ha hl rfl
            · exact GoodT_append ha (GoodT_marker .cl rfl)
          have hrun : GoodT (nlT :: bytesT (rest.takeWhile (· = nl))) := by
            have : nlT :: bytesT (rest.takeWhile (· = nl)) = bytesT (nl :: rest.takeWhile (· = nl)) := rfl
            rw [this]
            apply GoodT_bytesT
            apply Clean_nls
            intro c hc
            rcases List.mem_cons.mp hc with rfl | hc
            · rfl
            · have hall : ∀ (l : Str), ∀ x ∈ l.takeWhile (· = nl), x = nl := by
                intro l; induction l with
                | nil => intro x hx; simp at hx
                | cons y l ih =>
                  intro x hx
                  by_cases hy : y = nl
                  · simp [List.takeWhile, hy] at hx
                    rcases hx with rfl | hx
                    · rfl
                    · exact ih x hx
                  · simp [List.takeWhile, hy] at hx
              exact hall rest c hc
          have := GoodT_append (GoodT_append hacc1 hrun) (GoodT_marker .op rfl)
          simpa [List.append_assoc] using this
        · exact Clean_dropWhile_nl hrest
      · rw [escLoopT_rune brk acc r rest hr h1 h2 hnl]
        apply GoodT_escLoopT brk n
        · simp at hn; omega
        · exact GoodT_append ha (GoodT_toksOf brk r (by simpa using Clean.cons r [] hr h1 h2 Clean.nil))
        · exact hrest

/-- stripping: escaping clean text only copies it (no marker to escape) -/
theorem escapeMarkers_clean {s : Str} (h : Clean s) : escapeMarkers s = s := by
  rw [escapeMarkers, lex_clean h]
  have : ∀ (l : Str), escToks (bytesT l) = l := by
    intro l; induction l with
    | nil => rfl
    | cons c r ih => simp [bytesT, escToks] at ih ⊢; exact ih
  exact this s

theorem stripToks_bytesT' : (l : Str) → stripToks (bytesT l) = l
  | [] => rfl
  | c :: r => by simp [bytesT, stripToks]; exact stripToks_bytesT' r

theorem stripMarkers_clean {s : Str} (h : Clean s) : stripMarkers s = s := by
  have : stripMarkers s = stripToks (lex s) := rfl
  rw [this, lex_clean h, stripToks_bytesT']

end ErrModel
