import ErrModel.Proofs.LW
import ErrModel.Proofs.EngineBasic
/-
  Well-formedness through the formatting engine: the write machine, the collected entries and
  the final layouts keep redactable token strings well-formed (markers balanced, not nested,
  balanced within every line).
-/
namespace ErrModel

/-- a token list made of plain bytes only -/
def AllBytes (t : Toks) : Prop := ∀ x ∈ t, ∃ c, x = Tok.b c

theorem lw_allBytes {t : Toks} (h : AllBytes t) : lw false t = some false := by
  induction t with
  | nil => rfl
  | cons x r ih =>
    obtain ⟨c, rfl⟩ := h x (by simp)
    simp only [lw, Bool.and_false, Bool.false_eq_true, if_false]
    exact ih (fun y hy => h y (by simp [hy]))

theorem allBytes_bytesT (s : Str) : AllBytes (bytesT s) := by
  intro x hx; simp [bytesT] at hx; obtain ⟨c, _, rfl⟩ := hx; exact ⟨c, rfl⟩

theorem allBytes_append {a b : Toks} (ha : AllBytes a) (hb : AllBytes b) : AllBytes (a ++ b) := by
  intro x hx; rcases List.mem_append.mp hx with h | h; exact ha x h; exact hb x h

theorem allBytes_flatten {l : List Toks} (h : ∀ t ∈ l, AllBytes t) : AllBytes l.flatten := by
  intro x hx; obtain ⟨t, ht, hxt⟩ := List.mem_flatten.mp hx; exact h t ht x hxt

theorem LW_allBytes {t : Toks} (h : AllBytes t) : LW t := lw_allBytes h

/-! ### the write machine -/

structure LState.Inv (s : LState) : Prop where
  buf : lw false s.buf = some false
  head : lw false s.headBuf = some false

theorem LState.Inv_switchOver (s : LState) (h : s.Inv) : s.switchOver.Inv := by
  unfold LState.switchOver
  split
  · exact h
  · exact ⟨rfl, h.buf⟩

theorem lw_cons_split (st : Bool) (c : Tok) (r : Toks) (h : lw st (c :: r) = some false) :
    ∃ st', lw st [c] = some st' ∧ lw st' r = some false := by
  have := lw_append st [c] r
  simp only [List.singleton_append] at this
  rw [this] at h
  cases hc : lw st [c] with
  | none => rw [hc] at h; simp at h
  | some s' => rw [hc] at h; exact ⟨s', rfl, by simpa using h⟩

theorem writeLoop_inv : (rest : Toks) → (s : LState) → (chunk : Toks) → (st : Bool) →
    s.Inv → lw false chunk = some st → lw st rest = some false → (writeLoop s chunk rest).Inv
  | [], s, chunk, st, hs, hc, hr => by
    have : st = false := by simpa [lw] using hr
    subst this
    unfold writeLoop
    exact ⟨by simp only []; rw [lw_append, hs.buf]; simpa using hc, hs.head⟩
  | c :: r, s, chunk, st, hs, hc, hr => by
    unfold writeLoop
    by_cases hnl : c = nlT
    · subst hnl
      simp only [if_true]
      -- a newline is only legal outside markers
      have hst : st = false := by
        cases st with
        | false => rfl
        | true => simp [lw, nlT] at hr
      subst hst
      have hr' : lw false r = some false := by simpa [lw, nlT] using hr
      have hb : lw false (s.buf ++ chunk) = some false := by rw [lw_append, hs.buf]; simpa using hc
      apply writeLoop_inv r _ [] false _ rfl hr'
      split
      · exact LState.Inv_switchOver _ ⟨hb, hs.head⟩
      · exact ⟨hb, hs.head⟩
    · simp only [hnl, if_false]
      obtain ⟨st', h1, h2⟩ := lw_cons_split st c r hr
      have hchunk : lw false (chunk ++ [c]) = some st' := by rw [lw_append, hc]; simpa using h1
      apply writeLoop_inv r _ (chunk ++ [c]) st' _ hchunk h2
      -- the separator inserted before the chunk is made of plain bytes
      have hsepB : AllBytes (if s.wantDetail then detailSep else nlTs) := by
        split
        · exact allBytes_bytesT _
        · intro x hx; simp [nlTs, nlT] at hx; exact ⟨nl, hx⟩
      have hpadB : AllBytes (List.replicate (s.needNewline - 1) (if s.wantDetail then detailPad else [])).flatten := by
        apply allBytes_flatten
        intro t ht
        rw [List.mem_replicate] at ht
        rw [ht.2]
        split
        · exact allBytes_bytesT _
        · intro x hx; simp at hx
      split
      · refine ⟨?_, hs.head⟩
        simp only []
        rw [lw_append, lw_append, hs.buf]
        simp [lw_allBytes hpadB, lw_allBytes hsepB]
      · split
        · refine ⟨?_, hs.head⟩
          simp only []
          rw [lw_append, hs.buf]; simp [lw]
        · exact ⟨hs.buf, hs.head⟩

theorem LState.Inv_write (s : LState) (h : s.Inv) (b : Toks) (hb : LW b) : (s.write b).Inv := by
  unfold LState.write
  split
  · exact h
  · exact writeLoop_inv b s [] false h rfl hb

theorem LState.Inv_detail (s : LState) (h : s.Inv) : s.detail.Inv := by
  unfold LState.detail
  apply LState.Inv_switchOver
  split
  · exact ⟨h.buf, h.head⟩
  · exact h

/-- the operations of a layer's formatting method: the redactable pieces they pass to the
    safe printer must be well-formed -/
def POp.ok : POp → Prop
  | .safe segs => ∀ g ∈ segs, g.ok
  | .plain _ => False     -- a plain write puts unsafe text outside markers: not in a redactable buffer
  | .detail => True

theorem LState.Inv_runOp (s : LState) (h : s.Inv) (op : POp) (ho : op.ok) : (runOp s op).Inv := by
  cases op with
  | safe segs => exact LState.Inv_write s h _ (LW_assembleT segs ho)
  | plain b => exact absurd ho id
  | detail => exact LState.Inv_detail s h

theorem runOps_inv (detail : Bool) (ops : List POp) (ho : ∀ op ∈ ops, op.ok) : (runOps detail ops).Inv := by
  unfold runOps
  have : ∀ (l : List POp) (s : LState), s.Inv → (∀ op ∈ l, op.ok) → (l.foldl runOp s).Inv := by
    intro l
    induction l with
    | nil => intro s hs _; exact hs
    | cons op r ih =>
      intro s hs hl
      exact ih _ (LState.Inv_runOp s hs op (hl op (by simp))) (fun x hx => hl x (by simp [hx]))
  exact this ops _ ⟨rfl, rfl⟩ ho

/-! ### entries -/

/-- an entry flagged redactable holds well-formed redactable strings (a non-redactable one holds
    raw unsafe text, which is escaped and enclosed when it is printed) -/
structure Entry.Inv (en : Entry) : Prop where
  head : en.redactable = true → LW en.head
  details : en.redactable = true → LW en.details

theorem collect_redactable (s : LState) (b r wd : Bool) (d : Nat) (t : Str) :
    (collect s b r wd d t).redactable = (b && r) := by
  unfold collect
  cases b <;> cases r <;> simp

theorem collect_inv (s : LState) (b r wd : Bool) (d : Nat) (t : Str) (h : b = true → s.Inv) : (collect s b r wd d t).Inv := by
  have hred := collect_redactable s b r wd d t
  cases b with
  | false => exact ⟨fun h' => by rw [hred] at h'; simp at h', fun h' => by rw [hred] at h'; simp at h'⟩
  | true =>
  cases r with
  | false => exact ⟨fun h' => by rw [hred] at h'; simp at h', fun h' => by rw [hred] at h'; simp at h'⟩
  | true =>
  have h := h rfl
  suffices hx : LW (collect s true true wd d t).head ∧ LW (collect s true true wd d t).details from ⟨fun _ => hx.1, fun _ => hx.2⟩
  unfold collect
  have hh : LW s.headBuf := h.head
  have hb : LW s.buf := h.buf
  have hcat : LW ((if s.headBuf ≠ [] && s.headBuf.getLast? ≠ some nlT && s.buf ≠ [] && s.buf.head? ≠ some nlT
      then s.headBuf ++ [nlT] else s.headBuf) ++ s.buf) := by
    apply LW_append _ hb
    split
    · exact LW_append hh (LW_bytes [nl])
    · exact hh
  simp only []
  by_cases hw : s.wantDetail = true <;> by_cases hd : s.hasDetail = true <;>
    simp only [hw, hd, if_true, if_false, Bool.false_eq_true] <;>
    first
      | exact ⟨hh, hb⟩
      | exact ⟨hb, LW_nil⟩
      | exact ⟨hcat, LW_nil⟩

theorem markElided_inv (l : List Entry) (h : ∀ en ∈ l, en.Inv) : ∀ en ∈ markElided l, en.Inv := by
  intro en hen
  simp only [markElided, List.mem_map] at hen
  obtain ⟨e0, h0, rfl⟩ := hen
  exact ⟨(h e0 h0).head, (h e0 h0).details⟩

theorem withStackOf_inv (en : Entry) (ls : Stack) (st : Option Stack) (h : en.Inv) : (withStackOf en ls st).1.Inv := by
  unfold withStackOf
  split
  · exact ⟨h.head, h.details⟩
  · exact h

/-! ### the layouts -/

theorem escIfNeeded_LW (en : Entry) (s : Toks) (hs : en.redactable = true → LW s) : LW (escIfNeeded true en s) := by
  unfold escIfNeeded
  by_cases hr : en.redactable = true
  · simp [hr]; exact hs hr
  · simp [hr]; exact LW_escapeBytesT _

theorem singleLine_LW (ents : List Entry) (h : ∀ en ∈ ents, en.Inv) : LW (singleLine true ents) := by
  unfold singleLine
  have : ∀ (l : List Entry) (acc : Toks), LW acc → (∀ en ∈ l, en.Inv) →
      LW (l.foldl (fun acc en =>
        if en.elideShort then acc
        else
          let acc1 := if acc ≠ [] && en.head ≠ [] then acc ++ colonSpT else acc
          if en.head = [] then acc1 else acc1 ++ escIfNeeded true en en.head) acc) := by
    intro l
    induction l with
    | nil => intro acc ha _; exact ha
    | cons en r ih =>
      intro acc ha hl
      apply ih _ _ (fun x hx => hl x (by simp [hx]))
      have hen := hl en (by simp)
      have h1 : LW (if acc ≠ [] && en.head ≠ [] then acc ++ colonSpT else acc) := by
        split
        · exact LW_append ha (LW_bytes _)
        · exact ha
      simp only []
      split
      · exact ha
      · split
        · exact h1
        · exact LW_append h1 (escIfNeeded_LW en _ hen.head)
  exact this _ [] LW_nil (fun en hen => h en (by simpa using hen))

theorem allBytes_stackLines (st : Stack) : AllBytes (stackLines st) := by
  unfold stackLines
  intro x hx
  simp only [List.mem_flatMap] at hx
  obtain ⟨f, _, hx⟩ := hx
  rcases List.mem_append.mp hx with h | h
  · exact allBytes_bytesT _ x h
  · simp only [List.mem_flatMap] at h
    obtain ⟨c, _, hc⟩ := h
    split at hc
    · exact allBytes_bytesT _ x hc
    · simp at hc; exact ⟨c, hc⟩

theorem printEntry_LW (en : Entry) (h : en.Inv) : LW (printEntry true en) := by
  unfold printEntry
  apply LW_append
  · apply LW_append
    · split
      · apply LW_append
        · split
          · exact LW_bytes [32]
          · exact LW_nil
        · exact escIfNeeded_LW en _ h.head
      · exact LW_nil
    · split
      · apply LW_append
        · split
          · exact LW_bytes [32]
          · exact LW_nil
        · exact escIfNeeded_LW en _ h.details
      · exact LW_nil
  · split
    · apply LW_append
      · exact LW_append (LW_bytes _) (LW_allBytes (allBytes_stackLines _))
      · split
        · exact LW_append (LW_bytes _) (LW_bytes _)
        · exact LW_nil
    · exact LW_nil

theorem fullOutput_LW (ents : List Entry) (h : ∀ en ∈ ents, en.Inv) : LW (fullOutput true ents) := by
  unfold fullOutput
  split
  · exact LW_nil
  · rename_i top rest hr
    have hall : ∀ en ∈ top :: rest, en.Inv := by
      intro en hen
      have : en ∈ ents.reverse := by rw [hr]; exact hen
      exact h en (by simpa using this)
    apply LW_append
    · apply LW_append
      · apply LW_append
        · exact LW_append (singleLine_LW ents h) (LW_bytes _)
        · exact printEntry_LW top (hall top (by simp))
      · -- the Wraps: entries
        have : ∀ (l : List (Entry × Nat)), (∀ x ∈ l, x.1.Inv) →
            LW (l.flatMap (fun (x : Entry × Nat) =>
              bytesT ([nl] ++ indentOf x.1.depth ++ b!"Wraps: (" ++ natStr (x.2 + 2) ++ b!")") ++ printEntry true x.1)) := by
          intro l
          induction l with
          | nil => intro _; exact LW_nil
          | cons x r ih =>
            intro hl
            simp only [List.flatMap_cons]
            exact LW_append (LW_append (LW_bytes _) (printEntry_LW x.1 (hl x (by simp))))
              (ih (fun y hy => hl y (by simp [hy])))
        apply this
        intro x hx
        have hm := List.mem_zipIdx hx
        have : x.1 ∈ rest := by rw [hm.2.2]; exact List.getElem_mem _
        exact hall x.1 (by simp [this])
    · exact LW_bytes _

theorem finish_LW (detail : Bool) (ents : List Entry) (h : ∀ en ∈ ents, en.Inv) : LW (finish true detail ents) := by
  unfold finish
  split
  · exact fullOutput_LW ents h
  · exact singleLine_LW ents h

end ErrModel

namespace ErrModel

/-! ### errors whose stored redactable strings are well-formed -/

/-- the redactable strings a layer stores (built by `redact.Sprintf` at construction, or
    received from the wire) -/
def WrapKind.wfStored : WrapKind → Prop
  | .withPrefix p => LW (lexL p)
  | .withNewMessage m => LW (lexL m)
  | _ => True

def LeafKind.wfStored : LeafKind → Prop
  | .leafError msg => LW (lexL msg)
  | _ => True

mutual
/-- every redactable string stored anywhere in the error (hidden parts included) is well-formed -/
def WFE : Err → Prop
  | .leaf _ k => k.wfStored
  | .barrier _ m h => LW (lexL m.smsg) ∧ WFE h
  | .wrap _ k c => k.wfStored ∧ WFE c
  | .second _ c s => WFE c ∧ WFE s
  | .multi _ _ cs => WFEL cs
def WFEL : List Err → Prop
  | [] => True
  | e :: r => WFE e ∧ WFEL r
end

theorem tagToks_LW (kv : Str × Str) (kind : Nat) : LW (tagToks kv kind) := by
  unfold tagToks
  split
  · exact LW_assembleT _ (by intro g hg; simp at hg; subst hg; trivial)
  · split
    · exact LW_assembleT _ (by intro g hg; simp at hg; rcases hg with rfl | rfl | rfl <;> trivial)
    · exact LW_assembleT _ (by intro g hg; simp at hg; rcases hg with rfl | rfl | rfl <;> trivial)

theorem opaqueDetailOps_ok (what : Str) (d : Det) (hid : List Enc) : ∀ op ∈ opaqueDetailOps what d hid, op.ok := by
  intro op hop
  unfold opaqueDetailOps at hop
  simp only [List.mem_append, List.mem_cons, List.mem_map, List.mem_singleton, List.not_mem_nil, or_false] at hop
  rcases hop with ((h | h | h) | ⟨x, _, h⟩) | h
  · subst h; trivial
  · subst h; intro g hg; simp at hg; subst hg; trivial
  · subst h; intro g hg; simp at hg; rcases hg with rfl | rfl <;> trivial
  · subst h; intro g hg; simp at hg; rcases hg with rfl | rfl | rfl | rfl <;> trivial
  · split at h
    · simp at h; subst h; intro g hg; simp at hg; rcases hg with rfl | rfl <;> trivial
    · simp at h

theorem ok_lits (segs : List SegT) (h : ∀ g ∈ segs, (∃ s, g = .lit s) ∨ (∃ s, g = .arg s)) : POp.ok (.safe segs) := by
  intro g hg
  rcases h g hg with ⟨s, rfl⟩ | ⟨s, rfl⟩ <;> trivial

end ErrModel

namespace ErrModel

def SegT.simple : SegT → Bool
  | .lit _ => true
  | .arg _ => true
  | _ => false

def POp.simple : POp → Bool
  | .safe segs => segs.all SegT.simple
  | .plain _ => false
  | .detail => true

theorem POp.ok_of_simple (op : POp) (h : op.simple = true) : op.ok := by
  cases op with
  | safe segs =>
    intro g hg
    have := List.all_eq_true.mp h g hg
    cases g <;> simp [SegT.simple] at this <;> trivial
  | plain b => simp [POp.simple] at h
  | detail => trivial

theorem ops_ok_of_simple (ops : List POp) (h : ops.all POp.simple = true) : ∀ op ∈ ops, op.ok :=
  fun op hop => POp.ok_of_simple op (List.all_eq_true.mp h op hop)

theorem ops_ok_append {a b : List POp} (ha : ∀ op ∈ a, op.ok) (hb : ∀ op ∈ b, op.ok) : ∀ op ∈ a ++ b, op.ok := by
  intro op hop; rcases List.mem_append.mp hop with h | h; exact ha op h; exact hb op h

/-- a script whose buffer is declared redactable passes only well-formed pieces to the safe printer
    and performs no plain write -/
theorem wrapScript_ok (k : WrapKind) (detail : Bool) (hk : k.wfStored) (hf : (wrapScript k detail).2.2 = true) :
    ∀ op ∈ (wrapScript k detail).1, op.ok := by
  cases k with
  | withPrefix p =>
    intro op hop; simp [wrapScript] at hop; subst hop
    intro g hg; simp at hg; subst hg; exact hk
  | withNewMessage m =>
    intro op hop; simp [wrapScript] at hop; subst hop
    intro g hg; simp at hg; subst hg; exact hk
  | withContext tags kinds red =>
    cases detail with
    | false => intro op hop; simp [wrapScript] at hop
    | true =>
      intro op hop
      simp only [wrapScript, if_true, List.mem_cons, List.mem_append, List.mem_flatMap] at hop
      rcases hop with h | (h | ⟨x, _, h⟩) | h
      · subst h; trivial
      · rcases h with h | h
        · subst h; intro g hg; simp [lit'] at hg; subst hg; trivial
        · simp at h
      · rcases h with h | h | h
        · split at h
          · simp at h; subst h; intro g hg; simp [lit'] at hg; subst hg; trivial
          · simp at h
        · subst h; intro g hg; simp at hg; subst hg; exact tagToks_LW _ _
        · simp at h
      · simp at h; subst h; intro g hg; simp [lit'] at hg; subst hg; trivial
  | opaqueWrapper p d mt hid =>
    simp only [wrapScript]
    apply ops_ok_append
    · split
      · intro op hop; simp at hop; subst hop; intro g hg; simp at hg; subst hg; trivial
      · intro op hop; simp at hop
    · split
      · exact opaqueDetailOps_ok _ _ _
      · intro op hop; simp at hop
  | withSafeDetails l =>
    apply ops_ok_of_simple
    cases detail <;> simp [wrapScript, POp.simple, SegT.simple, lit', List.all_map, List.all_append]
  | withIssueLink url dt =>
    apply ops_ok_of_simple
    cases detail <;> simp [wrapScript, POp.simple, SegT.simple, lit', List.all_append]
  | withStack st => apply ops_ok_of_simple; cases detail <;> simp [wrapScript, POp.simple, SegT.simple, lit']
  | withHint h => simp [wrapScript] at hf
  | withDetail h => simp [wrapScript] at hf
  | withTelemetry keys => apply ops_ok_of_simple; cases detail <;> simp [wrapScript, POp.simple, SegT.simple, lit']
  | withDomain d => apply ops_ok_of_simple; cases detail <;> simp [wrapScript, POp.simple, SegT.simple]
  | withAssertionFailure => apply ops_ok_of_simple; cases detail <;> simp [wrapScript, POp.simple, SegT.simple, lit']
  | withMark m tys => apply ops_ok_of_simple; cases detail <;> simp [wrapScript, POp.simple, SegT.simple, lit']
  | withHTTPCode n => apply ops_ok_of_simple; cases detail <;> simp [wrapScript, POp.simple, SegT.simple, lit']
  | withGrpcCode n => apply ops_ok_of_simple; cases detail <;> simp [wrapScript, POp.simple, SegT.simple, lit']
  | pkgWithMessage m => intro op hop; simp [wrapScript] at hop
  | pkgWithStack st => intro op hop; simp [wrapScript] at hop
  | pathError op path => intro o hop; simp [wrapScript] at hop
  | linkError op a b => intro o hop; simp [wrapScript] at hop
  | syscallError m => intro op hop; simp [wrapScript] at hop
  | fmtWrapError m => intro op hop; simp [wrapScript] at hop
  | user u msg => intro op hop; simp [wrapScript] at hop

end ErrModel

namespace ErrModel

theorem leafScript_ok (k : LeafKind) (detail : Bool) (hk : k.wfStored) (ops : List POp)
    (h : leafScript k detail = some ops) : ∀ op ∈ ops, op.ok := by
  cases k with
  | leafError msg =>
    simp [leafScript] at h; subst h
    intro op hop; simp at hop; subst hop; intro g hg; simp at hg; subst hg; exact hk
  | unimplemented msg url dt =>
    simp only [leafScript, Option.some.injEq] at h; subst h
    apply ops_ok_of_simple
    cases detail <;> simp [POp.simple, SegT.simple, lit', List.all_append]
  | opaqueLeaf msg d hid =>
    simp only [leafScript, Option.some.injEq] at h; subst h
    apply ops_ok_append
    · intro op hop; simp at hop; subst hop; intro g hg; simp at hg; subst hg; trivial
    · split
      · exact opaqueDetailOps_ok _ _ _
      · intro op hop; simp at hop
  | errorString m => simp [leafScript] at h
  | deadline => simp [leafScript] at h
  | errno n m a b c d e => simp [leafScript] at h
  | opaqueErrno m n ar a b c d e => simp [leafScript] at h
  | pkgFundamental m st => simp [leafScript] at h
  | testErr => simp [leafScript] at h
  | grpcStatus c m n => simp [leafScript] at h
  | gogoStatus c m n => simp [leafScript] at h
  | user u m => simp [leafScript] at h

theorem barrierScript_ok (m : BarrierMsg) (hidV : Toks) (detail : Bool) (hm : LW (lexL m.smsg)) (hh : LW hidV) :
    ∀ op ∈ barrierScript m hidV detail, op.ok := by
  unfold barrierScript
  apply ops_ok_append
  · intro op hop; simp at hop; subst hop; intro g hg; simp at hg; subst hg; exact hm
  · split
    · intro op hop
      simp at hop
      rcases hop with h | h
      · subst h; trivial
      · subst h; intro g hg; simp at hg; rcases hg with rfl | rfl
        · trivial
        · exact hh
    · intro op hop; simp at hop

theorem secondScript_ok (hidV : Toks) (detail : Bool) (hh : LW hidV) : ∀ op ∈ secondScript hidV detail, op.ok := by
  unfold secondScript
  split
  · intro op hop
    simp at hop
    rcases hop with h | h
    · subst h; trivial
    · subst h; intro g hg; simp at hg; rcases hg with rfl | rfl
      · trivial
      · exact hh
  · intro op hop; simp at hop

theorem joinScript_ok (branches : List Toks) (h : ∀ t ∈ branches, LW t) : ∀ op ∈ joinScript branches, op.ok := by
  intro op hop
  unfold joinScript at hop
  simp only [List.mem_flatMap, List.mem_append] at hop
  obtain ⟨x, hx, h1 | h1⟩ := hop
  · split at h1
    · simp at h1; subst h1; intro g hg; simp at hg; subst hg; trivial
    · simp at h1
  · simp at h1; subst h1
    intro g hg; simp at hg; subst hg
    have := List.mem_zipIdx hx
    exact h x.1 (by rw [this.2.2]; exact List.getElem_mem _)

/-- an entry collected from well-formed operations (required only when its buffer is declared redactable) -/
theorem entry_inv (detail : Bool) (ops : List POp) (b r wd : Bool) (d : Nat) (t : Str)
    (ho : b = true → ∀ op ∈ ops, op.ok) : (collect (runOps detail ops) b r wd d t).Inv :=
  collect_inv _ b r wd d t (fun hb => runOps_inv detail ops (ho hb))

theorem mem_singleton_inv {en x : Entry} (h : x.Inv) (hen : en ∈ [x]) : en.Inv := by
  simp at hen; subst hen; exact h

theorem mem_append_single_inv {l : List Entry} {x en : Entry} (hl : ∀ e ∈ l, e.Inv) (hx : x.Inv)
    (hen : en ∈ l ++ [x]) : en.Inv := by
  rcases List.mem_append.mp hen with h | h
  · exact hl en h
  · exact mem_singleton_inv hx h

end ErrModel

namespace ErrModel

theorem ents_leaf_inv (red detail : Bool) (id : Ident) (k : LeafKind) (hk : k.wfStored) (o wd : Bool) (d : Nat) (ls : Stack) :
    ∀ en ∈ (ents red detail (.leaf id k) o wd d ls).1, en.Inv := by
  unfold ents
  simp only []
  split
  · rename_i ops hops
    intro en hen
    exact mem_singleton_inv (entry_inv detail ops _ _ _ _ _ (fun _ => leafScript_ok k detail hk ops hops)) hen
  · split
    · split
      · intro en hen
        exact mem_singleton_inv (entry_inv detail _ false _ _ _ _ (by simp)) hen
      · intro en hen
        exact mem_singleton_inv (withStackOf_inv _ _ _ (entry_inv detail _ false _ _ _ _ (by simp))) hen
    · split
      · intro en hen
        refine mem_singleton_inv (entry_inv detail _ _ _ _ _ _ (fun _ => ?_)) hen
        apply ops_ok_of_simple; simp [POp.simple, SegT.simple]
      · split
        · intro en hen
          refine mem_singleton_inv (entry_inv detail _ _ _ _ _ _ (fun _ => ?_)) hen
          apply ops_ok_of_simple; simp [POp.simple, SegT.simple]
        · intro en hen
          exact mem_singleton_inv (entry_inv detail _ false _ _ _ _ (by simp)) hen

/-- the operations of a wrapper layer (its own method, a special case, or formatSimple): when
    the buffer is declared redactable they are well-formed safe-printer calls -/
theorem wrapOpsOf_ok (k : WrapKind) (detail : Bool) (hk : k.wfStored) (ct : Str)
    (hf : (wrapOpsOf k detail ct).2.2 = true) : ∀ op ∈ (wrapOpsOf k detail ct).1, op.ok := by
  cases k with
  | syscallError m => apply ops_ok_of_simple; simp [wrapOpsOf, POp.simple, SegT.simple]
  | pathError op path => apply ops_ok_of_simple; simp [wrapOpsOf, POp.simple, SegT.simple]
  | linkError op a b => apply ops_ok_of_simple; simp [wrapOpsOf, POp.simple, SegT.simple]
  | pkgWithMessage m => simp [wrapOpsOf] at hf
  | pkgWithStack st => simp [wrapOpsOf] at hf
  | fmtWrapError m => simp [wrapOpsOf] at hf
  | user u msg => simp [wrapOpsOf] at hf
  | withPrefix p => exact wrapScript_ok _ detail hk hf
  | withNewMessage m => exact wrapScript_ok _ detail hk hf
  | withStack st => exact wrapScript_ok _ detail hk hf
  | withHint h => exact wrapScript_ok _ detail hk hf
  | withDetail h => exact wrapScript_ok _ detail hk hf
  | withIssueLink u d => exact wrapScript_ok _ detail hk hf
  | withTelemetry ks => exact wrapScript_ok _ detail hk hf
  | withDomain d => exact wrapScript_ok _ detail hk hf
  | withContext t ks r => exact wrapScript_ok _ detail hk hf
  | withAssertionFailure => exact wrapScript_ok _ detail hk hf
  | withSafeDetails l => exact wrapScript_ok _ detail hk hf
  | withMark m t => exact wrapScript_ok _ detail hk hf
  | withHTTPCode n => exact wrapScript_ok _ detail hk hf
  | withGrpcCode n => exact wrapScript_ok _ detail hk hf
  | opaqueWrapper p d mt hid => exact wrapScript_ok _ detail hk hf

theorem ite_markElided_inv (b : Bool) (l : List Entry) (h : ∀ en ∈ l, en.Inv) :
    ∀ en ∈ (if b = true then markElided l else l), en.Inv := by
  split
  · exact markElided_inv l h
  · exact h

mutual
/-- every entry the engine collects for a well-formed error is well-formed: an entry flagged
    redactable holds well-formed redactable strings in which everything written from an unsafe
    source is enclosed -/
theorem ents_inv : (e : Err) → WFE e → ∀ (red detail o wd : Bool) (d : Nat) (ls : Stack),
    ∀ en ∈ (ents red detail e o wd d ls).1, en.Inv
  | .leaf id k, h, red, detail, o, wd, d, ls => ents_leaf_inv red detail id k h o wd d ls
  | .barrier id m hd, h, red, detail, o, wd, d, ls => by
    obtain ⟨hm, hh⟩ := h
    unfold ents
    intro en hen
    refine mem_singleton_inv (entry_inv detail _ _ _ _ _ _ (fun _ => ?_)) hen
    apply barrierScript_ok _ _ _ hm
    split
    · exact fullOutput_LW _ (ents_inv hd hh true true true false 0 [])
    · exact LW_nil
  | .wrap id k c, h, red, detail, o, wd, d, ls => by
    obtain ⟨hk, hc⟩ := h
    have ih := ents_inv c hc red detail false wd (d + 1) ls
    unfold ents
    simp only []
    intro en hen
    exact mem_append_single_inv (ite_markElided_inv _ _ ih)
      (withStackOf_inv _ _ _ (entry_inv detail _ _ _ _ _ _ (wrapOpsOf_ok k detail hk (errText c)))) hen
  | .second id c s, h, red, detail, o, wd, d, ls => by
    obtain ⟨hc, hs⟩ := h
    have ih := ents_inv c hc red detail false wd (d + 1) ls
    unfold ents
    simp only []
    intro en hen
    refine mem_append_single_inv ih (entry_inv detail _ _ _ _ _ _ (fun _ => ?_)) hen
    apply secondScript_ok
    split
    · exact fullOutput_LW _ (ents_inv s hs true true true false 0 [])
    · exact LW_nil
  | .multi id k cs, h, red, detail, o, wd, d, ls => by
    have ih := entsL_inv cs h red detail (d + 1) ls
    unfold ents
    simp only []
    split
    · intro en hen
      refine mem_append_single_inv (markElided_inv _ ih) (entry_inv detail _ _ _ _ _ _ (fun _ => ?_)) hen
      exact joinScript_ok _ (rendVL_LW cs h)
    · rename_i msg dd hid
      intro en hen
      refine mem_append_single_inv (markElided_inv _ ih) (entry_inv detail _ _ _ _ _ _ (fun _ => ?_)) hen
      cases hl : leafScript (.opaqueLeaf msg dd hid) detail with
      | none => intro op hop; simp at hop
      | some ops => simpa using leafScript_ok (.opaqueLeaf msg dd hid) detail (by trivial) ops hl
    · intro en hen
      exact mem_append_single_inv (markElided_inv _ ih) (entry_inv detail _ false _ _ _ _ (by simp)) hen
theorem entsL_inv : (es : List Err) → WFEL es → ∀ (red detail : Bool) (d : Nat) (ls : Stack),
    ∀ en ∈ (entsL red detail es d ls).1, en.Inv
  | [], _, red, detail, d, ls => by intro en hen; simp [entsL] at hen
  | e :: r, h, red, detail, d, ls => by
    obtain ⟨he, hr⟩ := h
    unfold entsL
    simp only []
    intro en hen
    rcases List.mem_append.mp hen with h1 | h1
    · exact ents_inv e he red detail false true d ls en h1
    · exact entsL_inv r hr red detail d _ en h1
theorem rendVL_LW : (es : List Err) → WFEL es → ∀ t ∈ rendVL es, LW t
  | [], _ => by intro t ht; simp [rendVL] at ht
  | e :: r, h => by
    obtain ⟨he, hr⟩ := h
    intro t ht
    simp only [rendVL, List.mem_cons] at ht
    rcases ht with rfl | ht
    · exact singleLine_LW _ (ents_inv e he true false true false 0 [])
    · exact rendVL_LW r hr t ht
end

/-- the whole redactable rendering (as tokens) of a well-formed error is well-formed: markers
    balanced, not nested, balanced per line, and every byte written from an unsafe source enclosed -/
theorem renderT_LW (detail : Bool) (e : Err) (h : WFE e) : LW (renderT true detail e) :=
  finish_LW detail _ (ents_inv e h true detail true false 0 [])

end ErrModel
