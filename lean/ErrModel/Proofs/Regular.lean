import ErrModel.Proofs.EngineLW
/-
  Transparency of the formatting engine on REGULAR text: what `StripMarkers` gives back, and
  how the write machine treats text whose newlines are interior and isolated.
  Used for C09 (`%v` prints exactly Error()) and C06 (congruence).
-/
namespace ErrModel

/-! ### StripMarkers on tokens -/

@[simp] theorem stripT_nil : stripT [] = [] := rfl
@[simp] theorem stripT_op (r : Toks) : stripT (.op :: r) = stripT r := rfl
@[simp] theorem stripT_cl (r : Toks) : stripT (.cl :: r) = stripT r := rfl
@[simp] theorem stripT_b (c : UInt8) (r : Toks) : stripT (.b c :: r) = c :: stripT r := rfl
@[simp] theorem stripT_u (c : UInt8) (r : Toks) : stripT (.u c :: r) = c :: stripT r := rfl

theorem stripT_append (a b : Toks) : stripT (a ++ b) = stripT a ++ stripT b := by
  induction a with
  | nil => rfl
  | cons x r ih => cases x <;> simp [ih]

theorem stripT_bytesT (s : Str) : stripT (bytesT s) = s := by
  induction s with
  | nil => rfl
  | cons c r ih => simp only [bytesT, List.map_cons, stripT_b] at ih ⊢; rw [ih]

theorem stripT_bytesU (s : Str) : stripT (bytesU s) = s := by
  induction s with
  | nil => rfl
  | cons c r ih =>
    simp only [bytesU, List.map_cons] at ih ⊢
    split <;> simp [ih]

theorem stripT_relabel (st : Bool) (t : Toks) : stripT (relabel st t) = stripT t := by
  induction t generalizing st with
  | nil => rfl
  | cons x r ih =>
    cases x with
    | op => simp [relabel, ih true]
    | cl => simp [relabel, ih false]
    | b c => simp only [relabel]; split <;> simp [ih st]
    | u c => simp [relabel, ih st]

theorem stripT_lex (s : Str) : stripT (lex s) = stripMarkers s := rfl

theorem stripT_lexL (s : Str) : stripT (lexL s) = stripMarkers s := by
  rw [lexL, stripT_relabel, stripT_lex]

theorem stripT_dropLast_op {t : Toks} (hl : t.getLast? = some .op) : stripT t.dropLast = stripT t := by
  obtain ⟨d, rfl⟩ : ∃ d, t = d ++ [.op] := by
    rcases List.eq_nil_or_concat t with h0 | ⟨d, x, rfl⟩
    · subst h0; simp at hl
    · simp at hl; subst hl; exact ⟨d, by simp⟩
  rw [List.dropLast_concat, stripT_append]; simp

theorem stripT_dropLast_cl {t : Toks} (hl : t.getLast? = some .cl) : stripT t.dropLast = stripT t := by
  obtain ⟨d, rfl⟩ : ∃ d, t = d ++ [.cl] := by
    rcases List.eq_nil_or_concat t with h0 | ⟨d, x, rfl⟩
    · subst h0; simp at hl
    · simp at hl; subst hl; exact ⟨d, by simp⟩
  rw [List.dropLast_concat, stripT_append]; simp

/-- escaping (in either mode) only replaces marker runes by `?`: stripped, the result is the
    content with its marker runes escaped -/
theorem stripT_escLoopT (brk : Bool) (acc : Toks) (s : Str) :
    stripT (escLoopT brk acc s) = stripT acc ++ escapeMarkers s := by
  fun_induction escLoopT brk acc s with
  | case1 acc => simp [escapeMarkers, lex, escToks]
  | case2 acc r ih => rw [ih, stripT_append]; simp [qT, escapeMarkers, lex, escToks, qmark]
  | case3 acc r ih => rw [ih, stripT_append]; simp [qT, escapeMarkers, lex, escToks, qmark]
  | case4 acc c r h1 h2 hc acc1 run rest _ ih =>
    have hcn : c = nl := by simp at hc; exact hc.2
    have h1' : stripT acc1 = stripT acc := by
      show stripT (if acc.getLast? = some .op then acc.dropLast else acc ++ [.cl]) = stripT acc
      split
      · rename_i hl; exact stripT_dropLast_op hl
      · rw [stripT_append]; simp
    rw [ih, stripT_append, stripT_append, h1']
    have hmid : stripT (nlT :: bytesT run) = nl :: run := stripT_bytesT (nl :: run)
    rw [hmid]
    -- lexing c :: r with c = nl: a newline is a plain byte; the run and the rest follow
    have hlex : escapeMarkers (c :: r) = nl :: run ++ escapeMarkers rest := by
      subst hcn
      have hnl : ∀ (l : Str), escapeMarkers l = l.takeWhile (· = nl) ++ escapeMarkers (l.dropWhile (· = nl)) := by
        intro l
        induction l with
        | nil => simp [escapeMarkers, lex, escToks]
        | cons a t iht =>
          by_cases ha : a = nl
          · subst ha
            have : lex (nl :: t) = .b nl :: lex t := by
              conv => lhs; unfold lex
              simp [nl]
            simp only [escapeMarkers] at iht ⊢
            simp [this, escToks, iht]
          · simp [ha]
      have hl0 : lex (nl :: r) = .b nl :: lex r := by
        conv => lhs; unfold lex
        simp [nl]
      have := hnl r
      simp only [escapeMarkers] at this ⊢
      rw [hl0]
      simp [escToks, this]
      rfl
    rw [hlex]
    simp [List.append_assoc]
  | case5 acc c r h1 h2 hc ih =>
    have hlex : lex (c :: r) = .b c :: lex r := by
      conv => lhs; unfold lex
      split
      · rename_i r' hx; simp only [List.cons.injEq] at hx; exact absurd hx.2 (h1 r' hx.1)
      · rename_i r' hx; simp only [List.cons.injEq] at hx; exact absurd hx.2 (h2 r' hx.1)
      · rename_i y r' _ _ hx; simp only [List.cons.injEq] at hx; obtain ⟨rfl, rfl⟩ := hx; rfl
      · rename_i hx; simp at hx
    cases brk with
    | true =>
      simp only [↓reduceDIte, if_true] at ih ⊢
      rw [ih, stripT_append]
      simp [escapeMarkers, hlex, escToks]
    | false =>
      simp only [↓reduceDIte, Bool.false_eq_true, if_false] at ih ⊢
      rw [ih, stripT_append]
      simp [escapeMarkers, hlex, escToks]

end ErrModel

namespace ErrModel

/-! ### ASCII text -/

def Ascii (s : Str) : Prop := ∀ c ∈ s, c < 0x80

theorem Ascii_append {a b : Str} (ha : Ascii a) (hb : Ascii b) : Ascii (a ++ b) := by
  intro c hc; rcases List.mem_append.mp hc with h | h; exact ha c h; exact hb c h

theorem lex_ascii : (s : Str) → Ascii s → lex s = bytesT s
  | [], _ => rfl
  | c :: r, h => by
    have hc : c < 0x80 := h c (by simp)
    have hr : Ascii r := fun x hx => h x (by simp [hx])
    have hne : c ≠ 0xE2 := by intro h0; subst h0; simp at hc
    conv => lhs; unfold lex
    split
    · rename_i r' hx; simp only [List.cons.injEq] at hx; exact absurd hx.1 hne
    · rename_i r' hx; simp only [List.cons.injEq] at hx; exact absurd hx.1 hne
    · rename_i y r' _ _ hx
      simp only [List.cons.injEq] at hx
      obtain ⟨rfl, rfl⟩ := hx
      have := lex_ascii r hr
      simp only [bytesT, List.map_cons] at this ⊢
      rw [this]
    · rename_i hx; simp at hx

theorem escapeMarkers_ascii (s : Str) (h : Ascii s) : escapeMarkers s = s := by
  rw [escapeMarkers, lex_ascii s h]
  induction s with
  | nil => rfl
  | cons c r ih => simp [bytesT, escToks] at ih ⊢; exact ih (fun x hx => h x (by simp [hx]))

theorem stripMarkers_ascii (s : Str) (h : Ascii s) : stripMarkers s = s := by
  rw [← stripT_lex, lex_ascii s h, stripT_bytesT]

/-- a buffer ending in an ASCII byte does not end in invalid UTF-8 -/
theorem lastRuneInvalid_ascii_end (p : Str) (c : UInt8) (hc : c < 0x80) : lastRuneInvalid (p ++ [c]) = false := by
  unfold lastRuneInvalid
  simp [List.reverse_append, hc]

theorem lastRuneInvalid_nil : lastRuneInvalid [] = false := rfl

/-- a buffer ending in a complete 3-byte rune does not end in invalid UTF-8 -/
theorem lastRuneInvalid_suffix3 (p : Str) (a b c : UInt8) (hc : ¬ c < 0x80) (hb : runeStart b = false)
    (ha : runeStart a = true) (hd : decodeRune [a, b, c] = (3, true)) : lastRuneInvalid (p ++ [a, b, c]) = false := by
  unfold lastRuneInvalid
  have hrev : (p ++ [a, b, c]).reverse = c :: b :: a :: p.reverse := by simp
  rw [hrev]
  simp only [hc, if_false]
  have hback : (b :: a :: p.reverse).take 3 = b :: a :: p.reverse.take 1 := by simp [List.take]
  rw [hback]
  have hfind : List.findIdx? runeStart (b :: a :: p.reverse.take 1) = some 1 := by
    simp [List.findIdx?_cons, hb, ha]
  simp only [hfind]
  have hdrop : (p ++ [a, b, c]).drop ((p ++ [a, b, c]).length - (1 + 1 + 1)) = [a, b, c] := by
    have : (p ++ [a, b, c]).length - (1 + 1 + 1) = p.length := by simp
    rw [this, List.drop_left']
    rfl
  rw [hdrop, hd]
  simp

theorem lastRuneInvalid_mClose (p : Str) : lastRuneInvalid (p ++ mClose) = false :=
  lastRuneInvalid_suffix3 p 0xE2 0x80 0xBA (by decide) (by decide) (by decide) (by decide)

theorem lastRuneInvalid_mOpen (p : Str) : lastRuneInvalid (p ++ mOpen) = false :=
  lastRuneInvalid_suffix3 p 0xE2 0x80 0xB9 (by decide) (by decide) (by decide) (by decide)

end ErrModel

namespace ErrModel

/-! ### Sprintf on ASCII pieces: stripping the markers gives the pieces back -/

/-- markers and ASCII bytes only -/
def AllAsciiT (t : Toks) : Prop :=
  ∀ x ∈ t, x = Tok.op ∨ x = Tok.cl ∨ ∃ c, (x = Tok.b c ∨ x = Tok.u c) ∧ c < 0x80

theorem AllAsciiT_nil : AllAsciiT [] := by intro x hx; simp at hx

theorem AllAsciiT_append {a b : Toks} (ha : AllAsciiT a) (hb : AllAsciiT b) : AllAsciiT (a ++ b) := by
  intro x hx; rcases List.mem_append.mp hx with h | h; exact ha x h; exact hb x h

theorem AllAsciiT_dropLast {a : Toks} (ha : AllAsciiT a) : AllAsciiT a.dropLast :=
  fun x hx => ha x ((List.dropLast_sublist a).subset hx)

theorem AllAsciiT_bytesT {s : Str} (h : Ascii s) : AllAsciiT (bytesT s) := by
  intro x hx; simp [bytesT] at hx; obtain ⟨c, hc, rfl⟩ := hx; exact Or.inr (Or.inr ⟨c, Or.inl rfl, h c hc⟩)

theorem unlex_append (a b : Toks) : unlex (a ++ b) = unlex a ++ unlex b := by
  induction a with
  | nil => rfl
  | cons x r ih => cases x <;> simp [unlex, ih, List.append_assoc]

/-- such a buffer, followed by ASCII text, never ends in invalid UTF-8 -/
theorem lastRuneInvalid_allAscii (t : Toks) (a : Str) (ht : AllAsciiT t) (ha : Ascii a) :
    lastRuneInvalid (unlex t ++ a) = false := by
  rcases List.eq_nil_or_concat a with h0 | ⟨a', c, rfl⟩
  · subst h0
    rw [List.append_nil]
    rcases List.eq_nil_or_concat t with h1 | ⟨d, x, rfl⟩
    · subst h1; rfl
    · rw [List.concat_eq_append] at ht ⊢
      rw [unlex_append]
      rcases ht x (by simp) with rfl | rfl | ⟨c, hx, hc⟩
      · exact lastRuneInvalid_mOpen _
      · exact lastRuneInvalid_mClose _
      · rcases hx with rfl | rfl
        · exact lastRuneInvalid_ascii_end _ c hc
        · exact lastRuneInvalid_ascii_end _ c hc
  · rw [List.concat_eq_append] at ha ⊢
    rw [← List.append_assoc]
    exact lastRuneInvalid_ascii_end _ c (ha c (by simp))

theorem AllAsciiT_escLoopT (brk : Bool) (acc : Toks) (s : Str) (ha : AllAsciiT acc) (hs : Ascii s) :
    AllAsciiT (escLoopT brk acc s) := by
  fun_induction escLoopT brk acc s with
  | case1 acc => exact ha
  | case2 acc r ih =>
    exact ih (AllAsciiT_append ha (by intro x hx; simp at hx; subst hx; exact Or.inr (Or.inr ⟨qmark, Or.inl rfl, by decide⟩)))
      (fun c hc => hs c (by simp [hc]))
  | case3 acc r ih =>
    exact ih (AllAsciiT_append ha (by intro x hx; simp at hx; subst hx; exact Or.inr (Or.inr ⟨qmark, Or.inl rfl, by decide⟩)))
      (fun c hc => hs c (by simp [hc]))
  | case4 acc c r h1 h2 hc acc1 run rest _ ih =>
    apply ih
    · have h1' : AllAsciiT acc1 := by
        show AllAsciiT (if acc.getLast? = some .op then acc.dropLast else acc ++ [.cl])
        split
        · exact AllAsciiT_dropLast ha
        · exact AllAsciiT_append ha (by intro x hx; simp at hx; subst hx; exact Or.inr (Or.inl rfl))
      have hrun : Ascii (nl :: run) := by
        intro x hx
        rcases List.mem_cons.mp hx with rfl | hx
        · decide
        · exact hs x (List.mem_cons_of_mem _ ((List.takeWhile_sublist _).subset hx))
      have : nlT :: bytesT run = bytesT (nl :: run) := rfl
      apply AllAsciiT_append
      · exact AllAsciiT_append h1' (by rw [this]; exact AllAsciiT_bytesT hrun)
      · intro x hx; simp at hx; subst hx; exact Or.inl rfl
    · intro x hx; exact hs x (List.mem_cons_of_mem _ ((List.dropWhile_sublist _).subset hx))
  | case5 acc c r h1 h2 hc ih =>
    apply ih
    · apply AllAsciiT_append ha
      intro x hx
      simp at hx
      subst hx
      refine Or.inr (Or.inr ⟨c, ?_, hs c (by simp)⟩)
      split <;> simp
    · exact fun x hx => hs x (by simp [hx])

/-- the pieces a Sprintf is given, all ASCII -/
def SegT.ascii : SegT → Prop
  | .lit s => Ascii s
  | .arg s => Ascii s
  | .pre s => AllAsciiT (lexL s) ∧ LW (lexL s)
  | .preT t => AllAsciiT t ∧ LW t

/-- what a piece contributes once the markers are stripped -/
def SegT.content : SegT → Str
  | .lit s => s
  | .arg s => s
  | .pre s => stripMarkers s
  | .preT t => stripT t

structure RBT.AInv (r : RBT) (o : Str) : Prop where
  inv : r.Inv
  ascii : AllAsciiT r.done
  pend : Ascii r.pend
  strip : stripT r.done ++ r.pend = o

theorem RBT.escapeToEnd_ascii (r : RBT) (b : Bool) (ha : AllAsciiT r.done) (hp : Ascii r.pend) :
    stripT (r.escapeToEnd b).done = stripT r.done ++ r.pend ∧ AllAsciiT (r.escapeToEnd b).done := by
  unfold RBT.escapeToEnd
  have hq : lastRuneInvalid (unlex r.done ++ r.pend) = false := lastRuneInvalid_allAscii _ _ ha hp
  simp only [hq, Bool.false_eq_true, if_false]
  exact ⟨by rw [stripT_escLoopT, escapeMarkers_ascii _ hp], AllAsciiT_escLoopT b _ _ ha hp⟩

theorem RBT.startRedactable_ascii (r : RBT) (ha : AllAsciiT r.done) :
    stripT r.startRedactable.done = stripT r.done ∧ AllAsciiT r.startRedactable.done := by
  unfold RBT.startRedactable
  split
  · rename_i hl; exact ⟨stripT_dropLast_cl hl, AllAsciiT_dropLast ha⟩
  · exact ⟨by simp [stripT_append], AllAsciiT_append ha (by intro x hx; simp at hx; subst hx; exact Or.inl rfl)⟩

theorem RBT.endRedactable_ascii (r : RBT) (ha : AllAsciiT r.done) :
    stripT r.endRedactable.done = stripT r.done ∧ AllAsciiT r.endRedactable.done := by
  unfold RBT.endRedactable
  split
  · exact ⟨rfl, ha⟩
  · split
    · rename_i hl; exact ⟨stripT_dropLast_op hl, AllAsciiT_dropLast ha⟩
    · exact ⟨by simp [stripT_append], AllAsciiT_append ha (by intro x hx; simp at hx; subst hx; exact Or.inr (Or.inl rfl))⟩

theorem RBT.AInv_seg (r : RBT) (o : Str) (h : r.AInv o) (g : SegT) (hg : g.ascii) :
    (r.seg g).AInv (o ++ g.content) := by
  obtain ⟨hinv, ha, hp, hs⟩ := h
  obtain ⟨hm, hc, hl⟩ := hinv
  cases g with
  | lit s =>
    refine ⟨RBT.Inv_lit r ⟨hm, hc, hl⟩ s, ?_, ?_, ?_⟩
    · simp only [RBT.seg, RBT.setMode, hm, if_true, RBT.write]; exact ha
    · simp only [RBT.seg, RBT.setMode, hm, if_true, RBT.write]; exact Ascii_append hp hg
    · simp only [RBT.seg, RBT.setMode, hm, if_true, RBT.write, SegT.content]; rw [← hs]; simp [List.append_assoc]
  | arg s =>
    obtain ⟨e1, e2⟩ := RBT.escapeToEnd_ascii r false ha hp
    obtain ⟨f1, f2, f3⟩ := RBT.escapeToEnd_fields r false
    let A : RBT := { r.escapeToEnd false with mode := .unsafeE }
    have hA : r.setMode .unsafeE = A := by simp [RBT.setMode, hm, A, f2, hc]
    obtain ⟨g1, g2⟩ := RBT.startRedactable_ascii A e2
    obtain ⟨g3, g4, g5⟩ := RBT.startRedactable_open A (RBT.escapeToEnd_closed r hl)
    let B : RBT := { A.startRedactable with pend := s }
    have hB : A.write s = B := by simp [RBT.write, A, B, f2, hc]
    have hBm : B.mode = .unsafeE := by simp [B, g5, A]
    have hBo : B.opened = true := g4
    obtain ⟨k1, k2, k3⟩ := RBT.escapeToEnd_fields B true
    obtain ⟨m1, m2⟩ := RBT.escapeToEnd_ascii B true g2 hg
    obtain ⟨n1, n2⟩ := RBT.endRedactable_ascii (B.escapeToEnd true) m2
    have hfin : B.setMode .safeE = { (B.escapeToEnd true).endRedactable with mode := .safeE } := by
      simp [RBT.setMode, hBm, k2, hBo]
    have hI := RBT.Inv_arg r ⟨hm, hc, hl⟩ s
    have hpe : (B.escapeToEnd true).endRedactable.pend = [] := by
      unfold RBT.endRedactable
      split
      · exact k3
      · split <;> exact k3
    show ((r.setMode .unsafeE).write s |>.setMode .safeE).AInv _
    have hI' : ((r.setMode .unsafeE).write s |>.setMode .safeE).Inv := hI
    rw [hA, hB, hfin] at hI' ⊢
    refine ⟨hI', n2, by show Ascii (B.escapeToEnd true).endRedactable.pend; rw [hpe]; intro c hc; simp at hc, ?_⟩
    show stripT (B.escapeToEnd true).endRedactable.done ++ (B.escapeToEnd true).endRedactable.pend = _
    rw [hpe, n1, m1]
    show (stripT A.startRedactable.done ++ s) ++ [] = _
    rw [g1]
    show (stripT (r.escapeToEnd false).done ++ s) ++ [] = _
    rw [e1, hs]
    simp [SegT.content]
  | pre s =>
    obtain ⟨e1, e2⟩ := RBT.escapeToEnd_ascii r false ha hp
    obtain ⟨f1, f2, f3⟩ := RBT.escapeToEnd_fields r false
    refine ⟨RBT.Inv_pre r ⟨hm, hc, hl⟩ s hg.2, ?_, ?_, ?_⟩
    · simp only [RBT.seg, RBT.setMode, hm, RBT.write]; simp [f2, hc]; exact AllAsciiT_append e2 hg.1
    · simp only [RBT.seg, RBT.setMode, hm, RBT.write]; simp [f2, hc, f3]; intro c hc; simp at hc
    · simp only [RBT.seg, RBT.setMode, hm, RBT.write, SegT.content]; simp [f2, hc, f3]
      rw [stripT_append, e1, hs, stripT_lexL]
  | preT t =>
    obtain ⟨e1, e2⟩ := RBT.escapeToEnd_ascii r false ha hp
    obtain ⟨f1, f2, f3⟩ := RBT.escapeToEnd_fields r false
    refine ⟨RBT.Inv_preT r ⟨hm, hc, hl⟩ t hg.2, ?_, ?_, ?_⟩
    · simp only [RBT.seg, RBT.setMode, hm, RBT.writeToks]; simp [f2, hc]; exact AllAsciiT_append e2 hg.1
    · simp only [RBT.seg, RBT.setMode, hm, RBT.writeToks]; simp [f2, hc, f3]; intro c hc; simp at hc
    · simp only [RBT.seg, RBT.setMode, hm, RBT.writeToks, SegT.content]; simp [f2, hc, f3]
      rw [stripT_append, e1, hs]

/-- Sprintf of ASCII pieces: stripping the markers gives the concatenation of the pieces -/
theorem stripT_assembleT_ascii (segs : List SegT) (hs : ∀ g ∈ segs, g.ascii) :
    stripT (assembleT segs) = segs.flatMap SegT.content ∧ AllAsciiT (assembleT segs) := by
  have h0 : (RBT.reset.setMode .safeE).AInv [] := by
    refine ⟨RBT.Inv_init, ?_, ?_, ?_⟩ <;>
      simp [RBT.reset, RBT.setMode, RBT.escapeToEnd, escLoopT, lastRuneInvalid, unlex, AllAsciiT_nil, Ascii]
  have hfold : ∀ (l : List SegT) (r : RBT) (o : Str), r.AInv o → (∀ g ∈ l, g.ascii) →
      (l.foldl RBT.seg r).AInv (o ++ l.flatMap SegT.content) := by
    intro l
    induction l with
    | nil => intro r o h _; simpa using h
    | cons g rest ih =>
      intro r o h hl
      have := ih (r.seg g) (o ++ g.content) (RBT.AInv_seg r o h g (hl g (by simp))) (fun x hx => hl x (by simp [hx]))
      simpa [List.flatMap_cons, List.append_assoc] using this
  obtain ⟨hinv, ha, hp, hst⟩ := hfold segs _ [] h0 hs
  obtain ⟨hm, hc, hl⟩ := hinv
  obtain ⟨e1, e2⟩ := RBT.escapeToEnd_ascii _ false ha hp
  obtain ⟨f1, f2, f3⟩ := RBT.escapeToEnd_fields (segs.foldl RBT.seg (RBT.reset.setMode .safeE)) false
  unfold assembleT RBT.finalize
  simp [hm, f2, hc]
  exact ⟨by rw [e1, hst]; simp, e2⟩

end ErrModel
