import ErrModel.Proofs.EngineLW
import ErrModel.Proofs.Prefix
import ErrModel.Proofs.Utf8
import ErrModel.Proofs.LexUnlex
/-
  Transparency of the formatting engine on REGULAR text: what `StripMarkers` gives back, and
  how the write machine treats text whose newlines are interior and isolated.
  Used for C09 (`%v` prints exactly Error()) and C06 (congruence).
-/
namespace ErrModel

/-! ### StripMarkers on tokens -/

@[simp] theorem stripT_nil : stripT [] = [] := rfl
@[simp] theorem stripT_op (r : Toks) : stripT (.op :: r) = stripT r := rfl
@[simp] theorem stripT_cl (r : Toks) : stripT (.cl :: r) = stripT r := rfl
@[simp] theorem stripT_b (c : UInt8) (r : Toks) : stripT (.b c :: r) = c :: stripT r := rfl
@[simp] theorem stripT_u (c : UInt8) (r : Toks) : stripT (.u c :: r) = c :: stripT r := rfl

theorem stripT_append (a b : Toks) : stripT (a ++ b) = stripT a ++ stripT b := by
  induction a with
  | nil => rfl
  | cons x r ih => cases x <;> simp [ih]

theorem stripT_bytesT (s : Str) : stripT (bytesT s) = s := by
  induction s with
  | nil => rfl
  | cons c r ih => simp only [bytesT, List.map_cons, stripT_b] at ih ⊢; rw [ih]

theorem stripT_bytesU (s : Str) : stripT (bytesU s) = s := by
  induction s with
  | nil => rfl
  | cons c r ih =>
    simp only [bytesU, List.map_cons] at ih ⊢
    split <;> simp [ih]

theorem stripT_relabel (st : Bool) (t : Toks) : stripT (relabel st t) = stripT t := by
  induction t generalizing st with
  | nil => rfl
  | cons x r ih =>
    cases x with
    | op => simp [relabel, ih true]
    | cl => simp [relabel, ih false]
    | b c => simp only [relabel]; split <;> simp [ih st]
    | u c => simp [relabel, ih st]

theorem stripT_lex (s : Str) : stripT (lex s) = stripMarkers s := rfl

theorem stripT_lexL (s : Str) : stripT (lexL s) = stripMarkers s := by
  rw [lexL, stripT_relabel, stripT_lex]

theorem stripT_dropLast_op {t : Toks} (hl : t.getLast? = some .op) : stripT t.dropLast = stripT t := by
  obtain ⟨d, rfl⟩ : ∃ d, t = d ++ [.op] := by
    rcases List.eq_nil_or_concat t with h0 | ⟨d, x, rfl⟩
    · subst h0; simp at hl
    · simp at hl; subst hl; exact ⟨d, by simp⟩
  rw [List.dropLast_concat, stripT_append]; simp

theorem stripT_dropLast_cl {t : Toks} (hl : t.getLast? = some .cl) : stripT t.dropLast = stripT t := by
  obtain ⟨d, rfl⟩ : ∃ d, t = d ++ [.cl] := by
    rcases List.eq_nil_or_concat t with h0 | ⟨d, x, rfl⟩
    · subst h0; simp at hl
    · simp at hl; subst hl; exact ⟨d, by simp⟩
  rw [List.dropLast_concat, stripT_append]; simp

/-- escaping (in either mode) only replaces marker runes by `?`: stripped, the result is the
    content with its marker runes escaped -/
theorem stripT_escLoopT (brk : Bool) (acc : Toks) (s : Str) :
    stripT (escLoopT brk acc s) = stripT acc ++ escapeMarkers s := by
  fun_induction escLoopT brk acc s with
  | case1 acc => simp [escapeMarkers, lex, escToks]
  | case2 acc r ih => rw [ih, stripT_append]; simp [qT, escapeMarkers, lex, escToks, qmark]
  | case3 acc r ih => rw [ih, stripT_append]; simp [qT, escapeMarkers, lex, escToks, qmark]
  | case4 acc c r h1 h2 hc acc1 run rest _ ih =>
    have hcn : c = nl := by simp at hc; exact hc.2
    have h1' : stripT acc1 = stripT acc := by
      show stripT (if acc.getLast? = some .op then acc.dropLast else acc ++ [.cl]) = stripT acc
      split
      · rename_i hl; exact stripT_dropLast_op hl
      · rw [stripT_append]; simp
    rw [ih, stripT_append, stripT_append, h1']
    have hmid : stripT (nlT :: bytesT run) = nl :: run := stripT_bytesT (nl :: run)
    rw [hmid]
    -- lexing c :: r with c = nl: a newline is a plain byte; the run and the rest follow
    have hlex : escapeMarkers (c :: r) = nl :: run ++ escapeMarkers rest := by
      subst hcn
      have hnl : ∀ (l : Str), escapeMarkers l = l.takeWhile (· = nl) ++ escapeMarkers (l.dropWhile (· = nl)) := by
        intro l
        induction l with
        | nil => simp [escapeMarkers, lex, escToks]
        | cons a t iht =>
          by_cases ha : a = nl
          · subst ha
            have : lex (nl :: t) = .b nl :: lex t := by
              conv => lhs; unfold lex
              simp [nl]
            simp only [escapeMarkers] at iht ⊢
            simp [this, escToks, iht]
          · simp [ha]
      have hl0 : lex (nl :: r) = .b nl :: lex r := by
        conv => lhs; unfold lex
        simp [nl]
      have := hnl r
      simp only [escapeMarkers] at this ⊢
      rw [hl0]
      simp [escToks, this]
      rfl
    rw [hlex]
    simp [List.append_assoc]
  | case5 acc c r h1 h2 hc ih =>
    have hlex : lex (c :: r) = .b c :: lex r := by
      conv => lhs; unfold lex
      split
      · rename_i r' hx; simp only [List.cons.injEq] at hx; exact absurd hx.2 (h1 r' hx.1)
      · rename_i r' hx; simp only [List.cons.injEq] at hx; exact absurd hx.2 (h2 r' hx.1)
      · rename_i y r' _ _ hx; simp only [List.cons.injEq] at hx; obtain ⟨rfl, rfl⟩ := hx; rfl
      · rename_i hx; simp at hx
    cases brk with
    | true =>
      simp only [↓reduceDIte, if_true] at ih ⊢
      rw [ih, stripT_append]
      simp [escapeMarkers, hlex, escToks]
    | false =>
      simp only [↓reduceDIte, Bool.false_eq_true, if_false] at ih ⊢
      rw [ih, stripT_append]
      simp [escapeMarkers, hlex, escToks]

end ErrModel

namespace ErrModel

/-! ### regular text is clean: valid UTF-8 without marker runes (Proofs/Utf8.lean)

  The names below keep their historical `ascii` (the first version of this file was restricted to
  ASCII); `Ascii s` now means `Clean s`: a concatenation of complete, valid, non-marker runes.
  Every ASCII string is clean (`Clean_of_lt`). -/

abbrev Ascii (s : Str) : Prop := Clean s

theorem Ascii_append {a b : Str} (ha : Ascii a) (hb : Ascii b) : Ascii (a ++ b) := Clean_append ha hb

theorem lex_ascii (s : Str) (h : Ascii s) : lex s = bytesT s := lex_clean h

theorem escapeMarkers_ascii (s : Str) (h : Ascii s) : escapeMarkers s = s := escapeMarkers_clean h

theorem stripMarkers_ascii (s : Str) (h : Ascii s) : stripMarkers s = s := stripMarkers_clean h

theorem lastRuneInvalid_nil : lastRuneInvalid [] = false := rfl

/-- a buffer ending in a complete 3-byte rune does not end in invalid UTF-8 -/
theorem lastRuneInvalid_suffix3 (p : Str) (a b c : UInt8) (hc : ¬ c < 0x80) (hb : runeStart b = false)
    (ha : runeStart a = true) (hd : decodeRune [a, b, c] = (3, true)) : lastRuneInvalid (p ++ [a, b, c]) = false := by
  unfold lastRuneInvalid
  have hrev : (p ++ [a, b, c]).reverse = c :: b :: a :: p.reverse := by simp
  rw [hrev]
  simp only [hc, if_false]
  have hback : (b :: a :: p.reverse).take 3 = b :: a :: p.reverse.take 1 := by simp [List.take]
  rw [hback]
  have hfind : List.findIdx? runeStart (b :: a :: p.reverse.take 1) = some 1 := by
    simp [List.findIdx?_cons, hb, ha]
  simp only [hfind]
  have hdrop : (p ++ [a, b, c]).drop ((p ++ [a, b, c]).length - (1 + 1 + 1)) = [a, b, c] := by
    have : (p ++ [a, b, c]).length - (1 + 1 + 1) = p.length := by simp
    rw [this, List.drop_left']
    rfl
  rw [hdrop, hd]
  simp

theorem lastRuneInvalid_mClose (p : Str) : lastRuneInvalid (p ++ mClose) = false :=
  lastRuneInvalid_suffix3 p 0xE2 0x80 0xBA (by decide) (by decide) (by decide) (by decide)

theorem lastRuneInvalid_mOpen (p : Str) : lastRuneInvalid (p ++ mOpen) = false :=
  lastRuneInvalid_suffix3 p 0xE2 0x80 0xB9 (by decide) (by decide) (by decide) (by decide)

end ErrModel

namespace ErrModel

/-! ### Sprintf on clean pieces: stripping the markers gives the pieces back -/

/-- token lists that end in valid UTF-8 wherever a marker follows and at their end (`GoodT`) -/
abbrev AllAsciiT (t : Toks) : Prop := GoodT t

theorem AllAsciiT_nil : AllAsciiT [] := GoodT_nil

theorem AllAsciiT_append {a b : Toks} (ha : AllAsciiT a) (hb : AllAsciiT b) : AllAsciiT (a ++ b) := GoodT_append ha hb

theorem AllAsciiT_bytesT {s : Str} (h : Ascii s) : AllAsciiT (bytesT s) := GoodT_bytesT s h

theorem unlex_append (a b : Toks) : unlex (a ++ b) = unlex a ++ unlex b := unlex_append' a b

/-- such a buffer, followed by clean text, never ends in invalid UTF-8 -/
theorem lastRuneInvalid_allAscii (t : Toks) (a : Str) (ht : AllAsciiT t) (ha : Ascii a) :
    lastRuneInvalid (unlex t ++ a) = false := by
  by_cases h0 : a = []
  · subst h0
    rw [List.append_nil]
    rcases ht.fin with h1 | h1
    · rw [h1]; rfl
    · simpa using h1 []
  · exact lastRuneInvalid_clean _ a ha h0

theorem AllAsciiT_escLoopT (brk : Bool) (acc : Toks) (s : Str) (ha : AllAsciiT acc) (hs : Ascii s) :
    AllAsciiT (escLoopT brk acc s) := GoodT_escLoopT brk s.length s acc (Nat.le_refl _) ha hs

/-- the pieces a Sprintf is given, all clean (valid UTF-8, no marker rune) -/
def SegT.ascii : SegT → Prop
  | .lit s => Ascii s
  | .arg s => Ascii s
  | .pre s => AllAsciiT (lexL s) ∧ LW (lexL s)
  | .preT t => AllAsciiT t ∧ LW t

/-- what a piece contributes once the markers are stripped -/
def SegT.content : SegT → Str
  | .lit s => s
  | .arg s => s
  | .pre s => stripMarkers s
  | .preT t => stripT t

structure RBT.AInv (r : RBT) (o : Str) : Prop where
  inv : r.Inv
  ascii : AllAsciiT r.done
  pend : Ascii r.pend
  strip : stripT r.done ++ r.pend = o

theorem RBT.escapeToEnd_ascii (r : RBT) (b : Bool) (ha : AllAsciiT r.done) (hp : Ascii r.pend) :
    stripT (r.escapeToEnd b).done = stripT r.done ++ r.pend ∧ AllAsciiT (r.escapeToEnd b).done := by
  unfold RBT.escapeToEnd
  have hq : lastRuneInvalid (unlex r.done ++ r.pend) = false := lastRuneInvalid_allAscii _ _ ha hp
  simp only [hq, Bool.false_eq_true, if_false]
  exact ⟨by rw [stripT_escLoopT, escapeMarkers_ascii _ hp], AllAsciiT_escLoopT b _ _ ha hp⟩

theorem RBT.startRedactable_ascii (r : RBT) (ha : AllAsciiT r.done) :
    stripT r.startRedactable.done = stripT r.done ∧ AllAsciiT r.startRedactable.done := by
  unfold RBT.startRedactable
  split
  · rename_i hl; exact ⟨stripT_dropLast_cl hl, GoodT_dropLast_marker ha hl rfl⟩
  · exact ⟨by simp [stripT_append], AllAsciiT_append ha (GoodT_marker .op rfl)⟩

theorem RBT.endRedactable_ascii (r : RBT) (ha : AllAsciiT r.done) :
    stripT r.endRedactable.done = stripT r.done ∧ AllAsciiT r.endRedactable.done := by
  unfold RBT.endRedactable
  split
  · exact ⟨rfl, ha⟩
  · split
    · rename_i hl; exact ⟨stripT_dropLast_op hl, GoodT_dropLast_marker ha hl rfl⟩
    · exact ⟨by simp [stripT_append], AllAsciiT_append ha (GoodT_marker .cl rfl)⟩

theorem RBT.AInv_seg (r : RBT) (o : Str) (h : r.AInv o) (g : SegT) (hg : g.ascii) :
    (r.seg g).AInv (o ++ g.content) := by
  obtain ⟨hinv, ha, hp, hs⟩ := h
  obtain ⟨hm, hc, hl⟩ := hinv
  cases g with
  | lit s =>
    refine ⟨RBT.Inv_lit r ⟨hm, hc, hl⟩ s, ?_, ?_, ?_⟩
    · simp only [RBT.seg, RBT.setMode, hm, if_true, RBT.write]; exact ha
    · simp only [RBT.seg, RBT.setMode, hm, if_true, RBT.write]; exact Ascii_append hp hg
    · simp only [RBT.seg, RBT.setMode, hm, if_true, RBT.write, SegT.content]; rw [← hs]; simp [List.append_assoc]
  | arg s =>
    obtain ⟨e1, e2⟩ := RBT.escapeToEnd_ascii r false ha hp
    obtain ⟨f1, f2, f3⟩ := RBT.escapeToEnd_fields r false
    let A : RBT := { r.escapeToEnd false with mode := .unsafeE }
    have hA : r.setMode .unsafeE = A := by simp [RBT.setMode, hm, A, f2, hc]
    obtain ⟨g1, g2⟩ := RBT.startRedactable_ascii A e2
    obtain ⟨g3, g4, g5⟩ := RBT.startRedactable_open A (RBT.escapeToEnd_closed r hl)
    let B : RBT := { A.startRedactable with pend := s }
    have hB : A.write s = B := by simp [RBT.write, A, B, f2, hc]
    have hBm : B.mode = .unsafeE := by simp [B, g5, A]
    have hBo : B.opened = true := g4
    obtain ⟨k1, k2, k3⟩ := RBT.escapeToEnd_fields B true
    obtain ⟨m1, m2⟩ := RBT.escapeToEnd_ascii B true g2 hg
    obtain ⟨n1, n2⟩ := RBT.endRedactable_ascii (B.escapeToEnd true) m2
    have hfin : B.setMode .safeE = { (B.escapeToEnd true).endRedactable with mode := .safeE } := by
      simp [RBT.setMode, hBm, k2, hBo]
    have hI := RBT.Inv_arg r ⟨hm, hc, hl⟩ s
    have hpe : (B.escapeToEnd true).endRedactable.pend = [] := by
      unfold RBT.endRedactable
      split
      · exact k3
      · split <;> exact k3
    show ((r.setMode .unsafeE).write s |>.setMode .safeE).AInv _
    have hI' : ((r.setMode .unsafeE).write s |>.setMode .safeE).Inv := hI
    rw [hA, hB, hfin] at hI' ⊢
    refine ⟨hI', n2, by show Ascii (B.escapeToEnd true).endRedactable.pend; rw [hpe]; exact Clean.nil, ?_⟩
    show stripT (B.escapeToEnd true).endRedactable.done ++ (B.escapeToEnd true).endRedactable.pend = _
    rw [hpe, n1, m1]
    show (stripT A.startRedactable.done ++ s) ++ [] = _
    rw [g1]
    show (stripT (r.escapeToEnd false).done ++ s) ++ [] = _
    rw [e1, hs]
    simp [SegT.content]
  | pre s =>
    obtain ⟨e1, e2⟩ := RBT.escapeToEnd_ascii r false ha hp
    obtain ⟨f1, f2, f3⟩ := RBT.escapeToEnd_fields r false
    refine ⟨RBT.Inv_pre r ⟨hm, hc, hl⟩ s hg.2, ?_, ?_, ?_⟩
    · simp only [RBT.seg, RBT.setMode, hm, RBT.write]; simp [f2, hc]; exact AllAsciiT_append e2 hg.1
    · simp only [RBT.seg, RBT.setMode, hm, RBT.write]; simp [f2, hc, f3]; exact Clean.nil
    · simp only [RBT.seg, RBT.setMode, hm, RBT.write, SegT.content]; simp [f2, hc, f3]
      rw [stripT_append, e1, hs, stripT_lexL]
  | preT t =>
    obtain ⟨e1, e2⟩ := RBT.escapeToEnd_ascii r false ha hp
    obtain ⟨f1, f2, f3⟩ := RBT.escapeToEnd_fields r false
    refine ⟨RBT.Inv_preT r ⟨hm, hc, hl⟩ t hg.2, ?_, ?_, ?_⟩
    · simp only [RBT.seg, RBT.setMode, hm, RBT.writeToks]; simp [f2, hc]; exact AllAsciiT_append e2 hg.1
    · simp only [RBT.seg, RBT.setMode, hm, RBT.writeToks]; simp [f2, hc, f3]; exact Clean.nil
    · simp only [RBT.seg, RBT.setMode, hm, RBT.writeToks, SegT.content]; simp [f2, hc, f3]
      rw [stripT_append, e1, hs]

/-- Sprintf of clean pieces: stripping the markers gives the concatenation of the pieces -/
theorem stripT_assembleT_ascii (segs : List SegT) (hs : ∀ g ∈ segs, g.ascii) :
    stripT (assembleT segs) = segs.flatMap SegT.content ∧ AllAsciiT (assembleT segs) := by
  have h0 : (RBT.reset.setMode .safeE).AInv [] := by
    have hd : (RBT.reset.setMode .safeE).done = [] := by
      simp [RBT.reset, RBT.setMode, RBT.escapeToEnd, escLoopT, lastRuneInvalid, unlex]
    have hp : (RBT.reset.setMode .safeE).pend = [] := by
      simp [RBT.reset, RBT.setMode, RBT.escapeToEnd, escLoopT, lastRuneInvalid, unlex]
    refine ⟨RBT.Inv_init, by rw [hd]; exact AllAsciiT_nil, by rw [hp]; exact Clean.nil, by rw [hd, hp]; rfl⟩
  have hfold : ∀ (l : List SegT) (r : RBT) (o : Str), r.AInv o → (∀ g ∈ l, g.ascii) →
      (l.foldl RBT.seg r).AInv (o ++ l.flatMap SegT.content) := by
    intro l
    induction l with
    | nil => intro r o h _; simpa using h
    | cons g rest ih =>
      intro r o h hl
      have := ih (r.seg g) (o ++ g.content) (RBT.AInv_seg r o h g (hl g (by simp))) (fun x hx => hl x (by simp [hx]))
      simpa [List.flatMap_cons, List.append_assoc] using this
  obtain ⟨hinv, ha, hp, hst⟩ := hfold segs _ [] h0 hs
  obtain ⟨hm, hc, hl⟩ := hinv
  obtain ⟨e1, e2⟩ := RBT.escapeToEnd_ascii _ false ha hp
  obtain ⟨f1, f2, f3⟩ := RBT.escapeToEnd_fields (segs.foldl RBT.seg (RBT.reset.setMode .safeE)) false
  unfold assembleT RBT.finalize
  simp [hm, f2, hc]
  exact ⟨by rw [e1, hst]; simp, e2⟩

end ErrModel

namespace ErrModel

/-! ### the write machine on text whose newlines are interior and isolated (non-detail mode) -/

/-- `NlOK ne pend t`: reading `t` with "something has been written" = `ne` and "a newline is
    pending" = `pend`, every newline token comes after some text and not right after another newline -/
def NlOK : Bool → Bool → Toks → Prop
  | _, _, [] => True
  | ne, pend, x :: r => if x = nlT then (ne = true ∧ pend = false ∧ NlOK ne true r) else NlOK true false r

/-- the state after reading `t` -/
def nlEnd : Bool → Bool → Toks → Bool × Bool
  | ne, pend, [] => (ne, pend)
  | ne, _, x :: r => if x = nlT then nlEnd ne true r else nlEnd true false r

/-- what has been emitted so far, stripped: the buffer, the current chunk, and the pending newline -/
def outOf (s : LState) (chunk : Toks) : Str :=
  stripT s.buf ++ stripT chunk ++ (if s.needNewline = 1 then [nl] else [])

structure WInv (s : LState) (chunk : Toks) : Prop where
  nd : s.wantDetail = false
  sp : s.needSpace = false
  le : s.needNewline ≤ 1
  pendOK : s.needNewline = 1 → s.notEmpty = true ∧ chunk = []
  chunkOK : chunk ≠ [] → s.notEmpty = true

theorem writeLoop_regular : (rest : Toks) → (s : LState) → (chunk : Toks) → WInv s chunk →
    NlOK s.notEmpty (decide (s.needNewline = 1)) rest →
    WInv (writeLoop s chunk rest) [] ∧
    outOf (writeLoop s chunk rest) [] = outOf s chunk ++ stripT rest ∧
    ((writeLoop s chunk rest).notEmpty, decide ((writeLoop s chunk rest).needNewline = 1)) =
      nlEnd s.notEmpty (decide (s.needNewline = 1)) rest ∧
    (writeLoop s chunk rest).headBuf = s.headBuf ∧ (writeLoop s chunk rest).hasDetail = s.hasDetail
  | [], s, chunk, hi, _ => by
    unfold writeLoop
    refine ⟨⟨hi.nd, hi.sp, hi.le, fun h => ⟨(hi.pendOK h).1, rfl⟩, fun h => absurd rfl h⟩, ?_, rfl, rfl, rfl⟩
    simp [outOf, stripT_append]
  | x :: r, s, chunk, hi, hok => by
    obtain ⟨buf, hbuf, hdet, wd, ne, nsp, nn, ml⟩ := s
    have hwd : wd = false := hi.nd
    have hsp : nsp = false := hi.sp
    subst hwd
    subst hsp
    unfold writeLoop
    by_cases hx : x = nlT
    · subst hx
      simp only [if_true, NlOK] at hok ⊢
      obtain ⟨hne, hp, hrest⟩ := hok
      have hnn : nn = 0 := by
        have := hi.le
        have hp' : ¬ nn = 1 := by simpa using hp
        simp only at this
        omega
      subst hnn
      have hne' : ne = true := hne
      subst hne'
      simp only [Bool.false_eq_true, if_false]
      let S1 : LState := ⟨buf ++ chunk, hbuf, hdet, false, true, false, 0 + 1, true⟩
      have hi1 : WInv S1 [] := ⟨rfl, rfl, by simp [S1], fun _ => ⟨rfl, rfl⟩, fun h => absurd rfl h⟩
      obtain ⟨a1, a2, a3, a4, a5⟩ := writeLoop_regular r S1 [] hi1 (by simpa [S1] using hrest)
      refine ⟨a1, ?_, ?_, a4, a5⟩
      · rw [a2]
        simp [outOf, S1, stripT_append, nlT, List.append_assoc]
      · rw [a3]
        simp [nlEnd, S1]
    · simp only [hx, if_false, NlOK] at hok ⊢
      simp only [Bool.false_eq_true, if_false]
      by_cases hp : nn = 1
      · subst hp
        obtain ⟨hne, hch⟩ := hi.pendOK rfl
        have hne' : ne = true := hne
        subst hne'
        subst hch
        simp only [Nat.lt_add_one, Nat.zero_lt_one, decide_true, Bool.and_self, if_true, Nat.sub_self, List.replicate_zero,
          List.flatten_nil, List.append_nil, Nat.lt_irrefl]
        let S2 : LState := ⟨buf ++ nlTs, hbuf, hdet, false, true, false, 0, ml⟩
        have hi2 : WInv S2 ([] ++ [x]) := ⟨rfl, rfl, by simp [S2], fun h => by simp [S2] at h, fun _ => rfl⟩
        obtain ⟨a1, a2, a3, a4, a5⟩ := writeLoop_regular r S2 ([] ++ [x]) hi2 (by simpa [S2] using hok)
        refine ⟨a1, ?_, ?_, a4, a5⟩
        · rw [a2]
          have hc : stripT (x :: r) = stripT [x] ++ stripT r := stripT_append [x] r
          simp [outOf, S2, stripT_append, nlTs, nlT, List.append_assoc, hc]
        · rw [a3]
          simp [nlEnd, hx, S2]
      · have hnn : nn = 0 := by have := hi.le; simp only at this; omega
        subst hnn
        simp only [Nat.lt_irrefl, decide_false, Bool.false_and, Bool.false_eq_true, if_false]
        let S3 : LState := ⟨buf, hbuf, hdet, false, true, false, 0, ml⟩
        have hi2 : WInv S3 (chunk ++ [x]) := ⟨rfl, rfl, by simp [S3], fun h => by simp [S3] at h, fun _ => rfl⟩
        obtain ⟨a1, a2, a3, a4, a5⟩ := writeLoop_regular r S3 (chunk ++ [x]) hi2 (by simpa [S3] using hok)
        refine ⟨a1, ?_, ?_, a4, a5⟩
        · rw [a2]
          have hc : stripT (x :: r) = stripT [x] ++ stripT r := stripT_append [x] r
          simp [outOf, S3, stripT_append, List.append_assoc, hc]
        · rw [a3]
          simp [nlEnd, hx, S3]

end ErrModel

namespace ErrModel

/-! ### regular text (bytes) and its token forms -/

/-- byte version of `NlOK` -/
def NlOKb : Bool → Bool → Str → Prop
  | _, _, [] => True
  | ne, pend, c :: r => if c = nl then (ne = true ∧ pend = false ∧ NlOKb ne true r) else NlOKb true false r

def nlEndb : Bool → Bool → Str → Bool × Bool
  | ne, pend, [] => (ne, pend)
  | ne, _, c :: r => if c = nl then nlEndb ne true r else nlEndb true false r

theorem NlOKb_mono : (s : Str) → (ne pend : Bool) → NlOKb ne pend s → NlOKb true false s
  | [], _, _, _ => trivial
  | c :: r, ne, pend, h => by
    by_cases hc : c = nl
    · subst hc
      have h' : ne = true ∧ pend = false ∧ NlOKb ne true r := by simpa [NlOKb] using h
      obtain ⟨h1, _, h3⟩ := h'
      subst h1
      show (if nl = nl then (true = true ∧ false = false ∧ NlOKb true true r) else NlOKb true false r)
      rw [if_pos rfl]
      exact ⟨rfl, rfl, h3⟩
    · have h' : NlOKb true false r := by simpa [NlOKb, hc] using h
      show (if c = nl then (true = true ∧ false = false ∧ NlOKb true true r) else NlOKb true false r)
      rw [if_neg hc]
      exact h'

theorem NlOK_mono : (t : Toks) → (ne pend : Bool) → NlOK ne pend t → NlOK true false t
  | [], _, _, _ => trivial
  | x :: r, ne, pend, h => by
    by_cases hc : x = nlT
    · subst hc
      have h' : ne = true ∧ pend = false ∧ NlOK ne true r := by simpa [NlOK] using h
      obtain ⟨h1, _, h3⟩ := h'
      subst h1
      show (if nlT = nlT then (true = true ∧ false = false ∧ NlOK true true r) else NlOK true false r)
      rw [if_pos rfl]
      exact ⟨rfl, rfl, h3⟩
    · have h' : NlOK true false r := by simpa [NlOK, hc] using h
      show (if x = nlT then (true = true ∧ false = false ∧ NlOK true true r) else NlOK true false r)
      rw [if_neg hc]
      exact h'

/-- the newline discipline of a token string follows from that of its stripped bytes -/
theorem NlOK_of_strip : (t : Toks) → (ne pend : Bool) → NlOKb ne pend (stripT t) → NlOK ne pend t
  | [], _, _, _ => trivial
  | .op :: r, ne, pend, h => by
    simp only [stripT_op] at h
    simp only [NlOK, nlT]
    simp
    exact NlOK_of_strip r true false (NlOKb_mono _ ne pend h)
  | .cl :: r, ne, pend, h => by
    simp only [stripT_cl] at h
    simp only [NlOK, nlT]
    simp
    exact NlOK_of_strip r true false (NlOKb_mono _ ne pend h)
  | .u c :: r, ne, pend, h => by
    simp only [stripT_u, NlOKb] at h
    simp only [NlOK, nlT]
    simp
    by_cases hc : c = nl
    · simp only [hc, if_true] at h
      exact NlOK_of_strip r true false (NlOKb_mono _ ne true h.2.2)
    · simp only [hc, if_false] at h
      exact NlOK_of_strip r true false h
  | .b c :: r, ne, pend, h => by
    simp only [stripT_b, NlOKb] at h
    simp only [NlOK, nlT]
    by_cases hc : c = nl
    · subst hc
      simp only [if_true] at h ⊢
      exact ⟨h.1, h.2.1, NlOK_of_strip r ne true h.2.2⟩
    · have : ¬ (Tok.b c = Tok.b nl) := by simpa using hc
      simp only [hc, if_false] at h
      simp only [this, if_false]
      exact NlOK_of_strip r true false h

/-- text that begins and ends with a non-newline byte and has no two newlines in a row -/
structure Reg (s : Str) : Prop where
  ascii : Ascii s
  ne : s ≠ []
  ok : NlOKb false false s
  fin : (nlEndb false false s).2 = false

/-- a pending newline at the end of a token string is a pending newline at the end of its bytes -/
theorem nlEnd_pend : (t : Toks) → (ne pend ne' pend' : Bool) → (pend = true → pend' = true) →
    (nlEnd ne pend t).2 = true → (nlEndb ne' pend' (stripT t)).2 = true
  | [], _, _, _, _, hp, h => by simpa [nlEnd, nlEndb] using hp h
  | .op :: r, ne, pend, ne', pend', hp, h => by
    simp only [nlEnd, nlT] at h; simp at h
    simp only [stripT_op]
    exact nlEnd_pend r true false ne' pend' (by simp) h
  | .cl :: r, ne, pend, ne', pend', hp, h => by
    simp only [nlEnd, nlT] at h; simp at h
    simp only [stripT_cl]
    exact nlEnd_pend r true false ne' pend' (by simp) h
  | .u c :: r, ne, pend, ne', pend', hp, h => by
    simp only [nlEnd, nlT] at h; simp at h
    simp only [stripT_u, nlEndb]
    split
    · exact nlEnd_pend r true false ne' true (by simp) h
    · exact nlEnd_pend r true false true false (by simp) h
  | .b c :: r, ne, pend, ne', pend', hp, h => by
    simp only [stripT_b, nlEndb]
    by_cases hc : c = nl
    · subst hc
      simp only [nlEnd, nlT, if_true] at h
      simp only [if_true]
      exact nlEnd_pend r ne true ne' true (by simp) h
    · have hx : ¬ (Tok.b c = nlT) := by simpa [nlT] using hc
      simp only [nlEnd, hx, if_false] at h
      simp only [hc, if_false]
      exact nlEnd_pend r true false true false (by simp) h

end ErrModel

namespace ErrModel

/-! ### one write of regular text into a fresh layer state, and the entry collected from it -/

theorem WInv_init : WInv ({ wantDetail := false } : LState) [] :=
  ⟨rfl, rfl, by simp, fun h => by simp at h, fun h => absurd rfl h⟩

theorem write_regular (s : LState) (t : Toks) (hi : WInv s []) (hok : NlOK s.notEmpty (decide (s.needNewline = 1)) t) :
    WInv (s.write t) [] ∧ outOf (s.write t) [] = outOf s [] ++ stripT t ∧
    ((s.write t).notEmpty, decide ((s.write t).needNewline = 1)) = nlEnd s.notEmpty (decide (s.needNewline = 1)) t ∧
    (s.write t).headBuf = s.headBuf ∧ (s.write t).hasDetail = s.hasDetail := by
  unfold LState.write
  split
  · rename_i h; subst h; exact ⟨hi, by simp, by simp [nlEnd], rfl, rfl⟩
  · exact writeLoop_regular t s [] hi hok

/-- writing one regular token string into a fresh state: the buffer, stripped, is that text -/
theorem write_fresh (t : Toks) (hr : Reg (stripT t)) :
    stripT (({ wantDetail := false } : LState).write t).buf = stripT t ∧
    (({ wantDetail := false } : LState).write t).headBuf = [] ∧
    (({ wantDetail := false } : LState).write t).wantDetail = false := by
  have hok : NlOK false false t := NlOK_of_strip t false false hr.ok
  obtain ⟨a1, a2, a3, a4, a5⟩ := write_regular { wantDetail := false } t WInv_init (by simpa using hok)
  have hpend : ((({ wantDetail := false } : LState).write t).needNewline = 1) → False := by
    intro h
    have h3 : (nlEnd false false t).2 = true := by
      have := congrArg Prod.snd a3
      simp only [Nat.zero_ne_one, decide_false] at this
      rw [← this]; simp [h]
    have := nlEnd_pend t false false false false (by simp) h3
    rw [hr.fin] at this
    exact absurd this (by simp)
  refine ⟨?_, a4, a1.nd⟩
  have := a2
  simp only [outOf, stripT_nil, List.append_nil] at this
  have hn : ¬ (({ wantDetail := false } : LState).write t).needNewline = 1 := hpend
  simp only [hn, if_false, List.append_nil] at this
  simpa using this

/-- escaping a clean text only encloses it: stripped, it is the text again -/
theorem stripT_escapeBytesT_ascii (x : Str) (h : Ascii x) : stripT (escapeBytesT x) = x := by
  unfold escapeBytesT
  have hl : lastRuneInvalid (mOpen ++ x) = false := by
    by_cases h0 : x = []
    · subst h0; simpa using lastRuneInvalid_mOpen []
    · exact lastRuneInvalid_clean _ x h h0
  simp only [hl, Bool.false_eq_true, if_false]
  rw [stripT_append, stripT_escLoopT, escapeMarkers_ascii x h]
  simp [stripT, stripToks]

/-- escaping an entry head on its way into a redactable rendering does not change its text -/
theorem stripT_escIfNeeded (red : Bool) (en : Entry) (h : Ascii (stripT en.head)) :
    stripT (escIfNeeded red en en.head) = stripT en.head := by
  unfold escIfNeeded
  split
  · rfl
  · exact stripT_escapeBytesT_ascii _ h

/-- the entry collected from a state holding only a buffer -/
theorem collect_plain_head (s : LState) (b red wd : Bool) (d : Nat) (t : Str) (hw : s.wantDetail = false) (hh : s.headBuf = []) :
    stripT (collect s b red wd d t).head = stripT s.buf ∧ (collect s b red wd d t).elideShort = false := by
  unfold collect
  cases b <;> cases red <;> simp [hw, hh, stripT_bytesT]

end ErrModel

namespace ErrModel

/-! ### the one-line layout in plain mode, stripped -/

/-- an entry head is either empty or has text (not only markers) -/
def GoodHead (en : Entry) : Prop := en.head = [] ∨ stripT en.head ≠ []

/-- the stripped one-line text of entries given in display order (outermost first) -/
def txtOf : List Entry → Str
  | [] => []
  | en :: r =>
    if en.elideShort = true ∨ en.head = [] then txtOf r
    else stripT en.head ++ (if txtOf r = [] then [] else colonSp ++ txtOf r)

def slStep (red : Bool) (acc : Toks) (en : Entry) : Toks :=
  if en.elideShort then acc
  else
    let acc1 := if acc ≠ [] && en.head ≠ [] then acc ++ colonSpT else acc
    if en.head = [] then acc1 else acc1 ++ escIfNeeded red en en.head

theorem singleLine_eq_foldl (red : Bool) (l : List Entry) : singleLine red l = l.reverse.foldl (slStep red) [] := rfl

theorem stripT_colonSpT : stripT colonSpT = colonSp := stripT_bytesT colonSp

theorem foldl_slStep (red : Bool) (m : List Entry) (hm : ∀ en ∈ m, en.elideShort = false → GoodHead en)
    (hasc : ∀ en ∈ m, en.elideShort = false → Ascii (stripT en.head)) (acc : Toks) (hacc : acc = [] ∨ stripT acc ≠ []) :
    stripT (m.foldl (slStep red) acc) =
      (if acc = [] then txtOf m else if txtOf m = [] then stripT acc else stripT acc ++ colonSp ++ txtOf m) ∧
    (m.foldl (slStep red) acc = [] ∨ stripT (m.foldl (slStep red) acc) ≠ []) := by
  induction m generalizing acc with
  | nil =>
    refine ⟨?_, hacc⟩
    by_cases ha : acc = [] <;> simp [txtOf, ha]
  | cons en r ih =>
    have hr : ∀ e ∈ r, e.elideShort = false → GoodHead e := fun e he => hm e (by simp [he])
    have hra : ∀ e ∈ r, e.elideShort = false → Ascii (stripT e.head) := fun e he => hasc e (by simp [he])
    simp only [List.foldl_cons]
    by_cases hel : en.elideShort = true
    · have h1 : slStep red acc en = acc := by simp [slStep, hel]
      rw [h1]
      obtain ⟨i1, i2⟩ := ih hr hra acc hacc
      refine ⟨?_, i2⟩
      rw [i1]; simp [txtOf, hel]
    · have hel' : en.elideShort = false := by simpa using hel
      have hen := hm en (by simp) hel'
      by_cases hh : en.head = []
      · have h1 : slStep red acc en = acc := by simp [slStep, hel', hh]
        rw [h1]
        obtain ⟨i1, i2⟩ := ih hr hra acc hacc
        refine ⟨?_, i2⟩
        rw [i1]; simp [txtOf, hh]
      · have hs : stripT en.head ≠ [] := by rcases hen with h | h; exact absurd h hh; exact h
        have hX : stripT (escIfNeeded red en en.head) = stripT en.head := stripT_escIfNeeded red en (hasc en (by simp) hel')
        have hstep : slStep red acc en = (if acc = [] then acc else acc ++ colonSpT) ++ escIfNeeded red en en.head := by
          by_cases ha : acc = [] <;> simp [slStep, hel', hh, ha]
        rw [hstep]
        generalize escIfNeeded red en en.head = X at hX
        have hXs : stripT X ≠ [] := by rw [hX]; exact hs
        have hXne : X ≠ [] := by intro h0; subst h0; exact hXs rfl
        by_cases ha : acc = []
        · subst ha
          simp only [if_true, List.nil_append]
          obtain ⟨i1, i2⟩ := ih hr hra X (Or.inr hXs)
          refine ⟨?_, i2⟩
          rw [i1]
          simp only [hXne, if_false, if_true, txtOf, hel', hh, Bool.false_eq_true, false_or, hX]
          split <;> simp [List.append_assoc]
        · have hsa : stripT acc ≠ [] := by rcases hacc with h | h; exact absurd h ha; exact h
          simp only [ha, if_false]
          have hne : acc ++ colonSpT ++ X ≠ [] := by simp [ha]
          have hsn : stripT (acc ++ colonSpT ++ X) ≠ [] := by
            rw [stripT_append, stripT_append]; simp [hsa]
          obtain ⟨i1, i2⟩ := ih hr hra _ (Or.inr hsn)
          refine ⟨?_, i2⟩
          rw [i1]
          simp only [hne, if_false, txtOf, hel', hh, Bool.false_eq_true, false_or, stripT_append, stripT_colonSpT, hX]
          have htx : stripT en.head ++ (if txtOf r = [] then [] else colonSp ++ txtOf r) ≠ [] := by simp [hs]
          simp only [htx, if_false]
          split <;> simp [List.append_assoc]

/-- the stripped one-line rendering of a list of entries -/
theorem stripT_singleLine (red : Bool) (l : List Entry) (hl : ∀ en ∈ l, en.elideShort = false → GoodHead en)
    (hasc : ∀ en ∈ l, en.elideShort = false → Ascii (stripT en.head)) :
    stripT (singleLine red l) = txtOf l.reverse := by
  rw [singleLine_eq_foldl]
  have := (foldl_slStep red l.reverse (fun en hen => hl en (by simpa using hen)) (fun en hen => hasc en (by simpa using hen)) [] (Or.inl rfl)).1
  simpa using this

theorem txtOf_markElided (l : List Entry) : txtOf (markElided l).reverse = [] := by
  have : ∀ (m : List Entry), (∀ en ∈ m, en.elideShort = true) → txtOf m = [] := by
    intro m
    induction m with
    | nil => intro _; rfl
    | cons en r ih => intro h; simp [txtOf, h en (by simp), ih (fun e he => h e (by simp [he]))]
  apply this
  intro en hen
  simp only [List.mem_reverse, markElided, List.mem_map] at hen
  obtain ⟨e0, _, rfl⟩ := hen
  rfl

theorem GoodHead_markElided (l : List Entry) (h : ∀ en ∈ l, GoodHead en) : ∀ en ∈ markElided l, GoodHead en := by
  intro en hen
  simp only [markElided, List.mem_map] at hen
  obtain ⟨e0, h0, rfl⟩ := hen
  exact h e0 h0

/-- appending the entry of the outer layer -/
theorem txtOf_snoc (sub : List Entry) (en : Entry) :
    txtOf (sub ++ [en]).reverse =
      (if en.elideShort = true ∨ en.head = [] then txtOf sub.reverse
       else stripT en.head ++ (if txtOf sub.reverse = [] then [] else colonSp ++ txtOf sub.reverse)) := by
  simp [List.reverse_append, txtOf]

end ErrModel

namespace ErrModel

/-! ### entries of single-operation scripts in plain one-line mode -/

theorem runOps_single (detail : Bool) (op : POp) : runOps detail [op] = runOp { wantDetail := detail } op := rfl
theorem runOps_nil (detail : Bool) : runOps detail [] = { wantDetail := detail } := rfl

structure EntryIs (en : Entry) (txt : Str) : Prop where
  head : stripT en.head = txt
  noElide : en.elideShort = false
  asc : Ascii txt

theorem Ascii_nil : Ascii [] := Clean.nil

theorem EntryIs.good {en : Entry} {txt : Str} (h : EntryIs en txt) (hne : txt ≠ []) : GoodHead en :=
  Or.inr (by rw [h.head]; exact hne)

theorem entry_safe (segs : List SegT) (hs : ∀ g ∈ segs, g.ascii) (hr : Reg (segs.flatMap SegT.content))
    (b red wd : Bool) (d : Nat) (t : Str) :
    EntryIs (collect (runOps false [.safe segs]) b red wd d t) (segs.flatMap SegT.content) := by
  obtain ⟨h1, _⟩ := stripT_assembleT_ascii segs hs
  have hr' : Reg (stripT (assembleT segs)) := by rw [h1]; exact hr
  obtain ⟨w1, w2, w3⟩ := write_fresh (assembleT segs) hr'
  rw [runOps_single]
  show EntryIs (collect (({ wantDetail := false } : LState).write (assembleT segs)) b red wd d t) _
  obtain ⟨c1, c2⟩ := collect_plain_head _ b red wd d t w3 w2
  exact ⟨by rw [c1, w1, h1], c2, hr.ascii⟩

theorem entry_plain (s : Str) (hr : Reg s) (b red wd : Bool) (d : Nat) (t : Str) :
    EntryIs (collect (runOps false [.plain s]) b red wd d t) s := by
  have hr' : Reg (stripT (bytesU s)) := by rw [stripT_bytesU]; exact hr
  obtain ⟨w1, w2, w3⟩ := write_fresh (bytesU s) hr'
  rw [runOps_single]
  show EntryIs (collect (({ wantDetail := false } : LState).write (bytesU s)) b red wd d t) _
  obtain ⟨c1, c2⟩ := collect_plain_head _ b red wd d t w3 w2
  exact ⟨by rw [c1, w1, stripT_bytesU], c2, hr.ascii⟩

theorem entry_none (b red wd : Bool) (d : Nat) (t : Str) :
    (collect (runOps false []) b red wd d t).head = [] ∧ (collect (runOps false []) b red wd d t).elideShort = false := by
  rw [runOps_nil]
  unfold collect
  cases b <;> cases red <;> simp [stripT, stripToks, bytesT]

theorem withStackOf_head (en : Entry) (ls : Stack) (st : Option Stack) :
    (withStackOf en ls st).1.head = en.head ∧ (withStackOf en ls st).1.elideShort = en.elideShort := by
  unfold withStackOf; split <;> exact ⟨rfl, rfl⟩

/-- a stored redactable string (message, prefix): clean, well-formed, regular once stripped -/
structure RegR (p : Str) : Prop where
  ascii : AllAsciiT (lexL p)
  lw : LW (lexL p)
  reg : Reg (stripMarkers p)

theorem RegR.seg {p : Str} (h : RegR p) : ∀ g ∈ [SegT.pre p], g.ascii := by
  intro g hg; simp at hg; subst hg; exact ⟨h.ascii, h.lw⟩

/-- the leaves whose text must be regular for `%v = Error()` -/
def LeafKind.regular (k : LeafKind) : Prop :=
  Reg (leafText k) ∧ (match k with | .leafError msg => RegR msg | _ => True)

theorem ents_leaf_special (id : Ident) (k : LeafKind) (hreg : Reg (leafText k)) (red wd : Bool) (d : Nat) :
    EntryIs (collect (runOps false [.safe [.lit (leafText k)]]) true red wd d (Err.leaf id k).ty.tstr) (leafText k) := by
  have := entry_safe [.lit (leafText k)] (by intro g hg; simp at hg; subst hg; exact hreg.ascii) (by simpa [SegT.content] using hreg) true red wd d (Err.leaf id k).ty.tstr
  simpa [SegT.content] using this

theorem ents_leaf_default (id : Ident) (k : LeafKind) (hreg : Reg (leafText k)) (red wd : Bool) (d : Nat) :
    EntryIs (collect (runOps false (if leafText k ≠ [] then [.plain (leafText k)] else [])) false red wd d (Err.leaf id k).ty.tstr) (leafText k) := by
  have hne : leafText k ≠ [] := hreg.ne
  simp only [hne, ne_eq, not_false_eq_true, if_true]
  exact entry_plain (leafText k) hreg false red wd d (Err.leaf id k).ty.tstr

theorem ents_leaf_text (id : Ident) (k : LeafKind) (hk : k.regular) (red o wd : Bool) (d : Nat) (ls : Stack) :
    ∃ en, (ents red false (.leaf id k) o wd d ls).1 = [en] ∧ EntryIs en (leafText k) := by
  obtain ⟨hreg, hk2⟩ := hk
  have hasc : Ascii (leafText k) := hreg.ascii
  cases k with
  | leafError msg =>
    unfold ents; simp only [leafScript]
    have := entry_safe [.pre msg] (RegR.seg hk2) (by simpa [SegT.content, leafText] using hk2.reg) true red wd d (Err.leaf id (.leafError msg)).ty.tstr
    exact ⟨_, rfl, by simpa [SegT.content, leafText] using this⟩
  | unimplemented msg url dt =>
    unfold ents; simp only [leafScript, Bool.false_eq_true, if_false, List.append_nil]
    have := entry_safe [.arg msg] (by intro g hg; simp at hg; subst hg; exact hasc) (by simpa [SegT.content, leafText] using hreg) true red wd d (Err.leaf id (.unimplemented msg url dt)).ty.tstr
    exact ⟨_, rfl, by simpa [SegT.content, leafText] using this⟩
  | opaqueLeaf msg dd hid =>
    unfold ents; simp only [leafScript, Bool.false_eq_true, if_false, List.append_nil]
    have := entry_safe [.arg msg] (by intro g hg; simp at hg; subst hg; exact hasc) (by simpa [SegT.content, leafText] using hreg) true red wd d (Err.leaf id (.opaqueLeaf msg dd hid)).ty.tstr
    exact ⟨_, rfl, by simpa [SegT.content, leafText] using this⟩
  | pkgFundamental msg st =>
    unfold ents; simp only [leafScript, Bool.false_eq_true, if_false]
    have hp := entry_plain msg (by simpa [leafText] using hreg) false red wd d (Err.leaf id (.pkgFundamental msg st)).ty.tstr
    split
    · exact ⟨_, rfl, by simpa [leafText] using hp⟩
    · obtain ⟨w1, w2⟩ := withStackOf_head (collect (runOps false [.plain msg]) false red wd d (Err.leaf id (.pkgFundamental msg st)).ty.tstr) ls (some st)
      exact ⟨_, rfl, ⟨by rw [w1]; simpa [leafText] using hp.head, by rw [w2]; exact hp.noElide, hasc⟩⟩
  | errno n msg a b c dd e =>
    unfold ents; simp only [leafScript]
    split
    · exact ⟨_, rfl, ents_leaf_special id _ hreg red wd d⟩
    · have := entry_safe [.lit msg] (by intro g hg; simp at hg; subst hg; exact (by simpa [leafText] using hasc : Ascii msg)) (by simpa [SegT.content, leafText] using hreg) true red wd d (Err.leaf id (.errno n msg a b c dd e)).ty.tstr
      exact ⟨_, rfl, by simpa [SegT.content, leafText] using this⟩
  | errorString m =>
    unfold ents; simp only [leafScript]
    split
    · exact ⟨_, rfl, ents_leaf_special id _ hreg red wd d⟩
    · exact ⟨_, rfl, ents_leaf_default id _ hreg red wd d⟩
  | deadline =>
    unfold ents; simp only [leafScript]
    split
    · exact ⟨_, rfl, ents_leaf_special id _ hreg red wd d⟩
    · exact ⟨_, rfl, ents_leaf_default id _ hreg red wd d⟩
  | opaqueErrno m n ar a b c dd e =>
    unfold ents; simp only [leafScript]
    split
    · exact ⟨_, rfl, ents_leaf_special id _ hreg red wd d⟩
    · exact ⟨_, rfl, ents_leaf_default id _ hreg red wd d⟩
  | testErr =>
    unfold ents; simp only [leafScript]
    split
    · exact ⟨_, rfl, ents_leaf_special id _ hreg red wd d⟩
    · exact ⟨_, rfl, ents_leaf_default id _ hreg red wd d⟩
  | grpcStatus c m n =>
    unfold ents; simp only [leafScript]
    split
    · exact ⟨_, rfl, ents_leaf_special id _ hreg red wd d⟩
    · exact ⟨_, rfl, ents_leaf_default id _ hreg red wd d⟩
  | gogoStatus c m n =>
    unfold ents; simp only [leafScript]
    split
    · exact ⟨_, rfl, ents_leaf_special id _ hreg red wd d⟩
    · exact ⟨_, rfl, ents_leaf_default id _ hreg red wd d⟩
  | user u m =>
    unfold ents; simp only [leafScript]
    split
    · exact ⟨_, rfl, ents_leaf_special id _ hreg red wd d⟩
    · exact ⟨_, rfl, ents_leaf_default id _ hreg red wd d⟩

end ErrModel

namespace ErrModel

/-! ### wrappers -/

/-- the wrapper kinds that print nothing of their own in one-line mode -/
def WrapKind.annotation : WrapKind → Bool
  | .withStack _ | .withHint _ | .withDetail _ | .withIssueLink .. | .withTelemetry _ | .withDomain _
  | .withContext .. | .withAssertionFailure | .withSafeDetails _ | .withMark .. | .withHTTPCode _ | .withGrpcCode _ => true
  | _ => false

/-- the wrapper kinds printed by formatSimple (prefix extracted from the two Error() texts) -/
def WrapKind.simple : WrapKind → Bool
  | .pkgWithMessage _ | .pkgWithStack _ | .fmtWrapError _ | .user .. => true
  | _ => false

/-- what must be regular in a wrapper, given the text `ct` of its cause -/
def WrapKind.regular (k : WrapKind) (ct : Str) : Prop :=
  match k with
  | .withPrefix p => p = [] ∨ RegR p
  | .withNewMessage m => RegR m
  | .opaqueWrapper p _ mt _ => if mt = mtFull then Reg p else (p = [] ∨ Reg p)
  | .pathError op path => Reg (op ++ sp ++ path) ∧ Ascii op ∧ Ascii path
  | .linkError op old new => Reg (op ++ sp ++ old ++ sp ++ new) ∧ Ascii op ∧ Ascii old ∧ Ascii new
  | .syscallError scn => Reg scn
  | .pkgWithMessage _ | .pkgWithStack _ | .fmtWrapError _ | .user .. =>
    wrapText k ct ≠ colonSp ++ ct ∧ wrapText k ct ≠ [] ∧
      ((extractPrefix (wrapText k ct) ct).1 = [] ∨ Reg (extractPrefix (wrapText k ct) ct).1)
  | _ => True

/-- the entry of a wrapper layer in plain one-line mode: (text of its head, does it hide the causes) -/
structure WrapEntry (k : WrapKind) (ct : Str) (en : Entry) (elide : Bool) : Prop where
  noElide : en.elideShort = false
  good : GoodHead en
  vis : en.head = [] → elide = false
  txt : (if en.head = [] then (if elide then [] else ct)
         else stripT en.head ++ (if elide ∨ ct = [] then [] else colonSp ++ ct)) = wrapText k ct
  asc : Ascii (stripT en.head)

theorem sp_ascii : Ascii sp := Clean_of_lt sp (by intro c hc; simp [sp] at hc; subst hc; decide)

/-- formatSimple: the prefix extracted from the two Error() texts, printed before the cause (or
    instead of it), reassembles the wrapper's own Error() text -/
theorem simple_entry (k : WrapKind) (ct : Str) (hct : ct ≠ [])
    (h1 : wrapText k ct ≠ colonSp ++ ct) (h2 : wrapText k ct ≠ [])
    (h3 : (extractPrefix (wrapText k ct) ct).1 = [] ∨ Reg (extractPrefix (wrapText k ct) ct).1) (red wd : Bool) (d : Nat) (t : Str) :
    WrapEntry k ct (collect (runOps false (simpleWrapOps (wrapText k ct) ct).1) false red wd d t)
      (simpleWrapOps (wrapText k ct) ct).2 := by
  have hre := extract_reassemble (wrapText k ct) ct h1
  unfold simpleWrapOps
  simp only []
  rcases h3 with hp | hp
  · simp only [hp, ne_eq, not_true_eq_false, if_false]
    obtain ⟨e1, e2⟩ := entry_none false red wd d t
    rw [hp] at hre
    simp only [opaqueText] at hre
    have hnf : (extractPrefix (wrapText k ct) ct).2 ≠ mtFull := by
      intro hm; simp [hm] at hre; exact h2 hre
    refine ⟨e2, Or.inl e1, fun _ => by simp [hnf], ?_, by rw [e1]; exact Ascii_nil⟩
    simp only [e1, if_true]
    simp [hnf] at hre ⊢; exact hre
  · have hne : (extractPrefix (wrapText k ct) ct).1 ≠ [] := hp.ne
    simp only [hne, ne_eq, not_false_eq_true, if_true]
    have he := entry_plain _ hp false red wd d t
    have hh : (collect (runOps false [.plain (extractPrefix (wrapText k ct) ct).1]) false red wd d t).head ≠ [] := by
      intro h0; have := he.head; rw [h0] at this; simp at this; exact hne this
    refine ⟨he.noElide, he.good hne, fun h0 => absurd h0 hh, ?_, by rw [he.head]; exact he.asc⟩
    simp only [hh, if_false, he.head]
    simp only [opaqueText, hne, if_false] at hre
    by_cases hm : (extractPrefix (wrapText k ct) ct).2 = mtFull
    · simp [hm] at hre ⊢; exact hre
    · simp [hm, hct, pfx] at hre ⊢; exact hre

theorem wrapOpsOf_entry (k : WrapKind) (ct : Str) (hct : ct ≠ []) (hk : k.regular ct) (red wd : Bool) (d : Nat) (t : Str) :
    WrapEntry k ct (collect (runOps false (wrapOpsOf k false ct).1) (wrapOpsOf k false ct).2.2 red wd d t)
      (wrapOpsOf k false ct).2.1 := by
  have none_case : ∀ (b : Bool), (wrapOpsOf k false ct).1 = [] → (wrapOpsOf k false ct).2.1 = false → wrapText k ct = ct →
      (wrapOpsOf k false ct).2.2 = b →
      WrapEntry k ct (collect (runOps false (wrapOpsOf k false ct).1) (wrapOpsOf k false ct).2.2 red wd d t) (wrapOpsOf k false ct).2.1 := by
    intro b h1 h2 h3 h4
    rw [h1, h2]
    obtain ⟨e1, e2⟩ := entry_none (wrapOpsOf k false ct).2.2 red wd d t
    exact ⟨e2, Or.inl e1, fun _ => rfl, by simp [e1, h3], by rw [e1]; exact Ascii_nil⟩
  cases k with
  | withStack st => exact none_case true rfl rfl rfl rfl
  | withHint h => exact none_case false rfl rfl rfl rfl
  | withDetail h => exact none_case false rfl rfl rfl rfl
  | withIssueLink u dd => exact none_case true rfl rfl rfl rfl
  | withTelemetry ks => exact none_case true rfl rfl rfl rfl
  | withDomain dd => exact none_case true rfl rfl rfl rfl
  | withContext tg ks r => exact none_case true rfl rfl rfl rfl
  | withAssertionFailure => exact none_case true rfl rfl rfl rfl
  | withSafeDetails l => exact none_case true rfl rfl rfl rfl
  | withMark m tys => exact none_case true rfl rfl rfl rfl
  | withHTTPCode n => exact none_case true rfl rfl rfl rfl
  | withGrpcCode n => exact none_case true rfl rfl rfl rfl
  | withPrefix p =>
    rcases hk with hp | hp
    · subst hp
      -- an empty prefix: Sprintf of an empty redactable string is empty, nothing is written
      have hw : (wrapOpsOf (.withPrefix []) false ct) = ([.safe [.pre []]], false, true) := rfl
      rw [hw]
      have hasm : assembleT [.pre []] = [] := by
        simp [assembleT, RBT.seg, RBT.setMode, RBT.reset, RBT.escapeToEnd, escLoopT, lastRuneInvalid, unlex, RBT.write, lexL, lex, relabel, RBT.finalize]
      have : runOps false [.safe [.pre []]] = { wantDetail := false } := by
        rw [runOps_single]; simp [runOp, hasm, LState.write]
      rw [this]
      obtain ⟨e1, e2⟩ := entry_none true red wd d t
      rw [runOps_nil] at e1 e2
      exact ⟨e2, Or.inl e1, fun _ => rfl, by simp [e1, wrapText], by rw [e1]; exact Ascii_nil⟩
    · have hw : (wrapOpsOf (.withPrefix p) false ct) = ([.safe [.pre p]], false, true) := rfl
      rw [hw]
      have he := entry_safe [.pre p] (RegR.seg hp) (by simpa [SegT.content] using hp.reg) true red wd d t
      have hne : stripMarkers p ≠ [] := hp.reg.ne
      have hh : (collect (runOps false [.safe [.pre p]]) true red wd d t).head ≠ [] := by
        intro h0; have := he.head; rw [h0] at this; simp [SegT.content] at this; exact hne this
      refine ⟨he.noElide, he.good (by simpa [SegT.content] using hne), fun h0 => absurd h0 hh, ?_, by rw [he.head]; exact he.asc⟩
      have hpne : p ≠ [] := by intro h0; subst h0; simp [stripMarkers, lex, stripToks] at hne
      simp [hh, he.head, SegT.content, wrapText, hpne, hct, pfx]
  | withNewMessage m =>
    have hw : (wrapOpsOf (.withNewMessage m) false ct) = ([.safe [.pre m]], true, true) := rfl
    rw [hw]
    have he := entry_safe [.pre m] (RegR.seg hk) (by simpa [SegT.content] using hk.reg) true red wd d t
    have hne : stripMarkers m ≠ [] := hk.reg.ne
    have hh : (collect (runOps false [.safe [.pre m]]) true red wd d t).head ≠ [] := by
      intro h0; have := he.head; rw [h0] at this; simp [SegT.content] at this; exact hne this
    exact ⟨he.noElide, he.good (by simpa [SegT.content] using hne), fun h0 => absurd h0 hh, by simp [hh, he.head, SegT.content, wrapText], by rw [he.head]; exact he.asc⟩
  | opaqueWrapper p dd mt hid =>
    by_cases hp : p = []
    · subst hp
      have hw : (wrapOpsOf (.opaqueWrapper [] dd mt hid) false ct) = ([], decide (mt = mtFull), true) := by
        simp [wrapOpsOf, wrapScript]
      rw [hw]
      obtain ⟨e1, e2⟩ := entry_none true red wd d t
      by_cases hm : mt = mtFull
      · simp [WrapKind.regular, hm] at hk; exact absurd rfl hk.ne
      · exact ⟨e2, Or.inl e1, fun _ => by simp [hm], by simp [e1, wrapText, hm], by rw [e1]; exact Ascii_nil⟩
    · have hw : (wrapOpsOf (.opaqueWrapper p dd mt hid) false ct) = ([.safe [.arg p]], decide (mt = mtFull), true) := by
        simp [wrapOpsOf, wrapScript, hp]
      rw [hw]
      have hreg : Reg p := by
        by_cases hm : mt = mtFull
        · simpa [WrapKind.regular, hm] using hk
        · have := hk; simp only [WrapKind.regular, hm, if_false] at this; rcases this with h | h; exact absurd h hp; exact h
      have he := entry_safe [.arg p] (by intro g hg; simp at hg; subst hg; exact hreg.ascii) (by simpa [SegT.content] using hreg) true red wd d t
      have hh : (collect (runOps false [.safe [.arg p]]) true red wd d t).head ≠ [] := by
        intro h0; have := he.head; rw [h0] at this; simp [SegT.content] at this; exact hp this
      refine ⟨he.noElide, he.good (by simpa [SegT.content] using hp), fun h0 => absurd h0 hh, ?_, by rw [he.head]; exact he.asc⟩
      by_cases hm : mt = mtFull <;> simp [hh, he.head, SegT.content, wrapText, hm, hp, hct, pfx]
  | pathError op path =>
    obtain ⟨hr, ho, hpa⟩ := hk
    have hw : (wrapOpsOf (.pathError op path) false ct) = ([.safe [.lit op, .lit sp, .arg path]], false, true) := rfl
    rw [hw]
    have he := entry_safe [.lit op, .lit sp, .arg path]
      (by intro g hg; simp at hg; rcases hg with rfl | rfl | rfl; exact ho; exact sp_ascii; exact hpa)
      (by simpa [SegT.content, List.append_assoc] using hr) true red wd d t
    have hne : op ++ sp ++ path ≠ [] := hr.ne
    have hh : (collect (runOps false [.safe [.lit op, .lit sp, .arg path]]) true red wd d t).head ≠ [] := by
      intro h0; have := he.head; rw [h0] at this; simp [SegT.content] at this; exact hne (by simp [this.1, this.2.1, this.2.2])
    refine ⟨he.noElide, he.good (by simpa [SegT.content, List.append_assoc] using hne), fun h0 => absurd h0 hh, ?_, by rw [he.head]; exact he.asc⟩
    simp [hh, he.head, SegT.content, wrapText, hct, pfx, List.append_assoc]
  | linkError op old new =>
    obtain ⟨hr, ho, hol, hnw⟩ := hk
    have hw : (wrapOpsOf (.linkError op old new) false ct) = ([.safe [.lit op, .lit sp, .arg old, .lit sp, .arg new]], false, true) := rfl
    rw [hw]
    have he := entry_safe [.lit op, .lit sp, .arg old, .lit sp, .arg new]
      (by intro g hg; simp at hg; rcases hg with rfl | rfl | rfl | rfl | rfl; exact ho; exact sp_ascii; exact hol; exact sp_ascii; exact hnw)
      (by simpa [SegT.content, List.append_assoc] using hr) true red wd d t
    have hne : op ++ sp ++ old ++ sp ++ new ≠ [] := hr.ne
    have hh : (collect (runOps false [.safe [.lit op, .lit sp, .arg old, .lit sp, .arg new]]) true red wd d t).head ≠ [] := by
      intro h0; have := he.head; rw [h0] at this; simp [SegT.content, sp] at this
    refine ⟨he.noElide, he.good (by simpa [SegT.content, List.append_assoc] using hne), fun h0 => absurd h0 hh, ?_, by rw [he.head]; exact he.asc⟩
    simp [hh, he.head, SegT.content, wrapText, hct, pfx, List.append_assoc]
  | syscallError scn =>
    have hw : (wrapOpsOf (.syscallError scn) false ct) = ([.safe [.lit scn]], false, true) := rfl
    rw [hw]
    have hk : Reg scn := hk
    have he := entry_safe [.lit scn] (by intro g hg; simp at hg; subst hg; exact hk.ascii) (by simpa [SegT.content] using hk) true red wd d t
    have hne : scn ≠ [] := hk.ne
    have hh : (collect (runOps false [.safe [.lit scn]]) true red wd d t).head ≠ [] := by
      intro h0; have := he.head; rw [h0] at this; simp [SegT.content] at this; exact hne this
    refine ⟨he.noElide, he.good (by simpa [SegT.content] using hne), fun h0 => absurd h0 hh, ?_, by rw [he.head]; exact he.asc⟩
    simp [hh, he.head, SegT.content, wrapText, hct, pfx]
  | pkgWithMessage m => exact simple_entry _ ct hct hk.1 hk.2.1 hk.2.2 red wd d t
  | pkgWithStack st => exact simple_entry _ ct hct hk.1 hk.2.1 hk.2.2 red wd d t
  | fmtWrapError m => exact simple_entry _ ct hct hk.1 hk.2.1 hk.2.2 red wd d t
  | user u msg => exact simple_entry _ ct hct hk.1 hk.2.1 hk.2.2 red wd d t

end ErrModel

namespace ErrModel

/-! ### `%v` prints exactly Error() -/

/-- the errors over regular text: every string a layer prints in one-line mode begins and ends
    with a non-newline byte, has no two newlines in a row, is valid UTF-8 without marker runes (`Clean`), and stored redactable strings
    are well-formed; hidden parts and the branches of multi-cause nodes are unconstrained -/
def RegE : Err → Prop
  | .leaf _ k => k.regular
  | .barrier _ m _ => RegR m.smsg
  | .wrap _ k c => RegE c ∧ k.regular (errText c)
  | .second _ c _ => RegE c
  | .multi id k cs => Reg (errText (.multi id k cs))

/-- the statement proved by induction: the entries of the sub-tree, stripped and laid out on one
    line, are the Error() text, which is not empty -/
structure VText (e : Err) (E : List Entry) : Prop where
  good : ∀ en ∈ E, en.elideShort = false → GoodHead en
  txt : txtOf E.reverse = errText e
  ne : errText e ≠ []
  asc : ∀ en ∈ E, en.elideShort = false → Ascii (stripT en.head)

theorem not_elided_markElided {sub : List Entry} {x : Entry} (h1 : x ∈ markElided sub) (hxe : x.elideShort = false) : False := by
  simp only [markElided, List.mem_map] at h1
  obtain ⟨e0, _, rfl⟩ := h1
  simp at hxe

theorem VText_single (e : Err) (en : Entry) (h : EntryIs en (errText e)) (hne : errText e ≠ []) : VText e [en] := by
  refine ⟨fun x hx _ => by simp at hx; subst hx; exact h.good hne, ?_, hne,
    fun x hx _ => by simp at hx; subst hx; rw [h.head]; exact h.asc⟩
  have hh : en.head ≠ [] := by intro h0; have := h.head; rw [h0] at this; simp at this; exact hne this
  simp [txtOf, h.noElide, hh, h.head]

/-- the Error() of a wrapper through the engine's own definition equals the compositional one,
    once the cause's one-line rendering is its Error() text -/
theorem errText_wrap (id : Ident) (k : WrapKind) (c : Err)
    (hc : ∀ o wd d ls, stripT (singleLine false (ents false false c o wd d ls).1) = errText c) :
    errText (.wrap id k c) = wrapText k (errText c) := by
  cases k <;> simp [errText, wrapText, hc] <;> (try split) <;> simp_all [pfx]

theorem multi_default_vtext (e : Err) (sub : List Entry) (t : Str) (ht : t = errText e) (hr : Reg t) (red wd : Bool) (d : Nat) (ts : Str) :
    VText e (markElided sub ++ [collect (runOps false (if t ≠ [] then [.plain t] else [])) false red wd d ts]) := by
  subst ht
  have ht : errText e = errText e := rfl
  have hne : errText e ≠ [] := hr.ne
  simp only [hne, ne_eq, not_false_eq_true, if_true]
  have hE := entry_plain (errText e) hr false red wd d ts
  have hne' : errText e ≠ [] := hne
  refine ⟨?_, ?_, hne', ?_⟩
  · intro x hx hxe
    rcases List.mem_append.mp hx with h1 | h1
    · exact (not_elided_markElided h1 hxe).elim
    · simp at h1; subst h1; exact hE.good hne
  rotate_left
  · intro x hx hxe
    rcases List.mem_append.mp hx with h1 | h1
    · exact (not_elided_markElided h1 hxe).elim
    · simp at h1; subst h1; rw [hE.head]; exact hE.asc
  · rw [txtOf_snoc]
    have hh : (collect (runOps false [.plain (errText e)]) false red wd d ts).head ≠ [] := by
      intro h0; have := hE.head; rw [h0] at this; simp at this; exact hne this
    simp [hE.noElide, hh, txtOf_markElided, hE.head]

theorem v_text : (e : Err) → RegE e → ∀ (red o wd : Bool) (d : Nat) (ls : Stack), VText e (ents red false e o wd d ls).1
  | .leaf id k, h, red, o, wd, d, ls => by
    obtain ⟨en, he, hen⟩ := ents_leaf_text id k h red o wd d ls
    rw [he]
    exact VText_single _ en (by simpa [errText] using hen) (by simpa [errText] using h.1.ne)
  | .barrier id m hd, h, red, o, wd, d, ls => by
    unfold ents
    have he := entry_safe [.pre m.smsg] (RegR.seg h) (by simpa [SegT.content] using h.reg) true red wd d tnBarrier.tstr
    have : barrierScript m [] false = [.safe [.pre m.smsg]] := by simp [barrierScript]
    simp only [Bool.false_eq_true, if_false, this]
    exact VText_single _ _ (by simpa [errText, SegT.content] using he) (by simpa [errText] using h.reg.ne)
  | .wrap id k c, h, red, o, wd, d, ls => by
    obtain ⟨hc, hk⟩ := h
    have ihc : ∀ red o wd d ls, VText c (ents red false c o wd d ls).1 := v_text c hc
    have hsl : ∀ o wd d ls, stripT (singleLine false (ents false false c o wd d ls).1) = errText c := by
      intro o wd d ls
      rw [stripT_singleLine false _ (ihc false o wd d ls).good (ihc false o wd d ls).asc, (ihc false o wd d ls).txt]
    have hct : errText c ≠ [] := (ihc red false wd (d + 1) ls).ne
    have hew := errText_wrap id k c hsl
    have ih := ihc red false wd (d + 1) ls
    have hwe := wrapOpsOf_entry k (errText c) hct hk red wd d (Err.wrap id k c).ty.tstr
    obtain ⟨w1, w2⟩ := withStackOf_head
      (collect (runOps false (wrapOpsOf k false (errText c)).1) (wrapOpsOf k false (errText c)).2.2 red wd d (Err.wrap id k c).ty.tstr)
      (ents red false c false wd (d + 1) ls).2 (wrapStackOf k)
    unfold ents
    simp only []
    -- the entry of this layer
    generalize hen : (withStackOf
      (collect (runOps false (wrapOpsOf k false (errText c)).1) (wrapOpsOf k false (errText c)).2.2 red wd d (Err.wrap id k c).ty.tstr)
      (ents red false c false wd (d + 1) ls).2 (wrapStackOf k)).1 = en at w1 w2 ⊢
    generalize hcol : collect (runOps false (wrapOpsOf k false (errText c)).1) (wrapOpsOf k false (errText c)).2.2 red wd d (Err.wrap id k c).ty.tstr = ce at hwe w1 w2
    have hgood : GoodHead en := by
      rcases hwe.good with g | g
      · exact Or.inl (by rw [w1]; exact g)
      · exact Or.inr (by rw [w1]; exact g)
    have hnel : en.elideShort = false := by rw [w2]; exact hwe.noElide
    have hasc : Ascii (stripT en.head) := by rw [w1]; exact hwe.asc
    have htxt := hwe.txt
    have hvis := hwe.vis
    rw [← w1] at htxt hvis
    refine ⟨?_, ?_, ?_, ?_⟩
    · intro x hx hxe
      rcases List.mem_append.mp hx with h1 | h1
      · split at h1
        · exact (not_elided_markElided h1 hxe).elim
        · exact ih.good x h1 hxe
      · simp at h1; subst h1; exact hgood
    · rw [txtOf_snoc]
      simp only [hnel, Bool.false_eq_true, false_or]
      rw [hew, ← htxt]
      by_cases hel : (wrapOpsOf k false (errText c)).2.1 = true
      · simp only [hel, if_true, txtOf_markElided]
        by_cases hh : en.head = []
        · have := hvis hh
          rw [hel] at this; exact absurd this (by simp)
        · simp [hh]
      · have hel' : (wrapOpsOf k false (errText c)).2.1 = false := by simpa using hel
        simp only [hel', Bool.false_eq_true, if_false, ih.txt]
        by_cases hh : en.head = []
        · simp [hh]
        · simp [hh, hct]
    · rw [hew, ← htxt]
      by_cases hh : en.head = []
      · have := hvis hh
        simp [hh, this, hct]
      · rcases hgood with g | g
        · exact absurd g hh
        · simp [hh, g]
    · intro x hx hxe
      rcases List.mem_append.mp hx with h1 | h1
      · split at h1
        · exact (not_elided_markElided h1 hxe).elim
        · exact ih.asc x h1 hxe
      · simp at h1; subst h1; exact hasc
  | .second id c s, h, red, o, wd, d, ls => by
    have ih := v_text c h red false wd (d + 1) ls
    unfold ents
    simp only [Bool.false_eq_true, if_false]
    have hs : secondScript [] false = [] := by simp [secondScript]
    rw [hs]
    obtain ⟨e1, e2⟩ := entry_none true red wd d tnSecondary.tstr
    refine ⟨?_, ?_, ?_, ?_⟩
    · intro x hx hxe
      rcases List.mem_append.mp hx with h1 | h1
      · exact ih.good x h1 hxe
      · simp at h1; subst h1; exact Or.inl e1
    · rw [txtOf_snoc]; simp [e1, ih.txt, errText]
    · simpa [errText] using ih.ne
    · intro x hx hxe
      rcases List.mem_append.mp hx with h1 | h1
      · exact ih.asc x h1 hxe
      · simp at h1; subst h1; rw [e1]; exact Ascii_nil
  | .multi id k cs, h, red, o, wd, d, ls => by
    have hne : errText (.multi id k cs) ≠ [] := h.ne
    have hasc : Ascii (errText (.multi id k cs)) := h.ascii
    unfold ents
    simp only []
    -- every branch entry is elided; the node's own entry carries the whole text
    have single : ∀ (sub : List Entry) (en : Entry), EntryIs en (errText (.multi id k cs)) →
        VText (.multi id k cs) (markElided sub ++ [en]) := by
      intro sub en hE
      have hh : en.head ≠ [] := by
        intro h0; have := hE.head; rw [h0] at this; simp at this; exact hne this
      refine ⟨?_, ?_, hne, ?_⟩
      · intro x hx hxe
        rcases List.mem_append.mp hx with h1 | h1
        · exact (not_elided_markElided h1 hxe).elim
        · simp at h1; subst h1; exact hE.good hne
      · rw [txtOf_snoc]
        simp [hE.noElide, hh, txtOf_markElided, hE.head]
      · intro x hx hxe
        rcases List.mem_append.mp hx with h1 | h1
        · exact (not_elided_markElided h1 hxe).elim
        · simp at h1; subst h1; rw [hE.head]; exact hE.asc
    cases k with
    | join =>
      simp only []
      -- the entry of a Join is built from the same buffer as its Error() text
      have hb : ∀ (S : LState) (wd : Bool) (d : Nat) (t : Str),
          stripT (collect S true red wd d t).head = stripT (collect S true true false 0 []).head ∧
          (collect S true red wd d t).elideShort = false := by
        intro S wd d t
        unfold collect
        cases red <;> by_cases hw : S.wantDetail = true <;> by_cases hd : S.hasDetail = true <;> simp [hw, hd, stripT_bytesT]
      obtain ⟨b1, b2⟩ := hb (runOps false (joinScript (rendVL cs))) wd d (Err.multi id .join cs).ty.tstr
      exact single _ _ ⟨by rw [b1]; simp [errText], b2, hasc⟩
    | opaqueLeafCauses msg dd hid =>
      simp only [leafScript, Bool.false_eq_true, if_false, List.append_nil, Option.getD_some]
      have hr : Reg msg := by have := h; simp only [RegE, errText, multiText] at this; exact this
      have hE := entry_safe [.arg msg] (by intro g hg; simp at hg; subst hg; exact hr.ascii) (by simpa [SegT.content] using hr) true red wd d (Err.multi id (.opaqueLeafCauses msg dd hid) cs).ty.tstr
      exact single _ _ (by simpa [SegT.content, errText, multiText] using hE)
    | stdJoin => exact multi_default_vtext _ _ _ (by simp [errText]) (by simpa [RegE, errText] using h) red wd d _
    | fmtWrapErrors m => exact multi_default_vtext _ _ _ (by simp [errText]) (by simpa [RegE, errText] using h) red wd d _
    | user u m => exact multi_default_vtext _ _ _ (by simp [errText]) (by simpa [RegE, errText] using h) red wd d _

end ErrModel

namespace ErrModel

/-! ### the plain rendering contains no marker token: its bytes are its stripped form -/

def NoMarkers (t : Toks) : Prop := ∀ x ∈ t, x ≠ Tok.op ∧ x ≠ Tok.cl

theorem NoMarkers_nil : NoMarkers [] := by intro x hx; simp at hx
theorem NoMarkers_append {a b : Toks} (ha : NoMarkers a) (hb : NoMarkers b) : NoMarkers (a ++ b) := by
  intro x hx; rcases List.mem_append.mp hx with h | h; exact ha x h; exact hb x h
theorem NoMarkers_bytesT (s : Str) : NoMarkers (bytesT s) := by
  intro x hx; simp [bytesT] at hx; obtain ⟨c, _, rfl⟩ := hx; simp
theorem NoMarkers_bytesU (s : Str) : NoMarkers (bytesU s) := by
  intro x hx; simp [bytesU] at hx; obtain ⟨c, _, rfl⟩ := hx; split <;> simp
theorem NoMarkers_flatten {l : List Toks} (h : ∀ t ∈ l, NoMarkers t) : NoMarkers l.flatten := by
  intro x hx; obtain ⟨t, ht, hxt⟩ := List.mem_flatten.mp hx; exact h t ht x hxt

theorem unlex_noMarkers : (t : Toks) → NoMarkers t → unlex t = stripT t
  | [], _ => rfl
  | .op :: r, h => absurd rfl (h .op (by simp)).1
  | .cl :: r, h => absurd rfl (h .cl (by simp)).2
  | .b c :: r, h => by simp [unlex, unlex_noMarkers r (fun x hx => h x (by simp [hx]))]
  | .u c :: r, h => by simp [unlex, unlex_noMarkers r (fun x hx => h x (by simp [hx]))]

structure LState.NM (s : LState) : Prop where
  buf : NoMarkers s.buf
  head : NoMarkers s.headBuf

theorem writeLoop_NM : (rest : Toks) → (s : LState) → (chunk : Toks) → s.NM → NoMarkers chunk → NoMarkers rest →
    (writeLoop s chunk rest).NM
  | [], s, chunk, hs, hc, _ => by
    unfold writeLoop; exact ⟨NoMarkers_append hs.buf hc, hs.head⟩
  | x :: r, s, chunk, hs, hc, hr => by
    have hx := hr x (by simp)
    have hr' : NoMarkers r := fun y hy => hr y (by simp [hy])
    unfold writeLoop
    split
    · apply writeLoop_NM r _ [] _ NoMarkers_nil hr'
      have hb : NoMarkers (s.buf ++ chunk) := NoMarkers_append hs.buf hc
      split
      · unfold LState.switchOver
        split
        · exact ⟨hb, hs.head⟩
        · exact ⟨NoMarkers_nil, hb⟩
      · exact ⟨hb, hs.head⟩
    · apply writeLoop_NM r _ (chunk ++ [x]) _ (NoMarkers_append hc (by intro y hy; simp at hy; subst hy; exact hx)) hr'
      have hsep : NoMarkers (if s.wantDetail then detailSep else nlTs) := by
        split
        · exact NoMarkers_bytesT _
        · intro y hy; simp [nlTs, nlT] at hy; subst hy; simp
      have hpad : NoMarkers (List.replicate (s.needNewline - 1) (if s.wantDetail then detailPad else [])).flatten := by
        apply NoMarkers_flatten
        intro t ht
        rw [List.mem_replicate] at ht
        rw [ht.2]
        split
        · exact NoMarkers_bytesT _
        · exact NoMarkers_nil
      split
      · exact ⟨NoMarkers_append (NoMarkers_append hs.buf hpad) hsep, hs.head⟩
      · split
        · exact ⟨NoMarkers_append hs.buf (by intro y hy; simp at hy; subst hy; simp), hs.head⟩
        · exact ⟨hs.buf, hs.head⟩

def POp.isPlain : POp → Bool
  | .safe _ => false
  | _ => true

theorem runOps_NM (detail : Bool) (ops : List POp) (h : ∀ op ∈ ops, op.isPlain = true) : (runOps detail ops).NM := by
  unfold runOps
  have : ∀ (l : List POp) (s : LState), s.NM → (∀ op ∈ l, op.isPlain = true) → (l.foldl runOp s).NM := by
    intro l
    induction l with
    | nil => intro s hs _; exact hs
    | cons op r ih =>
      intro s hs hl
      apply ih _ _ (fun x hx => hl x (by simp [hx]))
      have hop := hl op (by simp)
      cases op with
      | safe segs => simp [POp.isPlain] at hop
      | plain b =>
        simp only [runOp, LState.write]
        split
        · exact hs
        · exact writeLoop_NM _ s [] hs NoMarkers_nil (NoMarkers_bytesU b)
      | detail =>
        simp only [runOp, LState.detail, LState.switchOver]
        split <;> split <;> first | exact ⟨hs.buf, hs.head⟩ | exact ⟨NoMarkers_nil, hs.buf⟩
  exact this ops _ ⟨NoMarkers_nil, NoMarkers_nil⟩ h

/-- in plain mode an entry holds no marker, provided a buffer that is not redactable was written
    by plain operations only -/
theorem collect_plain_NM (s : LState) (b wd : Bool) (d : Nat) (t : Str) (h : b = false → s.NM) :
    NoMarkers (collect s b false wd d t).head ∧ NoMarkers (collect s b false wd d t).details := by
  cases b with
  | true => simp [collect]; exact ⟨NoMarkers_bytesT _, NoMarkers_bytesT _⟩
  | false =>
    have hs := h rfl
    unfold collect
    have hcat : NoMarkers ((if s.headBuf ≠ [] && s.headBuf.getLast? ≠ some nlT && s.buf ≠ [] && s.buf.head? ≠ some nlT
        then s.headBuf ++ [nlT] else s.headBuf) ++ s.buf) := by
      apply NoMarkers_append _ hs.buf
      split
      · exact NoMarkers_append hs.head (by intro y hy; simp [nlT] at hy; subst hy; simp)
      · exact hs.head
    by_cases hw : s.wantDetail = true <;> by_cases hd : s.hasDetail = true <;>
      simp only [hw, hd, if_true, if_false, Bool.false_eq_true] <;>
      first
        | exact ⟨hs.head, hs.buf⟩
        | exact ⟨hs.buf, NoMarkers_nil⟩
        | exact ⟨hcat, NoMarkers_nil⟩

end ErrModel

namespace ErrModel

structure Entry.NM (en : Entry) : Prop where
  head : NoMarkers en.head
  details : NoMarkers en.details

theorem entry_NM (detail : Bool) (ops : List POp) (b wd : Bool) (d : Nat) (t : Str)
    (h : b = false → ∀ op ∈ ops, op.isPlain = true) : (collect (runOps detail ops) b false wd d t).NM := by
  obtain ⟨h1, h2⟩ := collect_plain_NM (runOps detail ops) b wd d t (fun hb => runOps_NM detail ops (h hb))
  exact ⟨h1, h2⟩

theorem wrapOpsOf_plain (k : WrapKind) (detail : Bool) (ct : Str) (hf : (wrapOpsOf k detail ct).2.2 = false) :
    ∀ op ∈ (wrapOpsOf k detail ct).1, op.isPlain = true := by
  cases k with
  | withHint h => intro op hop; cases detail <;> simp [wrapOpsOf, wrapScript] at hop; rcases hop with rfl | rfl <;> rfl
  | withDetail h => intro op hop; cases detail <;> simp [wrapOpsOf, wrapScript] at hop; rcases hop with rfl | rfl <;> rfl
  | pkgWithMessage m => intro op hop; simp only [wrapOpsOf, simpleWrapOps] at hop; split at hop <;> simp at hop; subst hop; rfl
  | pkgWithStack st => intro op hop; simp only [wrapOpsOf, simpleWrapOps] at hop; split at hop <;> simp at hop; subst hop; rfl
  | fmtWrapError m => intro op hop; simp only [wrapOpsOf, simpleWrapOps] at hop; split at hop <;> simp at hop; subst hop; rfl
  | user u msg => intro op hop; simp only [wrapOpsOf, simpleWrapOps] at hop; split at hop <;> simp at hop; subst hop; rfl
  | syscallError m => simp [wrapOpsOf] at hf
  | pathError op path => simp [wrapOpsOf] at hf
  | linkError op a b => simp [wrapOpsOf] at hf
  | withPrefix p => simp [wrapOpsOf, wrapScript] at hf
  | withNewMessage m => simp [wrapOpsOf, wrapScript] at hf
  | withStack st => simp [wrapOpsOf, wrapScript] at hf
  | withIssueLink u dd => simp [wrapOpsOf, wrapScript] at hf
  | withTelemetry ks => simp [wrapOpsOf, wrapScript] at hf
  | withDomain dd => simp [wrapOpsOf, wrapScript] at hf
  | withContext t ks r => simp [wrapOpsOf, wrapScript] at hf
  | withAssertionFailure => simp [wrapOpsOf, wrapScript] at hf
  | withSafeDetails l => simp [wrapOpsOf, wrapScript] at hf
  | withMark m t => simp [wrapOpsOf, wrapScript] at hf
  | withHTTPCode n => simp [wrapOpsOf, wrapScript] at hf
  | withGrpcCode n => simp [wrapOpsOf, wrapScript] at hf
  | opaqueWrapper p dd mt hid => simp [wrapOpsOf, wrapScript] at hf

theorem mem_single_NM {en x : Entry} (h : x.NM) (hen : en ∈ [x]) : en.NM := by
  simp at hen; subst hen; exact h

theorem markElided_NM (l : List Entry) (h : ∀ en ∈ l, en.NM) : ∀ en ∈ markElided l, en.NM := by
  intro en hen
  simp only [markElided, List.mem_map] at hen
  obtain ⟨e0, h0, rfl⟩ := hen
  exact ⟨(h e0 h0).head, (h e0 h0).details⟩

theorem withStackOf_NM (en : Entry) (ls : Stack) (st : Option Stack) (h : en.NM) : (withStackOf en ls st).1.NM := by
  unfold withStackOf; split <;> exact ⟨h.head, h.details⟩

theorem ents_leaf_NM (detail : Bool) (id : Ident) (k : LeafKind) (o wd : Bool) (d : Nat) (ls : Stack) :
    ∀ en ∈ (ents false detail (.leaf id k) o wd d ls).1, en.NM := by
  unfold ents
  simp only []
  split
  · intro en hen; exact mem_single_NM (entry_NM detail _ true _ _ _ (by simp)) hen
  · split
    · split
      · intro en hen
        exact mem_single_NM (entry_NM detail _ false _ _ _ (fun _ op hop => by obtain ⟨a, _, rfl⟩ := List.mem_map.mp hop; rfl)) hen
      · intro en hen
        exact mem_single_NM (withStackOf_NM _ _ _ (entry_NM detail _ false _ _ _ (fun _ op hop => by simp at hop; subst hop; rfl))) hen
    · split
      · intro en hen; exact mem_single_NM (entry_NM detail _ true _ _ _ (by simp)) hen
      · split
        · intro en hen; exact mem_single_NM (entry_NM detail _ true _ _ _ (by simp)) hen
        · intro en hen
          exact mem_single_NM (entry_NM detail _ false _ _ _ (fun _ op hop => by split at hop <;> simp at hop; subst hop; rfl)) hen

mutual
/-- in plain mode no entry holds a marker token -/
theorem ents_NM : (e : Err) → ∀ (detail o wd : Bool) (d : Nat) (ls : Stack), ∀ en ∈ (ents false detail e o wd d ls).1, en.NM
  | .leaf id k, detail, o, wd, d, ls => ents_leaf_NM detail id k o wd d ls
  | .barrier id m hd, detail, o, wd, d, ls => by
    unfold ents
    intro en hen
    exact mem_single_NM (entry_NM detail _ true _ _ _ (by simp)) hen
  | .wrap id k c, detail, o, wd, d, ls => by
    have ih := ents_NM c detail false wd (d + 1) ls
    unfold ents
    simp only []
    intro en hen
    rcases List.mem_append.mp hen with h1 | h1
    · split at h1
      · exact markElided_NM _ ih en h1
      · exact ih en h1
    · refine mem_single_NM (withStackOf_NM _ _ _ (entry_NM detail _ _ _ _ _ ?_)) h1
      intro hb
      exact wrapOpsOf_plain k detail (errText c) hb
  | .second id c s, detail, o, wd, d, ls => by
    have ih := ents_NM c detail false wd (d + 1) ls
    unfold ents
    simp only []
    intro en hen
    rcases List.mem_append.mp hen with h1 | h1
    · exact ih en h1
    · exact mem_single_NM (entry_NM detail _ true _ _ _ (by simp)) h1
  | .multi id k cs, detail, o, wd, d, ls => by
    have ih := entsL_NM cs detail (d + 1) ls
    unfold ents
    simp only []
    split
    · intro en hen
      rcases List.mem_append.mp hen with h1 | h1
      · exact markElided_NM _ ih en h1
      · exact mem_single_NM (entry_NM detail _ true _ _ _ (by simp)) h1
    · intro en hen
      rcases List.mem_append.mp hen with h1 | h1
      · exact markElided_NM _ ih en h1
      · exact mem_single_NM (entry_NM detail _ true _ _ _ (by simp)) h1
    · intro en hen
      rcases List.mem_append.mp hen with h1 | h1
      · exact markElided_NM _ ih en h1
      · exact mem_single_NM (entry_NM detail _ false _ _ _ (fun _ op hop => by split at hop <;> simp at hop; subst hop; rfl)) h1
theorem entsL_NM : (es : List Err) → ∀ (detail : Bool) (d : Nat) (ls : Stack), ∀ en ∈ (entsL false detail es d ls).1, en.NM
  | [], _, _, _ => by intro en hen; simp [entsL] at hen
  | e :: r, detail, d, ls => by
    unfold entsL
    simp only []
    intro en hen
    rcases List.mem_append.mp hen with h1 | h1
    · exact ents_NM e detail false true d ls en h1
    · exact entsL_NM r detail d _ en h1
end

theorem singleLine_plain_NM (l : List Entry) (h : ∀ en ∈ l, en.NM) : NoMarkers (singleLine false l) := by
  rw [singleLine_eq_foldl]
  have : ∀ (m : List Entry) (acc : Toks), NoMarkers acc → (∀ en ∈ m, en.NM) → NoMarkers (m.foldl (slStep false) acc) := by
    intro m
    induction m with
    | nil => intro acc ha _; exact ha
    | cons en r ih =>
      intro acc ha hm
      apply ih _ _ (fun x hx => hm x (by simp [hx]))
      have hen := hm en (by simp)
      unfold slStep
      split
      · exact ha
      · have h1 : NoMarkers (if acc ≠ [] && en.head ≠ [] then acc ++ colonSpT else acc) := by
          split
          · exact NoMarkers_append ha (NoMarkers_bytesT _)
          · exact ha
        simp only []
        split
        · exact h1
        · exact NoMarkers_append h1 (by simp [escIfNeeded]; exact hen.head)
  exact this _ [] NoMarkers_nil (fun en hen => h en (by simpa using hen))

/-- C09, the core: for every error over regular text, `%v` / `%s` (the one-line rendering in
    plain mode) is exactly the Error() text -/
theorem render_v_eq_errText (e : Err) (h : RegE e) : render false false e = errText e := by
  have hv := v_text e h false true false 0 []
  have hnm := singleLine_plain_NM _ (ents_NM e false true false 0 [])
  unfold render renderT finish
  simp only [Bool.false_eq_true, if_false]
  rw [unlex_noMarkers _ hnm, stripT_singleLine false _ hv.good hv.asc, hv.txt]

end ErrModel

namespace ErrModel

/-- the one-line rendering in either mode, stripped of its markers, is the Error() text -/
theorem stripT_renderT_v (e : Err) (h : RegE e) (red : Bool) : stripT (renderT red false e) = errText e := by
  have hv := v_text e h red true false 0 []
  unfold renderT finish
  simp only [Bool.false_eq_true, if_false]
  rw [stripT_singleLine red _ hv.good hv.asc, hv.txt]

theorem stripT_eraseLabel : (t : Toks) → stripT (eraseLabel t) = stripT t
  | [] => rfl
  | .op :: r => by simp [eraseLabel, stripT, stripToks]; exact stripT_eraseLabel r
  | .cl :: r => by simp [eraseLabel, stripT, stripToks]; exact stripT_eraseLabel r
  | .b c :: r => by simp [eraseLabel, stripT, stripToks]; exact stripT_eraseLabel r
  | .u c :: r => by simp [eraseLabel, stripT, stripToks]; exact stripT_eraseLabel r

end ErrModel

namespace ErrModel

/-- Error() of a wrapper, as its method computes it through the engine, is the compositional text
    over the Error() of its cause (the cause being regular) -/
theorem errText_wrap_reg (id : Ident) (k : WrapKind) (c : Err) (h : RegE c) :
    errText (.wrap id k c) = wrapText k (errText c) := by
  apply errText_wrap
  intro o wd d ls
  have hv := v_text c h false o wd d ls
  rw [stripT_singleLine false _ hv.good hv.asc, hv.txt]

end ErrModel
