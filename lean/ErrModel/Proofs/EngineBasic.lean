import ErrModel.Engine
/-
  Structural facts about the formatting engine: the entries it collects, their order and
  type names, independent of string contents.
-/
namespace ErrModel

mutual
/-- the visible layers in the order `formatRecursive` collects them (causes first) -/
def postLayers : Err → List Err
  | .leaf id k => [.leaf id k]
  | .barrier id m h => [.barrier id m h]
  | .wrap id k c => postLayers c ++ [.wrap id k c]
  | .second id c s => postLayers c ++ [.second id c s]
  | .multi id k cs => postLayersL cs ++ [.multi id k cs]
def postLayersL : List Err → List Err
  | [] => []
  | e :: r => postLayers e ++ postLayersL r
end

@[simp] theorem collect_tstr (s : LState) (a b c : Bool) (d : Nat) (t : Str) : (collect s a b c d t).tstr = t := by
  unfold collect; simp only []

@[simp] theorem markElided_tstr (l : List Entry) : (markElided l).map (·.tstr) = l.map (·.tstr) := by
  simp [markElided, List.map_map, Function.comp_def]

@[simp] theorem ite_markElided_tstr (b : Bool) (l : List Entry) :
    (if b = true then markElided l else l).map (·.tstr) = l.map (·.tstr) := by
  split <;> simp

@[simp] theorem markElided_length (l : List Entry) : (markElided l).length = l.length := by
  simp [markElided]

@[simp] theorem withStackOf_tstr (en : Entry) (ls : Stack) (st : Option Stack) : (withStackOf en ls st).1.tstr = en.tstr := by
  unfold withStackOf; split <;> rfl

/-- `%T` of a layer -/
def tyS (n : Err) : Str := n.ty.tstr
@[simp] theorem tyS_leaf (id : Ident) (k : LeafKind) : tyS (.leaf id k) = k.ty.tstr := rfl
@[simp] theorem tyS_barrier (id : Ident) (m : BarrierMsg) (h : Err) : tyS (.barrier id m h) = tnBarrier.tstr := rfl
@[simp] theorem tyS_wrap (id : Ident) (k : WrapKind) (c : Err) : tyS (.wrap id k c) = k.ty.tstr := rfl
@[simp] theorem tyS_second (id : Ident) (c s : Err) : tyS (.second id c s) = tnSecondary.tstr := rfl
@[simp] theorem tyS_multi (id : Ident) (k : MultiKind) (cs : List Err) : tyS (.multi id k cs) = k.ty.tstr := rfl

theorem ents_leaf_tstr (red detail : Bool) (id : Ident) (k : LeafKind) (o wd : Bool) (d : Nat) (ls : Stack) :
    (ents red detail (.leaf id k) o wd d ls).1.map (·.tstr) = [k.ty.tstr] := by
  unfold ents
  simp only [Err.ty]
  split
  · simp
  · split
    · split <;> simp
    · split
      · simp
      · split <;> simp

mutual
theorem ents_tstr (red detail : Bool) : (e : Err) → (o wd : Bool) → (d : Nat) → (ls : Stack) →
    (ents red detail e o wd d ls).1.map (·.tstr) = (postLayers e).map tyS
  | .leaf id k, o, wd, d, ls => by
    rw [ents_leaf_tstr]; simp [postLayers]
  | .barrier id m h, o, wd, d, ls => by
    unfold ents; simp [postLayers]
  | .wrap id k c, o, wd, d, ls => by
    have ih := ents_tstr red detail c false wd (d + 1) ls
    unfold ents
    simp only [postLayers, List.map_append, List.map_cons, List.map_nil, tyS_wrap, withStackOf_tstr, collect_tstr, ← ih,
      ite_markElided_tstr, Err.ty]
  | .second id c s, o, wd, d, ls => by
    have ih := ents_tstr red detail c false wd (d + 1) ls
    unfold ents
    simp only [postLayers, List.map_append, List.map_cons, List.map_nil, tyS_second, collect_tstr, ← ih]
  | .multi id k cs, o, wd, d, ls => by
    have ih := entsL_tstr red detail cs (d + 1) ls
    unfold ents
    simp only [postLayers, List.map_append, List.map_cons, List.map_nil, tyS_multi, ← ih]
    split <;> simp [Err.ty]
theorem entsL_tstr (red detail : Bool) : (es : List Err) → (d : Nat) → (ls : Stack) →
    (entsL red detail es d ls).1.map (·.tstr) = (postLayersL es).map tyS
  | [], d, ls => by simp [entsL, postLayersL]
  | e :: r, d, ls => by
    unfold entsL
    simp only [postLayersL, List.map_append]
    rw [ents_tstr red detail e false true d ls, entsL_tstr red detail r d _]
end

end ErrModel
