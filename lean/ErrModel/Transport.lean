import ErrModel.Details
/-
  EncodeError / DecodeError, transliterated from errbase/encode.go,
  errbase/decode.go and the per-type encoders/decoders registered in the
  sub-packages' init() functions.
-/
namespace ErrModel

def MessageType := Nat

/-- errbase.extractPrefix (err.Error(), cause.Error()) -/
def extractPrefix (errMsg causeSuffix : Str) : Str × Nat :=
  match stripSuffix? errMsg causeSuffix with
  | some pre =>
    if pre = [] then ([], mtPrefix)
    else match stripSuffix? pre colonSp with
      | some p => (p, mtPrefix)
      | none => (errMsg, mtFull)
  | none => (errMsg, mtFull)

def natStr (n : Nat) : Str := lit (toString n)

def detOf (P : Proc) (e : Err) (rep : List Str) (pay : Pay) : Det :=
  ⟨origTypeName e, typeMark P e, rep, pay⟩

section
variable (P : Proc) (vf : Err → Str)

mutual
def encode : Err → Enc
  | .leaf id k =>
    let e := Err.leaf id k
    let known := P.knows (typeKey P e)
    match k with
    | .opaqueLeaf msg d hid => .leaf msg d hid []
    | .leafError msg =>
      if known then .leaf (text e) (detOf P e (layerDetails P vf e) (.str msg)) [] []
      else .leaf (text e) (detOf P e (layerDetails P vf e) .none) [] []
    | .pkgFundamental msg st =>
      .leaf msg (detOf P e [printStack st] .none) [] []
    | .errno n msg perm exist notExist timeout temp =>
      if known then .leaf msg (detOf P e [msg] (.errno n P.arch perm exist notExist timeout temp)) [] []
      else .leaf msg (detOf P e [] .none) [] []
    | .opaqueErrno msg n arch perm exist notExist timeout temp =>
      if known then .leaf msg (detOf P e [msg] (.errno n arch perm exist notExist timeout temp)) [] []
      else .leaf msg (detOf P e [] .none) [] []
    | .testErr => .leaf (text e) (detOf P e [] .testErr) [] []
    | _ => .leaf (text e) (detOf P e (layerDetails P vf e) .none) [] []
  | .barrier id smsg masked =>
    let e := Err.barrier id smsg masked
    if P.knows (typeKey P e) then
      .leaf smsg (detOf P e (layerDetails P vf e) .none) [encode masked] []
    else
      .leaf (text e) (detOf P e (layerDetails P vf e) .none) [] []
  | .wrap id k c =>
    let e := Err.wrap id k c
    let known := P.knows (typeKey P e)
    let generic : Enc :=
      let pm := extractPrefix (text e) (text c)
      .wrap pm.1 (detOf P e (layerDetails P vf e) .none) pm.2 [] (encode c)
    match k with
    | .opaqueWrapper pref d mt hid => .wrap pref d mt hid (encode c)
    | .withPrefix p =>
      if known then .wrap (text e) (detOf P e (layerDetails P vf e) (.str p)) mtPrefix [] (encode c) else generic
    | .withNewMessage m =>
      if known then .wrap (text e) (detOf P e (layerDetails P vf e) (.str m)) mtPrefix [] (encode c) else generic
    | .withHint h =>
      if known then .wrap [] (detOf P e [] (.str h)) mtPrefix [] (encode c) else generic
    | .withDetail h =>
      if known then .wrap [] (detOf P e [] (.str h)) mtPrefix [] (encode c) else generic
    | .withMark m t =>
      if known then .wrap [] (detOf P e [] (.mark m t)) mtPrefix [] (encode c) else generic
    | .withContext tags _ =>
      if known then .wrap [] (detOf P e (layerDetails P vf e) (.tags tags)) mtPrefix [] (encode c) else generic
    | .withHTTPCode n =>
      if known then .wrap [] (detOf P e [lit "HTTP " ++ natStr n] (.http n)) mtPrefix [] (encode c) else generic
    | .withGrpcCode n =>
      if known then .wrap [] (detOf P e [lit "gRPC " ++ natStr n] (.grpc n)) mtPrefix [] (encode c) else generic
    | .pkgWithStack st =>
      if known then .wrap [] (detOf P e [printStack st] .none) mtPrefix [] (encode c) else generic
    | .pathError op path =>
      if known then .wrap (op ++ sp ++ path) (detOf P e [op] (.strs [op, path])) mtPrefix [] (encode c) else generic
    | .linkError op old new =>
      if known then .wrap (op ++ sp ++ old ++ sp ++ new) (detOf P e [op] (.strs [op, old, new])) mtPrefix [] (encode c) else generic
    | .syscallError sc =>
      if known then .wrap sc (detOf P e [] .none) mtPrefix [] (encode c) else generic
    | _ => generic
  | .second id c s =>
    let e := Err.second id c s
    if P.knows (typeKey P e) then
      .wrap [] (detOf P e [] .none) mtPrefix [encode s] (encode c)
    else
      let pm := extractPrefix (text e) (text c)
      .wrap pm.1 (detOf P e (layerDetails P vf e) .none) pm.2 [] (encode c)
  | .multi id k cs =>
    let e := Err.multi id k cs
    match k with
    | .opaqueLeafCauses msg d hid => .leaf msg d hid (encodeList cs)
    | .join =>
      if P.knows (typeKey P e) then .leaf [] (detOf P e [] .none) [] (encodeList cs)
      else .leaf (text e) (detOf P e [] .none) [] (encodeList cs)
    | _ => .leaf (text e) (detOf P e (layerDetails P vf e) .none) [] (encodeList cs)
def encodeList : List Err → List Enc
  | [] => []
  | e :: r => encode e :: encodeList r
end

end

/-! ## Decoding -/

def keyOf (t : TyName) : Str := t.full

def k_errorString : Str := (LeafKind.errorString []).ty.full
def k_deadline : Str := LeafKind.deadline.ty.full
def k_errno : Str := (LeafKind.errno 0 [] false false false false false).ty.full
def k_leafError : Str := (LeafKind.leafError []).ty.full
def k_unimplemented : Str := (LeafKind.unimplemented [] [] []).ty.full
def k_barrier : Str := tnBarrier.full
def k_barrierPrev : Str := tnBarrierPrev.full
def k_join : Str := MultiKind.join.ty.full
def k_withPrefix : Str := (WrapKind.withPrefix []).ty.full
def k_withNewMessage : Str := (WrapKind.withNewMessage []).ty.full
def k_withHint : Str := (WrapKind.withHint []).ty.full
def k_withDetail : Str := (WrapKind.withDetail []).ty.full
def k_withIssueLink : Str := (WrapKind.withIssueLink [] []).ty.full
def k_withTelemetry : Str := (WrapKind.withTelemetry []).ty.full
def k_withDomain : Str := (WrapKind.withDomain []).ty.full
def k_withContext : Str := (WrapKind.withContext [] none).ty.full
def k_withAssertionFailure : Str := WrapKind.withAssertionFailure.ty.full
def k_withSafeDetails : Str := (WrapKind.withSafeDetails []).ty.full
def k_withMark : Str := (WrapKind.withMark [] []).ty.full
def k_withSecondary : Str := tnSecondary.full
def k_withHTTPCode : Str := (WrapKind.withHTTPCode 0).ty.full
def k_withGrpcCode : Str := (WrapKind.withGrpcCode 0).ty.full
def k_pkgWithMessage : Str := (WrapKind.pkgWithMessage []).ty.full
def k_pathError : Str := osPathErrorKey
def k_linkError : Str := (WrapKind.linkError [] [] []).ty.full
def k_syscallError : Str := (WrapKind.syscallError []).ty.full

/-- What a registered leaf decoder returns: `none` = panic, `some none` = nil (fall back to opaque). -/
abbrev DecRes (α : Type) := Option (Option α)

def redactSprintPlain (msg : Str) : RStr := encloseUnsafe msg   -- redact.Sprint(msg) of an unsafe string

section
variable (P : Proc)

/-- What `decodeLeaf` builds once the children are decoded.
    `hd` = the decoded EncodedError payload (`none` = decoding it panicked / absent),
    `cs` = the decoded multi-causes (`none` = panic). -/
def buildLeaf (path : List Nat) (msg : Str) (d : Det) (hid : List Enc)
    (hd : Option Err) (cs : Option (List Err)) : Option Err :=
  let key := d.mark.fam
  let opq : Option Err :=
    match cs with
    | none => none
    | some [] => some (.leaf path (.opaqueLeaf msg d hid))
    | some l => some (.multi path (.opaqueLeafCauses msg d hid) l)
  let payloadErr : Option Err :=       -- no decoder: `if e, ok := payload.(error)`
    match hid, d.pay with
    | [], .testErr => some (.leaf path .testErr)
    | _, _ => opq
  if !P.knows key then payloadErr
  else if key = k_errorString then some (.leaf path (.errorString msg))
  else if key = k_deadline then some (.leaf path .deadline)
  else if key = k_errno then
    (match hid, d.pay with
    | [], .errno n arch perm exist notExist timeout temp =>
      if arch ≠ P.arch then some (.leaf path (.opaqueErrno msg n arch perm exist notExist timeout temp))
      else some (.leaf path (.errno n msg perm exist notExist timeout temp))
    | _, _ => opq)
  else if key = k_leafError then
    (match hid, d.pay with
    | [], .str m => some (.leaf path (.leafError m))
    | _, _ => opq)
  else if key = k_unimplemented then
    some (.leaf path (.unimplemented msg (d.rep.getD 0 []) (d.rep.getD 1 [])))
  else if key = k_barrier then
    (match hid with
    | _ :: _ => hd.map (fun m => .barrier path msg m)
    | [] => none)            -- unchecked type assertion on the payload: panic
  else if key = k_barrierPrev then
    (match hid with
    | _ :: _ => hd.map (fun m => .barrier path (redactSprintPlain msg) m)
    | [] => none)
  else if key = k_join then
    (match cs with
    | none => none
    | some [] => opq          -- Join() of nothing is nil
    | some l => some (.multi path .join l))
  else payloadErr

def buildWrap (path : List Nat) (msg : Str) (d : Det) (mt : Nat) (hid : List Enc)
    (hd : Option Err) (c : Err) : Option Err :=
  let key := d.mark.fam
  let opq : Err := .wrap path (.opaqueWrapper msg d mt hid) c
  if !P.knows key then some opq
  else if key = k_pkgWithMessage then some (.wrap path (.pkgWithMessage msg) c)
  else if key = k_pathError then
    (match hid, d.pay with
    | [], .strs (a :: b :: _) => some (.wrap path (.pathError a b) c)
    | _, _ => some opq)
  else if key = k_linkError then
    (match hid, d.pay with
    | [], .strs (a :: b :: x :: _) => some (.wrap path (.linkError a b x) c)
    | _, _ => some opq)
  else if key = k_syscallError then some (.wrap path (.syscallError msg) c)
  else if key = k_withPrefix then
    (match hid, d.pay with
    | [], .str m => some (.wrap path (.withPrefix m) c)
    | _, _ => some opq)
  else if key = k_withNewMessage then
    (match hid, d.pay with
    | [], .str m => some (.wrap path (.withNewMessage m) c)
    | _, _ => some opq)
  else if key = k_withHint then
    (match hid, d.pay with
    | [], .str m => some (.wrap path (.withHint m) c)
    | _, _ => some opq)
  else if key = k_withDetail then
    (match hid, d.pay with
    | [], .str m => some (.wrap path (.withDetail m) c)
    | _, _ => some opq)
  else if key = k_withMark then
    (match hid, d.pay with
    | [], .mark m t => some (.wrap path (.withMark m t) c)
    | _, _ => some opq)
  else if key = k_withSecondary then
    (match hid with
    | _ :: _ => hd.map (fun s => .second path c s)
    | [] => some opq)
  else if key = k_withContext then
    (match hid, d.pay with
    | [], .tags l => if l = [] ∧ d.rep = [] then some opq else some (.wrap path (.withContext l (some d.rep)) c)
    | _, _ => some opq)
  else if key = k_withHTTPCode then
    (match hid, d.pay with
    | [], .http n => some (.wrap path (.withHTTPCode n) c)
    | _, _ => none)          -- unchecked type assertion: panic
  else if key = k_withGrpcCode then
    (match hid, d.pay with
    | [], .grpc n => some (.wrap path (.withGrpcCode n) c)
    | _, _ => none)
  else if key = k_withDomain then
    (match d.rep with
    | dom :: _ => some (.wrap path (.withDomain dom) c)
    | [] => some opq)
  else if key = k_withIssueLink then
    some (.wrap path (.withIssueLink (d.rep.getD 0 []) (d.rep.getD 1 [])) c)
  else if key = k_withTelemetry then some (.wrap path (.withTelemetry d.rep) c)
  else if key = k_withAssertionFailure then some (.wrap path .withAssertionFailure c)
  else if key = k_withSafeDetails then some (.wrap path (.withSafeDetails d.rep) c)
  else some opq

mutual
/-- `DecodeError`; `none` = panic.  Decoded objects get identity `path`. -/
def decode (path : List Nat) : Enc → Option Err
  | .leaf msg d hid causes =>
    buildLeaf P path msg d hid (decodeHid path hid) (decodeList path 2 causes)
  | .wrap msg d mt hid cause =>
    match decode (0 :: path) cause with
    | none => none
    | some c => buildWrap P path msg d mt hid (decodeHid path hid) c
def decodeHid (path : List Nat) : List Enc → Option Err
  | [] => none
  | h :: _ => decode (1 :: path) h
def decodeList (path : List Nat) (i : Nat) : List Enc → Option (List Err)
  | [] => some []
  | e :: r =>
    match decode (i :: path) e, decodeList path (i + 1) r with
    | some x, some xs => some (x :: xs)
    | _, _ => none
end

end

/-- One network hop: encode at `P`, decode at `Q` (fresh identities tagged `tag`). -/
def hop (P Q : Proc) (vf : Err → Str) (tag : Nat) (e : Err) : Option Err :=
  decode Q [tag] (encode P vf e)

end ErrModel
