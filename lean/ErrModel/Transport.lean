import ErrModel.Details
/-
  EncodeError / DecodeError, transliterated from errbase/encode.go,
  errbase/decode.go and the per-type encoders/decoders registered in the
  sub-packages' init() functions.
-/
namespace ErrModel

def MessageType := Nat

/-- errbase.extractPrefix (err.Error(), cause.Error()) -/
def extractPrefix (errMsg causeSuffix : Str) : Str × Nat :=
  match stripSuffix? errMsg causeSuffix with
  | some pre =>
    if pre = [] then ([], mtPrefix)
    else match stripSuffix? pre colonSp with
      | some p => (p, mtPrefix)
      | none => (errMsg, mtFull)
  | none => (errMsg, mtFull)

def natStr (n : Nat) : Str := lit (toString n)

def detOf (P : Proc) (e : Err) (rep : List Str) (pay : Pay) : Det :=
  ⟨origTypeName e, typeMark P e, rep, pay⟩

section
variable (P : Proc) (vf : Err → Str)

mutual
def encode : Err → Enc
  | .leaf id k =>
    let e := Err.leaf id k
    let known := P.knows (typeKey P e)
    match k with
    | .opaqueLeaf msg d hid => .leaf msg d hid []
    | .leafError msg =>
      if known then .leaf (text e) (detOf P e (layerDetails P vf e) (.str msg)) [] []
      else .leaf (text e) (detOf P e (layerDetails P vf e) .none) [] []
    | .pkgFundamental msg st =>
      .leaf msg (detOf P e [printStack st] .none) [] []
    | .errno n msg perm exist notExist timeout temp =>
      if known then .leaf msg (detOf P e [msg] (.errno n P.arch perm exist notExist timeout temp)) [] []
      else .leaf msg (detOf P e [] .none) [] []
    | .opaqueErrno msg n arch perm exist notExist timeout temp =>
      if known then .leaf msg (detOf P e [msg] (.errno n arch perm exist notExist timeout temp)) [] []
      else .leaf msg (detOf P e [] .none) [] []
    | .testErr => .leaf (text e) (detOf P e [] .testErr) [] []
    | .grpcStatus c m nd =>
      if known then .leaf m (detOf P e [] (.status c m nd)) [] []
      else .leaf (text e) (detOf P e [] .none) [] []
    | .gogoStatus c m nd =>
      if known then .leaf m (detOf P e [] (.status c m nd)) [] []
      else .leaf (text e) (detOf P e [] .none) [] []
    | _ => .leaf (text e) (detOf P e (layerDetails P vf e) .none) [] []
  | .barrier id m masked =>
    let e := Err.barrier id m masked
    if P.knows (typeKey P e) then
      .leaf m.smsg (detOf P e (layerDetails P vf e) .none) [encode masked] []
    else
      .leaf (text e) (detOf P e (layerDetails P vf e) .none) [] []
  | .wrap id k c =>
    let e := Err.wrap id k c
    let known := P.knows (typeKey P e)
    let generic : Enc :=
      let pm := extractPrefix (text e) (text c)
      .wrap pm.1 (detOf P e (layerDetails P vf e) .none) pm.2 [] (encode c)
    match k with
    | .opaqueWrapper pref d mt hid => .wrap pref d mt hid (encode c)
    | .withPrefix p =>
      if known then .wrap (stripMarkers p) (detOf P e (layerDetails P vf e) (.str p)) mtPrefix [] (encode c) else generic
    | .withNewMessage m =>
      if known then .wrap (text e) (detOf P e (layerDetails P vf e) (.str m)) mtFull [] (encode c) else generic
    | .withHint h =>
      if known then .wrap [] (detOf P e [] (.str h)) mtPrefix [] (encode c) else generic
    | .withDetail h =>
      if known then .wrap [] (detOf P e [] (.str h)) mtPrefix [] (encode c) else generic
    | .withMark m t =>
      if known then .wrap [] (detOf P e [] (.mark m t)) mtPrefix [] (encode c) else generic
    | .withContext tags _ _ =>
      if known then .wrap [] (detOf P e (layerDetails P vf e) (.tags tags)) mtPrefix [] (encode c) else generic
    | .withHTTPCode n =>
      if known then .wrap [] (detOf P e [lit "HTTP " ++ natStr n] (.http n)) mtPrefix [] (encode c) else generic
    | .withGrpcCode n =>
      if known then .wrap [] (detOf P e [lit "gRPC " ++ natStr n] (.grpc n)) mtPrefix [] (encode c) else generic
    | .pkgWithStack st =>
      if known then .wrap [] (detOf P e [printStack st] .none) mtPrefix [] (encode c) else generic
    | .pathError op path =>
      if known then .wrap (op ++ sp ++ path) (detOf P e [op] (.strs [op, path])) mtPrefix [] (encode c) else generic
    | .linkError op old new =>
      if known then .wrap (op ++ sp ++ old ++ sp ++ new) (detOf P e [op] (.strs [op, old, new])) mtPrefix [] (encode c) else generic
    | .syscallError sc =>
      if known then .wrap sc (detOf P e [] .none) mtPrefix [] (encode c) else generic
    | _ => generic
  | .second id c s =>
    let e := Err.second id c s
    if P.knows (typeKey P e) then
      .wrap [] (detOf P e [] .none) mtPrefix [encode s] (encode c)
    else
      let pm := extractPrefix (text e) (text c)
      .wrap pm.1 (detOf P e (layerDetails P vf e) .none) pm.2 [] (encode c)
  | .multi id k cs =>
    let e := Err.multi id k cs
    match k with
    | .opaqueLeafCauses msg d hid => .leaf msg d hid (encodeList cs)
    | .join =>
      .leaf (text e) (detOf P e [] .none) [] (encodeList cs)
    | _ => .leaf (text e) (detOf P e (layerDetails P vf e) .none) [] (encodeList cs)
def encodeList : List Err → List Enc
  | [] => []
  | e :: r => encode e :: encodeList r
end

end

/-! ## Decoding -/

def keyOf (t : TyName) : Str := t.full

abbrev k_errorString : Str := (LeafKind.errorString []).ty.full
abbrev k_deadline : Str := LeafKind.deadline.ty.full
abbrev k_errno : Str := (LeafKind.errno 0 [] false false false false false).ty.full
abbrev k_leafError : Str := (LeafKind.leafError []).ty.full
abbrev k_unimplemented : Str := (LeafKind.unimplemented [] [] []).ty.full
abbrev k_grpcStatus : Str := (LeafKind.grpcStatus 0 [] 0).ty.full
abbrev k_gogoStatus : Str := (LeafKind.gogoStatus 0 [] 0).ty.full
abbrev k_barrier : Str := tnBarrier.full
abbrev k_barrierPrev : Str := tnBarrierPrev.full
abbrev k_join : Str := MultiKind.join.ty.full
abbrev k_withPrefix : Str := (WrapKind.withPrefix []).ty.full
abbrev k_withNewMessage : Str := (WrapKind.withNewMessage []).ty.full
abbrev k_withHint : Str := (WrapKind.withHint []).ty.full
abbrev k_withDetail : Str := (WrapKind.withDetail []).ty.full
abbrev k_withIssueLink : Str := (WrapKind.withIssueLink [] []).ty.full
abbrev k_withTelemetry : Str := (WrapKind.withTelemetry []).ty.full
abbrev k_withDomain : Str := (WrapKind.withDomain []).ty.full
abbrev k_withContext : Str := (WrapKind.withContext [] [] none).ty.full
abbrev k_withAssertionFailure : Str := WrapKind.withAssertionFailure.ty.full
abbrev k_withSafeDetails : Str := (WrapKind.withSafeDetails []).ty.full
abbrev k_withMark : Str := (WrapKind.withMark [] []).ty.full
abbrev k_withSecondary : Str := tnSecondary.full
abbrev k_withHTTPCode : Str := (WrapKind.withHTTPCode 0).ty.full
abbrev k_withGrpcCode : Str := (WrapKind.withGrpcCode 0).ty.full
abbrev k_pkgWithMessage : Str := (WrapKind.pkgWithMessage []).ty.full
abbrev k_pathError : Str := osPathErrorKey
abbrev k_linkError : Str := (WrapKind.linkError [] [] []).ty.full
abbrev k_syscallError : Str := (WrapKind.syscallError []).ty.full

/-- The decoder families registered by the library's init() functions. -/
inductive KeyClass
  | errorString | deadline | errno | leafError | unimplemented | barrier | barrierPrev | join
  | grpcStatus | gogoStatus
  | pkgWithMessage | pathError | linkError | syscallError | withPrefix | withNewMessage | withHint
  | withDetail | withMark | withSecondary | withContext | withHTTPCode | withGrpcCode | withDomain
  | withIssueLink | withTelemetry | withAssertionFailure | withSafeDetails
  | other
  deriving DecidableEq, Repr, Inhabited

/-- Which registered decoder (if any) a family key selects. -/
def classify (k : Str) : KeyClass :=
  if k = k_errorString then .errorString
  else if k = k_deadline then .deadline
  else if k = k_errno then .errno
  else if k = k_leafError then .leafError
  else if k = k_unimplemented then .unimplemented
  else if k = k_barrier then .barrier
  else if k = k_barrierPrev then .barrierPrev
  else if k = k_join then .join
  else if k = k_grpcStatus then .grpcStatus
  else if k = k_gogoStatus then .gogoStatus
  else if k = k_pkgWithMessage then .pkgWithMessage
  else if k = k_pathError then .pathError
  else if k = k_linkError then .linkError
  else if k = k_syscallError then .syscallError
  else if k = k_withPrefix then .withPrefix
  else if k = k_withNewMessage then .withNewMessage
  else if k = k_withHint then .withHint
  else if k = k_withDetail then .withDetail
  else if k = k_withMark then .withMark
  else if k = k_withSecondary then .withSecondary
  else if k = k_withContext then .withContext
  else if k = k_withHTTPCode then .withHTTPCode
  else if k = k_withGrpcCode then .withGrpcCode
  else if k = k_withDomain then .withDomain
  else if k = k_withIssueLink then .withIssueLink
  else if k = k_withTelemetry then .withTelemetry
  else if k = k_withAssertionFailure then .withAssertionFailure
  else if k = k_withSafeDetails then .withSafeDetails
  else .other

/-- `logtags.Buffer.Add` overwrites an earlier tag with the same key (in place) -/
def addTag (acc : List (Str × Str)) (kv : Str × Str) : List (Str × Str) :=
  if acc.any (fun x => x.1 = kv.1) then acc.map (fun x => if x.1 = kv.1 then (x.1, kv.2) else x)
  else acc ++ [kv]

def dedupTags (l : List (Str × Str)) : List (Str × Str) := l.foldl addTag []

def redactSprintPlain (msg : Str) : RStr := encloseUnsafe msg   -- redact.Sprint(msg) of an unsafe string

section
variable (P : Proc)

/-- What `decodeLeaf` builds once the children are decoded.
    `hd` = the decoded EncodedError payload (`none` = decoding it panicked / absent),
    `cs` = the decoded multi-causes (`none` = panic). -/
def buildLeaf (path : List Nat) (msg : Str) (d : Det) (hid : List Enc)
    (hd : Option Err) (cs : Option (List Err)) : Option Err :=
  let key := d.mark.fam
  let opq : Option Err :=
    match cs with
    | none => none
    | some [] => some (.leaf path (.opaqueLeaf msg d hid))
    | some l => some (.multi path (.opaqueLeafCauses msg d hid) l)
  let payloadErr : Option Err :=       -- no decoder: `if e, ok := payload.(error)`
    match hid, d.pay with
    | [], .testErr => some (.leaf path .testErr)
    | _, _ => opq
  -- a process that does not know the type cannot unmarshal a payload of that type either
  if !P.knows key then opq else
  match classify key with
  | .errorString => some (.leaf path (.errorString msg))
  | .deadline => some (.leaf path .deadline)
  | .errno =>
    (match hid, d.pay with
    | [], .errno n arch perm exist notExist timeout temp =>
      if arch ≠ P.arch then some (.leaf path (.opaqueErrno msg n arch perm exist notExist timeout temp))
      else some (.leaf path (.errno n msg perm exist notExist timeout temp))
    | _, _ => opq)
  | .leafError =>
    (match hid, d.pay with
    | [], .str m => some (.leaf path (.leafError m))
    | _, _ => opq)
  | .unimplemented =>
    some (.leaf path (.unimplemented msg (d.rep.getD 0 []) (d.rep.getD 1 [])))
  | .barrier =>
    (match hid with
    | _ :: _ => hd.map (fun m => .barrier path ⟨msg, if d.rep = [] then none else some d.rep⟩ m)
    | [] => opq)             -- payload is not an EncodedError: nil, opaque fallback
  | .barrierPrev =>
    (match hid with
    | _ :: _ => hd.map (fun m => .barrier path ⟨redactSprintPlain msg, none⟩ m)
    | [] => opq)
  | .join =>
    (match cs with
    | none => none
    | some [] => opq          -- Join() of nothing is nil
    | some l => some (.multi path .join l))
  | .grpcStatus =>
    (match hid, d.pay with
    | [], .status c m nd => if c = 0 then opq else some (.leaf path (.grpcStatus c m nd))
    | _, _ => opq)
  | .gogoStatus =>
    (match hid, d.pay with
    | [], .status c m nd => if c = 0 then opq else some (.leaf path (.gogoStatus c m nd))
    | _, _ => opq)
  | _ => payloadErr

def buildWrap (path : List Nat) (msg : Str) (d : Det) (mt : Nat) (hid : List Enc)
    (hd : Option Err) (c : Err) : Option Err :=
  let key := d.mark.fam
  let opq : Err := .wrap path (.opaqueWrapper msg d mt hid) c
  if !P.knows key then some opq else
  match classify key with
  | .pkgWithMessage => some (.wrap path (.pkgWithMessage msg) c)
  | .pathError =>
    (match hid, d.pay with
    | [], .strs (a :: b :: _) => some (.wrap path (.pathError a b) c)
    | _, _ => some opq)
  | .linkError =>
    (match hid, d.pay with
    | [], .strs (a :: b :: x :: _) => some (.wrap path (.linkError a b x) c)
    | _, _ => some opq)
  | .syscallError => some (.wrap path (.syscallError msg) c)
  | .withPrefix =>
    (match hid, d.pay with
    | [], .str m => some (.wrap path (.withPrefix m) c)
    | _, _ => some opq)
  | .withNewMessage =>
    (match hid, d.pay with
    | [], .str m => some (.wrap path (.withNewMessage m) c)
    | _, _ => some opq)
  | .withHint =>
    (match hid, d.pay with
    | [], .str m => some (.wrap path (.withHint m) c)
    | _, _ => some opq)
  | .withDetail =>
    (match hid, d.pay with
    | [], .str m => some (.wrap path (.withDetail m) c)
    | _, _ => some opq)
  | .withMark =>
    (match hid, d.pay with
    | [], .mark m t => if t = [] then some opq else some (.wrap path (.withMark m t) c)
    | _, _ => some opq)
  | .withSecondary =>
    (match hid with
    | _ :: _ => hd.map (fun s => .second path c s)
    | [] => some opq)
  | .withContext =>
    (match hid, d.pay with
    | [], .tags l =>
      if l = [] ∧ d.rep = [] then some opq
      else some (.wrap path (.withContext (dedupTags l) [] (if d.rep = [] then none else some d.rep)) c)
    | _, _ => some opq)
  | .withHTTPCode =>
    (match hid, d.pay with
    | [], .http n => some (.wrap path (.withHTTPCode n) c)
    | _, _ => some opq)
  | .withGrpcCode =>
    (match hid, d.pay with
    | [], .grpc n => some (.wrap path (.withGrpcCode n) c)
    | _, _ => some opq)
  | .withDomain =>
    (match d.rep with
    | dom :: _ => some (.wrap path (.withDomain dom) c)
    | [] => some opq)
  | .withIssueLink =>
    some (.wrap path (.withIssueLink (d.rep.getD 0 []) (d.rep.getD 1 [])) c)
  | .withTelemetry => some (.wrap path (.withTelemetry d.rep) c)
  | .withAssertionFailure => some (.wrap path .withAssertionFailure c)
  | .withSafeDetails => some (.wrap path (.withSafeDetails d.rep) c)
  | _ => some opq

mutual
/-- `DecodeError`; `none` = panic.  Decoded objects get identity `path`. -/
def decode (path : List Nat) : Enc → Option Err
  | .leaf msg d hid causes =>
    buildLeaf P path msg d hid (decodeHid path hid) (decodeList path 2 causes)
  | .wrap msg d mt hid cause =>
    match decode (0 :: path) cause with
    | none => none
    | some c => buildWrap P path msg d mt hid (decodeHid path hid) c
def decodeHid (path : List Nat) : List Enc → Option Err
  | [] => none
  | h :: _ => decode (1 :: path) h
def decodeList (path : List Nat) (i : Nat) : List Enc → Option (List Err)
  | [] => some []
  | e :: r =>
    match decode (i :: path) e, decodeList path (i + 1) r with
    | some x, some xs => some (x :: xs)
    | _, _ => none
end

end

/-- One network hop: encode at `P`, decode at `Q` (fresh identities tagged `tag`). -/
def hop (P Q : Proc) (vf : Err → Str) (tag : Nat) (e : Err) : Option Err :=
  decode Q [tag] (encode P vf e)

/-- `k` successive hops between processes that know every library type; hop `i` tags identities with `tag + i`. -/
def hopsFull (vf : Err → Str) (tag : Nat) : Nat → Err → Option Err
  | 0, e => some e
  | k + 1, e => (hopsFull vf tag k e).bind (hop Full Full vf (tag + k))

end ErrModel
