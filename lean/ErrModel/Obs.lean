import ErrModel.Recipe
import ErrModel.Migrations
import ErrModel.Accessors
import ErrModel.Shape
import ErrModel.Compat
import ErrModel.Grpc
import ErrModel.Basic.Redact
import ErrModel.Engine
import ErrModel.Report
import ErrModel.Proto
import ErrModel.ProtoEnc
import ErrModel.ProtoPay
import ErrModel.ProtoFull
import ErrModel.ProtoNest
/-
  Observation streams printed by the driver (and, identically, by the harness
  from the real code).
-/
namespace ErrModel

mutual
/-- visible cause tree with Error() text and %T at every node -/
def pTree : Err → String
  | .leaf id k => pList ["N", pStr (text (.leaf id k)), pStr k.ty.tstr, "()"]
  | .barrier id m h => pList ["N", pStr (text (.barrier id m h)), pStr tnBarrier.tstr, "()"]
  | .wrap id k c => pList ["N", pStr (text (.wrap id k c)), pStr k.ty.tstr, pList [pTree c]]
  | .second id c s => pList ["N", pStr (text (.second id c s)), pStr tnSecondary.tstr, pList [pTree c]]
  | .multi id k cs => pList ["N", pStr (text (.multi id k cs)), pStr k.ty.tstr, pList (pTrees cs)]
def pTrees : List Err → List String
  | [] => []
  | e :: r => pTree e :: pTrees r
end

/-- visible nodes in pre-order -/
def nodes (e : Err) : List Err := reach e

/-- references are recipes or `(node j)` = the j-th visible node of the case's error -/
def evalRefs (fuel : Nat) (e : Option Err) : List SX → Sum Res (List (Option Err))
  | [] => .inr []
  | .list [.sym "node", .nat j] :: r =>
    match evalRefs fuel e r with
    | .inr es => .inr (((e.map nodes).getD [])[j]? :: es)
    | .inl x => .inl x
  | x :: r =>
    match evalR fuel x with
    | .ok v =>
      match evalRefs fuel e r with
      | .inr es => .inr (v :: es)
      | .inl x => .inl x
    | x => .inl x

def pOB : Option Bool → String
  | none => "panic"
  | some true => "n1"
  | some false => "n0"

/-- `Is` vector against the references; a panicked hop makes every entry `panic` -/
def isVec (e : Option Err) (refs : List (Option Err)) : String :=
  match e with
  | none => pList (refs.map fun _ => "panic")
  | some e => pList (refs.map fun r => pOB (isOpt Full (some e) r))

def hopFull (tag : Nat) (e : Err) : Option Err := hop Full Full vfStub tag e

/-- k successive hops between knowing processes -/
def hops (k : Nat) (e : Err) : Option Err := hopsFull vfStub 2000 k e

def pPair (kv : Str × Str) : String := pList [pStr kv.1, pStr kv.2]

def sentinelErr (which : Nat) : Err :=
  .leaf (sentinelIdOf which) (.errorString (if which = 0 then b!"permission denied" else if which = 1 then b!"file already exists" else b!"file does not exist"))

/-- every public accessor of one error -/
def pAcc (e : Err) : String :=
  pList ["acc",
    pList ["hints", pStrs (getAllHints e)],
    pList ["details", pStrs (getAllDetails e)],
    pList ["fhints", pStr (flattenHints e)],
    pList ["fdetails", pStr (flattenDetails e)],
    pList ["links", pList ((getAllIssueLinks e).map pPair)],
    pList ["flags", pBool (hasIssueLink e), pBool (isIssueLink e), pBool (hasUnimplementedError e),
      pBool (isUnimplementedError e), pBool (hasAssertionFailure e), pBool (isAssertionFailure e)],
    pList ["keys", pStrs (getTelemetryKeys e)],
    pList ["domain", pStr (getDomain e)],
    pList ["tags", pList ((getContextTags e).map (fun t => pList (t.map pPair)))],
    pList ["http", pNat (getHTTPCode e 599)],
    pList ["grpc", pNat (getGrpcCode e)],
    pList ["os", pBool (osIs Full 0 (sentinelErr 0) e), pBool (osIs Full 1 (sentinelErr 1) e),
      pBool (osIs Full 2 (sentinelErr 2) e), pBool (isTimeout e)],
    pList ["root", pStr (text (unwrapAll e)), pStr (unwrapAll e).ty.tstr],
    pList ["stacks", pList ((chain e).map (fun n => match layerStackStr Full n with
      | some s => pList ["some", pStr s]
      | none => "(none)"))],
    pList ["safedet", pList ((getAllSafeDetails Full vfStub e).map (fun x =>
      pList [pStr x.1, pTMark x.2.1, pStrs x.2.2]))]]

/-- does the layer's Go type implement errbase.SafeDetailer -/
def isSafeDetailer : Err → Bool
  | .leaf _ k => (match k with
    | .leafError _ | .unimplemented .. | .opaqueLeaf .. => true
    | .user u _ => u.safe ≠ []
    | _ => false)
  | .barrier .. => true
  | .second .. => true
  | .wrap _ k _ => (match k with
    | .withPrefix _ | .withNewMessage _ | .withStack _ | .withIssueLink .. | .withTelemetry _ | .withDomain _
    | .withContext .. | .withSafeDetails _ | .opaqueWrapper .. => true
    | .user u _ => u.safe ≠ []
    | _ => false)
  | .multi _ k _ => (match k with
    | .opaqueLeafCauses .. => true
    | _ => false)

/-- the As targets of the C14 stream, as predicates on layers -/
def asTargets : List (String × (Err → Bool)) := [
  ("PathError", fun n => match n with | .wrap _ (.pathError ..) _ => true | _ => false),
  ("LinkError", fun n => match n with | .wrap _ (.linkError ..) _ => true | _ => false),
  ("SyscallError", fun n => match n with | .wrap _ (.syscallError _) _ => true | _ => false),
  ("Errno", fun n => match n with | .leaf _ (.errno ..) => true | _ => false),
  ("TestError", fun n => match n with | .leaf _ .testErr => true | _ => false),
  ("ULeafA", fun n => n.ty.tstr = b!"*main.ULeafA"),
  ("UWrapP", fun n => n.ty.tstr = b!"*main.UWrapP"),
  ("UWrapC", fun n => n.ty.tstr = b!"*main.UWrapC"),
  ("UMulti", fun n => n.ty.tstr = b!"*main.UMulti"),
  ("SafeDetailer", isSafeDetailer)]

def pFound : Option Err → String
  | none => "(none)"
  | some n => pList ["some", pStr n.ty.tstr, pStr (text n)]

def pCompat (e : Err) (refs : List (Option Err)) : String :=
  pList ["compat",
    pList ["stdis", pList (refs.map fun r => match r with
      | some r => pBool (stdIs e r)
      | none => "n0")],
    pList ["cause", pStr (unwrapAll e).ty.tstr, pStr (text (unwrapAll e))],
    (match pkgCause e with
      | some r => pList ["pkgcause", pStr r.ty.tstr, pStr (text r)]
      | none => "(pkgcause (nil))"),
    pList ["unwrap", pList ((reach e).map fun n => pList [pFound (unwrapOnce n), pFound (stdUnwrap n)])],
    pList ["as", pList (asTargets.map fun t => pList [t.1, pFound (libAs t.2 e), pFound (stdAs t.2 e)])]]

/-- the formatting streams: Error(), plain %v / %+v through Formattable, redactable %v / %+v
    and their redacted forms -/
def pFmt (e : Err) : String :=
  let rv := assembleT [.preT (renderT true false e)]
  let rpv := assembleT [.preT (renderT true true e)]
  pList ["fmt",
    pList ["error", pStr (errText e)],
    pList ["v", pStr (render false false e)],
    pList ["pv", pStr (render false true e)],
    pList ["rv", pStr (unlex rv)],
    pList ["rpv", pStr (unlex rpv)],
    pList ["rvred", pStr (unlex (redactT rv))],
    pList ["rpvred", pStr (unlex (redactT rpv))]]

/-- parse a printf directive "%[flags][width][.prec]verb" -/
def parseSpec (s : Str) : Option Spec :=
  match s with
  | 37 :: r =>
    let flags := r.takeWhile (fun c => c = 43 || c = 45 || c = 35 || c = 32 || c = 48)
    let r1 := r.dropWhile (fun c => c = 43 || c = 45 || c = 35 || c = 32 || c = 48)
    let wd := r1.takeWhile (fun c => 48 ≤ c && c ≤ 57)
    let r2 := r1.dropWhile (fun c => 48 ≤ c && c ≤ 57)
    let (pr, r3) : Option Str × Str := match r2 with
      | 46 :: t => (some (t.takeWhile (fun c => 48 ≤ c && c ≤ 57)), t.dropWhile (fun c => 48 ≤ c && c ≤ 57))
      | t => (none, t)
    match r3 with
    | [v] => some { verb := v, plus := flags.contains 43, minus := flags.contains 45, sharp := flags.contains 35,
                    space := flags.contains 32, zero := flags.contains 48,
                    width := if wd = [] then none else atoiDigits wd 0,
                    prec := pr.map (fun d => (atoiDigits d 0).getD 0) }
    | _ => none
  | _ => none

def pVOut : VOut → String
  | .direct s => pList ["direct", pStr s]
  | .viaFmt s => pList ["fmt", pStr s]
  | .goSyntax => "(gosyntax)"
  | .bad s => pList ["bad", pStr s]

/-- the verb matrix: for every directive, plain (through Formattable) and redactable -/
def pVerbs (specs : List Str) (e : Err) : String :=
  pList (specs.map (fun s => match parseSpec s with
    | some sp => pList [pStr s, pVOut (formatVerb false sp e), pVOut (formatVerb true sp e)]
    | none => pList [pStr s, "(badspec)"]))

def pFrame (f : RFrame) : String :=
  pList [pStr f.function, pStr f.module, pStr f.filename, pStr f.absPath, pStr (intStr f.lineno)]

def pReport (trim : List Str) (e : Err) : String :=
  let r := buildReport Full vfStub trim e
  pList ["report",
    pList ["message", pStr r.message],
    pList ["exceptions", pList (r.exceptions.map (fun x => pList [pStr x.module, pStr x.type, pStr x.value,
      match x.frames with | some fs => pList (fs.map pFrame) | none => "(nostack)"]))],
    pList ["types", pStr r.types]]

mutual
/-- the protobuf bytes of the string fields of every visible layer's details, in wire order -/
def detBytesOf : Enc → List Str
  | .leaf _ d _ cs => Proto.serDet d :: detBytesOfL cs
  | .wrap _ d _ _ c => Proto.serDet d :: detBytesOf c
def detBytesOfL : List Enc → List Str
  | [] => []
  | e :: r => detBytesOf e ++ detBytesOfL r
end

def payBytesOfDet (d : Det) (hid : List Enc) : String :=
  if hid ≠ [] then "(skip)" else
  match d.pay with
  | .none => "(none)"
  | p => match Proto.serPay p with
    | some b => pStr b
    | none => "(skip)"

mutual
/-- the protobuf bytes of `full_details` of every visible layer, in wire order -/
def payBytesOf : Enc → List String
  | .leaf _ d hid cs => payBytesOfDet d hid :: payBytesOfL cs
  | .wrap _ d _ hid c => payBytesOfDet d hid :: payBytesOf c
def payBytesOfL : List Enc → List String
  | [] => []
  | e :: r => payBytesOf e ++ payBytesOfL r
end

mutual
/-- no visible layer has a nested EncodedError payload or a payload the byte-level model lacks -/
def flatPayloads : Enc → Bool
  | .leaf _ d hid cs => hid.isEmpty && (d.pay == .none || (Proto.payFields d.pay).isSome) && flatPayloadsL cs
  | .wrap _ d _ hid c => hid.isEmpty && (d.pay == .none || (Proto.payFields d.pay).isSome) && flatPayloads c
def flatPayloadsL : List Enc → Bool
  | [] => true
  | e :: r => flatPayloads e && flatPayloadsL r
end

def obsCase (e : Option Err) (refs : List (Option Err)) (trim : List Str := []) (specs : List Str := []) : String :=
  match e with
  | none => pList ["res", "(nil)", pList ["is", pList (refs.map fun r => pOB (isOpt Full none r))]]
  | some e =>
    let h1 := hops 1 e
    let h2 := hops 2 e
    let h3 := hops 3 e
    pList ["res",
      pList ["tree", pTree e],
      pList ["enc", pEnc (encode Full vfStub e)],
      pList ["detbytes", pStrs (detBytesOf (encode Full vfStub e))],
      pList ["wirebytes", pStr (Proto.serW (Proto.core (encode Full vfStub e)))],
      pList ["paybytes", pList (payBytesOf (encode Full vfStub e))],
      pList ["allbytes", (if Proto.modelled (encode Full vfStub e) then pStr (Proto.serG (Proto.fullG (encode Full vfStub e))) else "(skip)")],
      pList ["fullbytes", (if flatPayloads (encode Full vfStub e) then pStr (Proto.serF (Proto.full (encode Full vfStub e))) else "(skip)")],
      pList ["h1tree", pOpt pTree h1],
      pList ["h1enc", pOpt (fun x => pEnc (encode Full vfStub x)) h1],
      pList ["h2enc", pOpt (fun x => pEnc (encode Full vfStub x)) h2],
      pList ["h3tree", pOpt pTree h3],
      pList ["is", isVec (some e) refs],
      pList ["h1is", isVec h1 refs],
      pList ["h2is", isVec h2 refs],
      pList ["acc0", pAcc e],
      pList ["acc1", pOpt pAcc h1],
      pList ["acc2", pOpt pAcc h2],
      pList ["compat", pCompat e refs],
      pList ["fmt0", pFmt e],
      pList ["fmt1", pOpt pFmt h1],
      pList ["rep0", pReport trim e],
      pList ["rep1", pOpt (pReport trim) h1],
      pList ["verbs0", pVerbs specs e],
      pList ["verbs1", pOpt (pVerbs specs) h1],
      pList ["isany", pBool (isAnyB Full e refs)],
      pList ["isanyhalf", pBool (isAnyB Full e (refs.take (refs.length / 2)))],
      pList ["isanyx", pList ([refs.drop (refs.length / 2), (refs.drop (refs.length / 2)).reverse,
        refs.drop (refs.length - 4), (refs.drop (refs.length - 4)).reverse].map (fun l => pBool (isAnyB Full e l)))],
      -- after a hop no reference is identical to a layer any more: every match is by mark
      -- equivalence, at any position of the tree (multi-cause branches included)
      pList ["h1isanyx", pOpt (fun x => pList ((((refs.take 4).map (fun r => [r])) ++ [refs.take (refs.length / 2)]).map
        (fun l => pBool (isAnyB Full x l)))) h1]]

mutual
/-- the Error() texts of every node, hidden parts (barrier, secondary) included -/
def deepTexts : Err → List Str
  | .leaf id k => [text (.leaf id k)]
  | .barrier id m h => text (.barrier id m h) :: deepTexts h
  | .wrap id k c => text (.wrap id k c) :: deepTexts c
  | .second id c s => text (.second id c s) :: (deepTexts c ++ deepTexts s)
  | .multi id k cs => text (.multi id k cs) :: deepTextsL cs
def deepTextsL : List Err → List Str
  | [] => []
  | e :: r => deepTexts e ++ deepTextsL r
end

/-- the transport model's `text` is compositional; the real Error() of joinError / withPrefix
    goes through the formatting engine, which escapes marker runes found in the texts of their
    causes (only an unknown barrier shows marker runes in its text: finding D7).  A tree in which
    some text carries a marker rune is outside the domain of the transport streams. -/
def textsInDomain (e : Err) : Bool := (deepTexts e).all markerFree

/-- C04 streams: origin -> process Q lacking `unknown` -> knowing process; and origin -> knowing directly -/
def obsCase4 (e : Err) (unknown : List Str) : String :=
  let Q := procOf unknown
  let w0 := encode Full vfStub e
  let u1 := decode Q [3001] w0
  let u2 := u1.bind (fun x => decode Q [3002] (encode Q vfStub x))
  let k1 := u2.bind (fun x => decode Full [3003] (encode Q vfStub x))
  let d1 := decode Full [3004] w0
  pList ["res",
    pList ["tree", pTree e],
    pList ["enc0", pEnc w0],
    pList ["udom", pOpt (fun x => pBool (textsInDomain x)) u1],
    pList ["utree", pOpt pTree u1],
    pList ["uenc", pOpt (fun x => pEnc (encode Q vfStub x)) u1],
    pList ["u2enc", pOpt (fun x => pEnc (encode Q vfStub x)) u2],
    pList ["uacc", pOpt pAcc u1],
    pList ["ktree", pOpt pTree k1],
    pList ["kenc", pOpt (fun x => pEnc (encode Full vfStub x)) k1],
    pList ["kacc", pOpt pAcc k1],
    pList ["dtree", pOpt pTree d1],
    pList ["denc", pOpt (fun x => pEnc (encode Full vfStub x)) d1],
    pList ["dacc", pOpt pAcc d1]]

def runLine (line : String) : String :=
  match parseLine line with
  | some [.sym id, .list [.sym "case", rx, .list refs]] =>
    let fuel := line.length
    match evalR fuel rx with
    | .bad why => id ++ " (bad " ++ why ++ ")"
    | .panic => id ++ " (res (panic))"
    | .ok e =>
      match evalRefs fuel e refs with
      | .inl _ => id ++ " (bad refs)"
      | .inr rs => id ++ " " ++ obsCase e rs
  | some [.sym id, .list [.sym "case", rx, .list refs, .list (.sym "trim" :: ts), .list (.sym "verbs" :: vs)]] =>
    let fuel := line.length
    match evalR fuel rx with
    | .bad why => id ++ " (bad " ++ why ++ ")"
    | .panic => id ++ " (res (panic))"
    | .ok e =>
      match evalRefs fuel e refs with
      | .inl _ => id ++ " (bad refs)"
      | .inr rs => id ++ " " ++ obsCase e rs (ts.filterMap sxStr) (vs.filterMap sxStr)
  | some [.sym id, .list [.sym "case4", rx, .list unk]] =>
    match evalR line.length rx with
    | .ok (some e) => id ++ " " ++ obsCase4 e (unk.filterMap sxStr)
    | .ok none => id ++ " (res (nil))"
    | .panic => id ++ " (res (panic))"
    | .bad why => id ++ " (bad " ++ why ++ ")"
  | some [.sym id, .list [.sym "redact", .list segs]] =>
    let ss := segs.filterMap (fun x => match x with
      | .list [.sym "lit", .str s] => some (Seg.lit s)
      | .list [.sym "arg", .str s] => some (Seg.arg s)
      | .list [.sym "pre", .str s] => some (Seg.pre s)
      | _ => none)
    let r := assemble ss
    let all : Str := ss.foldl (fun acc g => acc ++ (match g with | .lit s => s | .arg s => s | .pre s => s)) []
    id ++ " " ++ pList ["res", pList ["r", pStr r], pList ["strip", pStr (stripMarkers r)],
      pList ["redacted", pStr (redactS r)], pList ["escbytes", pStr (escapeBytes all)]]
  | some [.sym id, .list [.sym "grpc", rx, .list refs]] =>
    let fuel := line.length
    match evalR fuel rx with
    | .ok e =>
      match evalRefs fuel e refs with
      | .inl _ => id ++ " (bad refs)"
      | .inr rs =>
        match viaGrpc vfStub 5001 e with
        | none => id ++ " (res (panic))"
        | some none => id ++ " (res (nil))"
        | some (some got) =>
          id ++ " " ++ pList ["res",
            pList ["code", pNat ((visibleCode vfStub e).getD 0)],
            pList ["tree", pTree got],
            pList ["enc", pEnc (encode Full vfStub got)],
            pList ["acc", pAcc got],
            pList ["is", isVec (some got) rs]]
    | .panic => id ++ " (res (panic))"
    | .bad why => id ++ " (bad " ++ why ++ ")"
  | some [.sym id, .list [.sym "decode", wx]] =>
    match sxEnc wx with
    | none => id ++ " (bad wire)"
    | some w =>
      match decode Full [1] w with
      | none => id ++ " (res (panic))"
      | some e => id ++ " " ++ pList ["res", pList ["tree", pTree e], pList ["enc", pEnc (encode Full vfStub e)]]
  | some [.sym id, .list [.sym "mig", .list regs, .list keys]] =>
    let decls := regs.filterMap (fun x => match x with
      | .list [.str p, .str n] => some (p, n)
      | _ => none)
    match registerAll register [] decls with
    | none => id ++ " (res (panic))"
    | some reg =>
      id ++ " " ++ pList ["res", pList ["resolve", pList (keys.filterMap (fun k => match k with
        | .str s => some (pStr (resolveKey reg s))
        | _ => none))]]
  | _ => "? (bad line)"

end ErrModel
