import ErrModel.ProtoEnc
/-
  The `google.protobuf.Any` in `EncodedErrorDetails.full_details` and the payload messages of the
  library (`errorspb.StringPayload`, `StringsPayload`, `ErrnoPayload`, `MarkPayload`, `TagsPayload`,
  `TestError`, `exthttp.EncodedHTTPCode`, `extgrpc.EncodedGrpcCode`), at byte level.
-/
namespace ErrModel.Proto

def urlPrefix : Str := b!"type.googleapis.com/"

def b2n (b : Bool) : Nat := if b then 1 else 0

/-- message name and fields of a payload; `none`: no payload, or one this file does not model
    (a gRPC status, whose details the model does not carry; a nested EncodedError, see `hid`) -/
def payFields : Pay → Option (Str × List Item)
  | .str s => some (b!"cockroach.errorspb.StringPayload", optLd 1 s)
  | .strs l => some (b!"cockroach.errorspb.StringsPayload", l.map (fun s => .ld 1 s))
  | .errno n arch p e ne t tmp =>
    some (b!"cockroach.errorspb.ErrnoPayload",
      optVi 1 n ++ optLd 2 arch ++ optVi 3 (b2n p) ++ optVi 4 (b2n e) ++ optVi 5 (b2n ne) ++ optVi 6 (b2n t) ++ optVi 7 (b2n tmp))
  | .mark msg tys => some (b!"cockroach.errorspb.MarkPayload", optLd 1 msg ++ tys.map (fun t => .ld 2 (serMark t)))
  | .tags l => some (b!"cockroach.errorspb.TagsPayload", l.map (fun kv => .ld 1 (serItems (optLd 1 kv.1 ++ optLd 2 kv.2))))
  | .http n => some (b!"cockroach.errors.exthttp.EncodedHTTPCode", optVi 1 n)
  | .grpc n => some (b!"cockroach.errors.extgrpc.EncodedGrpcCode", optVi 1 n)
  | .testErr => some (b!"cockroach.errorspb.TestError", [])
  | .status c m 0 => some (b!"google.rpc.Status", optVi 1 c ++ optLd 2 m)   -- a status without details
  | _ => none

/-- `types.MarshalAny` followed by `(*Any).Marshal` -/
def serAny (url val : Bytes) : Bytes := serItems (optLd 1 url ++ optLd 2 val)

/-- the bytes of `full_details` for a modelled payload -/
def serPay (p : Pay) : Option Bytes :=
  match p with
  | .raw url val => some (serAny url val)
  | p => (payFields p).map (fun nf => serAny (urlPrefix ++ nf.1) (serItems nf.2))

/-- `(*Any).Unmarshal` -/
def desAny (b : Bytes) : Option (Bytes × Bytes) :=
  match parseItems b.length b with
  | none => none
  | some xs => some ((lastLd xs 1).getD [], (lastLd xs 2).getD [])

theorem desAny_serAny (url val : Bytes) (h1 : url.length < 2 ^ 64) (h2 : val.length < 2 ^ 64) :
    desAny (serAny url val) = some (url, val) := by
  have hok : ∀ x ∈ optLd 1 url ++ optLd 2 val, x.ok := by
    intro x hx
    simp only [List.mem_append, optLd] at hx
    rcases hx with hx | hx <;> (split at hx <;> simp at hx; subst hx)
    · exact ⟨by decide, by decide, h1⟩
    · exact ⟨by decide, by decide, h2⟩
  have hp := parseItems_serItems _ (serAny url val).length hok (length_le_serItems _)
  unfold desAny
  rw [show parseItems (serAny url val).length (serAny url val) = some (optLd 1 url ++ optLd 2 val) from hp]
  by_cases hu : url = [] <;> by_cases hv : val = [] <;> simp [optLd, lastLd, hu, hv]


/-! ### reading the payload messages back -/

def mapM' (f : Bytes → Option α) : List Bytes → Option (List α)
  | [] => some []
  | b :: r => match f b, mapM' f r with
    | some x, some xs => some (x :: xs)
    | _, _ => none

/-- `(*TagPayload).Unmarshal`: two optional strings, like an `Any` -/
def desTag (b : Bytes) : Option (Str × Str) := desAny b

/-- the generated `Unmarshal` of the payload message named `name` -/
def desPayNamed (name : Str) (val : Bytes) : Option Pay :=
  match parseItems val.length val with
  | none => none
  | some xs =>
    if name = b!"cockroach.errorspb.StringPayload" then some (.str ((lastLd xs 1).getD []))
    else if name = b!"cockroach.errorspb.StringsPayload" then some (.strs (allLd xs 1))
    else if name = b!"cockroach.errorspb.ErrnoPayload" then
      some (.errno (lastVi xs 1) ((lastLd xs 2).getD []) (lastVi xs 3 != 0) (lastVi xs 4 != 0) (lastVi xs 5 != 0) (lastVi xs 6 != 0) (lastVi xs 7 != 0))
    else if name = b!"cockroach.errorspb.MarkPayload" then
      (mapM' desMark (allLd xs 2)).map (fun tys => .mark ((lastLd xs 1).getD []) tys)
    else if name = b!"cockroach.errorspb.TagsPayload" then (mapM' desTag (allLd xs 1)).map .tags
    else if name = b!"cockroach.errors.exthttp.EncodedHTTPCode" then some (.http (lastVi xs 1))
    else if name = b!"cockroach.errors.extgrpc.EncodedGrpcCode" then some (.grpc (lastVi xs 1))
    else if name = b!"cockroach.errorspb.TestError" then some .testErr
    else if name = b!"google.rpc.Status" then some (.status (lastVi xs 1) ((lastLd xs 2).getD []) (allLd xs 3).length)
    else none

/-- every length and number of the payload fits 64 bits -/
def PaySmall : Pay → Prop
  | .str s => s.length < 2 ^ 64
  | .strs l => ∀ s ∈ l, s.length < 2 ^ 64
  | .errno n arch .. => n < 2 ^ 64 ∧ arch.length < 2 ^ 64
  | .mark msg tys => msg.length < 2 ^ 64 ∧ ∀ t ∈ tys, t.fam.length < 2 ^ 62 ∧ t.ext.length < 2 ^ 62
  | .tags l => ∀ kv ∈ l, kv.1.length < 2 ^ 62 ∧ kv.2.length < 2 ^ 62
  | .http n => n < 2 ^ 64
  | .grpc n => n < 2 ^ 64
  | .status c m _ => c < 2 ^ 64 ∧ m.length < 2 ^ 64
  | _ => True

theorem parse_own (xs : List Item) (h : ∀ x ∈ xs, x.ok) : parseItems (serItems xs).length (serItems xs) = some xs :=
  parseItems_serItems xs _ h (length_le_serItems xs)

theorem optLd_ok (fno : Nat) (s : Str) (h1 : 1 ≤ fno) (h2 : fno < 16) (h : s.length < 2 ^ 64) : ∀ x ∈ optLd fno s, x.ok := by
  intro x hx; simp only [optLd] at hx; split at hx <;> simp at hx; subst hx; exact ⟨h1, h2, h⟩

theorem optVi_ok (fno : Nat) (v : Nat) (h1 : 1 ≤ fno) (h2 : fno < 16) (h : v < 2 ^ 64) : ∀ x ∈ optVi fno v, x.ok := by
  intro x hx; simp only [optVi] at hx; split at hx <;> simp at hx; subst hx; exact ⟨h1, h2, h⟩

theorem b2n_lt (b : Bool) : b2n b < 2 ^ 64 := by cases b <;> simp [b2n]

theorem allLd_map1 (l : List Bytes) : allLd (l.map (fun s => Item.ld 1 s)) 1 = l := by
  induction l with
  | nil => rfl
  | cons a r ih => simp [allLd] at ih ⊢; exact ih

theorem C_str (s : Str) (h : s.length < 2 ^ 64) :
    desPayNamed (b!"cockroach.errorspb.StringPayload") (serItems (optLd 1 s)) = some (.str s) := by
  unfold desPayNamed
  rw [parse_own _ (optLd_ok 1 s (by decide) (by decide) h)]
  by_cases hs : s = [] <;> simp [optLd, lastLd, hs]

theorem C_strs (l : List Str) (h : ∀ s ∈ l, s.length < 2 ^ 64) :
    desPayNamed (b!"cockroach.errorspb.StringsPayload") (serItems (l.map (fun s => .ld 1 s))) = some (.strs l) := by
  unfold desPayNamed
  rw [parse_own _ (by intro x hx; simp at hx; obtain ⟨s, hs, rfl⟩ := hx; exact ⟨by decide, by decide, h s hs⟩)]
  simp [allLd_map1]

theorem C_code_http (n : Nat) (h : n < 2 ^ 64) :
    desPayNamed (b!"cockroach.errors.exthttp.EncodedHTTPCode") (serItems (optVi 1 n)) = some (.http n) := by
  unfold desPayNamed
  rw [parse_own _ (optVi_ok 1 n (by decide) (by decide) h)]
  by_cases hn : n = 0 <;> simp [optVi, lastVi, hn]

theorem C_code_grpc (n : Nat) (h : n < 2 ^ 64) :
    desPayNamed (b!"cockroach.errors.extgrpc.EncodedGrpcCode") (serItems (optVi 1 n)) = some (.grpc n) := by
  unfold desPayNamed
  rw [parse_own _ (optVi_ok 1 n (by decide) (by decide) h)]
  by_cases hn : n = 0 <;> simp [optVi, lastVi, hn]


theorem C_testErr : desPayNamed (b!"cockroach.errorspb.TestError") (serItems []) = some .testErr := by
  simp [desPayNamed, serItems, parseItems]

theorem C_status (c : Nat) (m : Str) (hc : c < 2 ^ 64) (hm : m.length < 2 ^ 64) :
    desPayNamed (b!"google.rpc.Status") (serItems (optVi 1 c ++ optLd 2 m)) = some (.status c m 0) := by
  have hok : ∀ x ∈ optVi 1 c ++ optLd 2 m, x.ok := by
    intro x hx
    simp only [List.mem_append] at hx
    rcases hx with hx | hx
    · exact optVi_ok 1 c (by decide) (by decide) hc x hx
    · exact optLd_ok 2 m (by decide) (by decide) hm x hx
  unfold desPayNamed
  rw [parse_own _ hok]
  by_cases h0 : c = 0 <;> by_cases h1 : m = [] <;> simp [optVi, optLd, lastVi, lastLd, allLd, h0, h1]

theorem C_errno (n : Nat) (arch : Str) (p e ne t tmp : Bool) (hn : n < 2 ^ 64) (ha : arch.length < 2 ^ 64) :
    desPayNamed (b!"cockroach.errorspb.ErrnoPayload")
      (serItems (optVi 1 n ++ optLd 2 arch ++ optVi 3 (b2n p) ++ optVi 4 (b2n e) ++ optVi 5 (b2n ne) ++ optVi 6 (b2n t) ++ optVi 7 (b2n tmp)))
      = some (.errno n arch p e ne t tmp) := by
  have hok : ∀ x ∈ optVi 1 n ++ optLd 2 arch ++ optVi 3 (b2n p) ++ optVi 4 (b2n e) ++ optVi 5 (b2n ne) ++ optVi 6 (b2n t) ++ optVi 7 (b2n tmp), x.ok := by
    intro x hx
    simp only [List.mem_append] at hx
    rcases hx with (((((hx | hx) | hx) | hx) | hx) | hx) | hx
    · exact optVi_ok 1 n (by decide) (by decide) hn x hx
    · exact optLd_ok 2 arch (by decide) (by decide) ha x hx
    · exact optVi_ok 3 _ (by decide) (by decide) (b2n_lt p) x hx
    · exact optVi_ok 4 _ (by decide) (by decide) (b2n_lt e) x hx
    · exact optVi_ok 5 _ (by decide) (by decide) (b2n_lt ne) x hx
    · exact optVi_ok 6 _ (by decide) (by decide) (b2n_lt t) x hx
    · exact optVi_ok 7 _ (by decide) (by decide) (b2n_lt tmp) x hx
  unfold desPayNamed
  rw [parse_own _ hok]
  by_cases h0 : n = 0 <;> by_cases h1 : arch = [] <;> cases p <;> cases e <;> cases ne <;> cases t <;> cases tmp <;>
    simp [optVi, optLd, lastVi, lastLd, b2n, h0, h1]


theorem lastLd_append_mapk (k n : Nat) (hn : n ≠ k) (f : α → Bytes) : ∀ (l : List α) (pre : List Item),
    lastLd (pre ++ l.map (fun a => Item.ld k (f a))) n = lastLd pre n
  | [], pre => by simp
  | a :: r, pre => by
    have ih := lastLd_append_mapk k n hn f r (pre ++ [Item.ld k (f a)])
    have h1 : lastLd (pre ++ [Item.ld k (f a)]) n = lastLd pre n := by
      simp [lastLd, List.foldl_append, Ne.symm hn]
    simp only [List.map_cons]
    rw [show pre ++ Item.ld k (f a) :: r.map (fun a => Item.ld k (f a)) = (pre ++ [Item.ld k (f a)]) ++ r.map (fun a => Item.ld k (f a)) by simp]
    rw [ih, h1]

theorem allLd_mapk (k : Nat) (f : α → Bytes) (l : List α) : allLd (l.map (fun a => Item.ld k (f a))) k = l.map f := by
  induction l with
  | nil => rfl
  | cons a r ih => simp [allLd] at ih ⊢; exact ih

theorem mapM'_marks : ∀ tys : List TMark, (∀ t ∈ tys, t.fam.length < 2 ^ 62 ∧ t.ext.length < 2 ^ 62) →
    mapM' desMark (tys.map serMark) = some tys
  | [], _ => rfl
  | t :: r, h => by
    have ht := h t (List.mem_cons_self ..)
    have := mapM'_marks r (fun x hx => h x (List.mem_cons_of_mem _ hx))
    simp [mapM', desMark_serMark t (by omega) (by omega), this]

theorem C_mark (msg : Str) (tys : List TMark) (hm : msg.length < 2 ^ 64)
    (ht : ∀ t ∈ tys, t.fam.length < 2 ^ 62 ∧ t.ext.length < 2 ^ 62) :
    desPayNamed (b!"cockroach.errorspb.MarkPayload") (serItems (optLd 1 msg ++ tys.map (fun t => .ld 2 (serMark t))))
      = some (.mark msg tys) := by
  have hok : ∀ x ∈ optLd 1 msg ++ tys.map (fun t => Item.ld 2 (serMark t)), x.ok := by
    intro x hx
    simp only [List.mem_append, List.mem_map] at hx
    rcases hx with hx | ⟨t, htm, rfl⟩
    · exact optLd_ok 1 msg (by decide) (by decide) hm x hx
    · exact ⟨by decide, by decide, serMark_length_le t (ht t htm).1 (ht t htm).2⟩
  unfold desPayNamed
  rw [parse_own _ hok]
  have h1 : (lastLd (optLd 1 msg ++ tys.map (fun t => Item.ld 2 (serMark t))) 1).getD [] = msg := by
    rw [lastLd_append_mapk 2 1 (by decide) serMark tys (optLd 1 msg)]
    by_cases h : msg = [] <;> simp [lastLd, optLd, h]
  have h2 : allLd (optLd 1 msg ++ tys.map (fun t => Item.ld 2 (serMark t))) 2 = tys.map serMark := by
    have := allLd_mapk 2 serMark tys
    by_cases h : msg = [] <;> simp [allLd, optLd, h] at this ⊢ <;> exact this
  simp [h1, h2, mapM'_marks tys ht]

theorem serAny_length_le (k v : Bytes) (hk : k.length < 2 ^ 62) (hv : v.length < 2 ^ 62) : (serAny k v).length < 2 ^ 64 := by
  have a := varint_length_u64 k.length (by omega)
  have b := varint_length_u64 v.length (by omega)
  by_cases h1 : k = [] <;> by_cases h2 : v = [] <;>
    simp [serAny, serItems, Item.ser, optLd, h1, h2, lenField_length] <;> omega

theorem mapM'_tags : ∀ l : List (Str × Str), (∀ kv ∈ l, kv.1.length < 2 ^ 62 ∧ kv.2.length < 2 ^ 62) →
    mapM' desAny (l.map (fun kv => serAny kv.1 kv.2)) = some l
  | [], _ => rfl
  | kv :: r, h => by
    have hkv := h kv (List.mem_cons_self ..)
    have := mapM'_tags r (fun x hx => h x (List.mem_cons_of_mem _ hx))
    simp [mapM', desAny_serAny kv.1 kv.2 (by omega) (by omega), this]


theorem C_tags (l : List (Str × Str)) (h : ∀ kv ∈ l, kv.1.length < 2 ^ 62 ∧ kv.2.length < 2 ^ 62) :
    desPayNamed (b!"cockroach.errorspb.TagsPayload")
      (serItems (l.map (fun kv => .ld 1 (serItems (optLd 1 kv.1 ++ optLd 2 kv.2))))) = some (.tags l) := by
  have hok : ∀ x ∈ l.map (fun kv => Item.ld 1 (serItems (optLd 1 kv.1 ++ optLd 2 kv.2))), x.ok := by
    intro x hx
    simp only [List.mem_map] at hx
    obtain ⟨kv, hkv, rfl⟩ := hx
    exact ⟨by decide, by decide, serAny_length_le kv.1 kv.2 (h kv hkv).1 (h kv hkv).2⟩
  unfold desPayNamed
  rw [parse_own _ hok]
  have h2 : allLd (l.map (fun kv => Item.ld 1 (serItems (optLd 1 kv.1 ++ optLd 2 kv.2)))) 1 = l.map (fun kv => serAny kv.1 kv.2) :=
    allLd_mapk 1 (fun kv : Str × Str => serAny kv.1 kv.2) l
  have h3 := mapM'_tags l h
  have h4 : desTag = desAny := rfl
  simp [h2, h4, h3]

/-- every modelled payload message is read back as it was written -/
theorem desPay_serPay : (p : Pay) → (name : Str) → (fields : List Item) → payFields p = some (name, fields) → PaySmall p →
    desPayNamed name (serItems fields) = some p
  | .str s, _, _, hf, hs => by simp only [payFields, Option.some.injEq, Prod.mk.injEq] at hf; obtain ⟨rfl, rfl⟩ := hf; exact C_str s hs
  | .strs l, _, _, hf, hs => by simp only [payFields, Option.some.injEq, Prod.mk.injEq] at hf; obtain ⟨rfl, rfl⟩ := hf; exact C_strs l hs
  | .errno n arch a b c d e, _, _, hf, hs => by
    simp only [payFields, Option.some.injEq, Prod.mk.injEq] at hf; obtain ⟨rfl, rfl⟩ := hf; exact C_errno n arch a b c d e hs.1 hs.2
  | .mark m t, _, _, hf, hs => by simp only [payFields, Option.some.injEq, Prod.mk.injEq] at hf; obtain ⟨rfl, rfl⟩ := hf; exact C_mark m t hs.1 hs.2
  | .tags l, _, _, hf, hs => by simp only [payFields, Option.some.injEq, Prod.mk.injEq] at hf; obtain ⟨rfl, rfl⟩ := hf; exact C_tags l hs
  | .http n, _, _, hf, hs => by simp only [payFields, Option.some.injEq, Prod.mk.injEq] at hf; obtain ⟨rfl, rfl⟩ := hf; exact C_code_http n hs
  | .grpc n, _, _, hf, hs => by simp only [payFields, Option.some.injEq, Prod.mk.injEq] at hf; obtain ⟨rfl, rfl⟩ := hf; exact C_code_grpc n hs
  | .testErr, _, _, hf, _ => by simp only [payFields, Option.some.injEq, Prod.mk.injEq] at hf; obtain ⟨rfl, rfl⟩ := hf; exact C_testErr
  | .none, _, _, hf, _ => by simp [payFields] at hf
  | .status c m 0, _, _, hf, hs => by
    simp only [payFields, Option.some.injEq, Prod.mk.injEq] at hf; obtain ⟨rfl, rfl⟩ := hf; exact C_status c m hs.1 hs.2
  | .status _ _ (_ + 1), _, _, hf, _ => by simp [payFields] at hf
  | .raw .., _, _, hf, _ => by simp [payFields] at hf

end ErrModel.Proto
