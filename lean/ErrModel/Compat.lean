import ErrModel.Sem
/-
  Reference models of the standard library's errors.Is / errors.As / errors.Unwrap
  (go1.23 src/errors/wrap.go) and of github.com/pkg/errors.Cause, transliterated, over the
  same error values.  The standard library follows `Unwrap()` only, pkg/errors follows
  `Cause()` only, this library prefers `Cause()` and falls back to `Unwrap()`.
-/
namespace ErrModel

/-- does the layer have an `Unwrap() error` method -/
def hasUnwrap : Err → Bool
  | .wrap _ (.user u _) _ => u.expose ≠ 1
  | .wrap .. => true
  | .second .. => true
  | _ => false

/-- does the layer have a `Cause() error` method -/
def hasCause : Err → Bool
  | .wrap _ k _ =>
    match k with
    | .pathError .. | .linkError .. | .syscallError _ | .fmtWrapError _ => false
    | .user u _ => u.expose ≠ 0
    | _ => true
  | .second .. => true
  | _ => false

/-- the standard library's errors.Unwrap -/
def stdUnwrap (e : Err) : Option Err := if hasUnwrap e then unwrapOnce e else none

/-- one step of pkg/errors.Cause -/
def pkgCauseStep (e : Err) : Option Err := if hasCause e then unwrapOnce e else none

/-- github.com/pkg/errors.Cause; `none` = nil (a root that has a Cause() method returning
    nil — a wrapper type used as a leaf — makes pkg/errors.Cause return nil) -/
def pkgCause : Err → Option Err
  | .wrap id k c => if hasCause (.wrap id k c) then pkgCause c else some (.wrap id k c)
  | .second _ c _ => pkgCause c
  | .leaf id (.user u m) => if u.expose ≠ 0 then none else some (.leaf id (.user u m))
  | e => some e

mutual
/-- the layers the standard library's Is/As visit, in visiting order -/
def stdReach : Err → List Err
  | .leaf id k => [.leaf id k]
  | .barrier id m h => [.barrier id m h]
  | .wrap id k c => .wrap id k c :: (if hasUnwrap (.wrap id k c) then stdReach c else [])
  | .second id c s => .second id c s :: stdReach c
  | .multi id k cs => .multi id k cs :: stdReachL cs
def stdReachL : List Err → List Err
  | [] => []
  | e :: r => stdReach e ++ stdReachL r
end

/-- the standard library's errors.Is (identity and Is methods only) -/
def stdIs (e r : Err) : Bool := (stdReach e).any (fun n => selfMatch n r)

/-- errors.As with a target type described by the predicate `T` on layers: the first
    layer, in visiting order, whose type is assignable to the target -/
def stdAs (T : Err → Bool) (e : Err) : Option Err := (stdReach e).find? T

/-- this library's As (errutil/as.go): same search over its own notion of cause -/
def libAs (T : Err → Bool) (e : Err) : Option Err := (reach e).find? T

mutual
/-- every wrapper layer exposes its cause through Unwrap (so the standard library sees it) -/
def stdVisible : Err → Bool
  | .leaf .. => true
  | .barrier .. => true
  | .wrap id k c => hasUnwrap (.wrap id k c) && stdVisible c
  | .second _ c _ => stdVisible c
  | .multi _ _ cs => stdVisibleL cs
def stdVisibleL : List Err → Bool
  | [] => true
  | e :: r => stdVisible e && stdVisibleL r
end

/-- every wrapper layer of the single-cause chain has a Cause method -/
def causeVisible : Err → Bool
  | .wrap id k c => hasCause (.wrap id k c) && causeVisible c
  | .second _ c _ => causeVisible c
  | .leaf _ (.user u _) => u.expose = 0     -- the root is not itself a causer returning nil
  | _ => true

end ErrModel
