import ErrModel.Basic.Bytes
/-
  C16: the stack-depth forwarding graph.  The table (`Generated/DepthFacts.lean`)
  is re-extracted from /repo's source on every run (go/ast, tools/extractors.py);
  here is its semantics.

  Levels are relative to a function's own frame: 0 = the function itself,
  1 = its caller, 2 = the caller's caller …
    * runtime.Callers(skip, …) called from G starts recording at level skip-1 of G
      (skip 0 = Callers itself, 1 = G);
    * runtime.Caller(skip) called from G reports level skip of G;
    * if F calls G(arg) and G(x) records level L(x) relative to G, the same frame is
      level L(arg)-1 relative to F.
-/
namespace ErrModel.Depth

def primCallers : Nat := 1000
def primCaller : Nat := 1001

structure Edge where
  callee : Nat        -- index into the table, or a primitive
  a : Int             -- the depth argument passed is a*depth + b …
  b : Int
  known : Bool        -- … if the extractor recognised the expression
  noDepth : Bool      -- the callee has no depth parameter
  deriving Repr, DecidableEq

structure Fn where
  name : Str
  hasDepth : Bool
  exported : Bool     -- exported constructor / domain function of an API package
  edges : List Edge
  deriving Repr, DecidableEq

/-- first recorded frame of function `i`, as an affine function (A, B) ↦ A*depth + B of its
    depth argument; `none` = unknown construct, disagreeing edges, or recursion. -/
def level (tbl : List Fn) : Nat → Nat → Option (Int × Int)
  | 0, _ => none
  | fuel + 1, i =>
    match tbl[i]? with
    | none => none
    | some f =>
      let edgeLevel (e : Edge) : Option (Int × Int) :=
        if !e.known then none
        else if e.callee = primCallers then some (e.a, e.b - 1)
        else if e.callee = primCaller then some (e.a, e.b)
        else match level tbl fuel e.callee with
          | some (A, B) => if e.noDepth then some (0, B - 1) else some (A * e.a, A * e.b + B - 1)
          | none => none
      match f.edges.map edgeLevel with
      | [] => none
      | l :: rest => if rest.all (fun x => x == l) then l else none

def fuel : Nat := 40

/-- the level recorded by function `i` when called with depth `d` -/
def offset (tbl : List Fn) (i : Nat) (d : Nat) : Option Int :=
  (level tbl fuel i).map (fun ab => ab.1 * (d : Int) + ab.2)

/-- what the property demands of an exported function -/
def expected (f : Fn) : Int × Int := if f.hasDepth then (1, 1) else (0, 1)

def checkFn (tbl : List Fn) (i : Nat) : Bool :=
  match tbl[i]? with
  | none => false
  | some f => !f.exported || level tbl fuel i == some (expected f)

def checkAll (tbl : List Fn) : Bool := (List.range tbl.length).all (checkFn tbl)

/-- indices of the functions that violate the forwarding rule (for the replay) -/
def offenders (tbl : List Fn) : List Nat := (List.range tbl.length).filter (fun i => !checkFn tbl i)

/-- every name of the property's list is present as an exported entry -/
def hasAll (tbl : List Fn) (required : List Str) : Bool :=
  required.all (fun n => tbl.any (fun f => f.exported && f.name == n))

/-- soundness of the table check, for every depth: an exported function with a depth
    parameter records the (d+1)-th level, one without records level 1 (its caller). -/
theorem offset_of_check (tbl : List Fn) (h : checkAll tbl = true) (i : Nat) (f : Fn)
    (hi : tbl[i]? = some f) (hexp : f.exported = true) (d : Nat) :
    offset tbl i d = some (if f.hasDepth then (d : Int) + 1 else 1) := by
  have hlt : i < tbl.length := by
    rcases Nat.lt_or_ge i tbl.length with h1 | h1
    · exact h1
    · rw [List.getElem?_eq_none h1] at hi; cases hi
  have hc : checkFn tbl i = true := by
    unfold checkAll at h
    rw [List.all_eq_true] at h
    exact h i (List.mem_range.mpr hlt)
  unfold checkFn at hc
  rw [hi] at hc
  simp only [hexp, Bool.not_true, Bool.false_or, beq_iff_eq] at hc
  unfold offset
  rw [hc]
  unfold expected
  cases f.hasDepth <;> simp

end ErrModel.Depth
