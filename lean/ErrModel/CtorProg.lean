import ErrModel.Basic.Bytes
/-
  C10 "nil stays nil": the nil-guard / forwarding structure of every exported function
  `(… err error …) error` of the repository (regenerated from /repo's source by go/extract ctors
  on every run, see Generated/CtorFacts.lean), its semantics, and a verified checker.
-/
namespace ErrModel.CtorProg

inductive Kind
  /-- the first statement is `if err == nil [|| …] { return nil }` -/
  | guard
  /-- err flows through a pipeline of calls (table index, argument position), innermost first,
      and the result is returned -/
  | forward (chain : List (Nat × Nat))
  /-- anything else -/
  | none
  deriving Repr, DecidableEq

structure Ctor where
  name : Str
  exported : Bool
  param : Nat          -- position of the first error parameter
  kind : Kind
  deriving Repr, DecidableEq

/-- Semantics: is the result nil when the first error parameter is (`argNil`)?  A function the
    extractor could not classify may do anything (`unk`); `none` = out of fuel / outside the table. -/
def eval (tbl : List Ctor) (unk : Nat → Bool → Bool) : Nat → Nat → Bool → Option Bool
  | 0, _, _ => none
  | fuel + 1, i, argNil =>
    match tbl[i]? with
    | none => none
    | some c =>
      match c.kind with
      | .guard => if argNil then some true else some (unk i false)
      | .none => some (unk i argNil)
      | .forward ch =>
        ch.foldl (fun acc step =>
          match acc with
          | none => none
          | some isNil =>
            match tbl[step.1]? with
            | none => none
            | some d => if d.param = step.2 then eval tbl unk fuel step.1 isNil else some (unk step.1 isNil)) (some argNil)

/-- the checker -/
def nilSafe (tbl : List Ctor) : Nat → Nat → Bool
  | 0, _ => false
  | fuel + 1, i =>
    match tbl[i]? with
    | none => false
    | some c =>
      match c.kind with
      | .guard => true
      | .none => false
      | .forward ch => ch.all (fun step =>
          match tbl[step.1]? with
          | none => false
          | some d => d.param = step.2 && nilSafe tbl fuel step.1)

theorem foldl_chain_nil (tbl : List Ctor) (unk : Nat → Bool → Bool) (fuel : Nat)
    (ih : ∀ j, nilSafe tbl fuel j = true → eval tbl unk fuel j true = some true) :
    ∀ (ch : List (Nat × Nat)),
      ch.all (fun step => match tbl[step.1]? with
          | none => false
          | some d => d.param = step.2 && nilSafe tbl fuel step.1) = true →
      ch.foldl (fun acc step =>
          match acc with
          | none => none
          | some isNil =>
            match tbl[step.1]? with
            | none => none
            | some d => if d.param = step.2 then eval tbl unk fuel step.1 isNil else some (unk step.1 isNil)) (some true) = some true
  | [], _ => rfl
  | step :: r, h => by
    simp only [List.all_cons, Bool.and_eq_true] at h
    obtain ⟨h1, h2⟩ := h
    simp only [List.foldl_cons]
    cases hd : tbl[step.1]? with
    | none => simp [hd] at h1
    | some d =>
      simp only [hd, Bool.and_eq_true, decide_eq_true_eq] at h1
      simp only [h1.1, if_true, ih step.1 h1.2]
      exact foldl_chain_nil tbl unk fuel ih r h2

/-- soundness: an accepted function returns nil on a nil error whatever the unclassified functions do -/
theorem nilSafe_sound (tbl : List Ctor) (unk : Nat → Bool → Bool) :
    ∀ (fuel i : Nat), nilSafe tbl fuel i = true → eval tbl unk fuel i true = some true
  | 0, _, h => by simp [nilSafe] at h
  | fuel + 1, i, h => by
    simp only [nilSafe] at h
    simp only [eval]
    cases hc : tbl[i]? with
    | none => simp [hc] at h
    | some c =>
      simp only [hc] at h ⊢
      cases hk : c.kind with
      | guard => simp
      | none => simp [hk] at h
      | forward ch =>
        simp only [hk] at h ⊢
        exact foldl_chain_nil tbl unk fuel (fun j hj => nilSafe_sound tbl unk fuel j hj) ch h

def fuel : Nat := 12

def indexOf (tbl : List Ctor) (n : Str) : Option Nat := tbl.findIdx? (fun c => c.name = n)

/-- every exported function outside `exempt` is accepted -/
def checkAll (tbl : List Ctor) (exempt : List Str) : Bool :=
  (List.range tbl.length).all (fun i =>
    match tbl[i]? with
    | none => true
    | some c => !c.exported || exempt.contains c.name || nilSafe tbl fuel i)

def hasAll (tbl : List Ctor) (names : List Str) : Bool :=
  names.all (fun n => (indexOf tbl n).isSome)

end ErrModel.CtorProg
