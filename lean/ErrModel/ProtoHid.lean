import ErrModel.ProtoHopAll
set_option linter.unusedSimpArgs false
/-
  What EncodeError produces carries at most one nested message per layer.
-/
namespace ErrModel.Proto

mutual
/-- the opaque stand-ins inside the error (received from the network) carry at most one nested
    message per layer; locally built layers always do -/
def hidOK : Err → Bool
  | .leaf _ k => match k with
    | .opaqueLeaf _ _ hid => oneHidH hid
    | _ => true
  | .barrier _ _ h => hidOK h
  | .wrap _ k c => (match k with
    | .opaqueWrapper _ _ _ hid => oneHidH hid
    | _ => true) && hidOK c
  | .second _ c s => hidOK c && hidOK s
  | .multi _ k cs => (match k with
    | .opaqueLeafCauses _ _ hid => oneHidH hid
    | _ => true) && hidOKL cs
def hidOKL : List Err → Bool
  | [] => true
  | e :: r => hidOK e && hidOKL r
end

mutual
theorem oneHid_encode (P : Proc) (vf : Err → Str) : (e : Err) → hidOK e = true → oneHid (encode P vf e) = true
  | .leaf id k, h => by
    cases k <;> simp only [encode] <;> (try split) <;> simp_all [oneHid, oneHidH, oneHidL, hidOK]
  | .barrier id m hd, h => by
    have ih := oneHid_encode P vf hd (by simpa [hidOK] using h)
    simp only [encode]; split <;> simp [oneHid, oneHidH, oneHidL, ih]
  | .wrap id k c, h => by
    simp only [hidOK, Bool.and_eq_true] at h
    have ih := oneHid_encode P vf c h.2
    cases k <;> simp only [encode] <;> (try split) <;> simp_all [oneHid, oneHidH, oneHidL]
  | .second id c s, h => by
    simp only [hidOK, Bool.and_eq_true] at h
    have ih1 := oneHid_encode P vf c h.1
    have ih2 := oneHid_encode P vf s h.2
    simp only [encode]; split <;> simp [oneHid, oneHidH, oneHidL, ih1, ih2]
  | .multi id k cs, h => by
    simp only [hidOK, Bool.and_eq_true] at h
    have ih := oneHidL_encodeList P vf cs h.2
    cases k <;> simp_all [encode, oneHid, oneHidH, oneHidL]
theorem oneHidL_encodeList (P : Proc) (vf : Err → Str) : (cs : List Err) → hidOKL cs = true → oneHidL (encodeList P vf cs) = true
  | [], _ => by simp [encodeList, oneHidL]
  | e :: r, h => by
    simp only [hidOKL, Bool.and_eq_true] at h
    simp [encodeList, oneHidL, oneHid_encode P vf e h.1, oneHidL_encodeList P vf r h.2]
end

end ErrModel.Proto
