import ErrModel.ProtoPay
set_option linter.unusedSimpArgs false
/-
  `EncodedErrorDetails` with its `full_details` payload, and with it the whole `EncodedError`
  whose payloads are the library's flat payload messages.
-/
namespace ErrModel.Proto

/-- the `full_details` field, when the payload is one of the modelled messages -/
def anyItems (p : Pay) : List Item :=
  match payFields p with
  | some nf => [.ld 4 (serAny (urlPrefix ++ nf.1) (serItems nf.2))]
  | none => []

def detItemsP (d : Det) : List Item :=
  optLd 1 d.origType ++ [.ld 2 (serMark d.mark)] ++ d.rep.map (fun s => .ld 3 s) ++ anyItems d.pay

/-- `(*EncodedErrorDetails).Marshal` -/
def serDetP (d : Det) : Bytes := serItems (detItemsP d)

def stripPrefix? (p s : Bytes) : Option Bytes :=
  if s.take p.length = p then some (s.drop p.length) else none

/-- `(*EncodedErrorDetails).Unmarshal` followed by `types.UnmarshalAny` of a known payload type -/
def detOfBytesP (b : Option Bytes) : Option Det :=
  match parseItems (b.getD []).length (b.getD []) with
  | none => none
  | some xs =>
    match desMark ((lastLd xs 2).getD []) with
    | none => none
    | some mk =>
      match lastLd xs 4 with
      | none => some ⟨(lastLd xs 1).getD [], mk, allLd xs 3, .none⟩
      | some a =>
        match desAny a with
        | none => none
        | some (url, val) =>
          match stripPrefix? urlPrefix url with
          | none => none
          | some name =>
            match desPayNamed name val with
            | none => none
            | some p => some ⟨(lastLd xs 1).getD [], mk, allLd xs 3, p⟩


/-- the payload is absent or one of the modelled messages, and every length fits 64 bits -/
def PayOK (p : Pay) : Prop :=
  p = .none ∨ ∃ nf, payFields p = some nf ∧ PaySmall p ∧ (serItems nf.2).length < 2 ^ 64 ∧
    (urlPrefix ++ nf.1).length < 2 ^ 64 ∧ (serAny (urlPrefix ++ nf.1) (serItems nf.2)).length < 2 ^ 64

def DetSmallP (d : Det) : Prop :=
  d.origType.length < 2 ^ 64 ∧ d.mark.fam.length < 2 ^ 62 ∧ d.mark.ext.length < 2 ^ 62 ∧ (∀ s ∈ d.rep, s.length < 2 ^ 64) ∧
  (serDetP d).length < 2 ^ 64 ∧ PayOK d.pay

theorem stripPrefix?_append (p s : Bytes) : stripPrefix? p (p ++ s) = some s := by
  simp [stripPrefix?]

theorem lastLd_snoc4 (A : List Item) (a : Bytes) (n : Nat) :
    lastLd (A ++ [Item.ld 4 a]) n = if n = 4 then some a else lastLd A n := by
  by_cases h : n = 4
  · subst h; simp [lastLd, List.foldl_append]
  · simp [lastLd, List.foldl_append, h, Ne.symm h]

theorem allLd_append (A B : List Item) (n : Nat) : allLd (A ++ B) n = allLd A n ++ allLd B n := by
  simp [allLd, List.filterMap_append]

theorem core_reads (d : Det) :
    (lastLd (optLd 1 d.origType ++ [Item.ld 2 (serMark d.mark)] ++ d.rep.map (fun s => Item.ld 3 s)) 1).getD [] = d.origType ∧
    (lastLd (optLd 1 d.origType ++ [Item.ld 2 (serMark d.mark)] ++ d.rep.map (fun s => Item.ld 3 s)) 2).getD [] = serMark d.mark ∧
    lastLd (optLd 1 d.origType ++ [Item.ld 2 (serMark d.mark)] ++ d.rep.map (fun s => Item.ld 3 s)) 4 = none ∧
    allLd (optLd 1 d.origType ++ [Item.ld 2 (serMark d.mark)] ++ d.rep.map (fun s => Item.ld 3 s)) 3 = d.rep := by
  have h3 := allLd_mapk 3 (fun s : Str => s) d.rep
  refine ⟨?_, ?_, ?_, ?_⟩
  · rw [lastLd_append_mapk 3 1 (by decide) (fun s : Str => s) d.rep]
    by_cases h : d.origType = [] <;> simp [lastLd, optLd, h]
  · rw [lastLd_append_mapk 3 2 (by decide) (fun s : Str => s) d.rep]
    by_cases h : d.origType = [] <;> simp [lastLd, optLd, h]
  · rw [lastLd_append_mapk 3 4 (by decide) (fun s : Str => s) d.rep]
    by_cases h : d.origType = [] <;> simp [lastLd, optLd, h]
  · rw [allLd_append, h3]
    by_cases h : d.origType = [] <;> simp [allLd, optLd, h]

theorem detItemsP_ok (d : Det) (h : DetSmallP d) : ∀ x ∈ detItemsP d, x.ok := by
  obtain ⟨h1, h2, h3, h4, _, h6⟩ := h
  intro x hx
  simp only [detItemsP, List.mem_append, List.mem_map, List.mem_singleton] at hx
  rcases hx with ((hx | hx) | ⟨s, hs, rfl⟩) | hx
  · exact optLd_ok 1 _ (by decide) (by decide) h1 x hx
  · subst hx; exact ⟨by decide, by decide, serMark_length_le d.mark h2 h3⟩
  · exact ⟨by decide, by decide, h4 s hs⟩
  · rcases h6 with hn | ⟨nf, hnf, _, _, _, hl⟩
    · simp [anyItems, hn, payFields] at hx
    · simp [anyItems, hnf] at hx; subst hx; exact ⟨by decide, by decide, hl⟩

theorem detOfBytesP_serDetP (d : Det) (h : DetSmallP d) : detOfBytesP (some (serDetP d)) = some d := by
  have hok := detItemsP_ok d h
  obtain ⟨h1, h2, h3, h4, _, h6⟩ := h
  obtain ⟨r1, r2, r4, r3⟩ := core_reads d
  unfold detOfBytesP
  simp only [Option.getD_some, serDetP, parse_own _ hok]
  rcases h6 with hn | ⟨nf, hnf, hps, hv, hu, _⟩
  · have : detItemsP d = optLd 1 d.origType ++ [Item.ld 2 (serMark d.mark)] ++ d.rep.map (fun s => Item.ld 3 s) := by
      simp [detItemsP, anyItems, hn, payFields]
    rw [this, r1, r2, r4, r3, desMark_serMark d.mark (by omega) (by omega)]
    cases d; simp at hn; simp [hn]
  · have : detItemsP d = (optLd 1 d.origType ++ [Item.ld 2 (serMark d.mark)] ++ d.rep.map (fun s => Item.ld 3 s)) ++
        [Item.ld 4 (serAny (urlPrefix ++ nf.1) (serItems nf.2))] := by
      simp [detItemsP, anyItems, hnf]
    rw [this]
    simp only [lastLd_snoc4, allLd_append, r1, r2, r3]
    simp only [show (1 : Nat) = 4 ↔ False by decide, show (2 : Nat) = 4 ↔ False by decide, if_false, if_true, r1, r2,
      desMark_serMark d.mark (by omega) (by omega), desAny_serAny _ _ hu hv, stripPrefix?_append,
      desPay_serPay d.pay nf.1 nf.2 (by rw [hnf]) hps]
    cases d; simp [allLd]


/-! ### the whole message (generated from the payload-free development of ProtoEnc.lean by renaming) -/

/-- an `EncodedError` whose payloads are flat payload messages (no nested EncodedError) -/
inductive F
  | leaf (msg : Str) (d : Det) (cs : List F)
  | wrap (msg : Str) (d : Det) (mt : Nat) (c : F)
  deriving Repr, Inhabited

mutual
/-- forget the nested messages hidden in payloads (barrier, secondary error): they are messages of their own -/
def full : Enc → F
  | .leaf msg d _ cs => .leaf msg d (fullL cs)
  | .wrap msg d mt _ c => .wrap msg d mt (full c)
def fullL : List Enc → List F
  | [] => []
  | e :: r => full e :: fullL r
end

def leafItemsP (msg : Str) (d : Det) (kids : List Bytes) : List Item :=
  optLd 1 msg ++ [.ld 2 (serDetP d)] ++ kids.map (fun b => .ld 3 b)

def wrapItemsP (msg : Str) (d : Det) (mt : Nat) (kid : Bytes) : List Item :=
  [.ld 1 kid] ++ optLd 2 msg ++ [.ld 3 (serDetP d)] ++ optVi 4 mt

mutual
/-- `(*EncodedError).Marshal` (payloads cleared) -/
def serF : F → Bytes
  | .leaf msg d cs => lenField 1 (serItems (leafItemsP msg d (serFs cs)))
  | .wrap msg d mt c => lenField 2 (serItems (wrapItemsP msg d mt (serF c)))
def serFs : List F → List Bytes
  | [] => []
  | w :: r => serF w :: serFs r
end

mutual
/-- `(*EncodedError).Unmarshal` (payloads ignored); `none` = the reader returns an error, or no
    member of the oneof is set -/
def desF : Nat → Bytes → Option F
  | 0, _ => none
  | f + 1, b =>
    match parseItems b.length b with
    | none => none
    | some top =>
      match lastOneof top with
      | none => none
      | some (true, body) =>
        match parseItems body.length body with
        | none => none
        | some xs =>
          match detOfBytesP (lastLd xs 2), desFs f (allLd xs 3) with
          | some d, some cs => some (.leaf ((lastLd xs 1).getD []) d cs)
          | _, _ => none
      | some (false, body) =>
        match parseItems body.length body with
        | none => none
        | some xs =>
          match detOfBytesP (lastLd xs 3), desF f ((lastLd xs 1).getD []) with
          | some d, some c => some (.wrap ((lastLd xs 2).getD []) d (lastVi xs 4) c)
          | _, _ => none
def desFs : Nat → List Bytes → Option (List F)
  | _, [] => some []
  | f, b :: r =>
    match desF f b, desFs f r with
    | some w, some ws => some (w :: ws)
    | _, _ => none
end


/-! ### reading back what was written -/

theorem lastLd_leafItemsP_1 (msg : Str) (d : Det) (kids : List Bytes) : (lastLd (leafItemsP msg d kids) 1).getD [] = msg := by
  by_cases h : msg = [] <;> simp [lastLd, leafItemsP, optLd, h, List.foldl_append, lastLd_foldl_map3 kids 1 (by decide)]

theorem lastLd_leafItemsP_2 (msg : Str) (d : Det) (kids : List Bytes) : lastLd (leafItemsP msg d kids) 2 = some (serDetP d) := by
  by_cases h : msg = [] <;> simp [lastLd, leafItemsP, optLd, h, List.foldl_append, lastLd_foldl_map3 kids 2 (by decide)]

theorem allLd_leafItemsP (msg : Str) (d : Det) (kids : List Bytes) : allLd (leafItemsP msg d kids) 3 = kids := by
  have := allLd_map3 kids
  by_cases h : msg = [] <;> simp [allLd, leafItemsP, optLd, h, List.filterMap_append] at this ⊢ <;> exact this

theorem wrapItemsP_reads (msg : Str) (d : Det) (mt : Nat) (kid : Bytes) :
    (lastLd (wrapItemsP msg d mt kid) 1).getD [] = kid ∧ (lastLd (wrapItemsP msg d mt kid) 2).getD [] = msg ∧
    lastLd (wrapItemsP msg d mt kid) 3 = some (serDetP d) ∧ lastVi (wrapItemsP msg d mt kid) 4 = mt := by
  by_cases h : msg = [] <;> by_cases hm : mt = 0 <;> simp [lastLd, lastVi, wrapItemsP, optLd, optVi, h, hm]

mutual
/-- every length that is written as a prefix fits 64 bits (and there are no payloads) -/
def SmallF : F → Prop
  | .leaf msg d cs => msg.length < 2 ^ 64 ∧ DetSmallP d ∧ (serItems (leafItemsP msg d (serFs cs))).length < 2 ^ 64 ∧ SmallFs cs
  | .wrap msg d mt c => msg.length < 2 ^ 64 ∧ DetSmallP d ∧ mt < 2 ^ 64 ∧ (serItems (wrapItemsP msg d mt (serF c))).length < 2 ^ 64 ∧
      (serF c).length < 2 ^ 64 ∧ SmallF c
def SmallFs : List F → Prop
  | [] => True
  | w :: r => (serF w).length < 2 ^ 64 ∧ SmallF w ∧ SmallFs r
end

mutual
def heightF : F → Nat
  | .leaf _ _ cs => heightFL cs + 1
  | .wrap _ _ _ c => heightF c + 1
def heightFL : List F → Nat
  | [] => 0
  | w :: r => max (heightF w) (heightFL r)
end

theorem leafItemsP_ok (msg : Str) (d : Det) (cs : List F) (hm : msg.length < 2 ^ 64) (hd : DetSmallP d) (hcs : SmallFs cs) :
    ∀ x ∈ leafItemsP msg d (serFs cs), x.ok := by
  intro x hx
  simp only [leafItemsP, List.mem_append, List.mem_map, List.mem_singleton, optLd] at hx
  rcases hx with (hx | hx) | ⟨b, hb, hx⟩
  · split at hx <;> simp at hx; subst hx; exact ⟨by decide, by decide, hm⟩
  · subst hx; exact ⟨by decide, by decide, hd.2.2.2.2.1⟩
  · subst hx
    refine ⟨by decide, by decide, ?_⟩
    clear hm hd
    induction cs with
    | nil => simp [serFs] at hb
    | cons w r ih =>
      simp only [serFs, List.mem_cons] at hb
      simp only [SmallFs] at hcs
      rcases hb with rfl | hb
      · exact hcs.1
      · exact ih hcs.2.2 hb

theorem wrapItemsP_ok (msg : Str) (d : Det) (mt : Nat) (kid : Bytes) (hm : msg.length < 2 ^ 64) (hd : DetSmallP d)
    (hmt : mt < 2 ^ 64) (hk : kid.length < 2 ^ 64) : ∀ x ∈ wrapItemsP msg d mt kid, x.ok := by
  intro x hx
  simp only [wrapItemsP, List.mem_append, List.mem_singleton, optLd, optVi] at hx
  rcases hx with ((hx | hx) | hx) | hx
  · subst hx; exact ⟨by decide, by decide, hk⟩
  · split at hx <;> simp at hx; subst hx; exact ⟨by decide, by decide, hm⟩
  · subst hx; exact ⟨by decide, by decide, hd.2.2.2.2.1⟩
  · split at hx <;> simp at hx; subst hx; exact ⟨by decide, by decide, hmt⟩

mutual
/-- what the generated reader makes of what the generated writer wrote: the same message -/
theorem desF_serF : (w : F) → (f : Nat) → heightF w ≤ f → SmallF w → desF f (serF w) = some w
  | .leaf msg d cs, 0, hf, _ => by simp [heightF] at hf
  | .leaf msg d cs, f + 1, hf, hs => by
    simp only [SmallF] at hs
    obtain ⟨hm, hd, hbody, hcs⟩ := hs
    have hkids := desFs_serFs cs f (by simp [heightF] at hf; exact hf) hcs
    have hxs := parseItems_serItems (leafItemsP msg d (serFs cs)) (serItems (leafItemsP msg d (serFs cs))).length
      (leafItemsP_ok msg d cs hm hd hcs) (length_le_serItems _)
    simp only [serF, desF, top_parse 1 (by decide) (by decide) _ hbody]
    simp [lastOneof, hxs, lastLd_leafItemsP_2, detOfBytesP_serDetP d hd, allLd_leafItemsP, hkids, lastLd_leafItemsP_1]
  | .wrap msg d mt c, 0, hf, _ => by simp [heightF] at hf
  | .wrap msg d mt c, f + 1, hf, hs => by
    simp only [SmallF] at hs
    obtain ⟨hm, hd, hmt, hbody, hk, hc⟩ := hs
    have hkid := desF_serF c f (by simp [heightF] at hf; exact hf) hc
    have hxs := parseItems_serItems (wrapItemsP msg d mt (serF c)) (serItems (wrapItemsP msg d mt (serF c))).length
      (wrapItemsP_ok msg d mt (serF c) hm hd hmt hk) (length_le_serItems _)
    obtain ⟨r1, r2, r3, r4⟩ := wrapItemsP_reads msg d mt (serF c)
    simp only [serF, desF, top_parse 2 (by decide) (by decide) _ hbody]
    simp [lastOneof, hxs, r1, r2, r3, r4, detOfBytesP_serDetP d hd, hkid]
theorem desFs_serFs : (ws : List F) → (f : Nat) → heightFL ws ≤ f → SmallFs ws → desFs f (serFs ws) = some ws
  | [], f, _, _ => by simp [serFs, desFs]
  | w :: r, f, hf, hs => by
    simp only [SmallFs] at hs
    simp only [heightFL] at hf
    have h1 := desF_serF w f (by omega) hs.2.1
    have h2 := desFs_serFs r f (by omega) hs.2.2
    simp [serFs, desFs, h1, h2]
end


end ErrModel.Proto
