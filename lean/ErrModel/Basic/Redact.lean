import ErrModel.Basic.Markers
/-
  The contract of github.com/cockroachdb/redact@v1.1.5's output buffer, as executable
  functions on byte strings (internal/buffer/buffer.go, internal/escape/escape.go).
  A redactable string is assembled from segments written in one of three modes:
    * unsafe  : enclosed in ‹…›, markers inside escaped to '?', the enclosure is closed
                before and reopened after every run of newlines, empty enclosures elided,
                adjacent unsafe segments merged;
    * safe    : markers escaped to '?';
    * raw     : an already redactable string, copied verbatim.
  Both escaped modes append '?' after a trailing invalid UTF-8 byte.
-/
namespace ErrModel

def qmark : UInt8 := 63

/-! ### utf8.DecodeLastRune (only whether it reports (RuneError, 1)) -/

def inR (b lo hi : UInt8) : Bool := lo ≤ b && b ≤ hi
def isContB (b : UInt8) : Bool := inR b 0x80 0xBF

/-- utf8.DecodeRune: (size, valid).  Invalid input yields size 1. -/
def decodeRune : Str → Nat × Bool
  | [] => (0, false)
  | b0 :: r =>
    if b0 < 0x80 then (1, true)
    else if inR b0 0xC2 0xDF then
      (match r with
      | b1 :: _ => if isContB b1 then (2, true) else (1, false)
      | _ => (1, false))
    else if inR b0 0xE0 0xEF then
      (match r with
      | b1 :: b2 :: _ =>
        let lo : UInt8 := if b0 = 0xE0 then 0xA0 else 0x80
        let hi : UInt8 := if b0 = 0xED then 0x9F else 0xBF
        if inR b1 lo hi && isContB b2 then (3, true) else (1, false)
      | _ => (1, false))
    else if inR b0 0xF0 0xF4 then
      (match r with
      | b1 :: b2 :: b3 :: _ =>
        let lo : UInt8 := if b0 = 0xF0 then 0x90 else 0x80
        let hi : UInt8 := if b0 = 0xF4 then 0x8F else 0xBF
        if inR b1 lo hi && isContB b2 && isContB b3 then (4, true) else (1, false)
      | _ => (1, false))
    else (1, false)

/-- RuneStart: not a continuation byte -/
def runeStart (b : UInt8) : Bool := !isContB b

/-- does utf8.DecodeLastRune(p) return (RuneError, 1)? -/
def lastRuneInvalid (p : Str) : Bool :=
  match p.reverse with
  | [] => false
  | last :: revRest =>
    if last < 0x80 then false
    else
      -- look back over at most 3 more bytes for a rune start
      let back : List UInt8 := revRest.take 3
      let k : Nat := match back.findIdx? runeStart with
        | some i => i + 1        -- number of bytes before `last` included in the candidate
        | none => back.length
      let cand : Str := (p.drop (p.length - (k + 1)))
      let (sz, ok) := decodeRune cand
      !(ok && sz = cand.length)

/-! ### escape.InternalEscapeBytes -/

def endsWith (s suf : Str) : Bool := suf.isSuffixOf s
def dropLast3 (s : Str) : Str := s.take (s.length - 3)

theorem dropWhile_length_le {α : Type} (p : α → Bool) : (l : List α) → (l.dropWhile p).length ≤ l.length
  | [] => by simp
  | a :: r => by
    simp only [List.dropWhile]
    split
    · have := dropWhile_length_le p r; simp; omega
    · simp

/-- the main loop of InternalEscapeBytes over the new content; `res` is the whole buffer so far -/
def escLoop (brk : Bool) : Str → Str → Str
  | res, [] => res
  | res, 0xE2 :: 0x80 :: 0xB9 :: r => escLoop brk (res ++ [qmark]) r
  | res, 0xE2 :: 0x80 :: 0xBA :: r => escLoop brk (res ++ [qmark]) r
  | res, c :: r =>
    if brk && c = nl then
      let res1 := if endsWith res mOpen then dropLast3 res else res ++ mClose
      let run := r.takeWhile (· = nl)
      let rest := r.dropWhile (· = nl)
      have : rest.length < (c :: r).length := by
        have h := dropWhile_length_le (· = nl) r
        show (r.dropWhile (· = nl)).length < (c :: r).length
        simp only [List.length_cons]; omega
      escLoop brk (res1 ++ nl :: run ++ mOpen) rest
    else escLoop brk (res ++ [c]) r
termination_by _ c => c.length

/-- InternalEscapeBytes(b, start, brk, false) -/
def internalEscape (b : Str) (start : Nat) (brk : Bool) : Str :=
  let res := escLoop brk (b.take start) (b.drop start)
  if lastRuneInvalid b then res ++ [qmark] else res

/-- InternalEscapeBytes(buf ++ content, len(buf), brk, false) -/
def escapeFrom (buf content : Str) (brk : Bool) : Str := internalEscape (buf ++ content) buf.length brk

/-- redact.EscapeBytes -/
def escapeBytes (s : Str) : Str := escapeFrom mOpen s true ++ mClose

/-! ### the buffer state machine (internal/buffer/buffer.go) -/

inductive Mode
  | unsafeE | safeE | raw
  deriving DecidableEq, Repr, Inhabited

structure RB where
  buf : Str
  valid : Nat
  mode : Mode
  opened : Bool
  deriving Repr, Inhabited

def RB.reset : RB := ⟨[], 0, .unsafeE, false⟩

def RB.escapeToEnd (r : RB) (brk : Bool) : RB :=
  let nb := internalEscape r.buf r.valid brk
  { r with buf := nb, valid := nb.length }

def RB.endRedactable (r : RB) : RB :=
  if r.buf = [] then r
  else if endsWith r.buf mOpen then { r with buf := dropLast3 r.buf, opened := false }
  else { r with buf := r.buf ++ mClose, opened := false }

def RB.startRedactable (r : RB) : RB :=
  if endsWith r.buf mClose then { r with buf := dropLast3 r.buf, opened := true }
  else { r with buf := r.buf ++ mOpen, opened := true }

def RB.startWrite (r : RB) : RB :=
  if r.mode = .unsafeE && !r.opened then
    let r1 := r.startRedactable
    { r1 with valid := r1.buf.length }
  else r

def RB.write (r : RB) (s : Str) : RB :=
  let r1 := r.startWrite
  { r1 with buf := r1.buf ++ s }

def RB.setMode (r : RB) (m : Mode) : RB :=
  if r.mode = m then r else
  let r1 := if r.mode = .unsafeE || r.mode = .safeE then r.escapeToEnd (r.mode = .unsafeE) else r
  let r2 := if r1.opened then r1.endRedactable else r1
  { r2 with valid := r2.buf.length, mode := m }

def RB.finalize (r : RB) : RB :=
  let r1 := if r.mode = .raw then { r with valid := r.buf.length } else r.escapeToEnd (r.mode = .unsafeE)
  if r1.opened then
    let r2 := r1.endRedactable
    { r2 with valid := r2.buf.length }
  else r1

/-- `lit` = safe text (format literals, Safe values), `arg` = an argument that is not
    marked safe, `pre` = an already redactable string -/
inductive Seg
  | lit (s : Str) | arg (s : Str) | pre (s : Str)
  deriving Repr, DecidableEq, Inhabited

/-- one piece of a Sprintf: literals and Safe values are written in the printer's resting
    (safe) mode; other arguments switch the mode and restore it afterwards -/
def RB.seg (r : RB) : Seg → RB
  | .lit s => (r.setMode .safeE).write s
  | .arg s => (((r.setMode .unsafeE).write s).setMode .safeE)
  | .pre s => (((r.setMode .raw).write s).setMode .safeE)

/-- the redactable string produced by redact.Sprintf for a sequence of pieces -/
def assemble (segs : List Seg) : Str :=
  ((segs.foldl RB.seg (RB.reset.setMode .safeE)).finalize).buf

end ErrModel
