import ErrModel.Basic.Bytes
/-
  The byte-level contract of `github.com/cockroachdb/redact` markers.
  ‹ = E2 80 B9, › = E2 80 BA, × = C3 97.  `E2` is a UTF-8 lead byte and never a
  continuation byte, so greedy left-to-right 3-byte matching coincides with
  what Go's rune-based regexps do on arbitrary (even invalid) byte strings.
-/
namespace ErrModel

def mOpen : Str := [0xE2, 0x80, 0xB9]
def mClose : Str := [0xE2, 0x80, 0xBA]
def mRedacted : Str := [0xE2, 0x80, 0xB9, 0xC3, 0x97, 0xE2, 0x80, 0xBA]   -- ‹×›

/-- `u x` is a plain byte like `b x`, with a ghost label: it was written from an UNSAFE source
    (a format argument, the text of a foreign error, ...).  `lex` never produces it and `unlex`
    ignores the label; the label only serves the theorems (C03: labelled bytes stay inside markers). -/
inductive Tok
  | op | cl | b (x : UInt8) | u (x : UInt8)
  deriving DecidableEq, Repr, Inhabited

def lex : Str → List Tok
  | 0xE2 :: 0x80 :: 0xB9 :: r => .op :: lex r
  | 0xE2 :: 0x80 :: 0xBA :: r => .cl :: lex r
  | x :: r => .b x :: lex r
  | [] => []

def unlex : List Tok → Str
  | [] => []
  | .op :: r => mOpen ++ unlex r
  | .cl :: r => mClose ++ unlex r
  | .b x :: r => x :: unlex r
  | .u x :: r => x :: unlex r

/-- `RedactableString.StripMarkers` : delete every marker rune. -/
def stripToks : List Tok → Str
  | [] => []
  | .b x :: r => x :: stripToks r
  | .u x :: r => x :: stripToks r
  | _ :: r => stripToks r

def stripMarkers (s : Str) : Str := stripToks (lex s)

/-- Length of the longest marker-free prefix, and what follows. -/
def spanBytes : List Tok → List UInt8 × List Tok
  | .b x :: r => let (a, t) := spanBytes r; (x :: a, t)
  | .u x :: r => let (a, t) := spanBytes r; (x :: a, t)
  | t => ([], t)

theorem spanBytes_len (t : List Tok) : (spanBytes t).2.length ≤ t.length := by
  induction t with
  | nil => simp [spanBytes]
  | cons a r ih => cases a <;> simp [spanBytes] <;> omega

/-- `RedactableString.Redact` : regexp `‹[^‹›]*›` → `‹×›`, leftmost, non-overlapping. -/
def redactToks (t : List Tok) : Str :=
  match t with
  | [] => []
  | .op :: r =>
    match h : spanBytes r with
    | (_, .cl :: r') =>
      have : r'.length < (Tok.op :: r).length := by
        have := spanBytes_len r; rw [h] at this; simp at this ⊢; omega
      mRedacted ++ redactToks r'
    | _ => mOpen ++ redactToks r
  | .cl :: r => mClose ++ redactToks r
  | .b x :: r => x :: redactToks r
  | .u x :: r => x :: redactToks r
termination_by t.length

def redactS (s : Str) : Str := redactToks (lex s)

/-- `EscapeMarkers`: every marker rune → `?`. -/
def escToks : List Tok → Str
  | [] => []
  | .b x :: r => x :: escToks r
  | .u x :: r => x :: escToks r
  | _ :: r => 63 :: escToks r

def escapeMarkers (s : Str) : Str := escToks (lex s)

def markerFree (s : Str) : Bool := (lex s).all (fun t => match t with | .b _ => true | .u _ => true | _ => false)

end ErrModel
