/-
  Byte strings.  Go strings are byte strings; the properties quantify over
  invalid UTF-8, NUL and the redaction-marker runes, so `List UInt8` is the
  honest carrier.  Core Lean only.
-/
namespace ErrModel

abbrev Str := List UInt8

/-- Literal helper: the UTF-8 bytes of a Lean string (run time only; does not
    reduce in the kernel — use `b!"…"` for constants that proofs compute with). -/
def lit (s : String) : Str := s.toUTF8.toList

open Lean in
/-- `b!"abc"` elaborates to the explicit byte list `[97, 98, 99]`. -/
macro "b!" s:str : term => do
  let bs := s.getString.toUTF8.toList
  let elems ← bs.toArray.mapM (fun b => `(($(quote b.toNat) : UInt8)))
  `(([ $elems,* ] : List UInt8))

def colonSp : Str := [58, 32]      -- ": "
def nl : UInt8 := 10
def nlS : Str := [10]

/-- `strings.HasSuffix`. -/
def hasSuffix (s suf : Str) : Bool := suf.isSuffixOf s

/-- `s[:len(s)-len(suf)]` when `suf` is a suffix of `s`. -/
def stripSuffix? (s suf : Str) : Option Str :=
  if suf.isSuffixOf s then some (s.take (s.length - suf.length)) else none

theorem stripSuffix?_some {s suf p : Str} (h : stripSuffix? s suf = some p) : s = p ++ suf := by
  unfold stripSuffix? at h
  split at h
  · rename_i hs
    have hs' : suf <:+ s := List.isSuffixOf_iff_suffix.mp hs
    obtain ⟨t, ht⟩ := hs'
    cases h
    subst ht
    simp
  · cases h

theorem stripSuffix?_append (p suf : Str) : stripSuffix? (p ++ suf) suf = some p := by
  unfold stripSuffix?
  have : suf.isSuffixOf (p ++ suf) = true :=
    List.isSuffixOf_iff_suffix.mpr (List.suffix_append p suf)
  simp [this]

theorem stripSuffix?_none {s suf : Str} (h : stripSuffix? s suf = none) : ¬ suf <:+ s := by
  unfold stripSuffix? at h
  split at h
  · cases h
  · rename_i hs
    intro hh
    exact hs (List.isSuffixOf_iff_suffix.mpr hh)

/-- `strings.Join(xs, sep)`. -/
def joinWith (sep : Str) : List Str → Str
  | [] => []
  | [x] => x
  | x :: y :: r => x ++ sep ++ joinWith sep (y :: r)

/-- A string containing no newline byte. -/
def noNl (s : Str) : Bool := !s.contains nl

end ErrModel
