import ErrModel.Basic.Redact
/-
  The redact buffer contract at TOKEN level.

  A redactable string is handled as a list of tokens (`Tok`: open marker, close marker,
  plain byte) instead of bytes.  This is the representation the theorems about marker
  well-formedness and redaction are proved on: concatenation of token lists never creates a
  marker (at byte level two pieces could spell one across their junction), so the
  properties compose.  The byte string is `unlex` of the tokens; `lex (unlex t) = t`
  whenever no three adjacent plain bytes of `t` spell a marker (`Spells`, below), which is
  the only place where bytes and tokens differ.

  The functions mirror Basic/Redact.lean (the validated transliteration of redact v1.1.5);
  the finished part of the buffer is a token list, the part written since the last escape
  is still raw bytes (`pend`), exactly as `buf[validUntil:]` in the Go code.
-/
namespace ErrModel

abbrev Toks := List Tok

def bytesT (s : Str) : Toks := s.map Tok.b

/-- bytes written from an unsafe source (ghost label, see `Tok.u`); newline bytes are structure,
    not content: they are what an unsafe text legitimately shows outside markers -/
def bytesU (s : Str) : Toks := s.map (fun c => if c = nl then Tok.b c else Tok.u c)

/-- the tokens of a stored redactable string: what is between markers counts as unsafe -/
def relabel : Bool → Toks → Toks
  | _, [] => []
  | _, .op :: r => .op :: relabel true r
  | _, .cl :: r => .cl :: relabel false r
  | st, .b c :: r => (if st then Tok.u c else Tok.b c) :: relabel st r
  | st, .u c :: r => .u c :: relabel st r

def lexL (s : Str) : Toks := relabel false (lex s)

def qT : Tok := .b qmark
def nlT : Tok := .b nl

/-- `escLoop` on tokens: `acc` is everything produced so far (the finished buffer
    included: the loop looks at its last token to elide an empty enclosure). -/
def escLoopT (brk : Bool) : Toks → Str → Toks
  | acc, [] => acc
  | acc, 0xE2 :: 0x80 :: 0xB9 :: r => escLoopT brk (acc ++ [qT]) r
  | acc, 0xE2 :: 0x80 :: 0xBA :: r => escLoopT brk (acc ++ [qT]) r
  | acc, c :: r =>
    if brk && c = nl then
      let acc1 := if acc.getLast? = some .op then acc.dropLast else acc ++ [.cl]
      let run := r.takeWhile (· = nl)
      let rest := r.dropWhile (· = nl)
      have : rest.length < (c :: r).length := by
        have h := dropWhile_length_le (· = nl) r
        show (r.dropWhile (· = nl)).length < (c :: r).length
        simp only [List.length_cons]; omega
      escLoopT brk (acc1 ++ nlT :: bytesT run ++ [.op]) rest
    else escLoopT brk (acc ++ [if brk then Tok.u c else Tok.b c]) r   -- unsafe mode (brk): labelled
termination_by _ c => c.length

structure RBT where
  done : Toks          -- buf[:validUntil], escaped and final
  pend : Str           -- buf[validUntil:], raw
  mode : Mode
  opened : Bool
  deriving Repr, Inhabited

def RBT.reset : RBT := ⟨[], [], .unsafeE, false⟩

/-- InternalEscapeBytes(buf, validUntil, brk): escape the pending bytes; a trailing invalid
    UTF-8 byte of the whole buffer gets a `?` -/
def RBT.escapeToEnd (r : RBT) (brk : Bool) : RBT :=
  let res := escLoopT brk r.done r.pend
  let res1 := if lastRuneInvalid (unlex r.done ++ r.pend) then res ++ [qT] else res
  { r with done := res1, pend := [] }

/-- only called with nothing pending -/
def RBT.endRedactable (r : RBT) : RBT :=
  if r.done = [] then r
  else if r.done.getLast? = some .op then { r with done := r.done.dropLast, opened := false }
  else { r with done := r.done ++ [.cl], opened := false }

def RBT.startRedactable (r : RBT) : RBT :=
  if r.done.getLast? = some .cl then { r with done := r.done.dropLast, opened := true }
  else { r with done := r.done ++ [.op], opened := true }

/-- raw mode: what is written is a redactable string, final as it is -/
def RBT.write (r : RBT) (s : Str) : RBT :=
  match r.mode with
  | .raw => { r with done := r.done ++ lexL s }
  | .unsafeE => (if r.opened then { r with pend := r.pend ++ s } else { r.startRedactable with pend := s })
  | .safeE => { r with pend := r.pend ++ s }

def RBT.setMode (r : RBT) (m : Mode) : RBT :=
  if r.mode = m then r else
  let r1 := if r.mode = .unsafeE || r.mode = .safeE then r.escapeToEnd (r.mode = .unsafeE) else r
  let r2 := if r1.opened then r1.endRedactable else r1
  { r2 with mode := m }

def RBT.finalize (r : RBT) : RBT :=
  let r1 := if r.mode = .raw then r else r.escapeToEnd (r.mode = .unsafeE)
  if r1.opened then r1.endRedactable else r1

/-- pieces of a Sprintf at token level: `preT` is an already redactable string that is
    available as tokens (the rendering of a nested error) -/
inductive SegT
  | lit (s : Str) | arg (s : Str) | pre (s : Str) | preT (t : Toks)
  deriving Repr, DecidableEq, Inhabited

def SegT.ofSeg : Seg → SegT
  | .lit s => .lit s
  | .arg s => .arg s
  | .pre s => .pre s

def RBT.writeToks (r : RBT) (t : Toks) : RBT := { r with done := r.done ++ t }

def RBT.seg (r : RBT) : SegT → RBT
  | .lit s => (r.setMode .safeE).write s
  | .arg s => (((r.setMode .unsafeE).write s).setMode .safeE)
  | .pre s => (((r.setMode .raw).write s).setMode .safeE)
  | .preT t => (((r.setMode .raw).writeToks t).setMode .safeE)

/-- redact.Sprintf for a sequence of pieces, as tokens -/
def assembleT (segs : List SegT) : Toks :=
  ((segs.foldl RBT.seg (RBT.reset.setMode .safeE)).finalize).done

/-- redact.EscapeBytes, as tokens -/
def escapeBytesT (s : Str) : Toks :=
  let res := escLoopT true [.op] s
  (if lastRuneInvalid (mOpen ++ s) then res ++ [qT] else res) ++ [.cl]

/-! ### Redact / StripMarkers on tokens -/

def stripT (t : Toks) : Str := stripToks t

def redactedT : Toks := [.op, .b 0xC3, .b 0x97, .cl]   -- ‹×›

/-- `RedactableString.Redact` on tokens -/
def redactT (t : Toks) : Toks :=
  match t with
  | [] => []
  | .op :: r =>
    match h : spanBytes r with
    | (_, .cl :: r') =>
      have : r'.length < (Tok.op :: r).length := by
        have := spanBytes_len r; rw [h] at this; simp at this ⊢; omega
      redactedT ++ redactT r'
    | _ => .op :: redactT r
  | .cl :: r => .cl :: redactT r
  | .b x :: r => .b x :: redactT r
  | .u x :: r => .u x :: redactT r
termination_by t.length

end ErrModel
