import ErrModel.Transport
/-
  Line protocol between the Go harness and the model driver: S-expressions
  whose atoms are `s<hex>` (byte strings), `n<dec>` (naturals) or bare symbols.
  Everything printed here is canonical: the Go side prints the same values the
  same way and the comparator diffs text.
-/
namespace ErrModel

inductive SX
  | sym (s : String)
  | str (b : Str)
  | nat (n : Nat)
  | list (l : List SX)
  deriving Repr, Inhabited

def hexDigit (n : UInt8) : Char :=
  if n < 10 then Char.ofNat (48 + n.toNat) else Char.ofNat (87 + n.toNat)

def hexOf (b : Str) : String :=
  String.ofList (b.foldr (fun (x : UInt8) acc => hexDigit (x / 16) :: hexDigit (x % 16) :: acc) [])

def hexVal (c : Char) : Option UInt8 :=
  if '0' ≤ c ∧ c ≤ '9' then some (c.toNat - 48).toUInt8
  else if 'a' ≤ c ∧ c ≤ 'f' then some (c.toNat - 87).toUInt8
  else none

def unhex : List Char → Option Str
  | [] => some []
  | a :: b :: r => do
    let x ← hexVal a
    let y ← hexVal b
    let t ← unhex r
    some ((x * 16 + y) :: t)
  | _ => none

def parseAtom (t : String) : Option SX :=
  match t.toList with
  | 's' :: r => match unhex r with
    | some b => some (SX.str b)
    | none => some (SX.sym t)
  | 'n' :: r => match (String.ofList r).toNat? with
    | some n => some (SX.nat n)
    | none => some (SX.sym t)
  | _ => some (SX.sym t)

/-- parse a token list; returns the parsed expressions of the current level and the rest -/
def parseToks (fuel : Nat) (toks : List String) : Option (List SX × List String) :=
  match fuel with
  | 0 => none
  | fuel + 1 =>
    match toks with
    | [] => some ([], [])
    | ")" :: r => some ([], r)
    | "(" :: r => do
      let (inner, r1) ← parseToks fuel r
      let (sibs, r2) ← parseToks fuel r1
      some (SX.list inner :: sibs, r2)
    | t :: r => do
      let a ← parseAtom t
      let (sibs, r2) ← parseToks fuel r
      some (a :: sibs, r2)

def parseLine (line : String) : Option (List SX) :=
  let toks := (line.splitOn " ").filter (· ≠ "")
  (parseToks (toks.length + 1) toks).map (·.1)

/-! ## printing -/

def pStr (b : Str) : String := "s" ++ hexOf b
def pNat (n : Nat) : String := "n" ++ toString n
def pBool (b : Bool) : String := if b then "n1" else "n0"
def pList (l : List String) : String := "(" ++ " ".intercalate l ++ ")"
def pStrs (l : List Str) : String := pList (l.map pStr)

def pTMark (m : TMark) : String := pList [pStr m.fam, pStr m.ext]

def pPay : Pay → String
  | .none => "(none)"
  | .str s => pList ["str", pStr s]
  | .strs l => pList ["strs", pStrs l]
  | .errno n arch a b c d e => pList ["errno", pNat n, pStr arch, pBool a, pBool b, pBool c, pBool d, pBool e]
  | .mark msg tys => pList ["mark", pStr msg, pList (tys.map pTMark)]
  | .tags l => pList ["tags", pList (l.map fun kv => pList [pStr kv.1, pStr kv.2])]
  | .http n => pList ["http", pNat n]
  | .grpc n => pList ["grpc", pNat n]
  | .status c m nd => pList ["status", pNat c, pStr m, pNat nd]
  | .testErr => "(testerr)"
  | .raw u v => pList ["raw", pStr u, pStr v]

def pDet (d : Det) : String :=
  pList ["D", pStr d.origType, pStr d.mark.fam, pStr d.mark.ext, pStrs d.rep, pPay d.pay]

mutual
def pEnc : Enc → String
  | .leaf msg d hid cs => pList ["L", pStr msg, pDet d, pList (pEncs hid), pList (pEncs cs)]
  | .wrap msg d mt hid c => pList ["W", pStr msg, pDet d, pNat mt, pList (pEncs hid), pEnc c]
def pEncs : List Enc → List String
  | [] => []
  | e :: r => pEnc e :: pEncs r
end

def pOpt (f : α → String) : Option α → String
  | none => "(panic)"
  | some a => f a

/-! ## reading wire terms back (the harness sends fault-injected wires for C05) -/

def sxStr : SX → Option Str
  | .str b => some b
  | _ => none
def sxNat : SX → Option Nat
  | .nat n => some n
  | _ => none
def sxBool (x : SX) : Option Bool := (sxNat x).map (· ≠ 0)
def sxStrs : SX → Option (List Str)
  | .list l => l.mapM sxStr
  | _ => none

def sxTMark : SX → Option TMark
  | .list [a, b] => do some ⟨← sxStr a, ← sxStr b⟩
  | _ => none

def sxPay : SX → Option Pay
  | .list [.sym "none"] => some .none
  | .list [.sym "str", s] => do some (.str (← sxStr s))
  | .list [.sym "strs", l] => do some (.strs (← sxStrs l))
  | .list [.sym "errno", n, arch, a, b, c, d, e] => do
      some (.errno (← sxNat n) (← sxStr arch) (← sxBool a) (← sxBool b) (← sxBool c) (← sxBool d) (← sxBool e))
  | .list [.sym "mark", m, .list tys] => do some (.mark (← sxStr m) (← tys.mapM sxTMark))
  | .list [.sym "tags", .list l] => do
      let kvs ← l.mapM (fun x => match x with
        | .list [k, v] => do some ((← sxStr k), (← sxStr v))
        | _ => none)
      some (.tags kvs)
  | .list [.sym "http", n] => do some (.http (← sxNat n))
  | .list [.sym "grpc", n] => do some (.grpc (← sxNat n))
  | .list [.sym "status", c, m, nd] => do some (.status (← sxNat c) (← sxStr m) (← sxNat nd))
  | .list [.sym "testerr"] => some .testErr
  | .list [.sym "raw", u, v] => do some (.raw (← sxStr u) (← sxStr v))
  | _ => none

def sxDet : SX → Option Det
  | .list [.sym "D", o, f, e, rep, pay] => do
      some ⟨← sxStr o, ⟨← sxStr f, ← sxStr e⟩, ← sxStrs rep, ← sxPay pay⟩
  | _ => none

mutual
def sxEnc : SX → Option Enc
  | .list [.sym "L", m, d, .list hid, .list cs] => do
      some (.leaf (← sxStr m) (← sxDet d) (← sxEncs hid) (← sxEncs cs))
  | .list [.sym "W", m, d, mt, .list hid, c] => do
      some (.wrap (← sxStr m) (← sxDet d) (← sxNat mt) (← sxEncs hid) (← sxEnc c))
  | _ => none
def sxEncs : List SX → Option (List Enc)
  | [] => some []
  | x :: r => do
      let e ← sxEnc x
      let es ← sxEncs r
      some (e :: es)
end

end ErrModel
