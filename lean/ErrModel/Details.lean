import ErrModel.Sem
import ErrModel.Basic.RedactT
/-
  Per-layer safe details (`errbase.GetSafeDetails`, the `SafeDetails()` methods).
  The redacted verbose rendering embedded in a barrier's details is supplied by
  `vf` (instantiated by the formatting engine, `ErrModel/Engine`).
-/
namespace ErrModel

/-- `‹` u `›` around every non-empty line of an unsafe string (marker-free input). -/
def encloseLines : List Str → List Str
  | [] => []
  | l :: r => (if l = [] then [] else mOpen ++ l ++ mClose) :: encloseLines r

def splitNl (s : Str) : List Str :=
  go s []
where go : Str → Str → List Str
  | [], acc => [acc.reverse]
  | c :: r, acc => if c = nl then acc.reverse :: go r [] else go r (c :: acc)

def encloseUnsafe (v : Str) : RStr := joinWith nlS (encloseLines (splitNl (escapeMarkers v)))

/-- `redact.Sprint(x).Redact().StripMarkers()` of an RStr. -/
def redactStrip (r : RStr) : Str := stripMarkers (redactS r)

/-- `SafeDetailPayload.Fill`. -/
def fillDetails (mark : TMark) (sd : List Str) (acc : List Str) : List Str :=
  if sd = [] then acc
  else acc ++ [lit "details for " ++ mark.fam ++ lit "::" ++ mark.ext ++ lit ":"] ++ sd.map (fun s => lit "  " ++ s)

/-- one context tag as `redactableTagsIterate` builds it:
    `redact.Sprintf("%s%s%v", Safe(k), eq, v)`; kind 0 = unsafe value, 1 = Safe value, 2 = nil -/
def tagToks (kv : Str × Str) (kind : Nat) : Toks :=
  if kind = 2 then assembleT [.lit kv.1]
  else if kind = 1 then assembleT [.lit kv.1, .lit (if kv.1.length > 1 then b!"=" else []), .lit kv.2]
  else assembleT [.lit kv.1, .lit (if kv.1.length > 1 then b!"=" else []), .arg kv.2]

/-- `redactTags`: each tag `.Redact().StripMarkers()` -/
def redactTags : List (Str × Str) → List Nat → List Str
  | [], _ => []
  | kv :: r, ks => stripT (redactT (tagToks kv (ks.headD 0))) :: redactTags r ks.tail

theorem redactTags_eq_nil (t : List (Str × Str)) (k : List Nat) : redactTags t k = [] ↔ t = [] := by
  cases t <;> simp [redactTags]

section
variable (P : Proc) (vf : Err → Str)

mutual
/-- `getDetails(err)` : the safe strings of one layer. -/
def layerDetails : Err → List Str
  | .leaf _ k =>
    match k with
    | .leafError msg => [redactStrip msg]
    | .pkgFundamental _ st => [printStack st]
    | .unimplemented _ url det => [url, det]
    | .opaqueLeaf _ d _ => d.rep
    | .user u _ => u.safe
    | _ => []
  | .barrier _ m masked =>
      match m.recv with
      | some r => r
      | none => chainFill masked ++ [vf masked]
  | .wrap _ k _ =>
    match k with
    | .withPrefix p => [redactStrip p]
    | .withNewMessage m => [redactStrip m]
    | .withStack st => [printStack st]
    | .withIssueLink url det => [url, det]
    | .withTelemetry keys => keys
    | .withDomain d => [d]
    | .withContext tags kinds red => match red with | some r => r | none => redactTags tags kinds
    | .withSafeDetails l => l
    | .pkgWithStack st => [printStack st]
    | .opaqueWrapper _ d _ _ => d.rep
    | .user u _ => u.safe
    | _ => []
  | .second _ _ sec => chainFill sec
  | .multi _ k _ =>
    match k with
    | .opaqueLeafCauses _ d _ => d.rep
    | .user u _ => u.safe
    | _ => []
/-- the loop `for err := x; err != nil; err = UnwrapOnce(err) { details = GetSafeDetails(err).Fill(details) }` -/
def chainFill : Err → List Str
  | .leaf id k => fillDetails (typeMark P (.leaf id k)) (layerDetails (.leaf id k)) []
  | .barrier id m h => fillDetails (typeMark P (.barrier id m h)) (layerDetails (.barrier id m h)) []
  | .wrap id k c => fillDetails (typeMark P (.wrap id k c)) (layerDetails (.wrap id k c)) [] ++ chainFill c
  | .second id c s => fillDetails (typeMark P (.second id c s)) (layerDetails (.second id c s)) [] ++ chainFill c
  | .multi id k cs => fillDetails (typeMark P (.multi id k cs)) (layerDetails (.multi id k cs)) []
end

end

end ErrModel
