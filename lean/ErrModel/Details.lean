import ErrModel.Sem
/-
  Per-layer safe details (`errbase.GetSafeDetails`, the `SafeDetails()` methods).
  The redacted verbose rendering embedded in a barrier's details is supplied by
  `vf` (instantiated by the formatting engine, `ErrModel/Engine`).
-/
namespace ErrModel

/-- `‹` u `›` around every non-empty line of an unsafe string (marker-free input). -/
def encloseLines : List Str → List Str
  | [] => []
  | l :: r => (if l = [] then [] else mOpen ++ l ++ mClose) :: encloseLines r

def splitNl (s : Str) : List Str :=
  go s []
where go : Str → Str → List Str
  | [], acc => [acc.reverse]
  | c :: r, acc => if c = nl then acc.reverse :: go r [] else go r (c :: acc)

def encloseUnsafe (v : Str) : RStr := joinWith nlS (encloseLines (splitNl (escapeMarkers v)))

/-- `redact.Sprint(x).Redact().StripMarkers()` of an RStr. -/
def redactStrip (r : RStr) : Str := stripMarkers (redactS r)

/-- `SafeDetailPayload.Fill`. -/
def fillDetails (mark : TMark) (sd : List Str) (acc : List Str) : List Str :=
  if sd = [] then acc
  else acc ++ [lit "details for " ++ mark.fam ++ lit "::" ++ mark.ext ++ lit ":"] ++ sd.map (fun s => lit "  " ++ s)

/-- `redactTags`. -/
def redactTag (kv : Str × Str) : Str :=
  redactStrip (kv.1 ++ (if kv.1.length > 1 then lit "=" else []) ++ encloseUnsafe kv.2)

section
variable (P : Proc) (vf : Err → Str)

mutual
/-- `getDetails(err)` : the safe strings of one layer. -/
def layerDetails : Err → List Str
  | .leaf _ k =>
    match k with
    | .leafError msg => [redactStrip msg]
    | .pkgFundamental _ st => [printStack st]
    | .unimplemented _ url det => [url, det]
    | .opaqueLeaf _ d _ => d.rep
    | .user u _ => u.safe
    | _ => []
  | .barrier _ m masked =>
      match m.recv with
      | some r => r
      | none => chainFill masked ++ [vf masked]
  | .wrap _ k _ =>
    match k with
    | .withPrefix p => [redactStrip p]
    | .withNewMessage m => [redactStrip m]
    | .withStack st => [printStack st]
    | .withIssueLink url det => [url, det]
    | .withTelemetry keys => keys
    | .withDomain d => [d]
    | .withContext tags red => match red with | some r => r | none => tags.map redactTag
    | .withSafeDetails l => l
    | .pkgWithStack st => [printStack st]
    | .opaqueWrapper _ d _ _ => d.rep
    | .user u _ => u.safe
    | _ => []
  | .second _ _ sec => chainFill sec
  | .multi _ k _ =>
    match k with
    | .opaqueLeafCauses _ d _ => d.rep
    | .user u _ => u.safe
    | _ => []
/-- the loop `for err := x; err != nil; err = UnwrapOnce(err) { details = GetSafeDetails(err).Fill(details) }` -/
def chainFill : Err → List Str
  | .leaf id k => fillDetails (typeMark P (.leaf id k)) (layerDetails (.leaf id k)) []
  | .barrier id m h => fillDetails (typeMark P (.barrier id m h)) (layerDetails (.barrier id m h)) []
  | .wrap id k c => fillDetails (typeMark P (.wrap id k c)) (layerDetails (.wrap id k c)) [] ++ chainFill c
  | .second id c s => fillDetails (typeMark P (.second id c s)) (layerDetails (.second id c s)) [] ++ chainFill c
  | .multi id k cs => fillDetails (typeMark P (.multi id k cs)) (layerDetails (.multi id k cs)) []
end

end

end ErrModel
