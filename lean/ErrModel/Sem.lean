import ErrModel.Err
import ErrModel.Basic.Markers
/-
  Observers of error values: Error() text, unwrapping, type details, marks,
  per-layer safe details.  Each is one case per Go type, as in the code.
-/
namespace ErrModel

/-! ## Processes -/

/-- A process: its migration registry (`backwardRegistry : newKey ↦ prevKey`),
    which type-key families have their encoder/decoder registered, and its
    GOOS:GOARCH string. -/
structure Proc where
  reg : List (Str × Str)
  knows : Str → Bool
  arch : Str

def Proc.family (P : Proc) (tn : Str) : Str :=
  match P.reg.lookup tn with
  | some prev => prev
  | none => tn

/-- The registry every process of the pinned library starts with (errbase/oserror_go116.go). -/
def baseReg : List (Str × Str) := [(b!"io/fs/*fs.PathError", osPathErrorKey)]

def archHere : Str := b!"linux:amd64"

/-- A process that has every encoder/decoder of the library registered. -/
def Full : Proc := ⟨baseReg, fun _ => true, archHere⟩

/-! ## Error() -/

def sp : Str := [32]

/-- `codes.Code.String()` -/
def codeName (c : Nat) : Str :=
  match c with
  | 0 => b!"OK" | 1 => b!"Canceled" | 2 => b!"Unknown" | 3 => b!"InvalidArgument"
  | 4 => b!"DeadlineExceeded" | 5 => b!"NotFound" | 6 => b!"AlreadyExists" | 7 => b!"PermissionDenied"
  | 8 => b!"ResourceExhausted" | 9 => b!"FailedPrecondition" | 10 => b!"Aborted" | 11 => b!"OutOfRange"
  | 12 => b!"Unimplemented" | 13 => b!"Internal" | 14 => b!"Unavailable" | 15 => b!"DataLoss"
  | 16 => b!"Unauthenticated"
  | n => b!"Code(" ++ lit (toString n) ++ b!")"

def statusText (c : Nat) (msg : Str) : Str :=
  b!"rpc error: code = " ++ codeName c ++ b!" desc = " ++ msg

def leafText : LeafKind → Str
  | .leafError msg => stripMarkers msg
  | .errorString msg => msg
  | .deadline => b!"context deadline exceeded"
  | .errno _ msg .. => msg
  | .opaqueErrno msg .. => msg
  | .pkgFundamental msg _ => msg
  | .unimplemented msg .. => msg
  | .testErr => b!"test error"
  | .grpcStatus c msg _ => statusText c msg
  | .gogoStatus c msg _ => statusText c msg
  | .opaqueLeaf msg .. => msg
  | .user _ msg => msg

/-- `prefix ++ ": " ++ cause` -/
def pfx (p ct : Str) : Str := p ++ colonSp ++ ct

/-- Error() of a wrapper given the Error() text of its cause. -/
def wrapText (k : WrapKind) (ct : Str) : Str :=
  match k with
  | .withPrefix p => if p = [] then ct else pfx (stripMarkers p) ct
  | .withNewMessage m => stripMarkers m
  | .pkgWithMessage m => pfx m ct
  | .pathError op path => pfx (op ++ sp ++ path) ct
  | .linkError op old new => pfx (op ++ sp ++ old ++ sp ++ new) ct
  | .syscallError sc => pfx sc ct
  | .fmtWrapError msg => msg
  | .opaqueWrapper p _ mt _ => if mt = mtFull then p else if p = [] then ct else pfx p ct
  | .user u msg => if u.style = 0 then pfx msg ct else if u.style = 1 then msg else ct
  | _ => ct

def multiText (k : MultiKind) (cts : List Str) : Str :=
  match k with
  | .join => joinWith nlS cts
  | .stdJoin => joinWith nlS cts
  | .fmtWrapErrors msg => msg
  | .opaqueLeafCauses msg .. => msg
  | .user _ msg => msg

mutual
def text : Err → Str
  | .leaf _ k => leafText k
  | .barrier _ m _ => stripMarkers m.smsg
  | .wrap _ k c => wrapText k (text c)
  | .second _ c _ => text c
  | .multi _ k cs => multiText k (textList cs)
def textList : List Err → List Str
  | [] => []
  | e :: r => text e :: textList r
end

theorem textList_eq_map (l : List Err) : textList l = l.map text := by
  induction l with
  | nil => simp [textList]
  | cons a r ih => simp [textList, ih]

/-! ## Unwrapping -/

def unwrapOnce : Err → Option Err
  | .wrap _ _ c => some c
  | .second _ c _ => some c
  | _ => none

def unwrapMulti : Err → List Err
  | .multi _ _ cs => cs
  | _ => []

def unwrapAll : Err → Err
  | .wrap _ _ c => unwrapAll c
  | .second _ c _ => unwrapAll c
  | e => e

/-- The single-cause chain starting at `e` (outermost first). -/
def chain : Err → List Err
  | .wrap id k c => .wrap id k c :: chain c
  | .second id c s => .second id c s :: chain c
  | e => [e]

def Err.id : Err → Ident
  | .leaf id _ => id
  | .barrier id .. => id
  | .wrap id .. => id
  | .second id .. => id
  | .multi id .. => id

mutual
/-- all visible nodes: the node, then its cause / its branches (pre-order) -/
def reach : Err → List Err
  | .leaf id k => [.leaf id k]
  | .barrier id m h => [.barrier id m h]
  | .wrap id k c => .wrap id k c :: reach c
  | .second id c s => .second id c s :: reach c
  | .multi id k cs => .multi id k cs :: reachL cs
def reachL : List Err → List Err
  | [] => []
  | e :: r => reach e ++ reachL r
end

/-! ## Type details (`getTypeDetails`) -/

def Err.ty : Err → TyName
  | .leaf _ k => k.ty
  | .barrier .. => tnBarrier
  | .wrap _ k _ => k.ty
  | .second .. => tnSecondary
  | .multi _ k _ => k.ty

/-- For opaque kinds: the stored details. -/
def Err.opaqueDet : Err → Option Det
  | .leaf _ (.opaqueLeaf _ d _) => some d
  | .wrap _ (.opaqueWrapper _ d _ _) _ => some d
  | .multi _ (.opaqueLeafCauses _ d _) _ => some d
  | _ => none

/-- `ErrorKeyMarker()` (only `withDomain` implements `TypeKeyMarker`). -/
def Err.keyMarker : Err → Str
  | .wrap _ (.withDomain d) _ => d
  | _ => []

def origTypeName (e : Err) : Str :=
  match e.opaqueDet with
  | some d => d.origType
  | none => e.ty.full

def typeMark (P : Proc) (e : Err) : TMark :=
  match e.opaqueDet with
  | some d => d.mark
  | none => ⟨P.family e.ty.full, e.keyMarker⟩

def typeKey (P : Proc) (e : Err) : Str := (typeMark P e).fam

/-! ## Marks and identity -/

structure Mark where
  msg : Str
  tys : List TMark
  deriving DecidableEq, Repr, Inhabited

def getMark (P : Proc) (e : Err) : Mark :=
  match e with
  | .wrap _ (.withMark m t) _ => ⟨m, t⟩
  | _ => ⟨text e, (chain e).map (typeMark P)⟩

/-- `equalMarks` (markers/markers.go, after the length check was added):
    same message, same number of type marks, pairwise equal. -/
def equalTys : List TMark → List TMark → Bool
  | [], [] => true
  | a :: r, b :: s => if a = b then equalTys r s else false
  | _, _ => false

def equalMarks (m1 m2 : Mark) : Bool :=
  if m1.msg ≠ m2.msg then false
  else if m1.tys.length ≠ m2.tys.length then false
  else equalTys m1.tys m2.tys

/-- The documented equivalence. -/
def markEquiv (m1 m2 : Mark) : Bool := m1.msg = m2.msg && m1.tys = m2.tys

/-- Is the Go value a pointer (identity = address) or a comparable value? -/
def Err.isValueKind : Err → Bool
  | .leaf _ .deadline => true
  | .leaf _ (.errno ..) => true
  | .leaf _ .testErr => true
  | _ => false

/-- Go `c == reference` on two error interface values. -/
def goEq (c r : Err) : Bool :=
  match c, r with
  | .leaf _ .deadline, .leaf _ .deadline => true
  -- *errorspb.TestError is a pointer to a zero-size struct: all such pointers are equal
  | .leaf _ .testErr, .leaf _ .testErr => true
  | .leaf _ (.errno n ..), .leaf _ (.errno m ..) => n = m
  | _, _ => !c.isValueKind && !r.isValueKind && c.id = r.id

/-- Reserved identities of the stdlib sentinels (assigned by the harness). -/
def idErrPermission : Ident := [3]
def idErrExist : Ident := [4]
def idErrNotExist : Ident := [5]

/-- `c.Is(reference)` for the modelled types that have an `Is` method. -/
def isMethod (c r : Err) : Bool :=
  match c with
  | .leaf _ (.errno _ _ perm exist notExist _ _) =>
      (!r.isValueKind) && ((r.id = idErrPermission && perm) || (r.id = idErrExist && exist) || (r.id = idErrNotExist && notExist))
  | .leaf _ (.opaqueErrno _ _ _ perm exist notExist _ _) =>
      (!r.isValueKind) && ((r.id = idErrPermission && perm) || (r.id = idErrExist && exist) || (r.id = idErrNotExist && notExist))
  | .leaf _ (.grpcStatus c m nd) =>          -- (*status.Error).Is: proto.Equal of the two statuses
      (match r with
      | .leaf _ (.grpcStatus c' m' nd') => c = c' && m = m' && nd = nd'
      | _ => false)
  | _ => false

/-- second loop of `Is`: compare marks along the single-cause chain. -/
def isPhase2 (P : Proc) (refMark : Mark) : List Err → Bool
  | [] => false
  | c :: rest => equalMarks (getMark P c) refMark || isPhase2 P refMark rest

def selfMatch (c r : Err) : Bool := goEq c r || isMethod c r

mutual
/-- first loop of `Is(e, r)` (identity, Is methods, recursion into branches) -/
def isPhase1 (P : Proc) (r : Err) : Err → Bool
  | .leaf id k => selfMatch (.leaf id k) r
  | .barrier id m h => selfMatch (.barrier id m h) r
  | .wrap id k c => selfMatch (.wrap id k c) r || isPhase1 P r c
  | .second id c s => selfMatch (.second id c s) r || isPhase1 P r c
  | .multi id k cs => selfMatch (.multi id k cs) r || isAnyBranch P r cs
def isAnyBranch (P : Proc) (r : Err) : List Err → Bool
  | [] => false
  | b :: rest =>
    (isPhase1 P r b || isPhase2 P (getMark P r) (chain b)) || isAnyBranch P r rest
end

/-- `markers.Is(e, r)` for non-nil `e`, `r`. -/
def isB (P : Proc) (e r : Err) : Bool :=
  isPhase1 P r e || isPhase2 P (getMark P r) (chain e)

/-- `Is` with a possible panic outcome (`none`); the repaired code has no panic point left. -/
def is (P : Proc) (e r : Err) : Option Bool := some (isB P e r)

/-- `Is` on possibly-nil errors. -/
def isOpt (P : Proc) (e r : Option Err) : Option Bool :=
  match e, r with
  | none, none => some true
  | some _, none => some false
  | none, some _ => some false
  | some e, some r => is P e r

/-! ### IsAny (transliterated: a different traversal order, same answer — see Props/C08) -/

def dropNone : List (Option Err) → List Err
  | [] => []
  | none :: r => dropNone r
  | some e :: r => e :: dropNone r

def anySelf (c : Err) : List Err → Bool
  | [] => false
  | r :: rs => selfMatch c r || anySelf c rs

def anyMark (P : Proc) (m : Mark) : List Mark → Bool
  | [] => false
  | rm :: rs => equalMarks m rm || anyMark P m rs

def isAnyPhase2 (P : Proc) (refMarks : List Mark) : List Err → Bool
  | [] => false
  | c :: rest => anyMark P (getMark P c) refMarks || isAnyPhase2 P refMarks rest

mutual
def isAnyPhase1 (P : Proc) (rs : List Err) : Err → Bool
  | .leaf id k => anySelf (.leaf id k) rs
  | .barrier id m h => anySelf (.barrier id m h) rs
  | .wrap id k c => anySelf (.wrap id k c) rs || isAnyPhase1 P rs c
  | .second id c s => anySelf (.second id c s) rs || isAnyPhase1 P rs c
  | .multi id k cs => anySelf (.multi id k cs) rs || isAnyBranches P rs cs
def isAnyBranches (P : Proc) (rs : List Err) : List Err → Bool
  | [] => false
  | b :: rest =>
    (isAnyPhase1 P rs b || isAnyPhase2 P (rs.map (getMark P)) (chain b)) || isAnyBranches P rs rest
end

/-- `markers.IsAny(e, refs...)` for non-nil `e` (nil references are skipped). -/
def isAnyB (P : Proc) (e : Err) (refs : List (Option Err)) : Bool :=
  let rs := dropNone refs
  isAnyPhase1 P rs e || isAnyPhase2 P (rs.map (getMark P)) (chain e)

end ErrModel
