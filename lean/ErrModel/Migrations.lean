import ErrModel.Sem
/-
  errbase/migrations.go : the type-migration registry (`backwardRegistry`,
  newKey ↦ prevKey) and `RegisterTypeMigration`, transliterated; `none` = the
  "migration already registered" panic.
-/
namespace ErrModel

abbrev Registry := List (Str × Str)

/-- `backwardRegistry[k]` or `k` itself: the family name under which type `k` is encoded -/
def resolveKey (reg : Registry) (k : Str) : Str :=
  match reg.lookup k with
  | some p => p
  | none => k

/-- RegisterTypeMigration(prev, new), pinned algorithm:
      backwardRegistry[new] = prev; every entry whose value is `new` is forwarded to prev. -/
def registerPinned (reg : Registry) (prev new : Str) : Option Registry :=
  if (reg.lookup new).isSome then none
  else some ((new, prev) :: reg.map (fun e => if e.2 = new then (e.1, prev) else e))

/-- RegisterTypeMigration(prev, new) as repaired: `prev` is first resolved through the
    registry, so that the table stays flat (every value is an original name) whatever
    the registration order. -/
def register (reg : Registry) (prev new : Str) : Option Registry :=
  if (reg.lookup new).isSome then none
  else
    let root := resolveKey reg prev
    some ((new, root) :: reg.map (fun e => if e.2 = new then (e.1, root) else e))

/-- register a list of (prev, new) declarations in order -/
def registerAll (f : Registry → Str → Str → Option Registry) : Registry → List (Str × Str) → Option Registry
  | reg, [] => some reg
  | reg, (p, n) :: r => (f reg p n).bind (fun reg' => registerAll f reg' r)

theorem Proc.family_eq_resolveKey (P : Proc) (k : Str) : P.family k = resolveKey P.reg k := rfl

end ErrModel
