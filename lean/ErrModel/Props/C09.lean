import ErrModel.Proofs.EngineBasic
import ErrModel.Proofs.Regular
import ErrModel.Proofs.TextEq
/-
  C09 — Formatting verbs are mutually consistent.

  Model: `formatVerb` (formatErrorInternal + finishDisplay) on top of the entry engine
  (`ents`, `singleLine`, `fullOutput`).  `fmt`'s own treatment of a string under a
  directive (quoting, hex, padding, truncation) is a parameter of the model: `VOut.viaFmt s`
  says "what fmt prints for the string s under the same directive".
-/
namespace ErrModel

/-! ### verb dispatch -/

def Spec.plainSV (sp : Spec) : Prop :=
  (sp.verb = vV ∨ sp.verb = vS) ∧ sp.plus = false ∧ sp.sharp = false

/-- `%v` and `%s` (any of the flags '-', ' ', '0', no width or precision) copy the one-line
    rendering as it is -/
theorem C09_v_s_direct (sp : Spec) (e : Err) (h : sp.plainSV) (hw : sp.width = none ∨ sp.width = some 0) (hp : sp.prec = none) :
    formatVerb false sp e = .direct (render false false e) := by
  obtain ⟨hv, hpl, hsh⟩ := h
  rcases hv with hv | hv <;> rcases hw with hw | hw <;>
    simp [formatVerb, finishDisplay, hv, hpl, hsh, hw, hp, vV, vS, vQ, vx, vX]

/-- with a width or a precision the same one-line rendering is handed to fmt under the same
    directive: the result is what fmt prints for that string -/
theorem C09_v_s_width (sp : Spec) (e : Err) (h : sp.plainSV) (hw : (∃ w, sp.width = some w ∧ w > 0) ∨ sp.prec.isSome) :
    formatVerb false sp e = .viaFmt (render false false e) := by
  obtain ⟨hv, hpl, hsh⟩ := h
  rcases hv with hv | hv <;> rcases hw with ⟨w, hw, hw0⟩ | hw <;>
    simp_all [formatVerb, finishDisplay, vV, vS, vQ, vx, vX]

/-- `%q`, `%x`, `%X` with any flags, width and precision: what fmt prints for the one-line
    rendering under the same directive -/
theorem C09_q_x_X (sp : Spec) (e : Err) (hv : sp.verb = vQ ∨ sp.verb = vx ∨ sp.verb = vX) :
    formatVerb false sp e = .viaFmt (render false false e) := by
  rcases hv with hv | hv | hv <;> simp [formatVerb, finishDisplay, hv, vV, vS, vQ, vx, vX]

/-- `%+v` (without '#'): the verbose rendering, through fmt only when a width or precision is given -/
theorem C09_plus_v (sp : Spec) (e : Err) (hv : sp.verb = vV) (hpl : sp.plus = true) (hsh : sp.sharp = false) :
    formatVerb false sp e = .direct (render false true e) ∨ formatVerb false sp e = .viaFmt (render false true e) := by
  simp only [formatVerb, finishDisplay, hv, hpl, hsh]
  simp
  by_cases hp : sp.prec = none
  · split <;> simp [hp]
  · split <;> simp [hp]

/-- `%#v`: the Go-syntax dump -/
theorem C09_sharp_v (sp : Spec) (e : Err) (hv : sp.verb = vV) (hsh : sp.sharp = true) :
    formatVerb false sp e = .goSyntax := by
  simp [formatVerb, hv, hsh]

/-- every other verb: fmt's `%!verb(type)` notation -/
theorem C09_other_verbs (red : Bool) (sp : Spec) (e : Err)
    (h : sp.verb ≠ vV ∧ sp.verb ≠ vS ∧ sp.verb ≠ vQ ∧ sp.verb ≠ vx ∧ sp.verb ≠ vX) :
    formatVerb red sp e = .bad (b!"%!" ++ [sp.verb] ++ b!"(" ++ e.ty.tstr ++ b!")") := by
  obtain ⟨h1, h2, h3, h4, h5⟩ := h
  simp [formatVerb, h1, h2, h3, h4, h5, badVerb]

/-! ### `%v` prints exactly Error()

  `errText` is the model of the `Error()` method (the `error` stream of the correspondence
  check compares it with the real method on every case).  `RegE` (Proofs/Regular.lean) is the
  domain: every string a layer shows on one line is valid UTF-8 without marker runes, starts and ends with a non-newline
  byte, has no two newlines in a row, and stored redactable strings are well-formed.
  Outside that domain the two differ by design (the one-line form stops at the first
  newline of a layer; `Error()` does not) and the check decides the rest of the matrix by
  the oracle. -/

/-- for every error over regular text, whatever the depth of the chain, the one-line plain
    rendering is byte for byte the Error() text -/
theorem C09_v_is_error (e : Err) (h : RegE e) : render false false e = errText e :=
  render_v_eq_errText e h

/-- `%v` and `%s` print exactly Error() -/
theorem C09_v_s_print_error (sp : Spec) (e : Err) (h : sp.plainSV) (hw : sp.width = none ∨ sp.width = some 0)
    (hp : sp.prec = none) (hr : RegE e) : formatVerb false sp e = .direct (errText e) := by
  rw [C09_v_s_direct sp e h hw hp, C09_v_is_error e hr]

/-- `%v` and `%s` print the same thing (no regularity needed) -/
theorem C09_v_eq_s (sp sp' : Spec) (e : Err) (h : sp.plainSV) (h' : sp'.plainSV)
    (hw : sp.width = none ∨ sp.width = some 0) (hw' : sp'.width = none ∨ sp'.width = some 0)
    (hp : sp.prec = none) (hp' : sp'.prec = none) : formatVerb false sp e = formatVerb false sp' e := by
  rw [C09_v_s_direct sp e h hw hp, C09_v_s_direct sp' e h' hw' hp']

/-- the hypotheses are met by a concrete three-layer chain whose text has an inner newline, a
    non-ASCII rune ("böom": C3 B6) and a hidden (hint) layer -/
def exLeaf : Str := [98, 0xC3, 0xB6, 111, 109, 10, 108, 105, 110, 101, 50]   -- "böom\nline2"
def exE : Err := .wrap [] (.withPrefix (b!"ctx")) (.wrap [] (.withHint (b!"h\n\n")) (.leaf [] (.errorString exLeaf)))
theorem exE_text : errText exE = b!"ctx: " ++ exLeaf := by
  simp [exE, errText, wrapText, leafText]
  decide
theorem exLeaf_clean : Clean exLeaf := by
  have h1 : Clean ([0xC3, 0xB6] ++ [111, 109, 10, 108, 105, 110, 101, 50]) :=
    Clean.cons [0xC3, 0xB6] _ ⟨by simp, by decide⟩ (by decide) (by decide)
      (Clean_of_lt _ (by intro c hc; simp at hc; rcases hc with rfl | rfl | rfl | rfl | rfl | rfl | rfl | rfl <;> decide))
  have h2 : Clean ([98] ++ ([0xC3, 0xB6] ++ [111, 109, 10, 108, 105, 110, 101, 50])) :=
    Clean.cons [98] _ (IsRune_ascii 98 (by decide)) (by decide) (by decide) h1
  exact h2
theorem ctx_clean : Clean (b!"ctx") :=
  Clean_of_lt _ (by intro c hc; have : c = 99 ∨ c = 116 ∨ c = 120 := by simpa using hc
                    rcases this with rfl | rfl | rfl <;> decide)
theorem exE_reg : RegE exE := by
  simp only [exE, RegE, LeafKind.regular, WrapKind.regular, leafText]
  refine ⟨⟨⟨⟨exLeaf_clean, by decide, by simp [exLeaf, NlOKb, nl], by decide⟩, trivial⟩, trivial⟩, Or.inr ⟨?_, ?_, ⟨?_, by decide, ?_, by decide⟩⟩⟩
  · have : lexL (b!"ctx") = bytesT (b!"ctx") := by decide
    rw [this]; exact GoodT_bytesT _ ctx_clean
  · have : lexL (b!"ctx") = [.b 99, .b 116, .b 120] := by decide
    rw [this]; simp [LW, lw]
  · have : stripMarkers (b!"ctx") = b!"ctx" := by decide
    rw [this]; exact ctx_clean
  · have : stripMarkers (b!"ctx") = b!"ctx" := by decide
    rw [this]; simp [NlOKb, nl]
example : render false false exE = b!"ctx: " ++ exLeaf := by rw [C09_v_is_error _ exE_reg, exE_text]

/-- the witness also meets the hypothesis of `C01_engine_text_partial` (the two Error() functions agree on it) -/
theorem exE_EngOK : EngOK exE := ⟨exE_reg.1, exE_reg.1.1, trivial⟩

/-! ### the verbose form: one numbered entry per visible layer, then the types line -/

/-- the visible layers in the order `%+v` numbers them: outermost first -/
def displayLayers (e : Err) : List Err := (postLayers e).reverse

theorem C09_entry_per_layer (red detail : Bool) (e : Err) :
    ((ents red detail e true false 0 []).1.reverse.map (·.tstr)) = (displayLayers e).map tyS := by
  rw [displayLayers, List.map_reverse, List.map_reverse, ents_tstr red detail e true false 0 []]

theorem C09_entry_count (red detail : Bool) (e : Err) :
    (ents red detail e true false 0 []).1.length = (displayLayers e).length := by
  have := congrArg List.length (C09_entry_per_layer red detail e)
  simpa using this

theorem postLayers_ne_nil : (e : Err) → postLayers e ≠ []
  | .leaf .. => by simp [postLayers]
  | .barrier .. => by simp [postLayers]
  | .wrap .. => by simp [postLayers]
  | .second .. => by simp [postLayers]
  | .multi .. => by simp [postLayers]

/-- `%+v` = the one-line rendering, then entry (1) for the outermost layer, one `Wraps: (n)` entry for
    each further layer in display order, then the `Error types` line naming the Go type of
    every layer in the same order (as tokens; `render` is `unlex` of this) -/
theorem C09_verbose_structure (red : Bool) (e : Err) :
    ∃ top rest,
      (ents red true e true false 0 []).1.reverse = top :: rest ∧
      renderT red true e =
        singleLine red (ents red true e true false 0 []).1 ++ bytesT (nl :: b!"(1)") ++ printEntry red top ++
        (rest.zipIdx.flatMap (fun (x : Entry × Nat) =>
          bytesT ([nl] ++ indentOf x.1.depth ++ b!"Wraps: (" ++ natStr (x.2 + 2) ++ b!")") ++ printEntry red x.1)) ++
        bytesT (typesLineOf ((displayLayers e).map tyS)) := by
  have hlen := C09_entry_count red true e
  have hne : (ents red true e true false 0 []).1.reverse ≠ [] := by
    intro h
    have : (displayLayers e).length = 0 := by rw [← hlen]; simpa using congrArg List.length h
    have h2 : postLayers e = [] := by simpa [displayLayers] using this
    exact postLayers_ne_nil e h2
  match hr : (ents red true e true false 0 []).1.reverse with
  | [] => exact absurd hr hne
  | top :: rest =>
    refine ⟨top, rest, rfl, ?_⟩
    have ht := C09_entry_per_layer red true e
    rw [hr] at ht
    simp only [renderT, finish, fullOutput, hr, if_true, ← ht]

/-- the `Error types:` line lists `(n) type` for every layer, numbered from 1 -/
theorem typesLineOf_shape (l : List Str) :
    typesLineOf l = nl :: b!"Error types:" ++ (l.zipIdx.flatMap (fun (x : Str × Nat) => b!" (" ++ natStr (x.2 + 1) ++ b!") " ++ x.1)) := rfl

end ErrModel
