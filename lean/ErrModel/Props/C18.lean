import ErrModel.Generated.EffectsFacts
import ErrModel.Obs
/-
  C18 — Read-only use of a shared error is concurrency-safe and deterministic.

  Three parts.
  (1) A generic theorem about concurrent readers: threads whose steps read a shared value
      and write only their own local state compute, under EVERY schedule, exactly what each
      computes alone, and the shared value is never changed (`C18_readers`).  A writer
      breaks it (`C18_writer_counterexample`: the hypothesis is not vacuous).
  (2) The obligations that make the library's observers readers, over facts REGENERATED from
      /repo's source on every run (Generated/EffectsFacts.lean): no method of an error type
      writes through its receiver, error types carry no sync / atomic state, and package-level
      variables are written only by the registration functions (`C18_no_receiver_mutation`,
      `C18_global_writes_are_registrations`, `C18_no_sync_state`).
  (3) In the model every observer is a function of the (immutable) error value:
      `C18_observers` instantiates (1) with the observers of the other properties.
  What a theorem cannot exhibit — the Go memory model, writes through aliases or inside
  dependencies — is covered by the race-detector leg of the check (partial; see DESIGN).
-/
namespace ErrModel

namespace Readers

/-- `n` threads; thread `i` has a local state and a step function that may read the shared
    value `s` but returns only a new local state -/
structure Cfg (S L : Type) (n : Nat) where
  shared : S
  locals : Fin n → L

variable {S L : Type} {n : Nat}

def stepThread (prog : Fin n → S → L → L) (c : Cfg S L n) (i : Fin n) : Cfg S L n :=
  { c with locals := fun j => if j = i then prog i c.shared (c.locals i) else c.locals j }

/-- run a schedule: the list of the thread that moves at each instant -/
def run (prog : Fin n → S → L → L) (c : Cfg S L n) (sch : List (Fin n)) : Cfg S L n :=
  sch.foldl (stepThread prog) c

/-- `k` steps of one thread alone -/
def solo (f : L → L) : Nat → L → L
  | 0, l => l
  | k + 1, l => solo f k (f l)

theorem run_shared (prog : Fin n → S → L → L) (c : Cfg S L n) (sch : List (Fin n)) :
    (run prog c sch).shared = c.shared := by
  induction sch generalizing c with
  | nil => rfl
  | cons i r ih => simp only [run, List.foldl_cons] at ih ⊢; rw [ih]; rfl

/-- under any schedule, every thread ends where it would end running alone for as many
    steps as the schedule gave it -/
theorem run_local (prog : Fin n → S → L → L) (c : Cfg S L n) (sch : List (Fin n)) (i : Fin n) :
    (run prog c sch).locals i = solo (prog i c.shared) (sch.count i) (c.locals i) := by
  induction sch generalizing c with
  | nil => simp [run, solo]
  | cons j r ih =>
    have h := ih (stepThread prog c j)
    simp only [run, List.foldl_cons] at h ⊢
    rw [h]
    by_cases hji : j = i
    · subst hji
      simp [stepThread, List.count_cons_self, solo]
    · have : (j == i) = false := by simpa using hji
      have hij : ¬ i = j := fun h => hji h.symm
      simp [stepThread, List.count_cons, this, hij]

end Readers

open Readers in
/-- C18, generic form: concurrent readers are deterministic and leave the shared value alone -/
theorem C18_readers {S L : Type} {n : Nat} (prog : Fin n → S → L → L) (c : Cfg S L n) (sch : List (Fin n)) :
    (run prog c sch).shared = c.shared ∧
    ∀ i, (run prog c sch).locals i = solo (prog i c.shared) (sch.count i) (c.locals i) :=
  ⟨run_shared prog c sch, run_local prog c sch⟩

/-- with a writer the conclusion fails: two threads incrementing a shared counter they also
    copy see schedule-dependent values (so the readers-only premise carries the theorem) -/
theorem C18_writer_counterexample :
    let stepW : Nat × (Fin 2 → Nat) → Fin 2 → Nat × (Fin 2 → Nat) :=
      fun c i => (c.1 + 1, fun j => if j = i then c.1 else c.2 j)
    ([0, 1].foldl stepW (0, fun _ => 0)).2 1 ≠ ([1, 0].foldl stepW (0, fun _ => 0)).2 1 := by
  decide

/-! ### the observers of the model are functions of the error value -/

/-- the observer operations of the other properties, as functions of the shared error -/
def observerOps (trim : List Str) (specs : List Str) (refs : List (Option Err)) : List (Err → String) :=
  [pFmt, pReport trim, pVerbs specs, fun e => pEnc (encode Full vfStub e), fun e => isVec (some e) refs,
   pAcc, pTree, fun e => pCompat e refs, fun e => pOpt pTree (hops 1 e)]

open Readers in
/-- every observer, run concurrently with any others under any schedule on the same error,
    returns what it returns alone -/
theorem C18_observers (e : Err) (ops : List (Err → String)) (sch : List (Fin ops.length)) (i : Fin ops.length)
    (hi : sch.count i ≥ 1) :
    (run (fun j (s : Err) (_ : String) => ops[j] s) ⟨e, fun _ => ""⟩ sch).locals i = ops[i] e ∧
    (run (fun j (s : Err) (_ : String) => ops[j] s) ⟨e, fun _ => ""⟩ sch).shared = e := by
  refine ⟨?_, run_shared _ _ _⟩
  rw [run_local]
  obtain ⟨k, hk⟩ : ∃ k, sch.count i = k + 1 := ⟨sch.count i - 1, by omega⟩
  rw [hk]
  have : ∀ (k : Nat) (l : String), solo (fun (_ : String) => ops[i] e) (k + 1) l = ops[i] e := by
    intro k
    induction k with
    | zero => intro l; rfl
    | succ k ih => intro l; exact ih ((fun (_ : String) => ops[i] e) l)
  exact this k _

/-! ### obligations over the regenerated facts of /repo's source -/

open Effects

/-- no method of an error type assigns through its receiver: error structs are never
    mutated after construction -/
theorem C18_no_receiver_mutation : recvMutations = [] := by decide

/-- error types carry no mutex / once / atomic state (nothing is cached lazily) -/
theorem C18_no_sync_state : syncFields = [] := by decide

/-- the functions allowed to write package-level state: the registration API, meant for init time -/
def registrationFns : List String := [
  "RegisterLeafDecoder", "RegisterWrapperDecoder", "RegisterMultiCauseDecoder", "RegisterLeafEncoder",
  "RegisterWrapperEncoderWithMessageType", "RegisterMultiCauseEncoder", "RegisterSpecialCasePrinter",
  "RegisterTypeMigration", "TestingWithEmptyMigrationRegistry", "SetWarningFn"]

/-- package-level variables are written only by registration functions: no observer
    operation (formatting, encoding, Is/As, safe details, report) writes shared state -/
theorem C18_global_writes_are_registrations :
    globalWrites.all (fun s => registrationFns.contains s.2.1) = true := by decide

/-- the scan is not vacuous: it saw the library's error types and functions -/
theorem C18_scan_not_vacuous :
    errorTypes.length ≥ 20 ∧ functionsScanned ≥ 300 ∧
    errorTypes.contains "contexttags.withContext" = true ∧ errorTypes.contains "barriers.barrierErr" = true ∧
    errorTypes.contains "errbase.opaqueWrapper" = true ∧ errorTypes.contains "withstack.withStack" = true := by decide

end ErrModel
