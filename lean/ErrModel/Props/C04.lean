import ErrModel.Proofs.Subset
/-
  C04 — Unknown error types pass through a process losslessly.

  Proved (a) for an intermediary that knows NONE of the types (every node becomes an opaque
  carrier) and ARBITRARY wire messages, and (b) for an intermediary that knows ANY SUBSET of
  the type keys — layer by layer, any mixture of rebuilt and opaque layers — and every
  message a knowing process sends for a stable, wire-faithful error (C04_subset*,
  Proofs/Subset.lean).  Stated for the repaired tree (/repo fixes e44dfc0 withPrefix, 3639298
  withNewMessage, 7cf20c4 join, 5e368e8 barrier details).  Two recorded findings remain
  (known_findings.json): a barrier puts its *redactable* message on the wire, and gRPC
  status errors put only their description there — an unknowing process shows those.
-/
namespace ErrModel

/-- a process that has none of the library's or the user's types registered -/
def KnowsNothing (Q : Proc) : Prop := ∀ k, Q.knows k = false

/-- An opaque leaf / wrapper / multi-cause node re-encodes to exactly the message,
    details, payload and message type it was decoded from, at ANY process. -/
theorem C04_opaque_leaf_exact (P : Proc) (vf : Err → Str) (id : Ident) (msg : Str) (d : Det) (hid : List Enc) :
    encode P vf (.leaf id (.opaqueLeaf msg d hid)) = .leaf msg d hid [] := by
  simp [encode]

theorem C04_opaque_wrapper_exact (P : Proc) (vf : Err → Str) (id : Ident) (p : Str) (d : Det) (mt : Nat)
    (hid : List Enc) (c : Err) :
    encode P vf (.wrap id (.opaqueWrapper p d mt hid) c) = .wrap p d mt hid (encode P vf c) := by
  simp [encode]

theorem C04_opaque_multi_exact (P : Proc) (vf : Err → Str) (id : Ident) (msg : Str) (d : Det) (hid : List Enc)
    (cs : List Err) :
    encode P vf (.multi id (.opaqueLeafCauses msg d hid) cs) = .leaf msg d hid (encodeList P vf cs) := by
  simp [encode]

mutual
/-- Re-encoding reproduces exactly the message received — for EVERY wire message (any
    type names, payloads, message types, nesting), at a process that knows none of the
    types; the type names, marks and safe details of every layer are part of it. -/
theorem C04_exact (Q : Proc) (hq : KnowsNothing Q) (vf : Err → Str) :
    (w : Enc) → (path : List Nat) → ∃ e, decode Q path w = some e ∧ encode Q vf e = w
  | .leaf msg d hid causes, path => by
    obtain ⟨cs, hcs, hcs2⟩ := C04_exact_list Q hq vf causes path 2
    cases hc : cs with
    | nil =>
      have hcauses : causes = [] := by
        subst hc; cases causes with
        | nil => rfl
        | cons a r => simp [encodeList] at hcs2
      subst hcauses
      exact ⟨.leaf path (.opaqueLeaf msg d hid), by simp [decode, buildLeaf, hq d.mark.fam, decodeList], by simp [encode]⟩
    | cons a r =>
      subst hc
      exact ⟨.multi path (.opaqueLeafCauses msg d hid) (a :: r),
        by simp [decode, buildLeaf, hq d.mark.fam, hcs], by simp [encode, hcs2]⟩
  | .wrap msg d mt hid cause, path => by
    obtain ⟨c, hc, hc2⟩ := C04_exact Q hq vf cause (0 :: path)
    exact ⟨.wrap path (.opaqueWrapper msg d mt hid) c, by simp [decode, hc, buildWrap, hq d.mark.fam], by simp [encode, hc2]⟩
theorem C04_exact_list (Q : Proc) (hq : KnowsNothing Q) (vf : Err → Str) :
    (l : List Enc) → (path : List Nat) → (i : Nat) →
      ∃ es, decodeList Q path i l = some es ∧ encodeList Q vf es = l
  | [], _, _ => ⟨[], rfl, rfl⟩
  | w :: r, path, i => by
    obtain ⟨e, he, he2⟩ := C04_exact Q hq vf w (i :: path)
    obtain ⟨es, hes, hes2⟩ := C04_exact_list Q hq vf r path (i + 1)
    exact ⟨e :: es, by simp [decodeList, he, hes], by simp [encodeList, he2, hes2]⟩
end

/-- Hence a later process reconstructs exactly what it would have reconstructed had it
    received the message directly — after any number of unknowing intermediaries. -/
theorem C04_later (Q R : Proc) (hq : KnowsNothing Q) (vf : Err → Str) (w : Enc) (p1 p2 : List Nat) :
    ∃ e, decode Q p1 w = some e ∧ decode R p2 (encode Q vf e) = decode R p2 w := by
  obtain ⟨e, he, he2⟩ := C04_exact Q hq vf w p1
  exact ⟨e, he, by rw [he2]⟩

mutual
theorem C04_text_unknowing (Q : Proc) (hq : KnowsNothing Q) :
    (w : Enc) → (path : List Nat) → ∃ e, decode Q path w = some e ∧ text e = wireText w
  | .leaf msg d hid causes, path => by
    obtain ⟨cs, hcs, _⟩ := C04_exact_list Q hq (fun _ => []) causes path 2
    cases hc : cs with
    | nil => exact ⟨.leaf path (.opaqueLeaf msg d hid), by simp [decode, buildLeaf, hq d.mark.fam, hcs, hc], by simp [text, leafText, wireText]⟩
    | cons a r => exact ⟨.multi path (.opaqueLeafCauses msg d hid) (a :: r), by simp [decode, buildLeaf, hq d.mark.fam, hcs, hc], by simp [text, multiText, wireText]⟩
  | .wrap msg d mt hid cause, path => by
    obtain ⟨c, hc, hc2⟩ := C04_text_unknowing Q hq cause (0 :: path)
    exact ⟨.wrap path (.opaqueWrapper msg d mt hid) c, by simp [decode, hc, buildWrap, hq d.mark.fam],
      by simp [text, wrapText_opaque, wireText, hc2]⟩
end

/-- What the origin puts on the wire for the repaired wrappers is what an unknowing process
    needs to show the origin's text: prefix only for withPrefix, a full message for
    withNewMessage, the joined text for joinError. -/
theorem C04_wire_withPrefix (vf : Err → Str) (id : Ident) (p : RStr) (c : Err) (hp : p ≠ []) (hs : stripMarkers p ≠ []) :
    wireText (encode Full vf (.wrap id (.withPrefix p) c)) = pfx (stripMarkers p) (wireText (encode Full vf c)) ∧
    text (.wrap id (.withPrefix p) c) = pfx (stripMarkers p) (text c) := by
  simp [encode, typeKey, Full_knows, wireText, opaqueText, mtPrefix, mtFull, hs, text, wrapText, hp]

theorem C04_wire_withNewMessage (vf : Err → Str) (id : Ident) (m : RStr) (c : Err) :
    wireText (encode Full vf (.wrap id (.withNewMessage m) c)) = text (.wrap id (.withNewMessage m) c) := by
  simp [encode, typeKey, Full_knows, wireText, opaqueText, mtFull, text, wrapText]

theorem C04_wire_join (vf : Err → Str) (id : Ident) (cs : List Err) :
    wireText (encode Full vf (.multi id .join cs)) = text (.multi id .join cs) := by
  simp [encode, wireText]

/-- the recorded finding, as a theorem about the pinned wire format: a barrier whose message
    has an unsafe part is shown WITH the redaction markers by a process that does not know
    the barrier type -/
theorem C04_barrier_counterexample :
    let e : Err := .barrier [1] ⟨b!"a ‹b›", none⟩ (.leaf [2] (.errorString (b!"x")))
    text e = b!"a b" ∧ wireText (encode Full (fun _ => []) e) = b!"a ‹b›" := by decide


/-! ## Any subset of the types -/

/-- An error sent by a knowing process and received by a process that has ANY subset `S`
    of the type keys registered (each layer rebuilt or carried opaquely, in any mixture):
    decoding succeeds, the Error() text is the origin's, and re-encoding reproduces exactly
    the message received.  `stable`: locally constructible shapes; `faithful`: no layer of the
    two recorded findings (a barrier message with markers, a gRPC status leaf) and no empty
    prefix that prints its separator. -/
theorem C04_subset (S : Str → Bool) (vf : Err → Str) (e : Err) (path : List Nat)
    (h : stable e = true) (hf : faithful e = true) :
    ∃ e', decode (Sub S) path (encode Full vf e) = some e' ∧
      encode (Sub S) vf e' = encode Full vf e ∧ text e' = text e :=
  hopQ_ok S vf e path h hf

/-- … and keeps the origin's cause-tree shape (branch count and order), and at every layer the
    origin's type name and mark (`names`: read off the wire by `wireNames_encode`, which holds of
    every process and every error) -/
theorem C04_subset_names (S : Str → Bool) (vf : Err → Str) (e : Err) (path : List Nat)
    (h : stable e = true) (hf : faithful e = true) :
    ∃ e', decode (Sub S) path (encode Full vf e) = some e' ∧ names Full e' = names Full e :=
  hopQ_names S vf e path h hf

/-- a chain of intermediaries, each knowing its own subset of the types: each decodes the
    message and re-encodes what it decoded -/
def relay (vf : Err → Str) : List (Str → Bool) → Enc → Option Enc
  | [], w => some w
  | S :: r, w => (decode (Sub S) [0] w).bind (fun e => relay vf r (encode (Sub S) vf e))

/-- Through ANY number of intermediaries knowing ANY subsets, the message that leaves the
    last one is the message the origin sent … -/
theorem C04_relay (vf : Err → Str) (e : Err) (h : stable e = true) (hf : faithful e = true) :
    ∀ Ss : List (Str → Bool), relay vf Ss (encode Full vf e) = some (encode Full vf e)
  | [] => rfl
  | S :: r => by
    obtain ⟨e', h1, h2, _⟩ := hopQ_ok S vf e [0] h hf
    simp [relay, h1, h2, C04_relay vf e h hf r]

/-- … so a later process reconstructs exactly the error it would have reconstructed had it
    received the message directly: same decoded value, hence same text, identity (marks),
    annotations and rendering (everything C01, C02, C11 and C13 prove for a direct hop). -/
theorem C04_subset_later (R : Proc) (vf : Err → Str) (e : Err) (h : stable e = true) (hf : faithful e = true)
    (Ss : List (Str → Bool)) (p : List Nat) :
    (relay vf Ss (encode Full vf e)).bind (decode R p) = decode R p (encode Full vf e) := by
  simp [C04_relay vf e h hf Ss]

/-- and the text every intermediary shows is the origin's -/
theorem C04_subset_text_at_each (vf : Err → Str) (e : Err) (h : stable e = true) (hf : faithful e = true)
    (Ss : List (Str → Bool)) (S : Str → Bool) :
    ∃ e', (relay vf Ss (encode Full vf e)).bind (decode (Sub S) [0]) = some e' ∧ text e' = text e := by
  obtain ⟨e', h1, _, h3⟩ := hopQ_ok S vf e [0] h hf
  exact ⟨e', by simp [C04_relay vf e h hf Ss, h1], h3⟩

/-- non-vacuity: a prefix wrapper over a hint over a join of a leaf and a handled error, received
    by a process that knows the prefix and join types but none of the others -/
def exSub : Err :=
  .wrap [1] (.withPrefix (b!"ctx")) (.wrap [2] (.withHint (b!"h"))
    (.multi [3] .join [.leaf [4] (.errorString (b!"a")), .barrier [5] ⟨b!"gone", none⟩ (.leaf [6] (.errorString (b!"x")))]))
def exS : Str → Bool := fun k => k = k_withPrefix || k = k_join
theorem exSub_hyps : stable exSub = true ∧ faithful exSub = true := by decide
theorem exSub_mixed :
    (decode (Sub exS) [0] (encode Full (fun _ => []) exSub)).map (fun e => (text e, (chain e).map (fun l => origTypeName l == (typeMark Full l).fam)))
      = some (b!"ctx: a\ngone", [true, true, true]) := by decide

/-- why `faithful` is needed for exact re-encoding too: a process that knows the join type but
    not the barrier type re-sends the join with the markers the barrier's wire message showed it
    (consequence of recorded finding D7) -/
theorem C04_join_over_unknown_barrier_counterexample :
    let e : Err := .multi [1] .join [.barrier [2] ⟨b!"a ‹b›", none⟩ (.leaf [3] (.errorString (b!"x")))]
    let S : Str → Bool := fun k => k = k_join
    stable e = true ∧ faithful e = false ∧
    (decode (Sub S) [0] (encode Full (fun _ => []) e)).map (fun e' => decide (wireText (encode (Sub S) (fun _ => []) e') = wireText (encode Full (fun _ => []) e))) = some false := by
  decide

end ErrModel
