import ErrModel.Transport
/-
  C05 — Decoding is total: no panic, always an error.
  Stated for the repaired tree (/repo fixes 1604c49 barriers, 846f5b2 exthttp/extgrpc,
  c4d044c markers, 032c57f contexttags).  `decode` is the transliteration of
  DecodeError with `none` as the panic outcome (an unchecked type assertion, an
  unguarded index); every `Enc` is structurally complete by construction.
-/
namespace ErrModel

theorem buildLeaf_some (P : Proc) (path : List Nat) (msg : Str) (d : Det) (hid : List Enc)
    (hd : Option Err) (cs : List Err) (hh : hid ≠ [] → hd.isSome = true) :
    (buildLeaf P path msg d hid hd (some cs)).isSome = true := by
  cases hid with
  | nil =>
    unfold buildLeaf
    cases cs <;> (simp only []; repeat' split) <;> simp_all
  | cons a r =>
    obtain ⟨m, rfl⟩ := Option.isSome_iff_exists.mp (hh (by simp))
    unfold buildLeaf
    cases cs <;> (simp only []; repeat' split) <;> simp_all

theorem buildWrap_some (P : Proc) (path : List Nat) (msg : Str) (d : Det) (mt : Nat) (hid : List Enc)
    (hd : Option Err) (c : Err) (hh : hid ≠ [] → hd.isSome = true) :
    (buildWrap P path msg d mt hid hd c).isSome = true := by
  cases hid with
  | nil =>
    unfold buildWrap
    (simp only []; repeat' split) <;> simp_all
  | cons a r =>
    obtain ⟨m, rfl⟩ := Option.isSome_iff_exists.mp (hh (by simp))
    unfold buildWrap
    (simp only []; repeat' split) <;> simp_all

mutual
/-- DecodeError never panics, whatever the type names, messages, reportable strings,
    message type and payload; it always returns an error. -/
theorem C05_total (P : Proc) : (w : Enc) → (path : List Nat) → (decode P path w).isSome = true
  | .leaf msg d hid causes, path => by
    obtain ⟨cs, hcs⟩ := Option.isSome_iff_exists.mp (C05_total_list P causes path 2)
    simp only [decode, hcs]
    exact buildLeaf_some P path msg d hid _ cs (fun h => C05_total_hid P hid path h)
  | .wrap msg d mt hid cause, path => by
    obtain ⟨c, hc⟩ := Option.isSome_iff_exists.mp (C05_total P cause (0 :: path))
    simp only [decode, hc]
    exact buildWrap_some P path msg d mt hid _ c (fun h => C05_total_hid P hid path h)
theorem C05_total_hid (P : Proc) : (hid : List Enc) → (path : List Nat) → hid ≠ [] →
    (decodeHid P path hid).isSome = true
  | [], _, h => absurd rfl h
  | a :: _, path, _ => by simp only [decodeHid]; exact C05_total P a (1 :: path)
theorem C05_total_list (P : Proc) : (l : List Enc) → (path : List Nat) → (i : Nat) →
    (decodeList P path i l).isSome = true
  | [], _, _ => rfl
  | e :: r, path, i => by
    obtain ⟨x, hx⟩ := Option.isSome_iff_exists.mp (C05_total P e (i :: path))
    obtain ⟨xs, hxs⟩ := Option.isSome_iff_exists.mp (C05_total_list P r path (i + 1))
    simp [decodeList, hx, hxs]
end

/-- in particular every hop succeeds, for every process pair -/
theorem C05_hop_total (P Q : Proc) (vf : Err → Str) (tag : Nat) (e : Err) : (hop P Q vf tag e).isSome = true :=
  C05_total Q _ _

/-- regression of the repaired decoders: the wires on which the pinned tree panicked -/
def cexDet (key : Str) : Det := ⟨key, ⟨key, []⟩, [], .none⟩
theorem C05_barrier_regression :
    (decode Full [1] (.leaf (b!"m") (cexDet k_barrier) [] [])).isSome = true := by decide
theorem C05_http_regression :
    (decode Full [1] (.wrap [] (cexDet k_withHTTPCode) 0 [] (.leaf (b!"c") (cexDet k_errorString) [] []))).isSome = true := by decide

end ErrModel
